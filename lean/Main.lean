/-
  bsmodel — line-protocol driver.
  stdin: one op per line, optionally followed by a TAB and the implementation's answer.
  stdout: `<model answer>\t<agree|DISAGREE|->\t<verdict>` per line.
-/
import BSVerif.Driver.All

def processLine (line : String) : String :=
  let (op, impl) := match line.splitOn "\t" with
    | [o, i] => (o, some i)
    | o :: _ => (o, none)
    | [] => ("", none)
  let toks := (op.splitOn " ").filter (· ≠ "")
  match BSVerif.Driver.dispatch toks impl with
  | some (ans, verdict) =>
    let agree := match impl with
      | some i => if i == ans then "agree" else "DISAGREE"
      | none => "-"
    s!"{ans}\t{agree}\t{verdict}"
  | none => "bad-op\t-\tnospec"

partial def loop (h : IO.FS.Stream) (out : IO.FS.Stream) : IO Unit := do
  let line ← h.getLine
  if line.isEmpty then return ()
  let l := (line.dropEndWhile (fun c => c == '\n' || c == '\r')).toString
  out.putStrLn (processLine l)
  loop h out

def main : IO Unit := do
  let stdin ← IO.getStdin
  let stdout ← IO.getStdout
  loop stdin stdout
  stdout.flush
