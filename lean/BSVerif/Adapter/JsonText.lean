/-
  SPEC: JSON text -> data model, written from RFC 8259 (grammar of §2-§7) and the Unicode encoding
  forms (BSVerif/Utf/Spec.lean), not from RapidJSON.

  * input: the document as Unicode scalar values (after decoding the byte stream)
  * output: `Json` tree; strings as UTF-8 bytes; a number without fraction and exponent that lies in
    [-2^63, 2^64) is an integer, every other number is the nearest binary64 (RFC 8259 §6); a number
    beyond the binary64 range is not accepted (§9 lets a parser set limits on the range of numbers)
  * names may repeat (§4: SHOULD be unique): order and duplicates are kept
  * `\uD800`-`\uDFFF` escapes must form a surrogate pair (§8.2: otherwise not a Unicode string)

  The flag `rj` (false for every SPEC use) turns the same parser into the stand-in for RapidJSON 1.1.0's reader that
  the MODEL uses for `json.load` ops; it adds the deviations observed on the real code: a lone `\uDC00`-`\uDFFF`
  escape passes, and two classes of number literals are not answered (`ub`: all-zero significand that reaches
  `__builtin_clzll(0)` in the full-precision path; `edge`: non-zero literal below half the smallest subnormal).
-/
import BSVerif.Adapter.Num
import BSVerif.Utf.Spec

namespace BSVerif.Adapter.JsonText
open BSVerif.Adapter

def isWs (c : Nat) : Bool := c == 0x20 || c == 0x09 || c == 0x0A || c == 0x0D
def isDigit (c : Nat) : Bool := 0x30 ≤ c && c ≤ 0x39

def skipWs : List Nat → List Nat
  | c :: r => if isWs c then skipWs r else c :: r
  | [] => []

def hexVal (c : Nat) : Option Nat :=
  if 0x30 ≤ c ∧ c ≤ 0x39 then some (c - 0x30)
  else if 0x41 ≤ c ∧ c ≤ 0x46 then some (c - 0x41 + 10)
  else if 0x61 ≤ c ∧ c ≤ 0x66 then some (c - 0x61 + 10)
  else none

def hex4 : List Nat → Option (Nat × List Nat)
  | a :: b :: c :: d :: r => do
    let a ← hexVal a; let b ← hexVal b; let c ← hexVal c; let d ← hexVal d
    pure (a * 4096 + b * 256 + c * 16 + d, r)
  | _ => none

/-- the characters after the opening quote, up to and including the closing quote -/
def parseStringBody (rj : Bool) : Nat → List Nat → List Nat → Option (Str × List Nat)
  | 0, _, _ => none
  | _ + 1, [], _ => none
  | fuel + 1, c :: r, acc =>
    if c = 0x22 then some (acc.reverse.flatMap Utf.Spec.enc8, r)
    else if c = 0x5C then
      match r with
      | [] => none
      | e :: r' =>
        if e = 0x22 ∨ e = 0x5C ∨ e = 0x2F then parseStringBody rj fuel r' (e :: acc)
        else if e = 0x62 then parseStringBody rj fuel r' (0x08 :: acc)
        else if e = 0x66 then parseStringBody rj fuel r' (0x0C :: acc)
        else if e = 0x6E then parseStringBody rj fuel r' (0x0A :: acc)
        else if e = 0x72 then parseStringBody rj fuel r' (0x0D :: acc)
        else if e = 0x74 then parseStringBody rj fuel r' (0x09 :: acc)
        else if e = 0x75 then
          match hex4 r' with
          | none => none
          | some (u, r'') =>
            if 0xD800 ≤ u ∧ u ≤ 0xDBFF then
              match r'' with
              | 0x5C :: 0x75 :: r3 =>
                match hex4 r3 with
                | some (l, r4) =>
                  if 0xDC00 ≤ l ∧ l ≤ 0xDFFF then parseStringBody rj fuel r4 ((0x10000 + (u - 0xD800) * 1024 + (l - 0xDC00)) :: acc)
                  else none
                | none => none
              | _ => none
            else if 0xDC00 ≤ u ∧ u ≤ 0xDFFF then (if rj then parseStringBody rj fuel r'' (u :: acc) else none)
            else parseStringBody rj fuel r'' (u :: acc)
        else none
    else if c < 0x20 then none                      -- control characters must be escaped
    else parseStringBody rj fuel r (c :: acc)

def takeDigits : List Nat → List Nat → List Nat × List Nat
  | c :: r, acc => if isDigit c then takeDigits r (c :: acc) else (acc.reverse, c :: r)
  | [], acc => (acc.reverse, [])

def digitsVal (ds : List Nat) : Nat := ds.foldl (fun a d => a * 10 + (d - 0x30)) 0

/-- exponents beyond this bound are outside what the oracle evaluates (10^n is computed exactly) -/
def maxExp10 : Nat := 5000

inductive NumRes where
  | ok (j : Json) (rest : List Nat)
  | malformed
  | tooBig            -- overflows binary64
  | unevaluated       -- exponent too large for the oracle
  | ub                -- only with `rj`: RapidJSON 1.1.0 full-precision path evaluates __builtin_clzll(0)
  | edge              -- only with `rj`: non-zero literal below half the smallest subnormal (RapidJSON 1.1.0 answers garbage)

def parseNumber (rj : Bool) (cs : List Nat) : NumRes :=
  let (neg, cs1) := match cs with
    | 0x2D :: r => (true, r)
    | _ => (false, cs)
  let (ip, cs2) := takeDigits cs1 []
  if ip.isEmpty then .malformed
  else if ip.length > 1 ∧ ip.head? = some 0x30 then .malformed       -- no leading zeros
  else
    let (fp, cs3, hasFrac, fracOk) := match cs2 with
      | 0x2E :: r => let (f, r') := takeDigits r []; (f, r', true, !f.isEmpty)
      | _ => ([], cs2, false, true)
    if !fracOk then .malformed else
    let (ex, cs4, hasExp, expOk) := match cs3 with
      | c :: r =>
        if c = 0x65 ∨ c = 0x45 then
          let (eneg, r1) := match r with
            | 0x2D :: r' => (true, r')
            | 0x2B :: r' => (false, r')
            | _ => (false, r)
          let (ed, r2) := takeDigits r1 []
          ((if eneg then -(digitsVal ed : Int) else (digitsVal ed : Int)), r2, true, !ed.isEmpty)
        else (0, cs3, false, true)
      | [] => (0, cs3, false, true)
    if !expOk then .malformed else
    let iv : Int := if neg then -(digitsVal ip : Int) else (digitsVal ip : Int)
    if !hasFrac ∧ !hasExp ∧ -(2 ^ 63 : Int) ≤ iv ∧ iv < (2 ^ 64 : Int) then .ok (.int iv) cs4
    else
      let digits := digitsVal (ip ++ fp)
      let e10 : Int := ex - (fp.length : Int)
      if digits = 0 then
        -- RapidJSON 1.1.0 `StrtodFullPrecision`: a zero significand that misses `StrtodFast` (p outside [-22, 37])
        -- reaches `DiyFp::Normalize()` = `__builtin_clzll(0)`: undefined behaviour
        if rj ∧ (e10 < -22 ∨ e10 > 37) then .ub
        else .ok (.dbl (if neg then b64.signBit else 0)) cs4
      else if e10.natAbs > maxExp10 ∨ (ip ++ fp).length > maxExp10 then .unevaluated
      else match f64OfDecimal neg digits e10 with
        | some b => if rj ∧ b % b64.signBit = 0 then .edge else .ok (.dbl b) cs4
        | none => .tooBig

def matchLit (lit : List Nat) (cs : List Nat) : Option (List Nat) :=
  if cs.take lit.length = lit then some (cs.drop lit.length) else none

inductive Res (α : Type) where
  | ok (a : α) (rest : List Nat)
  | malformed
  | tooBig
  | unevaluated
  | ub
  | edge

mutual
def parseValue (rj : Bool) : Nat → List Nat → Res Json
  | 0, _ => .malformed
  | fuel + 1, cs =>
    match skipWs cs with
    | [] => .malformed
    | c :: r =>
      if c = 0x7B then parseMembers rj fuel (skipWs r) [] true
      else if c = 0x5B then parseElems rj fuel (skipWs r) [] true
      else if c = 0x22 then
        match parseStringBody rj (r.length + 1) r [] with
        | some (s, r') => .ok (.str s) r'
        | none => .malformed
      else if c = 0x74 then (match matchLit [0x72, 0x75, 0x65] r with | some r' => .ok (.bool true) r' | none => .malformed)
      else if c = 0x66 then (match matchLit [0x61, 0x6C, 0x73, 0x65] r with | some r' => .ok (.bool false) r' | none => .malformed)
      else if c = 0x6E then (match matchLit [0x75, 0x6C, 0x6C] r with | some r' => .ok .null r' | none => .malformed)
      else if c = 0x2D ∨ isDigit c then
        match parseNumber rj (c :: r) with
        | .ok j r' => .ok j r'
        | .malformed => .malformed
        | .tooBig => .tooBig
        | .unevaluated => .unevaluated
        | .ub => .ub
        | .edge => .edge
      else .malformed
/-- after `[` (whitespace skipped); `first` = no element read yet -/
def parseElems (rj : Bool) : Nat → List Nat → List Json → Bool → Res Json
  | 0, _, _, _ => .malformed
  | fuel + 1, cs, acc, first =>
    match cs with
    | [] => .malformed
    | c :: r =>
      if c = 0x5D ∧ first then .ok (.arr acc.reverse) r
      else
        match parseValue rj fuel cs with
        | .ok v r1 =>
          match skipWs r1 with
          | 0x2C :: r2 => parseElems rj fuel (skipWs r2) (v :: acc) false
          | 0x5D :: r2 => .ok (.arr (v :: acc).reverse) r2
          | _ => .malformed
        | .malformed => .malformed
        | .tooBig => .tooBig
        | .unevaluated => .unevaluated
        | .ub => .ub
        | .edge => .edge
def parseMembers (rj : Bool) : Nat → List Nat → List (Str × Json) → Bool → Res Json
  | 0, _, _, _ => .malformed
  | fuel + 1, cs, acc, first =>
    match cs with
    | [] => .malformed
    | c :: r =>
      if c = 0x7D ∧ first then .ok (.obj acc.reverse) r
      else if c = 0x22 then
        match parseStringBody rj (r.length + 1) r [] with
        | none => .malformed
        | some (k, r1) =>
          match skipWs r1 with
          | 0x3A :: r2 =>
            match parseValue rj fuel r2 with
            | .ok v r3 =>
              match skipWs r3 with
              | 0x2C :: r4 => parseMembers rj fuel (skipWs r4) ((k, v) :: acc) false
              | 0x7D :: r4 => .ok (.obj ((k, v) :: acc).reverse) r4
              | _ => .malformed
            | .malformed => .malformed
            | .tooBig => .tooBig
            | .unevaluated => .unevaluated
            | .ub => .ub
            | .edge => .edge
          | _ => .malformed
      else .malformed
end

inductive DocRes where
  | ok (j : Json)
  | malformed
  | tooBig
  | unevaluated
  | ub
  | edge
  deriving Repr

/-- JSON-text = ws value ws -/
def parseDoc (rj : Bool) (cs : List Nat) : DocRes :=
  match parseValue rj (cs.length + 2) cs with
  | .ok j rest => if (skipWs rest).isEmpty then .ok j else .malformed
  | .malformed => .malformed
  | .tooBig => .tooBig
  | .unevaluated => .unevaluated
  | .ub => .ub
  | .edge => .edge

/-! ### byte streams -/

inductive Enc where
  | utf8 | utf16le | utf16be | utf32le | utf32be
  deriving DecidableEq, Repr

def Enc.width : Enc → Nat
  | .utf8 => 8 | .utf16le | .utf16be => 16 | _ => 32
def Enc.bigEndian : Enc → Bool
  | .utf16be | .utf32be => true | _ => false
def Enc.bom : Enc → List Nat
  | .utf8 => [0xEF, 0xBB, 0xBF] | .utf16le => [0xFF, 0xFE] | .utf16be => [0xFE, 0xFF]
  | .utf32le => [0xFF, 0xFE, 0, 0] | .utf32be => [0, 0, 0xFE, 0xFF]

/-- group bytes into code units; `none` when a unit is cut -/
def toUnits (e : Enc) : Nat → List Nat → Option (List Nat)
  | 0, _ => some []
  | fuel + 1, bs =>
    if bs.isEmpty then some [] else
    let n := e.width / 8
    if bs.length < n then none else
    let u := if e.bigEndian then (bs.take n).foldl (fun a b => a * 256 + b) 0 else (bs.take n).foldr (fun b a => a * 256 + b) 0
    (toUnits e fuel (bs.drop n)).map (u :: ·)

/-- bytes (without BOM) -> scalar values; `none` when ill-formed -/
def decode (e : Enc) (bs : List Nat) : Option (List Nat) := do
  let us ← toUnits e (bs.length + 1) bs
  let segs := Utf.Spec.segment e.width us
  if Utf.Spec.hasBad segs then none else some (Utf.Spec.scalarsOf segs)

def stripBom (e : Enc) (bs : List Nat) : Option (List Nat) :=
  if bs.take e.bom.length = e.bom then some (bs.drop e.bom.length) else none

end BSVerif.Adapter.JsonText
