/-
  MODEL of `Convert::To<T>(const char*)` for arithmetic `T` as the XML adapter uses it for element text and
  attribute values (conversion_detail/convert_fundamental.h:71-172): skip leading blanks, `std::from_chars`,
  map `errc` to exceptions, reject "digits '.' digit" for integer targets; bool from "0|1|true|false".

  `std::from_chars` (C++17 [charconv.from.chars]) is part of the platform: integers = `-`? digits (no `+`,
  `-` only for signed types), the longest matching prefix is consumed; floating = strtod's subject sequence
  in the "C" locale for `chars_format::general` without a leading `+` (decimal, inf/infinity/nan/nan(...)),
  correctly rounded (libstdc++ 12: fast_float), `result_out_of_range` when the result is infinite or
  rounds to zero from a non-zero significand.
-/
import BSVerif.Adapter.Num

namespace BSVerif.Adapter.NumText
open BSVerif.Adapter

def isDigit (c : Nat) : Bool := 0x30 ≤ c && c ≤ 0x39
def isBlank (c : Nat) : Bool := c == 0x20 || c == 0x09

def skipBlanks : List Nat → List Nat
  | c :: r => if isBlank c then skipBlanks r else c :: r
  | [] => []

def takeDigits : List Nat → List Nat → List Nat × List Nat
  | c :: r, acc => if isDigit c then takeDigits r (c :: acc) else (acc.reverse, c :: r)
  | [], acc => (acc.reverse, [])

def digitsVal (ds : List Nat) : Nat := ds.foldl (fun a d => a * 10 + (d - 0x30)) 0

/-- `std::from_chars(first, last, T& value)` for an integer type: result and the unconsumed rest -/
def fromCharsInt (t : IntTy) (cs : List Nat) : Except ConvErr Int × List Nat :=
  let (neg, cs1) := match cs with
    | 0x2D :: r => if t.signed then (true, r) else (false, cs)      -- no minus sign for unsigned types
    | _ => (false, cs)
  let (ds, rest) := takeDigits cs1 []
  if ds.isEmpty then (.error .invalidArgument, cs)
  else
    let v : Int := if neg then -(digitsVal ds : Int) else (digitsVal ds : Int)
    if t.inRange v then (.ok v, rest) else (.error .outOfRange, rest)

/-- `To(string_view, T&)` for integral `T` other than bool -/
def convTextInt (t : IntTy) (text : Str) : Except ConvErr Int :=
  let cs := skipBlanks text
  match fromCharsInt t cs with
  | (.error e, _) => .error e
  | (.ok v, rest) =>
    -- "parsing a float number to integer is not allowed"
    match rest with
    | 0x2E :: d :: _ => if isDigit d then .error .invalidArgument else .ok v
    | _ => .ok v

def lower (c : Nat) : Nat := if 0x41 ≤ c ∧ c ≤ 0x5A then c + 32 else c

def isPrefixCI (p : List Nat) (cs : List Nat) : Bool := (cs.take p.length).map lower == p

/-- `To(string_view, bool&)` -/
def convTextBool (text : Str) : Except ConvErr Bool :=
  match skipBlanks text with
  | [] => .error .invalidArgument
  | c :: r =>
    if isDigit c then
      let nextIsDigit := match r with | d :: _ => isDigit d | [] => false
      if c = 0x31 ∧ !nextIsDigit then .ok true
      else if c = 0x30 ∧ !nextIsDigit then .ok false
      else .error .outOfRange
    else if isPrefixCI [0x74, 0x72, 0x75, 0x65] (c :: r) then .ok true
    else if isPrefixCI [0x66, 0x61, 0x6C, 0x73, 0x65] (c :: r) then .ok false
    else .error .invalidArgument

/-- scanned decimal floating literal: significand digits (as a number and their count), decimal exponent -/
structure Dec where
  neg : Bool
  digits : Nat
  exp10 : Int
  rest : List Nat

/-- the decimal form of strtod's subject sequence (without sign handling of `+`) -/
def scanDecimal (cs : List Nat) : Option Dec :=
  let (neg, cs1) := match cs with
    | 0x2D :: r => (true, r)
    | _ => (false, cs)
  let (ip, cs2) := takeDigits cs1 []
  let (fp, cs3) := match cs2 with
    | 0x2E :: r => let (f, r') := takeDigits r []; if ip.isEmpty ∧ f.isEmpty then ([], cs2) else (f, r')
    | _ => ([], cs2)
  if ip.isEmpty ∧ fp.isEmpty then none
  else
    let (ex, cs4) : Int × List Nat := match cs3 with
      | c :: r =>
        if c = 0x65 ∨ c = 0x45 then
          let (eneg, r1) := match r with
            | 0x2D :: r' => (true, r')
            | 0x2B :: r' => (false, r')
            | _ => (false, r)
          let (ed, r2) := takeDigits r1 []
          if ed.isEmpty then (0, cs3) else ((if eneg then -(digitsVal ed : Int) else (digitsVal ed : Int)), r2)
        else (0, cs3)
      | [] => (0, cs3)
    some ⟨neg, digitsVal (ip ++ fp), ex - (fp.length : Int), cs4⟩

/-- exponents beyond this bound are not evaluated (10^n is computed exactly) -/
def maxExp10 : Nat := 5000

inductive FloatRes where
  | ok (bits : Nat)
  | err (e : ConvErr)
  | unevaluated

/-- `To(string_view, T&)` for a floating `T` (`f` = its format): blanks, `std::from_chars(..., general)` -/
def convTextFloat (f : Fmt) (text : Str) : FloatRes :=
  let cs := skipBlanks text
  let (neg, body) := match cs with
    | 0x2D :: r => (true, r)
    | _ => (false, cs)
  let sign := if neg then f.signBit else 0
  if isPrefixCI [0x69, 0x6E, 0x66] body then .ok (sign + f.infBits)                        -- inf / infinity
  else if isPrefixCI [0x6E, 0x61, 0x6E] body then .ok (sign + f.infBits + 2 ^ (f.mbits - 1))   -- quiet NaN
  else
    match scanDecimal cs with
    | none => .err .invalidArgument
    | some d =>
      if d.exp10.natAbs > maxExp10 then .unevaluated
      else
        let mag := if d.exp10 ≥ 0 then roundRat f (d.digits * 10 ^ d.exp10.toNat) 1 else roundRat f d.digits (10 ^ (-d.exp10).toNat)
        if mag ≥ f.infBits then .err .outOfRange
        else if mag = 0 ∧ d.digits ≠ 0 then .err .outOfRange
        else .ok (sign + mag)

end BSVerif.Adapter.NumText
