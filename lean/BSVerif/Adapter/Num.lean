/-
  Numbers in the adapters.

  MODEL part: `Convert::Detail::To(arith, arith)` (conversion_detail/convert_fundamental.h:20-66) as the
  adapters use it through `ConvertByPolicy` (serialization_detail/archive_base.h:114-165):
  cast, cast back, compare, sign check.

  IEEE-754 part (from the standard): round-to-nearest-even of a positive rational to binary64 /
  binary32 bit patterns; used for int -> double (`GetDouble()` of an integer), double -> float
  (`static_cast<float>`), decimal literal -> double (a correctly rounding parser).
-/
import BSVerif.Adapter.Basic

namespace BSVerif.Adapter

inductive ConvErr where
  | outOfRange          -- std::out_of_range  -> overflow policy
  | invalidArgument     -- std::invalid_argument -> mismatched-types policy
  deriving DecidableEq, Repr

/-- integer -> integer, `src` is the type RapidJSON hands out (int64_t or uint64_t) -/
def convIntToInt (src tgt : IntTy) (v : Int) : Except ConvErr Int :=
  if src = tgt then .ok v                      -- `is_same_v<TSource, TTarget>`: plain assignment
  else
    let value := tgt.wrap v                    -- static_cast<TTarget>(sourceValue)
    let result := decide (src.wrap value = v) &&
      !((decide (value > 0) && decide (v < 0)) || (decide (value < 0) && decide (v > 0)))
    if result then .ok value else .error .outOfRange

/-- integer -> bool: `static_cast<bool>(v)`, back to the source type, compare -/
def convIntToBool (v : Int) : Except ConvErr Bool :=
  let value := decide (v ≠ 0)
  if (if value then (1 : Int) else 0) = v then .ok value else .error .outOfRange

/-- bool -> integer: 0 / 1 always survive the cast back -/
def convBoolToInt (b : Bool) : Int := if b then 1 else 0

/-! ### IEEE-754 binary interchange formats as bit patterns -/

structure Fmt where
  mbits : Nat      -- stored significand bits (52 / 23)
  ebits : Nat      -- exponent bits (11 / 8)
  deriving Repr

def b64 : Fmt := ⟨52, 11⟩
def b32 : Fmt := ⟨23, 8⟩

def Fmt.bias (f : Fmt) : Nat := 2 ^ (f.ebits - 1) - 1
def Fmt.infBits (f : Fmt) : Nat := (2 ^ f.ebits - 1) * 2 ^ f.mbits
def Fmt.signBit (f : Fmt) : Nat := 2 ^ (f.mbits + f.ebits)

/-- floor(log2 (p/q)) for p, q > 0 -/
def ilog2Rat (p q : Nat) : Int :=
  let e0 : Int := (Nat.log2 p : Int) - (Nat.log2 q : Int)
  -- 2^(e0-1) < p/q < 2^(e0+1)
  let ge : Bool := if e0 ≥ 0 then decide (p ≥ q * 2 ^ e0.toNat) else decide (p * 2 ^ (-e0).toNat ≥ q)
  if ge then e0 else e0 - 1

/-- magnitude bits of the float nearest to p/q (ties to even); overflow gives the infinity pattern -/
def roundRat (f : Fmt) (p q : Nat) : Nat :=
  if p = 0 ∨ q = 0 then 0 else
  let emin : Int := 1 - (f.bias : Int)
  let e := ilog2Rat p q
  let ee := if e < emin then emin else e
  let qe : Int := ee - (f.mbits : Int)             -- exponent of the last place
  let num := if qe ≤ 0 then p * 2 ^ (-qe).toNat else p
  let den := if qe ≤ 0 then q else q * 2 ^ qe.toNat
  let n := num / den
  let r := num % den
  let n' := if 2 * r > den ∨ (2 * r = den ∧ n % 2 = 1) then n + 1 else n
  let be : Nat := (ee + (f.bias : Int)).toNat      -- ≥ 1
  let bits := (be - 1) * 2 ^ f.mbits + n'
  if bits ≥ f.infBits then f.infBits else bits

/-- finite magnitude bits -> (significand, binary exponent): value = sig * 2^exp -/
def decodeMag (f : Fmt) (mag : Nat) : Nat × Int :=
  let be := mag / 2 ^ f.mbits
  let frac := mag % 2 ^ f.mbits
  if be = 0 then (frac, 1 - (f.bias : Int) - (f.mbits : Int))
  else (2 ^ f.mbits + frac, (be : Int) - (f.bias : Int) - (f.mbits : Int))

def isFiniteBits (f : Fmt) (bits : Nat) : Bool := decide (bits % f.signBit < f.infBits)
def isNaNBits (f : Fmt) (bits : Nat) : Bool := decide (bits % f.signBit > f.infBits)

/-- `static_cast<double>(v)` for a 64-bit integer -/
def f64OfInt (v : Int) : Nat :=
  if v < 0 then b64.signBit + roundRat b64 v.natAbs 1 else roundRat b64 v.natAbs 1

/-- FLT_MAX as a double -/
def fltMaxAsF64 : Nat := 0x47EFFFFFE0000000

/-- `static_cast<float>(d)` of a finite double (round to nearest even; may overflow to infinity) -/
def f32RoundOfF64 (bits : Nat) : Nat :=
  let sign := bits / b64.signBit % 2
  let mag := bits % b64.signBit
  let (sig, ex) := decodeMag b64 mag
  let m := if ex ≥ 0 then roundRat b32 (sig * 2 ^ ex.toNat) 1 else roundRat b32 sig (2 ^ (-ex).toNat)
  sign * b32.signBit + m

/-- double -> float of `Convert::Detail::To`: range test `lowest() <= v <= max()` (false for NaN), then cast -/
def convF64ToF32 (bits : Nat) : Except ConvErr Nat :=
  if bits % b64.signBit ≤ fltMaxAsF64 then .ok (f32RoundOfF64 bits) else .error .outOfRange

/-- the double that a float widens to (exact) -/
def f64OfF32 (bits : Nat) : Nat :=
  let sign := bits / b32.signBit % 2
  let mag := bits % b32.signBit
  if mag ≥ b32.infBits then
    -- inf / NaN: exponent all ones, payload shifted
    sign * b64.signBit + b64.infBits + (mag - b32.infBits) * 2 ^ 29
  else
    let (sig, ex) := decodeMag b32 mag
    let m := if ex ≥ 0 then roundRat b64 (sig * 2 ^ ex.toNat) 1 else roundRat b64 sig (2 ^ (-ex).toNat)
    sign * b64.signBit + m

/-- decimal literal `(-1)^neg * digits * 10^exp10` -> nearest double; `none` when it overflows -/
def f64OfDecimal (neg : Bool) (digits : Nat) (exp10 : Int) : Option Nat :=
  let mag := if exp10 ≥ 0 then roundRat b64 (digits * 10 ^ exp10.toNat) 1 else roundRat b64 digits (10 ^ (-exp10).toNat)
  if mag ≥ b64.infBits then none else some ((if neg then b64.signBit else 0) + mag)

end BSVerif.Adapter
