/-
  JSON / XML archive adapters (include/bitserializer/rapidjson_archive.h, pugixml_archive.h):
  shared data types.

  * `Json`, `XNode`/`XElem` — the third-party DOM as a tree (RapidJSON `GenericValue`, pugixml `xml_node`).
  * `Val` — the abstract data model of the application value that is saved (typed scalars, arrays,
    objects with keys; an object field may be an XML attribute).
  * `Schema` — the C++ target type of a load.
  * `LVal` — what a load leaves in a fresh target (`unset` = not loaded, target untouched).
-/
import BSVerif.Basic

namespace BSVerif.Adapter

/-! ### C++ integer types -/

inductive IntTy where
  | i8 | u8 | i16 | u16 | i32 | u32 | i64 | u64 | ll | ull
  deriving DecidableEq, Repr

def IntTy.bits : IntTy → Nat
  | .i8 | .u8 => 8 | .i16 | .u16 => 16 | .i32 | .u32 => 32 | _ => 64

def IntTy.signed : IntTy → Bool
  | .i8 | .i16 | .i32 | .i64 | .ll => true
  | _ => false

def IntTy.min (t : IntTy) : Int := if t.signed then -(2 ^ (t.bits - 1) : Int) else 0
def IntTy.max (t : IntTy) : Int := if t.signed then (2 ^ (t.bits - 1) : Int) - 1 else (2 ^ t.bits : Int) - 1
def IntTy.inRange (t : IntTy) (v : Int) : Bool := decide (t.min ≤ v) && decide (v ≤ t.max)

/-- `static_cast<T>(v)`: reduction modulo 2^bits into the range of `T` (two's complement) -/
def IntTy.wrap (t : IntTy) (v : Int) : Int :=
  let m := v % (2 ^ t.bits : Int)
  if t.signed && decide (m ≥ (2 ^ (t.bits - 1) : Int)) then m - (2 ^ t.bits : Int) else m

/-! ### leaf types, schemas, values -/

inductive LeafTy where
  | bool | int (t : IntTy) | f32 | f64 | str | null
  deriving DecidableEq, Repr

abbrev Str := List Nat      -- UTF-8 bytes (std::string)

/-- a typed scalar of the application -/
inductive Scalar where
  | null
  | bool (b : Bool)
  | int (t : IntTy) (v : Int)
  | f32 (bits : Nat)
  | f64 (bits : Nat)
  | str (s : Str)
  deriving DecidableEq, Repr

def Scalar.ty : Scalar → LeafTy
  | .null => .null | .bool _ => .bool | .int t _ => .int t | .f32 _ => .f32 | .f64 _ => .f64 | .str _ => .str

/-- application value: scalars, arrays, objects with keys (`attr = true`: the field is an XML attribute) -/
inductive Val where
  | sc (s : Scalar)
  | arr (items : List Val)
  | obj (fields : List (Bool × Str × Val))
  | none                                   -- empty std::optional (saved as null)
  deriving Repr

/-- C++ target type -/
inductive Schema where
  | leaf (t : LeafTy)
  | vec (e : Schema)
  | cls (fields : List (Bool × Str × Schema))
  | map (e : Schema)
  | opt (e : Schema)
  deriving Repr

/-- result of a load into a fresh target -/
inductive LVal where
  | unset                                   -- not loaded; the target keeps its initial value
  | sc (s : Scalar)
  | arr (items : List LVal)
  | obj (fields : List LVal)                -- class: positional
  | map (entries : List (Str × LVal))       -- std::map: sorted by key
  | none                                    -- std::optional reset to nullopt
  deriving Repr

inductive Err where
  | parsing | mismatched | overflow | outOfRange | utf | unsupportedEncoding
  deriving DecidableEq, Repr

inductive Policy where
  | throwError | skip
  deriving DecidableEq, Repr

structure Opts where
  overflow : Policy
  mismatched : Policy
  deriving DecidableEq, Repr

/-! ### DOMs -/

/-- RapidJSON value. A number is either an integer in [-2^63, 2^64) (flags kInt64/kUint64 follow from the
    value) or a double (only kDoubleFlag). Object members keep their order; duplicates are possible. -/
inductive Json where
  | null
  | bool (b : Bool)
  | int (v : Int)
  | dbl (bits : Nat)
  | str (s : Str)
  | arr (items : List Json)
  | obj (members : List (Str × Json))
  deriving Repr

/-- pugixml node of the kinds that `parse_default` keeps below the document: elements and character data
    (PCDATA and CDATA both answer `text()`) -/
inductive XNode where
  | elem (name : Str) (attrs : List (Str × Str)) (children : List XNode)
  | text (s : Str)
  deriving Repr

end BSVerif.Adapter
