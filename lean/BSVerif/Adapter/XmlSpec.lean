/-
  SPEC for the XML adapter (from the property statements C08 / C01 / C04 and the documented mapping of the
  library: arrays of `value` / `array` / `object` items, objects with named children and attributes,
  "an empty node is null"), over the XML data model (`XmlText.toInfoset`: character data merged).

  * `domMatches`  — the document element is the intended data model of the saved value: names, nesting,
                    order of children, attributes (as a set), scalar lexical values. Floating-point text is
                    compared by VALUE (the spelling belongs to pugixml: `NumFmt`).
  * `expectLoad`  — what loading a document into a target type must give. White space between child elements is
                    insignificant; numerals are `-`?digits (integers, booleans 0/1/true/false) or decimal floating
                    literals, optionally surrounded by blanks; anything else is another kind (mismatched-types policy).
-/
import BSVerif.Adapter.XmlModel
import BSVerif.Adapter.Spec

namespace BSVerif.Adapter.XmlSpec
open BSVerif.Adapter

def isS (c : Nat) : Bool := c == 0x20 || c == 0x9 || c == 0xD || c == 0xA
def wsOnly (s : Str) : Bool := s.all isS

def trimBlanks (s : Str) : Str :=
  let l := NumText.skipBlanks s
  (NumText.skipBlanks l.reverse).reverse

inductive Num where
  | int (v : Int) (neg : Bool)       -- neg: written with a minus sign (distinguishes -0 for floating targets)
  | dec (neg : Bool) (digits : Nat) (exp10 : Int)
  | notNumeral

/-- the whole text is one numeral (blanks around it allowed) -/
def numeral (s : Str) : Num :=
  let t := trimBlanks s
  let (neg, body) := match t with
    | 0x2D :: r => (true, r)
    | _ => (false, t)
  let (ds, rest) := NumText.takeDigits body []
  if !ds.isEmpty ∧ rest.isEmpty then .int (if neg then -(NumText.digitsVal ds : Int) else NumText.digitsVal ds) neg
  else match NumText.scanDecimal t with
    | some d => if d.rest.isEmpty then .dec d.neg d.digits d.exp10 else .notNumeral
    | none => .notNumeral

inductive Expect where
  | is (r : Except Err (Option Scalar))
  | nospec

def policyOverflow (o : Opts) : Except Err (Option Scalar) := if o.overflow = .throwError then .error .overflow else .ok none
def policyMismatch (o : Opts) : Except Err (Option Scalar) := if o.mismatched = .throwError then .error .mismatched else .ok none

def floatOf (f : Fmt) (neg : Bool) (digits : Nat) (exp10 : Int) : Option (Option Nat) :=
  -- some none = overflow; none = not evaluated
  if exp10.natAbs > NumText.maxExp10 then none else
  let mag := if exp10 ≥ 0 then roundRat f (digits * 10 ^ exp10.toNat) 1 else roundRat f digits (10 ^ (-exp10).toNat)
  if mag ≥ f.infBits then some none
  else if mag = 0 ∧ digits ≠ 0 then none           -- underflow to zero: left open
  else some (some ((if neg then f.signBit else 0) + mag))

/-- `inf`, `nan`, ... : XML has no standard spelling for non-finite numbers; left open -/
def nonFiniteWord (text : Str) : Bool :=
  let t := trimBlanks text
  let body := match t with
    | 0x2D :: r => r
    | _ => t
  NumText.isPrefixCI [0x69, 0x6E, 0x66] body || NumText.isPrefixCI [0x6E, 0x61, 0x6E] body

/-- a text cell (element content or attribute value) into an arithmetic target -/
def expectText (o : Opts) (t : LeafTy) (text : Str) : Expect :=
  if (t = .f32 ∨ t = .f64) ∧ nonFiniteWord text then .nospec else
  match t with
  | .str => .is (.ok (some (.str text)))
  | .null => .is (.ok none)
  | .bool =>
    let w := (trimBlanks text).map NumText.lower
    if w = XmlModel.strTrue then .is (.ok (some (.bool true)))
    else if w = XmlModel.strFalse then .is (.ok (some (.bool false)))
    else match numeral text with
      | .int v _ => .is (if v = 0 then .ok (some (.bool false)) else if v = 1 then .ok (some (.bool true)) else policyOverflow o)
      | _ => .is (policyMismatch o)
  | .int ty =>
    match numeral text with
    | .int v _ => .is (if ty.inRange v then .ok (some (.int ty v)) else policyOverflow o)
    | _ => .is (policyMismatch o)                   -- a floating literal is another kind for an integer target
  | .f64 =>
    match numeral text with
    | .int v neg => .is (.ok (some (.f64 (if v = 0 ∧ neg then b64.signBit else f64OfInt v))))
    | .dec neg d e => (match floatOf b64 neg d e with
      | some (some b) => .is (.ok (some (.f64 b)))
      | some none => .is (policyOverflow o)
      | none => .nospec)
    | .notNumeral => .is (policyMismatch o)
  | .f32 =>
    match numeral text with
    | .int v neg => (match floatOf b32 neg v.natAbs 0 with
      | some (some b) => .is (.ok (some (.f32 b)))
      | some none => .is (policyOverflow o)
      | none => .nospec)
    | .dec neg d e => (match floatOf b32 neg d e with
      | some (some b) => .is (.ok (some (.f32 b)))
      | some none => .is (policyOverflow o)
      | none => .nospec)
    | .notNumeral => .is (policyMismatch o)

/-! ### the intended data model of a saved value -/

def elemChildren (children : List XNode) : List XNode :=
  children.filter fun c => match c with | .elem _ _ _ => true | .text s => !wsOnly s

def hasElemChild (children : List XNode) : Bool :=
  children.any fun c => match c with | .elem _ _ _ => true | _ => false

/-- lexical value of a scalar: `none` = no character data -/
def scalarMatches (s : Scalar) (text : Option Str) : Bool :=
  match s, text with
  | .null, none => true
  | .bool b, some t => t == (if b then XmlModel.strTrue else XmlModel.strFalse)
  | .int _ v, some t => t == XmlModel.decimal v
  | .str s, none => s.isEmpty
  | .str s, some t => s == t
  | .f64 b, some t => (match numeral t with
    | .int v neg => (if v = 0 ∧ neg then b64.signBit else f64OfInt v) == b
    | .dec neg d e => floatOf b64 neg d e == some (some b)
    | .notNumeral => false)
  | .f32 b, some t => (match numeral t with
    | .int v neg => floatOf b32 neg v.natAbs 0 == some (some b)
    | .dec neg d e => floatOf b32 neg d e == some (some b)
    | .notNumeral => false)
  | _, _ => false

def textContent (children : List XNode) : Option (Option Str) :=
  -- some none: empty; some (some t): character data only; none: has child elements
  match children with
  | [] => some none
  | [.text t] => some (some t)
  | _ => none

mutual
def domMatches (name : Str) : Val → XNode → Bool
  | .sc s, .elem n attrs children =>
    n == name && attrs.isEmpty && (match textContent children with | some t => scalarMatches s t | none => false)
  | .none, .elem n attrs children => n == name && attrs.isEmpty && children.isEmpty
  | .arr items, .elem n attrs children => n == name && attrs.isEmpty && itemsMatch items (elemChildren children)
  | .obj fields, .elem n attrs children =>
    n == name && attrsMatch fields attrs && attrs.length == (fields.filter (·.1)).length && childrenMatch fields (elemChildren children)
  | _, _ => false
def itemsMatch : List Val → List XNode → Bool
  | [], [] => true
  | v :: r, n :: ns => domMatches (XmlModel.itemName v) v n && itemsMatch r ns
  | _, _ => false
/-- every attribute field is present with its lexical value (attribute order is not significant) -/
def attrsMatch : List (Bool × Str × Val) → List (Str × Str) → Bool
  | [], _ => true
  | (true, k, .sc s) :: r, attrs =>
    (match XmlModel.attrNamed k attrs with
     | some t => (match s with | .null => t.isEmpty | .str x => x == t | s => scalarMatches s (some t))
     | none => false) && attrsMatch r attrs
  | (true, k, _) :: r, attrs => (XmlModel.attrNamed k attrs == some []) && attrsMatch r attrs
  | (false, _, _) :: r, attrs => attrsMatch r attrs
def childrenMatch : List (Bool × Str × Val) → List XNode → Bool
  | [], [] => true
  | (true, _, _) :: r, ns => childrenMatch r ns
  | (false, k, v) :: r, n :: ns => domMatches k v n && childrenMatch r ns
  | _, _ => false
end

/-! ### expected result of a load -/

inductive Out where
  | is (r : Except Err LVal)
  | nospec

def ofExpect : Expect → Out
  | .is (.ok (some s)) => .is (.ok (.sc s))
  | .is (.ok none) => .is (.ok .unset)
  | .is (.error e) => .is (.error e)
  | .nospec => .nospec

def lookupUnique (k : Str) (children : List XNode) : Option (Option XNode) :=
  match (children.filter fun c => match c with | .elem n _ _ => n == k | _ => false) with
  | [] => some none
  | [c] => some (some c)
  | _ => none

def seqOut (f : XNode → Out) : List XNode → (List LVal → Out) → Out
  | [], k => k []
  | n :: r, k =>
    match f n with
    | .is (.ok v) => seqOut f r (fun vs => k (v :: vs))
    | other => other

def nameOf : XNode → Str
  | .elem n _ _ => n
  | .text _ => []

def entriesOut (f : Option XNode → Out) (all : List XNode) : List XNode → (List (Str × LVal) → Out) → Out
  | [], k => k []
  | c :: r, k =>
    match lookupUnique (nameOf c) all with
    | none => .nospec
    | some jv =>
      match f jv with
      | .is (.ok v) => entriesOut f all r (fun es => k (Spec.sortedInsert (nameOf c) v es))
      | other => other

/-- classification of an element's content for a container target -/
inductive Content where
  | elements (cs : List XNode)     -- child elements only (white space between them ignored); possibly none
  | text                           -- character data only
  | mixed

def contentOf (children : List XNode) : Content :=
  let sig := elemChildren children
  if sig.all (fun c => match c with | .elem _ _ _ => true | _ => false) then .elements sig
  else if !hasElemChild children then .text
  else .mixed

def scopeMismatch (o : Opts) : Out := .is (if o.mismatched = .throwError then .error .mismatched else .ok .unset)

mutual
def expectLoad (o : Opts) : Schema → Option XNode → Out
  | .leaf _, none => .is (.ok .unset)
  | .leaf t, some n =>
    match n with
    | .elem _ _ children =>
      (match textContent children with
       | some none => .is (.ok .unset)                       -- an empty element is null
       | some (some text) => ofExpect (expectText o t text)
       | none => .nospec)                                     -- child elements where a scalar is expected
    | .text _ => .nospec
  | .vec _, none => .is (.ok .unset)
  | .vec e, some n =>
    match n with
    | .elem _ _ children =>
      (match contentOf children with
       | .elements cs => seqOut (fun c => expectLoad o e (some c)) cs (fun vs => .is (.ok (.arr vs)))
       | .text => scopeMismatch o
       | .mixed => .nospec)
    | .text _ => .nospec
  | .cls _, none => .is (.ok .unset)
  | .cls fs, some n =>
    match n with
    | .elem _ attrs children =>
      (match contentOf children with
       | .elements cs => expectFields o fs attrs cs (fun vs => .is (.ok (.obj vs)))
       | .text => scopeMismatch o
       | .mixed => .nospec)
    | .text _ => .nospec
  | .map _, none => .is (.ok .unset)
  | .map e, some n =>
    match n with
    | .elem _ _ children =>
      (match contentOf children with
       | .elements cs => entriesOut (fun c => expectLoad o e c) cs cs (fun es => .is (.ok (.map es)))
       | .text => scopeMismatch o
       | .mixed => .nospec)
    | .text _ => .nospec
  | .opt e, n =>
    match expectLoad o e n with
    | .is (.ok .unset) => .is (.ok .none)
    | r => r
def expectFields (o : Opts) : List (Bool × Str × Schema) → List (Str × Str) → List XNode → (List LVal → Out) → Out
  | [], _, _, k => k []
  | (true, key, s) :: r, attrs, cs, k =>
    let leafOut (t : LeafTy) : Out :=
      match XmlModel.attrNamed key attrs with
      | none => .is (.ok (if t = .null then .sc .null else .unset))
      | some v =>
        match t with
        | .null => .is (.ok (.sc .null))
        | .str => .is (.ok (.sc (.str v)))
        | _ => if v.isEmpty then .is (.ok .unset) else ofExpect (expectText o t v)
    let v : Out := match s with
      | .leaf t => leafOut t
      | .opt (.leaf t) => (match leafOut t with | .is (.ok .unset) => .is (.ok .none) | other => other)
      | _ => .nospec
    match v with
    | .is (.ok v) => expectFields o r attrs cs (fun vs => k (v :: vs))
    | other => other
  | (false, key, s) :: r, attrs, cs, k =>
    match lookupUnique key cs with
    | none => .nospec
    | some jv =>
      match expectLoad o s jv with
      | .is (.ok v) => expectFields o r attrs cs (fun vs => k (v :: vs))
      | other => other
end

/-- root level: the root scope opens the document element as array / object; a text-only root is a mismatch for neither
    (the root scope does not look at the content): an element with character data only yields an empty container -/
def expectRoot (o : Opts) (key : Option Str) (s : Schema) (root : XNode) : Out :=
  match s with
  | .leaf _ | .opt _ => .nospec
  | _ =>
    let named := match key with
      | none => true
      | some k => nameOf root == k
    if !named then .is (.ok .unset)
    else match root with
      | .elem _ _ children =>
        (match contentOf children with
         | .elements _ => expectLoad o s (some root)
         | _ => .nospec)
      | .text _ => .nospec

end BSVerif.Adapter.XmlSpec
