/-
  SPEC for C08 / C01 / C04 at the adapters (written from the property statements and the library's
  documented conversion rules, not from the adapter code):

  * `DomOf v d`   — `d` is the intended JSON data model of the application value `v`:
                    same nesting, same names in the same order, same array order, scalars with
                    their exact lexical value (an integer is an integer of that value; a float is the
                    binary64 of exactly that value; text is the same UTF-8 text)
  * `expectLoad`  — what loading a JSON data model into a target type must give: objects are finite
                    maps (lookup by name), arrays are sequences, numbers load exactly or are
                    reported per policy (C04), a value of another kind goes to the mismatched-types
                    policy, `null` leaves a target unset.
-/
import BSVerif.Adapter.Num

namespace BSVerif.Adapter.Spec
open BSVerif.Adapter

/-! ### equality of DOM trees (nested inductive: no derived DecidableEq) -/

mutual
def jsonEq : Json → Json → Bool
  | .null, .null => true
  | .bool a, .bool b => a == b
  | .int a, .int b => a == b
  | .dbl a, .dbl b => a == b
  | .str a, .str b => a == b
  | .arr a, .arr b => jsonListEq a b
  | .obj a, .obj b => jsonMembersEq a b
  | _, _ => false
def jsonListEq : List Json → List Json → Bool
  | [], [] => true
  | a :: r, b :: s => jsonEq a b && jsonListEq r s
  | _, _ => false
def jsonMembersEq : List (Str × Json) → List (Str × Json) → Bool
  | [], [] => true
  | (k, a) :: r, (l, b) :: s => k == l && jsonEq a b && jsonMembersEq r s
  | _, _ => false
end

/-! ### the intended data model of a saved value -/

/-- lexical value of a scalar in the JSON data model -/
def scalarDom : Scalar → Json
  | .null => .null
  | .bool b => .bool b
  | .int _ v => .int v
  | .f32 b => .dbl (f64OfF32 b)
  | .f64 b => .dbl b
  | .str s => .str s

mutual
inductive DomOf : Val → Json → Prop where
  | sc (s : Scalar) : DomOf (.sc s) (scalarDom s)
  | none : DomOf .none .null
  | arr {items : List Val} {js : List Json} : DomOfList items js → DomOf (.arr items) (.arr js)
  | obj {fields : List (Bool × Str × Val)} {ms : List (Str × Json)} : DomOfFields fields ms → DomOf (.obj fields) (.obj ms)
inductive DomOfList : List Val → List Json → Prop where
  | nil : DomOfList [] []
  | cons {v j vs js} : DomOf v j → DomOfList vs js → DomOfList (v :: vs) (j :: js)
inductive DomOfFields : List (Bool × Str × Val) → List (Str × Json) → Prop where
  | nil : DomOfFields [] []
  | cons {a k v j fs ms} : DomOf v j → DomOfFields fs ms → DomOfFields ((a, k, v) :: fs) ((k, j) :: ms)
end

/-- what JSON can carry: finite numbers (the text must be valid Unicode, checked separately) -/
def scalarFinite : Scalar → Bool
  | .f32 b => isFiniteBits b32 b
  | .f64 b => isFiniteBits b64 b
  | _ => true

/-! ### expected result of a load -/

/-- C04: a number loads exactly or is reported per policy -/
def exactOrPolicy (o : Opts) (inRange : Bool) (s : Scalar) : Except Err (Option Scalar) :=
  if inRange then .ok (some s)
  else if o.overflow = .throwError then .error .overflow else .ok none

def otherKind (o : Opts) : Except Err (Option Scalar) :=
  if o.mismatched = .throwError then .error .mismatched else .ok none

/-- magnitude of a finite double within the binary32 range -/
def inF32Range (bits : Nat) : Bool := decide (bits % b64.signBit ≤ fltMaxAsF64)

def expectLeaf (o : Opts) (t : LeafTy) (j : Json) : Except Err (Option Scalar) :=
  match t, j with
  | .null, .null => .ok (some .null)
  | _, .null => .ok none                                  -- null: the target stays unset (no policy)
  | .str, .str s => .ok (some (.str s))
  | .str, _ => otherKind o
  | .null, _ => otherKind o
  | .bool, .bool b => .ok (some (.bool b))
  | .bool, .int v => exactOrPolicy o (decide (v = 0 ∨ v = 1)) (.bool (decide (v = 1)))
  | .int t, .int v => exactOrPolicy o (t.inRange v) (.int t v)
  | .int t, .bool b => .ok (some (.int t (if b then 1 else 0)))
  | .f64, .int v => .ok (some (.f64 (f64OfInt v)))         -- rounding to the nearest double is allowed
  | .f64, .dbl b => .ok (some (.f64 b))
  | .f32, .int v => exactOrPolicy o (inF32Range (f64OfInt v)) (.f32 (f32RoundOfF64 (f64OfInt v)))
  | .f32, .dbl b => exactOrPolicy o (inF32Range b) (.f32 (f32RoundOfF64 b))
  | _, _ => otherKind o

/-- an object as a finite map: the value of a name, provided the name is not repeated -/
def lookupUnique (k : Str) (ms : List (Str × Json)) : Option (Option Json) :=
  match ms.filter (fun m => m.1 == k) with
  | [] => some none
  | [m] => some (some m.2)
  | _ => none              -- repeated name: RFC 8259 §4 leaves the behaviour open

def sortedInsert (k : Str) (v : LVal) : List (Str × LVal) → List (Str × LVal)
  | [] => [(k, v)]
  | (k', v') :: r => if k < k' then (k, v) :: (k', v') :: r else (k', v') :: sortedInsert k v r

def wrapUnset (o : Opts) : Except Err LVal := if o.mismatched = .throwError then .error .mismatched else .ok .unset

/-- array elements in order; the first failing element decides the exception -/
def expectItems (f : Json → Option (Except Err LVal)) : List Json → Option (Except Err (List LVal))
  | [] => some (.ok [])
  | j :: r =>
    match f j with
    | none => none
    | some (.error err) => some (.error err)
    | some (.ok v) =>
      match expectItems f r with
      | none => none
      | some (.error err) => some (.error err)
      | some (.ok vs) => some (.ok (v :: vs))

/-- every name of the object becomes a key of the map (sorted); document order decides the first exception -/
def expectEntries (f : Option Json → Option (Except Err LVal)) (all : List (Str × Json)) :
    List (Str × Json) → Option (Except Err (List (Str × LVal)))
  | [] => some (.ok [])
  | m :: r =>
    match lookupUnique m.1 all with
    | none => none
    | some jv =>
      match f jv with
      | none => none
      | some (.error err) => some (.error err)
      | some (.ok v) =>
        match expectEntries f all r with
        | none => none
        | some (.error err) => some (.error err)
        | some (.ok es) => some (.ok (sortedInsert m.1 v es))

mutual
/-- `none` = outside the specification (repeated names) -/
def expectLoad (o : Opts) : Schema → Option Json → Option (Except Err LVal)
  | .leaf _, none => some (.ok .unset)
  | .leaf t, some j =>
    some (match expectLeaf o t j with
      | .ok (some s) => .ok (.sc s)
      | .ok none => .ok .unset
      | .error e => .error e)
  | .vec _, none => some (.ok .unset)
  | .vec e, some (.arr items) =>
    match expectItems (fun j => expectLoad o e (some j)) items with
    | some (.ok vs) => some (.ok (.arr vs))
    | some (.error err) => some (.error err)
    | none => none
  | .vec _, some .null => some (.ok .unset)
  | .vec _, some _ => some (wrapUnset o)
  | .cls _, none => some (.ok .unset)
  | .cls fs, some (.obj ms) =>
    match expectFields o fs ms with
    | some (.ok vs) => some (.ok (.obj vs))
    | some (.error err) => some (.error err)
    | none => none
  | .cls _, some .null => some (.ok .unset)
  | .cls _, some _ => some (wrapUnset o)
  | .map _, none => some (.ok .unset)
  | .map e, some (.obj ms) =>
    match expectEntries (fun jv => expectLoad o e jv) ms ms with
    | some (.ok es) => some (.ok (.map es))
    | some (.error err) => some (.error err)
    | none => none
  | .map _, some .null => some (.ok .unset)
  | .map _, some _ => some (wrapUnset o)
  | .opt e, j =>
    match expectLoad o e j with
    | some (.ok .unset) => some (.ok .none)
    | r => r
def expectFields (o : Opts) : List (Bool × Str × Schema) → List (Str × Json) → Option (Except Err (List LVal))
  | [], _ => some (.ok [])
  | (_, k, s) :: r, ms =>
    match lookupUnique k ms with
    | none => none
    | some jv =>
      match expectLoad o s jv with
      | none => none
      | some (.error err) => some (.error err)
      | some (.ok v) =>
        match expectFields o r ms with
        | none => none
        | some (.error err) => some (.error err)
        | some (.ok vs) => some (.ok (v :: vs))
end

end BSVerif.Adapter.Spec
