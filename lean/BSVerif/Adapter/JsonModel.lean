/-
  MODEL of the RapidJSON adapter (include/bitserializer/rapidjson_archive.h), branch for branch:

  save  : RapidJsonRootScope / RapidJsonArrayScope / RapidJsonObjectScope in Save mode build the DOM
          (`SetBool/SetInt64/SetUint64/SetDouble/SetString/SetArray/SetObject`, `PushBack`, `AddMember`)
  load  : `LoadValue` (IsNull / IsNumber → IsInt64 / IsUint64 / GetDouble / IsBool → ConvertByPolicy),
          `LoadNextItem` (iterator advanced BEFORE the type check), `LoadJsonValue` = `FindMember`
          (first member with that name), `OpenArrayScope/OpenObjectScope` (`IsArray/IsObject` else
          `HandleMismatchedTypesPolicy`), driven by the generic layers
          (`SerializeContainer`, class `Serialize()` with `KeyValue`, `SerializeMapImpl`, `std::optional`).
  Finalize : the writer's `Accept()` result is checked (fix 4dd3f56): NaN / Infinity anywhere, or an
          invalid UTF-8 string when the output is a transcoding stream, raise OutOfRange.

  The DOM -> text printer and the text -> DOM parser are RapidJSON's: a parameter (see Props/C08).
-/
import BSVerif.Adapter.Num
import BSVerif.Utf.Spec

namespace BSVerif.Adapter.JsonModel
open BSVerif.Adapter

/-! ### save -/

/-- `RapidJsonNode(value)` (array / object scope) and `SetBool/SetInt64/SetUint64/SetDouble/SetString/SetNull`
    (root scope, rapidjson_archive.h:539-566 after fix a9ee3d8): the DOM scalar of a C++ scalar.
    RapidJSON derives the kInt/kUint/kInt64/kUint64 flags from the value, so only the value matters. -/
def ofScalar : Scalar → Json
  | .null => .null
  | .bool b => .bool b
  | .int _ v => .int v
  | .f32 b => .dbl (f64OfF32 b)          -- GenericValue(float) / SetDouble(float): exact widening
  | .f64 b => .dbl b
  | .str s => .str s

mutual
/-- the DOM node built for a value (`SaveJsonValue`, `OpenArrayScope`, `OpenObjectScope` in Save mode) -/
def build : Val → Json
  | .sc s => ofScalar s
  | .none => .null                        -- std::optional without value: Serialize(nullptr)
  | .arr items => .arr (buildList items)  -- SetArray / PushBack in order
  | .obj fields => .obj (buildFields fields)   -- SetObject / AddMember in order
def buildList : List Val → List Json
  | [] => []
  | v :: r => build v :: buildList r
def buildFields : List (Bool × Str × Val) → List (Str × Json)
  | [] => []
  | (_, k, v) :: r => (k, build v) :: buildFields r
end

/-- attributes do not compile for the JSON archive (`can_serialize_attribute_v` is false) -/
def hasAttr : Val → Bool
  | .sc _ => false
  | .none => false
  | .arr items => items.attach.any fun ⟨v, _⟩ => hasAttr v
  | .obj fields => fields.attach.any fun ⟨(a, _, v), _⟩ => a || hasAttr v
decreasing_by
  all_goals simp_wf
  · have := List.sizeOf_lt_of_mem ‹_›; omega
  · have := List.sizeOf_lt_of_mem ‹_›; simp at this; omega

mutual
/-- what `Writer::Accept` rejects: a non-finite double, or (only when `transcode`) an ill-formed UTF-8 string or name -/
def rejected (transcode : Bool) : Json → Bool
  | .dbl b => !isFiniteBits b64 b
  | .str s => transcode && Utf.Spec.hasBad (Utf.Spec.segment 8 s)
  | .arr items => rejectedList transcode items
  | .obj ms => rejectedMembers transcode ms
  | _ => false
def rejectedList (transcode : Bool) : List Json → Bool
  | [] => false
  | j :: r => rejected transcode j || rejectedList transcode r
def rejectedMembers (transcode : Bool) : List (Str × Json) → Bool
  | [] => false
  | (k, j) :: r => (transcode && Utf.Spec.hasBad (Utf.Spec.segment 8 k)) || rejected transcode j || rejectedMembers transcode r
end

/-- `SaveObject`: the DOM handed to the printer, or the exception of `Finalize` -/
def save (transcode : Bool) (v : Val) : Except Err Json :=
  let d := build v
  if rejected transcode d then .error .outOfRange else .ok d

/-! ### load -/

/-- `ConvertByPolicy` result handling (archive_base.h:114-165) -/
def byPolicy (o : Opts) : Except ConvErr Scalar → Except Err (Option Scalar)
  | .ok s => .ok (some s)
  | .error .outOfRange => if o.overflow = .throwError then .error .overflow else .ok none
  | .error .invalidArgument => if o.mismatched = .throwError then .error .mismatched else .ok none

/-- `HandleMismatchedTypesPolicy` followed by `return false` -/
def mismatch (o : Opts) : Except Err (Option Scalar) :=
  if o.mismatched = .throwError then .error .mismatched else .ok none

def int64Max : Int := 2 ^ 63 - 1

/-- `LoadValue(jsonValue, T&)` for fundamental `T` and for `string_view` (rapidjson_archive.h:98-144).
    `none` = returned false, the target is untouched. -/
def loadValue (o : Opts) (t : LeafTy) (j : Json) : Except Err (Option Scalar) :=
  match t with
  | .str =>
    -- string_view overload; null is exempt from the policy inside HandleMismatchedTypesPolicy (fix f93dc6d)
    match j with
    | .str s => .ok (some (.str s))
    | .null => .ok none
    | _ => mismatch o
  | _ =>
    match j with
    | .null => .ok (if t = .null then some .null else none)      -- `return std::is_null_pointer_v<T>`
    | _ =>
      match t with
      | .bool =>                                                   -- is_integral_v<bool>
        match j with
        | .int v => byPolicy o ((convIntToBool v).map .bool)       -- IsInt64 or IsUint64: same outcome
        | .bool b => .ok (some (.bool b))                          -- bool -> bool: is_same
        | _ => mismatch o                                          -- a double falls through both `if`s
      | .int ty =>
        match j with
        | .int v =>
          if v ≤ int64Max then byPolicy o ((convIntToInt .i64 ty v).map (.int ty))     -- IsInt64(): GetInt64()
          else byPolicy o ((convIntToInt .u64 ty v).map (.int ty))                      -- IsUint64(): GetUint64()
        | .bool b => .ok (some (.int ty (convBoolToInt b)))
        | _ => mismatch o
      | .f64 =>
        match j with
        | .int v => .ok (some (.f64 (f64OfInt v)))                 -- GetDouble() of an integer, double -> double is_same
        | .dbl b => .ok (some (.f64 b))
        | _ => mismatch o
      | .f32 =>
        match j with
        | .int v => byPolicy o ((convF64ToF32 (f64OfInt v)).map .f32)
        | .dbl b => byPolicy o ((convF64ToF32 b).map .f32)
        | _ => mismatch o
      | _ => mismatch o                                            -- nullptr_t target, value not null

/-- `HandleMismatchedTypesPolicy(jsonValue, policy)` + `return std::nullopt` of the Open*Scope methods:
    null is exempt from the policy (fix f93dc6d) -/
def scopeMismatch (o : Opts) (j : Json) : Except Err LVal :=
  match j with
  | .null => .ok .unset
  | _ => if o.mismatched = .throwError then .error .mismatched else .ok .unset

/-- `FindMember(key)`: first member with that name -/
def findMember (k : Str) : List (Str × Json) → Option Json
  | [] => none
  | (k', j) :: r => if k' = k then some j else findMember k r

/-- insert / overwrite in a list sorted by key (std::map) -/
def mapInsert (k : Str) (v : LVal) : List (Str × LVal) → List (Str × LVal)
  | [] => [(k, v)]
  | (k', v') :: r => if k = k' then (k, v) :: r else if k < k' then (k, v) :: (k', v') :: r else (k', v') :: mapInsert k v r

def mapHas (k : Str) (m : List (Str × LVal)) : Bool := m.any fun e => e.1 == k

/-- one step of `SerializeMapImpl`'s `VisitKeys` callback: a value that was not loaded leaves the (default
    constructed or previously loaded) element as it is -/
def mapStep (k : Str) (v : LVal) (acc : List (Str × LVal)) : List (Str × LVal) :=
  match v with
  | .unset => if mapHas k acc then acc else mapInsert k .unset acc
  | v => mapInsert k v acc

mutual
/-- `Serialize(scope, [key,] value)` in Load mode for the node found at this position
    (`none` = the key is absent: `LoadJsonValue` returned nullptr) -/
def load (o : Opts) : Schema → Option Json → Except Err LVal
  | .leaf _, none => .ok .unset
  | .leaf t, some j => do
    match ← loadValue o t j with
    | some s => pure (.sc s)
    | none => pure .unset
  | .vec _, none => .ok .unset
  | .vec e, some j =>
    match j with
    | .arr items => do                    -- OpenArrayScope: IsArray()
      -- SerializeContainer: until IsEnd(); per element `LoadNextItem()` then the element's `Serialize`
      let vs ← items.mapM fun j => load o e (some j)
      pure (.arr vs)
    | j => scopeMismatch o j
  | .cls _, none => .ok .unset
  | .cls fs, some j =>
    match j with
    | .obj ms => do                       -- OpenObjectScope: IsObject()
      let vs ← loadFields o fs ms
      pure (.obj vs)
    | j => scopeMismatch o j
  | .map _, none => .ok .unset
  | .map e, some j =>
    match j with
    | .obj ms => do
      -- SerializeMapImpl, MapLoadMode::Clean: `VisitKeys` over the members in document order; each key is
      -- `try_emplace`d and its value loaded through `FindMember(key)` (a repeated name loads the FIRST member again)
      let es ← ms.foldlM (fun acc m => do
        let v ← load o e (findMember m.1 ms)
        pure (mapStep m.1 v acc)) []
      pure (.map es)
    | j => scopeMismatch o j
  | .opt e, j => do                        -- types/std/optional.h: value = T(); if (!Serialize(..)) value = nullopt
    match ← load o e j with
    | .unset => pure .none
    | v => pure v
/-- class fields in declaration order, each looked up with `FindMember` -/
def loadFields (o : Opts) : List (Bool × Str × Schema) → List (Str × Json) → Except Err (List LVal)
  | [], _ => .ok []
  | (_, k, s) :: r, ms => do
    let v ← load o s (findMember k ms)
    let vs ← loadFields o r ms
    pure (v :: vs)
end

/-- `LoadObject(value, document)` given the parsed DOM -/
def loadRoot (o : Opts) (s : Schema) (doc : Json) : Except Err LVal := load o s (some doc)

end BSVerif.Adapter.JsonModel
