/-
  Helper lemmas for Props/C08 (XML adapter): the element built for a value matches the value's data model.
-/
import BSVerif.Adapter.XmlSpec
open BSVerif.Adapter BSVerif.Adapter.XmlModel BSVerif.Adapter.XmlSpec

namespace BSVerif.Adapter

def isFloatScalar : Scalar → Bool
  | .f32 _ => true
  | .f64 _ => true
  | _ => false

/-- pugixml's number formatting reads back (by value) as the number that was set: the XML half of the codec law -/
def NumFmtOk (fmt : NumFmt) : Prop :=
  ∀ s, isFloatScalar s = true → Spec.scalarFinite s = true → scalarMatches s (scalarText fmt s) = true

mutual
/-- finite numbers; attribute fields hold scalars (or empty optionals) and have distinct names within one object -/
def xmlValOk : Val → Bool
  | .sc s => Spec.scalarFinite s
  | .none => true
  | .arr items => xmlListOk items
  | .obj fields => xmlFieldsOk fields && decide (((fields.filter (·.1)).map (·.2.1)).Nodup)
def xmlListOk : List Val → Bool
  | [] => true
  | v :: r => xmlValOk v && xmlListOk r
def xmlFieldsOk : List (Bool × Str × Val) → Bool
  | [] => true
  | (a, _, v) :: r => (match a, v with | true, .arr _ => false | true, .obj _ => false | _, _ => true) && xmlValOk v && xmlFieldsOk r
end

theorem scalarMatches_text (fmt : NumFmt) (hf : NumFmtOk fmt) (s : Scalar) (h : Spec.scalarFinite s = true) :
    scalarMatches s (scalarText fmt s) = true := by
  cases s with
  | f32 b => exact hf _ rfl h
  | f64 b => exact hf _ rfl h
  | bool b => cases b <;> simp [scalarMatches, scalarText]
  | _ => simp [scalarMatches, scalarText]


theorem elemChildren_buildItems (fmt : NumFmt) (items : List Val) : elemChildren (buildItems fmt items) = buildItems fmt items := by
  induction items with
  | nil => simp [buildItems, elemChildren]
  | cons v r ih =>
    simp only [elemChildren] at ih ⊢
    cases v <;> simp [buildItems, buildNode, ih]

theorem elemChildren_buildChildren (fmt : NumFmt) (fields : List (Bool × Str × Val)) :
    elemChildren (buildChildren fmt fields) = buildChildren fmt fields := by
  induction fields with
  | nil => simp [buildChildren, elemChildren]
  | cons f r ih =>
    obtain ⟨a, k, v⟩ := f
    simp only [elemChildren] at ih ⊢
    cases a <;> cases v <;> simp [buildChildren, buildNode, ih]

theorem buildAttrs_length (fmt : NumFmt) (fields : List (Bool × Str × Val)) :
    (buildAttrs fmt fields).length = (fields.filter (·.1)).length := by
  induction fields with
  | nil => simp [buildAttrs]
  | cons f r ih =>
    obtain ⟨a, k, v⟩ := f
    cases a <;> cases v <;> simp [buildAttrs, ih]

theorem buildAttrs_keys (fmt : NumFmt) (fields : List (Bool × Str × Val)) :
    (buildAttrs fmt fields).map Prod.fst = (fields.filter (·.1)).map (·.2.1) := by
  induction fields with
  | nil => simp [buildAttrs]
  | cons f r ih =>
    obtain ⟨a, k, v⟩ := f
    cases a <;> cases v <;> simp [buildAttrs, ih]

theorem attrNamed_cons_ne (k k' : Str) (t : Str) (r : List (Str × Str)) (h : k' ≠ k) : attrNamed k ((k', t) :: r) = attrNamed k r := by
  simp [attrNamed, h]

/-- an attribute list extended in front by attributes with other names -/
theorem attrsMatch_weaken (fields : List (Bool × Str × Val)) (k' t : Str) (attrs : List (Str × Str))
    (hk : k' ∉ (fields.filter (·.1)).map (·.2.1)) (h : attrsMatch fields attrs = true) : attrsMatch fields ((k', t) :: attrs) = true := by
  induction fields with
  | nil => simp [attrsMatch]
  | cons f r ih =>
    obtain ⟨a, k, v⟩ := f
    cases a with
    | false =>
      simp only [attrsMatch] at h ⊢
      exact ih (by simpa [List.filter_cons] using hk) h
    | true =>
      have hne : k' ≠ k := by
        intro e; apply hk; simp [List.filter_cons, e]
      have hk' : k' ∉ (r.filter (·.1)).map (·.2.1) := by
        intro hm; apply hk; simp [List.filter_cons]; right; simpa using hm
      cases v <;> simp only [attrsMatch, attrNamed_cons_ne k k' t attrs hne, Bool.and_eq_true] at h ⊢ <;> exact ⟨h.1, ih hk' h.2⟩


theorem attrsMatch_build (fmt : NumFmt) (hf : NumFmtOk fmt) (fields : List (Bool × Str × Val)) (hok : xmlFieldsOk fields = true)
    (hnd : ((fields.filter (·.1)).map (·.2.1)).Nodup) : attrsMatch fields (buildAttrs fmt fields) = true := by
  induction fields with
  | nil => simp [attrsMatch]
  | cons f r ih =>
    obtain ⟨a, k, v⟩ := f
    cases a with
    | false =>
      simp only [xmlFieldsOk, Bool.and_eq_true] at hok
      simp only [attrsMatch, buildAttrs]
      exact ih hok.2 (by simpa [List.filter_cons] using hnd)
    | true =>
      simp only [xmlFieldsOk, Bool.and_eq_true] at hok
      have hnd' : k ∉ (r.filter (·.1)).map (·.2.1) ∧ ((r.filter (·.1)).map (·.2.1)).Nodup := by
        simpa [List.filter_cons] using hnd
      have ihr := ih hok.2 hnd'.2
      cases v with
      | sc s =>
        have hfin : Spec.scalarFinite s = true := by simpa [xmlValOk] using hok.1.2
        have hm := scalarMatches_text fmt hf s hfin
        simp only [attrsMatch, buildAttrs, attrNamed, if_true, Bool.and_eq_true]
        refine ⟨?_, attrsMatch_weaken r k _ _ hnd'.1 ihr⟩
        cases s <;> simp_all [attrText, scalarText, scalarMatches]
      | none =>
        simp only [attrsMatch, buildAttrs, attrNamed, if_true, Bool.and_eq_true]
        exact ⟨by simp, attrsMatch_weaken r k _ _ hnd'.1 ihr⟩
      | arr l => simp at hok
      | obj l => simp at hok

mutual
/-- **dom_of_save for XML**: the element built for a value matches the value's data model -/
theorem domMatches_build (fmt : NumFmt) (hf : NumFmtOk fmt) : ∀ (name : Str) (v : Val), xmlValOk v = true →
    domMatches name v (buildNode fmt name v) = true
  | name, .sc s, h => by
    have hm := scalarMatches_text fmt hf s (by simpa [xmlValOk] using h)
    simp only [buildNode, domMatches]
    cases ht : scalarText fmt s <;> simp_all [textContent]
  | name, .none, _ => by simp [buildNode, domMatches]
  | name, .arr items, h => by
    simp only [buildNode, domMatches, elemChildren_buildItems]
    simp [itemsMatch_build fmt hf items (by simpa [xmlValOk] using h)]
  | name, .obj fields, h => by
    simp only [xmlValOk, Bool.and_eq_true, decide_eq_true_eq] at h
    simp only [buildNode, domMatches, elemChildren_buildChildren, buildAttrs_length]
    simp [attrsMatch_build fmt hf fields h.1 h.2, childrenMatch_build fmt hf fields h.1]
theorem itemsMatch_build (fmt : NumFmt) (hf : NumFmtOk fmt) : ∀ (items : List Val), xmlListOk items = true →
    itemsMatch items (buildItems fmt items) = true
  | [], _ => by simp [itemsMatch, buildItems]
  | v :: r, h => by
    simp only [xmlListOk, Bool.and_eq_true] at h
    simp [itemsMatch, buildItems, domMatches_build fmt hf (itemName v) v h.1, itemsMatch_build fmt hf r h.2]
theorem childrenMatch_build (fmt : NumFmt) (hf : NumFmtOk fmt) : ∀ (fields : List (Bool × Str × Val)), xmlFieldsOk fields = true →
    childrenMatch fields (buildChildren fmt fields) = true
  | [], _ => by simp [childrenMatch, buildChildren]
  | (true, k, v) :: r, h => by
    simp only [xmlFieldsOk, Bool.and_eq_true] at h
    simp [childrenMatch, buildChildren, childrenMatch_build fmt hf r h.2]
  | (false, k, v) :: r, h => by
    simp only [xmlFieldsOk, Bool.and_eq_true] at h
    simp [childrenMatch, buildChildren, domMatches_build fmt hf k v h.1.2, childrenMatch_build fmt hf r h.2]
end

end BSVerif.Adapter
