/-
  Helper lemmas for Props/C08 (JSON adapter): integer conversion = range test, leaf loads meet the
  specification, member lookup under unique names.
-/
import BSVerif.Adapter.JsonModel
import BSVerif.Adapter.Spec

namespace BSVerif.Adapter
open JsonModel Spec

theorem ofScalar_eq (s : Scalar) : ofScalar s = scalarDom s := by cases s <;> rfl


mutual
/-- the DOM built for a value has the value's names, nesting, order and scalar values -/
theorem domOf_build : ∀ v : Val, DomOf v (build v)
  | .sc s => by rw [build, ofScalar_eq]; exact DomOf.sc s
  | .none => by rw [build]; exact DomOf.none
  | .arr items => by rw [build]; exact DomOf.arr (domOfList_build items)
  | .obj fs => by rw [build]; exact DomOf.obj (domOfFields_build fs)
theorem domOfList_build : ∀ l : List Val, DomOfList l (buildList l)
  | [] => by rw [buildList]; exact DomOfList.nil
  | v :: r => by rw [buildList]; exact DomOfList.cons (domOf_build v) (domOfList_build r)
theorem domOfFields_build : ∀ l : List (Bool × Str × Val), DomOfFields l (buildFields l)
  | [] => by rw [buildFields]; exact DomOfFields.nil
  | (a, k, v) :: r => by rw [buildFields]; exact DomOfFields.cons (domOf_build v) (domOfFields_build r)
end

/-- `static_cast<T>(v)` is the representative of `v` modulo 2^bits inside the range of `T` -/
theorem wrap_char (t : IntTy) (v : Int) : t.wrap v = (v - t.min) % (2 ^ t.bits : Int) + t.min := by
  cases t <;> simp [IntTy.wrap, IntTy.bits, IntTy.signed, IntTy.min] <;> (try split) <;> omega

/-- cast, cast back, compare, sign check (convert_fundamental.h:54-58) = range test, for the two source types
    RapidJSON hands out -/
theorem convIntToInt_spec (src tgt : IntTy) (v : Int) (hs : src = .i64 ∨ src = .u64) (hv : src.inRange v = true) :
    convIntToInt src tgt v = if tgt.inRange v then .ok v else .error .outOfRange := by
  unfold convIntToInt
  by_cases he : src = tgt
  · subst he
    have : src.inRange v = true := hv
    simp [this]
  · simp only [he, if_false]
    have h1 := wrap_char tgt v
    have h2 := wrap_char src (tgt.wrap v)
    generalize tgt.wrap v = w at *
    generalize src.wrap w = w' at *
    rcases hs with rfl | rfl <;> cases tgt <;>
      simp [IntTy.inRange, IntTy.min, IntTy.max, IntTy.bits, IntTy.signed] at hv h1 h2 he ⊢ <;>
      (split <;> (try split) <;> first | rfl | omega | (simp; omega) | (exfalso; omega))

theorem convIntToBool_spec (v : Int) :
    convIntToBool v = if v = 0 then .ok false else if v = 1 then .ok true else .error .outOfRange := by
  unfold convIntToBool
  by_cases h0 : v = 0
  · subst h0; simp
  · by_cases h1 : v = 1
    · subst h1; simp
    · simp [h0, h1]; omega

/-- the integers a RapidJSON number can hold (kInt64Flag or kUint64Flag) -/
def JsonIntRange : Json → Prop
  | .int v => -(2 ^ 63 : Int) ≤ v ∧ v < (2 ^ 64 : Int)
  | _ => True

theorem loadValue_int (o : Opts) (ty : IntTy) (v : Int) (h : -(2 ^ 63 : Int) ≤ v ∧ v < (2 ^ 64 : Int)) :
    loadValue o (.int ty) (.int v) = exactOrPolicy o (ty.inRange v) (.int ty v) := by
  simp only [loadValue]
  by_cases hle : v ≤ int64Max
  · rw [if_pos hle]
    unfold int64Max at hle
    rw [convIntToInt_spec .i64 ty v (Or.inl rfl) (by simp [IntTy.inRange, IntTy.min, IntTy.max, IntTy.bits, IntTy.signed]; omega)]
    cases hr : ty.inRange v <;> simp [exactOrPolicy, byPolicy, Except.map]
  · rw [if_neg hle]
    unfold int64Max at hle
    rw [convIntToInt_spec .u64 ty v (Or.inr rfl) (by simp [IntTy.inRange, IntTy.min, IntTy.max, IntTy.bits, IntTy.signed]; omega)]
    cases hr : ty.inRange v <;> simp [exactOrPolicy, byPolicy, Except.map]

theorem loadValue_eq_expectLeaf (o : Opts) (t : LeafTy) (j : Json) (hj : JsonIntRange j) :
    loadValue o t j = expectLeaf o t j := by
  cases t with
  | int ty =>
    cases j with
    | int v => rw [loadValue_int o ty v hj]; simp [expectLeaf]
    | _ => simp [loadValue, expectLeaf, mismatch, otherKind, convBoolToInt]
  | bool =>
    cases j with
    | int v =>
      simp only [loadValue, expectLeaf, convIntToBool_spec]
      by_cases h0 : v = 0
      · subst h0; simp [byPolicy, exactOrPolicy, Except.map]
      · by_cases h1 : v = 1
        · subst h1; simp [byPolicy, exactOrPolicy, Except.map]
        · simp [h0, h1, byPolicy, exactOrPolicy, Except.map]
    | _ => simp [loadValue, expectLeaf, mismatch, otherKind]
  | f32 =>
    cases j <;> simp [loadValue, expectLeaf, mismatch, otherKind, convF64ToF32, inF32Range, exactOrPolicy, byPolicy, Except.map]
    · by_cases hc : f64OfInt ‹Int› % b64.signBit ≤ fltMaxAsF64 <;> simp [hc]
    · by_cases hc : ‹Nat› % b64.signBit ≤ fltMaxAsF64 <;> simp [hc]
  | f64 => cases j <;> simp [loadValue, expectLeaf, mismatch, otherKind]
  | str => cases j <;> simp [loadValue, expectLeaf, mismatch, otherKind]
  | null => cases j <;> simp [loadValue, expectLeaf, mismatch, otherKind]

mutual
/-- every object of the tree has distinct names; every integer is one RapidJSON can hold -/
def jsonOk : Json → Bool
  | .int v => decide (-(2 ^ 63 : Int) ≤ v ∧ v < (2 ^ 64 : Int))
  | .arr items => jsonListOk items
  | .obj ms => membersOk ms && decide ((ms.map Prod.fst).Nodup)
  | _ => true
def jsonListOk : List Json → Bool
  | [] => true
  | j :: r => jsonOk j && jsonListOk r
def membersOk : List (Str × Json) → Bool
  | [] => true
  | (_, j) :: r => jsonOk j && membersOk r
end

mutual
def noMap : Schema → Bool
  | .leaf _ => true
  | .vec e => noMap e
  | .cls fs => noMapFields fs
  | .map _ => false
  | .opt e => noMap e
def noMapFields : List (Bool × Str × Schema) → Bool
  | [] => true
  | (_, _, s) :: r => noMap s && noMapFields r
end

theorem filter_eq_nil_of_not_mem (k : Str) (ms : List (Str × Json)) (h : k ∉ ms.map Prod.fst) :
    ms.filter (fun m => m.1 == k) = [] := by
  induction ms with
  | nil => rfl
  | cons m r ih =>
    simp only [List.map_cons, List.mem_cons, not_or] at h
    have : (m.1 == k) = false := by
      simp only [beq_eq_false_iff_ne, ne_eq]
      exact fun e => h.1 e.symm
    simp [this, ih h.2]

theorem lookupUnique_eq_findMember (k : Str) (ms : List (Str × Json)) (h : (ms.map Prod.fst).Nodup) :
    lookupUnique k ms = some (findMember k ms) := by
  induction ms with
  | nil => rfl
  | cons m r ih =>
    obtain ⟨k', j⟩ := m
    simp only [List.map_cons, List.nodup_cons] at h
    by_cases e : k' = k
    · subst e
      have hf := filter_eq_nil_of_not_mem k' r h.1
      simp [lookupUnique, findMember, hf]
    · have hb : (k' == k) = false := by simp [e]
      have := ih h.2
      simp only [lookupUnique, List.filter_cons, hb] at this ⊢
      simp [findMember, e, this]

theorem membersOk_find (k : Str) (ms : List (Str × Json)) (h : membersOk ms = true) (d : Json) (hd : findMember k ms = some d) :
    jsonOk d = true := by
  induction ms with
  | nil => simp [findMember] at hd
  | cons m r ih =>
    obtain ⟨k', j⟩ := m
    simp only [membersOk, Bool.and_eq_true] at h
    simp only [findMember] at hd
    split at hd
    · cases hd; exact h.1
    · exact ih h.2 hd


theorem expectItems_eq (f : Json → Option (Except Err LVal)) (g : Json → Except Err LVal) (items : List Json)
    (h : ∀ j ∈ items, f j = some (g j)) : expectItems f items = some (items.mapM g) := by
  induction items with
  | nil => simp [expectItems, pure, Except.pure]
  | cons j r ih =>
    have hj := h j (by simp)
    have hr := ih (fun x hx => h x (by simp [hx]))
    simp only [expectItems, hj, hr, List.mapM_cons]
    cases g j with
    | error e => simp [bind, Except.bind]
    | ok v =>
      cases List.mapM g r with
      | error e => simp [bind, Except.bind]
      | ok vs => simp [bind, Except.bind, pure, Except.pure]

theorem jsonListOk_mem (items : List Json) (h : jsonListOk items = true) (j : Json) (hj : j ∈ items) : jsonOk j = true := by
  induction items with
  | nil => simp at hj
  | cons x r ih =>
    simp only [jsonListOk, Bool.and_eq_true] at h
    rcases List.mem_cons.mp hj with rfl | hm
    · exact h.1
    · exact ih h.2 hm

mutual
/-- for map-free target types and documents with distinct names, the adapter's load IS the specified load -/
theorem load_meets_spec (o : Opts) : ∀ (s : Schema) (j : Option Json), noMap s = true → (∀ d, j = some d → jsonOk d = true) →
    expectLoad o s j = some (load o s j)
  | .leaf t, none, _, _ => by simp [expectLoad, load]
  | .leaf t, some j, _, hj => by
    have hr : JsonIntRange j := by
      have := hj j rfl
      cases j <;> simp_all [JsonIntRange, jsonOk]
    simp only [expectLoad, load, ← loadValue_eq_expectLeaf o t j hr]
    cases loadValue o t j with
    | error e => simp [bind, Except.bind]
    | ok r => cases r <;> simp [bind, Except.bind, pure, Except.pure]
  | .vec e, none, _, _ => by simp [expectLoad, load]
  | .vec e, some j, hm, hj => by
    cases j with
    | arr items =>
      have hok : jsonListOk items = true := by simpa [jsonOk] using hj _ rfl
      have hi := expectItems_eq (fun j => expectLoad o e (some j)) (fun j => load o e (some j)) items
        (fun x hx => load_meets_spec o e (some x) (by simpa [noMap] using hm) (by intro d hd; cases hd; exact jsonListOk_mem items hok x hx))
      simp only [expectLoad, load, hi]
      cases List.mapM (fun j => load o e (some j)) items with
      | error e => simp [bind, Except.bind]
      | ok vs => simp [bind, Except.bind, pure, Except.pure]
    | null => simp [expectLoad, load, scopeMismatch]
    | _ => simp [expectLoad, load, scopeMismatch, wrapUnset]
  | .cls fs, none, _, _ => by simp [expectLoad, load]
  | .cls fs, some j, hm, hj => by
    cases j with
    | obj ms =>
      have hok := hj _ rfl
      simp only [jsonOk, Bool.and_eq_true, decide_eq_true_eq] at hok
      have hf := fields_meet_spec o fs ms (by simpa [noMap] using hm) hok.1 hok.2
      simp only [expectLoad, load, hf]
      cases loadFields o fs ms with
      | error e => simp [bind, Except.bind]
      | ok vs => simp [bind, Except.bind, pure, Except.pure]
    | null => simp [expectLoad, load, scopeMismatch]
    | _ => simp [expectLoad, load, scopeMismatch, wrapUnset]
  | .map e, _, hm, _ => by simp [noMap] at hm
  | .opt e, j, hm, hj => by
    have ih := load_meets_spec o e j (by simpa [noMap] using hm) hj
    simp only [expectLoad, load, ih]
    cases load o e j with
    | error err => simp [bind, Except.bind]
    | ok v => cases v <;> simp [bind, Except.bind, pure, Except.pure]
theorem fields_meet_spec (o : Opts) : ∀ (fs : List (Bool × Str × Schema)) (ms : List (Str × Json)), noMapFields fs = true →
    membersOk ms = true → (ms.map Prod.fst).Nodup → expectFields o fs ms = some (loadFields o fs ms)
  | [], ms, _, _, _ => by simp [expectFields, loadFields]
  | (a, k, s) :: r, ms, hm, hok, hnd => by
    simp only [noMapFields, Bool.and_eq_true] at hm
    have h1 := load_meets_spec o s (findMember k ms) hm.1 (fun d hd => membersOk_find k ms hok d hd)
    have h2 := fields_meet_spec o r ms hm.2 hok hnd
    simp only [expectFields, loadFields, lookupUnique_eq_findMember k ms hnd, h1, h2]
    cases load o s (findMember k ms) with
    | error e => simp [bind, Except.bind]
    | ok v =>
      cases loadFields o r ms with
      | error e => simp [bind, Except.bind]
      | ok vs => simp [bind, Except.bind, pure, Except.pure]
end



/-- scalars that survive the DOM: integers within their C++ type, floats that come back from their double -/
def scalarOk : Scalar → Bool
  | .int t v => t.inRange v
  | .f32 b => (match convF64ToF32 (f64OfF32 b) with | .ok b' => b' == b | .error _ => false)
  | _ => true

/-- loading JSON `null` into this target leaves it unset / resets the optional -/
def nullNone : Schema → Bool
  | .leaf t => t != .null
  | .opt e => nullNone e
  | _ => true

mutual
/-- the value has the shape of the (map-free) target type and is representable -/
def conforms : Schema → Val → Bool
  | .leaf t, .sc s => s.ty == t && scalarOk s
  | .vec e, .arr items => conformsList e items
  | .cls fs, .obj fields => conformsFields fs fields && decide ((fields.map fun f => f.2.1).Nodup)
  | .opt e, .none => nullNone e
  | .opt e, v => conforms e v
  | _, _ => false
def conformsList (e : Schema) : List Val → Bool
  | [] => true
  | v :: r => conforms e v && conformsList e r
def conformsFields : List (Bool × Str × Schema) → List (Bool × Str × Val) → Bool
  | [], [] => true
  | (_, k, s) :: r, (_, k', v) :: r' => k == k' && conforms s v && conformsFields r r'
  | _, _ => false
end

mutual
/-- the value as a freshly loaded target shows it -/
def expected : Schema → Val → LVal
  | .leaf _, .sc s => .sc s
  | .vec e, .arr items => .arr (expectedList e items)
  | .cls fs, .obj fields => .obj (expectedFields fs fields)
  | .opt _, .none => .none
  | .opt e, v => expected e v
  | _, _ => .unset
def expectedList (e : Schema) : List Val → List LVal
  | [] => []
  | v :: r => expected e v :: expectedList e r
def expectedFields : List (Bool × Str × Schema) → List (Bool × Str × Val) → List LVal
  | (_, _, s) :: r, (_, _, v) :: r' => expected s v :: expectedFields r r'
  | _, _ => []
end

theorem loadValue_of_scalar (o : Opts) (s : Scalar) (h : scalarOk s = true) :
    loadValue o s.ty (ofScalar s) = .ok (some s) := by
  cases s with
  | null => simp [loadValue, ofScalar, Scalar.ty]
  | bool b => simp [loadValue, ofScalar, Scalar.ty]
  | int t v =>
    have hr : -(2 ^ 63 : Int) ≤ v ∧ v < (2 ^ 64 : Int) := by
      simp only [scalarOk] at h
      cases t <;> simp [IntTy.inRange, IntTy.min, IntTy.max, IntTy.bits, IntTy.signed] at h <;> omega
    simp only [Scalar.ty, ofScalar]
    rw [loadValue_int o t v hr]
    simp only [scalarOk] at h
    simp [exactOrPolicy, h]
  | f32 b =>
    simp only [scalarOk] at h
    simp only [loadValue, ofScalar, Scalar.ty]
    cases hc : convF64ToF32 (f64OfF32 b) with
    | error e => simp [hc] at h
    | ok b' =>
      simp only [hc, beq_iff_eq] at h
      subst h
      simp [byPolicy, Except.map]
  | f64 b => simp [loadValue, ofScalar, Scalar.ty]
  | str x => simp [loadValue, ofScalar, Scalar.ty]


theorem findMember_buildFields (fields : List (Bool × Str × Val)) (hnd : (fields.map fun f => f.2.1).Nodup) :
    ∀ f ∈ fields, findMember f.2.1 (buildFields fields) = some (build f.2.2) := by
  induction fields with
  | nil => intro f hf; simp at hf
  | cons g r ih =>
    obtain ⟨a, k, v⟩ := g
    simp only [List.map_cons, List.nodup_cons] at hnd
    intro f hf
    rcases List.mem_cons.mp hf with rfl | hm
    · simp [buildFields, findMember]
    · have hne : k ≠ f.2.1 := by
        intro e
        apply hnd.1
        rw [e]
        exact List.mem_map.mpr ⟨f, hm, rfl⟩
      simp only [buildFields, findMember, hne, if_false]
      exact ih hnd.2 f hm

theorem load_null (o : Opts) : ∀ (e : Schema), nullNone e = true →
    load o e (some .null) = .ok .unset ∨ load o e (some .null) = .ok .none
  | .leaf t, h => by
    left
    have ht : t ≠ .null := by simpa [nullNone] using h
    cases t <;> simp_all [load, loadValue, bind, Except.bind, pure, Except.pure]
  | .vec e, _ => by left; simp [load, scopeMismatch]
  | .cls fs, _ => by left; simp [load, scopeMismatch]
  | .map e, _ => by left; simp [load, scopeMismatch]
  | .opt e, h => by
    right
    have ih := load_null o e (by simpa [nullNone] using h)
    rcases ih with ih | ih <;> simp [load, ih, bind, Except.bind, pure, Except.pure]

theorem expected_ne_unset : ∀ (s : Schema) (v : Val), conforms s v = true → expected s v ≠ .unset
  | .leaf t, v, h => by cases v <;> simp_all [conforms, expected]
  | .vec e, v, h => by cases v <;> simp_all [conforms, expected]
  | .cls fs, v, h => by cases v <;> simp_all [conforms, expected]
  | .map e, v, h => by cases v <;> simp_all [conforms]
  | .opt e, v, h => by
    cases v with
    | none => simp [expected]
    | sc s => simp only [expected]; exact expected_ne_unset e _ (by simpa [conforms] using h)
    | arr l => simp only [expected]; exact expected_ne_unset e _ (by simpa [conforms] using h)
    | obj l => simp only [expected]; exact expected_ne_unset e _ (by simpa [conforms] using h)

mutual
/-- save then load at the DOM level: reading the DOM built for a value gives the value back -/
theorem load_build (o : Opts) : ∀ (s : Schema) (v : Val), conforms s v = true → load o s (some (build v)) = .ok (expected s v)
  | .leaf t, v, h => by
    cases v with
    | sc sc =>
      simp only [conforms, Bool.and_eq_true, beq_iff_eq] at h
      obtain ⟨ht, hok⟩ := h
      subst ht
      simp [load, build, expected, loadValue_of_scalar o sc hok, bind, Except.bind, pure, Except.pure]
    | _ => simp [conforms] at h
  | .vec e, v, h => by
    cases v with
    | arr items =>
      have hl : ∀ l : List Val, conformsList e l = true →
          (buildList l).mapM (fun j => load o e (some j)) = .ok (expectedList e l) := by
        intro l
        induction l with
        | nil => intro _; simp [buildList, expectedList, pure, Except.pure]
        | cons x r ih =>
          intro hc
          simp only [conformsList, Bool.and_eq_true] at hc
          simp [buildList, expectedList, List.mapM_cons, load_build o e x hc.1, ih hc.2, bind, Except.bind, pure, Except.pure]
      simp only [conforms] at h
      simp [load, build, expected, hl items h, bind, Except.bind, pure, Except.pure]
    | _ => simp [conforms] at h
  | .cls fs, v, h => by
    cases v with
    | obj fields =>
      simp only [conforms, Bool.and_eq_true, decide_eq_true_eq] at h
      have := loadFields_build o fs fields (buildFields fields) h.1 (findMember_buildFields fields h.2)
      simp [load, build, expected, this, bind, Except.bind, pure, Except.pure]
    | _ => simp [conforms] at h
  | .map e, v, h => by cases v <;> simp [conforms] at h
  | .opt e, v, h => by
    cases v with
    | none =>
      have := load_null o e (by simpa [conforms] using h)
      rcases this with hn | hn <;> simp [load, build, expected, hn, bind, Except.bind, pure, Except.pure]
    | sc sc =>
      have hc : conforms e (.sc sc) = true := by simpa [conforms] using h
      have ih := load_build o e (.sc sc) hc
      have hne := expected_ne_unset e (.sc sc) hc
      simp only [load, ih, expected, bind, Except.bind, pure, Except.pure]
      try (cases hx : expected e (.sc sc) <;> simp_all)
    | arr l =>
      have hc : conforms e (.arr l) = true := by simpa [conforms] using h
      have ih := load_build o e (.arr l) hc
      have hne := expected_ne_unset e (.arr l) hc
      simp only [load, ih, expected, bind, Except.bind, pure, Except.pure]
      try (cases hx : expected e (.arr l) <;> simp_all)
    | obj l =>
      have hc : conforms e (.obj l) = true := by simpa [conforms] using h
      have ih := load_build o e (.obj l) hc
      have hne := expected_ne_unset e (.obj l) hc
      simp only [load, ih, expected, bind, Except.bind, pure, Except.pure]
      try (cases hx : expected e (.obj l) <;> simp_all)
theorem loadFields_build (o : Opts) : ∀ (fs : List (Bool × Str × Schema)) (fields : List (Bool × Str × Val)) (ms : List (Str × Json)),
    conformsFields fs fields = true → (∀ f ∈ fields, findMember f.2.1 ms = some (build f.2.2)) →
    loadFields o fs ms = .ok (expectedFields fs fields)
  | [], fields, ms, h, _ => by
    cases fields with
    | nil => simp [loadFields, expectedFields]
    | cons _ _ => simp [conformsFields] at h
  | (a, k, s) :: r, fields, ms, h, hf => by
    cases fields with
    | nil => simp [conformsFields] at h
    | cons g r' =>
      obtain ⟨a', k', v⟩ := g
      simp only [conformsFields, Bool.and_eq_true, beq_iff_eq] at h
      obtain ⟨⟨hk, hc⟩, hr⟩ := h
      subst hk
      have hm := hf (a', k, v) (by simp)
      simp only at hm
      have h1 := load_build o s v hc
      have h2 := loadFields_build o r r' ms hr (fun f hfm => hf f (by simp [hfm]))
      simp [loadFields, expectedFields, hm, h1, h2, bind, Except.bind, pure, Except.pure]
end



theorem findMember_perm (k : Str) {ms ms' : List (Str × Json)} (hp : ms.Perm ms') :
    (ms.map Prod.fst).Nodup → findMember k ms' = findMember k ms := by
  induction hp with
  | nil => intro _; rfl
  | cons x _ ih =>
    intro hnd
    obtain ⟨k', j⟩ := x
    simp only [List.map_cons, List.nodup_cons] at hnd
    simp only [findMember, ih hnd.2]
  | swap x y l =>
    intro hnd
    obtain ⟨kx, jx⟩ := x
    obtain ⟨ky, jy⟩ := y
    simp only [List.map_cons, List.nodup_cons, List.mem_cons, not_or] at hnd
    have hne : ky ≠ kx := hnd.1.1
    simp only [findMember]
    by_cases h1 : kx = k
    · subst h1
      simp [hne]
    · simp [h1]
  | trans h1 _ ih1 ih2 =>
    intro hnd
    have hnd2 := ((h1.map Prod.fst).nodup_iff).mp hnd
    rw [ih2 hnd2, ih1 hnd]

theorem loadFields_perm (o : Opts) (fs : List (Bool × Str × Schema)) {ms ms' : List (Str × Json)} (hp : ms.Perm ms')
    (hnd : (ms.map Prod.fst).Nodup) : loadFields o fs ms' = loadFields o fs ms := by
  induction fs with
  | nil => simp [loadFields]
  | cons f r ih =>
    obtain ⟨a, k, s⟩ := f
    simp only [loadFields, findMember_perm k hp hnd, ih]


end BSVerif.Adapter
