/-
  MODEL of the pugixml adapter (include/bitserializer/pugixml_archive.h), branch for branch:

  save : PugiXmlRootScope / ArrayScope / ObjectScope / AttributeScope in Save mode build the DOM:
         default root names `array` / `root` or the explicit key; array items `value` / `array` / `object`;
         `text().set(value)` for scalars (nothing for nullptr), `append_attribute(key).set_value(value)`.
  load : `GetChild` = `child(name)` (first child element with that name), array iteration over ALL child nodes
         with the iterator advanced before any check, `node.text().as_string(nullptr)` (first character data child;
         none = null), `IsContainerNode` (element whose first child is not character data; fix 3b099ec),
         `ConvertTextValue` = `Convert::To<T>(text)` with the policy catch blocks, used for element text and
         for attribute values (fix 76e29c9), root scope = first child of the document / `child(key)`.

  The DOM -> text printer (incl. number formatting `%.17g` / `%.9g` inside `text().set(double/float)`) and the
  text -> DOM parser are pugixml's: a parameter (`NumFmt`, `Codec` in Props/C08).
-/
import BSVerif.Adapter.NumText

namespace BSVerif.Adapter.XmlModel
open BSVerif.Adapter

/-- pugixml's number formatting inside `set_value` (parameter) -/
structure NumFmt where
  f64 : Nat → Str
  f32 : Nat → Str

def decimal (v : Int) : Str := (toString v).toList.map (·.toNat)

def strTrue : Str := [0x74, 0x72, 0x75, 0x65]
def strFalse : Str := [0x66, 0x61, 0x6C, 0x73, 0x65]
def nameValue : Str := [0x76, 0x61, 0x6C, 0x75, 0x65]
def nameArray : Str := [0x61, 0x72, 0x72, 0x61, 0x79]
def nameObject : Str := [0x6F, 0x62, 0x6A, 0x65, 0x63, 0x74]
def nameRoot : Str := [0x72, 0x6F, 0x6F, 0x74]

/-! ### save -/

/-- `SaveValue(node, value)`: the text set on the element; `none` = nullptr (no character data child) -/
def scalarText (fmt : NumFmt) : Scalar → Option Str
  | .null => none
  | .bool b => some (if b then strTrue else strFalse)
  | .int _ v => some (decimal v)
  | .f32 b => some (fmt.f32 b)
  | .f64 b => some (fmt.f64 b)
  | .str s => some s                      -- `text().set(data, size)`: a PCDATA child even for the empty string

/-- `attr.set_value(value)`; nullptr leaves the attribute value empty -/
def attrText (fmt : NumFmt) (s : Scalar) : Str := (scalarText fmt s).getD []

/-- element name of an array item -/
def itemName : Val → Str
  | .arr _ => nameArray
  | .obj _ => nameObject
  | _ => nameValue

mutual
/-- the element appended under `name` for a value -/
def buildNode (fmt : NumFmt) (name : Str) : Val → XNode
  | .sc s => .elem name [] (match scalarText fmt s with | some t => [.text t] | none => [])
  | .none => .elem name [] []
  | .arr items => .elem name [] (buildItems fmt items)
  | .obj fields => .elem name (buildAttrs fmt fields) (buildChildren fmt fields)
def buildItems (fmt : NumFmt) : List Val → List XNode
  | [] => []
  | v :: r => buildNode fmt (itemName v) v :: buildItems fmt r
/-- `archive << AttributeValue(key, value)` for the attribute fields, in order -/
def buildAttrs (fmt : NumFmt) : List (Bool × Str × Val) → List (Str × Str)
  | [] => []
  | (true, k, .sc s) :: r => (k, attrText fmt s) :: buildAttrs fmt r
  | (true, k, _) :: r => (k, []) :: buildAttrs fmt r          -- empty optional: nullptr
  | (false, _, _) :: r => buildAttrs fmt r
/-- `archive << KeyValue(key, value)` for the other fields, in order -/
def buildChildren (fmt : NumFmt) : List (Bool × Str × Val) → List XNode
  | [] => []
  | (false, k, v) :: r => buildNode fmt k v :: buildChildren fmt r
  | (true, _, _) :: r => buildChildren fmt r
end

/-- `SaveObject`: the root element (`key = none`: default names; scalars are not supported by the root scope) -/
def buildRoot (fmt : NumFmt) (key : Option Str) (v : Val) : Option XNode :=
  match v with
  | .arr _ => some (buildNode fmt (key.getD nameArray) v)
  | .obj _ => some (buildNode fmt (key.getD nameRoot) v)
  | _ => none

/-! ### load -/

/-- `node.text().as_string(nullptr)`: the node itself when it is character data, else its first character data child -/
def textOf : XNode → Option Str
  | .text s => some s
  | .elem _ _ children => children.findSome? fun c => match c with | .text s => some s | _ => none

/-- `node.child(name)`: first child ELEMENT with that name -/
def childNamed (k : Str) : List XNode → Option XNode
  | [] => none
  | .elem n a c :: r => if n = k then some (.elem n a c) else childNamed k r
  | _ :: r => childNamed k r

def attrNamed (k : Str) : List (Str × Str) → Option Str
  | [] => none
  | (n, v) :: r => if n = k then some v else attrNamed k r

/-- `IsContainerNode(node)` (fix 3b099ec) -/
def isContainer : XNode → Bool
  | .elem _ _ [] => true
  | .elem _ _ (.elem _ _ _ :: _) => true
  | _ => false

def childrenOf : XNode → List XNode
  | .elem _ _ c => c
  | .text _ => []

def attrsOf : XNode → List (Str × Str)
  | .elem _ a _ => a
  | .text _ => []

/-- the catch blocks of `ConvertTextValue` -/
def byPolicy (o : Opts) : Except ConvErr Scalar → Except Err (Option Scalar)
  | .ok s => .ok (some s)
  | .error .outOfRange => if o.overflow = .throwError then .error .overflow else .ok none
  | .error .invalidArgument => if o.mismatched = .throwError then .error .mismatched else .ok none

inductive Conv where
  | done (r : Except Err (Option Scalar))
  | unevaluated

/-- `ConvertTextValue(text, value, options)` for an arithmetic target -/
def convertText (o : Opts) (t : LeafTy) (text : Str) : Conv :=
  match t with
  | .bool => .done (byPolicy o ((NumText.convTextBool text).map .bool))
  | .int ty => .done (byPolicy o ((NumText.convTextInt ty text).map (.int ty)))
  | .f64 => match NumText.convTextFloat b64 text with
    | .ok b => .done (.ok (some (.f64 b)))
    | .err e => .done (byPolicy o (.error e))
    | .unevaluated => .unevaluated
  | .f32 => match NumText.convTextFloat b32 text with
    | .ok b => .done (.ok (some (.f32 b)))
    | .err e => .done (byPolicy o (.error e))
    | .unevaluated => .unevaluated
  | _ => .done (.ok none)

/-- `PugiXmlExtensions::LoadValue(node, value, options)` -/
def loadValue (o : Opts) (t : LeafTy) (n : XNode) : Conv :=
  match t with
  | .null => .done (.ok none)        -- `return node.empty()`: the handle of an existing node is never empty
  | .str => .done (.ok ((textOf n).map .str))
  | _ =>
    match textOf n with
    | some text => convertText o t text
    | none => .done (.ok none)       -- "Empty node is treated as Null"

/-- `PugiXmlAttributeScope::SerializeValue(key, value)` in Load mode -/
def loadAttr (o : Opts) (t : LeafTy) (attrs : List (Str × Str)) (k : Str) : Conv :=
  match attrNamed k attrs with
  | none => .done (.ok (if t = .null then some .null else none))      -- `return std::is_null_pointer_v<T>`
  | some v =>
    match t with
    | .null => .done (.ok (some .null))
    | .str => .done (.ok (some (.str v)))
    | _ => if v.isEmpty then .done (.ok none) else convertText o t v  -- empty attribute = null

inductive LoadRes where
  | ok (v : LVal)
  | err (e : Err)
  | unevaluated

def ofConv : Conv → LoadRes
  | .done (.ok (some s)) => .ok (.sc s)
  | .done (.ok none) => .ok .unset
  | .done (.error e) => .err e
  | .unevaluated => .unevaluated

def scopeMismatch (o : Opts) : LoadRes := if o.mismatched = .throwError then .err .mismatched else .ok .unset

/-- sequence the per-item loads of a list (first exception wins) -/
def seqLoad (f : XNode → LoadRes) : List XNode → (List LVal → LoadRes) → LoadRes
  | [], k => k []
  | n :: r, k =>
    match f n with
    | .ok v => seqLoad f r (fun vs => k (v :: vs))
    | .err e => .err e
    | .unevaluated => .unevaluated

def mapInsert (k : Str) (v : LVal) : List (Str × LVal) → List (Str × LVal)
  | [] => [(k, v)]
  | (k', v') :: r => if k = k' then (k, v) :: r else if k < k' then (k, v) :: (k', v') :: r else (k', v') :: mapInsert k v r

def mapHas (k : Str) (m : List (Str × LVal)) : Bool := m.any fun e => e.1 == k

def mapStep (k : Str) (v : LVal) (acc : List (Str × LVal)) : List (Str × LVal) :=
  match v with
  | .unset => if mapHas k acc then acc else mapInsert k .unset acc
  | v => mapInsert k v acc

def nameOf : XNode → Str
  | .elem n _ _ => n
  | .text _ => []          -- `keyVal.name()` of a character data node is the empty string

/-- `SerializeMapImpl` in Load mode: `VisitKeys` over ALL child nodes (`keyVal.name()`), each key loaded through `child(name)` -/
def mapBody (f : Option XNode → LoadRes) (children : List XNode) : LoadRes :=
  children.foldl (fun acc c =>
    match acc with
    | .ok (.map es) =>
      (match f (childNamed (nameOf c) children) with
       | .ok v => .ok (.map (mapStep (nameOf c) v es))
       | .err err => .err err
       | .unevaluated => .unevaluated)
    | other => other) (.ok (.map []))

mutual
/-- `Serialize(scope, [key,] value)` in Load mode for the node found at this position (`none`: `child(key)` is empty) -/
def load (o : Opts) : Schema → Option XNode → LoadRes
  | .leaf _, none => .ok .unset
  | .leaf t, some n => ofConv (loadValue o t n)
  | .vec _, none => .ok .unset
  | .vec e, some n =>
    -- SerializeContainer: every child node is an item (`LoadNextItem` until `IsEnd`)
    if isContainer n then seqLoad (fun c => load o e (some c)) (childrenOf n) (fun vs => .ok (.arr vs))
    else scopeMismatch o
  | .cls _, none => .ok .unset
  | .cls fs, some n =>
    if isContainer n then loadFields o fs n (fun vs => .ok (.obj vs))
    else scopeMismatch o
  | .map _, none => .ok .unset
  | .map e, some n =>
    if isContainer n then mapBody (fun c => load o e c) (childrenOf n)
    else scopeMismatch o
  | .opt e, n =>
    match load o e n with
    | .ok .unset => .ok .none
    | r => r
/-- class fields in declaration order: attributes through the attribute scope, the others through `child(key)` -/
def loadFields (o : Opts) : List (Bool × Str × Schema) → XNode → (List LVal → LoadRes) → LoadRes
  | [], _, k => k []
  | (true, key, s) :: r, n, k =>
    let v : LoadRes := match s with
      | .leaf t => ofConv (loadAttr o t (attrsOf n) key)
      | .opt (.leaf t) => (match ofConv (loadAttr o t (attrsOf n) key) with | .ok .unset => .ok .none | other => other)
      | _ => .unevaluated            -- does not compile: the attribute scope has no array / object scopes
    match v with
    | .ok v => loadFields o r n (fun vs => k (v :: vs))
    | other => other
  | (false, key, s) :: r, n, k =>
    match load o s (childNamed key (childrenOf n)) with
    | .ok v => loadFields o r n (fun vs => k (v :: vs))
    | other => other
end

/-- the root scope opens the scope on the element whatever its name and content (`node.type() == node_element`) -/
def openRoot (o : Opts) (s : Schema) (root : XNode) : LoadRes :=
  match s with
  | .vec e => seqLoad (fun c => load o e (some c)) (childrenOf root) (fun vs => .ok (.arr vs))
  | .cls fs => loadFields o fs root (fun vs => .ok (.obj vs))
  | .map e => mapBody (fun c => load o e c) (childrenOf root)
  | _ => .unevaluated                        -- does not compile: the root scope has no SerializeValue

/-- `LoadObject([KeyValue(key,] value[)], document)`: `root` = the document element
    (`first_child()` of the document / `child(key)` of the document) -/
def loadRoot (o : Opts) (key : Option Str) (s : Schema) (root : XNode) : LoadRes :=
  match key with
  | none => openRoot o s root
  | some k => if nameOf root = k then openRoot o s root else (match s with | .leaf _ | .opt _ => .unevaluated | _ => .ok .unset)

end BSVerif.Adapter.XmlModel
