/-
  SPEC: XML text -> tree, written from "Extensible Markup Language (XML) 1.0 (Fifth Edition)", not from
  pugixml: productions [1]-[44], [66]-[68], well-formedness constraints "Element Type Match",
  "Unique Att Spec", "No < in Attribute Values", "Legal Character", line-end handling (§2.11) and
  attribute-value normalisation (§3.3.3). Documents with a DOCTYPE are not evaluated (no DTD support).

  Output: raw nodes (`RNode`) that still show how the character data was written (separate runs,
  CDATA sections, runs made of literal white space only) so that two views can be derived:
    * `RNode.toInfoset` — the XML data model: adjacent character data merged (Infoset 2.6)
    * `RNode.toPugi`    — what pugixml's `parse_default` keeps: one node per run, runs of literal white
                          space dropped, comments / processing instructions dropped
-/
import BSVerif.Adapter.Basic
import BSVerif.Utf.Spec

namespace BSVerif.Adapter.XmlText
open BSVerif.Adapter

inductive RNode where
  | elem (name : Str) (attrs : List (Str × Str)) (children : List RNode)
  | pcdata (s : List Nat) (rawWs : Bool)      -- scalars; rawWs: written with literal white space only
  | cdata (s : List Nat)
  deriving Repr

/-- [2] Char -/
def isChar (c : Nat) : Bool :=
  c == 0x9 || c == 0xA || c == 0xD || (0x20 ≤ c && c ≤ 0xD7FF) || (0xE000 ≤ c && c ≤ 0xFFFD) || (0x10000 ≤ c && c ≤ 0x10FFFF)

/-- [3] S -/
def isS (c : Nat) : Bool := c == 0x20 || c == 0x9 || c == 0xD || c == 0xA

/-- [4] NameStartChar -/
def isNameStart (c : Nat) : Bool :=
  c == 0x3A || (0x41 ≤ c && c ≤ 0x5A) || c == 0x5F || (0x61 ≤ c && c ≤ 0x7A) || (0xC0 ≤ c && c ≤ 0xD6) || (0xD8 ≤ c && c ≤ 0xF6)
  || (0xF8 ≤ c && c ≤ 0x2FF) || (0x370 ≤ c && c ≤ 0x37D) || (0x37F ≤ c && c ≤ 0x1FFF) || (0x200C ≤ c && c ≤ 0x200D)
  || (0x2070 ≤ c && c ≤ 0x218F) || (0x2C00 ≤ c && c ≤ 0x2FEF) || (0x3001 ≤ c && c ≤ 0xD7FF) || (0xF900 ≤ c && c ≤ 0xFDCF)
  || (0xFDF0 ≤ c && c ≤ 0xFFFD) || (0x10000 ≤ c && c ≤ 0xEFFFF)

/-- [4a] NameChar -/
def isNameChar (c : Nat) : Bool :=
  isNameStart c || c == 0x2D || c == 0x2E || (0x30 ≤ c && c ≤ 0x39) || c == 0xB7 || (0x300 ≤ c && c ≤ 0x36F) || (0x203F ≤ c && c ≤ 0x2040)

def skipS : List Nat → List Nat
  | c :: r => if isS c then skipS r else c :: r
  | [] => []

def takeNameChars : List Nat → List Nat → List Nat × List Nat
  | c :: r, acc => if isNameChar c then takeNameChars r (c :: acc) else (acc.reverse, c :: r)
  | [], acc => (acc.reverse, [])

/-- [5] Name -/
def parseName : List Nat → Option (List Nat × List Nat)
  | c :: r => if isNameStart c then (let (n, r') := takeNameChars r []; some (c :: n, r')) else none
  | [] => none

def utf8 (cs : List Nat) : Str := cs.flatMap Utf.Spec.enc8

def startsWith (p : List Nat) (cs : List Nat) : Option (List Nat) :=
  if cs.take p.length = p then some (cs.drop p.length) else none

def digitsToNat (base : Nat) (digit : Nat → Option Nat) : List Nat → Nat → Option (Nat × List Nat)
  | c :: r, acc =>
    if c = 0x3B then some (acc, r)
    else match digit c with
      | some d => digitsToNat base digit r (acc * base + d)
      | none => none
  | [], _ => none

def decDigit (c : Nat) : Option Nat := if 0x30 ≤ c ∧ c ≤ 0x39 then some (c - 0x30) else none
def hexDigit' (c : Nat) : Option Nat :=
  if 0x30 ≤ c ∧ c ≤ 0x39 then some (c - 0x30) else if 0x41 ≤ c ∧ c ≤ 0x46 then some (c - 55) else if 0x61 ≤ c ∧ c ≤ 0x66 then some (c - 87) else none

/-- [67] Reference, after the `&`: character references and the five predefined entities (§4.6) -/
def parseReference (cs : List Nat) : Option (Nat × List Nat) :=
  match cs with
  | 0x23 :: 0x78 :: r =>
    match r with
    | 0x3B :: _ => none
    | _ => (digitsToNat 16 hexDigit' r 0).bind fun (v, r') => if isChar v then some (v, r') else none     -- WFC: Legal Character
  | 0x23 :: r =>
    match r with
    | 0x3B :: _ => none
    | _ => (digitsToNat 10 decDigit r 0).bind fun (v, r') => if isChar v then some (v, r') else none
  | _ =>
    if let some r := startsWith [0x6C, 0x74, 0x3B] cs then some (0x3C, r)                      -- lt
    else if let some r := startsWith [0x67, 0x74, 0x3B] cs then some (0x3E, r)                 -- gt
    else if let some r := startsWith [0x61, 0x6D, 0x70, 0x3B] cs then some (0x26, r)           -- amp
    else if let some r := startsWith [0x61, 0x70, 0x6F, 0x73, 0x3B] cs then some (0x27, r)     -- apos
    else if let some r := startsWith [0x71, 0x75, 0x6F, 0x74, 0x3B] cs then some (0x22, r)     -- quot
    else none                                                                                   -- WFC: Entity Declared

/-- [10] AttValue after the opening quote `q`, with the normalisation of §3.3.3 -/
def parseAttValue (q : Nat) : Nat → List Nat → List Nat → Option (List Nat × List Nat)
  | 0, _, _ => none
  | _ + 1, [], _ => none
  | fuel + 1, c :: r, acc =>
    if c = q then some (acc.reverse, r)
    else if c = 0x3C then none
    else if c = 0x26 then
      match parseReference r with
      | some (v, r') => parseAttValue q fuel r' (v :: acc)
      | none => none
    else if !isChar c then none
    else if c = 0x9 ∨ c = 0xA ∨ c = 0xD then parseAttValue q fuel r (0x20 :: acc)
    else parseAttValue q fuel r (c :: acc)

/-- attributes of a start tag: (S Attribute)* S? ; returns the rest at `>` or `/>` -/
def parseAttrs : Nat → List Nat → List (Str × Str) → Option (List (Str × Str) × List Nat)
  | 0, _, _ => none
  | fuel + 1, cs, acc =>
    let cs' := skipS cs
    match cs' with
    | 0x3E :: _ => some (acc.reverse, cs')
    | 0x2F :: 0x3E :: _ => some (acc.reverse, cs')
    | _ =>
      if cs'.length = cs.length then none       -- an attribute must be preceded by white space
      else match parseName cs' with
        | none => none
        | some (n, r) =>
          match skipS r with
          | 0x3D :: r1 =>
            match skipS r1 with
            | q :: r2 =>
              if q = 0x22 ∨ q = 0x27 then
                match parseAttValue q (r2.length + 1) r2 [] with
                | some (v, r3) =>
                  let name := utf8 n
                  if acc.any (fun a => a.1 == name) then none          -- WFC: Unique Att Spec
                  else parseAttrs fuel r3 ((name, utf8 v) :: acc)
                | none => none
              else none
            | [] => none
          | _ => none

/-- [15] Comment after `<!--` -/
def skipComment : List Nat → Option (List Nat)
  | 0x2D :: 0x2D :: r => (match r with | 0x3E :: r' => some r' | _ => none)      -- "--" only as part of "-->"
  | c :: r => if isChar c then skipComment r else none
  | [] => none

/-- [16] PI after `<?`: the target must not be `xml` (any case) -/
def skipPIBody : List Nat → Option (List Nat)
  | 0x3F :: 0x3E :: r => some r
  | c :: r => if isChar c then skipPIBody r else none
  | [] => none

def lower (c : Nat) : Nat := if 0x41 ≤ c ∧ c ≤ 0x5A then c + 32 else c

def skipPI (cs : List Nat) : Option (List Nat) :=
  match parseName cs with
  | none => none
  | some (t, r) =>
    if t.map lower = [0x78, 0x6D, 0x6C] then none
    else match r with
      | 0x3F :: 0x3E :: r' => some r'
      | c :: _ => if isS c then skipPIBody r else none
      | [] => none

/-- [20] CData after `<![CDATA[` -/
def parseCData : List Nat → List Nat → Option (List Nat × List Nat)
  | 0x5D :: 0x5D :: 0x3E :: r, acc => some (acc.reverse, r)
  | c :: r, acc => if isChar c then parseCData r (c :: acc) else none
  | [], _ => none

def flushRun (run : List Nat) (rawWs : Bool) (acc : List RNode) : List RNode :=
  if run.isEmpty then acc else .pcdata run.reverse rawWs :: acc

inductive Res (α : Type) where
  | ok (a : α) (rest : List Nat)
  | malformed
  | unevaluated

mutual
/-- [39] element, after the `<` and with the cursor at the name -/
def parseElement : Nat → List Nat → Res RNode
  | 0, _ => .malformed
  | fuel + 1, cs =>
    match parseName cs with
    | none => .malformed
    | some (n, r) =>
      match parseAttrs (r.length + 1) r [] with
      | none => .malformed
      | some (attrs, r1) =>
        match r1 with
        | 0x2F :: 0x3E :: r2 => .ok (.elem (utf8 n) attrs []) r2
        | 0x3E :: r2 =>
          match parseContent fuel r2 [] [] true with
          | .ok children r3 =>
            -- r3 is just behind `</`
            match parseName r3 with
            | some (n', r4) =>
              if n' = n then
                match skipS r4 with
                | 0x3E :: r5 => .ok (.elem (utf8 n) attrs children) r5
                | _ => .malformed
              else .malformed                    -- WFC: Element Type Match
            | none => .malformed
          | .malformed => .malformed
          | .unevaluated => .unevaluated
        | _ => .malformed
/-- [43] content up to the `</` of the enclosing element; `run` = pending character data (reversed) -/
def parseContent : Nat → List Nat → List RNode → List Nat → Bool → Res (List RNode)
  | 0, _, _, _, _ => .malformed
  | fuel + 1, cs, acc, run, rawWs =>
    match cs with
    | [] => .malformed
    | 0x3C :: r =>
      let acc' := flushRun run rawWs acc
      match r with
      | 0x2F :: r1 => .ok acc'.reverse r1
      | 0x21 :: 0x2D :: 0x2D :: r1 =>
        match skipComment r1 with
        | some r2 => parseContent fuel r2 acc' [] true
        | none => .malformed
      | 0x21 :: 0x5B :: 0x43 :: 0x44 :: 0x41 :: 0x54 :: 0x41 :: 0x5B :: r1 =>
        match parseCData r1 [] with
        | some (s, r2) => parseContent fuel r2 (.cdata s :: acc') [] true
        | none => .malformed
      | 0x3F :: r1 =>
        match skipPI r1 with
        | some r2 => parseContent fuel r2 acc' [] true
        | none => .malformed
      | _ =>
        match parseElement fuel r with
        | .ok e r1 => parseContent fuel r1 (e :: acc') [] true
        | .malformed => .malformed
        | .unevaluated => .unevaluated
    | 0x26 :: r =>
      match parseReference r with
      | some (v, r1) => parseContent fuel r1 acc (v :: run) false
      | none => .malformed
    | 0x5D :: 0x5D :: 0x3E :: _ => .malformed           -- [14] CharData excludes "]]>"
    | c :: r =>
      if !isChar c then .malformed
      else parseContent fuel r acc (c :: run) (rawWs && isS c)
end

/-- §2.11: line ends are normalised before parsing -/
def normalizeEol : List Nat → List Nat
  | 0xD :: 0xA :: r => 0xA :: normalizeEol r
  | 0xD :: r => 0xA :: normalizeEol r
  | c :: r => c :: normalizeEol r
  | [] => []

/-- [27] Misc* -/
def skipMisc : Nat → List Nat → Option (List Nat)
  | 0, _ => none
  | fuel + 1, cs =>
    match skipS cs with
    | 0x3C :: 0x21 :: 0x2D :: 0x2D :: r => (skipComment r).bind (skipMisc fuel)
    | 0x3C :: 0x3F :: r => (skipPI r).bind (skipMisc fuel)
    | other => some other

/-- pseudo attributes of the XML declaration: returns the declared encoding name (lower case) -/
def parseXmlDecl (cs : List Nat) : Option (Option (List Nat) × List Nat) :=
  -- cs is behind `<?xml`; [23] XMLDecl ::= '<?xml' VersionInfo EncodingDecl? SDDecl? S? '?>'
  match parseAttrs (cs.length + 1) (cs.map fun c => if c = 0x3F then 0x2F else c) [] with     -- reuse the attribute scanner: treat `?>` as `/>`
  | some (attrs, rest) =>
    let names := attrs.map (·.1)
    let okOrder := names = [[0x76,0x65,0x72,0x73,0x69,0x6F,0x6E]] ∨ names = [[0x76,0x65,0x72,0x73,0x69,0x6F,0x6E],[0x65,0x6E,0x63,0x6F,0x64,0x69,0x6E,0x67]]
      ∨ names = [[0x76,0x65,0x72,0x73,0x69,0x6F,0x6E],[0x73,0x74,0x61,0x6E,0x64,0x61,0x6C,0x6F,0x6E,0x65]]
      ∨ names = [[0x76,0x65,0x72,0x73,0x69,0x6F,0x6E],[0x65,0x6E,0x63,0x6F,0x64,0x69,0x6E,0x67],[0x73,0x74,0x61,0x6E,0x64,0x61,0x6C,0x6F,0x6E,0x65]]
    if !okOrder then none else
    let enc := (attrs.find? fun a => a.1 == [0x65,0x6E,0x63,0x6F,0x64,0x69,0x6E,0x67]).map fun a => a.2.map lower
    match rest with
    | 0x2F :: 0x3E :: r =>
      -- position of the real rest in the original list; the terminator must really be `?>`
      if (cs.drop (cs.length - r.length - 2)).take 2 = [0x3F, 0x3E] then some (enc, cs.drop (cs.length - r.length)) else none
    | _ => none
  | none => none

inductive DocRes where
  | ok (root : RNode) (declEnc : Option (List Nat))
  | malformed
  | unevaluated
  deriving Repr

/-- [1] document ::= prolog element Misc* -/
def parseDoc (cs0 : List Nat) : DocRes :=
  let cs := normalizeEol cs0
  let fuel := cs.length + 2
  let (declEnc, afterDecl) : Option (List Nat) × Option (List Nat) :=
    match startsWith [0x3C, 0x3F, 0x78, 0x6D, 0x6C] cs with
    | some r =>
      (match r with
       | c :: _ =>
         if isS c then (match parseXmlDecl r with | some (e, r') => (e, some r') | none => (none, none))
         else if isNameChar c then (none, some cs)     -- `<?xml-stylesheet ...?>`: an ordinary processing instruction
         else (none, none)
       | [] => (none, none))
    | none => (none, some cs)
  match afterDecl with
  | none => .malformed
  | some r =>
    match skipMisc fuel r with
    | none => .malformed
    | some r1 =>
      match r1 with
      | 0x3C :: 0x21 :: 0x44 :: _ => .unevaluated       -- <!DOCTYPE
      | 0x3C :: r2 =>
        match parseElement fuel r2 with
        | .ok root r3 =>
          match skipMisc fuel r3 with
          | some [] => .ok root declEnc
          | _ => .malformed
        | .malformed => .malformed
        | .unevaluated => .unevaluated
      | _ => .malformed

/-! ### views -/

def isWsOnly (s : List Nat) : Bool := s.all isS

def mergeText : List XNode → List XNode → List XNode
  | [], acc => acc.reverse
  | .text a :: r, .text b :: acc => mergeText r (.text (b ++ a) :: acc)
  | x :: r, acc => mergeText r (x :: acc)

mutual
/-- the XML data model: adjacent character data merged -/
def toInfoset : RNode → XNode
  | .elem n attrs children => .elem n attrs (mergeText (infosetList children) [])
  | .pcdata s _ => .text (utf8 s)
  | .cdata s => .text (utf8 s)
def infosetList : List RNode → List XNode
  | [] => []
  | c :: r => toInfoset c :: infosetList r
end

mutual
/-- pugixml `parse_default`: one node per character data run or CDATA section; runs written with literal white
    space only are not kept -/
def toPugi : RNode → List XNode
  | .elem n attrs children => [.elem n attrs (pugiList children)]
  | .pcdata s rawWs => if rawWs then [] else [.text (utf8 s)]
  | .cdata s => [.text (utf8 s)]
def pugiList : List RNode → List XNode
  | [] => []
  | c :: r => toPugi c ++ pugiList r
end

end BSVerif.Adapter.XmlText
