/-
  Basic definitions shared by all models: byte/unit lists, hex rendering and parsing
  (used only by the line-protocol driver), small list utilities.
  Core Lean only — no Mathlib — so that `bsmodel` links as a native executable.
-/
namespace BSVerif

abbrev Bytes := List Nat   -- every element < 256 (enforced by the driver's parser)

def hexDigit (n : Nat) : Char :=
  if n < 10 then Char.ofNat (48 + n) else Char.ofNat (87 + n)

def hexByte (n : Nat) : String :=
  String.ofList [hexDigit (n / 16 % 16), hexDigit (n % 16)]

/-- lower-case hex of a unit of `w` bits, most significant nibble first, fixed width. -/
def hexUnit (w : Nat) (n : Nat) : String :=
  String.ofList ((List.range (w / 4)).reverse.map fun i => hexDigit (n / 16 ^ i % 16))

def hexUnits (w : Nat) (l : List Nat) : String :=
  if l.isEmpty then "-" else String.intercalate "." (l.map (hexUnit w))

def hexBytes (l : List Nat) : String :=
  if l.isEmpty then "-" else String.join (l.map hexByte)

def hexVal (c : Char) : Option Nat :=
  if '0' ≤ c ∧ c ≤ '9' then some (c.toNat - 48)
  else if 'a' ≤ c ∧ c ≤ 'f' then some (c.toNat - 87)
  else if 'A' ≤ c ∧ c ≤ 'F' then some (c.toNat - 55)
  else none

def parseHexNat (s : String) : Option Nat :=
  if s.isEmpty then none else
  s.toList.foldl (fun acc c => match acc, hexVal c with
    | some a, some v => some (a * 16 + v)
    | _, _ => none) (some 0)

/-- `-` is the empty list; otherwise dot-separated hex numbers. -/
def parseUnits (s : String) : Option (List Nat) :=
  if s == "-" then some [] else
  (s.splitOn ".").mapM parseHexNat

def parseBytesAux : List Char → Option (List Nat)
  | [] => some []
  | [_] => none
  | a :: b :: rest => do
    let x ← hexVal a
    let y ← hexVal b
    let r ← parseBytesAux rest
    pure ((x * 16 + y) :: r)

/-- `-` is the empty byte string; otherwise contiguous hex pairs. -/
def parseBytes (s : String) : Option (List Nat) :=
  if s == "-" then some [] else parseBytesAux s.toList

def parseInt (s : String) : Option Int :=
  if s.startsWith "-" then (s.drop 1).toString.toNat?.map fun n => -(Int.ofNat n)
  else s.toNat?.map Int.ofNat

end BSVerif
