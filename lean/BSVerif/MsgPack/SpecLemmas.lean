/-
  Helper lemmas about the Spec itself: the decoder inverts the encoder (every format, every token).
-/
import BSVerif.MsgPack.WriterLemmas

namespace BSVerif.MsgPack
open BSVerif BSVerif.MsgPack.Spec BSVerif.MsgPack.Model

/-- Spec sanity: the decoder inverts the encoder for every format and token (so `Conformant`
    is not vacuous and `ableToHold` means what it says). -/
theorem decode_encode (f : Format) (t : Token) (bs : Bytes) (h : encodeAs f t = some bs) (r : Bytes) :
    decodeToken (bs ++ r) = some (t, f, r) := by
  cases f <;> cases t <;> simp [encodeAs] at h
  case posFixint.int v =>
    obtain ⟨⟨h0, h1⟩, rfl⟩ := h
    simp [decodeToken, formatOf_posFixint v.toNat (by omega), Int.toNat_of_nonneg h0]
  case negFixint.int v =>
    obtain ⟨⟨h0, h1⟩, rfl⟩ := h
    have hf : formatOf (v + 256).toNat = .negFixint := formatOf_negFixint _ (by omega)
    simp [decodeToken, hf, Int.toNat_of_nonneg (show 0 ≤ v + 256 by omega)]
  case fixmap.map n =>
    obtain ⟨h0, rfl⟩ := h
    have : 128 + n - 128 = n := by omega
    simp [decodeToken, formatOf_fixmap n h0, this]
  case fixarray.array n =>
    obtain ⟨h0, rfl⟩ := h
    have : 144 + n - 144 = n := by omega
    simp [decodeToken, formatOf_fixarray n h0, this]
  case fixstr.str d =>
    obtain ⟨h0, rfl⟩ := h
    have : 160 + d.length - 160 = d.length := by omega
    simp [decodeToken, formatOf_fixstr _ h0, this, takeN_append]
  case nil.nil => subst h; simp [decodeToken, formatOf]
  case false_.bool b => cases b <;> simp [encodeAs] at h; subst h; simp [decodeToken, formatOf]
  case true_.bool b => cases b <;> simp [encodeAs] at h; subst h; simp [decodeToken, formatOf]
  case bin8.bin d =>
    simp only [encLenData] at h; split at h <;> simp at h; subst h
    rename_i hl
    simp [decodeToken, formatOf, decLenData_be 1 d.length d r hl rfl]
  case bin16.bin d =>
    simp only [encLenData] at h; split at h <;> simp at h; subst h
    rename_i hl
    simp [decodeToken, formatOf, decLenData_be 2 d.length d r hl rfl]
  case bin32.bin d =>
    simp only [encLenData] at h; split at h <;> simp at h; subst h
    rename_i hl
    simp [decodeToken, formatOf, decLenData_be 4 d.length d r hl rfl]
  case str8.str d =>
    simp only [encLenData] at h; split at h <;> simp at h; subst h
    rename_i hl
    simp [decodeToken, formatOf, decLenData_be 1 d.length d r hl rfl]
  case str16.str d =>
    simp only [encLenData] at h; split at h <;> simp at h; subst h
    rename_i hl
    simp [decodeToken, formatOf, decLenData_be 2 d.length d r hl rfl]
  case str32.str d =>
    simp only [encLenData] at h; split at h <;> simp at h; subst h
    rename_i hl
    simp [decodeToken, formatOf, decLenData_be 4 d.length d r hl rfl]
  case ext8.ext t d =>
    simp only [encExt] at h; split at h <;> simp at h; subst h
    rename_i hl
    have := decExt_eq .ext8 1 d.length (ofSigned 8 t) d r hl.1 rfl
    have ht : toSigned 8 (ofSigned 8 t) = t := by
      have := hl.2; simp [tyOk] at this; simp [toSigned, ofSigned]; split <;> omega
    simp [decodeToken, formatOf, this, ht]
  case ext16.ext t d =>
    simp only [encExt] at h; split at h <;> simp at h; subst h
    rename_i hl
    have := decExt_eq .ext16 2 d.length (ofSigned 8 t) d r hl.1 rfl
    have ht : toSigned 8 (ofSigned 8 t) = t := by
      have := hl.2; simp [tyOk] at this; simp [toSigned, ofSigned]; split <;> omega
    simp [decodeToken, formatOf, this, ht]
  case ext32.ext t d =>
    simp only [encExt] at h; split at h <;> simp at h; subst h
    rename_i hl
    have := decExt_eq .ext32 4 d.length (ofSigned 8 t) d r hl.1 rfl
    have ht : toSigned 8 (ofSigned 8 t) = t := by
      have := hl.2; simp [tyOk] at this; simp [toSigned, ofSigned]; split <;> omega
    simp [decodeToken, formatOf, this, ht]
  case float32.f32 b =>
    obtain ⟨h0, rfl⟩ := h
    simp [decodeToken, formatOf, takeN_beBytes, beNat_beBytes 4 b (by simpa using h0)]
  case float64.f64 b =>
    obtain ⟨h0, rfl⟩ := h
    simp [decodeToken, formatOf, takeN_beBytes, beNat_beBytes 8 b (by simpa using h0)]
  case uint8.int v =>
    simp only [encUInt] at h; split at h <;> simp at h; subst h
    rename_i hl
    simp [decodeToken, formatOf, decUInt, takeN_beBytes, beNat_beBytes 1 v.toNat (by have := hl.2; simp at this ⊢; omega),
      Int.toNat_of_nonneg hl.1]
  case uint16.int v =>
    simp only [encUInt] at h; split at h <;> simp at h; subst h
    rename_i hl
    simp [decodeToken, formatOf, decUInt, takeN_beBytes, beNat_beBytes 2 v.toNat (by have := hl.2; simp at this ⊢; omega),
      Int.toNat_of_nonneg hl.1]
  case uint32.int v =>
    simp only [encUInt] at h; split at h <;> simp at h; subst h
    rename_i hl
    simp [decodeToken, formatOf, decUInt, takeN_beBytes, beNat_beBytes 4 v.toNat (by have := hl.2; simp at this ⊢; omega),
      Int.toNat_of_nonneg hl.1]
  case uint64.int v =>
    simp only [encUInt] at h; split at h <;> simp at h; subst h
    rename_i hl
    simp [decodeToken, formatOf, decUInt, takeN_beBytes, beNat_beBytes 8 v.toNat (by have := hl.2; simp at this ⊢; omega),
      Int.toNat_of_nonneg hl.1]
  case int8.int v =>
    simp only [encSInt] at h; split at h <;> simp at h; subst h
    rename_i hl
    have hu : ofSigned 8 v = uimg 1 v := by simp [ofSigned, uimg]
    have := hl.1; have := hl.2
    simp [decodeToken, formatOf, decSInt, takeN_beBytes, hu, beNat_beBytes 1 _ (uimg_lt 1 v),
      toSigned_uimg1 v (by simp at *; omega) (by simp at *; omega)]
  case int16.int v =>
    simp only [encSInt] at h; split at h <;> simp at h; subst h
    rename_i hl
    have hu : ofSigned 16 v = uimg 2 v := by simp [ofSigned, uimg]
    have := hl.1; have := hl.2
    simp [decodeToken, formatOf, decSInt, takeN_beBytes, hu, beNat_beBytes 2 _ (uimg_lt 2 v),
      toSigned_uimg2 v (by simp at *; omega) (by simp at *; omega)]
  case int32.int v =>
    simp only [encSInt] at h; split at h <;> simp at h; subst h
    rename_i hl
    have hu : ofSigned 32 v = uimg 4 v := by simp [ofSigned, uimg]
    have := hl.1; have := hl.2
    simp [decodeToken, formatOf, decSInt, takeN_beBytes, hu, beNat_beBytes 4 _ (uimg_lt 4 v),
      toSigned_uimg4 v (by simp at *; omega) (by simp at *; omega)]
  case int64.int v =>
    simp only [encSInt] at h; split at h <;> simp at h; subst h
    rename_i hl
    have hu : ofSigned 64 v = uimg 8 v := by simp [ofSigned, uimg]
    have := hl.1; have := hl.2
    simp [decodeToken, formatOf, decSInt, takeN_beBytes, hu, beNat_beBytes 8 _ (uimg_lt 8 v),
      toSigned_uimg8 v (by simp at *; omega) (by simp at *; omega)]
  case array16.array n =>
    simp only [encCount] at h; split at h <;> simp at h; subst h
    rename_i hl
    simp [decodeToken, formatOf, takeN_beBytes, beNat_beBytes 2 n hl]
  case array32.array n =>
    simp only [encCount] at h; split at h <;> simp at h; subst h
    rename_i hl
    simp [decodeToken, formatOf, takeN_beBytes, beNat_beBytes 4 n hl]
  case map16.map n =>
    simp only [encCount] at h; split at h <;> simp at h; subst h
    rename_i hl
    simp [decodeToken, formatOf, takeN_beBytes, beNat_beBytes 2 n hl]
  case map32.map n =>
    simp only [encCount] at h; split at h <;> simp at h; subst h
    rename_i hl
    simp [decodeToken, formatOf, takeN_beBytes, beNat_beBytes 4 n hl]
  all_goals
    simp only [encFixExt] at h; split at h <;> simp at h; subst h
    rename_i t d hl
    have ht : toSigned 8 (ofSigned 8 t) = t := by
      have := hl.2; simp [tyOk] at this; simp [toSigned, ofSigned]; split <;> omega
    simp [decodeToken, formatOf, decFixExt_eq _ _ (ofSigned 8 t) d r hl.1, ht]


end BSVerif.MsgPack
