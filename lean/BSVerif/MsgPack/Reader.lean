/-
  MODEL of src/msgpack/msgpack_readers.cpp — CMsgPackStringReader and its file-static helpers
  (GetValue, ReadExtSize, SkipValueImpl, HandleMismatchedTypesPolicy, ReadInteger,
  ReadExtFamilyType), of Detail::ConvertByPolicy (archive_base.h) and of the integer /
  floating-point cases of Convert::Detail::To (convert_fundamental.h) as far as the reader uses them.

  The stream reader (CMsgPackStreamReader over CBinaryStreamReader) is a second copy of the same
  logic; it is NOT modelled separately: the harness runs both readers on the same bytes and
  check.py reports every op where the stream reader's answer differs from this model.

  Modelled AFTER the repairs (see NOTES.md): ext 16/32 type byte offset, ext header at end of
  input, 0xC1 rejected by SkipValueImpl.

  Position = index into the byte list. Result of a `ReadValue`-like function:
    `.ok (some v, pos')` returned true, `.ok (none, pos')` returned false (value skipped),
    `.error e` an exception left the function.
  The byte code metadata comes from the GENERATED copy of `ByteCodeTable`.
-/
import BSVerif.MsgPack.Writer
import BSVerif.MsgPack.Ieee
import BSVerif.Generated.MsgpackConsts

namespace BSVerif.MsgPack.Model
open BSVerif BSVerif.Generated

inductive Err where
  | parsing       -- ParsingException / SerializationException(ParsingError)
  | mismatched    -- SerializationException(MismatchedTypes)
  | overflow      -- SerializationException(Overflow)
  | internal      -- std::invalid_argument / std::runtime_error "Internal error"
  | depth         -- model only: recursion budget of SkipValueImpl exhausted (never with the budget `skip` passes)
  deriving Repr, DecidableEq

structure Opts where
  ovfThrow : Bool      -- OverflowNumberPolicy::ThrowError
  misThrow : Bool      -- MismatchedTypesPolicy::ThrowError
  deriving Repr, DecidableEq

abbrev RR (α : Type) := Except Err (Option α × Nat)

/-! ### ByteCodeTable -/

structure Entry where
  type : Nat
  fixedSeq : Nat
  dataSize : Nat
  extSize : Nat
  deriving Repr, DecidableEq

def entry (b : Nat) : Entry :=
  match Msgpack.byteCodeTable[b]? with
  | some [t, f, d, e] => ⟨t, f, d, e⟩
  | _ => ⟨Msgpack.vtUnknown, 0, 0, 0⟩

/-! ### GetValue -/

/-- `GetValue<T>` for `sizeof(T) = k`: bounds check, native load, `BigEndianToNative`. Returns the
    unsigned image and the new position. -/
def getValue (k : Nat) (bs : Bytes) (pos : Nat) : Except Err (Nat × Nat) :=
  if k = 1 then
    match bs[pos]? with
    | some b => .ok (b, pos + 1)
    | none => .error .parsing
  else if pos + k ≤ bs.length then .ok (reverse k (leNat ((bs.drop pos).take k)), pos + k)
  else .error .parsing

/-- `ReadExtSize(extSizeBytesNum, inputData, pos)` (position passed by value) -/
def readExtSize (n : Nat) (bs : Bytes) (pos : Nat) : Except Err Nat :=
  if n = 1 ∨ n = 2 ∨ n = 4 then (getValue n bs pos).map (·.1) else .error .internal

/-! ### SkipValueImpl -/

/-- `for (i = 0; i < n; ++i) f(pos)` with early exit on exception -/
def iter (f : Nat → Except Err Nat) : Nat → Nat → Except Err Nat
  | 0, pos => .ok pos
  | n + 1, pos =>
    match f pos with
    | .ok p => iter f n p
    | .error e => .error e

/-- `SkipValueImpl` after the byte code has been fetched (`pos` is already behind it): length field and
    flat payload; returns the position behind them and the number of pending children `extSize`. -/
def skipBody (e : Entry) (bs : Bytes) (pos : Nat) : Except Err (Nat × Nat) :=
  if e.type = Msgpack.vtUnknown then .error .parsing   -- 0xC1 (repaired code)
  else
    let sized : Except Err (Nat × Nat) :=
      if e.fixedSeq ≠ 0 then .ok (e.dataSize, e.fixedSeq)
      else if e.extSize ≠ 0 then (readExtSize e.extSize bs pos).map fun n => (e.dataSize + e.extSize, n)
      else .ok (e.dataSize, 0)
    match sized with
    | .error er => .error er
    | .ok (size, extSize) =>
      let flat := e.type = Msgpack.vtString ∨ e.type = Msgpack.vtBinaryArray ∨ e.type = Msgpack.vtExt
      let size := if flat then size + extSize else size
      let extSize := if flat then 0 else extSize
      if pos + size ≤ bs.length then .ok (pos + size, extSize)
      else .error .parsing                              -- "Unexpected end of input archive"

/-- header part of `SkipValueImpl`: consumes byte code, length field and flat payload; returns the
    position behind them, the number of pending children `extSize` and the entry. -/
def skipHeader (bs : Bytes) (pos : Nat) : Except Err (Nat × Nat × Entry) :=
  match bs[pos]? with
  | none => .error .parsing                              -- "No more values to read"
  | some b =>
    match skipBody (entry b) bs (pos + 1) with
    | .error er => .error er
    | .ok (p, extSize) => .ok (p, extSize, entry b)

/-- `SkipValueImpl(inputData, pos)`; `fuel` bounds the recursion depth. -/
def skipImpl : Nat → Bytes → Nat → Except Err Nat
  | 0, _, _ => .error .depth
  | fuel + 1, bs, pos =>
    match skipHeader bs pos with
    | .error e => .error e
    | .ok (pos, extSize, e) =>
      if extSize ≠ 0 then
        if e.type = Msgpack.vtMap then
          iter (fun p => match skipImpl fuel bs p with
                         | .ok p' => skipImpl fuel bs p'
                         | .error er => .error er) extSize pos
        else if e.type = Msgpack.vtArray then iter (skipImpl fuel bs) extSize pos
        else .ok pos
      else .ok pos

/-- `CMsgPackStringReader::SkipValue()`. Nesting depth cannot exceed the number of bytes. -/
def skip (bs : Bytes) (pos : Nat) : Except Err Nat := skipImpl (bs.length + 1) bs pos

/-- `HandleMismatchedTypesPolicy(inputData, pos, actualType, policy)` -/
def handleMismatch (bs : Bytes) (pos : Nat) (actualType : Nat) (misThrow : Bool) : Except Err Nat :=
  if actualType ≠ Msgpack.vtNil ∧ misThrow then .error .mismatched else skip bs pos

/-! ### Convert::Detail::To for arithmetic types, Detail::ConvertByPolicy -/

/-- an integral C++ type -/
structure IntTy where
  signed : Bool
  bits : Nat
  isBool : Bool := false
  isChar : Bool := false     -- `char` is a type distinct from `int8_t` (signed 8 bit on this platform)
  deriving Repr, DecidableEq

def tyU8 : IntTy := ⟨false, 8, false, false⟩
def tyU16 : IntTy := ⟨false, 16, false, false⟩
def tyU32 : IntTy := ⟨false, 32, false, false⟩
def tyU64 : IntTy := ⟨false, 64, false, false⟩
def tyI8 : IntTy := ⟨true, 8, false, false⟩
def tyI16 : IntTy := ⟨true, 16, false, false⟩
def tyI32 : IntTy := ⟨true, 32, false, false⟩
def tyI64 : IntTy := ⟨true, 64, false, false⟩
def tyChar : IntTy := ⟨true, 8, false, true⟩
def tyBool : IntTy := ⟨false, 1, true, false⟩

/-- `static_cast<T>(v)` for an integral, non-bool `T` (modular) -/
def castTo (t : IntTy) (v : Int) : Int :=
  let m := v % Int.ofNat (2 ^ t.bits)
  if t.signed ∧ m ≥ Int.ofNat (2 ^ (t.bits - 1)) then m - Int.ofNat (2 ^ t.bits) else m

/-- `Convert::Detail::To(const TSource&, TTarget&)`, integral source: `none` = std::out_of_range -/
def convInt (src tgt : IntTy) (v : Int) : Option Int :=
  if src = tgt then some v
  else if tgt.isBool then
    let value : Int := if v ≠ 0 then 1 else 0            -- static_cast<bool>
    if castTo src value = v then some value else none
  else
    let value := castTo tgt v
    if castTo src value = v ∧ ¬ ((value > 0 ∧ v < 0) ∨ (value < 0 ∧ v > 0)) then some value else none

/-- `ConvertByPolicy(sourceValue, targetValue, mismatchedTypesPolicy, overflowNumberPolicy)`,
    after the source has been consumed up to `pos`. -/
def convertByPolicy (r : Option α) (o : Opts) (pos : Nat) : RR α :=
  match r with
  | some x => .ok (some x, pos)
  | none => if o.ovfThrow then .error .overflow else .ok (none, pos)

/-! ### ReadInteger<T> -/

/-- the common body of the eight sized branches: `++pos; GetValue(val); return ConvertByPolicy(val, …)` -/
def readIntBody (src tgt : IntTy) (o : Opts) (k : Nat) (bs : Bytes) (pos : Nat) : RR Int :=
  match getValue k bs (pos + 1) with
  | .error e => .error e
  | .ok (u, p) => convertByPolicy (convInt src tgt (castTo src (Int.ofNat u))) o p

def readInteger (tgt : IntTy) (o : Opts) (bs : Bytes) (pos : Nat) : RR Int :=
  match bs[pos]? with
  | none => .error .parsing
  | some b =>
    if b < 0x80 ∨ b ≥ 0xE0 then convertByPolicy (convInt tyI8 tgt (castTo tyI8 (Int.ofNat b))) o (pos + 1)
    else if b = 0xCC then readIntBody tyU8 tgt o 1 bs pos
    else if b = 0xCD then readIntBody tyU16 tgt o 2 bs pos
    else if b = 0xCE then readIntBody tyU32 tgt o 4 bs pos
    else if b = 0xCF then readIntBody tyU64 tgt o 8 bs pos
    else if b = 0xD0 then readIntBody tyI8 tgt o 1 bs pos
    else if b = 0xD1 then readIntBody tyI16 tgt o 2 bs pos
    else if b = 0xD2 then readIntBody tyI32 tgt o 4 bs pos
    else if b = 0xD3 then readIntBody tyI64 tgt o 8 bs pos
    else if b = 0xC2 then convertByPolicy (convInt tyI32 tgt 0) o (pos + 1)
    else if b = 0xC3 then convertByPolicy (convInt tyI32 tgt 1) o (pos + 1)
    else
      match handleMismatch bs pos (entry b).type o.misThrow with
      | .error e => .error e
      | .ok p => .ok (none, p)

/-! ### ReadExtFamilyType, ReadValueType -/

structure ExtInfo where
  size : Nat
  dataOffset : Nat
  extTypeCode : Nat
  deriving Repr, DecidableEq

/-- `.ok none` = returned false (not an ext byte code) -/
def readExtFamilyType (bs : Bytes) (pos : Nat) : Except Err (Option ExtInfo) :=
  match bs[pos]? with
  | none => .error .parsing
  | some b =>
    let m := entry b
    if m.type ≠ Msgpack.vtExt then .ok none
    else if m.fixedSeq ≠ 0 then
      let off := 1 + m.dataSize
      if pos + off ≤ bs.length then .ok (some ⟨m.fixedSeq, off, bs.getD (pos + 1) 0⟩)
      else .error .parsing
    else if m.extSize ≠ 0 then
      match readExtSize m.extSize bs (pos + 1) with
      | .error e => .error e
      | .ok sz =>
        let off := 1 + m.dataSize + m.extSize
        if pos + off ≤ bs.length then .ok (some ⟨sz, off, bs.getD (pos + 1 + m.extSize) 0⟩)
        else .error .parsing
    else .error .internal

def readValueType (bs : Bytes) (pos : Nat) : Except Err Nat :=
  match bs[pos]? with
  | none => .error .parsing
  | some b =>
    let m := entry b
    if m.type = Msgpack.vtExt then
      match readExtFamilyType bs pos with
      | .error e => .error e
      | .ok (some i) => .ok (if i.extTypeCode = 0xFF then Msgpack.vtTimestamp else Msgpack.vtExt)
      | .ok none => .ok Msgpack.vtExt
    else .ok m.type

/-- common tail of every `ReadValue`: `HandleMismatchedTypesPolicy(…, ReadValueType(), …); return false;` -/
def mismatchTail (o : Opts) (bs : Bytes) (pos : Nat) : RR α :=
  match readValueType bs pos with
  | .error e => .error e
  | .ok t =>
    match handleMismatch bs pos t o.misThrow with
    | .error e => .error e
    | .ok p => .ok (none, p)

/-! ### ReadValue overloads -/

def readNil (o : Opts) (bs : Bytes) (pos : Nat) : RR Unit :=
  match bs[pos]? with
  | none => .error .parsing
  | some b => if b = 0xC0 then .ok (some (), pos + 1) else mismatchTail o bs pos

/-- `CMsgPackStreamReader::ReadValue(std::nullptr_t&)` — the one place where the stream copy differs in a way
    that is visible at this level: it passes `ByteCodeTable[byteCode].Type` instead of `ReadValueType()`, so a
    truncated ext header is reported as MismatchedTypes (ThrowError) rather than as a parsing error. -/
def readNilStream (o : Opts) (bs : Bytes) (pos : Nat) : RR Unit :=
  match bs[pos]? with
  | none => .error .parsing
  | some b =>
    if b = 0xC0 then .ok (some (), pos + 1)
    else
      match handleMismatch bs pos (entry b).type o.misThrow with
      | .error e => .error e
      | .ok p => .ok (none, p)

/-- `ReadValue(float&)`: value = bit pattern -/
def readF32 (o : Opts) (bs : Bytes) (pos : Nat) : RR Nat :=
  match bs[pos]? with
  | none => .error .parsing
  | some b =>
    if b = 0xCA then
      match getValue 4 bs (pos + 1) with
      | .error e => .error e
      | .ok (u, p) => .ok (some u, p)
    else if b = 0xCB then
      match getValue 8 bs (pos + 1) with
      | .error e => .error e
      | .ok (u, p) =>
        -- Convert::Detail::To(double, float): non-finite or in range, then static_cast<float>
        convertByPolicy (if Ieee.toFloatOk u then some (Ieee.f64ToF32 u) else none) o p
    else mismatchTail o bs pos

def readF64 (o : Opts) (bs : Bytes) (pos : Nat) : RR Nat :=
  match bs[pos]? with
  | none => .error .parsing
  | some b =>
    if b = 0xCB then
      match getValue 8 bs (pos + 1) with
      | .error e => .error e
      | .ok (u, p) => .ok (some u, p)
    else if b = 0xCA then
      match getValue 4 bs (pos + 1) with
      | .error e => .error e
      | .ok (u, p) => .ok (some (Ieee.f32ToF64 u), p)
    else mismatchTail o bs pos

/-- `ReadValue(std::string_view&)` -/
def readStr (o : Opts) (bs : Bytes) (pos : Nat) : RR Bytes :=
  match bs[pos]? with
  | none => .error .parsing
  | some b =>
    let tail (size p : Nat) : RR Bytes :=
      if p + size ≤ bs.length then .ok (some ((bs.drop p).take size), p + size) else .error .parsing
    let sized (k : Nat) : RR Bytes :=
      match getValue k bs (pos + 1) with
      | .error e => .error e
      | .ok (n, p) => tail n p
    if b / 32 = 5 then tail (b % 32) (pos + 1)            -- (ch & 0b11100000) == 0b10100000
    else if b = 0xD9 then sized 1
    else if b = 0xDA then sized 2
    else if b = 0xDB then sized 4
    else mismatchTail o bs pos

/-- `ReadValue(CBinTimestamp&)`: (Seconds, Nanoseconds) -/
def readTs (o : Opts) (bs : Bytes) (pos : Nat) : RR (Int × Int) :=
  match readExtFamilyType bs pos with
  | .error e => .error e
  | .ok info =>
    match info with
    | some i =>
      if i.extTypeCode = 0xFF then
        let p := pos + i.dataOffset
        if i.size = 4 then
          match getValue 4 bs p with
          | .error e => .error e
          | .ok (u, p') => .ok (some (Int.ofNat u, 0), p')
        else if i.size = 8 then
          match getValue 8 bs p with
          | .error e => .error e
          | .ok (u, p') => .ok (some (Int.ofNat (u % 2 ^ 34), castTo tyI32 (Int.ofNat (u / 2 ^ 34))), p')
        else if i.size = 12 then
          match getValue 8 bs p with
          | .error e => .error e
          | .ok (s, p1) =>
            match getValue 4 bs p1 with
            | .error e => .error e
            | .ok (n, p2) => .ok (some (castTo tyI64 (Int.ofNat s), castTo tyI32 (Int.ofNat n)), p2)
        else .error .parsing                               -- "Invalid size of timestamp"
      else mismatchTail o bs pos
    | none => mismatchTail o bs pos

/-- shared shape of ReadArraySize / ReadMapSize: fix form `hi`, 16-bit code, 32-bit code -/
def readCount (fixHi c16 c32 : Nat) (o : Opts) (bs : Bytes) (pos : Nat) : RR Nat :=
  match bs[pos]? with
  | none => .error .parsing
  | some b =>
    let sized (k : Nat) : RR Nat :=
      match getValue k bs (pos + 1) with
      | .error e => .error e
      | .ok (n, p) => .ok (some n, p)
    if b / 16 = fixHi then .ok (some (b % 16), pos + 1)
    else if b = c16 then sized 2
    else if b = c32 then sized 4
    else mismatchTail o bs pos

def readArraySize := readCount 9 0xDC 0xDD
def readMapSize := readCount 8 0xDE 0xDF

def readBinarySize (o : Opts) (bs : Bytes) (pos : Nat) : RR Nat :=
  match bs[pos]? with
  | none => .error .parsing
  | some b =>
    let sized (k : Nat) : RR Nat :=
      match getValue k bs (pos + 1) with
      | .error e => .error e
      | .ok (n, p) => .ok (some n, p)
    if b = 0xC4 then sized 1
    else if b = 0xC5 then sized 2
    else if b = 0xC6 then sized 4
    else mismatchTail o bs pos

end BSVerif.MsgPack.Model
