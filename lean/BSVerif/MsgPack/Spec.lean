/-
  SPEC (written from the MessagePack specification, github.com/msgpack/msgpack/blob/master/spec.md —
  NOT from the C++): formats, first-byte classification, one-token decoder/encoder, well-formed
  objects ("balanced" token sequences), the Timestamp extension type.

  * `Token`     — one MessagePack *format instance* without its children: scalars carry their value,
                  `array n` / `map n` only the declared element / pair count.
  * `Format`    — the 37 formats of the "Formats / Overview" table (+ `neverUsed` = 0xC1).
  * `decodeToken bs` — reads exactly one token from the front of `bs`: `(token, format, rest)`;
                  `none` when `bs` is empty, starts with 0xC1, or is too short for the format.
  * `encodeAs f t`   — the bytes of token `t` in format `f`, if `f` is able to hold `t`.
  * `objects k bs`   — consumes `k` complete objects (an array token is followed by `n` objects, a map
                  token by `2n` objects): the "balance counter" of the task description.
-/
import BSVerif.Basic

namespace BSVerif.MsgPack.Spec
open BSVerif

/-! ### big-endian integers, two's complement -/

/-- value of a big-endian byte string -/
def beNat : Bytes → Nat := List.foldl (fun a b => a * 256 + b) 0

/-- the `k`-byte big-endian representation of `v` (`v < 256^k`) -/
def beBytes : Nat → Nat → Bytes
  | 0, _ => []
  | k + 1, v => (v / 256 ^ k % 256) :: beBytes k v

/-- two's complement reading of an unsigned `bits`-bit number -/
def toSigned (bits : Nat) (n : Nat) : Int :=
  if n < 2 ^ (bits - 1) then Int.ofNat n else Int.ofNat n - Int.ofNat (2 ^ bits)

/-- two's complement representation (as unsigned) of `v`, `-2^(bits-1) ≤ v < 2^(bits-1)` -/
def ofSigned (bits : Nat) (v : Int) : Nat := (v % Int.ofNat (2 ^ bits)).toNat

/-! ### formats -/

inductive Format where
  | posFixint | fixmap | fixarray | fixstr | nil | neverUsed | false_ | true_
  | bin8 | bin16 | bin32 | ext8 | ext16 | ext32 | float32 | float64
  | uint8 | uint16 | uint32 | uint64 | int8 | int16 | int32 | int64
  | fixext1 | fixext2 | fixext4 | fixext8 | fixext16 | str8 | str16 | str32
  | array16 | array32 | map16 | map32 | negFixint
  deriving Repr, DecidableEq, Inhabited

/-- "Formats / Overview": format of a first byte. -/
def formatOf (b : Nat) : Format :=
  if b ≤ 0x7f then .posFixint
  else if b ≤ 0x8f then .fixmap
  else if b ≤ 0x9f then .fixarray
  else if b ≤ 0xbf then .fixstr
  else if b = 0xc0 then .nil
  else if b = 0xc1 then .neverUsed
  else if b = 0xc2 then .false_
  else if b = 0xc3 then .true_
  else if b = 0xc4 then .bin8
  else if b = 0xc5 then .bin16
  else if b = 0xc6 then .bin32
  else if b = 0xc7 then .ext8
  else if b = 0xc8 then .ext16
  else if b = 0xc9 then .ext32
  else if b = 0xca then .float32
  else if b = 0xcb then .float64
  else if b = 0xcc then .uint8
  else if b = 0xcd then .uint16
  else if b = 0xce then .uint32
  else if b = 0xcf then .uint64
  else if b = 0xd0 then .int8
  else if b = 0xd1 then .int16
  else if b = 0xd2 then .int32
  else if b = 0xd3 then .int64
  else if b = 0xd4 then .fixext1
  else if b = 0xd5 then .fixext2
  else if b = 0xd6 then .fixext4
  else if b = 0xd7 then .fixext8
  else if b = 0xd8 then .fixext16
  else if b = 0xd9 then .str8
  else if b = 0xda then .str16
  else if b = 0xdb then .str32
  else if b = 0xdc then .array16
  else if b = 0xdd then .array32
  else if b = 0xde then .map16
  else if b = 0xdf then .map32
  else .negFixint

/-- Type system of the specification (the Integer type is split by format family, as the
    library's `ValueType` does; `ext` covers application extensions, `timestamp` is ext type −1). -/
inductive Family where
  | unknown | nil | boolean | unsignedInteger | signedInteger | float | double | string | array
  | binaryArray | map | ext | timestamp
  deriving Repr, DecidableEq, Inhabited

def Format.family : Format → Family
  | .posFixint | .uint8 | .uint16 | .uint32 | .uint64 => .unsignedInteger
  | .negFixint | .int8 | .int16 | .int32 | .int64 => .signedInteger
  | .fixmap | .map16 | .map32 => .map
  | .fixarray | .array16 | .array32 => .array
  | .fixstr | .str8 | .str16 | .str32 => .string
  | .nil => .nil
  | .neverUsed => .unknown
  | .false_ | .true_ => .boolean
  | .bin8 | .bin16 | .bin32 => .binaryArray
  | .ext8 | .ext16 | .ext32 | .fixext1 | .fixext2 | .fixext4 | .fixext8 | .fixext16 => .ext
  | .float32 => .float
  | .float64 => .double

/-- number of bytes of the length field that follows the first byte (`XXXXXXXX` rows "N" of the spec) -/
def Format.lenBytes : Format → Nat
  | .bin8 | .ext8 | .str8 => 1
  | .bin16 | .ext16 | .str16 | .array16 | .map16 => 2
  | .bin32 | .ext32 | .str32 | .array32 | .map32 => 4
  | _ => 0

/-- fixed number of payload bytes after first byte and length field that are NOT counted by a length:
    the integer / float body, or the one `type` byte of the ext family. -/
def Format.fixedBody : Format → Nat
  | .uint8 | .int8 => 1
  | .uint16 | .int16 => 2
  | .uint32 | .int32 | .float32 => 4
  | .uint64 | .int64 | .float64 => 8
  | .ext8 | .ext16 | .ext32 | .fixext1 | .fixext2 | .fixext4 | .fixext8 | .fixext16 => 1
  | _ => 0

/-- the length that is part of the format itself: low bits of the first byte for fixmap / fixarray /
    fixstr, the data size of fixext N. -/
def Format.fixextLen : Format → Nat
  | .fixext1 => 1 | .fixext2 => 2 | .fixext4 => 4 | .fixext8 => 8 | .fixext16 => 16
  | _ => 0

def Format.embeddedLen (f : Format) (b : Nat) : Nat :=
  if f = .fixmap then b - 0x80
  else if f = .fixarray then b - 0x90
  else if f = .fixstr then b - 0xa0
  else f.fixextLen

/-- Per first byte: family, embedded length, fixed body size, length-field size. -/
structure Meta where
  family : Family
  embedded : Nat
  body : Nat
  lenBytes : Nat
  deriving Repr, DecidableEq

def classify (b : Nat) : Meta :=
  let f := formatOf b
  ⟨f.family, f.embeddedLen b, f.fixedBody, f.lenBytes⟩

/-! ### tokens -/

inductive Token where
  | nil
  | bool (b : Bool)
  | int (v : Int)
  | f32 (bits : Nat)
  | f64 (bits : Nat)
  | str (data : Bytes)
  | bin (data : Bytes)
  | array (n : Nat)
  | map (n : Nat)
  | ext (ty : Int) (data : Bytes)
  deriving Repr, DecidableEq, Inhabited

/-- number of objects that follow a token as its children -/
def Token.children : Token → Nat
  | .array n => n
  | .map n => 2 * n
  | _ => 0

def takeN (n : Nat) (l : Bytes) : Option (Bytes × Bytes) :=
  if n ≤ l.length then some (l.take n, l.drop n) else none

/-- unsigned integer body of `k` bytes -/
def decUInt (f : Format) (k : Nat) (r : Bytes) : Option (Token × Format × Bytes) :=
  (takeN k r).map fun (d, r') => (.int (Int.ofNat (beNat d)), f, r')

def decSInt (f : Format) (k : Nat) (r : Bytes) : Option (Token × Format × Bytes) :=
  (takeN k r).map fun (d, r') => (.int (toSigned (8 * k) (beNat d)), f, r')

/-- `k`-byte length `n`, then `n` data bytes -/
def decLenData (k : Nat) (r : Bytes) : Option (Bytes × Bytes) :=
  (takeN k r).bind fun (n, r1) => takeN (beNat n) r1

/-- `k`-byte length `n`, one type byte, `n` data bytes -/
def decExt (f : Format) (k : Nat) (r : Bytes) : Option (Token × Format × Bytes) :=
  (takeN k r).bind fun (n, r1) => (takeN 1 r1).bind fun (t, r2) => (takeN (beNat n) r2).map fun (d, r3) =>
    (.ext (toSigned 8 (beNat t)) d, f, r3)

def decFixExt (f : Format) (n : Nat) (r : Bytes) : Option (Token × Format × Bytes) :=
  (takeN 1 r).bind fun (t, r2) => (takeN n r2).map fun (d, r3) => (.ext (toSigned 8 (beNat t)) d, f, r3)

/-- Reads one token from the front of the input. -/
def decodeToken : Bytes → Option (Token × Format × Bytes)
  | [] => none
  | b :: r =>
    match formatOf b with
    | .posFixint => some (.int (Int.ofNat b), .posFixint, r)
    | .negFixint => some (.int (Int.ofNat b - 256), .negFixint, r)
    | .fixmap => some (.map (b - 0x80), .fixmap, r)
    | .fixarray => some (.array (b - 0x90), .fixarray, r)
    | .fixstr => (takeN (b - 0xa0) r).map fun (d, r') => (.str d, .fixstr, r')
    | .nil => some (.nil, .nil, r)
    | .neverUsed => none
    | .false_ => some (.bool false, .false_, r)
    | .true_ => some (.bool true, .true_, r)
    | .bin8 => (decLenData 1 r).map fun (d, r') => (.bin d, .bin8, r')
    | .bin16 => (decLenData 2 r).map fun (d, r') => (.bin d, .bin16, r')
    | .bin32 => (decLenData 4 r).map fun (d, r') => (.bin d, .bin32, r')
    | .ext8 => decExt .ext8 1 r
    | .ext16 => decExt .ext16 2 r
    | .ext32 => decExt .ext32 4 r
    | .float32 => (takeN 4 r).map fun (d, r') => (.f32 (beNat d), .float32, r')
    | .float64 => (takeN 8 r).map fun (d, r') => (.f64 (beNat d), .float64, r')
    | .uint8 => decUInt .uint8 1 r
    | .uint16 => decUInt .uint16 2 r
    | .uint32 => decUInt .uint32 4 r
    | .uint64 => decUInt .uint64 8 r
    | .int8 => decSInt .int8 1 r
    | .int16 => decSInt .int16 2 r
    | .int32 => decSInt .int32 4 r
    | .int64 => decSInt .int64 8 r
    | .fixext1 => decFixExt .fixext1 1 r
    | .fixext2 => decFixExt .fixext2 2 r
    | .fixext4 => decFixExt .fixext4 4 r
    | .fixext8 => decFixExt .fixext8 8 r
    | .fixext16 => decFixExt .fixext16 16 r
    | .str8 => (decLenData 1 r).map fun (d, r') => (.str d, .str8, r')
    | .str16 => (decLenData 2 r).map fun (d, r') => (.str d, .str16, r')
    | .str32 => (decLenData 4 r).map fun (d, r') => (.str d, .str32, r')
    | .array16 => (takeN 2 r).map fun (n, r') => (.array (beNat n), .array16, r')
    | .array32 => (takeN 4 r).map fun (n, r') => (.array (beNat n), .array32, r')
    | .map16 => (takeN 2 r).map fun (n, r') => (.map (beNat n), .map16, r')
    | .map32 => (takeN 4 r).map fun (n, r') => (.map (beNat n), .map32, r')

/-! ### encoder: token in a chosen format -/

def encUInt (code k : Nat) (v : Int) : Option Bytes :=
  if 0 ≤ v ∧ v < Int.ofNat (256 ^ k) then some (code :: beBytes k v.toNat) else none

def encSInt (code k : Nat) (v : Int) : Option Bytes :=
  if -(Int.ofNat (2 ^ (8 * k - 1))) ≤ v ∧ v < Int.ofNat (2 ^ (8 * k - 1)) then some (code :: beBytes k (ofSigned (8 * k) v)) else none

def encLenData (code k : Nat) (d : Bytes) : Option Bytes :=
  if d.length < 256 ^ k then some (code :: beBytes k d.length ++ d) else none

def encCount (code k n : Nat) : Option Bytes :=
  if n < 256 ^ k then some (code :: beBytes k n) else none

def tyOk (t : Int) : Prop := -128 ≤ t ∧ t < 128
instance (t : Int) : Decidable (tyOk t) := by unfold tyOk; exact inferInstance

def encExt (code k : Nat) (t : Int) (d : Bytes) : Option Bytes :=
  if d.length < 256 ^ k ∧ tyOk t then some (code :: beBytes k d.length ++ ofSigned 8 t :: d) else none

def encFixExt (code n : Nat) (t : Int) (d : Bytes) : Option Bytes :=
  if d.length = n ∧ tyOk t then some (code :: ofSigned 8 t :: d) else none

/-- The bytes of `t` in format `f`; `none` when `f` is not able to hold `t`. -/
def encodeAs : Format → Token → Option Bytes
  | .posFixint, .int v => if 0 ≤ v ∧ v ≤ 127 then some [v.toNat] else none
  | .negFixint, .int v => if -32 ≤ v ∧ v < 0 then some [(v + 256).toNat] else none
  | .uint8, .int v => encUInt 0xcc 1 v
  | .uint16, .int v => encUInt 0xcd 2 v
  | .uint32, .int v => encUInt 0xce 4 v
  | .uint64, .int v => encUInt 0xcf 8 v
  | .int8, .int v => encSInt 0xd0 1 v
  | .int16, .int v => encSInt 0xd1 2 v
  | .int32, .int v => encSInt 0xd2 4 v
  | .int64, .int v => encSInt 0xd3 8 v
  | .nil, .nil => some [0xc0]
  | .false_, .bool false => some [0xc2]
  | .true_, .bool true => some [0xc3]
  | .float32, .f32 b => if b < 2 ^ 32 then some (0xca :: beBytes 4 b) else none
  | .float64, .f64 b => if b < 2 ^ 64 then some (0xcb :: beBytes 8 b) else none
  | .fixstr, .str d => if d.length < 32 then some ((0xa0 + d.length) :: d) else none
  | .str8, .str d => encLenData 0xd9 1 d
  | .str16, .str d => encLenData 0xda 2 d
  | .str32, .str d => encLenData 0xdb 4 d
  | .bin8, .bin d => encLenData 0xc4 1 d
  | .bin16, .bin d => encLenData 0xc5 2 d
  | .bin32, .bin d => encLenData 0xc6 4 d
  | .fixarray, .array n => if n < 16 then some [0x90 + n] else none
  | .array16, .array n => encCount 0xdc 2 n
  | .array32, .array n => encCount 0xdd 4 n
  | .fixmap, .map n => if n < 16 then some [0x80 + n] else none
  | .map16, .map n => encCount 0xde 2 n
  | .map32, .map n => encCount 0xdf 4 n
  | .fixext1, .ext t d => encFixExt 0xd4 1 t d
  | .fixext2, .ext t d => encFixExt 0xd5 2 t d
  | .fixext4, .ext t d => encFixExt 0xd6 4 t d
  | .fixext8, .ext t d => encFixExt 0xd7 8 t d
  | .fixext16, .ext t d => encFixExt 0xd8 16 t d
  | .ext8, .ext t d => encExt 0xc7 1 t d
  | .ext16, .ext t d => encExt 0xc8 2 t d
  | .ext32, .ext t d => encExt 0xc9 4 t d
  | _, _ => none

def allFormats : List Format :=
  [.posFixint, .fixmap, .fixarray, .fixstr, .nil, .neverUsed, .false_, .true_, .bin8, .bin16, .bin32, .ext8, .ext16, .ext32,
   .float32, .float64, .uint8, .uint16, .uint32, .uint64, .int8, .int16, .int32, .int64, .fixext1, .fixext2, .fixext4,
   .fixext8, .fixext16, .str8, .str16, .str32, .array16, .array32, .map16, .map32, .negFixint]

/-- `f` is able to hold `t`. -/
def ableToHold (f : Format) (t : Token) : Prop := (encodeAs f t).isSome
instance (f : Format) (t : Token) : Decidable (ableToHold f t) := by unfold ableToHold; exact inferInstance

/-- "most compact format able to hold it": no format encodes `t` in fewer bytes than `len`. -/
def MostCompact (t : Token) (len : Nat) : Prop := ∀ f bs, encodeAs f t = some bs → len ≤ bs.length

/-- executable form of `MostCompact` (over the finite list of formats) -/
def mostCompactB (t : Token) (len : Nat) : Bool :=
  allFormats.all fun f => match encodeAs f t with | some bs => decide (len ≤ bs.length) | none => true

/-! ### objects -/

/-- Consume `k` complete objects from the front of the input (balance counter: −1 per token,
    +n for an array header, +2n for a map header). `fuel` bounds the number of tokens read;
    every token has at least one byte, so `bs.length` always suffices. -/
def objectsFuel : Nat → Nat → Bytes → Option Bytes
  | _, 0, bs => some bs
  | 0, _ + 1, _ => none
  | fuel + 1, k + 1, bs =>
    match decodeToken bs with
    | none => none
    | some (t, _, rest) => objectsFuel fuel (k + t.children) rest

def objects (k : Nat) (bs : Bytes) : Option Bytes := objectsFuel bs.length k bs

/-- `bs` is exactly one well-formed MessagePack object. -/
def OneObject (bs : Bytes) : Prop := objects 1 bs = some []
instance (bs : Bytes) : Decidable (OneObject bs) := by unfold OneObject; exact inferInstance

/-- `bs` starts with one well-formed object (followed by anything). -/
def objectLen (bs : Bytes) : Option Nat := (objects 1 bs).map fun r => bs.length - r.length

/-! ### Timestamp extension type (ext type −1) -/

def timestampType : Int := -1
def nsMax : Nat := 999999999

/-- timestamp 32 / 64 / 96 payloads. -/
def timestamp32 (s : Nat) : Bytes := beBytes 4 s
def timestamp64 (s ns : Nat) : Bytes := beBytes 8 (ns * 2 ^ 34 + s)
def timestamp96 (s : Int) (ns : Nat) : Bytes := beBytes 4 ns ++ beBytes 8 (ofSigned 64 s)

/-- The spec's serialisation pseudo-code: 32-bit form when it fits, else 64-bit, else 96-bit. -/
def encodeTimestamp (s : Int) (ns : Nat) : Bytes :=
  if 0 ≤ s ∧ s < 2 ^ 34 then
    if ns = 0 ∧ s < 2 ^ 32 then timestamp32 s.toNat else timestamp64 s.toNat ns
  else timestamp96 s ns

/-- The spec's deserialisation pseudo-code; nanoseconds above 999999999 are invalid. -/
def decodeTimestamp (d : Bytes) : Option (Int × Nat) :=
  if d.length = 4 then some (Int.ofNat (beNat d), 0)
  else if d.length = 8 then
    let v := beNat d
    if v / 2 ^ 34 ≤ nsMax then some (Int.ofNat (v % 2 ^ 34), v / 2 ^ 34) else none
  else if d.length = 12 then
    let ns := beNat (d.take 4)
    if ns ≤ nsMax then some (toSigned 64 (beNat (d.drop 4)), ns) else none
  else none

end BSVerif.MsgPack.Spec
