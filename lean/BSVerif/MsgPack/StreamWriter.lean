/-
  MODEL of the SECOND copy of the MsgPack writer in src/msgpack/msgpack_writers.cpp: `CMsgPackStreamWriter` and the
  `PushValue(std::ostream&, …)` overloads — branch for branch, over a model of the `std::ostream` operations it uses
  (`put(char)`, `write(const char*, n)`). The stream is the sequence of bytes it has received; `put`/`write` on the
  streams the library is used with (ostringstream, ofstream with space left) do not fail — a failing stream sets
  badbit and drops the bytes, which the writer never checks (not modelled: see NOTES).

  The string copy (`CMsgPackStringWriter`) is MsgPack/Writer.lean; integer images, `Memory::Reverse` and
  `leBytes` (object representation on the little-endian host) are shared with it — they are the same C++ templates.
-/
import BSVerif.MsgPack.Writer

namespace BSVerif.MsgPack.StreamWriterModel
open BSVerif BSVerif.MsgPack.Model

/-- `std::ostream` as far as the writer is concerned: the bytes received so far -/
structure OStream where
  out : Bytes
  deriving Repr, DecidableEq

/-- `outputStream.put(c)` -/
def OStream.put (s : OStream) (b : Nat) : OStream := ⟨s.out ++ [b]⟩

/-- `outputStream.write(p, n)` -/
def OStream.write (s : OStream) (d : Bytes) : OStream := ⟨s.out ++ d⟩

/-! ### PushValue(std::ostream&, …) -/

/-- `PushValue(outputStream, code, T value)`, `sizeof(T) == 1`: two `put`s -/
def pushCode1 (s : OStream) (code v : Nat) : OStream := (s.put code).put v

/-- `PushValue(outputStream, code, T value)`, `sizeof(T) = k ≥ 2`: `put(code)`, `NativeToBigEndian`, `write(&networkVal, k)` -/
def pushCode (s : OStream) (code k v : Nat) : OStream := (s.put code).write (leBytes k (reverse k v))

/-- `PushValue(outputStream, T value)`, `sizeof(T) = k ≥ 2` -/
def push (s : OStream) (k v : Nat) : OStream := s.write (leBytes k (reverse k v))

/-! ### CMsgPackStreamWriter -/

def writeNil (s : OStream) : OStream := s.put 0xC0

def writeBool (b : Bool) (s : OStream) : OStream := s.put (if b then 0xC3 else 0xC2)

def writeU8 (v : Nat) (s : OStream) : OStream :=
  let s := if v ≥ 128 then s.put 0xCC else s
  s.put v

def writeU16 (v : Nat) (s : OStream) : OStream := if v > 255 then pushCode s 0xCD 2 v else writeU8 v s

def writeU32 (v : Nat) (s : OStream) : OStream := if v > 65535 then pushCode s 0xCE 4 v else writeU16 v s

def writeU64 (v : Nat) (s : OStream) : OStream := if v > 4294967295 then pushCode s 0xCF 8 v else writeU32 v s

def writeI8 (v : Int) (s : OStream) : OStream := if v ≥ -32 then s.put (uimg 1 v) else pushCode1 s 0xD0 (uimg 1 v)

def writeI16 (v : Int) (s : OStream) : OStream :=
  if v > 127 ∧ v ≤ 255 then pushCode1 s 0xCC (uimg 1 v)
  else if v < -128 ∨ v > 127 then pushCode s 0xD1 2 (uimg 2 v)
  else writeI8 v s

def writeI32 (v : Int) (s : OStream) : OStream :=
  if v > 32767 ∧ v ≤ 65535 then pushCode s 0xCD 2 (uimg 2 v)
  else if v < -32768 ∨ v > 32767 then pushCode s 0xD2 4 (uimg 4 v)
  else writeI16 v s

def writeI64 (v : Int) (s : OStream) : OStream :=
  if v > 2147483647 ∧ v ≤ 4294967295 then pushCode s 0xCE 4 (uimg 4 v)
  else if v < -2147483648 ∨ v > 2147483647 then pushCode s 0xD3 8 (uimg 8 v)
  else writeI32 v s

def writeF32 (bits : Nat) (s : OStream) : OStream := pushCode s 0xCA 4 bits

def writeF64 (bits : Nat) (s : OStream) : OStream := pushCode s 0xCB 8 bits

/-- `WriteValue(std::string_view)`: header, then `write(value.data(), value.size())` -/
def writeStr (d : Bytes) (s : OStream) : Except WErr OStream :=
  let n := d.length
  let hdr : Except WErr OStream :=
    if n < 32 then .ok (s.put (n ||| 0xA0))
    else if n ≤ 255 then .ok (pushCode1 s 0xD9 n)
    else if n ≤ 65535 then .ok (pushCode s 0xDA 2 n)
    else if n ≤ 4294967295 then .ok (pushCode s 0xDB 4 n)
    else .error .outOfRange
  match hdr with
  | .ok s => .ok (s.write d)
  | .error e => .error e

/-- `WriteValue(const CBinTimestamp&)`; the code `-1` is converted to `uint8_t` 0xFF -/
def writeTs (sec ns : Int) (s : OStream) : OStream :=
  if uimg 8 sec / 2 ^ 34 = 0 then
    let data64 := (uimg 8 ns * 2 ^ 34) % 2 ^ 64 + uimg 8 sec
    if data64 / 2 ^ 32 = 0 then pushCode (s.put 0xD6) 0xFF 4 (data64 % 2 ^ 32)
    else pushCode (s.put 0xD7) 0xFF 8 data64
  else push (pushCode ((s.put 0xC7).put 12) 0xFF 8 (uimg 8 sec)) 4 (uimg 4 ns)

def beginArray (n : Nat) (s : OStream) : Except WErr OStream :=
  if n < 16 then .ok (s.put (n ||| 0x90))
  else if n ≤ 65535 then .ok (pushCode s 0xDC 2 n)
  else if n ≤ 4294967295 then .ok (pushCode s 0xDD 4 n)
  else .error .outOfRange

def beginMap (n : Nat) (s : OStream) : Except WErr OStream :=
  if n < 16 then .ok (s.put (n ||| 0x80))
  else if n ≤ 65535 then .ok (pushCode s 0xDE 2 n)
  else if n ≤ 4294967295 then .ok (pushCode s 0xDF 4 n)
  else .error .outOfRange

def beginBinary (n : Nat) (s : OStream) : Except WErr OStream :=
  if n ≤ 255 then .ok (pushCode1 s 0xC4 n)
  else if n ≤ 65535 then .ok (pushCode s 0xC5 2 n)
  else if n ≤ 4294967295 then .ok (pushCode s 0xC6 4 n)
  else .error .outOfRange

/-- `WriteBinary(char byte)` -/
def writeBinary (b : Nat) (s : OStream) : OStream := s.put b

/-! ### one call of the writer interface; sessions (for the history theorem and for the driver) -/

inductive WCall where
  | nil | bool (b : Bool) | u8 (v : Nat) | u16 (v : Nat) | u32 (v : Nat) | u64 (v : Nat)
  | i8 (v : Int) | i16 (v : Int) | i32 (v : Int) | i64 (v : Int)
  | f32 (bits : Nat) | f64 (bits : Nat) | str (d : Bytes) | ts (sec ns : Int)
  | arr (n : Nat) | map (n : Nat) | bin (n : Nat) | binByte (b : Nat)
  deriving Repr, DecidableEq

/-- bytes the STRING writer (MsgPack/Writer.lean) appends for a call -/
def stringCall : WCall → Except WErr Bytes
  | .nil => .ok Model.writeNil | .bool b => .ok (Model.writeBool b)
  | .u8 v => .ok (Model.writeU8 v) | .u16 v => .ok (Model.writeU16 v) | .u32 v => .ok (Model.writeU32 v) | .u64 v => .ok (Model.writeU64 v)
  | .i8 v => .ok (Model.writeI8 v) | .i16 v => .ok (Model.writeI16 v) | .i32 v => .ok (Model.writeI32 v) | .i64 v => .ok (Model.writeI64 v)
  | .f32 b => .ok (Model.writeF32 b) | .f64 b => .ok (Model.writeF64 b)
  | .str d => Model.writeStr d | .ts s n => .ok (Model.writeTs s n)
  | .arr n => Model.beginArray n | .map n => Model.beginMap n | .bin n => Model.beginBinary n
  | .binByte b => .ok [b]                                  -- `mOutputString.push_back(byte)`

/-- the STREAM writer's method for a call -/
def streamCall : WCall → OStream → Except WErr OStream
  | .nil, s => .ok (writeNil s) | .bool b, s => .ok (writeBool b s)
  | .u8 v, s => .ok (writeU8 v s) | .u16 v, s => .ok (writeU16 v s) | .u32 v, s => .ok (writeU32 v s) | .u64 v, s => .ok (writeU64 v s)
  | .i8 v, s => .ok (writeI8 v s) | .i16 v, s => .ok (writeI16 v s) | .i32 v, s => .ok (writeI32 v s) | .i64 v, s => .ok (writeI64 v s)
  | .f32 b, s => .ok (writeF32 b s) | .f64 b, s => .ok (writeF64 b s)
  | .str d, s => writeStr d s | .ts sec ns, s => .ok (writeTs sec ns s)
  | .arr n, s => beginArray n s | .map n, s => beginMap n s | .bin n, s => beginBinary n s
  | .binByte b, s => .ok (writeBinary b s)

/-- a sequence of calls on one string writer: content of the output string (an exception ends the session) -/
def stringSession : List WCall → Bytes → Except WErr Bytes
  | [], out => .ok out
  | c :: cs, out =>
    match stringCall c with
    | .ok b => stringSession cs (out ++ b)
    | .error e => .error e

def streamSession : List WCall → OStream → Except WErr OStream
  | [], s => .ok s
  | c :: cs, s =>
    match streamCall c s with
    | .ok s' => streamSession cs s'
    | .error e => .error e

end BSVerif.MsgPack.StreamWriterModel
