/-
  Helper lemmas: decoding does not depend on what follows the token / the objects
  (`decodeToken_append`, `objects_append`), hence every strict prefix of an encoding is rejected.
-/
import BSVerif.MsgPack.SkipLemmas
set_option linter.unusedSimpArgs false
set_option linter.unusedVariables false
namespace BSVerif.MsgPack
open BSVerif BSVerif.MsgPack.Spec BSVerif.MsgPack.Model BSVerif.Generated

theorem take_app (k : Nat) (r x : Bytes) (h : k ≤ r.length) : List.take k (r ++ x) = List.take k r :=
  List.take_append_of_le_length h
theorem drop_app (k : Nat) (r x : Bytes) (h : k ≤ r.length) : List.drop k (r ++ x) = List.drop k r ++ x :=
  List.drop_append_of_le_length h

/-- a token is decoded the same way whatever follows it -/
theorem decodeToken_append (b : Nat) (r x : Bytes) (t : Token) (f : Format) (rest : Bytes)
    (h : decodeToken (b :: r) = some (t, f, rest)) : decodeToken (b :: (r ++ x)) = some (t, f, rest ++ x) := by
  cases hf : formatOf b
  case posFixint =>
    simp [-List.drop_one, decodeToken, hf, decLenData_canon, decUInt, decSInt, decExt_canon, decFixExt_canon, takeN_eq] at h ⊢
    obtain ⟨rfl, rfl, rfl⟩ := h
    simp
  case negFixint =>
    simp [-List.drop_one, decodeToken, hf, decLenData_canon, decUInt, decSInt, decExt_canon, decFixExt_canon, takeN_eq] at h ⊢
    obtain ⟨rfl, rfl, rfl⟩ := h
    simp
  case nil =>
    simp [-List.drop_one, decodeToken, hf, decLenData_canon, decUInt, decSInt, decExt_canon, decFixExt_canon, takeN_eq] at h ⊢
    obtain ⟨rfl, rfl, rfl⟩ := h
    simp
  case false_ =>
    simp [-List.drop_one, decodeToken, hf, decLenData_canon, decUInt, decSInt, decExt_canon, decFixExt_canon, takeN_eq] at h ⊢
    obtain ⟨rfl, rfl, rfl⟩ := h
    simp
  case true_ =>
    simp [-List.drop_one, decodeToken, hf, decLenData_canon, decUInt, decSInt, decExt_canon, decFixExt_canon, takeN_eq] at h ⊢
    obtain ⟨rfl, rfl, rfl⟩ := h
    simp
  case fixmap =>
    simp [-List.drop_one, decodeToken, hf, decLenData_canon, decUInt, decSInt, decExt_canon, decFixExt_canon, takeN_eq] at h ⊢
    obtain ⟨rfl, rfl, rfl⟩ := h
    simp
  case fixarray =>
    simp [-List.drop_one, decodeToken, hf, decLenData_canon, decUInt, decSInt, decExt_canon, decFixExt_canon, takeN_eq] at h ⊢
    obtain ⟨rfl, rfl, rfl⟩ := h
    simp
  case neverUsed =>
    simp [-List.drop_one, decodeToken, hf, decLenData_canon, decUInt, decSInt, decExt_canon, decFixExt_canon, takeN_eq] at h ⊢
  case fixstr =>
    simp [-List.drop_one, decodeToken, hf, decLenData_canon, decUInt, decSInt, decExt_canon, decFixExt_canon, takeN_eq] at h ⊢
    obtain ⟨hc, rfl, rfl, rfl⟩ := h
    have hc' : b - 160 ≤ r.length := by omega
    simp [take_app _ r x hc', drop_app _ r x hc']; omega
  case uint8 =>
    simp [-List.drop_one, decodeToken, hf, decLenData_canon, decUInt, decSInt, decExt_canon, decFixExt_canon, takeN_eq] at h ⊢
    obtain ⟨hc, rfl, rfl, rfl⟩ := h
    simp [take_app _ r x hc, drop_app _ r x hc]; omega
  case uint16 =>
    simp [-List.drop_one, decodeToken, hf, decLenData_canon, decUInt, decSInt, decExt_canon, decFixExt_canon, takeN_eq] at h ⊢
    obtain ⟨hc, rfl, rfl, rfl⟩ := h
    simp [take_app _ r x hc, drop_app _ r x hc]; omega
  case uint32 =>
    simp [-List.drop_one, decodeToken, hf, decLenData_canon, decUInt, decSInt, decExt_canon, decFixExt_canon, takeN_eq] at h ⊢
    obtain ⟨hc, rfl, rfl, rfl⟩ := h
    simp [take_app _ r x hc, drop_app _ r x hc]; omega
  case uint64 =>
    simp [-List.drop_one, decodeToken, hf, decLenData_canon, decUInt, decSInt, decExt_canon, decFixExt_canon, takeN_eq] at h ⊢
    obtain ⟨hc, rfl, rfl, rfl⟩ := h
    simp [take_app _ r x hc, drop_app _ r x hc]; omega
  case int8 =>
    simp [-List.drop_one, decodeToken, hf, decLenData_canon, decUInt, decSInt, decExt_canon, decFixExt_canon, takeN_eq] at h ⊢
    obtain ⟨hc, rfl, rfl, rfl⟩ := h
    simp [take_app _ r x hc, drop_app _ r x hc]; omega
  case int16 =>
    simp [-List.drop_one, decodeToken, hf, decLenData_canon, decUInt, decSInt, decExt_canon, decFixExt_canon, takeN_eq] at h ⊢
    obtain ⟨hc, rfl, rfl, rfl⟩ := h
    simp [take_app _ r x hc, drop_app _ r x hc]; omega
  case int32 =>
    simp [-List.drop_one, decodeToken, hf, decLenData_canon, decUInt, decSInt, decExt_canon, decFixExt_canon, takeN_eq] at h ⊢
    obtain ⟨hc, rfl, rfl, rfl⟩ := h
    simp [take_app _ r x hc, drop_app _ r x hc]; omega
  case int64 =>
    simp [-List.drop_one, decodeToken, hf, decLenData_canon, decUInt, decSInt, decExt_canon, decFixExt_canon, takeN_eq] at h ⊢
    obtain ⟨hc, rfl, rfl, rfl⟩ := h
    simp [take_app _ r x hc, drop_app _ r x hc]; omega
  case float32 =>
    simp [-List.drop_one, decodeToken, hf, decLenData_canon, decUInt, decSInt, decExt_canon, decFixExt_canon, takeN_eq] at h ⊢
    obtain ⟨hc, rfl, rfl, rfl⟩ := h
    simp [take_app _ r x hc, drop_app _ r x hc]; omega
  case float64 =>
    simp [-List.drop_one, decodeToken, hf, decLenData_canon, decUInt, decSInt, decExt_canon, decFixExt_canon, takeN_eq] at h ⊢
    obtain ⟨hc, rfl, rfl, rfl⟩ := h
    simp [take_app _ r x hc, drop_app _ r x hc]; omega
  case array16 =>
    simp [-List.drop_one, decodeToken, hf, decLenData_canon, decUInt, decSInt, decExt_canon, decFixExt_canon, takeN_eq] at h ⊢
    obtain ⟨hc, rfl, rfl, rfl⟩ := h
    simp [take_app _ r x hc, drop_app _ r x hc]; omega
  case array32 =>
    simp [-List.drop_one, decodeToken, hf, decLenData_canon, decUInt, decSInt, decExt_canon, decFixExt_canon, takeN_eq] at h ⊢
    obtain ⟨hc, rfl, rfl, rfl⟩ := h
    simp [take_app _ r x hc, drop_app _ r x hc]; omega
  case map16 =>
    simp [-List.drop_one, decodeToken, hf, decLenData_canon, decUInt, decSInt, decExt_canon, decFixExt_canon, takeN_eq] at h ⊢
    obtain ⟨hc, rfl, rfl, rfl⟩ := h
    simp [take_app _ r x hc, drop_app _ r x hc]; omega
  case map32 =>
    simp [-List.drop_one, decodeToken, hf, decLenData_canon, decUInt, decSInt, decExt_canon, decFixExt_canon, takeN_eq] at h ⊢
    obtain ⟨hc, rfl, rfl, rfl⟩ := h
    simp [take_app _ r x hc, drop_app _ r x hc]; omega
  case str8 =>
    simp [-List.drop_one, decodeToken, hf, decLenData_canon, decUInt, decSInt, decExt_canon, decFixExt_canon, takeN_eq] at h ⊢
    obtain ⟨hc, rfl, rfl, rfl⟩ := h
    have e1 := take_app 1 r x (by omega)
    have e2 := drop_app 1 r x (by omega)
    have e3 := take_app (beNat (List.take 1 r)) (r.drop 1) x (by simp; omega)
    simp [-List.drop_one, e1, e2, e3, drop_app _ r x hc]; omega
  case str16 =>
    simp [-List.drop_one, decodeToken, hf, decLenData_canon, decUInt, decSInt, decExt_canon, decFixExt_canon, takeN_eq] at h ⊢
    obtain ⟨hc, rfl, rfl, rfl⟩ := h
    have e1 := take_app 2 r x (by omega)
    have e2 := drop_app 2 r x (by omega)
    have e3 := take_app (beNat (List.take 2 r)) (r.drop 2) x (by simp; omega)
    simp [-List.drop_one, e1, e2, e3, drop_app _ r x hc]; omega
  case str32 =>
    simp [-List.drop_one, decodeToken, hf, decLenData_canon, decUInt, decSInt, decExt_canon, decFixExt_canon, takeN_eq] at h ⊢
    obtain ⟨hc, rfl, rfl, rfl⟩ := h
    have e1 := take_app 4 r x (by omega)
    have e2 := drop_app 4 r x (by omega)
    have e3 := take_app (beNat (List.take 4 r)) (r.drop 4) x (by simp; omega)
    simp [-List.drop_one, e1, e2, e3, drop_app _ r x hc]; omega
  case bin8 =>
    simp [-List.drop_one, decodeToken, hf, decLenData_canon, decUInt, decSInt, decExt_canon, decFixExt_canon, takeN_eq] at h ⊢
    obtain ⟨hc, rfl, rfl, rfl⟩ := h
    have e1 := take_app 1 r x (by omega)
    have e2 := drop_app 1 r x (by omega)
    have e3 := take_app (beNat (List.take 1 r)) (r.drop 1) x (by simp; omega)
    simp [-List.drop_one, e1, e2, e3, drop_app _ r x hc]; omega
  case bin16 =>
    simp [-List.drop_one, decodeToken, hf, decLenData_canon, decUInt, decSInt, decExt_canon, decFixExt_canon, takeN_eq] at h ⊢
    obtain ⟨hc, rfl, rfl, rfl⟩ := h
    have e1 := take_app 2 r x (by omega)
    have e2 := drop_app 2 r x (by omega)
    have e3 := take_app (beNat (List.take 2 r)) (r.drop 2) x (by simp; omega)
    simp [-List.drop_one, e1, e2, e3, drop_app _ r x hc]; omega
  case bin32 =>
    simp [-List.drop_one, decodeToken, hf, decLenData_canon, decUInt, decSInt, decExt_canon, decFixExt_canon, takeN_eq] at h ⊢
    obtain ⟨hc, rfl, rfl, rfl⟩ := h
    have e1 := take_app 4 r x (by omega)
    have e2 := drop_app 4 r x (by omega)
    have e3 := take_app (beNat (List.take 4 r)) (r.drop 4) x (by simp; omega)
    simp [-List.drop_one, e1, e2, e3, drop_app _ r x hc]; omega
  case ext8 =>
    simp [-List.drop_one, decodeToken, hf, decLenData_canon, decUInt, decSInt, decExt_canon, decFixExt_canon, takeN_eq] at h ⊢
    obtain ⟨hc, rfl, rfl, rfl⟩ := h
    have e1 := take_app 1 r x (by omega)
    have e2 := drop_app 1 r x (by omega)
    have e2b := drop_app (1 + 1) r x (by omega)
    have e3 := take_app (beNat (List.take 1 r)) (r.drop (1 + 1)) x (by simp; omega)
    have e4 := take_app 1 (r.drop 1) x (by simp; omega)
    simp [-List.drop_one, e1, e2, e2b, e3, e4, drop_app _ r x hc]; omega
  case ext16 =>
    simp [-List.drop_one, decodeToken, hf, decLenData_canon, decUInt, decSInt, decExt_canon, decFixExt_canon, takeN_eq] at h ⊢
    obtain ⟨hc, rfl, rfl, rfl⟩ := h
    have e1 := take_app 2 r x (by omega)
    have e2 := drop_app 2 r x (by omega)
    have e2b := drop_app (2 + 1) r x (by omega)
    have e3 := take_app (beNat (List.take 2 r)) (r.drop (2 + 1)) x (by simp; omega)
    have e4 := take_app 1 (r.drop 2) x (by simp; omega)
    simp [-List.drop_one, e1, e2, e2b, e3, e4, drop_app _ r x hc]; omega
  case ext32 =>
    simp [-List.drop_one, decodeToken, hf, decLenData_canon, decUInt, decSInt, decExt_canon, decFixExt_canon, takeN_eq] at h ⊢
    obtain ⟨hc, rfl, rfl, rfl⟩ := h
    have e1 := take_app 4 r x (by omega)
    have e2 := drop_app 4 r x (by omega)
    have e2b := drop_app (4 + 1) r x (by omega)
    have e3 := take_app (beNat (List.take 4 r)) (r.drop (4 + 1)) x (by simp; omega)
    have e4 := take_app 1 (r.drop 4) x (by simp; omega)
    simp [-List.drop_one, e1, e2, e2b, e3, e4, drop_app _ r x hc]; omega
  case fixext1 =>
    simp [-List.drop_one, decodeToken, hf, decLenData_canon, decUInt, decSInt, decExt_canon, decFixExt_canon, takeN_eq] at h ⊢
    obtain ⟨hc, rfl, rfl, rfl⟩ := h
    have e1 := take_app 1 r x (by omega)
    have e2 := drop_app 1 r x (by omega)
    have e3 := take_app 1 (r.drop 1) x (by simp; omega)
    simp [-List.drop_one, e1, e2, e3, drop_app _ r x hc]; omega
  case fixext2 =>
    simp [-List.drop_one, decodeToken, hf, decLenData_canon, decUInt, decSInt, decExt_canon, decFixExt_canon, takeN_eq] at h ⊢
    obtain ⟨hc, rfl, rfl, rfl⟩ := h
    have e1 := take_app 1 r x (by omega)
    have e2 := drop_app 1 r x (by omega)
    have e3 := take_app 2 (r.drop 1) x (by simp; omega)
    simp [-List.drop_one, e1, e2, e3, drop_app _ r x hc]; omega
  case fixext4 =>
    simp [-List.drop_one, decodeToken, hf, decLenData_canon, decUInt, decSInt, decExt_canon, decFixExt_canon, takeN_eq] at h ⊢
    obtain ⟨hc, rfl, rfl, rfl⟩ := h
    have e1 := take_app 1 r x (by omega)
    have e2 := drop_app 1 r x (by omega)
    have e3 := take_app 4 (r.drop 1) x (by simp; omega)
    simp [-List.drop_one, e1, e2, e3, drop_app _ r x hc]; omega
  case fixext8 =>
    simp [-List.drop_one, decodeToken, hf, decLenData_canon, decUInt, decSInt, decExt_canon, decFixExt_canon, takeN_eq] at h ⊢
    obtain ⟨hc, rfl, rfl, rfl⟩ := h
    have e1 := take_app 1 r x (by omega)
    have e2 := drop_app 1 r x (by omega)
    have e3 := take_app 8 (r.drop 1) x (by simp; omega)
    simp [-List.drop_one, e1, e2, e3, drop_app _ r x hc]; omega
  case fixext16 =>
    simp [-List.drop_one, decodeToken, hf, decLenData_canon, decUInt, decSInt, decExt_canon, decFixExt_canon, takeN_eq] at h ⊢
    obtain ⟨hc, rfl, rfl, rfl⟩ := h
    have e1 := take_app 1 r x (by omega)
    have e2 := drop_app 1 r x (by omega)
    have e3 := take_app 16 (r.drop 1) x (by simp; omega)
    simp [-List.drop_one, e1, e2, e3, drop_app _ r x hc]; omega

theorem decodeToken_append' (bs x : Bytes) (t : Token) (f : Format) (rest : Bytes)
    (h : decodeToken bs = some (t, f, rest)) : decodeToken (bs ++ x) = some (t, f, rest ++ x) := by
  cases bs with
  | nil => simp [decodeToken] at h
  | cons b r => exact decodeToken_append b r x t f rest h

theorem objects_append (n : Nat) : ∀ (bs : Bytes), bs.length ≤ n → ∀ k r x, objects k bs = some r →
    objects k (bs ++ x) = some (r ++ x) := by
  induction n with
  | zero =>
    intro bs h k r x hr
    have : bs = [] := List.eq_nil_of_length_eq_zero (by omega)
    subst this
    cases k with
    | zero => rw [objects_zero] at hr ⊢; cases hr; rfl
    | succ k => rw [objects_succ] at hr; simp [decodeToken] at hr
  | succ n ih =>
    intro bs h k r x hr
    cases k with
    | zero => rw [objects_zero] at hr ⊢; cases hr; rfl
    | succ k =>
      rw [objects_succ] at hr ⊢
      cases hd : decodeToken bs with
      | none => rw [hd] at hr; cases hr
      | some v =>
        obtain ⟨t, f, rest⟩ := v
        rw [hd] at hr
        rw [decodeToken_append' bs x t f rest hd]
        simp only at hr ⊢
        have := (decodeToken_suffix bs t f rest hd).1
        exact ih rest (by omega) _ r x hr

/-- **Truncation (Spec level).** No strict prefix of the encoding of a token is itself a token. -/
theorem decodeToken_prefix_none (f : Format) (t : Token) (enc : Bytes) (he : encodeAs f t = some enc)
    (n : Nat) (hn : n < enc.length) : decodeToken (enc.take n) = none := by
  cases hd : decodeToken (enc.take n) with
  | none => rfl
  | some v =>
    obtain ⟨t', f', rest'⟩ := v
    have h1 := decodeToken_append' _ (enc.drop n) t' f' rest' hd
    rw [List.take_append_drop] at h1
    have h2 := decode_encode f t enc he []
    rw [List.append_nil] at h2
    rw [h2] at h1
    simp only [Option.some.injEq, Prod.mk.injEq] at h1
    have h3 : (rest' ++ enc.drop n).length = 0 := by rw [← h1.2.2]; rfl
    simp only [List.length_append, List.length_drop] at h3
    omega

end BSVerif.MsgPack
