/-
  Helper lemmas for C10 (MsgPack part): SIMULATION. Every program over the CBinaryStreamReader interface gives, on the
  real sliding-cache reader (any chunk size), the answer the abstract cursor gives — by induction over the program,
  using the per-operation refinement theorems of Props/C10bin.lean. (No property statements here.)
-/
import BSVerif.MsgPack.StreamLemmas
import BSVerif.Props.C10bin
set_option linter.unusedSimpArgs false
set_option linter.unusedVariables false

namespace BSVerif.MsgPack.StreamModel
open BSVerif BSVerif.Generated BSVerif.MsgPack.Model BSVerif.BinStream
open BSVerif.Props.C10 (abs)

/-- the real reader `r` (chunk size N) stands for the abstract state `s` -/
def Rel (N : Nat) (r : Reader) : Option Cursor → Prop
  | some c => RInv r ∧ abs r = c ∧ r.N = N
  | none => True

theorem Rel.mk {N : Nat} {r : Reader} {c : Cursor} (h1 : RInv r) (h2 : abs r = c) (h3 : r.N = N) : Rel N r (some c) :=
  ⟨h1, h2, h3⟩
theorem Rel.dead {N : Nat} {r : Reader} : Rel N r none := trivial

/-- same outcome: same value and related states, or the same error -/
def Agree (N : Nat) : Except Err (α × Reader) → Except Err (α × Option Cursor) → Prop
  | .ok (a, r), .ok (a', s) => a = a' ∧ Rel N r s
  | .error e, .error e' => e = e'
  | _, _ => False

/-- the chunk loop of ReadValue(string_view&) on the real reader: all `rem` bytes, wherever the chunk boundaries fall,
    or ParsingException when fewer remain -/
theorem chunkLoop_refines (fuel : Nat) :
    ∀ (rem : Nat) (acc : Bytes) (r : Reader), rem ≤ fuel → RInv r →
      if r.getPosition + rem ≤ r.stream.data.length then
        ∃ r', chunkLoop readerSrc fuel rem acc r = .ok (acc ++ slice r.stream.data r.getPosition rem, r') ∧
          RInv r' ∧ abs r' = ⟨r.stream.data, r.getPosition + rem⟩ ∧ r'.N = r.N
      else chunkLoop readerSrc fuel rem acc r = .error .parsing := by
  induction fuel with
  | zero =>
    intro rem acc r hrem h
    have : rem = 0 := by omega
    subst this
    have hle := getPosition_le r h.base
    simp only [Nat.add_zero, hle, if_true, chunkLoop, slice_zero, List.append_nil]
    exact ⟨r, rfl, h, rfl, rfl⟩
  | succ fuel ih =>
    intro rem acc r hrem h
    have hle := getPosition_le r h.base
    cases rem with
    | zero =>
      simp only [Nat.add_zero, hle, if_true, chunkLoop, slice_zero, List.append_nil]
      exact ⟨r, rfl, h, rfl, rfl⟩
    | succ rem =>
      obtain ⟨i1, i2, i3⟩ := BSVerif.Props.C10.readByChunks_refines r h (rem + 1)
      simp only [chunkLoop]
      rw [show readerSrc.readByChunks r (rem + 1) = r.readByChunks (rem + 1) from rfl]
      generalize hrc : r.readByChunks (rem + 1) = rc at i1 i2 i3
      obtain ⟨ob, r1⟩ := rc
      cases ob with
      | none =>
        simp only at i3 ⊢
        have hend : r.stream.data.length ≤ r.getPosition := by
          have := i3.1; simp [abs, Cursor.isEnd] at this; exact this
        have : ¬ (r.getPosition + (rem + 1) ≤ r.stream.data.length) := by omega
        simp only [this, if_false]
      | some b =>
        simp only at i1 i2 i3 ⊢
        obtain ⟨j1, j2, j3, j4, j5⟩ := i3
        have hbl : 0 < b.length := j4 (by omega)
        have hbe : b.isEmpty = false := by
          cases b with
          | nil => simp at hbl
          | cons _ _ => rfl
        simp only [hbe, Bool.false_eq_true, if_false]
        -- the chunk lies inside the data
        have hin : r.getPosition + b.length ≤ r.stream.data.length := by
          have hl := congrArg List.length j2
          rw [slice_length] at hl
          omega
        have habs : abs r1 = ⟨r.stream.data, r.getPosition + b.length⟩ := by
          rw [j5]; simp [abs, Cursor.advance, Nat.min_eq_left hin]
        have hd1 : r1.stream.data = r.stream.data := by
          have := congrArg Cursor.data habs; simpa [abs] using this
        have hp1 : r1.getPosition = r.getPosition + b.length := by
          have := congrArg Cursor.pos habs; simpa [abs] using this
        have hih := ih (rem + 1 - b.length) (acc ++ b) r1 (by omega) i1
        rw [hd1, hp1] at hih
        by_cases hfit : r.getPosition + (rem + 1) ≤ r.stream.data.length
        · have : r.getPosition + b.length + (rem + 1 - b.length) ≤ r.stream.data.length := by omega
          simp only [this, if_true] at hih
          simp only [hfit, if_true]
          obtain ⟨r', e1, e2, e3, e4⟩ := hih
          refine ⟨r', ?_, e2, ?_, by rw [e4, i2]⟩
          · rw [e1, List.append_assoc]
            have hcat : b ++ slice r.stream.data (r.getPosition + b.length) (rem + 1 - b.length) =
                slice r.stream.data r.getPosition (rem + 1) := by
              conv => lhs; lhs; rw [j2]
              rw [slice_append]
              congr 1; omega
            rw [hcat]
          · rw [e3]; congr 1; omega
        · have : ¬ (r.getPosition + b.length + (rem + 1 - b.length) ≤ r.stream.data.length) := by omega
          simp only [this, if_false] at hih
          simp only [hfit, if_false]
          exact hih


/-- SIMULATION: whatever program is run — as long as the abstract run is defined (no reader operation after a failed
    SetPosition) — the real reader returns the abstract answer and ends in a state that stands for the abstract state. -/
theorem run_refines (N : Nat) (p : Prog α) :
    ∀ (r : Reader) (s : Option Cursor) (res : Except Err (α × Option Cursor)),
      Rel N r s → runA N p s = some res → Agree N (run readerSrc p r) res := by
  induction p with
  | ret a =>
    intro r s res hr h
    simp only [runA, Option.some.injEq] at h
    subst h
    exact ⟨rfl, hr⟩
  | throw e =>
    intro r s res hr h
    simp only [runA, Option.some.injEq] at h
    subst h
    rfl
  | peekByte k ih =>
    intro r s res hr h
    cases s with
    | none => simp [runA] at h
    | some c =>
      obtain ⟨hi, ha, hn⟩ := hr
      obtain ⟨a1, a2, a3, a4⟩ := BSVerif.Props.C10.peekByte_refines r hi
      simp only [runA] at h
      simp only [run]
      rw [show readerSrc.peekByte r = r.peekByte from rfl, a1, ha]
      exact ih _ _ _ _ (Rel.mk a2 (by rw [a3, ha]) (by rw [a4, hn])) h
  | readByte k ih =>
    intro r s res hr h
    cases s with
    | none => simp [runA] at h
    | some c =>
      obtain ⟨hi, ha, hn⟩ := hr
      obtain ⟨a1, a2, a3, a4⟩ := BSVerif.Props.C10.readByte_refines r hi
      simp only [runA] at h
      simp only [run]
      rw [show readerSrc.readByte r = r.readByte from rfl, a1, ha]
      exact ih _ _ _ _ (Rel.mk a2 (by rw [a3, ha]) (by rw [a4, hn])) h
  | gotoNextByte k ih =>
    intro r s res hr h
    cases s with
    | none => simp [runA] at h
    | some c =>
      obtain ⟨hi, ha, hn⟩ := hr
      obtain ⟨a2, a3, a4⟩ := BSVerif.Props.C10.gotoNextByte_refines r hi
      simp only [runA] at h
      simp only [run]
      rw [show readerSrc.gotoNextByte r = r.gotoNextByte from rfl]
      exact ih _ _ _ (Rel.mk a2 (by rw [a3, ha]) (by rw [a4, hn])) h
  | readSolidBlock n k ih =>
    intro r s res hr h
    cases s with
    | none => simp [runA] at h
    | some c =>
      obtain ⟨hi, ha, hn⟩ := hr
      obtain ⟨a1, a2, a4, a3⟩ := BSVerif.Props.C10.readSolidBlock_refines r hi n
      simp only [runA] at h
      simp only [run]
      rw [show readerSrc.readSolidBlock r n = r.readSolidBlock n from rfl]
      rw [a1, ha, hn] at a3
      rw [a1, ha, hn]
      split at h
      · rename_i d hd
        rw [hd] at a3 ⊢
        exact ih _ _ _ _ (Rel.mk a2 (by simpa using a3) (by rw [a4, hn])) h
      · rename_i hd
        rw [hd] at a3 ⊢
        exact ih _ _ _ _ (Rel.mk a2 (by simpa using a3) (by rw [a4, hn])) h
  | readExact n k ih =>
    intro r s res hr h
    cases s with
    | none => simp [runA] at h
    | some c =>
      obtain ⟨hi, ha, hn⟩ := hr
      have hl := chunkLoop_refines n n [] r (Nat.le_refl _) hi
      have hd : r.stream.data = c.data := by have := congrArg Cursor.data ha; simpa [abs] using this
      have hp : r.getPosition = c.pos := by have := congrArg Cursor.pos ha; simpa [abs] using this
      rw [hd, hp] at hl
      simp only [runA, Cursor.block] at h
      simp only [run]
      by_cases hfit : c.pos + n ≤ c.data.length
      · simp only [hfit, if_true] at h hl
        obtain ⟨r', e1, e2, e3, e4⟩ := hl
        rw [e1]
        simp only [List.nil_append, slice]
        refine ih _ _ _ _ (Rel.mk e2 ?_ (by rw [e4, hn])) h
        rw [e3]; simp [Cursor.advance, Nat.min_eq_left hfit]
      · simp only [hfit, if_false] at h hl
        rw [hl]
        simp only [Option.some.injEq] at h
        subst h
        rfl
  | setPosition q k ih =>
    intro r s res hr h
    cases s with
    | none => simp [runA] at h
    | some c =>
      obtain ⟨hi, ha, hn⟩ := hr
      obtain ⟨a1, a2⟩ := BSVerif.Props.C10.setPosition_refines r hi q
      have hd : r.stream.data = c.data := by have := congrArg Cursor.data ha; simpa [abs] using this
      rw [hd] at a1 a2
      simp only [runA] at h
      simp only [run]
      rw [show readerSrc.setPosition r q = r.setPosition q from rfl, a1]
      by_cases hq : q ≤ c.data.length
      · simp only [hq, if_true, decide_true] at h ⊢
        obtain ⟨b1, b2, b3⟩ := a2 hq
        exact ih _ _ _ _ (Rel.mk b1 b2 (by rw [b3, hn])) h
      · simp only [hq, if_false, decide_false] at h ⊢
        exact ih _ _ _ _ Rel.dead h
  | getPosition k ih =>
    intro r s res hr h
    cases s with
    | none => simp [runA] at h
    | some c =>
      have hp : r.getPosition = c.pos := by have := congrArg Cursor.pos hr.2.1; simpa [abs] using this
      simp only [runA] at h
      simp only [run]
      rw [show readerSrc.getPosition r = r.getPosition from rfl, hp]
      exact ih _ _ _ _ hr h
  | isEnd k ih =>
    intro r s res hr h
    cases s with
    | none => simp [runA] at h
    | some c =>
      have he := BSVerif.Props.C10.isEnd_refines r hr.1
      rw [hr.2.1] at he
      simp only [runA] at h
      simp only [run]
      rw [show readerSrc.isEnd r = r.isEnd from rfl, he]
      exact ih _ _ _ _ hr h

end BSVerif.MsgPack.StreamModel
