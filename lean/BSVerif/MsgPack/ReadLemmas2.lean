/-
  Helper lemmas for the reader proofs, part 2: strings, size readers, floats, timestamps on
  encodings produced by the Spec's encoder.
-/
import BSVerif.MsgPack.ReadLemmas
set_option linter.unusedSimpArgs false
set_option linter.unusedVariables false

namespace BSVerif.MsgPack
open BSVerif BSVerif.MsgPack.Spec BSVerif.MsgPack.Model BSVerif.Generated

/-! ### slicing facts -/

theorem drop_after (bs : Bytes) (p : Nat) (a b : Bytes) (h : bs.drop p = a ++ b) :
    bs.drop (p + a.length) = b ∧ bs.length - p = a.length + b.length := by
  constructor
  · rw [← List.drop_drop, h, List.drop_left]
  · have := congrArg List.length h
    simpa using this

theorem take_of_drop (bs : Bytes) (p : Nat) (d rest : Bytes) (h : bs.drop p = d ++ rest) :
    (bs.drop p).take d.length = d := by rw [h, List.take_left]

/-! ### booleans into integer targets -/

theorem readInteger_on_bool (tgt : IntTy) (ht : tgt ∈ tgtTypes) (o : Opts) (b : Bool) (bs : Bytes) (pos : Nat) (rest : Bytes)
    (hd : bs.drop pos = (if b then 0xC3 else 0xC2) :: rest) :
    readInteger tgt o bs pos = .ok (some (if b then 1 else 0), pos + 1) := by
  obtain ⟨h1, _, _⟩ := drop_cons_facts hd
  have h0 : convInt tyI32 tgt 0 = some 0 := by
    rw [convInt_spec tyI32 tgt (by simp [srcTypes]) ht 0 (by decide)]
    simp only [tgtTypes, List.mem_cons, List.mem_nil_iff, or_false] at ht
    rcases ht with rfl | rfl | rfl | rfl | rfl | rfl | rfl | rfl | rfl | rfl <;> decide
  have h1' : convInt tyI32 tgt 1 = some 1 := by
    rw [convInt_spec tyI32 tgt (by simp [srcTypes]) ht 1 (by decide)]
    simp only [tgtTypes, List.mem_cons, List.mem_nil_iff, or_false] at ht
    rcases ht with rfl | rfl | rfl | rfl | rfl | rfl | rfl | rfl | rfl | rfl <;> decide
  cases b <;> simp [readInteger, h1, h0, h1', convertByPolicy]

/-! ### strings and the size readers on every legal header width -/

theorem readStr_on_encoding (o : Opts) (f : Format) (d enc : Bytes) (he : encodeAs f (.str d) = some enc)
    (bs : Bytes) (hb : BytesOk bs) (pos : Nat) (rest : Bytes) (hd : bs.drop pos = enc ++ rest) :
    readStr o bs pos = .ok (some d, pos + enc.length) := by
  cases f <;> try (simp [encodeAs] at he; done)
  case fixstr =>
    simp only [encodeAs] at he; split at he <;> simp at he; subst he
    rename_i hl
    obtain ⟨h1, h2, h3⟩ := drop_cons_facts hd
    have e1 : (160 + d.length) / 32 = 5 := by omega
    have e2 : (160 + d.length) % 32 = d.length := by omega
    have e3 : pos + 1 + d.length ≤ bs.length := by simp at h3; omega
    simp only [readStr, h1, e1, e2, if_true, e3, h2, List.take_left]
    simp; omega
  case str8 =>
    simp only [encodeAs, encLenData] at he; split at he <;> simp at he; subst he
    rename_i hl
    obtain ⟨h1, h2, h3⟩ := drop_cons_facts hd
    simp only [List.append_eq, List.append_assoc] at h2 h3
    have g := getValue_on_be 1 (by simp [WidthOk]) bs hb (pos + 1) d.length hl _ h2
    obtain ⟨h4, h5⟩ := drop_after bs (pos + 1) _ _ h2
    simp only [beBytes_length] at h4 h5
    have e3 : pos + 1 + 1 + d.length ≤ bs.length := by simp at h5; omega
    simp only [readStr, h1, g, e3, h4, List.take_left]
    simp; omega
  case str16 =>
    simp only [encodeAs, encLenData] at he; split at he <;> simp at he; subst he
    rename_i hl
    obtain ⟨h1, h2, h3⟩ := drop_cons_facts hd
    simp only [List.append_eq, List.append_assoc] at h2 h3
    have g := getValue_on_be 2 (by simp [WidthOk]) bs hb (pos + 1) d.length hl _ h2
    obtain ⟨h4, h5⟩ := drop_after bs (pos + 1) _ _ h2
    simp only [beBytes_length] at h4 h5
    have e3 : pos + 1 + 2 + d.length ≤ bs.length := by simp at h5; omega
    simp only [readStr, h1, g, e3, h4, List.take_left]
    simp; omega
  case str32 =>
    simp only [encodeAs, encLenData] at he; split at he <;> simp at he; subst he
    rename_i hl
    obtain ⟨h1, h2, h3⟩ := drop_cons_facts hd
    simp only [List.append_eq, List.append_assoc] at h2 h3
    have g := getValue_on_be 4 (by simp [WidthOk]) bs hb (pos + 1) d.length hl _ h2
    obtain ⟨h4, h5⟩ := drop_after bs (pos + 1) _ _ h2
    simp only [beBytes_length] at h4 h5
    have e3 : pos + 1 + 4 + d.length ≤ bs.length := by simp at h5; omega
    simp only [readStr, h1, g, e3, h4, List.take_left]
    simp; omega

theorem readArraySize_on_encoding (o : Opts) (f : Format) (n : Nat) (enc : Bytes) (he : encodeAs f (.array n) = some enc)
    (bs : Bytes) (hb : BytesOk bs) (pos : Nat) (rest : Bytes) (hd : bs.drop pos = enc ++ rest) :
    readArraySize o bs pos = .ok (some n, pos + enc.length) := by
  cases f <;> try (simp [encodeAs] at he; done)
  case fixarray =>
    simp only [encodeAs] at he; split at he <;> simp at he; subst he
    rename_i hl
    obtain ⟨h1, h2, h3⟩ := drop_cons_facts hd
    have e1 : (144 + n) / 16 = 9 := by omega
    have e2 : (144 + n) % 16 = n := by omega
    simp [readArraySize, readCount, h1, e1, e2]
  case array16 =>
    simp only [encodeAs, encCount] at he; split at he <;> simp at he; subst he
    rename_i hl
    obtain ⟨h1, h2, h3⟩ := drop_cons_facts hd
    simp only [List.append_eq] at h2
    have g := getValue_on_be 2 (by simp [WidthOk]) bs hb (pos + 1) n hl _ h2
    simp [readArraySize, readCount, h1, g]
  case array32 =>
    simp only [encodeAs, encCount] at he; split at he <;> simp at he; subst he
    rename_i hl
    obtain ⟨h1, h2, h3⟩ := drop_cons_facts hd
    simp only [List.append_eq] at h2
    have g := getValue_on_be 4 (by simp [WidthOk]) bs hb (pos + 1) n hl _ h2
    simp [readArraySize, readCount, h1, g]

theorem readMapSize_on_encoding (o : Opts) (f : Format) (n : Nat) (enc : Bytes) (he : encodeAs f (.map n) = some enc)
    (bs : Bytes) (hb : BytesOk bs) (pos : Nat) (rest : Bytes) (hd : bs.drop pos = enc ++ rest) :
    readMapSize o bs pos = .ok (some n, pos + enc.length) := by
  cases f <;> try (simp [encodeAs] at he; done)
  case fixmap =>
    simp only [encodeAs] at he; split at he <;> simp at he; subst he
    rename_i hl
    obtain ⟨h1, h2, h3⟩ := drop_cons_facts hd
    have e1 : (128 + n) / 16 = 8 := by omega
    have e2 : (128 + n) % 16 = n := by omega
    simp [readMapSize, readCount, h1, e1, e2]
  case map16 =>
    simp only [encodeAs, encCount] at he; split at he <;> simp at he; subst he
    rename_i hl
    obtain ⟨h1, h2, h3⟩ := drop_cons_facts hd
    simp only [List.append_eq] at h2
    have g := getValue_on_be 2 (by simp [WidthOk]) bs hb (pos + 1) n hl _ h2
    simp [readMapSize, readCount, h1, g]
  case map32 =>
    simp only [encodeAs, encCount] at he; split at he <;> simp at he; subst he
    rename_i hl
    obtain ⟨h1, h2, h3⟩ := drop_cons_facts hd
    simp only [List.append_eq] at h2
    have g := getValue_on_be 4 (by simp [WidthOk]) bs hb (pos + 1) n hl _ h2
    simp [readMapSize, readCount, h1, g]

/-- `ReadBinarySize` reads the header only: the position is behind the length field -/
theorem readBinarySize_on_encoding (o : Opts) (f : Format) (d enc : Bytes) (he : encodeAs f (.bin d) = some enc)
    (bs : Bytes) (hb : BytesOk bs) (pos : Nat) (rest : Bytes) (hd : bs.drop pos = enc ++ rest) :
    readBinarySize o bs pos = .ok (some d.length, pos + (enc.length - d.length)) := by
  cases f <;> try (simp [encodeAs] at he; done)
  case bin8 =>
    simp only [encodeAs, encLenData] at he; split at he <;> simp at he; subst he
    rename_i hl
    obtain ⟨h1, h2, h3⟩ := drop_cons_facts hd
    simp only [List.append_eq, List.append_assoc] at h2
    have g := getValue_on_be 1 (by simp [WidthOk]) bs hb (pos + 1) d.length hl _ h2
    simp [readBinarySize, h1, g]; omega
  case bin16 =>
    simp only [encodeAs, encLenData] at he; split at he <;> simp at he; subst he
    rename_i hl
    obtain ⟨h1, h2, h3⟩ := drop_cons_facts hd
    simp only [List.append_eq, List.append_assoc] at h2
    have g := getValue_on_be 2 (by simp [WidthOk]) bs hb (pos + 1) d.length hl _ h2
    simp [readBinarySize, h1, g]; omega
  case bin32 =>
    simp only [encodeAs, encLenData] at he; split at he <;> simp at he; subst he
    rename_i hl
    obtain ⟨h1, h2, h3⟩ := drop_cons_facts hd
    simp only [List.append_eq, List.append_assoc] at h2
    have g := getValue_on_be 4 (by simp [WidthOk]) bs hb (pos + 1) d.length hl _ h2
    simp [readBinarySize, h1, g]; omega

/-! ### floats: both widths into both targets -/

theorem readF32_on_f32 (o : Opts) (bits : Nat) (hbits : bits < 2 ^ 32) (bs : Bytes) (hb : BytesOk bs) (pos : Nat) (rest : Bytes)
    (hd : bs.drop pos = 0xCA :: beBytes 4 bits ++ rest) : readF32 o bs pos = .ok (some bits, pos + 5) := by
  obtain ⟨h1, h2, _⟩ := drop_cons_facts hd
  simp only [List.append_eq] at h2
  have g := getValue_on_be 4 (by simp [WidthOk]) bs hb (pos + 1) bits (by simpa using hbits) _ h2
  simp [readF32, h1, g]

theorem readF32_on_f64 (o : Opts) (bits : Nat) (hbits : bits < 2 ^ 64) (bs : Bytes) (hb : BytesOk bs) (pos : Nat) (rest : Bytes)
    (hd : bs.drop pos = 0xCB :: beBytes 8 bits ++ rest) :
    readF32 o bs pos = convertByPolicy (if Ieee.toFloatOk bits then some (Ieee.f64ToF32 bits) else none) o (pos + 9) := by
  obtain ⟨h1, h2, _⟩ := drop_cons_facts hd
  simp only [List.append_eq] at h2
  have g := getValue_on_be 8 (by simp [WidthOk]) bs hb (pos + 1) bits (by simpa using hbits) _ h2
  simp [readF32, h1, g]

theorem readF64_on_f64 (o : Opts) (bits : Nat) (hbits : bits < 2 ^ 64) (bs : Bytes) (hb : BytesOk bs) (pos : Nat) (rest : Bytes)
    (hd : bs.drop pos = 0xCB :: beBytes 8 bits ++ rest) : readF64 o bs pos = .ok (some bits, pos + 9) := by
  obtain ⟨h1, h2, _⟩ := drop_cons_facts hd
  simp only [List.append_eq] at h2
  have g := getValue_on_be 8 (by simp [WidthOk]) bs hb (pos + 1) bits (by simpa using hbits) _ h2
  simp [readF64, h1, g]

theorem readF64_on_f32 (o : Opts) (bits : Nat) (hbits : bits < 2 ^ 32) (bs : Bytes) (hb : BytesOk bs) (pos : Nat) (rest : Bytes)
    (hd : bs.drop pos = 0xCA :: beBytes 4 bits ++ rest) : readF64 o bs pos = .ok (some (Ieee.f32ToF64 bits), pos + 5) := by
  obtain ⟨h1, h2, _⟩ := drop_cons_facts hd
  simp only [List.append_eq] at h2
  have g := getValue_on_be 4 (by simp [WidthOk]) bs hb (pos + 1) bits (by simpa using hbits) _ h2
  simp [readF64, h1, g]

/-- nil -/
theorem readNil_on_nil (o : Opts) (bs : Bytes) (pos : Nat) (rest : Bytes) (hd : bs.drop pos = 0xC0 :: rest) :
    readNil o bs pos = .ok (some (), pos + 1) := by
  obtain ⟨h1, _, _⟩ := drop_cons_facts hd
  simp [readNil, h1]

/-! ### timestamps -/

theorem entry_d6 : entry 0xD6 = ⟨11, 4, 1, 0⟩ := by rfl
theorem entry_d7 : entry 0xD7 = ⟨11, 8, 1, 0⟩ := by rfl
theorem entry_c7 : entry 0xC7 = ⟨11, 0, 1, 1⟩ := by rfl

theorem getValue_on_bytes (k : Nat) (hk : WidthOk k) (bs : Bytes) (hb : BytesOk bs) (p : Nat) (d rest : Bytes) (hl : d.length = k)
    (hd : bs.drop p = d ++ rest) : getValue k bs p = .ok (beNat d, p + k) := by
  rw [getValue_eq k hk bs hb p, hd, takeN_append_len k d rest hl]

/-- timestamp 32 in fixext 4 -/
theorem readTs_fixext4 (o : Opts) (d : Bytes) (hl : d.length = 4) (bs : Bytes) (hb : BytesOk bs) (pos : Nat) (rest : Bytes)
    (hd : bs.drop pos = 0xD6 :: 0xFF :: (d ++ rest)) :
    readTs o bs pos = .ok (some (Int.ofNat (beNat d), 0), pos + 6) := by
  obtain ⟨h1, h2, h3⟩ := drop_cons_facts hd
  obtain ⟨h4, h5, h6⟩ := drop_cons_facts h2
  have hlen : pos + 2 ≤ bs.length := by omega
  have g := getValue_on_bytes 4 (by simp [WidthOk]) bs hb (pos + 1 + 1) d rest hl h5
  have hty : bs.getD (pos + 1) 0 = 0xFF := by simp [List.getD, h4]
  simp [readTs, readExtFamilyType, h1, entry_d6, Msgpack.vtExt, hlen, hty]
  rw [show pos + 2 = pos + 1 + 1 from by omega, g]
  simp [h4]

/-- timestamp 64 in fixext 8: 30-bit nanoseconds, 34-bit seconds -/
theorem readTs_fixext8 (o : Opts) (d : Bytes) (hl : d.length = 8) (bs : Bytes) (hb : BytesOk bs) (pos : Nat) (rest : Bytes)
    (hd : bs.drop pos = 0xD7 :: 0xFF :: (d ++ rest)) :
    readTs o bs pos = .ok (some (Int.ofNat (beNat d % 2 ^ 34), Int.ofNat (beNat d / 2 ^ 34)), pos + 10) := by
  obtain ⟨h1, h2, h3⟩ := drop_cons_facts hd
  obtain ⟨h4, h5, h6⟩ := drop_cons_facts h2
  have hlen : pos + 2 ≤ bs.length := by omega
  have g := getValue_on_bytes 8 (by simp [WidthOk]) bs hb (pos + 1 + 1) d rest hl h5
  have hty : bs.getD (pos + 1) 0 = 0xFF := by simp [List.getD, h4]
  have hdb : BytesOk d := by
    intro b hbm
    have : b ∈ bs.drop (pos + 1 + 1) := by rw [h5]; exact List.mem_append_left _ hbm
    exact hb b (List.mem_of_mem_drop this)
  have hlt := beNat_lt d hdb
  rw [hl] at hlt
  have hc : castTo tyI32 (Int.ofNat (beNat d / 2 ^ 34)) = Int.ofNat (beNat d / 2 ^ 34) := by
    simp [castTo, tyI32]; (repeat' split) <;> omega
  simp [readTs, readExtFamilyType, h1, entry_d7, Msgpack.vtExt, hlen, hty]
  rw [show pos + 2 = pos + 1 + 1 from by omega, g]
  simp [h4]
  have hlt' : beNat d < 18446744073709551616 := by simpa using hlt
  simp [castTo, tyI32]; (repeat' split) <;> omega

/-- 12-byte timestamp payload in ext 8: read as ⟨seconds:int64⟩⟨nanoseconds:int32⟩ (the code's order) -/
theorem readTs_ext8_12 (o : Opts) (d1 d2 : Bytes) (hl1 : d1.length = 8) (hl2 : d2.length = 4) (bs : Bytes) (hb : BytesOk bs) (pos : Nat)
    (rest : Bytes) (hd : bs.drop pos = 0xC7 :: 12 :: 0xFF :: (d1 ++ (d2 ++ rest))) :
    readTs o bs pos = .ok (some (castTo tyI64 (Int.ofNat (beNat d1)), castTo tyI32 (Int.ofNat (beNat d2))), pos + 15) := by
  obtain ⟨h1, h2, h3⟩ := drop_cons_facts hd
  obtain ⟨h4, h5, h6⟩ := drop_cons_facts h2
  obtain ⟨h7, h8, h9⟩ := drop_cons_facts h5
  have hlen : pos + 3 ≤ bs.length := by omega
  have gs := getValue_on_bytes 1 (by simp [WidthOk]) bs hb (pos + 1) [12] _ rfl (by rw [h2]; rfl)
  have g1 := getValue_on_bytes 8 (by simp [WidthOk]) bs hb (pos + 1 + 1 + 1) d1 _ hl1 h8
  obtain ⟨h10, _⟩ := drop_after bs (pos + 1 + 1 + 1) d1 _ h8
  rw [hl1] at h10
  have g2 := getValue_on_bytes 4 (by simp [WidthOk]) bs hb (pos + 1 + 1 + 1 + 8) d2 _ hl2 h10
  have hty : bs[pos + 2]? = some 0xFF := by rw [show pos + 2 = pos + 1 + 1 from by omega]; exact h7
  rw [beNat_single] at gs
  simp [readTs, readExtFamilyType, readExtSize, h1, entry_c7, Msgpack.vtExt, hlen, gs, hty, Except.map]
  rw [show pos + 3 = pos + 1 + 1 + 1 from by omega, g1]
  simp only
  rw [g2]

/-! ### truncated integer encodings -/

theorem readInteger_truncated (tgt : IntTy) (o : Opts) (f : Format) (v : Int) (enc : Bytes)
    (he : encodeAs f (.int v) = some enc) (n : Nat) (hn : n < enc.length)
    (bs : Bytes) (hb : BytesOk bs) (pos : Nat) (hd : bs.drop pos = enc.take n) :
    readInteger tgt o bs pos = .error .parsing := by
  cases f <;> try (simp [encodeAs] at he; done)
  case posFixint =>
    simp only [encodeAs] at he; split at he <;> simp at he; subst he
    have : n = 0 := by simp at hn; omega
    subst this
    simp at hd
    have : bs[pos]? = none := List.getElem?_eq_none hd
    simp [readInteger, this]
  case negFixint =>
    simp only [encodeAs] at he; split at he <;> simp at he; subst he
    have : n = 0 := by simp at hn; omega
    subst this
    simp at hd
    have : bs[pos]? = none := List.getElem?_eq_none hd
    simp [readInteger, this]
  case uint8 =>
    simp only [encodeAs, encUInt] at he; split at he <;> simp at he; subst he
    cases n with
    | zero =>
      simp at hd
      have : bs[pos]? = none := List.getElem?_eq_none hd
      simp [readInteger, this]
    | succ m =>
      simp only [List.take_succ_cons, List.append_nil] at hd
      obtain ⟨h1, h2, h3⟩ := drop_cons_facts hd
      have hm : m < 1 := by simp at hn; omega
      have g : getValue 1 bs (pos + 1) = .error .parsing := by
        rw [getValue_eq 1 (by simp [WidthOk]) bs hb (pos + 1), h2, takeN_none (by simp; omega)]
      simp [readInteger, readIntBody, h1, g]
  case uint16 =>
    simp only [encodeAs, encUInt] at he; split at he <;> simp at he; subst he
    cases n with
    | zero =>
      simp at hd
      have : bs[pos]? = none := List.getElem?_eq_none hd
      simp [readInteger, this]
    | succ m =>
      simp only [List.take_succ_cons, List.append_nil] at hd
      obtain ⟨h1, h2, h3⟩ := drop_cons_facts hd
      have hm : m < 2 := by simp at hn; omega
      have g : getValue 2 bs (pos + 1) = .error .parsing := by
        rw [getValue_eq 2 (by simp [WidthOk]) bs hb (pos + 1), h2, takeN_none (by simp; omega)]
      simp [readInteger, readIntBody, h1, g]
  case uint32 =>
    simp only [encodeAs, encUInt] at he; split at he <;> simp at he; subst he
    cases n with
    | zero =>
      simp at hd
      have : bs[pos]? = none := List.getElem?_eq_none hd
      simp [readInteger, this]
    | succ m =>
      simp only [List.take_succ_cons, List.append_nil] at hd
      obtain ⟨h1, h2, h3⟩ := drop_cons_facts hd
      have hm : m < 4 := by simp at hn; omega
      have g : getValue 4 bs (pos + 1) = .error .parsing := by
        rw [getValue_eq 4 (by simp [WidthOk]) bs hb (pos + 1), h2, takeN_none (by simp; omega)]
      simp [readInteger, readIntBody, h1, g]
  case uint64 =>
    simp only [encodeAs, encUInt] at he; split at he <;> simp at he; subst he
    cases n with
    | zero =>
      simp at hd
      have : bs[pos]? = none := List.getElem?_eq_none hd
      simp [readInteger, this]
    | succ m =>
      simp only [List.take_succ_cons, List.append_nil] at hd
      obtain ⟨h1, h2, h3⟩ := drop_cons_facts hd
      have hm : m < 8 := by simp at hn; omega
      have g : getValue 8 bs (pos + 1) = .error .parsing := by
        rw [getValue_eq 8 (by simp [WidthOk]) bs hb (pos + 1), h2, takeN_none (by simp; omega)]
      simp [readInteger, readIntBody, h1, g]
  case int8 =>
    simp only [encodeAs, encSInt] at he; split at he <;> simp at he; subst he
    cases n with
    | zero =>
      simp at hd
      have : bs[pos]? = none := List.getElem?_eq_none hd
      simp [readInteger, this]
    | succ m =>
      simp only [List.take_succ_cons, List.append_nil] at hd
      obtain ⟨h1, h2, h3⟩ := drop_cons_facts hd
      have hm : m < 1 := by simp at hn; omega
      have g : getValue 1 bs (pos + 1) = .error .parsing := by
        rw [getValue_eq 1 (by simp [WidthOk]) bs hb (pos + 1), h2, takeN_none (by simp; omega)]
      simp [readInteger, readIntBody, h1, g]
  case int16 =>
    simp only [encodeAs, encSInt] at he; split at he <;> simp at he; subst he
    cases n with
    | zero =>
      simp at hd
      have : bs[pos]? = none := List.getElem?_eq_none hd
      simp [readInteger, this]
    | succ m =>
      simp only [List.take_succ_cons, List.append_nil] at hd
      obtain ⟨h1, h2, h3⟩ := drop_cons_facts hd
      have hm : m < 2 := by simp at hn; omega
      have g : getValue 2 bs (pos + 1) = .error .parsing := by
        rw [getValue_eq 2 (by simp [WidthOk]) bs hb (pos + 1), h2, takeN_none (by simp; omega)]
      simp [readInteger, readIntBody, h1, g]
  case int32 =>
    simp only [encodeAs, encSInt] at he; split at he <;> simp at he; subst he
    cases n with
    | zero =>
      simp at hd
      have : bs[pos]? = none := List.getElem?_eq_none hd
      simp [readInteger, this]
    | succ m =>
      simp only [List.take_succ_cons, List.append_nil] at hd
      obtain ⟨h1, h2, h3⟩ := drop_cons_facts hd
      have hm : m < 4 := by simp at hn; omega
      have g : getValue 4 bs (pos + 1) = .error .parsing := by
        rw [getValue_eq 4 (by simp [WidthOk]) bs hb (pos + 1), h2, takeN_none (by simp; omega)]
      simp [readInteger, readIntBody, h1, g]
  case int64 =>
    simp only [encodeAs, encSInt] at he; split at he <;> simp at he; subst he
    cases n with
    | zero =>
      simp at hd
      have : bs[pos]? = none := List.getElem?_eq_none hd
      simp [readInteger, this]
    | succ m =>
      simp only [List.take_succ_cons, List.append_nil] at hd
      obtain ⟨h1, h2, h3⟩ := drop_cons_facts hd
      have hm : m < 8 := by simp at hn; omega
      have g : getValue 8 bs (pos + 1) = .error .parsing := by
        rw [getValue_eq 8 (by simp [WidthOk]) bs hb (pos + 1), h2, takeN_none (by simp; omega)]
      simp [readInteger, readIntBody, h1, g]

/-! ### ReadValueType -/

theorem entry_type_ext (b : Nat) (hb : b < 256) : (entry b).type = Msgpack.vtExt ↔ (formatOf b).family = .ext := by
  rw [entry_eq b hb]
  constructor
  · intro h; exact familyCode_inj _ .ext h
  · intro h; simp [h, Oracle.familyCode]

/-- ReadValueType succeeds wherever the Spec finds a token -/
theorem readValueType_ok (bs : Bytes) (hb : BytesOk bs) (pos : Nat) (t : Token) (f : Format) (rest : Bytes)
    (h : decodeToken (bs.drop pos) = some (t, f, rest)) : ∃ ty, readValueType bs pos = .ok ty := by
  cases hd : bs.drop pos with
  | nil => rw [hd] at h; simp [decodeToken] at h
  | cons b r =>
    rw [hd] at h
    obtain ⟨h1, h2, h3⟩ := drop_cons_facts hd
    have hb256 : b < 256 := hb b (List.mem_of_getElem? h1)
    have g1 := getValue_eq 1 (by simp [WidthOk]) bs hb (pos + 1)
    have g2 := getValue_eq 2 (by simp [WidthOk]) bs hb (pos + 1)
    have g4 := getValue_eq 4 (by simp [WidthOk]) bs hb (pos + 1)
    rw [h2] at g1 g2 g4
    by_cases hfam : (formatOf b).family = .ext
    · have hty := (entry_type_ext b hb256).mpr hfam
      have he := entry_eq b hb256
      cases hf : formatOf b <;> simp [hf, Format.family] at hfam
      case ext8 =>
        simp [decodeToken, hf, decExt_canon] at h
        rw [hf] at he
        simp [Format.family, Format.embeddedLen, Format.fixextLen, Format.fixedBody, Format.lenBytes, Oracle.familyCode] at he
        have : 1 ≤ r.length := by omega
        have c : pos + 3 ≤ pos + 1 + r.length := by omega
        simp [readValueType, readExtFamilyType, readExtSize, h1, he, g1, takeN_eq, this, Except.map, h3, c]
      case ext16 =>
        simp [decodeToken, hf, decExt_canon] at h
        rw [hf] at he
        simp [Format.family, Format.embeddedLen, Format.fixextLen, Format.fixedBody, Format.lenBytes, Oracle.familyCode] at he
        have : 2 ≤ r.length := by omega
        have c : pos + 4 ≤ pos + 1 + r.length := by omega
        simp [readValueType, readExtFamilyType, readExtSize, h1, he, g2, takeN_eq, this, Except.map, h3, c]
      case ext32 =>
        simp [decodeToken, hf, decExt_canon] at h
        rw [hf] at he
        simp [Format.family, Format.embeddedLen, Format.fixextLen, Format.fixedBody, Format.lenBytes, Oracle.familyCode] at he
        have : 4 ≤ r.length := by omega
        have c : pos + 6 ≤ pos + 1 + r.length := by omega
        simp [readValueType, readExtFamilyType, readExtSize, h1, he, g4, takeN_eq, this, Except.map, h3, c]
      case fixext1 =>
        simp [decodeToken, hf, decFixExt_canon] at h
        rw [hf] at he
        simp [Format.family, Format.embeddedLen, Format.fixextLen, Format.fixedBody, Format.lenBytes, Oracle.familyCode] at he
        have c : pos + 2 ≤ pos + 1 + r.length := by omega
        simp [readValueType, readExtFamilyType, h1, he, h3, c]
      case fixext2 =>
        simp [decodeToken, hf, decFixExt_canon] at h
        rw [hf] at he
        simp [Format.family, Format.embeddedLen, Format.fixextLen, Format.fixedBody, Format.lenBytes, Oracle.familyCode] at he
        have c : pos + 2 ≤ pos + 1 + r.length := by omega
        simp [readValueType, readExtFamilyType, h1, he, h3, c]
      case fixext4 =>
        simp [decodeToken, hf, decFixExt_canon] at h
        rw [hf] at he
        simp [Format.family, Format.embeddedLen, Format.fixextLen, Format.fixedBody, Format.lenBytes, Oracle.familyCode] at he
        have c : pos + 2 ≤ pos + 1 + r.length := by omega
        simp [readValueType, readExtFamilyType, h1, he, h3, c]
      case fixext8 =>
        simp [decodeToken, hf, decFixExt_canon] at h
        rw [hf] at he
        simp [Format.family, Format.embeddedLen, Format.fixextLen, Format.fixedBody, Format.lenBytes, Oracle.familyCode] at he
        have c : pos + 2 ≤ pos + 1 + r.length := by omega
        simp [readValueType, readExtFamilyType, h1, he, h3, c]
      case fixext16 =>
        simp [decodeToken, hf, decFixExt_canon] at h
        rw [hf] at he
        simp [Format.family, Format.embeddedLen, Format.fixextLen, Format.fixedBody, Format.lenBytes, Oracle.familyCode] at he
        have c : pos + 2 ≤ pos + 1 + r.length := by omega
        simp [readValueType, readExtFamilyType, h1, he, h3, c]
    · have hty : ¬ (entry b).type = Msgpack.vtExt := fun hc => hfam ((entry_type_ext b hb256).mp hc)
      exact ⟨(entry b).type, by simp [readValueType, h1, hty]⟩


end BSVerif.MsgPack
