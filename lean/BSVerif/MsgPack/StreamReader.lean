/-
  MODEL of the SECOND copy of the MsgPack reader in src/msgpack/msgpack_readers.cpp:
  `CMsgPackStreamReader` and its file-static helpers over `Detail::CBinaryStreamReader`
  (GetValue, ReadExtSize, SkipValueImpl, HandleMismatchedTypesPolicy, ReadInteger, ReadExtFamilyType).

  The code is transliterated branch for branch as a PROGRAM (`Prog`) over the interface of
  `CBinaryStreamReader` — PeekByte, ReadByte, GotoNextByte, ReadSolidBlock, ReadByChunks (through the
  `while (remainingSize != 0)` loop of `ReadValue(std::string_view&)`), SetPosition, GetPosition, IsEnd —
  and is given two interpretations:

  * `run S`   over any implementation `S : Src σ` of that interface; `readerSrc` is the MODEL of the real
              sliding-cache reader (`BinStream.Reader`, any chunk size N) — this is what the driver executes
              with N = 256;
  * `runA N`  over the ABSTRACT cursor `(data, pos)` of BinStream/Model.lean, with exactly the answers the
              refinement theorems of Props/C10bin.lean prove for the real reader (`peekByte`, `advance`, `block`,
              `ReadSolidBlock(k)` fails for k > N, `SetPosition(q)` succeeds iff q ≤ length).  After a FAILED
              `SetPosition` the real reader is left with a stale cache whose further answers depend on the chunk
              alignment; the abstract state is then `none` and any further reader operation is "undefined"
              (`runA … = none`), throwing is still fine.

  Conversions (`ConvertByPolicy`, `Convert::Detail::To`), `ByteCodeTable` and the error classes are shared with
  the string-reader model (MsgPack/Reader.lean): they are the same C++ functions / table for both copies.

  Modelled AFTER the repairs `fix: stream ReadValue(nullptr_t) …` and `fix: CMsgPackStreamReader::SetPosition …`
  (see NOTES.md).  `fuel` is the recursion budget of SkipValueImpl (model only; callers pass length + 1).
-/
import BSVerif.MsgPack.Reader
import BSVerif.BinStream.Model

namespace BSVerif.MsgPack.StreamModel
open BSVerif BSVerif.Generated BSVerif.MsgPack.Model BSVerif.BinStream

/-! ### the interface of CBinaryStreamReader used by the MsgPack stream reader -/

structure Src (σ : Type) where
  peekByte : σ → Option Nat × σ
  readByte : σ → Option Nat × σ
  gotoNextByte : σ → σ
  readSolidBlock : σ → Nat → Option Bytes × σ
  readByChunks : σ → Nat → Option Bytes × σ
  setPosition : σ → Nat → Bool × σ
  getPosition : σ → Nat
  isEnd : σ → Bool

/-- the real thing: the model of `CBinaryStreamReader` (BinStream/Model.lean) -/
def readerSrc : Src Reader where
  peekByte := Reader.peekByte
  readByte := Reader.readByte
  gotoNextByte := Reader.gotoNextByte
  readSolidBlock := Reader.readSolidBlock
  readByChunks := Reader.readByChunks
  setPosition := Reader.setPosition
  getPosition := Reader.getPosition
  isEnd := Reader.isEnd

/-! ### programs over the interface -/

inductive Prog (α : Type) : Type where
  | ret (a : α)
  | throw (e : Err)
  | peekByte (k : Option Nat → Prog α)
  | readByte (k : Option Nat → Prog α)
  | gotoNextByte (k : Prog α)
  | readSolidBlock (n : Nat) (k : Option Bytes → Prog α)
  /-- the loop `while (remainingSize != 0) { chunk = ReadByChunks(remainingSize); … }` of ReadValue(string_view&):
      all `n` bytes or ParsingException -/
  | readExact (n : Nat) (k : Bytes → Prog α)
  | setPosition (q : Nat) (k : Bool → Prog α)
  | getPosition (k : Nat → Prog α)
  | isEnd (k : Bool → Prog α)

def Prog.bind : Prog α → (α → Prog β) → Prog β
  | .ret a, f => f a
  | .throw e, _ => .throw e
  | .peekByte k, f => .peekByte fun x => (k x).bind f
  | .readByte k, f => .readByte fun x => (k x).bind f
  | .gotoNextByte k, f => .gotoNextByte (k.bind f)
  | .readSolidBlock n k, f => .readSolidBlock n fun x => (k x).bind f
  | .readExact n k, f => .readExact n fun x => (k x).bind f
  | .setPosition q k, f => .setPosition q fun x => (k x).bind f
  | .getPosition k, f => .getPosition fun x => (k x).bind f
  | .isEnd k, f => .isEnd fun x => (k x).bind f

instance : Monad Prog where
  pure := .ret
  bind := Prog.bind

def peekByte : Prog (Option Nat) := .peekByte .ret
def readByte : Prog (Option Nat) := .readByte .ret
def gotoNextByte : Prog Unit := .gotoNextByte (.ret ())
def readSolidBlock (n : Nat) : Prog (Option Bytes) := .readSolidBlock n .ret
def readExact (n : Nat) : Prog Bytes := .readExact n .ret
def setPosition (q : Nat) : Prog Bool := .setPosition q .ret
def getPosition : Prog Nat := .getPosition .ret
def isEnd : Prog Bool := .isEnd .ret

/-! ### interpretation over an implementation of the interface -/

/-- the body of `ReadValue(std::string_view&)` after the size has been read:
    `mBuffer.clear(); while (remainingSize != 0) { if (chunk = ReadByChunks(remainingSize); !chunk.empty())
    { mBuffer += chunk; remainingSize -= chunk.size(); } else throw ParsingException(…); }`.
    `fuel` bounds the number of iterations (every iteration consumes at least one byte, so `remaining` suffices). -/
def chunkLoop (S : Src σ) : Nat → Nat → Bytes → σ → Except Err (Bytes × σ)
  | _, 0, acc, s => .ok (acc, s)
  | 0, _ + 1, _, _ => .error .depth
  | fuel + 1, rem + 1, acc, s =>
    match S.readByChunks s (rem + 1) with
    | (some ch, s') =>
      if ch.isEmpty then .error .parsing
      else chunkLoop S fuel (rem + 1 - ch.length) (acc ++ ch) s'
    | (none, _) => .error .parsing

def run (S : Src σ) : Prog α → σ → Except Err (α × σ)
  | .ret a, s => .ok (a, s)
  | .throw e, _ => .error e
  | .peekByte k, s => run S (k (S.peekByte s).1) (S.peekByte s).2
  | .readByte k, s => run S (k (S.readByte s).1) (S.readByte s).2
  | .gotoNextByte k, s => run S k (S.gotoNextByte s)
  | .readSolidBlock n k, s => run S (k (S.readSolidBlock s n).1) (S.readSolidBlock s n).2
  | .readExact n k, s =>
    match chunkLoop S n n [] s with
    | .ok (d, s') => run S (k d) s'
    | .error e => .error e
  | .setPosition q k, s => run S (k (S.setPosition s q).1) (S.setPosition s q).2
  | .getPosition k, s => run S (k (S.getPosition s)) s
  | .isEnd k, s => run S (k (S.isEnd s)) s

/-! ### interpretation over the abstract cursor -/

/-- result: `none` = undefined (a reader operation after a failed SetPosition);
    state: `none` = the reader is in the failed state -/
abbrev AR (α : Type) := Option (Except Err (α × Option Cursor))

def runA (N : Nat) : Prog α → Option Cursor → AR α
  | .ret a, s => some (.ok (a, s))
  | .throw e, _ => some (.error e)
  | .peekByte k, some c => runA N (k c.peekByte) (some c)
  | .readByte k, some c => runA N (k c.peekByte) (some (c.advance 1))
  | .gotoNextByte k, some c => runA N k (some (c.advance 1))
  | .readSolidBlock n k, some c =>
    match (if n ≤ N then c.block n else none) with
    | some d => runA N (k (some d)) (some (c.advance n))
    | none => runA N (k none) (some c)
  | .readExact n k, some c =>
    match c.block n with
    | some d => runA N (k d) (some (c.advance n))
    | none => some (.error .parsing)
  | .setPosition q k, some c =>
    if q ≤ c.data.length then runA N (k true) (some ⟨c.data, q⟩) else runA N (k false) none
  | .getPosition k, some c => runA N (k c.pos) (some c)
  | .isEnd k, some c => runA N (k c.isEnd) (some c)
  | .peekByte _, none => none
  | .readByte _, none => none
  | .gotoNextByte _, none => none
  | .readSolidBlock _ _, none => none
  | .readExact _ _, none => none
  | .setPosition _ _, none => none
  | .getPosition _, none => none
  | .isEnd _, none => none

/-! ### file-static helpers of the stream copy -/

/-- `GetValue<T>(binaryStreamReader, outValue)` for `sizeof(T) = k`: ReadByte for one byte, otherwise
    ReadSolidBlock(sizeof(T)) + BigEndianToNative; returns the unsigned image. -/
def getValue (k : Nat) : Prog Nat :=
  if k = 1 then do
    match ← readByte with
    | some b => pure b
    | none => .throw .parsing                               -- "Unexpected end of input archive"
  else do
    match ← readSolidBlock k with
    | some d => if d.isEmpty then .throw .parsing else pure (reverse k (leNat d))   -- `!data.empty()`
    | none => .throw .parsing

/-- `ReadExtSize(binaryStreamReader, extSizeBytesNum)` — CONSUMES the length field (the string copy does not) -/
def readExtSize (n : Nat) : Prog Nat :=
  if n = 1 ∨ n = 2 ∨ n = 4 then getValue n else .throw .internal

/-- `for (i = 0; i < n; ++i) body` -/
def iter (body : Prog Unit) : Nat → Prog Unit
  | 0 => pure ()
  | n + 1 => do body; iter body n

/-- `SkipValueImpl` after the byte code has been fetched with ReadByte: length field and flat payload;
    returns the number of pending children `extSize`. -/
def skipBody (e : Entry) : Prog Nat :=
  if e.type = Msgpack.vtUnknown then .throw .parsing        -- 0xC1
  else do
    let extSize ← (if e.fixedSeq ≠ 0 then pure e.fixedSeq
                   else if e.extSize ≠ 0 then readExtSize e.extSize
                   else pure 0 : Prog Nat)
    let flat := e.type = Msgpack.vtString ∨ e.type = Msgpack.vtBinaryArray ∨ e.type = Msgpack.vtExt
    let size := if flat then e.dataSize + extSize else e.dataSize
    let extSize := if flat then 0 else extSize
    -- `size == 0 || SetPosition(GetPosition() + size)`
    let ok ← (if size = 0 then pure true else do let p ← getPosition; setPosition (p + size) : Prog Bool)
    if ok then pure extSize
    else .throw .parsing                                    -- "Unexpected end of input archive"

/-- `SkipValueImpl(binaryStreamReader)`; `fuel` bounds the recursion depth. -/
def skipImpl : Nat → Prog Unit
  | 0 => .throw .depth
  | fuel + 1 => do
    match ← readByte with
    | none => .throw .parsing                               -- "No more values to read"
    | some b => do
      let e := entry b
      let extSize ← skipBody e
      if extSize ≠ 0 then
        if e.type = Msgpack.vtMap then iter (do skipImpl fuel; skipImpl fuel) extSize
        else if e.type = Msgpack.vtArray then iter (skipImpl fuel) extSize
        else pure ()
      else pure ()

/-- `HandleMismatchedTypesPolicy(binaryStreamReader, actualType, policy)` -/
def handleMismatch (fuel : Nat) (actualType : Nat) (misThrow : Bool) : Prog Unit :=
  if actualType ≠ Msgpack.vtNil ∧ misThrow then .throw .mismatched else skipImpl fuel

/-- `Detail::ConvertByPolicy` (shared with the string copy) after the source has been consumed -/
def convertByPolicy (r : Option α) (o : Opts) : Prog (Option α) :=
  match r with
  | some x => pure (some x)
  | none => if o.ovfThrow then .throw .overflow else pure none

/-- `GotoNextByte(); GetValue(val); return ConvertByPolicy(val, …)` -/
def readIntBody (src tgt : IntTy) (o : Opts) (k : Nat) : Prog (Option Int) := do
  gotoNextByte
  let u ← getValue k
  convertByPolicy (convInt src tgt (castTo src (Int.ofNat u))) o

/-- `ReadInteger<T>(binaryStreamReader, outValue, options)` -/
def readInteger (fuel : Nat) (tgt : IntTy) (o : Opts) : Prog (Option Int) := do
  match ← peekByte with
  | none => .throw .parsing
  | some b =>
    if b < 0x80 ∨ b ≥ 0xE0 then do
      gotoNextByte
      convertByPolicy (convInt tyI8 tgt (castTo tyI8 (Int.ofNat b))) o
    else if b = 0xCC then readIntBody tyU8 tgt o 1
    else if b = 0xCD then readIntBody tyU16 tgt o 2
    else if b = 0xCE then readIntBody tyU32 tgt o 4
    else if b = 0xCF then readIntBody tyU64 tgt o 8
    else if b = 0xD0 then readIntBody tyI8 tgt o 1
    else if b = 0xD1 then readIntBody tyI16 tgt o 2
    else if b = 0xD2 then readIntBody tyI32 tgt o 4
    else if b = 0xD3 then readIntBody tyI64 tgt o 8
    else if b = 0xC2 then do gotoNextByte; convertByPolicy (convInt tyI32 tgt 0) o
    else if b = 0xC3 then do gotoNextByte; convertByPolicy (convInt tyI32 tgt 1) o
    else do
      handleMismatch fuel (entry b).type o.misThrow
      pure none

/-- `ReadExtFamilyType(binaryStreamReader, extTypeInfo)`: moves forward over the header, then goes BACK with
    `SetPosition(prevPos)` (result ignored). `none` = returned false. -/
def readExtFamilyType : Prog (Option ExtInfo) := do
  match ← peekByte with
  | none => .throw .parsing
  | some b =>
    let m := entry b
    if m.type ≠ Msgpack.vtExt then pure none
    else do
      let prevPos ← getPosition
      gotoNextByte
      if m.fixedSeq ≠ 0 then do
        match ← readByte with
        | some t => do
          let _ ← setPosition prevPos
          pure (some ⟨m.fixedSeq, 1 + m.dataSize, t⟩)
        | none => .throw .parsing
      else if m.extSize ≠ 0 then do
        let sz ← readExtSize m.extSize
        match ← readByte with
        | some t => do
          let _ ← setPosition prevPos
          pure (some ⟨sz, 1 + m.dataSize + m.extSize, t⟩)
        | none => .throw .parsing
      else .throw .internal

/-! ### CMsgPackStreamReader -/

def readValueType : Prog Nat := do
  match ← peekByte with
  | none => .throw .parsing
  | some b =>
    let m := entry b
    if m.type = Msgpack.vtExt then do
      match ← readExtFamilyType with
      | some i => pure (if i.extTypeCode = 0xFF then Msgpack.vtTimestamp else Msgpack.vtExt)
      | none => pure Msgpack.vtExt
    else pure m.type

/-- common tail `HandleMismatchedTypesPolicy(mBinaryStreamReader, ReadValueType(), …); return false;` -/
def mismatchTail (fuel : Nat) (o : Opts) : Prog (Option α) := do
  let t ← readValueType
  handleMismatch fuel t o.misThrow
  pure none

/-- `ReadValue(std::nullptr_t&)` (repaired: `ReadValueType()` as in every other overload) -/
def readNil (fuel : Nat) (o : Opts) : Prog (Option Unit) := do
  match ← peekByte with
  | none => .throw .parsing
  | some b =>
    if b = 0xC0 then do gotoNextByte; pure (some ())
    else mismatchTail fuel o

def readF32 (fuel : Nat) (o : Opts) : Prog (Option Nat) := do
  match ← peekByte with
  | none => .throw .parsing
  | some b =>
    if b = 0xCA then do
      gotoNextByte
      let u ← getValue 4
      pure (some u)
    else if b = 0xCB then do
      gotoNextByte
      let u ← getValue 8
      convertByPolicy (if Ieee.toFloatOk u then some (Ieee.f64ToF32 u) else none) o
    else mismatchTail fuel o

def readF64 (fuel : Nat) (o : Opts) : Prog (Option Nat) := do
  match ← peekByte with
  | none => .throw .parsing
  | some b =>
    if b = 0xCB then do
      gotoNextByte
      let u ← getValue 8
      pure (some u)
    else if b = 0xCA then do
      gotoNextByte
      let u ← getValue 4
      pure (some (Ieee.f32ToF64 u))
    else mismatchTail fuel o

/-- `ReadValue(std::string_view&)`: size, then the chunk loop into `mBuffer` -/
def readStr (fuel : Nat) (o : Opts) : Prog (Option Bytes) := do
  match ← peekByte with
  | none => .throw .parsing
  | some b =>
    let body (size : Prog Nat) : Prog (Option Bytes) := do
      let remainingSize ← size
      let d ← readExact remainingSize
      pure (some d)
    if b / 32 = 5 then body (do gotoNextByte; pure (b % 32))
    else if b = 0xD9 then body (do gotoNextByte; getValue 1)
    else if b = 0xDA then body (do gotoNextByte; getValue 2)
    else if b = 0xDB then body (do gotoNextByte; getValue 4)
    else mismatchTail fuel o

/-- `ReadValue(CBinTimestamp&)`; `SetPosition(GetPosition() + DataOffset)` with the result ignored -/
def readTs (fuel : Nat) (o : Opts) : Prog (Option (Int × Int)) := do
  match ← readExtFamilyType with
  | some i =>
    if i.extTypeCode = 0xFF then do
      let p ← getPosition
      let _ ← setPosition (p + i.dataOffset)
      if i.size = 4 then do
        let u ← getValue 4
        pure (some (Int.ofNat u, 0))
      else if i.size = 8 then do
        let u ← getValue 8
        pure (some (Int.ofNat (u % 2 ^ 34), castTo tyI32 (Int.ofNat (u / 2 ^ 34))))
      else if i.size = 12 then do
        let s ← getValue 8
        let n ← getValue 4
        pure (some (castTo tyI64 (Int.ofNat s), castTo tyI32 (Int.ofNat n)))
      else .throw .parsing                                  -- "Invalid size of timestamp"
    else mismatchTail fuel o
  | none => mismatchTail fuel o

/-- shared shape of ReadArraySize / ReadMapSize -/
def readCount (fixHi c16 c32 : Nat) (fuel : Nat) (o : Opts) : Prog (Option Nat) := do
  match ← peekByte with
  | none => .throw .parsing
  | some b =>
    if b / 16 = fixHi then do gotoNextByte; pure (some (b % 16))
    else if b = c16 then do gotoNextByte; let n ← getValue 2; pure (some n)
    else if b = c32 then do gotoNextByte; let n ← getValue 4; pure (some n)
    else mismatchTail fuel o

def readArraySize := readCount 9 0xDC 0xDD
def readMapSize := readCount 8 0xDE 0xDF

def readBinarySize (fuel : Nat) (o : Opts) : Prog (Option Nat) := do
  match ← peekByte with
  | none => .throw .parsing
  | some b =>
    if b = 0xC4 then do gotoNextByte; let n ← getValue 1; pure (some n)
    else if b = 0xC5 then do gotoNextByte; let n ← getValue 2; pure (some n)
    else if b = 0xC6 then do gotoNextByte; let n ← getValue 4; pure (some n)
    else mismatchTail fuel o

/-- `ReadBinary()` -/
def readBinary : Prog Nat := do
  match ← readByte with
  | some b => pure b
  | none => .throw .parsing

/-- `SkipValue()` -/
def skip (fuel : Nat) : Prog Unit := skipImpl fuel

/-- `SetPosition(pos)` (repaired: a failed `CBinaryStreamReader::SetPosition` is reported like the string reader does) -/
def setPos (q : Nat) : Prog Unit := do
  if ← setPosition q then pure () else .throw .internal

/-! ### the same entry points of CMsgPackStringReader that MsgPack/Reader.lean does not define -/

/-- `CMsgPackStringReader::ReadBinary()` -/
def stringReadBinary (bs : Bytes) (pos : Nat) : Except Err (Nat × Nat) :=
  match bs[pos]? with
  | some b => .ok (b, pos + 1)
  | none => .error .parsing

/-- `CMsgPackStringReader::SetPosition(pos)` -/
def stringSetPos (bs : Bytes) (q : Nat) : Except Err Nat :=
  if q ≤ bs.length then .ok q else .error .internal

/-- `CMsgPackStringReader::IsEnd()` -/
def stringIsEnd (bs : Bytes) (pos : Nat) : Bool := pos == bs.length

/-! ### one call of the public interface, uniform answers (for histories and for the driver) -/

inductive Call where
  | valueType | skip | nil | int (t : IntTy) | f32 | f64 | str | ts | arraySize | mapSize | binarySize | binary
  | getPos | setPos (q : Nat) | isEnd
  deriving Repr, DecidableEq

/-- what the caller observes: the returned value / `false` / nothing -/
inductive Ans where
  | unit | no | nat (n : Nat) | int (i : Int) | bytes (b : Bytes) | ts (s n : Int) | bool (b : Bool)
  deriving Repr, DecidableEq

def ansOpt (f : α → Ans) : Option α → Ans
  | some v => f v
  | none => .no

/-- the stream reader's method for a call -/
def callProg (fuel : Nat) (o : Opts) : Call → Prog Ans
  | .valueType => do let t ← readValueType; pure (.nat t)
  | .skip => do skip fuel; pure .unit
  | .nil => do let r ← readNil fuel o; pure (ansOpt (fun _ => .unit) r)
  | .int t => do let r ← readInteger fuel t o; pure (ansOpt .int r)
  | .f32 => do let r ← readF32 fuel o; pure (ansOpt .nat r)
  | .f64 => do let r ← readF64 fuel o; pure (ansOpt .nat r)
  | .str => do let r ← readStr fuel o; pure (ansOpt .bytes r)
  | .ts => do let r ← readTs fuel o; pure (ansOpt (fun (s, n) => .ts s n) r)
  | .arraySize => do let r ← readArraySize fuel o; pure (ansOpt .nat r)
  | .mapSize => do let r ← readMapSize fuel o; pure (ansOpt .nat r)
  | .binarySize => do let r ← readBinarySize fuel o; pure (ansOpt .nat r)
  | .binary => do let b ← readBinary; pure (.nat b)
  | .getPos => do let p ← getPosition; pure (.nat p)
  | .setPos q => do setPos q; pure .unit
  | .isEnd => do let b ← isEnd; pure (.bool b)

def mapRR (f : α → Ans) : RR α → Except Err (Ans × Nat)
  | .ok (v, p) => .ok (ansOpt f v, p)
  | .error e => .error e

/-- the string reader's method for a call (model of MsgPack/Reader.lean) -/
def callString (o : Opts) (bs : Bytes) (pos : Nat) : Call → Except Err (Ans × Nat)
  | .valueType => (Model.readValueType bs pos).map fun t => (.nat t, pos)
  | .skip => (Model.skip bs pos).map fun p => (.unit, p)
  | .nil => mapRR (fun _ => .unit) (Model.readNil o bs pos)
  | .int t => mapRR .int (Model.readInteger t o bs pos)
  | .f32 => mapRR .nat (Model.readF32 o bs pos)
  | .f64 => mapRR .nat (Model.readF64 o bs pos)
  | .str => mapRR .bytes (Model.readStr o bs pos)
  | .ts => mapRR (fun (s, n) => .ts s n) (Model.readTs o bs pos)
  | .arraySize => mapRR .nat (Model.readArraySize o bs pos)
  | .mapSize => mapRR .nat (Model.readMapSize o bs pos)
  | .binarySize => mapRR .nat (Model.readBinarySize o bs pos)
  | .binary => (stringReadBinary bs pos).map fun (b, p) => (.nat b, p)
  | .getPos => .ok (.nat pos, pos)
  | .setPos q => (stringSetPos bs q).map fun p => (.unit, p)
  | .isEnd => .ok (.bool (stringIsEnd bs pos), pos)

/-- a history of calls on ONE reader object; an exception ends the session (it propagates out of Load) -/
def histString (o : Opts) (bs : Bytes) : Nat → List Call → List (Except Err Ans)
  | _, [] => []
  | pos, c :: cs =>
    match callString o bs pos c with
    | .ok (a, p) => .ok a :: histString o bs p cs
    | .error e => [.error e]

def histStream (S : Src σ) (fuel : Nat) (o : Opts) : σ → List Call → List (Except Err Ans)
  | _, [] => []
  | s, c :: cs =>
    match run S (callProg fuel o c) s with
    | .ok (a, s') => .ok a :: histStream S fuel o s' cs
    | .error e => [.error e]

end BSVerif.MsgPack.StreamModel
