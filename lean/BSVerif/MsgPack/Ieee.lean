/-
  IEEE-754 binary32 <-> binary64 conversions on bit patterns (written from IEEE 754-2008 §5.4.2:
  "conversion to a narrower format rounds according to roundTiesToEven; conversion to a wider
  format is exact"; NaN handling as on x86-64 SSE2: payload kept left-aligned, quiet bit set).

  Used both by the Model (`static_cast<float>(double)`, `static_cast<double>(float)`) and by the
  Oracle. They are validated against the hardware by the correspondence run (every f32/f64 read op).
-/
namespace BSVerif.MsgPack.Ieee

/-- number of significant bits of `n` (0 for 0) -/
def bitLen (n : Nat) : Nat := if n = 0 then 0 else Nat.log2 n + 1

def isNaN32 (b : Nat) : Bool := b / 2 ^ 23 % 256 = 255 ∧ b % 2 ^ 23 ≠ 0
def isInf32 (b : Nat) : Bool := b / 2 ^ 23 % 256 = 255 ∧ b % 2 ^ 23 = 0
def isNaN64 (b : Nat) : Bool := b / 2 ^ 52 % 2048 = 2047 ∧ b % 2 ^ 52 ≠ 0
def isInf64 (b : Nat) : Bool := b / 2 ^ 52 % 2048 = 2047 ∧ b % 2 ^ 52 = 0

/-- binary32 -> binary64 (exact). -/
def f32ToF64 (b : Nat) : Nat :=
  let s := b / 2 ^ 31 % 2
  let e := b / 2 ^ 23 % 256
  let m := b % 2 ^ 23
  if e = 255 then
    if m = 0 then s * 2 ^ 63 + 2047 * 2 ^ 52
    else
      let m' := if m / 2 ^ 22 % 2 = 0 then m + 2 ^ 22 else m     -- signalling -> quiet
      s * 2 ^ 63 + 2047 * 2 ^ 52 + m' * 2 ^ 29
  else if e = 0 then
    if m = 0 then s * 2 ^ 63
    else
      -- subnormal: m * 2^-149, renormalised
      let k := bitLen m
      s * 2 ^ 63 + (k + 873) * 2 ^ 52 + (m - 2 ^ (k - 1)) * 2 ^ (53 - k)
  else s * 2 ^ 63 + (e + 896) * 2 ^ 52 + m * 2 ^ 29

/-- round-to-nearest-even of `sig / 2^shift` -/
def rne (sig shift : Nat) : Nat :=
  if shift = 0 then sig else
  let q := sig / 2 ^ shift
  let r := sig % 2 ^ shift
  let half := 2 ^ (shift - 1)
  if r > half ∨ (r = half ∧ q % 2 = 1) then q + 1 else q

/-- binary64 -> binary32, roundTiesToEven (overflow -> infinity, as the hardware does). -/
def f64ToF32 (b : Nat) : Nat :=
  let s := b / 2 ^ 63 % 2
  let e := b / 2 ^ 52 % 2048
  let m := b % 2 ^ 52
  if e = 2047 then
    if m = 0 then s * 2 ^ 31 + 255 * 2 ^ 23
    else
      let p := m / 2 ^ 29
      let p' := if p / 2 ^ 22 % 2 = 0 then p + 2 ^ 22 else p
      s * 2 ^ 31 + 255 * 2 ^ 23 + p'
  else if e = 0 then s * 2 ^ 31      -- zero and binary64 subnormals (< 2^-1022) round to zero
  else
    let sig := m + 2 ^ 52              -- value = sig * 2^(e - 1075), 53 significant bits
    -- biased binary32 exponent of the leading bit: (e - 1023) + 127
    if e ≥ 897 then
      -- normal candidate: keep 24 bits (drop 29)
      let q := rne sig 29              -- in [2^23, 2^24]
      let e32 := e - 896               -- ≥ 1
      let bits := (e32 - 1) * 2 ^ 23 + q
      if bits ≥ 255 * 2 ^ 23 then s * 2 ^ 31 + 255 * 2 ^ 23 else s * 2 ^ 31 + bits
    else
      -- subnormal candidate: unit 2^-149, value = sig * 2^(e-1075) -> shift = 926 - e  (≥ 30)
      let q := rne sig (926 - e)
      s * 2 ^ 31 + q

/-- largest finite binary32 as a binary64 pattern -/
def fltMaxAsF64 : Nat := 0x47EFFFFFE0000000

/-- `v >= -FLT_MAX && v <= FLT_MAX` for a binary64 pattern (false for NaN and infinities). -/
def inFloatRange (b : Nat) : Bool := b % 2 ^ 63 ≤ fltMaxAsF64

/-- the test of `Convert::Detail::To(double, float)`: `!std::isfinite(v) || (v >= -FLT_MAX && v <= FLT_MAX)` —
    infinities and NaN are values of every floating-point type and are handed to `static_cast<float>` as well -/
def toFloatOk (b : Nat) : Bool := isNaN64 b || isInf64 b || inFloatRange b

end BSVerif.MsgPack.Ieee
