/-
  ORACLE for C05 (reader part) / C06 / C07: judges an answer of the IMPLEMENTATION directly against
  the Spec (decodeToken / encodeAs / objects / timestamp layouts), independently of the Model.

  C06 (writer entry points): the bytes written must decode (Spec.decodeToken) to exactly the
      intended token with nothing left over, no format of the specification may encode that token
      in fewer bytes, memory and stream writer must agree; Timestamp payload must be the spec's
      32/64/96 layout (smallest that holds the value).
  C07 (one ReadValue / Read*Size): let `tok` be the token the Spec decodes at the position.
      * target compatible with `tok`, value in range  -> `ok value` and position behind the token
        (behind the header for array / map / bin);
      * compatible, value outside the target's range   -> Overflow error (ThrowError) / returned
        false with the value consumed (Skip);
      * not compatible                                 -> nil: returned false, consumed;
        otherwise MismatchedTypes (ThrowError) / returned false with the WHOLE object consumed
        (Skip; C05) — or a parsing error if that object is ill-formed;
      * no token at the position (empty, 0xC1, truncated) -> parsing error (under ThrowError a
        first byte of a foreign family may also be reported as MismatchedTypes).
  Library-defined compatibilities (documented behaviour, not MessagePack): integer targets accept
  booleans as 0/1; `bool` is the integer range 0..1; float targets accept both float widths only.
-/
import BSVerif.MsgPack.Spec
import BSVerif.MsgPack.Ieee
import BSVerif.Generated.MsgpackConsts

namespace BSVerif.MsgPack.Oracle
open BSVerif BSVerif.MsgPack.Spec BSVerif.Generated

inductive Verdict where
  | ok
  | known (cls : String)
  | bad (why : String)
  | nospec
  deriving Repr, DecidableEq

/-! ### writer -/

/-- what a writer entry point was asked to write -/
inductive WReq where
  | tok (t : Token)                 -- a complete token
  | binHeader (n : Nat)             -- BeginBinary(n): header of a bin token with n data bytes to follow
  | ts (s ns : Int)                 -- CBinTimestamp
  | tooLarge                        -- a count ≥ 2^32: no format can hold it, OutOfRange expected
  deriving Repr

/-- implementation answer of `mp.write` -/
inductive WAns where
  | bytes (b : Bytes) (same : Bool)    -- string-writer output, stream writer identical?
  | err (cls : String)
  | other
  deriving Repr

def judgeToken (t : Token) (b : Bytes) : Verdict :=
  match decodeToken b with
  | some (t', _, []) =>
    if t' ≠ t then .bad "written bytes decode to a different value"
    else if mostCompactB t b.length then .ok
    else .bad "a shorter format is able to hold the value"
  | some _ => .bad "written bytes are more than one token"
  | none => .bad "written bytes are not a well-formed token"

def judgeWrite (req : WReq) (a : WAns) : Verdict :=
  match req, a with
  | _, .other => .bad "unparsable answer"
  | _, .bytes _ false => .bad "memory and stream output differ"
  | .tooLarge, .err c => if c = "ser_out_of_range" then .ok else .bad "wrong error class for an unencodable size"
  | .tooLarge, .bytes _ _ => .bad "size ≥ 2^32 was written"
  | _, .err _ => .bad "writer failed on an encodable value"
  | .tok t, .bytes b true => judgeToken t b
  | .binHeader n, .bytes b true =>
    if n ≤ 70000 then judgeToken (.bin (List.replicate n 0)) (b ++ List.replicate n 0) |> fun v =>
      -- compactness was judged on header+data; the data part is the same for every format
      v
    else if b = 0xc6 :: beBytes 4 n then .ok else .bad "bin header of a long binary is not bin 32"
  | .ts s ns, .bytes b true =>
    if ns < 0 ∨ ns > Int.ofNat nsMax then .nospec      -- outside the writer's contract (bin_timestamp.h: "must not be larger than 999999999")
    else
    match decodeToken b with
    | some (.ext ty d, _, []) =>
      if ty ≠ timestampType then .bad "timestamp written with an ext type other than -1" else
      let want := encodeTimestamp s ns.toNat
      if d = want then
        if mostCompactB (.ext ty d) b.length then .ok else .bad "a shorter ext format is able to hold the timestamp"
      else if d.length = 12 ∧ want.length = 12 ∧ d = beBytes 8 (ofSigned 64 s) ++ beBytes 4 ns.toNat then
        .known "ts96-seconds-first-write"
      else if decodeTimestamp d = some (s, ns.toNat) then .bad "timestamp not in the smallest layout"
      else .bad "timestamp payload is not the spec layout of the value"
    | _ => .bad "timestamp is not a single ext token"

/-! ### reader -/

inductive Tgt where
  | nil | int (lo hi : Int) | f32 | f64 | str | ts | arr | map | bin
  deriving Repr, DecidableEq

inductive Val where
  | unit | int (v : Int) | bits (n : Nat) | bytes (b : Bytes) | ts (s ns : Int)
  deriving Repr, DecidableEq

inductive Ans where
  | ok (v : Val) (pos : Nat)
  | no (pos : Nat)
  | err (cls : String)
  | other
  deriving Repr, DecidableEq

/-- families whose first byte a target starts to read (anything else is a type mismatch) -/
def compatibleFamily : Tgt → Family → Bool
  | .nil, .nil => true
  | .int _ _, .unsignedInteger | .int _ _, .signedInteger | .int _ _, .boolean => true
  | .f32, .float | .f32, .double | .f64, .float | .f64, .double => true
  | .str, .string => true
  | .ts, .ext => true
  | .arr, .array => true
  | .map, .map => true
  | .bin, .binaryArray => true
  | _, _ => false

/-- expectation for a compatible token -/
inductive Exp where
  | value (p : Val → Bool) (pos : Nat)    -- returned true, value satisfies p, position
  | overflow (pos : Nat)                  -- value does not fit the target: overflow policy, value consumed up to pos
  | reject                                -- ill-formed content (e.g. invalid timestamp): parsing error
  | mismatch

/-- `after` = absolute position behind the token, `hdr` = absolute position behind its header -/
def expect (t : Tgt) (tok : Token) (after : Nat) : Exp :=
  match t, tok with
  | .nil, .nil => .value (· = .unit) after
  | .int lo hi, .int v => if lo ≤ v ∧ v ≤ hi then .value (· = .int v) after else .overflow after
  | .int _ _, .bool b => .value (· = .int (if b then 1 else 0)) after
  | .f32, .f32 b => .value (· = .bits b) after
  | .f32, .f64 b =>
    if Ieee.isNaN64 b then .value (fun v => match v with | .bits x => Ieee.isNaN32 x | _ => false) after
    else if Ieee.isInf64 b then .value (· = .bits (Ieee.f64ToF32 b)) after
    else if Ieee.inFloatRange b then .value (· = .bits (Ieee.f64ToF32 b)) after
    else .overflow after
  | .f64, .f64 b => .value (· = .bits b) after
  | .f64, .f32 b =>
    if Ieee.isNaN32 b then .value (fun v => match v with | .bits x => Ieee.isNaN64 x | _ => false) after
    else .value (· = .bits (Ieee.f32ToF64 b)) after
  | .str, .str d => .value (· = .bytes d) after
  | .ts, .ext ty d =>
    if ty = timestampType then
      match decodeTimestamp d with
      | some (s, ns) => .value (· = .ts s (Int.ofNat ns)) after
      | none => .reject
    else .mismatch
  | .arr, .array n => .value (· = .int (Int.ofNat n)) after
  | .map, .map n => .value (· = .int (Int.ofNat n)) after
  | .bin, .bin d => .value (· = .int (Int.ofNat d.length)) (after - d.length)
  | _, _ => .mismatch

/-- known deviations of the unchanged code that are recorded, not repaired -/
def knownRead (t : Tgt) (tok : Token) (after : Nat) (ovfThrow : Bool) (a : Ans) : Option String :=
  match t, tok with
  | .ts, .ext ty d =>
    if ty = timestampType ∧ d.length = 12 ∧
       a = .ok (.ts (toSigned 64 (beNat (d.take 8))) (toSigned 32 (beNat (d.drop 8)))) after then
      some "ts96-seconds-first-read"
    else if ty = timestampType ∧ d.length = 8 ∧ beNat d / 2 ^ 34 > nsMax ∧
       a = .ok (.ts (Int.ofNat (beNat d % 2 ^ 34)) (Int.ofNat (beNat d / 2 ^ 34))) after then
      some "ts-nanoseconds-not-validated"
    else none
  | _, _ => none

/-- bin target: only the header is read by ReadBinarySize (data presence is checked by ReadBinary) -/
def binHeader (inp : Bytes) : Option (Nat × Nat) :=
  match inp with
  | b :: r =>
    let f := formatOf b
    if f.family = .binaryArray then (takeN f.lenBytes r).map fun (n, _) => (beNat n, 1 + f.lenBytes) else none
  | [] => none

def judgeRead (t : Tgt) (ovfThrow misThrow : Bool) (bs : Bytes) (pre : Nat) (a : Ans) : Verdict :=
  let inp := bs.drop pre
  if a = .other then .bad "unparsable answer" else
  match (if t = .bin then binHeader inp else none) with
  | some (n, h) => if a = .ok (.int (Int.ofNat n)) (pre + h) then .ok else .bad "bin header not read as the spec defines"
  | none =>
  match decodeToken inp with
  | none =>
    if a = .err "parsing" then .ok
    else
      match inp with
      | b :: r =>
        -- a first byte of a foreign family (for a timestamp target also: an ext type other than −1) may be reported
        -- as MismatchedTypes before the rest of the token is examined
        let foreignExt : Bool := decide (t = .ts) && decide ((formatOf b).family = .ext) &&
          (match r[(formatOf b).lenBytes]? with | some ty => decide (toSigned 8 ty ≠ timestampType) | none => false)
        if misThrow ∧ a = .err "mismatched" ∧ (!(compatibleFamily t (formatOf b).family) ∨ foreignExt) then .ok
        else .bad "ill-formed or truncated token not rejected with a parsing error"
      | [] => .bad "empty input not rejected with a parsing error"
  | some (tok, _, rest) =>
    let after := bs.length - rest.length
    match knownRead t tok after ovfThrow a with
    | some c =>
      -- a recorded deviation: only if the Spec would indeed have demanded something else
      (match expect t tok after with
       | .value p pos => if (match a with | .ok v q => p v && decide (q = pos) | _ => false) then .ok else .known c
       | _ => .known c)
    | none =>
    match expect t tok after with
    | .value p pos =>
      (match a with
       | .ok v q => if ¬ p v then .bad "wrong value delivered" else if q ≠ pos then .bad "wrong position after the value" else .ok
       | _ => .bad "well-formed compatible value not loaded")
    | .overflow pos =>
      if ovfThrow then (if a = .err "overflow" then .ok else .bad "out-of-range value: Overflow error expected")
      else (if a = .no pos then .ok else .bad "out-of-range value under Skip: must return false having consumed exactly the value")
    | .reject => if a = .err "parsing" then .ok else .bad "invalid extension content not rejected with a parsing error"
    | .mismatch =>
      if tok = .nil then (if a = .no after then .ok else .bad "nil for a non-nil target: must return false having consumed it")
      else if misThrow then (if a = .err "mismatched" then .ok else .bad "MismatchedTypes error expected")
      else
        match objects 1 inp with
        | some r => if a = .no (bs.length - r.length) then .ok else .bad "mismatched value under Skip: exactly one object must be consumed"
        | none => if a = .err "parsing" then .ok else .bad "ill-formed object skipped without a parsing error"

/-- SkipValue: consumes exactly one well-formed object, otherwise parsing error -/
def judgeSkip (bs : Bytes) (pre : Nat) (a : Ans) : Verdict :=
  let inp := bs.drop pre
  match objects 1 inp with
  | some r => if a = .ok .unit (bs.length - r.length) then .ok else .bad "skip did not consume exactly one object"
  | none => if a = .err "parsing" then .ok else .bad "ill-formed object not rejected with a parsing error"

def familyCode : Family → Nat
  | .unknown => Msgpack.vtUnknown | .nil => Msgpack.vtNil | .boolean => Msgpack.vtBoolean
  | .unsignedInteger => Msgpack.vtUnsignedInteger | .signedInteger => Msgpack.vtSignedInteger
  | .float => Msgpack.vtFloat | .double => Msgpack.vtDouble | .string => Msgpack.vtString | .array => Msgpack.vtArray
  | .binaryArray => Msgpack.vtBinaryArray | .map => Msgpack.vtMap | .ext => Msgpack.vtExt | .timestamp => Msgpack.vtTimestamp

/-- ReadValueType: family of the first byte; ext with type −1 is Timestamp; position unchanged -/
def judgeType (bs : Bytes) (pre : Nat) (a : Ans) : Verdict :=
  match bs.drop pre with
  | [] => if a = .err "parsing" then .ok else .bad "empty input: parsing error expected"
  | b :: r =>
    let f := formatOf b
    if f.family = .ext then
      match r[f.lenBytes]? with
      | some ty =>
        let fam := if toSigned 8 ty = timestampType then Family.timestamp else Family.ext
        if a = .ok (.int (Int.ofNat (familyCode fam))) pre then .ok else .bad "wrong type reported for an ext value"
      | none => if a = .err "parsing" then .ok else .bad "truncated ext header: parsing error expected"
    else if a = .ok (.int (Int.ofNat (familyCode f.family))) pre then .ok else .bad "wrong type reported"

end BSVerif.MsgPack.Oracle
