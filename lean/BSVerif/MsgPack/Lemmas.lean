/-
  Helper lemmas for the MsgPack proofs (no property statements here):
  big-endian arithmetic, Memory::Reverse / PushValue / GetValue against the Spec's `beBytes` / `beNat`,
  `takeN`, list slicing.
-/
import BSVerif.MsgPack.Spec
import BSVerif.MsgPack.Reader

namespace BSVerif.MsgPack
open BSVerif BSVerif.MsgPack.Spec BSVerif.MsgPack.Model

def BytesOk (l : Bytes) : Prop := ∀ b ∈ l, b < 256
instance (l : Bytes) : Decidable (BytesOk l) := by unfold BytesOk; exact inferInstance

theorem BytesOk.append {a b : Bytes} (ha : BytesOk a) (hb : BytesOk b) : BytesOk (a ++ b) := by
  intro x hx; rcases List.mem_append.mp hx with h | h
  · exact ha x h
  · exact hb x h

theorem BytesOk.drop {l : Bytes} (h : BytesOk l) (n : Nat) : BytesOk (l.drop n) :=
  fun b hb => h b (List.mem_of_mem_drop hb)

theorem BytesOk.take {l : Bytes} (h : BytesOk l) (n : Nat) : BytesOk (l.take n) :=
  fun b hb => h b (List.mem_of_mem_take hb)

/-! ### beNat / beBytes -/

theorem beNat_foldl (acc : Nat) (l : Bytes) :
    List.foldl (fun a b => a * 256 + b) acc l = acc * 256 ^ l.length + beNat l := by
  induction l generalizing acc with
  | nil => simp [beNat]
  | cons x t ih =>
    simp only [List.foldl_cons, List.length_cons, beNat]
    rw [ih (acc * 256 + x), ih (0 * 256 + x)]
    simp [Nat.pow_succ, Nat.add_mul, Nat.mul_assoc, Nat.mul_comm 256]
    omega

theorem beNat_nil : beNat [] = 0 := rfl

theorem beNat_cons (x : Nat) (l : Bytes) : beNat (x :: l) = x * 256 ^ l.length + beNat l := by
  have := beNat_foldl x l
  simp only [beNat, List.foldl_cons] at *
  simpa using this

theorem beNat_append (a b : Bytes) : beNat (a ++ b) = beNat a * 256 ^ b.length + beNat b := by
  induction a with
  | nil => simp [beNat_nil]
  | cons x t ih =>
    simp only [List.cons_append, beNat_cons, ih, List.length_append, Nat.pow_add, Nat.add_mul, Nat.mul_assoc]
    omega

@[simp] theorem beBytes_length (k v : Nat) : (beBytes k v).length = k := by
  induction k with
  | zero => rfl
  | succ k ih => simp [beBytes, ih]

theorem beBytes_ok (k v : Nat) : BytesOk (beBytes k v) := by
  induction k with
  | zero => intro b hb; simp [beBytes] at hb
  | succ k ih =>
    intro b hb
    simp only [beBytes, List.mem_cons] at hb
    rcases hb with rfl | hb
    · exact Nat.mod_lt _ (by decide)
    · exact ih b hb

theorem beNat_beBytes_mod (k v : Nat) : beNat (beBytes k v) = v % 256 ^ k := by
  induction k with
  | zero => simp [beBytes, beNat_nil, Nat.mod_one]
  | succ k ih =>
    simp only [beBytes, beNat_cons, beBytes_length, ih]
    rw [Nat.pow_succ, Nat.mod_mul]
    rw [Nat.mul_comm (256 ^ k)]
    omega

theorem beNat_beBytes (k v : Nat) (h : v < 256 ^ k) : beNat (beBytes k v) = v := by
  rw [beNat_beBytes_mod, Nat.mod_eq_of_lt h]

theorem beNat_lt (l : Bytes) (h : BytesOk l) : beNat l < 256 ^ l.length := by
  induction l with
  | nil => simp [beNat_nil]
  | cons x t ih =>
    rw [beNat_cons, List.length_cons, Nat.pow_succ]
    have hx : x < 256 := h x (by simp)
    have ht := ih (fun b hb => h b (by simp [hb]))
    have : x * 256 ^ t.length + 256 ^ t.length ≤ 256 ^ t.length * 256 := by
      have : (x + 1) * 256 ^ t.length ≤ 256 * 256 ^ t.length := Nat.mul_le_mul_right _ (by omega)
      rw [Nat.add_mul, Nat.one_mul] at this
      rw [Nat.mul_comm (256 ^ t.length) 256]; exact this
    omega

/-! ### takeN -/

theorem takeN_append (d r : Bytes) : takeN d.length (d ++ r) = some (d, r) := by
  simp [takeN]

theorem takeN_append_len (k : Nat) (d r : Bytes) (h : d.length = k) : takeN k (d ++ r) = some (d, r) := by
  subst h; exact takeN_append d r

theorem takeN_beBytes (k v : Nat) (r : Bytes) : takeN k (beBytes k v ++ r) = some (beBytes k v, r) :=
  takeN_append_len k _ r (beBytes_length k v)

theorem takeN_none {n : Nat} {l : Bytes} (h : l.length < n) : takeN n l = none := by
  simp [takeN]; omega

theorem takeN_some {n : Nat} {l d r : Bytes} (h : takeN n l = some (d, r)) : l = d ++ r ∧ d.length = n := by
  unfold takeN at h
  split at h
  · rename_i hle
    simp only [Option.some.injEq, Prod.mk.injEq] at h
    obtain ⟨rfl, rfl⟩ := h
    exact ⟨(List.take_append_drop n l).symm, by simp; omega⟩
  · cases h

/-! ### Memory::Reverse, PushValue, GetValue -/

theorem leBytes_digits2 (a1 a0 : Nat) (h1 : a1 < 256) (h0 : a0 < 256) :
    leBytes 2 (a1 + a0 * 256) = [a1, a0] := by
  simp [leBytes]; omega

theorem leBytes_digits4 (a3 a2 a1 a0 : Nat) (h3 : a3 < 256) (h2 : a2 < 256) (h1 : a1 < 256) (h0 : a0 < 256) :
    leBytes 4 (a3 + a2 * 2 ^ 8 + a1 * 2 ^ 16 + a0 * 2 ^ 24) = [a3, a2, a1, a0] := by
  simp [leBytes, Nat.div_div_eq_div_mul]; omega

theorem leBytes_digits8 (a7 a6 a5 a4 a3 a2 a1 a0 : Nat) (h7 : a7 < 256) (h6 : a6 < 256) (h5 : a5 < 256) (h4 : a4 < 256)
    (h3 : a3 < 256) (h2 : a2 < 256) (h1 : a1 < 256) (h0 : a0 < 256) :
    leBytes 8 (a7 + a6 * 2 ^ 8 + a5 * 2 ^ 16 + a4 * 2 ^ 24 + a3 * 2 ^ 32 + a2 * 2 ^ 40 + a1 * 2 ^ 48 + a0 * 2 ^ 56)
      = [a7, a6, a5, a4, a3, a2, a1, a0] := by
  simp [leBytes, Nat.div_div_eq_div_mul]; omega

theorem pushBE_one (v : Nat) : pushBE 1 v = beBytes 1 v := by
  simp [pushBE, reverse, leBytes, beBytes]

theorem pushBE_two (v : Nat) : pushBE 2 v = beBytes 2 v := by
  have := leBytes_digits2 (v / 256 % 256) (v % 256) (Nat.mod_lt _ (by decide)) (Nat.mod_lt _ (by decide))
  simpa [pushBE, reverse, reverse16, beBytes] using this

theorem pushBE_four (v : Nat) : pushBE 4 v = beBytes 4 v := by
  have := leBytes_digits4 (v / 2 ^ 24 % 256) (v / 2 ^ 16 % 256) (v / 2 ^ 8 % 256) (v % 256)
    (Nat.mod_lt _ (by decide)) (Nat.mod_lt _ (by decide)) (Nat.mod_lt _ (by decide)) (Nat.mod_lt _ (by decide))
  simpa [pushBE, reverse, reverse32, beBytes] using this

theorem pushBE_eight (v : Nat) : pushBE 8 v = beBytes 8 v := by
  have := leBytes_digits8 (v / 2 ^ 56 % 256) (v / 2 ^ 48 % 256) (v / 2 ^ 40 % 256) (v / 2 ^ 32 % 256)
    (v / 2 ^ 24 % 256) (v / 2 ^ 16 % 256) (v / 2 ^ 8 % 256) (v % 256)
    (Nat.mod_lt _ (by decide)) (Nat.mod_lt _ (by decide)) (Nat.mod_lt _ (by decide)) (Nat.mod_lt _ (by decide))
    (Nat.mod_lt _ (by decide)) (Nat.mod_lt _ (by decide)) (Nat.mod_lt _ (by decide)) (Nat.mod_lt _ (by decide))
  simpa [pushBE, reverse, reverse64, beBytes] using this

def WidthOk (k : Nat) : Prop := k = 1 ∨ k = 2 ∨ k = 4 ∨ k = 8

/-- `PushValue` (NativeToBigEndian + object representation on the little-endian host) writes the
    big-endian bytes of the specification. -/
theorem pushBE_eq (k v : Nat) (hk : WidthOk k) : pushBE k v = beBytes k v := by
  rcases hk with rfl | rfl | rfl | rfl
  · exact pushBE_one v
  · exact pushBE_two v
  · exact pushBE_four v
  · exact pushBE_eight v

theorem loadBE_two (a b : Nat) (ha : a < 256) (hb : b < 256) : reverse 2 (leNat [a, b]) = beNat [a, b] := by
  simp [reverse, reverse16, leNat, beNat]; omega

theorem loadBE_four (a b c d : Nat) (ha : a < 256) (hb : b < 256) (hc : c < 256) (hd : d < 256) :
    reverse 4 (leNat [a, b, c, d]) = beNat [a, b, c, d] := by
  have e : leNat [a, b, c, d] = a + 256 * b + 65536 * c + 16777216 * d := by simp [leNat]; omega
  have h3 : (a + 256 * b + 65536 * c + 16777216 * d) / 2 ^ 24 % 256 = d := by omega
  have h2 : (a + 256 * b + 65536 * c + 16777216 * d) / 2 ^ 16 % 256 = c := by omega
  have h1 : (a + 256 * b + 65536 * c + 16777216 * d) / 2 ^ 8 % 256 = b := by omega
  have h0 : (a + 256 * b + 65536 * c + 16777216 * d) % 256 = a := by omega
  rw [e]
  simp only [reverse, reverse32, h0, h1, h2, h3]
  simp [beNat]; omega

theorem loadBE_eight (a b c d e f g h : Nat) (ha : a < 256) (hb : b < 256) (hc : c < 256) (hd : d < 256)
    (he : e < 256) (hf : f < 256) (hg : g < 256) (hh : h < 256) :
    reverse 8 (leNat [a, b, c, d, e, f, g, h]) = beNat [a, b, c, d, e, f, g, h] := by
  have eq : leNat [a, b, c, d, e, f, g, h] =
      a + 2 ^ 8 * b + 2 ^ 16 * c + 2 ^ 24 * d + 2 ^ 32 * e + 2 ^ 40 * f + 2 ^ 48 * g + 2 ^ 56 * h := by simp [leNat]; omega
  have h7 : (a + 2 ^ 8 * b + 2 ^ 16 * c + 2 ^ 24 * d + 2 ^ 32 * e + 2 ^ 40 * f + 2 ^ 48 * g + 2 ^ 56 * h) / 2 ^ 56 % 256 = h := by omega
  have h6 : (a + 2 ^ 8 * b + 2 ^ 16 * c + 2 ^ 24 * d + 2 ^ 32 * e + 2 ^ 40 * f + 2 ^ 48 * g + 2 ^ 56 * h) / 2 ^ 48 % 256 = g := by omega
  have h5 : (a + 2 ^ 8 * b + 2 ^ 16 * c + 2 ^ 24 * d + 2 ^ 32 * e + 2 ^ 40 * f + 2 ^ 48 * g + 2 ^ 56 * h) / 2 ^ 40 % 256 = f := by omega
  have h4 : (a + 2 ^ 8 * b + 2 ^ 16 * c + 2 ^ 24 * d + 2 ^ 32 * e + 2 ^ 40 * f + 2 ^ 48 * g + 2 ^ 56 * h) / 2 ^ 32 % 256 = e := by omega
  have h3 : (a + 2 ^ 8 * b + 2 ^ 16 * c + 2 ^ 24 * d + 2 ^ 32 * e + 2 ^ 40 * f + 2 ^ 48 * g + 2 ^ 56 * h) / 2 ^ 24 % 256 = d := by omega
  have h2 : (a + 2 ^ 8 * b + 2 ^ 16 * c + 2 ^ 24 * d + 2 ^ 32 * e + 2 ^ 40 * f + 2 ^ 48 * g + 2 ^ 56 * h) / 2 ^ 16 % 256 = c := by omega
  have h1 : (a + 2 ^ 8 * b + 2 ^ 16 * c + 2 ^ 24 * d + 2 ^ 32 * e + 2 ^ 40 * f + 2 ^ 48 * g + 2 ^ 56 * h) / 2 ^ 8 % 256 = b := by omega
  have h0 : (a + 2 ^ 8 * b + 2 ^ 16 * c + 2 ^ 24 * d + 2 ^ 32 * e + 2 ^ 40 * f + 2 ^ 48 * g + 2 ^ 56 * h) % 256 = a := by omega
  rw [eq]
  simp only [reverse, reverse64, h0, h1, h2, h3, h4, h5, h6, h7]
  simp [beNat]; omega

/-- native load + `BigEndianToNative` = big-endian value of the bytes -/
theorem loadBE_eq (k : Nat) (hk : WidthOk k) (l : Bytes) (hl : l.length = k) (hb : BytesOk l) :
    reverse k (leNat l) = beNat l := by
  rcases hk with rfl | rfl | rfl | rfl
  · match l, hl with
    | [a], _ => simp [reverse, leNat, beNat]
  · match l, hl, hb with
    | [a, b], _, hb => exact loadBE_two a b (hb a (by simp)) (hb b (by simp))
  · match l, hl, hb with
    | [a, b, c, d], _, hb => exact loadBE_four a b c d (hb a (by simp)) (hb b (by simp)) (hb c (by simp)) (hb d (by simp))
  · match l, hl, hb with
    | [a, b, c, d, e, f, g, h], _, hb =>
      exact loadBE_eight a b c d e f g h (hb a (by simp)) (hb b (by simp)) (hb c (by simp)) (hb d (by simp))
        (hb e (by simp)) (hb f (by simp)) (hb g (by simp)) (hb h (by simp))

theorem getElem?_eq_drop_head (bs : Bytes) (pos : Nat) : bs[pos]? = (bs.drop pos).head? := by
  simp [List.head?_drop]

/-- `GetValue<T>` in terms of the Spec's `takeN` / `beNat` on the remaining input. -/
theorem getValue_eq (k : Nat) (hk : WidthOk k) (bs : Bytes) (hb : BytesOk bs) (pos : Nat) :
    getValue k bs pos =
      match takeN k (bs.drop pos) with
      | some (d, _) => .ok (beNat d, pos + k)
      | none => .error .parsing := by
  unfold getValue
  by_cases h1 : k = 1
  · subst h1
    simp only [if_true]
    rw [getElem?_eq_drop_head]
    cases hd : bs.drop pos with
    | nil => simp [takeN]
    | cons x t => simp [takeN, beNat]
  · simp only [h1, if_false]
    unfold takeN
    simp only [List.length_drop]
    by_cases h2 : pos + k ≤ bs.length
    · have h3 : k ≤ bs.length - pos := by omega
      simp only [h2, h3, if_true]
      rw [loadBE_eq k hk _ (by simp; omega) ((hb.drop pos).take k)]
    · have h3 : ¬ k ≤ bs.length - pos := by
        rcases hk with rfl | rfl | rfl | rfl <;> omega
      simp [h2, h3]

end BSVerif.MsgPack
