/-
  MODEL of src/msgpack/msgpack_writers.cpp (CMsgPackStringWriter; CMsgPackStreamWriter is the same
  text with `put/write` instead of `push_back/append` — the harness compares the two byte for byte
  on every op) and of Memory::Reverse / NativeToBigEndian (conversion_detail/memory_utils.h).

  Branch for branch, AFTER the repair `fix: write signed integers … in the shorter 'uint N' format`.
  Integers are `Nat` / `Int` with explicit two's-complement images; the output is the list of
  bytes appended to the string / stream.
-/
import BSVerif.Basic

namespace BSVerif.MsgPack.Model
open BSVerif

/-! ### memory images on the little-endian host, Memory::Reverse -/

/-- object representation of a `k`-byte unsigned integer on the (little-endian) host -/
def leBytes : Nat → Nat → Bytes
  | 0, _ => []
  | k + 1, v => (v % 256) :: leBytes k (v / 256)

/-- value the host loads from a byte image -/
def leNat : Bytes → Nat
  | [] => 0
  | b :: r => b + 256 * leNat r

/-- `Memory::Reverse(uint16_t)` -/
def reverse16 (v : Nat) : Nat := v / 256 % 256 + (v % 256) * 256

/-- `Memory::Reverse(uint32_t)`: swap halves, then swap bytes inside each half -/
def reverse32 (v : Nat) : Nat :=
  v / 2 ^ 24 % 256 + (v / 2 ^ 16 % 256) * 2 ^ 8 + (v / 2 ^ 8 % 256) * 2 ^ 16 + (v % 256) * 2 ^ 24

/-- `Memory::Reverse(uint64_t)` -/
def reverse64 (v : Nat) : Nat :=
  v / 2 ^ 56 % 256 + (v / 2 ^ 48 % 256) * 2 ^ 8 + (v / 2 ^ 40 % 256) * 2 ^ 16 + (v / 2 ^ 32 % 256) * 2 ^ 24
  + (v / 2 ^ 24 % 256) * 2 ^ 32 + (v / 2 ^ 16 % 256) * 2 ^ 40 + (v / 2 ^ 8 % 256) * 2 ^ 48 + (v % 256) * 2 ^ 56

/-- `Memory::Reverse<T>` selected by `sizeof(T)`; the 1-byte overload is the identity -/
def reverse (k : Nat) (v : Nat) : Nat :=
  if k = 2 then reverse16 v else if k = 4 then reverse32 v else if k = 8 then reverse64 v else v

/-- `PushValue(out, T value)`: `NativeToBigEndian` then append `sizeof(T)` bytes of the object representation
    (little-endian host: `NativeToBigEndian = Reverse`). `v` is the unsigned image of the value. -/
def pushBE (k : Nat) (v : Nat) : Bytes := leBytes k (reverse k v)

/-- unsigned image of a signed `k`-byte value (`static_cast` to the unsigned type / to `char`) -/
def uimg (k : Nat) (v : Int) : Nat := (v % Int.ofNat (256 ^ k)).toNat

/-! ### CMsgPackStringWriter -/

def writeNil : Bytes := [0xC0]

def writeBool (b : Bool) : Bytes := [if b then 0xC3 else 0xC2]

def writeU8 (v : Nat) : Bytes := if v ≥ 128 then [0xCC, v] else [v]

def writeU16 (v : Nat) : Bytes := if v > 255 then 0xCD :: pushBE 2 v else writeU8 v

def writeU32 (v : Nat) : Bytes := if v > 65535 then 0xCE :: pushBE 4 v else writeU16 v

def writeU64 (v : Nat) : Bytes := if v > 4294967295 then 0xCF :: pushBE 8 v else writeU32 v

def writeI8 (v : Int) : Bytes := if v ≥ -32 then [uimg 1 v] else [0xD0, uimg 1 v]

def writeI16 (v : Int) : Bytes :=
  if v > 127 ∧ v ≤ 255 then [0xCC, uimg 1 v]
  else if v < -128 ∨ v > 127 then 0xD1 :: pushBE 2 (uimg 2 v)
  else writeI8 v

def writeI32 (v : Int) : Bytes :=
  if v > 32767 ∧ v ≤ 65535 then 0xCD :: pushBE 2 (uimg 2 v)
  else if v < -32768 ∨ v > 32767 then 0xD2 :: pushBE 4 (uimg 4 v)
  else writeI16 v

def writeI64 (v : Int) : Bytes :=
  if v > 2147483647 ∧ v ≤ 4294967295 then 0xCE :: pushBE 4 (uimg 4 v)
  else if v < -2147483648 ∨ v > 2147483647 then 0xD3 :: pushBE 8 (uimg 8 v)
  else writeI32 v

/-- `memcpy` of the float into `uint32_t`, i.e. the bit pattern -/
def writeF32 (bits : Nat) : Bytes := 0xCA :: pushBE 4 bits

def writeF64 (bits : Nat) : Bytes := 0xCB :: pushBE 8 bits

inductive WErr where
  | outOfRange       -- SerializationException(OutOfRange)
  deriving Repr, DecidableEq

/-- `WriteValue(std::string_view)`; `d.length` is `value.size()` (a `size_t`, < 2^64) -/
def writeStr (d : Bytes) : Except WErr Bytes :=
  let n := d.length
  if n < 32 then .ok ((n ||| 0xA0) :: d)
  else if n ≤ 255 then .ok (0xD9 :: n :: d)
  else if n ≤ 65535 then .ok (0xDA :: pushBE 2 n ++ d)
  else if n ≤ 4294967295 then .ok (0xDB :: pushBE 4 n ++ d)
  else .error .outOfRange

/-- `WriteValue(const CBinTimestamp&)`: `s` is `Seconds` (int64), `ns` is `Nanoseconds` (int32). -/
def writeTs (s ns : Int) : Bytes :=
  if uimg 8 s / 2 ^ 34 = 0 then
    -- (uint64(ns) << 34) | uint64(s): the low 34 bits of the shifted value are zero and s < 2^34
    let data64 := (uimg 8 ns * 2 ^ 34) % 2 ^ 64 + uimg 8 s
    if data64 / 2 ^ 32 = 0 then 0xD6 :: 0xFF :: pushBE 4 (data64 % 2 ^ 32)
    else 0xD7 :: 0xFF :: pushBE 8 data64
  else 0xC7 :: 12 :: 0xFF :: (pushBE 8 (uimg 8 s) ++ pushBE 4 (uimg 4 ns))

def beginArray (n : Nat) : Except WErr Bytes :=
  if n < 16 then .ok [n ||| 0x90]
  else if n ≤ 65535 then .ok (0xDC :: pushBE 2 n)
  else if n ≤ 4294967295 then .ok (0xDD :: pushBE 4 n)
  else .error .outOfRange

def beginMap (n : Nat) : Except WErr Bytes :=
  if n < 16 then .ok [n ||| 0x80]
  else if n ≤ 65535 then .ok (0xDE :: pushBE 2 n)
  else if n ≤ 4294967295 then .ok (0xDF :: pushBE 4 n)
  else .error .outOfRange

def beginBinary (n : Nat) : Except WErr Bytes :=
  if n ≤ 255 then .ok [0xC4, n]
  else if n ≤ 65535 then .ok (0xC5 :: pushBE 2 n)
  else if n ≤ 4294967295 then .ok (0xC6 :: pushBE 4 n)
  else .error .outOfRange

end BSVerif.MsgPack.Model
