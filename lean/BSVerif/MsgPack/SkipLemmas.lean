/-
  Helper lemmas for the skip / mismatch proofs (no property statements):
  canonical forms of the Spec's sub-decoders, the header step of SkipValueImpl against
  Spec.decodeToken, `objects` (balance counter) algebra, and the equivalence
  "SkipValueImpl = consume one object".
-/
import BSVerif.MsgPack.TableLemmas
set_option linter.unusedSimpArgs false
set_option linter.unusedVariables false

namespace BSVerif.MsgPack
open BSVerif BSVerif.MsgPack.Spec BSVerif.MsgPack.Model BSVerif.Generated

theorem takeN_eq (k : Nat) (r : Bytes) : takeN k r = if k ≤ r.length then some (r.take k, r.drop k) else none := rfl

theorem decLenData_canon (k : Nat) (r : Bytes) :
    decLenData k r =
      if k + beNat (r.take k) ≤ r.length then
        some ((r.drop k).take (beNat (r.take k)), r.drop (k + beNat (r.take k)))
      else none := by
  unfold decLenData takeN
  by_cases c1 : k ≤ r.length
  · simp only [c1, if_true, Option.bind_some, List.length_drop]
    by_cases c2 : k + beNat (r.take k) ≤ r.length
    · have : beNat (r.take k) ≤ r.length - k := by omega
      simp [c2, this, List.drop_drop]
    · have : ¬ beNat (r.take k) ≤ r.length - k := by omega
      simp [c2, this]
  · have : ¬ k + beNat (r.take k) ≤ r.length := by omega
    simp [c1, this]

theorem decExt_canon (f : Format) (k : Nat) (r : Bytes) :
    decExt f k r =
      if k + 1 + beNat (r.take k) ≤ r.length then
        some (.ext (toSigned 8 (beNat ((r.drop k).take 1))) ((r.drop (k + 1)).take (beNat (r.take k))), f,
              r.drop (k + 1 + beNat (r.take k)))
      else none := by
  unfold decExt takeN
  by_cases c1 : k ≤ r.length
  · simp only [c1, if_true, Option.bind_some, List.length_drop]
    by_cases c2 : 1 ≤ r.length - k
    · simp only [c2, if_true, Option.bind_some, List.length_drop, List.drop_drop]
      by_cases c3 : k + 1 + beNat (r.take k) ≤ r.length
      · have : beNat (r.take k) ≤ r.length - (k + 1) := by omega
        simp [c3, this]
      · have : ¬ beNat (r.take k) ≤ r.length - (k + 1) := by omega
        simp [c3, this]
    · have : ¬ k + 1 + beNat (r.take k) ≤ r.length := by omega
      simp [c2, this]
  · have : ¬ k + 1 + beNat (r.take k) ≤ r.length := by omega
    simp [c1, this]

theorem decFixExt_canon (f : Format) (n : Nat) (r : Bytes) :
    decFixExt f n r =
      if 1 + n ≤ r.length then
        some (.ext (toSigned 8 (beNat (r.take 1))) ((r.drop 1).take n), f, r.drop (1 + n))
      else none := by
  unfold decFixExt takeN
  by_cases c1 : 1 ≤ r.length
  · simp only [c1, if_true, Option.bind_some, List.length_drop]
    by_cases c2 : 1 + n ≤ r.length
    · have : n ≤ r.length - 1 := by omega
      simp [c2, this, Nat.add_comm]
      omega
    · have : ¬ n ≤ r.length - 1 := by omega
      simp [c2, this]
  · have : ¬ 1 + n ≤ r.length := by omega
    simp [c1, this]

/-- children loop count of SkipValueImpl for a token -/
def kids : Token → Nat
  | .array n => n
  | .map n => n
  | _ => 0

/-- what the header step must return for a decoded token: position behind header + flat payload, loop count -/
def hdrResult (bs : Bytes) (d : Option (Token × Format × Bytes)) : Except Err (Nat × Nat) :=
  match d with
  | some (tok, _, rest) => .ok (bs.length - rest.length, kids tok)
  | none => .error .parsing

theorem skipBody_spec (f : Format) (b : Nat) (hf : formatOf b = f) (bs : Bytes) (hb : BytesOk bs) (pos : Nat) (r : Bytes)
    (h2 : bs.drop (pos + 1) = r) (h3 : bs.length = pos + 1 + r.length) :
    skipBody ⟨Oracle.familyCode f.family, f.embeddedLen b, f.fixedBody, f.lenBytes⟩ bs (pos + 1) =
      hdrResult bs (decodeToken (b :: r)) := by
  have g1 := getValue_eq 1 (by simp [WidthOk]) bs hb (pos + 1)
  have g2 := getValue_eq 2 (by simp [WidthOk]) bs hb (pos + 1)
  have g4 := getValue_eq 4 (by simp [WidthOk]) bs hb (pos + 1)
  rw [h2] at g1 g2 g4
  cases f
  case posFixint =>
    simp [decodeToken, hf, skipBody, hdrResult, Format.family, Format.embeddedLen, Format.fixextLen, Format.fixedBody, Format.lenBytes, Oracle.familyCode, Msgpack.vtNil, Msgpack.vtBoolean, Msgpack.vtUnsignedInteger, Msgpack.vtSignedInteger, Msgpack.vtFloat, Msgpack.vtDouble, Msgpack.vtArray, Msgpack.vtMap, Msgpack.vtUnknown, Msgpack.vtString, Msgpack.vtBinaryArray, Msgpack.vtExt, kids, h3, decLenData_canon, decUInt, decSInt, decExt_canon, decFixExt_canon, readExtSize, g1, g2, g4, takeN_eq, Except.map]
    all_goals (try omega)
  case negFixint =>
    simp [decodeToken, hf, skipBody, hdrResult, Format.family, Format.embeddedLen, Format.fixextLen, Format.fixedBody, Format.lenBytes, Oracle.familyCode, Msgpack.vtNil, Msgpack.vtBoolean, Msgpack.vtUnsignedInteger, Msgpack.vtSignedInteger, Msgpack.vtFloat, Msgpack.vtDouble, Msgpack.vtArray, Msgpack.vtMap, Msgpack.vtUnknown, Msgpack.vtString, Msgpack.vtBinaryArray, Msgpack.vtExt, kids, h3, decLenData_canon, decUInt, decSInt, decExt_canon, decFixExt_canon, readExtSize, g1, g2, g4, takeN_eq, Except.map]
    all_goals (try omega)
  case nil =>
    simp [decodeToken, hf, skipBody, hdrResult, Format.family, Format.embeddedLen, Format.fixextLen, Format.fixedBody, Format.lenBytes, Oracle.familyCode, Msgpack.vtNil, Msgpack.vtBoolean, Msgpack.vtUnsignedInteger, Msgpack.vtSignedInteger, Msgpack.vtFloat, Msgpack.vtDouble, Msgpack.vtArray, Msgpack.vtMap, Msgpack.vtUnknown, Msgpack.vtString, Msgpack.vtBinaryArray, Msgpack.vtExt, kids, h3, decLenData_canon, decUInt, decSInt, decExt_canon, decFixExt_canon, readExtSize, g1, g2, g4, takeN_eq, Except.map]
    all_goals (try omega)
  case false_ =>
    simp [decodeToken, hf, skipBody, hdrResult, Format.family, Format.embeddedLen, Format.fixextLen, Format.fixedBody, Format.lenBytes, Oracle.familyCode, Msgpack.vtNil, Msgpack.vtBoolean, Msgpack.vtUnsignedInteger, Msgpack.vtSignedInteger, Msgpack.vtFloat, Msgpack.vtDouble, Msgpack.vtArray, Msgpack.vtMap, Msgpack.vtUnknown, Msgpack.vtString, Msgpack.vtBinaryArray, Msgpack.vtExt, kids, h3, decLenData_canon, decUInt, decSInt, decExt_canon, decFixExt_canon, readExtSize, g1, g2, g4, takeN_eq, Except.map]
    all_goals (try omega)
  case true_ =>
    simp [decodeToken, hf, skipBody, hdrResult, Format.family, Format.embeddedLen, Format.fixextLen, Format.fixedBody, Format.lenBytes, Oracle.familyCode, Msgpack.vtNil, Msgpack.vtBoolean, Msgpack.vtUnsignedInteger, Msgpack.vtSignedInteger, Msgpack.vtFloat, Msgpack.vtDouble, Msgpack.vtArray, Msgpack.vtMap, Msgpack.vtUnknown, Msgpack.vtString, Msgpack.vtBinaryArray, Msgpack.vtExt, kids, h3, decLenData_canon, decUInt, decSInt, decExt_canon, decFixExt_canon, readExtSize, g1, g2, g4, takeN_eq, Except.map]
    all_goals (try omega)
  case neverUsed =>
    simp [decodeToken, hf, skipBody, hdrResult, Format.family, Format.embeddedLen, Format.fixextLen, Format.fixedBody, Format.lenBytes, Oracle.familyCode, Msgpack.vtNil, Msgpack.vtBoolean, Msgpack.vtUnsignedInteger, Msgpack.vtSignedInteger, Msgpack.vtFloat, Msgpack.vtDouble, Msgpack.vtArray, Msgpack.vtMap, Msgpack.vtUnknown, Msgpack.vtString, Msgpack.vtBinaryArray, Msgpack.vtExt, kids, h3, decLenData_canon, decUInt, decSInt, decExt_canon, decFixExt_canon, readExtSize, g1, g2, g4, takeN_eq, Except.map]
    all_goals (try omega)
  case fixmap =>
    simp [decodeToken, hf, skipBody, hdrResult, Format.family, Format.embeddedLen, Format.fixextLen, Format.fixedBody, Format.lenBytes, Oracle.familyCode, Msgpack.vtNil, Msgpack.vtBoolean, Msgpack.vtUnsignedInteger, Msgpack.vtSignedInteger, Msgpack.vtFloat, Msgpack.vtDouble, Msgpack.vtArray, Msgpack.vtMap, Msgpack.vtUnknown, Msgpack.vtString, Msgpack.vtBinaryArray, Msgpack.vtExt, kids, h3, decLenData_canon, decUInt, decSInt, decExt_canon, decFixExt_canon, readExtSize, g1, g2, g4, takeN_eq, Except.map]
    by_cases c : b - 128 = 0 <;> simp [c] <;> omega
  case fixarray =>
    simp [decodeToken, hf, skipBody, hdrResult, Format.family, Format.embeddedLen, Format.fixextLen, Format.fixedBody, Format.lenBytes, Oracle.familyCode, Msgpack.vtNil, Msgpack.vtBoolean, Msgpack.vtUnsignedInteger, Msgpack.vtSignedInteger, Msgpack.vtFloat, Msgpack.vtDouble, Msgpack.vtArray, Msgpack.vtMap, Msgpack.vtUnknown, Msgpack.vtString, Msgpack.vtBinaryArray, Msgpack.vtExt, kids, h3, decLenData_canon, decUInt, decSInt, decExt_canon, decFixExt_canon, readExtSize, g1, g2, g4, takeN_eq, Except.map]
    by_cases c : b - 144 = 0 <;> simp [c] <;> omega
  case fixstr =>
    simp [decodeToken, hf, skipBody, hdrResult, Format.family, Format.embeddedLen, Format.fixextLen, Format.fixedBody, Format.lenBytes, Oracle.familyCode, Msgpack.vtNil, Msgpack.vtBoolean, Msgpack.vtUnsignedInteger, Msgpack.vtSignedInteger, Msgpack.vtFloat, Msgpack.vtDouble, Msgpack.vtArray, Msgpack.vtMap, Msgpack.vtUnknown, Msgpack.vtString, Msgpack.vtBinaryArray, Msgpack.vtExt, kids, h3, decLenData_canon, decUInt, decSInt, decExt_canon, decFixExt_canon, readExtSize, g1, g2, g4, takeN_eq, Except.map]
    by_cases c : b - 160 = 0 <;> by_cases c2 : b ≤ r.length + 160 <;> simp [c, c2] <;> omega
  case uint8 =>
    simp [decodeToken, hf, skipBody, hdrResult, Format.family, Format.embeddedLen, Format.fixextLen, Format.fixedBody, Format.lenBytes, Oracle.familyCode, Msgpack.vtNil, Msgpack.vtBoolean, Msgpack.vtUnsignedInteger, Msgpack.vtSignedInteger, Msgpack.vtFloat, Msgpack.vtDouble, Msgpack.vtArray, Msgpack.vtMap, Msgpack.vtUnknown, Msgpack.vtString, Msgpack.vtBinaryArray, Msgpack.vtExt, kids, h3, decLenData_canon, decUInt, decSInt, decExt_canon, decFixExt_canon, readExtSize, g1, g2, g4, takeN_eq, Except.map]
    by_cases c1 : 1 ≤ r.length <;> simp [c1] <;> omega
  case uint16 =>
    simp [decodeToken, hf, skipBody, hdrResult, Format.family, Format.embeddedLen, Format.fixextLen, Format.fixedBody, Format.lenBytes, Oracle.familyCode, Msgpack.vtNil, Msgpack.vtBoolean, Msgpack.vtUnsignedInteger, Msgpack.vtSignedInteger, Msgpack.vtFloat, Msgpack.vtDouble, Msgpack.vtArray, Msgpack.vtMap, Msgpack.vtUnknown, Msgpack.vtString, Msgpack.vtBinaryArray, Msgpack.vtExt, kids, h3, decLenData_canon, decUInt, decSInt, decExt_canon, decFixExt_canon, readExtSize, g1, g2, g4, takeN_eq, Except.map]
    by_cases c1 : 2 ≤ r.length <;> simp [c1] <;> omega
  case uint32 =>
    simp [decodeToken, hf, skipBody, hdrResult, Format.family, Format.embeddedLen, Format.fixextLen, Format.fixedBody, Format.lenBytes, Oracle.familyCode, Msgpack.vtNil, Msgpack.vtBoolean, Msgpack.vtUnsignedInteger, Msgpack.vtSignedInteger, Msgpack.vtFloat, Msgpack.vtDouble, Msgpack.vtArray, Msgpack.vtMap, Msgpack.vtUnknown, Msgpack.vtString, Msgpack.vtBinaryArray, Msgpack.vtExt, kids, h3, decLenData_canon, decUInt, decSInt, decExt_canon, decFixExt_canon, readExtSize, g1, g2, g4, takeN_eq, Except.map]
    by_cases c1 : 4 ≤ r.length <;> simp [c1] <;> omega
  case uint64 =>
    simp [decodeToken, hf, skipBody, hdrResult, Format.family, Format.embeddedLen, Format.fixextLen, Format.fixedBody, Format.lenBytes, Oracle.familyCode, Msgpack.vtNil, Msgpack.vtBoolean, Msgpack.vtUnsignedInteger, Msgpack.vtSignedInteger, Msgpack.vtFloat, Msgpack.vtDouble, Msgpack.vtArray, Msgpack.vtMap, Msgpack.vtUnknown, Msgpack.vtString, Msgpack.vtBinaryArray, Msgpack.vtExt, kids, h3, decLenData_canon, decUInt, decSInt, decExt_canon, decFixExt_canon, readExtSize, g1, g2, g4, takeN_eq, Except.map]
    by_cases c1 : 8 ≤ r.length <;> simp [c1] <;> omega
  case int8 =>
    simp [decodeToken, hf, skipBody, hdrResult, Format.family, Format.embeddedLen, Format.fixextLen, Format.fixedBody, Format.lenBytes, Oracle.familyCode, Msgpack.vtNil, Msgpack.vtBoolean, Msgpack.vtUnsignedInteger, Msgpack.vtSignedInteger, Msgpack.vtFloat, Msgpack.vtDouble, Msgpack.vtArray, Msgpack.vtMap, Msgpack.vtUnknown, Msgpack.vtString, Msgpack.vtBinaryArray, Msgpack.vtExt, kids, h3, decLenData_canon, decUInt, decSInt, decExt_canon, decFixExt_canon, readExtSize, g1, g2, g4, takeN_eq, Except.map]
    by_cases c1 : 1 ≤ r.length <;> simp [c1] <;> omega
  case int16 =>
    simp [decodeToken, hf, skipBody, hdrResult, Format.family, Format.embeddedLen, Format.fixextLen, Format.fixedBody, Format.lenBytes, Oracle.familyCode, Msgpack.vtNil, Msgpack.vtBoolean, Msgpack.vtUnsignedInteger, Msgpack.vtSignedInteger, Msgpack.vtFloat, Msgpack.vtDouble, Msgpack.vtArray, Msgpack.vtMap, Msgpack.vtUnknown, Msgpack.vtString, Msgpack.vtBinaryArray, Msgpack.vtExt, kids, h3, decLenData_canon, decUInt, decSInt, decExt_canon, decFixExt_canon, readExtSize, g1, g2, g4, takeN_eq, Except.map]
    by_cases c1 : 2 ≤ r.length <;> simp [c1] <;> omega
  case int32 =>
    simp [decodeToken, hf, skipBody, hdrResult, Format.family, Format.embeddedLen, Format.fixextLen, Format.fixedBody, Format.lenBytes, Oracle.familyCode, Msgpack.vtNil, Msgpack.vtBoolean, Msgpack.vtUnsignedInteger, Msgpack.vtSignedInteger, Msgpack.vtFloat, Msgpack.vtDouble, Msgpack.vtArray, Msgpack.vtMap, Msgpack.vtUnknown, Msgpack.vtString, Msgpack.vtBinaryArray, Msgpack.vtExt, kids, h3, decLenData_canon, decUInt, decSInt, decExt_canon, decFixExt_canon, readExtSize, g1, g2, g4, takeN_eq, Except.map]
    by_cases c1 : 4 ≤ r.length <;> simp [c1] <;> omega
  case int64 =>
    simp [decodeToken, hf, skipBody, hdrResult, Format.family, Format.embeddedLen, Format.fixextLen, Format.fixedBody, Format.lenBytes, Oracle.familyCode, Msgpack.vtNil, Msgpack.vtBoolean, Msgpack.vtUnsignedInteger, Msgpack.vtSignedInteger, Msgpack.vtFloat, Msgpack.vtDouble, Msgpack.vtArray, Msgpack.vtMap, Msgpack.vtUnknown, Msgpack.vtString, Msgpack.vtBinaryArray, Msgpack.vtExt, kids, h3, decLenData_canon, decUInt, decSInt, decExt_canon, decFixExt_canon, readExtSize, g1, g2, g4, takeN_eq, Except.map]
    by_cases c1 : 8 ≤ r.length <;> simp [c1] <;> omega
  case float32 =>
    simp [decodeToken, hf, skipBody, hdrResult, Format.family, Format.embeddedLen, Format.fixextLen, Format.fixedBody, Format.lenBytes, Oracle.familyCode, Msgpack.vtNil, Msgpack.vtBoolean, Msgpack.vtUnsignedInteger, Msgpack.vtSignedInteger, Msgpack.vtFloat, Msgpack.vtDouble, Msgpack.vtArray, Msgpack.vtMap, Msgpack.vtUnknown, Msgpack.vtString, Msgpack.vtBinaryArray, Msgpack.vtExt, kids, h3, decLenData_canon, decUInt, decSInt, decExt_canon, decFixExt_canon, readExtSize, g1, g2, g4, takeN_eq, Except.map]
    by_cases c1 : 4 ≤ r.length <;> simp [c1] <;> omega
  case float64 =>
    simp [decodeToken, hf, skipBody, hdrResult, Format.family, Format.embeddedLen, Format.fixextLen, Format.fixedBody, Format.lenBytes, Oracle.familyCode, Msgpack.vtNil, Msgpack.vtBoolean, Msgpack.vtUnsignedInteger, Msgpack.vtSignedInteger, Msgpack.vtFloat, Msgpack.vtDouble, Msgpack.vtArray, Msgpack.vtMap, Msgpack.vtUnknown, Msgpack.vtString, Msgpack.vtBinaryArray, Msgpack.vtExt, kids, h3, decLenData_canon, decUInt, decSInt, decExt_canon, decFixExt_canon, readExtSize, g1, g2, g4, takeN_eq, Except.map]
    by_cases c1 : 8 ≤ r.length <;> simp [c1] <;> omega
  case str8 =>
    simp [decodeToken, hf, skipBody, hdrResult, Format.family, Format.embeddedLen, Format.fixextLen, Format.fixedBody, Format.lenBytes, Oracle.familyCode, Msgpack.vtNil, Msgpack.vtBoolean, Msgpack.vtUnsignedInteger, Msgpack.vtSignedInteger, Msgpack.vtFloat, Msgpack.vtDouble, Msgpack.vtArray, Msgpack.vtMap, Msgpack.vtUnknown, Msgpack.vtString, Msgpack.vtBinaryArray, Msgpack.vtExt, kids, h3, decLenData_canon, decUInt, decSInt, decExt_canon, decFixExt_canon, readExtSize, g1, g2, g4, takeN_eq, Except.map]
    by_cases c1 : 1 ≤ r.length
    · by_cases c2 : 1 + beNat (List.take 1 r) ≤ r.length <;> simp [c1, c2] <;> omega
    · have c2 : ¬ 1 + beNat (List.take 1 r) ≤ r.length := by omega
      simp [c1, c2]
  case str16 =>
    simp [decodeToken, hf, skipBody, hdrResult, Format.family, Format.embeddedLen, Format.fixextLen, Format.fixedBody, Format.lenBytes, Oracle.familyCode, Msgpack.vtNil, Msgpack.vtBoolean, Msgpack.vtUnsignedInteger, Msgpack.vtSignedInteger, Msgpack.vtFloat, Msgpack.vtDouble, Msgpack.vtArray, Msgpack.vtMap, Msgpack.vtUnknown, Msgpack.vtString, Msgpack.vtBinaryArray, Msgpack.vtExt, kids, h3, decLenData_canon, decUInt, decSInt, decExt_canon, decFixExt_canon, readExtSize, g1, g2, g4, takeN_eq, Except.map]
    by_cases c1 : 2 ≤ r.length
    · by_cases c2 : 2 + beNat (List.take 2 r) ≤ r.length <;> simp [c1, c2] <;> omega
    · have c2 : ¬ 2 + beNat (List.take 2 r) ≤ r.length := by omega
      simp [c1, c2]
  case str32 =>
    simp [decodeToken, hf, skipBody, hdrResult, Format.family, Format.embeddedLen, Format.fixextLen, Format.fixedBody, Format.lenBytes, Oracle.familyCode, Msgpack.vtNil, Msgpack.vtBoolean, Msgpack.vtUnsignedInteger, Msgpack.vtSignedInteger, Msgpack.vtFloat, Msgpack.vtDouble, Msgpack.vtArray, Msgpack.vtMap, Msgpack.vtUnknown, Msgpack.vtString, Msgpack.vtBinaryArray, Msgpack.vtExt, kids, h3, decLenData_canon, decUInt, decSInt, decExt_canon, decFixExt_canon, readExtSize, g1, g2, g4, takeN_eq, Except.map]
    by_cases c1 : 4 ≤ r.length
    · by_cases c2 : 4 + beNat (List.take 4 r) ≤ r.length <;> simp [c1, c2] <;> omega
    · have c2 : ¬ 4 + beNat (List.take 4 r) ≤ r.length := by omega
      simp [c1, c2]
  case bin8 =>
    simp [decodeToken, hf, skipBody, hdrResult, Format.family, Format.embeddedLen, Format.fixextLen, Format.fixedBody, Format.lenBytes, Oracle.familyCode, Msgpack.vtNil, Msgpack.vtBoolean, Msgpack.vtUnsignedInteger, Msgpack.vtSignedInteger, Msgpack.vtFloat, Msgpack.vtDouble, Msgpack.vtArray, Msgpack.vtMap, Msgpack.vtUnknown, Msgpack.vtString, Msgpack.vtBinaryArray, Msgpack.vtExt, kids, h3, decLenData_canon, decUInt, decSInt, decExt_canon, decFixExt_canon, readExtSize, g1, g2, g4, takeN_eq, Except.map]
    by_cases c1 : 1 ≤ r.length
    · by_cases c2 : 1 + beNat (List.take 1 r) ≤ r.length <;> simp [c1, c2] <;> omega
    · have c2 : ¬ 1 + beNat (List.take 1 r) ≤ r.length := by omega
      simp [c1, c2]
  case bin16 =>
    simp [decodeToken, hf, skipBody, hdrResult, Format.family, Format.embeddedLen, Format.fixextLen, Format.fixedBody, Format.lenBytes, Oracle.familyCode, Msgpack.vtNil, Msgpack.vtBoolean, Msgpack.vtUnsignedInteger, Msgpack.vtSignedInteger, Msgpack.vtFloat, Msgpack.vtDouble, Msgpack.vtArray, Msgpack.vtMap, Msgpack.vtUnknown, Msgpack.vtString, Msgpack.vtBinaryArray, Msgpack.vtExt, kids, h3, decLenData_canon, decUInt, decSInt, decExt_canon, decFixExt_canon, readExtSize, g1, g2, g4, takeN_eq, Except.map]
    by_cases c1 : 2 ≤ r.length
    · by_cases c2 : 2 + beNat (List.take 2 r) ≤ r.length <;> simp [c1, c2] <;> omega
    · have c2 : ¬ 2 + beNat (List.take 2 r) ≤ r.length := by omega
      simp [c1, c2]
  case bin32 =>
    simp [decodeToken, hf, skipBody, hdrResult, Format.family, Format.embeddedLen, Format.fixextLen, Format.fixedBody, Format.lenBytes, Oracle.familyCode, Msgpack.vtNil, Msgpack.vtBoolean, Msgpack.vtUnsignedInteger, Msgpack.vtSignedInteger, Msgpack.vtFloat, Msgpack.vtDouble, Msgpack.vtArray, Msgpack.vtMap, Msgpack.vtUnknown, Msgpack.vtString, Msgpack.vtBinaryArray, Msgpack.vtExt, kids, h3, decLenData_canon, decUInt, decSInt, decExt_canon, decFixExt_canon, readExtSize, g1, g2, g4, takeN_eq, Except.map]
    by_cases c1 : 4 ≤ r.length
    · by_cases c2 : 4 + beNat (List.take 4 r) ≤ r.length <;> simp [c1, c2] <;> omega
    · have c2 : ¬ 4 + beNat (List.take 4 r) ≤ r.length := by omega
      simp [c1, c2]
  case ext8 =>
    simp [decodeToken, hf, skipBody, hdrResult, Format.family, Format.embeddedLen, Format.fixextLen, Format.fixedBody, Format.lenBytes, Oracle.familyCode, Msgpack.vtNil, Msgpack.vtBoolean, Msgpack.vtUnsignedInteger, Msgpack.vtSignedInteger, Msgpack.vtFloat, Msgpack.vtDouble, Msgpack.vtArray, Msgpack.vtMap, Msgpack.vtUnknown, Msgpack.vtString, Msgpack.vtBinaryArray, Msgpack.vtExt, kids, h3, decLenData_canon, decUInt, decSInt, decExt_canon, decFixExt_canon, readExtSize, g1, g2, g4, takeN_eq, Except.map]
    by_cases c1 : 1 ≤ r.length
    · by_cases c2 : 1 + 1 + beNat (List.take 1 r) ≤ r.length
      · have c3 : 2 + beNat (List.take 1 r) ≤ r.length := by omega
        simp [c1, c2, c3]; omega
      · have c3 : ¬ 2 + beNat (List.take 1 r) ≤ r.length := by omega
        simp [c1, c2, c3]
    · have c2 : ¬ 1 + 1 + beNat (List.take 1 r) ≤ r.length := by omega
      simp [c1, c2]
  case ext16 =>
    simp [decodeToken, hf, skipBody, hdrResult, Format.family, Format.embeddedLen, Format.fixextLen, Format.fixedBody, Format.lenBytes, Oracle.familyCode, Msgpack.vtNil, Msgpack.vtBoolean, Msgpack.vtUnsignedInteger, Msgpack.vtSignedInteger, Msgpack.vtFloat, Msgpack.vtDouble, Msgpack.vtArray, Msgpack.vtMap, Msgpack.vtUnknown, Msgpack.vtString, Msgpack.vtBinaryArray, Msgpack.vtExt, kids, h3, decLenData_canon, decUInt, decSInt, decExt_canon, decFixExt_canon, readExtSize, g1, g2, g4, takeN_eq, Except.map]
    by_cases c1 : 2 ≤ r.length
    · by_cases c2 : 2 + 1 + beNat (List.take 2 r) ≤ r.length
      · have c3 : 3 + beNat (List.take 2 r) ≤ r.length := by omega
        simp [c1, c2, c3]; omega
      · have c3 : ¬ 3 + beNat (List.take 2 r) ≤ r.length := by omega
        simp [c1, c2, c3]
    · have c2 : ¬ 2 + 1 + beNat (List.take 2 r) ≤ r.length := by omega
      simp [c1, c2]
  case ext32 =>
    simp [decodeToken, hf, skipBody, hdrResult, Format.family, Format.embeddedLen, Format.fixextLen, Format.fixedBody, Format.lenBytes, Oracle.familyCode, Msgpack.vtNil, Msgpack.vtBoolean, Msgpack.vtUnsignedInteger, Msgpack.vtSignedInteger, Msgpack.vtFloat, Msgpack.vtDouble, Msgpack.vtArray, Msgpack.vtMap, Msgpack.vtUnknown, Msgpack.vtString, Msgpack.vtBinaryArray, Msgpack.vtExt, kids, h3, decLenData_canon, decUInt, decSInt, decExt_canon, decFixExt_canon, readExtSize, g1, g2, g4, takeN_eq, Except.map]
    by_cases c1 : 4 ≤ r.length
    · by_cases c2 : 4 + 1 + beNat (List.take 4 r) ≤ r.length
      · have c3 : 5 + beNat (List.take 4 r) ≤ r.length := by omega
        simp [c1, c2, c3]; omega
      · have c3 : ¬ 5 + beNat (List.take 4 r) ≤ r.length := by omega
        simp [c1, c2, c3]
    · have c2 : ¬ 4 + 1 + beNat (List.take 4 r) ≤ r.length := by omega
      simp [c1, c2]
  case fixext1 =>
    simp [decodeToken, hf, skipBody, hdrResult, Format.family, Format.embeddedLen, Format.fixextLen, Format.fixedBody, Format.lenBytes, Oracle.familyCode, Msgpack.vtNil, Msgpack.vtBoolean, Msgpack.vtUnsignedInteger, Msgpack.vtSignedInteger, Msgpack.vtFloat, Msgpack.vtDouble, Msgpack.vtArray, Msgpack.vtMap, Msgpack.vtUnknown, Msgpack.vtString, Msgpack.vtBinaryArray, Msgpack.vtExt, kids, h3, decLenData_canon, decUInt, decSInt, decExt_canon, decFixExt_canon, readExtSize, g1, g2, g4, takeN_eq, Except.map]
    by_cases c1 : 2 ≤ r.length <;> simp [c1] <;> omega
  case fixext2 =>
    simp [decodeToken, hf, skipBody, hdrResult, Format.family, Format.embeddedLen, Format.fixextLen, Format.fixedBody, Format.lenBytes, Oracle.familyCode, Msgpack.vtNil, Msgpack.vtBoolean, Msgpack.vtUnsignedInteger, Msgpack.vtSignedInteger, Msgpack.vtFloat, Msgpack.vtDouble, Msgpack.vtArray, Msgpack.vtMap, Msgpack.vtUnknown, Msgpack.vtString, Msgpack.vtBinaryArray, Msgpack.vtExt, kids, h3, decLenData_canon, decUInt, decSInt, decExt_canon, decFixExt_canon, readExtSize, g1, g2, g4, takeN_eq, Except.map]
    by_cases c1 : 3 ≤ r.length <;> simp [c1] <;> omega
  case fixext4 =>
    simp [decodeToken, hf, skipBody, hdrResult, Format.family, Format.embeddedLen, Format.fixextLen, Format.fixedBody, Format.lenBytes, Oracle.familyCode, Msgpack.vtNil, Msgpack.vtBoolean, Msgpack.vtUnsignedInteger, Msgpack.vtSignedInteger, Msgpack.vtFloat, Msgpack.vtDouble, Msgpack.vtArray, Msgpack.vtMap, Msgpack.vtUnknown, Msgpack.vtString, Msgpack.vtBinaryArray, Msgpack.vtExt, kids, h3, decLenData_canon, decUInt, decSInt, decExt_canon, decFixExt_canon, readExtSize, g1, g2, g4, takeN_eq, Except.map]
    by_cases c1 : 5 ≤ r.length <;> simp [c1] <;> omega
  case fixext8 =>
    simp [decodeToken, hf, skipBody, hdrResult, Format.family, Format.embeddedLen, Format.fixextLen, Format.fixedBody, Format.lenBytes, Oracle.familyCode, Msgpack.vtNil, Msgpack.vtBoolean, Msgpack.vtUnsignedInteger, Msgpack.vtSignedInteger, Msgpack.vtFloat, Msgpack.vtDouble, Msgpack.vtArray, Msgpack.vtMap, Msgpack.vtUnknown, Msgpack.vtString, Msgpack.vtBinaryArray, Msgpack.vtExt, kids, h3, decLenData_canon, decUInt, decSInt, decExt_canon, decFixExt_canon, readExtSize, g1, g2, g4, takeN_eq, Except.map]
    by_cases c1 : 9 ≤ r.length <;> simp [c1] <;> omega
  case fixext16 =>
    simp [decodeToken, hf, skipBody, hdrResult, Format.family, Format.embeddedLen, Format.fixextLen, Format.fixedBody, Format.lenBytes, Oracle.familyCode, Msgpack.vtNil, Msgpack.vtBoolean, Msgpack.vtUnsignedInteger, Msgpack.vtSignedInteger, Msgpack.vtFloat, Msgpack.vtDouble, Msgpack.vtArray, Msgpack.vtMap, Msgpack.vtUnknown, Msgpack.vtString, Msgpack.vtBinaryArray, Msgpack.vtExt, kids, h3, decLenData_canon, decUInt, decSInt, decExt_canon, decFixExt_canon, readExtSize, g1, g2, g4, takeN_eq, Except.map]
    by_cases c1 : 17 ≤ r.length <;> simp [c1] <;> omega
  case array16 =>
    simp [decodeToken, hf, skipBody, hdrResult, Format.family, Format.embeddedLen, Format.fixextLen, Format.fixedBody, Format.lenBytes, Oracle.familyCode, Msgpack.vtNil, Msgpack.vtBoolean, Msgpack.vtUnsignedInteger, Msgpack.vtSignedInteger, Msgpack.vtFloat, Msgpack.vtDouble, Msgpack.vtArray, Msgpack.vtMap, Msgpack.vtUnknown, Msgpack.vtString, Msgpack.vtBinaryArray, Msgpack.vtExt, kids, h3, decLenData_canon, decUInt, decSInt, decExt_canon, decFixExt_canon, readExtSize, g1, g2, g4, takeN_eq, Except.map]
    by_cases c1 : 2 ≤ r.length <;> simp [c1] <;> omega
  case array32 =>
    simp [decodeToken, hf, skipBody, hdrResult, Format.family, Format.embeddedLen, Format.fixextLen, Format.fixedBody, Format.lenBytes, Oracle.familyCode, Msgpack.vtNil, Msgpack.vtBoolean, Msgpack.vtUnsignedInteger, Msgpack.vtSignedInteger, Msgpack.vtFloat, Msgpack.vtDouble, Msgpack.vtArray, Msgpack.vtMap, Msgpack.vtUnknown, Msgpack.vtString, Msgpack.vtBinaryArray, Msgpack.vtExt, kids, h3, decLenData_canon, decUInt, decSInt, decExt_canon, decFixExt_canon, readExtSize, g1, g2, g4, takeN_eq, Except.map]
    by_cases c1 : 4 ≤ r.length <;> simp [c1] <;> omega
  case map16 =>
    simp [decodeToken, hf, skipBody, hdrResult, Format.family, Format.embeddedLen, Format.fixextLen, Format.fixedBody, Format.lenBytes, Oracle.familyCode, Msgpack.vtNil, Msgpack.vtBoolean, Msgpack.vtUnsignedInteger, Msgpack.vtSignedInteger, Msgpack.vtFloat, Msgpack.vtDouble, Msgpack.vtArray, Msgpack.vtMap, Msgpack.vtUnknown, Msgpack.vtString, Msgpack.vtBinaryArray, Msgpack.vtExt, kids, h3, decLenData_canon, decUInt, decSInt, decExt_canon, decFixExt_canon, readExtSize, g1, g2, g4, takeN_eq, Except.map]
    by_cases c1 : 2 ≤ r.length <;> simp [c1] <;> omega
  case map32 =>
    simp [decodeToken, hf, skipBody, hdrResult, Format.family, Format.embeddedLen, Format.fixextLen, Format.fixedBody, Format.lenBytes, Oracle.familyCode, Msgpack.vtNil, Msgpack.vtBoolean, Msgpack.vtUnsignedInteger, Msgpack.vtSignedInteger, Msgpack.vtFloat, Msgpack.vtDouble, Msgpack.vtArray, Msgpack.vtMap, Msgpack.vtUnknown, Msgpack.vtString, Msgpack.vtBinaryArray, Msgpack.vtExt, kids, h3, decLenData_canon, decUInt, decSInt, decExt_canon, decFixExt_canon, readExtSize, g1, g2, g4, takeN_eq, Except.map]
    by_cases c1 : 4 ≤ r.length <;> simp [c1] <;> omega

theorem drop_cons_facts {bs : Bytes} {pos b : Nat} {r : Bytes} (h : bs.drop pos = b :: r) :
    bs[pos]? = some b ∧ bs.drop (pos + 1) = r ∧ bs.length = pos + 1 + r.length := by
  have h1 : bs[pos]? = some b := by rw [getElem?_eq_drop_head, h]; rfl
  have h2 : bs.drop (pos + 1) = r := by
    have : bs.drop (pos + 1) = (bs.drop pos).drop 1 := by rw [List.drop_drop]
    rw [this, h]; rfl
  have h3 : (bs.drop pos).length = 1 + r.length := by rw [h]; simp; omega
  simp at h3
  have : pos < bs.length := by
    rcases Nat.lt_or_ge pos bs.length with h' | h'
    · exact h'
    · rw [List.drop_eq_nil_of_le h'] at h; cases h
  exact ⟨h1, h2, by omega⟩

/-- The header step of SkipValueImpl — driven by the generated ByteCodeTable — agrees with the Spec's
    token decoder on every input position. -/
theorem skipHeader_spec (bs : Bytes) (hb : BytesOk bs) (pos : Nat) :
    skipHeader bs pos =
      match bs.drop pos with
      | [] => .error .parsing
      | b :: r =>
        match hdrResult bs (decodeToken (b :: r)) with
        | .ok (p, n) => .ok (p, n, entry b)
        | .error e => .error e := by
  cases hd : bs.drop pos with
  | nil =>
    have : bs[pos]? = none := by rw [getElem?_eq_drop_head, hd]; rfl
    simp [skipHeader, this]
  | cons b r =>
    obtain ⟨h1, h2, h3⟩ := drop_cons_facts hd
    have hb256 : b < 256 := hb b (List.mem_of_getElem? h1)
    simp only [skipHeader, h1]
    rw [entry_eq b hb256, skipBody_spec (formatOf b) b rfl bs hb pos r h2 h3]
    rw [← entry_eq b hb256]
    cases hdrResult bs (decodeToken (b :: r)) <;> rfl

/-- type column of the table for the two container families -/
theorem entry_type_map (b : Nat) (hb : b < 256) : (entry b).type = Msgpack.vtMap ↔ (formatOf b).family = .map := by
  rw [entry_eq b hb]
  constructor
  · intro h; exact familyCode_inj _ .map h
  · intro h; simp [h, Oracle.familyCode]

theorem entry_type_array (b : Nat) (hb : b < 256) : (entry b).type = Msgpack.vtArray ↔ (formatOf b).family = .array := by
  rw [entry_eq b hb]
  constructor
  · intro h; exact familyCode_inj _ .array h
  · intro h; simp [h, Oracle.familyCode]

/-! ### every token is a non-empty prefix -/

theorem decodeToken_rest (b : Nat) (r : Bytes) (t : Token) (f : Format) (rest : Bytes)
    (h : decodeToken (b :: r) = some (t, f, rest)) : ∃ n, n ≤ r.length ∧ rest = r.drop n := by
  cases hf : formatOf b
  case posFixint =>
    simp [decodeToken, hf, decLenData_canon, decUInt, decSInt, decExt_canon, decFixExt_canon, takeN_eq] at h
    exact ⟨0, by omega, by simp [h.2.2]⟩
  case negFixint =>
    simp [decodeToken, hf, decLenData_canon, decUInt, decSInt, decExt_canon, decFixExt_canon, takeN_eq] at h
    exact ⟨0, by omega, by simp [h.2.2]⟩
  case nil =>
    simp [decodeToken, hf, decLenData_canon, decUInt, decSInt, decExt_canon, decFixExt_canon, takeN_eq] at h
    exact ⟨0, by omega, by simp [h.2.2]⟩
  case false_ =>
    simp [decodeToken, hf, decLenData_canon, decUInt, decSInt, decExt_canon, decFixExt_canon, takeN_eq] at h
    exact ⟨0, by omega, by simp [h.2.2]⟩
  case true_ =>
    simp [decodeToken, hf, decLenData_canon, decUInt, decSInt, decExt_canon, decFixExt_canon, takeN_eq] at h
    exact ⟨0, by omega, by simp [h.2.2]⟩
  case fixmap =>
    simp [decodeToken, hf, decLenData_canon, decUInt, decSInt, decExt_canon, decFixExt_canon, takeN_eq] at h
    exact ⟨0, by omega, by simp [h.2.2]⟩
  case fixarray =>
    simp [decodeToken, hf, decLenData_canon, decUInt, decSInt, decExt_canon, decFixExt_canon, takeN_eq] at h
    exact ⟨0, by omega, by simp [h.2.2]⟩
  case neverUsed =>
    simp [decodeToken, hf, decLenData_canon, decUInt, decSInt, decExt_canon, decFixExt_canon, takeN_eq] at h
  case fixstr =>
    simp [decodeToken, hf, decLenData_canon, decUInt, decSInt, decExt_canon, decFixExt_canon, takeN_eq] at h
    exact ⟨b - 160, by omega, by simp [← h.2.2.2]⟩
  case uint8 =>
    simp [decodeToken, hf, decLenData_canon, decUInt, decSInt, decExt_canon, decFixExt_canon, takeN_eq] at h
    exact ⟨1, by omega, by simp [← h.2.2.2]⟩
  case uint16 =>
    simp [decodeToken, hf, decLenData_canon, decUInt, decSInt, decExt_canon, decFixExt_canon, takeN_eq] at h
    exact ⟨2, by omega, by simp [← h.2.2.2]⟩
  case uint32 =>
    simp [decodeToken, hf, decLenData_canon, decUInt, decSInt, decExt_canon, decFixExt_canon, takeN_eq] at h
    exact ⟨4, by omega, by simp [← h.2.2.2]⟩
  case uint64 =>
    simp [decodeToken, hf, decLenData_canon, decUInt, decSInt, decExt_canon, decFixExt_canon, takeN_eq] at h
    exact ⟨8, by omega, by simp [← h.2.2.2]⟩
  case int8 =>
    simp [decodeToken, hf, decLenData_canon, decUInt, decSInt, decExt_canon, decFixExt_canon, takeN_eq] at h
    exact ⟨1, by omega, by simp [← h.2.2.2]⟩
  case int16 =>
    simp [decodeToken, hf, decLenData_canon, decUInt, decSInt, decExt_canon, decFixExt_canon, takeN_eq] at h
    exact ⟨2, by omega, by simp [← h.2.2.2]⟩
  case int32 =>
    simp [decodeToken, hf, decLenData_canon, decUInt, decSInt, decExt_canon, decFixExt_canon, takeN_eq] at h
    exact ⟨4, by omega, by simp [← h.2.2.2]⟩
  case int64 =>
    simp [decodeToken, hf, decLenData_canon, decUInt, decSInt, decExt_canon, decFixExt_canon, takeN_eq] at h
    exact ⟨8, by omega, by simp [← h.2.2.2]⟩
  case float32 =>
    simp [decodeToken, hf, decLenData_canon, decUInt, decSInt, decExt_canon, decFixExt_canon, takeN_eq] at h
    exact ⟨4, by omega, by simp [← h.2.2.2]⟩
  case float64 =>
    simp [decodeToken, hf, decLenData_canon, decUInt, decSInt, decExt_canon, decFixExt_canon, takeN_eq] at h
    exact ⟨8, by omega, by simp [← h.2.2.2]⟩
  case array16 =>
    simp [decodeToken, hf, decLenData_canon, decUInt, decSInt, decExt_canon, decFixExt_canon, takeN_eq] at h
    exact ⟨2, by omega, by simp [← h.2.2.2]⟩
  case array32 =>
    simp [decodeToken, hf, decLenData_canon, decUInt, decSInt, decExt_canon, decFixExt_canon, takeN_eq] at h
    exact ⟨4, by omega, by simp [← h.2.2.2]⟩
  case map16 =>
    simp [decodeToken, hf, decLenData_canon, decUInt, decSInt, decExt_canon, decFixExt_canon, takeN_eq] at h
    exact ⟨2, by omega, by simp [← h.2.2.2]⟩
  case map32 =>
    simp [decodeToken, hf, decLenData_canon, decUInt, decSInt, decExt_canon, decFixExt_canon, takeN_eq] at h
    exact ⟨4, by omega, by simp [← h.2.2.2]⟩
  case str8 =>
    simp [decodeToken, hf, decLenData_canon, decUInt, decSInt, decExt_canon, decFixExt_canon, takeN_eq] at h
    exact ⟨1 + beNat (List.take 1 r), by omega, by simp [← h.2.2.2]⟩
  case str16 =>
    simp [decodeToken, hf, decLenData_canon, decUInt, decSInt, decExt_canon, decFixExt_canon, takeN_eq] at h
    exact ⟨2 + beNat (List.take 2 r), by omega, by simp [← h.2.2.2]⟩
  case str32 =>
    simp [decodeToken, hf, decLenData_canon, decUInt, decSInt, decExt_canon, decFixExt_canon, takeN_eq] at h
    exact ⟨4 + beNat (List.take 4 r), by omega, by simp [← h.2.2.2]⟩
  case bin8 =>
    simp [decodeToken, hf, decLenData_canon, decUInt, decSInt, decExt_canon, decFixExt_canon, takeN_eq] at h
    exact ⟨1 + beNat (List.take 1 r), by omega, by simp [← h.2.2.2]⟩
  case bin16 =>
    simp [decodeToken, hf, decLenData_canon, decUInt, decSInt, decExt_canon, decFixExt_canon, takeN_eq] at h
    exact ⟨2 + beNat (List.take 2 r), by omega, by simp [← h.2.2.2]⟩
  case bin32 =>
    simp [decodeToken, hf, decLenData_canon, decUInt, decSInt, decExt_canon, decFixExt_canon, takeN_eq] at h
    exact ⟨4 + beNat (List.take 4 r), by omega, by simp [← h.2.2.2]⟩
  case ext8 =>
    simp [decodeToken, hf, decLenData_canon, decUInt, decSInt, decExt_canon, decFixExt_canon, takeN_eq] at h
    exact ⟨1 + 1 + beNat (List.take 1 r), by omega, by simp [← h.2.2.2]⟩
  case ext16 =>
    simp [decodeToken, hf, decLenData_canon, decUInt, decSInt, decExt_canon, decFixExt_canon, takeN_eq] at h
    exact ⟨2 + 1 + beNat (List.take 2 r), by omega, by simp [← h.2.2.2]⟩
  case ext32 =>
    simp [decodeToken, hf, decLenData_canon, decUInt, decSInt, decExt_canon, decFixExt_canon, takeN_eq] at h
    exact ⟨4 + 1 + beNat (List.take 4 r), by omega, by simp [← h.2.2.2]⟩
  case fixext1 =>
    simp [decodeToken, hf, decLenData_canon, decUInt, decSInt, decExt_canon, decFixExt_canon, takeN_eq] at h
    exact ⟨2, by omega, by simp [← h.2.2.2]⟩
  case fixext2 =>
    simp [decodeToken, hf, decLenData_canon, decUInt, decSInt, decExt_canon, decFixExt_canon, takeN_eq] at h
    exact ⟨3, by omega, by simp [← h.2.2.2]⟩
  case fixext4 =>
    simp [decodeToken, hf, decLenData_canon, decUInt, decSInt, decExt_canon, decFixExt_canon, takeN_eq] at h
    exact ⟨5, by omega, by simp [← h.2.2.2]⟩
  case fixext8 =>
    simp [decodeToken, hf, decLenData_canon, decUInt, decSInt, decExt_canon, decFixExt_canon, takeN_eq] at h
    exact ⟨9, by omega, by simp [← h.2.2.2]⟩
  case fixext16 =>
    simp [decodeToken, hf, decLenData_canon, decUInt, decSInt, decExt_canon, decFixExt_canon, takeN_eq] at h
    exact ⟨17, by omega, by simp [← h.2.2.2]⟩

theorem decodeToken_suffix (bs : Bytes) (t : Token) (f : Format) (rest : Bytes) (h : decodeToken bs = some (t, f, rest)) :
    rest.length < bs.length ∧ rest = bs.drop (bs.length - rest.length) := by
  cases bs with
  | nil => simp [decodeToken] at h
  | cons b r =>
    obtain ⟨n, hn, rfl⟩ := decodeToken_rest b r t f rest h
    constructor
    · simp; omega
    · have : (b :: r).length - (r.drop n).length = n + 1 := by simp; omega
      rw [this]; rfl

/-! ### `objects`: fuel independence, unfolding, additivity, suffix -/

theorem objectsFuel_succ (fuel : Nat) : ∀ (k : Nat) (bs : Bytes), bs.length ≤ fuel →
    objectsFuel (fuel + 1) k bs = objectsFuel fuel k bs := by
  induction fuel with
  | zero =>
    intro k bs h
    cases k with
    | zero => rfl
    | succ k =>
      have : bs = [] := List.eq_nil_of_length_eq_zero (by omega)
      subst this
      simp [objectsFuel, decodeToken]
  | succ fuel ih =>
    intro k bs h
    cases k with
    | zero => rfl
    | succ k =>
      simp only [objectsFuel]
      cases hd : decodeToken bs with
      | none => rfl
      | some v =>
        obtain ⟨t, f, rest⟩ := v
        have := (decodeToken_suffix bs t f rest hd).1
        simp only
        exact ih _ rest (by omega)

theorem objectsFuel_ge (bs : Bytes) (k : Nat) : ∀ d, objectsFuel (bs.length + d) k bs = objectsFuel bs.length k bs := by
  intro d
  induction d with
  | zero => rfl
  | succ d ih => rw [← Nat.add_assoc, objectsFuel_succ _ k bs (by omega), ih]

theorem objectsFuel_eq (bs : Bytes) (k fuel : Nat) (h : bs.length ≤ fuel) : objectsFuel fuel k bs = objects k bs := by
  obtain ⟨d, rfl⟩ := Nat.exists_eq_add_of_le h
  exact objectsFuel_ge bs k d

theorem objects_zero (bs : Bytes) : objects 0 bs = some bs := by
  unfold objects; cases bs <;> rfl

theorem objects_succ (k : Nat) (bs : Bytes) :
    objects (k + 1) bs =
      match decodeToken bs with
      | none => none
      | some (t, _, rest) => objects (k + t.children) rest := by
  cases bs with
  | nil => simp [objects, objectsFuel, decodeToken]
  | cons b r =>
    unfold objects
    simp only [List.length_cons, objectsFuel]
    cases hd : decodeToken (b :: r) with
    | none => rfl
    | some v =>
      obtain ⟨t, f, rest⟩ := v
      have := (decodeToken_suffix _ t f rest hd).1
      simp only
      exact objectsFuel_eq rest _ _ (by simp at this; omega)

theorem objects_add (n : Nat) : ∀ (bs : Bytes), bs.length ≤ n → ∀ a b, objects (a + b) bs = (objects a bs).bind (objects b) := by
  induction n with
  | zero =>
    intro bs h a b
    have : bs = [] := List.eq_nil_of_length_eq_zero (by omega)
    subst this
    cases a with
    | zero => simp [objects_zero]
    | succ a => rw [show a + 1 + b = (a + b) + 1 from by omega, objects_succ, objects_succ]; simp [decodeToken]
  | succ n ih =>
    intro bs h a b
    cases a with
    | zero => simp [objects_zero]
    | succ a =>
      rw [show a + 1 + b = (a + b) + 1 from by omega, objects_succ, objects_succ]
      cases hd : decodeToken bs with
      | none => rfl
      | some v =>
        obtain ⟨t, f, rest⟩ := v
        have := (decodeToken_suffix bs t f rest hd).1
        simp only
        rw [show a + b + t.children = (a + t.children) + b from by omega]
        exact ih rest (by omega) _ _

theorem objects_suffix (n : Nat) : ∀ (bs : Bytes), bs.length ≤ n → ∀ k r, objects k bs = some r →
    r.length ≤ bs.length ∧ r = bs.drop (bs.length - r.length) := by
  induction n with
  | zero =>
    intro bs h k r hr
    have : bs = [] := List.eq_nil_of_length_eq_zero (by omega)
    subst this
    cases k with
    | zero => rw [objects_zero] at hr; cases hr; simp
    | succ k => rw [objects_succ] at hr; simp [decodeToken] at hr
  | succ n ih =>
    intro bs h k r hr
    cases k with
    | zero => rw [objects_zero] at hr; cases hr; simp
    | succ k =>
      rw [objects_succ] at hr
      cases hd : decodeToken bs with
      | none => rw [hd] at hr; cases hr
      | some v =>
        obtain ⟨t, f, rest⟩ := v
        rw [hd] at hr
        simp only at hr
        obtain ⟨h1, h2⟩ := decodeToken_suffix bs t f rest hd
        obtain ⟨h3, h4⟩ := ih rest (by omega) _ r hr
        refine ⟨by omega, ?_⟩
        rw [h4, h2, List.drop_drop]
        congr 1
        simp [List.length_drop] at h3 ⊢
        omega

/-! ### `iter` -/

theorem iter_add (f : Nat → Except Err Nat) (a b pos : Nat) :
    iter f (a + b) pos = match iter f a pos with | .ok p => iter f b p | .error e => .error e := by
  induction a generalizing pos with
  | zero => simp [iter]
  | succ a ih =>
    rw [show a + 1 + b = (a + b) + 1 from by omega]
    simp only [iter]
    cases f pos with
    | error e => rfl
    | ok p => exact ih p

theorem iter_double (f : Nat → Except Err Nat) (n pos : Nat) :
    iter (fun p => match f p with | .ok p' => f p' | .error e => .error e) n pos = iter f (2 * n) pos := by
  induction n generalizing pos with
  | zero => rfl
  | succ n ih =>
    rw [show 2 * (n + 1) = (2 * n) + 1 + 1 from by omega]
    simp only [iter]
    cases f pos with
    | error e => rfl
    | ok p =>
      simp only
      cases f p with
      | error e => rfl
      | ok p' => exact ih p'

/-! ### SkipValueImpl = consume one object -/

theorem decodeToken_kind (b : Nat) (r : Bytes) (t : Token) (f : Format) (rest : Bytes)
    (h : decodeToken (b :: r) = some (t, f, rest)) :
    (∃ n, t = .map n ∧ (formatOf b).family = .map) ∨ (∃ n, t = .array n ∧ (formatOf b).family = .array)
    ∨ (t.children = 0 ∧ kids t = 0) := by
  cases hf : formatOf b
  case posFixint =>
    simp [decodeToken, hf, decLenData_canon, decUInt, decSInt, decExt_canon, decFixExt_canon, takeN_eq] at h
    refine Or.inr (Or.inr ?_); (first | (rw [← h.1]; exact ⟨rfl, rfl⟩) | (rw [← h.2.1]; exact ⟨rfl, rfl⟩))
  case negFixint =>
    simp [decodeToken, hf, decLenData_canon, decUInt, decSInt, decExt_canon, decFixExt_canon, takeN_eq] at h
    refine Or.inr (Or.inr ?_); (first | (rw [← h.1]; exact ⟨rfl, rfl⟩) | (rw [← h.2.1]; exact ⟨rfl, rfl⟩))
  case nil =>
    simp [decodeToken, hf, decLenData_canon, decUInt, decSInt, decExt_canon, decFixExt_canon, takeN_eq] at h
    refine Or.inr (Or.inr ?_); (first | (rw [← h.1]; exact ⟨rfl, rfl⟩) | (rw [← h.2.1]; exact ⟨rfl, rfl⟩))
  case false_ =>
    simp [decodeToken, hf, decLenData_canon, decUInt, decSInt, decExt_canon, decFixExt_canon, takeN_eq] at h
    refine Or.inr (Or.inr ?_); (first | (rw [← h.1]; exact ⟨rfl, rfl⟩) | (rw [← h.2.1]; exact ⟨rfl, rfl⟩))
  case true_ =>
    simp [decodeToken, hf, decLenData_canon, decUInt, decSInt, decExt_canon, decFixExt_canon, takeN_eq] at h
    refine Or.inr (Or.inr ?_); (first | (rw [← h.1]; exact ⟨rfl, rfl⟩) | (rw [← h.2.1]; exact ⟨rfl, rfl⟩))
  case fixstr =>
    simp [decodeToken, hf, decLenData_canon, decUInt, decSInt, decExt_canon, decFixExt_canon, takeN_eq] at h
    refine Or.inr (Or.inr ?_); (first | (rw [← h.1]; exact ⟨rfl, rfl⟩) | (rw [← h.2.1]; exact ⟨rfl, rfl⟩))
  case uint8 =>
    simp [decodeToken, hf, decLenData_canon, decUInt, decSInt, decExt_canon, decFixExt_canon, takeN_eq] at h
    refine Or.inr (Or.inr ?_); (first | (rw [← h.1]; exact ⟨rfl, rfl⟩) | (rw [← h.2.1]; exact ⟨rfl, rfl⟩))
  case uint16 =>
    simp [decodeToken, hf, decLenData_canon, decUInt, decSInt, decExt_canon, decFixExt_canon, takeN_eq] at h
    refine Or.inr (Or.inr ?_); (first | (rw [← h.1]; exact ⟨rfl, rfl⟩) | (rw [← h.2.1]; exact ⟨rfl, rfl⟩))
  case uint32 =>
    simp [decodeToken, hf, decLenData_canon, decUInt, decSInt, decExt_canon, decFixExt_canon, takeN_eq] at h
    refine Or.inr (Or.inr ?_); (first | (rw [← h.1]; exact ⟨rfl, rfl⟩) | (rw [← h.2.1]; exact ⟨rfl, rfl⟩))
  case uint64 =>
    simp [decodeToken, hf, decLenData_canon, decUInt, decSInt, decExt_canon, decFixExt_canon, takeN_eq] at h
    refine Or.inr (Or.inr ?_); (first | (rw [← h.1]; exact ⟨rfl, rfl⟩) | (rw [← h.2.1]; exact ⟨rfl, rfl⟩))
  case int8 =>
    simp [decodeToken, hf, decLenData_canon, decUInt, decSInt, decExt_canon, decFixExt_canon, takeN_eq] at h
    refine Or.inr (Or.inr ?_); (first | (rw [← h.1]; exact ⟨rfl, rfl⟩) | (rw [← h.2.1]; exact ⟨rfl, rfl⟩))
  case int16 =>
    simp [decodeToken, hf, decLenData_canon, decUInt, decSInt, decExt_canon, decFixExt_canon, takeN_eq] at h
    refine Or.inr (Or.inr ?_); (first | (rw [← h.1]; exact ⟨rfl, rfl⟩) | (rw [← h.2.1]; exact ⟨rfl, rfl⟩))
  case int32 =>
    simp [decodeToken, hf, decLenData_canon, decUInt, decSInt, decExt_canon, decFixExt_canon, takeN_eq] at h
    refine Or.inr (Or.inr ?_); (first | (rw [← h.1]; exact ⟨rfl, rfl⟩) | (rw [← h.2.1]; exact ⟨rfl, rfl⟩))
  case int64 =>
    simp [decodeToken, hf, decLenData_canon, decUInt, decSInt, decExt_canon, decFixExt_canon, takeN_eq] at h
    refine Or.inr (Or.inr ?_); (first | (rw [← h.1]; exact ⟨rfl, rfl⟩) | (rw [← h.2.1]; exact ⟨rfl, rfl⟩))
  case float32 =>
    simp [decodeToken, hf, decLenData_canon, decUInt, decSInt, decExt_canon, decFixExt_canon, takeN_eq] at h
    refine Or.inr (Or.inr ?_); (first | (rw [← h.1]; exact ⟨rfl, rfl⟩) | (rw [← h.2.1]; exact ⟨rfl, rfl⟩))
  case float64 =>
    simp [decodeToken, hf, decLenData_canon, decUInt, decSInt, decExt_canon, decFixExt_canon, takeN_eq] at h
    refine Or.inr (Or.inr ?_); (first | (rw [← h.1]; exact ⟨rfl, rfl⟩) | (rw [← h.2.1]; exact ⟨rfl, rfl⟩))
  case str8 =>
    simp [decodeToken, hf, decLenData_canon, decUInt, decSInt, decExt_canon, decFixExt_canon, takeN_eq] at h
    refine Or.inr (Or.inr ?_); (first | (rw [← h.1]; exact ⟨rfl, rfl⟩) | (rw [← h.2.1]; exact ⟨rfl, rfl⟩))
  case str16 =>
    simp [decodeToken, hf, decLenData_canon, decUInt, decSInt, decExt_canon, decFixExt_canon, takeN_eq] at h
    refine Or.inr (Or.inr ?_); (first | (rw [← h.1]; exact ⟨rfl, rfl⟩) | (rw [← h.2.1]; exact ⟨rfl, rfl⟩))
  case str32 =>
    simp [decodeToken, hf, decLenData_canon, decUInt, decSInt, decExt_canon, decFixExt_canon, takeN_eq] at h
    refine Or.inr (Or.inr ?_); (first | (rw [← h.1]; exact ⟨rfl, rfl⟩) | (rw [← h.2.1]; exact ⟨rfl, rfl⟩))
  case bin8 =>
    simp [decodeToken, hf, decLenData_canon, decUInt, decSInt, decExt_canon, decFixExt_canon, takeN_eq] at h
    refine Or.inr (Or.inr ?_); (first | (rw [← h.1]; exact ⟨rfl, rfl⟩) | (rw [← h.2.1]; exact ⟨rfl, rfl⟩))
  case bin16 =>
    simp [decodeToken, hf, decLenData_canon, decUInt, decSInt, decExt_canon, decFixExt_canon, takeN_eq] at h
    refine Or.inr (Or.inr ?_); (first | (rw [← h.1]; exact ⟨rfl, rfl⟩) | (rw [← h.2.1]; exact ⟨rfl, rfl⟩))
  case bin32 =>
    simp [decodeToken, hf, decLenData_canon, decUInt, decSInt, decExt_canon, decFixExt_canon, takeN_eq] at h
    refine Or.inr (Or.inr ?_); (first | (rw [← h.1]; exact ⟨rfl, rfl⟩) | (rw [← h.2.1]; exact ⟨rfl, rfl⟩))
  case ext8 =>
    simp [decodeToken, hf, decLenData_canon, decUInt, decSInt, decExt_canon, decFixExt_canon, takeN_eq] at h
    refine Or.inr (Or.inr ?_); (first | (rw [← h.1]; exact ⟨rfl, rfl⟩) | (rw [← h.2.1]; exact ⟨rfl, rfl⟩))
  case ext16 =>
    simp [decodeToken, hf, decLenData_canon, decUInt, decSInt, decExt_canon, decFixExt_canon, takeN_eq] at h
    refine Or.inr (Or.inr ?_); (first | (rw [← h.1]; exact ⟨rfl, rfl⟩) | (rw [← h.2.1]; exact ⟨rfl, rfl⟩))
  case ext32 =>
    simp [decodeToken, hf, decLenData_canon, decUInt, decSInt, decExt_canon, decFixExt_canon, takeN_eq] at h
    refine Or.inr (Or.inr ?_); (first | (rw [← h.1]; exact ⟨rfl, rfl⟩) | (rw [← h.2.1]; exact ⟨rfl, rfl⟩))
  case fixext1 =>
    simp [decodeToken, hf, decLenData_canon, decUInt, decSInt, decExt_canon, decFixExt_canon, takeN_eq] at h
    refine Or.inr (Or.inr ?_); (first | (rw [← h.1]; exact ⟨rfl, rfl⟩) | (rw [← h.2.1]; exact ⟨rfl, rfl⟩))
  case fixext2 =>
    simp [decodeToken, hf, decLenData_canon, decUInt, decSInt, decExt_canon, decFixExt_canon, takeN_eq] at h
    refine Or.inr (Or.inr ?_); (first | (rw [← h.1]; exact ⟨rfl, rfl⟩) | (rw [← h.2.1]; exact ⟨rfl, rfl⟩))
  case fixext4 =>
    simp [decodeToken, hf, decLenData_canon, decUInt, decSInt, decExt_canon, decFixExt_canon, takeN_eq] at h
    refine Or.inr (Or.inr ?_); (first | (rw [← h.1]; exact ⟨rfl, rfl⟩) | (rw [← h.2.1]; exact ⟨rfl, rfl⟩))
  case fixext8 =>
    simp [decodeToken, hf, decLenData_canon, decUInt, decSInt, decExt_canon, decFixExt_canon, takeN_eq] at h
    refine Or.inr (Or.inr ?_); (first | (rw [← h.1]; exact ⟨rfl, rfl⟩) | (rw [← h.2.1]; exact ⟨rfl, rfl⟩))
  case fixext16 =>
    simp [decodeToken, hf, decLenData_canon, decUInt, decSInt, decExt_canon, decFixExt_canon, takeN_eq] at h
    refine Or.inr (Or.inr ?_); (first | (rw [← h.1]; exact ⟨rfl, rfl⟩) | (rw [← h.2.1]; exact ⟨rfl, rfl⟩))
  case neverUsed =>
    simp [decodeToken, hf, decLenData_canon, decUInt, decSInt, decExt_canon, decFixExt_canon, takeN_eq] at h
  case fixmap =>
    simp [decodeToken, hf, decLenData_canon, decUInt, decSInt, decExt_canon, decFixExt_canon, takeN_eq] at h
    refine Or.inl ⟨_, (by first | exact h.1.symm | exact h.2.1.symm), by simp [Format.family]⟩
  case map16 =>
    simp [decodeToken, hf, decLenData_canon, decUInt, decSInt, decExt_canon, decFixExt_canon, takeN_eq] at h
    refine Or.inl ⟨_, (by first | exact h.1.symm | exact h.2.1.symm), by simp [Format.family]⟩
  case map32 =>
    simp [decodeToken, hf, decLenData_canon, decUInt, decSInt, decExt_canon, decFixExt_canon, takeN_eq] at h
    refine Or.inl ⟨_, (by first | exact h.1.symm | exact h.2.1.symm), by simp [Format.family]⟩
  case fixarray =>
    simp [decodeToken, hf, decLenData_canon, decUInt, decSInt, decExt_canon, decFixExt_canon, takeN_eq] at h
    refine Or.inr (Or.inl ⟨_, (by first | exact h.1.symm | exact h.2.1.symm), by simp [Format.family]⟩)
  case array16 =>
    simp [decodeToken, hf, decLenData_canon, decUInt, decSInt, decExt_canon, decFixExt_canon, takeN_eq] at h
    refine Or.inr (Or.inl ⟨_, (by first | exact h.1.symm | exact h.2.1.symm), by simp [Format.family]⟩)
  case array32 =>
    simp [decodeToken, hf, decLenData_canon, decUInt, decSInt, decExt_canon, decFixExt_canon, takeN_eq] at h
    refine Or.inr (Or.inl ⟨_, (by first | exact h.1.symm | exact h.2.1.symm), by simp [Format.family]⟩)

/-- one recursion level of SkipValueImpl in Spec terms: decode the token, then skip its children -/
theorem skipImpl_succ (fuel : Nat) (bs : Bytes) (hb : BytesOk bs) (pos : Nat) :
    skipImpl (fuel + 1) bs pos =
      match decodeToken (bs.drop pos) with
      | none => .error .parsing
      | some (t, _, rest) => iter (skipImpl fuel bs) t.children (bs.length - rest.length) := by
  simp only [skipImpl]
  rw [skipHeader_spec bs hb pos]
  cases hd : bs.drop pos with
  | nil => simp [decodeToken]
  | cons b r =>
    obtain ⟨h1, _, _⟩ := drop_cons_facts hd
    have hb256 : b < 256 := hb b (List.mem_of_getElem? h1)
    simp only
    cases hdec : decodeToken (b :: r) with
    | none => simp [hdrResult]
    | some v =>
      obtain ⟨t, f, rest⟩ := v
      simp only [hdrResult]
      rcases decodeToken_kind b r t f rest hdec with ⟨n, rfl, hfam⟩ | ⟨n, rfl, hfam⟩ | ⟨hc, hk⟩
      · have hm : (entry b).type = Msgpack.vtMap := (entry_type_map b hb256).mpr hfam
        simp only [kids, Token.children, hm, if_true]
        by_cases hn : n = 0
        · subst hn; simp [iter]
        · simp only [hn, ne_eq, not_false_eq_true, if_true]
          exact iter_double _ n _
      · have hm : (entry b).type = Msgpack.vtArray := (entry_type_array b hb256).mpr hfam
        have hm2 : ¬ (entry b).type = Msgpack.vtMap := by rw [hm]; decide
        simp only [kids, Token.children, hm, (by decide : ¬ Msgpack.vtArray = Msgpack.vtMap), if_true, if_false]
        by_cases hn : n = 0
        · subst hn; simp [iter]
        · simp only [hn, ne_eq, not_false_eq_true, if_true]
      · simp [hc, hk, iter]

/-- reader outcome that corresponds to a Spec result "remaining input after the objects" -/
def posResult (bs : Bytes) : Option Bytes → Except Err Nat
  | some rest => .ok (bs.length - rest.length)
  | none => .error .parsing

/-- **Core equivalence.** With a recursion budget larger than the remaining input, `k` consecutive
    SkipValueImpl calls behave exactly like the Spec's "consume `k` objects": same success, same end
    position, and every failure is a parsing error. -/
theorem iter_skip_eq (fuel : Nat) : ∀ (bs : Bytes), BytesOk bs → ∀ (k pos : Nat), pos ≤ bs.length → bs.length - pos < fuel →
    iter (skipImpl fuel bs) k pos = posResult bs (objects k (bs.drop pos)) := by
  induction fuel with
  | zero => intro bs _ k pos _ h; omega
  | succ fuel ih =>
    intro bs hb k
    induction k with
    | zero =>
      intro pos hp _
      simp [iter, objects_zero, posResult]; omega
    | succ k ihk =>
      intro pos hp hf
      simp only [iter]
      rw [skipImpl_succ fuel bs hb pos, objects_succ]
      cases hdec : decodeToken (bs.drop pos) with
      | none => simp [posResult]
      | some v =>
        obtain ⟨t, f, rest⟩ := v
        simp only
        obtain ⟨hlt, hrest⟩ := decodeToken_suffix _ t f rest hdec
        simp only [List.length_drop] at hlt hrest
        -- position behind the token
        have hp1 : bs.length - rest.length ≤ bs.length := by omega
        have hp2 : pos < bs.length - rest.length := by omega
        have hrest' : rest = bs.drop (bs.length - rest.length) := by
          have e : pos + (bs.length - pos - rest.length) = bs.length - rest.length := by omega
          rw [List.drop_drop, e] at hrest
          exact hrest
        by_cases hfuel : fuel = 0
        · omega
        · have hch := ih bs hb t.children (bs.length - rest.length) hp1 (by omega)
          rw [← hrest'] at hch
          rw [hch]
          rw [Nat.add_comm k, objects_add rest.length rest (Nat.le_refl _)]
          cases hobj : objects t.children rest with
          | none => simp [posResult]
          | some rest2 =>
            obtain ⟨hl2, hr2⟩ := objects_suffix rest.length rest (Nat.le_refl _) _ rest2 hobj
            simp only [posResult, Option.bind_some]
            have hr2' : rest2 = bs.drop (bs.length - rest2.length) := by
              rw [hr2, hrest', List.drop_drop]; congr 1
              simp only [List.length_drop]; omega
            have := ihk (bs.length - rest2.length) (by omega) (by omega)
            rw [← hr2'] at this
            exact this

/-- `SkipValue()` in Spec terms, for every input and position. -/
theorem skip_eq (bs : Bytes) (hb : BytesOk bs) (pos : Nat) (hp : pos ≤ bs.length) :
    skip bs pos = posResult bs (objects 1 (bs.drop pos)) := by
  have := iter_skip_eq (bs.length + 1) bs hb 1 pos hp (by omega)
  simp only [iter] at this
  unfold skip
  cases h : skipImpl (bs.length + 1) bs pos with
  | error e => rw [h] at this; exact this
  | ok p => rw [h] at this; exact this

end BSVerif.MsgPack
