/-
  Helper lemmas about the writer model (no property statements): what each `WriteValue` overload
  decodes to under the Spec, and its length against the smallest encoding of the format table.
-/
import BSVerif.MsgPack.Lemmas

namespace BSVerif.MsgPack
open BSVerif BSVerif.MsgPack.Spec BSVerif.MsgPack.Model

/-- size of the smallest MessagePack encoding of an integer (read off the format table) -/
def minIntLen (v : Int) : Nat :=
  if -32 ≤ v ∧ v ≤ 127 then 1
  else if -128 ≤ v ∧ v ≤ 255 then 2
  else if -32768 ≤ v ∧ v ≤ 65535 then 3
  else if -2147483648 ≤ v ∧ v ≤ 4294967295 then 5
  else 9

theorem encodeAs_int_len (f : Format) (v : Int) (bs : Bytes) (h : encodeAs f (.int v) = some bs) :
    minIntLen v ≤ bs.length := by
  cases f <;> simp [encodeAs, encUInt, encSInt] at h
  all_goals (obtain ⟨hc, rfl⟩ := h; simp [minIntLen]; (repeat' split) <;> omega)

theorem formatOf_posFixint (b : Nat) (h : b ≤ 127) : formatOf b = .posFixint := by simp [formatOf, h]

theorem formatOf_negFixint (b : Nat) (h : 224 ≤ b) : formatOf b = .negFixint := by
  unfold formatOf
  iterate 36 rw [if_neg (by omega)]

/-! ### two's complement images -/

theorem uimg_lt (k : Nat) (v : Int) : uimg k v < 256 ^ k := by
  unfold uimg
  have hp : (0 : Int) < Int.ofNat (256 ^ k) := by
    have : 0 < 256 ^ k := Nat.pow_pos (by decide)
    exact Int.ofNat_lt.mpr this
  have h1 := Int.emod_lt_of_pos v hp
  have h0 := Int.emod_nonneg v (Int.ne_of_gt hp)
  have : ((v % Int.ofNat (256 ^ k)).toNat : Int) < Int.ofNat (256 ^ k) := by
    rw [Int.toNat_of_nonneg h0]; exact h1
  exact Int.ofNat_lt.mp this

theorem uimg_nonneg1 (v : Int) (h0 : 0 ≤ v) (h1 : v < 256) : uimg 1 v = v.toNat := by
  simp [uimg]; omega
theorem uimg_nonneg2 (v : Int) (h0 : 0 ≤ v) (h1 : v < 65536) : uimg 2 v = v.toNat := by
  simp [uimg]; omega
theorem uimg_nonneg4 (v : Int) (h0 : 0 ≤ v) (h1 : v < 4294967296) : uimg 4 v = v.toNat := by
  simp [uimg]; omega

theorem ofNat_toNat (v : Int) (h : 0 ≤ v) : Int.ofNat v.toNat = v := Int.toNat_of_nonneg h

theorem toSigned_uimg1 (v : Int) (h0 : -128 ≤ v) (h1 : v < 128) : toSigned 8 (uimg 1 v) = v := by
  simp [toSigned, uimg]; split <;> omega
theorem toSigned_uimg2 (v : Int) (h0 : -32768 ≤ v) (h1 : v < 32768) : toSigned 16 (uimg 2 v) = v := by
  simp [toSigned, uimg]; split <;> omega
theorem toSigned_uimg4 (v : Int) (h0 : -2147483648 ≤ v) (h1 : v < 2147483648) : toSigned 32 (uimg 4 v) = v := by
  simp [toSigned, uimg]; split <;> omega
theorem toSigned_uimg8 (v : Int) (h0 : -9223372036854775808 ≤ v) (h1 : v < 9223372036854775808) :
    toSigned 64 (uimg 8 v) = v := by
  simp [toSigned, uimg]; split <;> omega

/-! ### what the integer writers decode to -/

theorem dec_uint (code k : Nat) (f : Format) (n : Nat) (r : Bytes) (hk : WidthOk k) (hn : n < 256 ^ k)
    (hf : ∀ x, decodeToken (code :: x) = decUInt f k x) :
    decodeToken (code :: pushBE k n ++ r) = some (.int (Int.ofNat n), f, r) := by
  rw [List.cons_append, hf, pushBE_eq k n hk]
  simp [decUInt, takeN_beBytes, beNat_beBytes k n hn]

theorem dec_sint (code k : Nat) (f : Format) (n : Nat) (r : Bytes) (hk : WidthOk k) (hn : n < 256 ^ k)
    (hf : ∀ x, decodeToken (code :: x) = decSInt f k x) :
    decodeToken (code :: pushBE k n ++ r) = some (.int (toSigned (8 * k) n), f, r) := by
  rw [List.cons_append, hf, pushBE_eq k n hk]
  simp [decSInt, takeN_beBytes, beNat_beBytes k n hn]

theorem decode_writeU8 (v : Nat) (h : v < 256) (r : Bytes) :
    ∃ f, decodeToken (writeU8 v ++ r) = some (.int (Int.ofNat v), f, r) := by
  unfold writeU8
  split
  · exact ⟨.uint8, by simp [decodeToken, formatOf, decUInt, takeN, beNat]⟩
  · exact ⟨.posFixint, by simp [decodeToken, formatOf_posFixint v (by omega)]⟩

theorem decode_writeU16 (v : Nat) (h : v < 65536) (r : Bytes) :
    ∃ f, decodeToken (writeU16 v ++ r) = some (.int (Int.ofNat v), f, r) := by
  unfold writeU16
  split
  · exact ⟨.uint16, dec_uint 0xCD 2 .uint16 v r (by simp [WidthOk]) (by simpa using h) (fun x => by simp [decodeToken, formatOf])⟩
  · exact decode_writeU8 v (by omega) r

theorem decode_writeU32 (v : Nat) (h : v < 4294967296) (r : Bytes) :
    ∃ f, decodeToken (writeU32 v ++ r) = some (.int (Int.ofNat v), f, r) := by
  unfold writeU32
  split
  · exact ⟨.uint32, dec_uint 0xCE 4 .uint32 v r (by simp [WidthOk]) (by simpa using h) (fun x => by simp [decodeToken, formatOf])⟩
  · exact decode_writeU16 v (by omega) r

theorem decode_writeU64 (v : Nat) (h : v < 18446744073709551616) (r : Bytes) :
    ∃ f, decodeToken (writeU64 v ++ r) = some (.int (Int.ofNat v), f, r) := by
  unfold writeU64
  split
  · exact ⟨.uint64, dec_uint 0xCF 8 .uint64 v r (by simp [WidthOk]) (by simpa using h) (fun x => by simp [decodeToken, formatOf])⟩
  · exact decode_writeU32 v (by omega) r

theorem decode_writeI8 (v : Int) (h0 : -128 ≤ v) (h1 : v < 128) (r : Bytes) :
    ∃ f, decodeToken (writeI8 v ++ r) = some (.int v, f, r) := by
  unfold writeI8
  split
  · rename_i hge
    by_cases hneg : v < 0
    · refine ⟨.negFixint, ?_⟩
      have hu : uimg 1 v = (v + 256).toNat := by simp [uimg]; omega
      have hf : formatOf (v + 256).toNat = .negFixint := formatOf_negFixint _ (by omega)
      simp only [hu, List.cons_append, List.nil_append, decodeToken, hf, Int.ofNat_eq_natCast]
      have : ((v + 256).toNat : Int) - 256 = v := by omega
      rw [this]
    · refine ⟨.posFixint, ?_⟩
      have hu : uimg 1 v = v.toNat := uimg_nonneg1 v (by omega) (by omega)
      have hf : formatOf v.toNat = .posFixint := formatOf_posFixint _ (by omega)
      simp only [hu, List.cons_append, List.nil_append, decodeToken, hf, Int.ofNat_eq_natCast]
      have : (v.toNat : Int) = v := by omega
      rw [this]
  · refine ⟨.int8, ?_⟩
    have := dec_sint 0xD0 1 .int8 (uimg 1 v) r (by simp [WidthOk]) (uimg_lt 1 v) (fun x => by simp [decodeToken, formatOf])
    rw [pushBE_one] at this
    simp only [beBytes, Nat.pow_zero, Nat.div_one] at this
    have hm : uimg 1 v % 256 = uimg 1 v := Nat.mod_eq_of_lt (by simpa using uimg_lt 1 v)
    rw [hm] at this
    simpa [toSigned_uimg1 v h0 h1] using this

theorem decode_writeI16 (v : Int) (h0 : -32768 ≤ v) (h1 : v < 32768) (r : Bytes) :
    ∃ f, decodeToken (writeI16 v ++ r) = some (.int v, f, r) := by
  unfold writeI16
  split
  · rename_i hc
    refine ⟨.uint8, ?_⟩
    have hu : uimg 1 v = v.toNat := uimg_nonneg1 v (by omega) (by omega)
    have : Int.ofNat v.toNat = v := ofNat_toNat v (by omega)
    simp only [hu, List.cons_append, List.nil_append]
    rw [show decodeToken (204 :: v.toNat :: r) = decUInt .uint8 1 (v.toNat :: r) from by simp [decodeToken, formatOf]]
    simp only [decUInt, takeN, List.length_cons]
    simp [beNat, Int.toNat_of_nonneg (show 0 ≤ v by omega)]
  · split
    · refine ⟨.int16, ?_⟩
      have := dec_sint 0xD1 2 .int16 (uimg 2 v) r (by simp [WidthOk]) (uimg_lt 2 v) (fun x => by simp [decodeToken, formatOf])
      simpa [toSigned_uimg2 v h0 h1] using this
    · exact decode_writeI8 v (by omega) (by omega) r

theorem decode_writeI32 (v : Int) (h0 : -2147483648 ≤ v) (h1 : v < 2147483648) (r : Bytes) :
    ∃ f, decodeToken (writeI32 v ++ r) = some (.int v, f, r) := by
  unfold writeI32
  split
  · rename_i hc
    refine ⟨.uint16, ?_⟩
    have hu : uimg 2 v = v.toNat := uimg_nonneg2 v (by omega) (by omega)
    have := dec_uint 0xCD 2 .uint16 v.toNat r (by simp [WidthOk]) (by simp; omega) (fun x => by simp [decodeToken, formatOf])
    have hv : Int.ofNat v.toNat = v := ofNat_toNat v (by omega)
    rw [hu]; rw [hv] at this; exact this
  · split
    · refine ⟨.int32, ?_⟩
      have := dec_sint 0xD2 4 .int32 (uimg 4 v) r (by simp [WidthOk]) (uimg_lt 4 v) (fun x => by simp [decodeToken, formatOf])
      simpa [toSigned_uimg4 v h0 h1] using this
    · exact decode_writeI16 v (by omega) (by omega) r

theorem decode_writeI64 (v : Int) (h0 : -9223372036854775808 ≤ v) (h1 : v < 9223372036854775808) (r : Bytes) :
    ∃ f, decodeToken (writeI64 v ++ r) = some (.int v, f, r) := by
  unfold writeI64
  split
  · rename_i hc
    refine ⟨.uint32, ?_⟩
    have hu : uimg 4 v = v.toNat := uimg_nonneg4 v (by omega) (by omega)
    have := dec_uint 0xCE 4 .uint32 v.toNat r (by simp [WidthOk]) (by simp; omega) (fun x => by simp [decodeToken, formatOf])
    have hv : Int.ofNat v.toNat = v := ofNat_toNat v (by omega)
    rw [hu]; rw [hv] at this; exact this
  · split
    · refine ⟨.int64, ?_⟩
      have := dec_sint 0xD3 8 .int64 (uimg 8 v) r (by simp [WidthOk]) (uimg_lt 8 v) (fun x => by simp [decodeToken, formatOf])
      simpa [toSigned_uimg8 v h0 h1] using this
    · exact decode_writeI32 v (by omega) (by omega) r

/-! ### lengths -/

@[simp] theorem pushBE_length (k v : Nat) (hk : WidthOk k) : (pushBE k v).length = k := by
  rw [pushBE_eq k v hk, beBytes_length]

theorem writeU64_len (v : Nat) : (writeU64 v).length = minIntLen (Int.ofNat v) := by
  unfold writeU64 writeU32 writeU16 writeU8 minIntLen
  have w2 := pushBE_length 2 v (by simp [WidthOk])
  have w4 := pushBE_length 4 v (by simp [WidthOk])
  have w8 := pushBE_length 8 v (by simp [WidthOk])
  repeat' split
  all_goals simp_all
  all_goals omega

theorem writeU32_eq (v : Nat) (h : v < 4294967296) : writeU64 v = writeU32 v := by
  unfold writeU64; simp; omega
theorem writeU16_eq (v : Nat) (h : v < 65536) : writeU32 v = writeU16 v := by
  unfold writeU32; simp; omega
theorem writeU8_eq (v : Nat) (h : v < 256) : writeU16 v = writeU8 v := by
  unfold writeU16; simp; omega

theorem writeI64_len (v : Int) : (writeI64 v).length = minIntLen v := by
  unfold writeI64 writeI32 writeI16 writeI8 minIntLen
  have w2 := pushBE_length 2 (uimg 2 v) (by simp [WidthOk])
  have w4 := pushBE_length 4 (uimg 4 v) (by simp [WidthOk])
  have w8 := pushBE_length 8 (uimg 8 v) (by simp [WidthOk])
  repeat' split
  all_goals simp_all
  all_goals omega

theorem writeI32_eq (v : Int) (h0 : -2147483648 ≤ v) (h1 : v < 2147483648) : writeI64 v = writeI32 v := by
  unfold writeI64; rw [if_neg (by omega), if_neg (by omega)]
theorem writeI16_eq (v : Int) (h0 : -32768 ≤ v) (h1 : v < 32768) : writeI32 v = writeI16 v := by
  unfold writeI32; rw [if_neg (by omega), if_neg (by omega)]
theorem writeI8_eq (v : Int) (h0 : -128 ≤ v) (h1 : v < 128) : writeI16 v = writeI8 v := by
  unfold writeI16; rw [if_neg (by omega), if_neg (by omega)]

/-! ### floats -/

theorem decode_writeF32 (b : Nat) (h : b < 2 ^ 32) (r : Bytes) :
    decodeToken (writeF32 b ++ r) = some (.f32 b, .float32, r) := by
  unfold writeF32
  rw [List.cons_append, pushBE_eq 4 b (by simp [WidthOk])]
  simp [decodeToken, formatOf, takeN_beBytes, beNat_beBytes 4 b (by simpa using h)]

theorem decode_writeF64 (b : Nat) (h : b < 2 ^ 64) (r : Bytes) :
    decodeToken (writeF64 b ++ r) = some (.f64 b, .float64, r) := by
  unfold writeF64
  rw [List.cons_append, pushBE_eq 8 b (by simp [WidthOk])]
  simp [decodeToken, formatOf, takeN_beBytes, beNat_beBytes 8 b (by simpa using h)]

/-! ### strings, binary, array and map headers -/

theorem or_a0 : ∀ n, n < 32 → n ||| 0xA0 = 0xA0 + n := by decide
theorem or_90 : ∀ n, n < 16 → n ||| 0x90 = 0x90 + n := by decide
theorem or_80 : ∀ n, n < 16 → n ||| 0x80 = 0x80 + n := by decide

theorem formatOf_fixstr (n : Nat) (h : n < 32) : formatOf (0xA0 + n) = .fixstr := by
  unfold formatOf
  iterate 3 rw [if_neg (by omega)]
  rw [if_pos (by omega)]
theorem formatOf_fixarray (n : Nat) (h : n < 16) : formatOf (0x90 + n) = .fixarray := by
  unfold formatOf
  iterate 2 rw [if_neg (by omega)]
  rw [if_pos (by omega)]
theorem formatOf_fixmap (n : Nat) (h : n < 16) : formatOf (0x80 + n) = .fixmap := by
  unfold formatOf
  rw [if_neg (by omega), if_pos (by omega)]

def hdrStr (n : Nat) : Nat := if n < 32 then 1 else if n < 256 then 2 else if n < 65536 then 3 else 5
def hdrBin (n : Nat) : Nat := if n < 256 then 2 else if n < 65536 then 3 else 5
def hdrCnt (n : Nat) : Nat := if n < 16 then 1 else if n < 65536 then 3 else 5

theorem decLenData_be (k n : Nat) (d r : Bytes) (hn : n < 256 ^ k) (hd : d.length = n) :
    decLenData k (beBytes k n ++ (d ++ r)) = some (d, r) := by
  unfold decLenData
  rw [takeN_beBytes]
  simp only [Option.bind_some, beNat_beBytes k n hn]
  exact takeN_append_len n d r hd

theorem decode_writeStr (d : Bytes) (h : d.length < 2 ^ 32) (r : Bytes) :
    ∃ bs f, writeStr d = .ok bs ∧ decodeToken (bs ++ r) = some (.str d, f, r) ∧ bs.length = hdrStr d.length + d.length := by
  unfold writeStr hdrStr
  simp only
  split
  · rename_i h1
    refine ⟨_, .fixstr, rfl, ?_, by simp; omega⟩
    rw [or_a0 _ h1, List.cons_append]
    simp only [decodeToken, formatOf_fixstr _ h1]
    simp [takeN_append]
  · split
    · rename_i h1 h2
      refine ⟨_, .str8, rfl, ?_, by simp; (repeat' split) <;> omega⟩
      have := decLenData_be 1 d.length d r (by simpa using (by omega : d.length < 256)) rfl
      simp only [beBytes, Nat.pow_zero, Nat.div_one, Nat.mod_eq_of_lt (by omega : d.length < 256), List.cons_append, List.nil_append] at this
      simp [decodeToken, formatOf, this]
    · split
      · rename_i h1 h2 h3
        refine ⟨_, .str16, rfl, ?_, by simp [pushBE_length 2 _ (by simp [WidthOk])]; (repeat' split) <;> omega⟩
        have := decLenData_be 2 d.length d r (by simpa using (by omega : d.length < 65536)) rfl
        rw [pushBE_eq 2 _ (by simp [WidthOk])]
        simp [decodeToken, formatOf, this]
      · rename_i h1 h2 h3
        rw [if_pos (by omega)]
        refine ⟨_, .str32, rfl, ?_, by simp [pushBE_length 4 _ (by simp [WidthOk])]; (repeat' split) <;> omega⟩
        have := decLenData_be 4 d.length d r (by simpa using h) rfl
        rw [pushBE_eq 4 _ (by simp [WidthOk])]
        simp [decodeToken, formatOf, this]

theorem writeStr_tooLarge (d : Bytes) (h : 2 ^ 32 ≤ d.length) : writeStr d = .error .outOfRange := by
  unfold writeStr
  simp only
  iterate 4 rw [if_neg (by omega)]

theorem encodeAs_str_len (f : Format) (d : Bytes) (bs : Bytes) (h : encodeAs f (.str d) = some bs) :
    hdrStr d.length + d.length ≤ bs.length := by
  cases f <;> simp [encodeAs, encLenData] at h
  all_goals (obtain ⟨hc, rfl⟩ := h; simp [hdrStr]; (repeat' split) <;> omega)

theorem encodeAs_bin_len (f : Format) (d : Bytes) (bs : Bytes) (h : encodeAs f (.bin d) = some bs) :
    hdrBin d.length + d.length ≤ bs.length := by
  cases f <;> simp [encodeAs, encLenData] at h
  all_goals (obtain ⟨hc, rfl⟩ := h; simp [hdrBin]; (repeat' split) <;> omega)

theorem encodeAs_array_len (f : Format) (n : Nat) (bs : Bytes) (h : encodeAs f (.array n) = some bs) :
    hdrCnt n ≤ bs.length := by
  cases f <;> simp [encodeAs, encCount] at h
  all_goals (obtain ⟨hc, rfl⟩ := h; simp [hdrCnt]; (repeat' split) <;> omega)

theorem encodeAs_map_len (f : Format) (n : Nat) (bs : Bytes) (h : encodeAs f (.map n) = some bs) :
    hdrCnt n ≤ bs.length := by
  cases f <;> simp [encodeAs, encCount] at h
  all_goals (obtain ⟨hc, rfl⟩ := h; simp [hdrCnt]; (repeat' split) <;> omega)

theorem decode_beginArray (n : Nat) (h : n < 2 ^ 32) (r : Bytes) :
    ∃ bs f, beginArray n = .ok bs ∧ decodeToken (bs ++ r) = some (.array n, f, r) ∧ bs.length = hdrCnt n := by
  unfold beginArray hdrCnt
  split
  · rename_i h1
    refine ⟨_, .fixarray, rfl, ?_, by simp⟩
    rw [or_90 _ h1]
    simp [decodeToken, formatOf_fixarray _ h1]
  · split
    · rename_i h1 h2
      refine ⟨_, .array16, rfl, ?_, by simp [pushBE_length 2 _ (by simp [WidthOk])]; (repeat' split) <;> omega⟩
      rw [pushBE_eq 2 _ (by simp [WidthOk])]
      simp [decodeToken, formatOf, takeN_beBytes, beNat_beBytes 2 n (by simpa using (by omega : n < 65536))]
    · rename_i h1 h2
      rw [if_pos (by omega)]
      refine ⟨_, .array32, rfl, ?_, by simp [pushBE_length 4 _ (by simp [WidthOk])]; (repeat' split) <;> omega⟩
      rw [pushBE_eq 4 _ (by simp [WidthOk])]
      simp [decodeToken, formatOf, takeN_beBytes, beNat_beBytes 4 n (by simpa using h)]

theorem decode_beginMap (n : Nat) (h : n < 2 ^ 32) (r : Bytes) :
    ∃ bs f, beginMap n = .ok bs ∧ decodeToken (bs ++ r) = some (.map n, f, r) ∧ bs.length = hdrCnt n := by
  unfold beginMap hdrCnt
  split
  · rename_i h1
    refine ⟨_, .fixmap, rfl, ?_, by simp⟩
    rw [or_80 _ h1]
    simp [decodeToken, formatOf_fixmap _ h1]
  · split
    · rename_i h1 h2
      refine ⟨_, .map16, rfl, ?_, by simp [pushBE_length 2 _ (by simp [WidthOk])]; (repeat' split) <;> omega⟩
      rw [pushBE_eq 2 _ (by simp [WidthOk])]
      simp [decodeToken, formatOf, takeN_beBytes, beNat_beBytes 2 n (by simpa using (by omega : n < 65536))]
    · rename_i h1 h2
      rw [if_pos (by omega)]
      refine ⟨_, .map32, rfl, ?_, by simp [pushBE_length 4 _ (by simp [WidthOk])]; (repeat' split) <;> omega⟩
      rw [pushBE_eq 4 _ (by simp [WidthOk])]
      simp [decodeToken, formatOf, takeN_beBytes, beNat_beBytes 4 n (by simpa using h)]

/-- `BeginBinary(n)` followed by the `n` data bytes `d` that `WriteBinary` appends -/
theorem decode_beginBinary (d : Bytes) (h : d.length < 2 ^ 32) (r : Bytes) :
    ∃ bs f, beginBinary d.length = .ok bs ∧ decodeToken (bs ++ (d ++ r)) = some (.bin d, f, r) ∧ bs.length = hdrBin d.length := by
  unfold beginBinary hdrBin
  split
  · rename_i h1
    refine ⟨_, .bin8, rfl, ?_, by simp; omega⟩
    have := decLenData_be 1 d.length d r (by simpa using (by omega : d.length < 256)) rfl
    simp only [beBytes, Nat.pow_zero, Nat.div_one, Nat.mod_eq_of_lt (by omega : d.length < 256), List.cons_append, List.nil_append] at this
    simp [decodeToken, formatOf, this]
  · split
    · rename_i h1 h2
      refine ⟨_, .bin16, rfl, ?_, by simp [pushBE_length 2 _ (by simp [WidthOk])]; (repeat' split) <;> omega⟩
      have := decLenData_be 2 d.length d r (by simpa using (by omega : d.length < 65536)) rfl
      rw [pushBE_eq 2 _ (by simp [WidthOk])]
      simp [decodeToken, formatOf, this]
    · rename_i h1 h2
      rw [if_pos (by omega)]
      refine ⟨_, .bin32, rfl, ?_, by simp [pushBE_length 4 _ (by simp [WidthOk])]; (repeat' split) <;> omega⟩
      have := decLenData_be 4 d.length d r (by simpa using h) rfl
      rw [pushBE_eq 4 _ (by simp [WidthOk])]
      simp [decodeToken, formatOf, this]

theorem begin_tooLarge (n : Nat) (h : 2 ^ 32 ≤ n) :
    beginArray n = .error .outOfRange ∧ beginMap n = .error .outOfRange ∧ beginBinary n = .error .outOfRange := by
  unfold beginArray beginMap beginBinary
  refine ⟨?_, ?_, ?_⟩ <;> (iterate 3 rw [if_neg (by omega)])

/-! ### timestamps -/

def hdrExt (n : Nat) : Nat :=
  if n = 1 ∨ n = 2 ∨ n = 4 ∨ n = 8 ∨ n = 16 then 2 else if n < 256 then 3 else if n < 65536 then 4 else 6

theorem encodeAs_ext_len (f : Format) (t : Int) (d : Bytes) (bs : Bytes) (h : encodeAs f (.ext t d) = some bs) :
    hdrExt d.length + d.length ≤ bs.length := by
  cases f <;> simp [encodeAs, encExt, encFixExt] at h
  all_goals (obtain ⟨hc, rfl⟩ := h; simp [hdrExt]; (repeat' split) <;> omega)

theorem uimg8_eq_ofSigned (s : Int) : uimg 8 s = ofSigned 64 s := by
  simp [uimg, ofSigned]

theorem uimg8_nonneg (s : Int) (h0 : 0 ≤ s) (h1 : s < 18446744073709551616) : uimg 8 s = s.toNat := by
  simp [uimg]; omega

theorem uimg4_nonneg (s : Int) (h0 : 0 ≤ s) (h1 : s < 4294967296) : uimg 4 s = s.toNat := by
  simp [uimg]; omega

theorem toSigned_ff : toSigned 8 (beNat [255]) = -1 := by decide

theorem beNat_single (t : Nat) : beNat [t] = t := by simp [beNat]

theorem decFixExt_eq (f : Format) (n t : Nat) (d r : Bytes) (hd : d.length = n) :
    decFixExt f n (t :: (d ++ r)) = some (.ext (toSigned 8 t) d, f, r) := by
  unfold decFixExt
  rw [show t :: (d ++ r) = [t] ++ (d ++ r) from rfl, takeN_append_len 1 [t] _ rfl]
  simp only [Option.bind_some, takeN_append_len n d r hd, Option.map_some, beNat_single]

theorem decExt_eq (f : Format) (k n t : Nat) (d r : Bytes) (hn : n < 256 ^ k) (hd : d.length = n) :
    decExt f k (beBytes k n ++ (t :: (d ++ r))) = some (.ext (toSigned 8 t) d, f, r) := by
  unfold decExt
  rw [takeN_beBytes]
  simp only [Option.bind_some, beNat_beBytes k n hn]
  rw [show t :: (d ++ r) = [t] ++ (d ++ r) from rfl, takeN_append_len 1 [t] _ rfl]
  simp only [Option.bind_some, takeN_append_len n d r hd, Option.map_some, beNat_single]

/-- seconds in 0..2^34-1: timestamp 32 when possible, else timestamp 64 — exactly the spec's choice and layout -/
theorem writeTs_small (s ns : Int) (hs0 : 0 ≤ s) (hs1 : s < 17179869184) (hn0 : 0 ≤ ns) (hn1 : ns ≤ 999999999) (r : Bytes) :
    ∃ f, decodeToken (writeTs s ns ++ r) = some (.ext timestampType (encodeTimestamp s ns.toNat), f, r)
      ∧ (writeTs s ns).length = 2 + (encodeTimestamp s ns.toNat).length := by
  have hu : uimg 8 s = s.toNat := uimg8_nonneg s hs0 (by omega)
  have hun : uimg 8 ns = ns.toNat := uimg8_nonneg ns hn0 (by omega)
  unfold writeTs encodeTimestamp
  rw [hu, hun]
  have hq : s.toNat / 2 ^ 34 = 0 := by omega
  rw [if_pos hq, if_pos (show 0 ≤ s ∧ s < 2 ^ 34 from ⟨hs0, by simpa using hs1⟩)]
  have hm : ns.toNat * 2 ^ 34 % 2 ^ 64 = ns.toNat * 2 ^ 34 := Nat.mod_eq_of_lt (by omega)
  simp only [hm]
  by_cases hc : ns = 0 ∧ s < 2 ^ 32
  · obtain ⟨rfl, hs2⟩ := hc
    have h1 : ((0 : Int).toNat * 2 ^ 34 + s.toNat) / 2 ^ 32 = 0 := by simp at hs2 ⊢; omega
    have h2 : ((0 : Int).toNat * 2 ^ 34 + s.toNat) % 2 ^ 32 = s.toNat := by simp at hs2 ⊢; omega
    rw [if_pos h1, if_pos (show (0 : Int).toNat = 0 ∧ s < 2 ^ 32 from ⟨rfl, hs2⟩), h2]
    refine ⟨.fixext4, ?_, by simp [timestamp32, pushBE_length 4 _ (by simp [WidthOk])]⟩
    rw [pushBE_eq 4 _ (by simp [WidthOk])]
    simp only [List.cons_append, decodeToken]
    rw [show formatOf 214 = .fixext4 from by decide]
    simp only [decFixExt_eq .fixext4 4 255 _ r (beBytes_length 4 _)]
    simp [timestamp32, timestampType, toSigned]
  · have h1 : ¬ ((ns.toNat * 2 ^ 34 + s.toNat) / 2 ^ 32 = 0) := by
      intro h
      apply hc
      have : ns.toNat * 2 ^ 34 + s.toNat < 2 ^ 32 := by omega
      constructor <;> omega
    have h3 : ¬ (ns.toNat = 0 ∧ s < 2 ^ 32) := by
      intro h; apply hc; exact ⟨by omega, h.2⟩
    rw [if_neg h1, if_neg h3]
    refine ⟨.fixext8, ?_, by simp [timestamp64, pushBE_length 8 _ (by simp [WidthOk])]⟩
    rw [pushBE_eq 8 _ (by simp [WidthOk])]
    simp only [List.cons_append, decodeToken]
    rw [show formatOf 215 = .fixext8 from by decide]
    simp only [decFixExt_eq .fixext8 8 255 _ r (beBytes_length 8 _)]
    simp [timestamp64, timestampType, toSigned]

/-- seconds outside 0..2^34-1: ext 8 of 12 bytes, SECONDS FIRST (the specification puts the nanoseconds first) -/
theorem writeTs_large (s ns : Int) (hs : s < 0 ∨ 17179869184 ≤ s) (hs0 : -9223372036854775808 ≤ s) (hs1 : s < 9223372036854775808)
    (hn0 : 0 ≤ ns) (hn1 : ns ≤ 999999999) (r : Bytes) :
    decodeToken (writeTs s ns ++ r)
      = some (.ext timestampType (beBytes 8 (ofSigned 64 s) ++ beBytes 4 ns.toNat), .ext8, r)
    ∧ (writeTs s ns).length = 15 := by
  have hq : ¬ (uimg 8 s / 2 ^ 34 = 0) := by simp [uimg]; omega
  unfold writeTs
  rw [if_neg hq, uimg4_nonneg ns hn0 (by omega), pushBE_eq 8 _ (by simp [WidthOk]), pushBE_eq 4 _ (by simp [WidthOk]),
    uimg8_eq_ofSigned]
  constructor
  · simp only [List.cons_append, decodeToken]
    rw [show formatOf 199 = .ext8 from by decide]
    have := decExt_eq .ext8 1 12 255 (beBytes 8 (ofSigned 64 s) ++ beBytes 4 ns.toNat) r (by decide) (by simp)
    rw [show beBytes 1 12 = [12] from by decide] at this
    simp only [List.cons_append, List.nil_append, List.append_assoc] at this ⊢
    rw [this]
    simp [timestampType, toSigned]
  · simp

end BSVerif.MsgPack
