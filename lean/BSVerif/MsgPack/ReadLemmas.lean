/-
  Helper lemmas for the reader proofs (no property statements): integer conversion by policy against
  plain range membership, reader steps on encodings produced by the Spec's encoder.
-/
import BSVerif.MsgPack.AppendLemmas
set_option linter.unusedSimpArgs false
set_option linter.unusedVariables false

namespace BSVerif.MsgPack
open BSVerif BSVerif.MsgPack.Spec BSVerif.MsgPack.Model BSVerif.Generated

/-- value range of an integral C++ type -/
def Model.IntTy.lo (t : IntTy) : Int := if t.isBool then 0 else if t.signed then -(2 ^ (t.bits - 1)) else 0
def Model.IntTy.hi (t : IntTy) : Int := if t.isBool then 1 else if t.signed then 2 ^ (t.bits - 1) - 1 else 2 ^ t.bits - 1
def Model.IntTy.holds (t : IntTy) (v : Int) : Prop := t.lo ≤ v ∧ v ≤ t.hi
instance (t : IntTy) (v : Int) : Decidable (t.holds v) := by unfold Model.IntTy.holds; exact inferInstance

/-- source types of `ConvertByPolicy` inside `ReadInteger` (wire formats; `int` for the boolean literals) -/
def srcTypes : List IntTy := [tyI8, tyU8, tyU16, tyU32, tyU64, tyI16, tyI32, tyI64]
/-- the integer `ReadValue` targets -/
def tgtTypes : List IntTy := [tyBool, tyU8, tyU16, tyU32, tyU64, tyChar, tyI8, tyI16, tyI32, tyI64]

theorem convInt_tyI8_tyBool (v : Int) (hv : tyI8.holds v) :
    convInt tyI8 tyBool v = if tyBool.holds v then some v else none := by
  simp [Model.IntTy.holds, Model.IntTy.lo, Model.IntTy.hi, tyI8, tyBool] at hv ⊢
  simp [convInt, castTo]
  (repeat' split) <;> (try simp_all) <;> omega

theorem convInt_tyI8_tyU8 (v : Int) (hv : tyI8.holds v) :
    convInt tyI8 tyU8 v = if tyU8.holds v then some v else none := by
  simp [Model.IntTy.holds, Model.IntTy.lo, Model.IntTy.hi, tyI8, tyU8] at hv ⊢
  simp [convInt, castTo]
  (repeat' split) <;> (try simp_all) <;> omega

theorem convInt_tyI8_tyU16 (v : Int) (hv : tyI8.holds v) :
    convInt tyI8 tyU16 v = if tyU16.holds v then some v else none := by
  simp [Model.IntTy.holds, Model.IntTy.lo, Model.IntTy.hi, tyI8, tyU16] at hv ⊢
  simp [convInt, castTo]
  (repeat' split) <;> (try simp_all) <;> omega

theorem convInt_tyI8_tyU32 (v : Int) (hv : tyI8.holds v) :
    convInt tyI8 tyU32 v = if tyU32.holds v then some v else none := by
  simp [Model.IntTy.holds, Model.IntTy.lo, Model.IntTy.hi, tyI8, tyU32] at hv ⊢
  simp [convInt, castTo]
  (repeat' split) <;> (try simp_all) <;> omega

theorem convInt_tyI8_tyU64 (v : Int) (hv : tyI8.holds v) :
    convInt tyI8 tyU64 v = if tyU64.holds v then some v else none := by
  simp [Model.IntTy.holds, Model.IntTy.lo, Model.IntTy.hi, tyI8, tyU64] at hv ⊢
  simp [convInt, castTo]
  (repeat' split) <;> (try simp_all) <;> omega

theorem convInt_tyI8_tyChar (v : Int) (hv : tyI8.holds v) :
    convInt tyI8 tyChar v = if tyChar.holds v then some v else none := by
  simp [Model.IntTy.holds, Model.IntTy.lo, Model.IntTy.hi, tyI8, tyChar] at hv ⊢
  simp [convInt, castTo]
  (repeat' split) <;> (try simp_all) <;> omega

theorem convInt_tyI8_tyI8 (v : Int) (hv : tyI8.holds v) :
    convInt tyI8 tyI8 v = if tyI8.holds v then some v else none := by
  simp [Model.IntTy.holds, Model.IntTy.lo, Model.IntTy.hi, tyI8, tyI8] at hv ⊢
  simp [convInt, castTo]
  (repeat' split) <;> (try simp_all) <;> omega

theorem convInt_tyI8_tyI16 (v : Int) (hv : tyI8.holds v) :
    convInt tyI8 tyI16 v = if tyI16.holds v then some v else none := by
  simp [Model.IntTy.holds, Model.IntTy.lo, Model.IntTy.hi, tyI8, tyI16] at hv ⊢
  simp [convInt, castTo]
  (repeat' split) <;> (try simp_all) <;> omega

theorem convInt_tyI8_tyI32 (v : Int) (hv : tyI8.holds v) :
    convInt tyI8 tyI32 v = if tyI32.holds v then some v else none := by
  simp [Model.IntTy.holds, Model.IntTy.lo, Model.IntTy.hi, tyI8, tyI32] at hv ⊢
  simp [convInt, castTo]
  (repeat' split) <;> (try simp_all) <;> omega

theorem convInt_tyI8_tyI64 (v : Int) (hv : tyI8.holds v) :
    convInt tyI8 tyI64 v = if tyI64.holds v then some v else none := by
  simp [Model.IntTy.holds, Model.IntTy.lo, Model.IntTy.hi, tyI8, tyI64] at hv ⊢
  simp [convInt, castTo]
  (repeat' split) <;> (try simp_all) <;> omega

theorem convInt_tyU8_tyBool (v : Int) (hv : tyU8.holds v) :
    convInt tyU8 tyBool v = if tyBool.holds v then some v else none := by
  simp [Model.IntTy.holds, Model.IntTy.lo, Model.IntTy.hi, tyU8, tyBool] at hv ⊢
  simp [convInt, castTo]
  (repeat' split) <;> (try simp_all) <;> omega

theorem convInt_tyU8_tyU8 (v : Int) (hv : tyU8.holds v) :
    convInt tyU8 tyU8 v = if tyU8.holds v then some v else none := by
  simp [Model.IntTy.holds, Model.IntTy.lo, Model.IntTy.hi, tyU8, tyU8] at hv ⊢
  simp [convInt, castTo]
  (repeat' split) <;> (try simp_all) <;> omega

theorem convInt_tyU8_tyU16 (v : Int) (hv : tyU8.holds v) :
    convInt tyU8 tyU16 v = if tyU16.holds v then some v else none := by
  simp [Model.IntTy.holds, Model.IntTy.lo, Model.IntTy.hi, tyU8, tyU16] at hv ⊢
  simp [convInt, castTo]
  (repeat' split) <;> (try simp_all) <;> omega

theorem convInt_tyU8_tyU32 (v : Int) (hv : tyU8.holds v) :
    convInt tyU8 tyU32 v = if tyU32.holds v then some v else none := by
  simp [Model.IntTy.holds, Model.IntTy.lo, Model.IntTy.hi, tyU8, tyU32] at hv ⊢
  simp [convInt, castTo]
  (repeat' split) <;> (try simp_all) <;> omega

theorem convInt_tyU8_tyU64 (v : Int) (hv : tyU8.holds v) :
    convInt tyU8 tyU64 v = if tyU64.holds v then some v else none := by
  simp [Model.IntTy.holds, Model.IntTy.lo, Model.IntTy.hi, tyU8, tyU64] at hv ⊢
  simp [convInt, castTo]
  (repeat' split) <;> (try simp_all) <;> omega

theorem convInt_tyU8_tyChar (v : Int) (hv : tyU8.holds v) :
    convInt tyU8 tyChar v = if tyChar.holds v then some v else none := by
  simp [Model.IntTy.holds, Model.IntTy.lo, Model.IntTy.hi, tyU8, tyChar] at hv ⊢
  simp [convInt, castTo]
  (repeat' split) <;> (try simp_all) <;> omega

theorem convInt_tyU8_tyI8 (v : Int) (hv : tyU8.holds v) :
    convInt tyU8 tyI8 v = if tyI8.holds v then some v else none := by
  simp [Model.IntTy.holds, Model.IntTy.lo, Model.IntTy.hi, tyU8, tyI8] at hv ⊢
  simp [convInt, castTo]
  (repeat' split) <;> (try simp_all) <;> omega

theorem convInt_tyU8_tyI16 (v : Int) (hv : tyU8.holds v) :
    convInt tyU8 tyI16 v = if tyI16.holds v then some v else none := by
  simp [Model.IntTy.holds, Model.IntTy.lo, Model.IntTy.hi, tyU8, tyI16] at hv ⊢
  simp [convInt, castTo]
  (repeat' split) <;> (try simp_all) <;> omega

theorem convInt_tyU8_tyI32 (v : Int) (hv : tyU8.holds v) :
    convInt tyU8 tyI32 v = if tyI32.holds v then some v else none := by
  simp [Model.IntTy.holds, Model.IntTy.lo, Model.IntTy.hi, tyU8, tyI32] at hv ⊢
  simp [convInt, castTo]
  (repeat' split) <;> (try simp_all) <;> omega

theorem convInt_tyU8_tyI64 (v : Int) (hv : tyU8.holds v) :
    convInt tyU8 tyI64 v = if tyI64.holds v then some v else none := by
  simp [Model.IntTy.holds, Model.IntTy.lo, Model.IntTy.hi, tyU8, tyI64] at hv ⊢
  simp [convInt, castTo]
  (repeat' split) <;> (try simp_all) <;> omega

theorem convInt_tyU16_tyBool (v : Int) (hv : tyU16.holds v) :
    convInt tyU16 tyBool v = if tyBool.holds v then some v else none := by
  simp [Model.IntTy.holds, Model.IntTy.lo, Model.IntTy.hi, tyU16, tyBool] at hv ⊢
  simp [convInt, castTo]
  (repeat' split) <;> (try simp_all) <;> omega

theorem convInt_tyU16_tyU8 (v : Int) (hv : tyU16.holds v) :
    convInt tyU16 tyU8 v = if tyU8.holds v then some v else none := by
  simp [Model.IntTy.holds, Model.IntTy.lo, Model.IntTy.hi, tyU16, tyU8] at hv ⊢
  simp [convInt, castTo]
  (repeat' split) <;> (try simp_all) <;> omega

theorem convInt_tyU16_tyU16 (v : Int) (hv : tyU16.holds v) :
    convInt tyU16 tyU16 v = if tyU16.holds v then some v else none := by
  simp [Model.IntTy.holds, Model.IntTy.lo, Model.IntTy.hi, tyU16, tyU16] at hv ⊢
  simp [convInt, castTo]
  (repeat' split) <;> (try simp_all) <;> omega

theorem convInt_tyU16_tyU32 (v : Int) (hv : tyU16.holds v) :
    convInt tyU16 tyU32 v = if tyU32.holds v then some v else none := by
  simp [Model.IntTy.holds, Model.IntTy.lo, Model.IntTy.hi, tyU16, tyU32] at hv ⊢
  simp [convInt, castTo]
  (repeat' split) <;> (try simp_all) <;> omega

theorem convInt_tyU16_tyU64 (v : Int) (hv : tyU16.holds v) :
    convInt tyU16 tyU64 v = if tyU64.holds v then some v else none := by
  simp [Model.IntTy.holds, Model.IntTy.lo, Model.IntTy.hi, tyU16, tyU64] at hv ⊢
  simp [convInt, castTo]
  (repeat' split) <;> (try simp_all) <;> omega

theorem convInt_tyU16_tyChar (v : Int) (hv : tyU16.holds v) :
    convInt tyU16 tyChar v = if tyChar.holds v then some v else none := by
  simp [Model.IntTy.holds, Model.IntTy.lo, Model.IntTy.hi, tyU16, tyChar] at hv ⊢
  simp [convInt, castTo]
  (repeat' split) <;> (try simp_all) <;> omega

theorem convInt_tyU16_tyI8 (v : Int) (hv : tyU16.holds v) :
    convInt tyU16 tyI8 v = if tyI8.holds v then some v else none := by
  simp [Model.IntTy.holds, Model.IntTy.lo, Model.IntTy.hi, tyU16, tyI8] at hv ⊢
  simp [convInt, castTo]
  (repeat' split) <;> (try simp_all) <;> omega

theorem convInt_tyU16_tyI16 (v : Int) (hv : tyU16.holds v) :
    convInt tyU16 tyI16 v = if tyI16.holds v then some v else none := by
  simp [Model.IntTy.holds, Model.IntTy.lo, Model.IntTy.hi, tyU16, tyI16] at hv ⊢
  simp [convInt, castTo]
  (repeat' split) <;> (try simp_all) <;> omega

theorem convInt_tyU16_tyI32 (v : Int) (hv : tyU16.holds v) :
    convInt tyU16 tyI32 v = if tyI32.holds v then some v else none := by
  simp [Model.IntTy.holds, Model.IntTy.lo, Model.IntTy.hi, tyU16, tyI32] at hv ⊢
  simp [convInt, castTo]
  (repeat' split) <;> (try simp_all) <;> omega

theorem convInt_tyU16_tyI64 (v : Int) (hv : tyU16.holds v) :
    convInt tyU16 tyI64 v = if tyI64.holds v then some v else none := by
  simp [Model.IntTy.holds, Model.IntTy.lo, Model.IntTy.hi, tyU16, tyI64] at hv ⊢
  simp [convInt, castTo]
  (repeat' split) <;> (try simp_all) <;> omega

theorem convInt_tyU32_tyBool (v : Int) (hv : tyU32.holds v) :
    convInt tyU32 tyBool v = if tyBool.holds v then some v else none := by
  simp [Model.IntTy.holds, Model.IntTy.lo, Model.IntTy.hi, tyU32, tyBool] at hv ⊢
  simp [convInt, castTo]
  (repeat' split) <;> (try simp_all) <;> omega

theorem convInt_tyU32_tyU8 (v : Int) (hv : tyU32.holds v) :
    convInt tyU32 tyU8 v = if tyU8.holds v then some v else none := by
  simp [Model.IntTy.holds, Model.IntTy.lo, Model.IntTy.hi, tyU32, tyU8] at hv ⊢
  simp [convInt, castTo]
  (repeat' split) <;> (try simp_all) <;> omega

theorem convInt_tyU32_tyU16 (v : Int) (hv : tyU32.holds v) :
    convInt tyU32 tyU16 v = if tyU16.holds v then some v else none := by
  simp [Model.IntTy.holds, Model.IntTy.lo, Model.IntTy.hi, tyU32, tyU16] at hv ⊢
  simp [convInt, castTo]
  (repeat' split) <;> (try simp_all) <;> omega

theorem convInt_tyU32_tyU32 (v : Int) (hv : tyU32.holds v) :
    convInt tyU32 tyU32 v = if tyU32.holds v then some v else none := by
  simp [Model.IntTy.holds, Model.IntTy.lo, Model.IntTy.hi, tyU32, tyU32] at hv ⊢
  simp [convInt, castTo]
  (repeat' split) <;> (try simp_all) <;> omega

theorem convInt_tyU32_tyU64 (v : Int) (hv : tyU32.holds v) :
    convInt tyU32 tyU64 v = if tyU64.holds v then some v else none := by
  simp [Model.IntTy.holds, Model.IntTy.lo, Model.IntTy.hi, tyU32, tyU64] at hv ⊢
  simp [convInt, castTo]
  (repeat' split) <;> (try simp_all) <;> omega

theorem convInt_tyU32_tyChar (v : Int) (hv : tyU32.holds v) :
    convInt tyU32 tyChar v = if tyChar.holds v then some v else none := by
  simp [Model.IntTy.holds, Model.IntTy.lo, Model.IntTy.hi, tyU32, tyChar] at hv ⊢
  simp [convInt, castTo]
  (repeat' split) <;> (try simp_all) <;> omega

theorem convInt_tyU32_tyI8 (v : Int) (hv : tyU32.holds v) :
    convInt tyU32 tyI8 v = if tyI8.holds v then some v else none := by
  simp [Model.IntTy.holds, Model.IntTy.lo, Model.IntTy.hi, tyU32, tyI8] at hv ⊢
  simp [convInt, castTo]
  (repeat' split) <;> (try simp_all) <;> omega

theorem convInt_tyU32_tyI16 (v : Int) (hv : tyU32.holds v) :
    convInt tyU32 tyI16 v = if tyI16.holds v then some v else none := by
  simp [Model.IntTy.holds, Model.IntTy.lo, Model.IntTy.hi, tyU32, tyI16] at hv ⊢
  simp [convInt, castTo]
  (repeat' split) <;> (try simp_all) <;> omega

theorem convInt_tyU32_tyI32 (v : Int) (hv : tyU32.holds v) :
    convInt tyU32 tyI32 v = if tyI32.holds v then some v else none := by
  simp [Model.IntTy.holds, Model.IntTy.lo, Model.IntTy.hi, tyU32, tyI32] at hv ⊢
  simp [convInt, castTo]
  (repeat' split) <;> (try simp_all) <;> omega

theorem convInt_tyU32_tyI64 (v : Int) (hv : tyU32.holds v) :
    convInt tyU32 tyI64 v = if tyI64.holds v then some v else none := by
  simp [Model.IntTy.holds, Model.IntTy.lo, Model.IntTy.hi, tyU32, tyI64] at hv ⊢
  simp [convInt, castTo]
  (repeat' split) <;> (try simp_all) <;> omega

theorem convInt_tyU64_tyBool (v : Int) (hv : tyU64.holds v) :
    convInt tyU64 tyBool v = if tyBool.holds v then some v else none := by
  simp [Model.IntTy.holds, Model.IntTy.lo, Model.IntTy.hi, tyU64, tyBool] at hv ⊢
  simp [convInt, castTo]
  (repeat' split) <;> (try simp_all) <;> omega

theorem convInt_tyU64_tyU8 (v : Int) (hv : tyU64.holds v) :
    convInt tyU64 tyU8 v = if tyU8.holds v then some v else none := by
  simp [Model.IntTy.holds, Model.IntTy.lo, Model.IntTy.hi, tyU64, tyU8] at hv ⊢
  simp [convInt, castTo]
  (repeat' split) <;> (try simp_all) <;> omega

theorem convInt_tyU64_tyU16 (v : Int) (hv : tyU64.holds v) :
    convInt tyU64 tyU16 v = if tyU16.holds v then some v else none := by
  simp [Model.IntTy.holds, Model.IntTy.lo, Model.IntTy.hi, tyU64, tyU16] at hv ⊢
  simp [convInt, castTo]
  (repeat' split) <;> (try simp_all) <;> omega

theorem convInt_tyU64_tyU32 (v : Int) (hv : tyU64.holds v) :
    convInt tyU64 tyU32 v = if tyU32.holds v then some v else none := by
  simp [Model.IntTy.holds, Model.IntTy.lo, Model.IntTy.hi, tyU64, tyU32] at hv ⊢
  simp [convInt, castTo]
  (repeat' split) <;> (try simp_all) <;> omega

theorem convInt_tyU64_tyU64 (v : Int) (hv : tyU64.holds v) :
    convInt tyU64 tyU64 v = if tyU64.holds v then some v else none := by
  simp [Model.IntTy.holds, Model.IntTy.lo, Model.IntTy.hi, tyU64, tyU64] at hv ⊢
  simp [convInt, castTo]
  (repeat' split) <;> (try simp_all) <;> omega

theorem convInt_tyU64_tyChar (v : Int) (hv : tyU64.holds v) :
    convInt tyU64 tyChar v = if tyChar.holds v then some v else none := by
  simp [Model.IntTy.holds, Model.IntTy.lo, Model.IntTy.hi, tyU64, tyChar] at hv ⊢
  simp [convInt, castTo]
  (repeat' split) <;> (try simp_all) <;> omega

theorem convInt_tyU64_tyI8 (v : Int) (hv : tyU64.holds v) :
    convInt tyU64 tyI8 v = if tyI8.holds v then some v else none := by
  simp [Model.IntTy.holds, Model.IntTy.lo, Model.IntTy.hi, tyU64, tyI8] at hv ⊢
  simp [convInt, castTo]
  (repeat' split) <;> (try simp_all) <;> omega

theorem convInt_tyU64_tyI16 (v : Int) (hv : tyU64.holds v) :
    convInt tyU64 tyI16 v = if tyI16.holds v then some v else none := by
  simp [Model.IntTy.holds, Model.IntTy.lo, Model.IntTy.hi, tyU64, tyI16] at hv ⊢
  simp [convInt, castTo]
  (repeat' split) <;> (try simp_all) <;> omega

theorem convInt_tyU64_tyI32 (v : Int) (hv : tyU64.holds v) :
    convInt tyU64 tyI32 v = if tyI32.holds v then some v else none := by
  simp [Model.IntTy.holds, Model.IntTy.lo, Model.IntTy.hi, tyU64, tyI32] at hv ⊢
  simp [convInt, castTo]
  (repeat' split) <;> (try simp_all) <;> omega

theorem convInt_tyU64_tyI64 (v : Int) (hv : tyU64.holds v) :
    convInt tyU64 tyI64 v = if tyI64.holds v then some v else none := by
  simp [Model.IntTy.holds, Model.IntTy.lo, Model.IntTy.hi, tyU64, tyI64] at hv ⊢
  simp [convInt, castTo]
  (repeat' split) <;> (try simp_all) <;> omega

theorem convInt_tyI16_tyBool (v : Int) (hv : tyI16.holds v) :
    convInt tyI16 tyBool v = if tyBool.holds v then some v else none := by
  simp [Model.IntTy.holds, Model.IntTy.lo, Model.IntTy.hi, tyI16, tyBool] at hv ⊢
  simp [convInt, castTo]
  (repeat' split) <;> (try simp_all) <;> omega

theorem convInt_tyI16_tyU8 (v : Int) (hv : tyI16.holds v) :
    convInt tyI16 tyU8 v = if tyU8.holds v then some v else none := by
  simp [Model.IntTy.holds, Model.IntTy.lo, Model.IntTy.hi, tyI16, tyU8] at hv ⊢
  simp [convInt, castTo]
  (repeat' split) <;> (try simp_all) <;> omega

theorem convInt_tyI16_tyU16 (v : Int) (hv : tyI16.holds v) :
    convInt tyI16 tyU16 v = if tyU16.holds v then some v else none := by
  simp [Model.IntTy.holds, Model.IntTy.lo, Model.IntTy.hi, tyI16, tyU16] at hv ⊢
  simp [convInt, castTo]
  (repeat' split) <;> (try simp_all) <;> omega

theorem convInt_tyI16_tyU32 (v : Int) (hv : tyI16.holds v) :
    convInt tyI16 tyU32 v = if tyU32.holds v then some v else none := by
  simp [Model.IntTy.holds, Model.IntTy.lo, Model.IntTy.hi, tyI16, tyU32] at hv ⊢
  simp [convInt, castTo]
  (repeat' split) <;> (try simp_all) <;> omega

theorem convInt_tyI16_tyU64 (v : Int) (hv : tyI16.holds v) :
    convInt tyI16 tyU64 v = if tyU64.holds v then some v else none := by
  simp [Model.IntTy.holds, Model.IntTy.lo, Model.IntTy.hi, tyI16, tyU64] at hv ⊢
  simp [convInt, castTo]
  (repeat' split) <;> (try simp_all) <;> omega

theorem convInt_tyI16_tyChar (v : Int) (hv : tyI16.holds v) :
    convInt tyI16 tyChar v = if tyChar.holds v then some v else none := by
  simp [Model.IntTy.holds, Model.IntTy.lo, Model.IntTy.hi, tyI16, tyChar] at hv ⊢
  simp [convInt, castTo]
  (repeat' split) <;> (try simp_all) <;> omega

theorem convInt_tyI16_tyI8 (v : Int) (hv : tyI16.holds v) :
    convInt tyI16 tyI8 v = if tyI8.holds v then some v else none := by
  simp [Model.IntTy.holds, Model.IntTy.lo, Model.IntTy.hi, tyI16, tyI8] at hv ⊢
  simp [convInt, castTo]
  (repeat' split) <;> (try simp_all) <;> omega

theorem convInt_tyI16_tyI16 (v : Int) (hv : tyI16.holds v) :
    convInt tyI16 tyI16 v = if tyI16.holds v then some v else none := by
  simp [Model.IntTy.holds, Model.IntTy.lo, Model.IntTy.hi, tyI16, tyI16] at hv ⊢
  simp [convInt, castTo]
  (repeat' split) <;> (try simp_all) <;> omega

theorem convInt_tyI16_tyI32 (v : Int) (hv : tyI16.holds v) :
    convInt tyI16 tyI32 v = if tyI32.holds v then some v else none := by
  simp [Model.IntTy.holds, Model.IntTy.lo, Model.IntTy.hi, tyI16, tyI32] at hv ⊢
  simp [convInt, castTo]
  (repeat' split) <;> (try simp_all) <;> omega

theorem convInt_tyI16_tyI64 (v : Int) (hv : tyI16.holds v) :
    convInt tyI16 tyI64 v = if tyI64.holds v then some v else none := by
  simp [Model.IntTy.holds, Model.IntTy.lo, Model.IntTy.hi, tyI16, tyI64] at hv ⊢
  simp [convInt, castTo]
  (repeat' split) <;> (try simp_all) <;> omega

theorem convInt_tyI32_tyBool (v : Int) (hv : tyI32.holds v) :
    convInt tyI32 tyBool v = if tyBool.holds v then some v else none := by
  simp [Model.IntTy.holds, Model.IntTy.lo, Model.IntTy.hi, tyI32, tyBool] at hv ⊢
  simp [convInt, castTo]
  (repeat' split) <;> (try simp_all) <;> omega

theorem convInt_tyI32_tyU8 (v : Int) (hv : tyI32.holds v) :
    convInt tyI32 tyU8 v = if tyU8.holds v then some v else none := by
  simp [Model.IntTy.holds, Model.IntTy.lo, Model.IntTy.hi, tyI32, tyU8] at hv ⊢
  simp [convInt, castTo]
  (repeat' split) <;> (try simp_all) <;> omega

theorem convInt_tyI32_tyU16 (v : Int) (hv : tyI32.holds v) :
    convInt tyI32 tyU16 v = if tyU16.holds v then some v else none := by
  simp [Model.IntTy.holds, Model.IntTy.lo, Model.IntTy.hi, tyI32, tyU16] at hv ⊢
  simp [convInt, castTo]
  (repeat' split) <;> (try simp_all) <;> omega

theorem convInt_tyI32_tyU32 (v : Int) (hv : tyI32.holds v) :
    convInt tyI32 tyU32 v = if tyU32.holds v then some v else none := by
  simp [Model.IntTy.holds, Model.IntTy.lo, Model.IntTy.hi, tyI32, tyU32] at hv ⊢
  simp [convInt, castTo]
  (repeat' split) <;> (try simp_all) <;> omega

theorem convInt_tyI32_tyU64 (v : Int) (hv : tyI32.holds v) :
    convInt tyI32 tyU64 v = if tyU64.holds v then some v else none := by
  simp [Model.IntTy.holds, Model.IntTy.lo, Model.IntTy.hi, tyI32, tyU64] at hv ⊢
  simp [convInt, castTo]
  (repeat' split) <;> (try simp_all) <;> omega

theorem convInt_tyI32_tyChar (v : Int) (hv : tyI32.holds v) :
    convInt tyI32 tyChar v = if tyChar.holds v then some v else none := by
  simp [Model.IntTy.holds, Model.IntTy.lo, Model.IntTy.hi, tyI32, tyChar] at hv ⊢
  simp [convInt, castTo]
  (repeat' split) <;> (try simp_all) <;> omega

theorem convInt_tyI32_tyI8 (v : Int) (hv : tyI32.holds v) :
    convInt tyI32 tyI8 v = if tyI8.holds v then some v else none := by
  simp [Model.IntTy.holds, Model.IntTy.lo, Model.IntTy.hi, tyI32, tyI8] at hv ⊢
  simp [convInt, castTo]
  (repeat' split) <;> (try simp_all) <;> omega

theorem convInt_tyI32_tyI16 (v : Int) (hv : tyI32.holds v) :
    convInt tyI32 tyI16 v = if tyI16.holds v then some v else none := by
  simp [Model.IntTy.holds, Model.IntTy.lo, Model.IntTy.hi, tyI32, tyI16] at hv ⊢
  simp [convInt, castTo]
  (repeat' split) <;> (try simp_all) <;> omega

theorem convInt_tyI32_tyI32 (v : Int) (hv : tyI32.holds v) :
    convInt tyI32 tyI32 v = if tyI32.holds v then some v else none := by
  simp [Model.IntTy.holds, Model.IntTy.lo, Model.IntTy.hi, tyI32, tyI32] at hv ⊢
  simp [convInt, castTo]
  (repeat' split) <;> (try simp_all) <;> omega

theorem convInt_tyI32_tyI64 (v : Int) (hv : tyI32.holds v) :
    convInt tyI32 tyI64 v = if tyI64.holds v then some v else none := by
  simp [Model.IntTy.holds, Model.IntTy.lo, Model.IntTy.hi, tyI32, tyI64] at hv ⊢
  simp [convInt, castTo]
  (repeat' split) <;> (try simp_all) <;> omega

theorem convInt_tyI64_tyBool (v : Int) (hv : tyI64.holds v) :
    convInt tyI64 tyBool v = if tyBool.holds v then some v else none := by
  simp [Model.IntTy.holds, Model.IntTy.lo, Model.IntTy.hi, tyI64, tyBool] at hv ⊢
  simp [convInt, castTo]
  (repeat' split) <;> (try simp_all) <;> omega

theorem convInt_tyI64_tyU8 (v : Int) (hv : tyI64.holds v) :
    convInt tyI64 tyU8 v = if tyU8.holds v then some v else none := by
  simp [Model.IntTy.holds, Model.IntTy.lo, Model.IntTy.hi, tyI64, tyU8] at hv ⊢
  simp [convInt, castTo]
  (repeat' split) <;> (try simp_all) <;> omega

theorem convInt_tyI64_tyU16 (v : Int) (hv : tyI64.holds v) :
    convInt tyI64 tyU16 v = if tyU16.holds v then some v else none := by
  simp [Model.IntTy.holds, Model.IntTy.lo, Model.IntTy.hi, tyI64, tyU16] at hv ⊢
  simp [convInt, castTo]
  (repeat' split) <;> (try simp_all) <;> omega

theorem convInt_tyI64_tyU32 (v : Int) (hv : tyI64.holds v) :
    convInt tyI64 tyU32 v = if tyU32.holds v then some v else none := by
  simp [Model.IntTy.holds, Model.IntTy.lo, Model.IntTy.hi, tyI64, tyU32] at hv ⊢
  simp [convInt, castTo]
  (repeat' split) <;> (try simp_all) <;> omega

theorem convInt_tyI64_tyU64 (v : Int) (hv : tyI64.holds v) :
    convInt tyI64 tyU64 v = if tyU64.holds v then some v else none := by
  simp [Model.IntTy.holds, Model.IntTy.lo, Model.IntTy.hi, tyI64, tyU64] at hv ⊢
  simp [convInt, castTo]
  (repeat' split) <;> (try simp_all) <;> omega

theorem convInt_tyI64_tyChar (v : Int) (hv : tyI64.holds v) :
    convInt tyI64 tyChar v = if tyChar.holds v then some v else none := by
  simp [Model.IntTy.holds, Model.IntTy.lo, Model.IntTy.hi, tyI64, tyChar] at hv ⊢
  simp [convInt, castTo]
  (repeat' split) <;> (try simp_all) <;> omega

theorem convInt_tyI64_tyI8 (v : Int) (hv : tyI64.holds v) :
    convInt tyI64 tyI8 v = if tyI8.holds v then some v else none := by
  simp [Model.IntTy.holds, Model.IntTy.lo, Model.IntTy.hi, tyI64, tyI8] at hv ⊢
  simp [convInt, castTo]
  (repeat' split) <;> (try simp_all) <;> omega

theorem convInt_tyI64_tyI16 (v : Int) (hv : tyI64.holds v) :
    convInt tyI64 tyI16 v = if tyI16.holds v then some v else none := by
  simp [Model.IntTy.holds, Model.IntTy.lo, Model.IntTy.hi, tyI64, tyI16] at hv ⊢
  simp [convInt, castTo]
  (repeat' split) <;> (try simp_all) <;> omega

theorem convInt_tyI64_tyI32 (v : Int) (hv : tyI64.holds v) :
    convInt tyI64 tyI32 v = if tyI32.holds v then some v else none := by
  simp [Model.IntTy.holds, Model.IntTy.lo, Model.IntTy.hi, tyI64, tyI32] at hv ⊢
  simp [convInt, castTo]
  (repeat' split) <;> (try simp_all) <;> omega

theorem convInt_tyI64_tyI64 (v : Int) (hv : tyI64.holds v) :
    convInt tyI64 tyI64 v = if tyI64.holds v then some v else none := by
  simp [Model.IntTy.holds, Model.IntTy.lo, Model.IntTy.hi, tyI64, tyI64] at hv ⊢
  simp [convInt, castTo]
  (repeat' split) <;> (try simp_all) <;> omega

/-- `Convert::Detail::To` (cast, cast back, compare, sign test) succeeds exactly when the value is in
    the target's range, and then delivers the value itself — for every wire type x every target. -/
theorem convInt_spec (src tgt : IntTy) (hs : src ∈ srcTypes) (ht : tgt ∈ tgtTypes) (v : Int) (hv : src.holds v) :
    convInt src tgt v = if tgt.holds v then some v else none := by
  simp only [srcTypes, tgtTypes, List.mem_cons, List.mem_nil_iff, or_false] at hs ht
  rcases hs with rfl | rfl | rfl | rfl | rfl | rfl | rfl | rfl
  · rcases ht with rfl | rfl | rfl | rfl | rfl | rfl | rfl | rfl | rfl | rfl
    · exact convInt_tyI8_tyBool v hv
    · exact convInt_tyI8_tyU8 v hv
    · exact convInt_tyI8_tyU16 v hv
    · exact convInt_tyI8_tyU32 v hv
    · exact convInt_tyI8_tyU64 v hv
    · exact convInt_tyI8_tyChar v hv
    · exact convInt_tyI8_tyI8 v hv
    · exact convInt_tyI8_tyI16 v hv
    · exact convInt_tyI8_tyI32 v hv
    · exact convInt_tyI8_tyI64 v hv
  · rcases ht with rfl | rfl | rfl | rfl | rfl | rfl | rfl | rfl | rfl | rfl
    · exact convInt_tyU8_tyBool v hv
    · exact convInt_tyU8_tyU8 v hv
    · exact convInt_tyU8_tyU16 v hv
    · exact convInt_tyU8_tyU32 v hv
    · exact convInt_tyU8_tyU64 v hv
    · exact convInt_tyU8_tyChar v hv
    · exact convInt_tyU8_tyI8 v hv
    · exact convInt_tyU8_tyI16 v hv
    · exact convInt_tyU8_tyI32 v hv
    · exact convInt_tyU8_tyI64 v hv
  · rcases ht with rfl | rfl | rfl | rfl | rfl | rfl | rfl | rfl | rfl | rfl
    · exact convInt_tyU16_tyBool v hv
    · exact convInt_tyU16_tyU8 v hv
    · exact convInt_tyU16_tyU16 v hv
    · exact convInt_tyU16_tyU32 v hv
    · exact convInt_tyU16_tyU64 v hv
    · exact convInt_tyU16_tyChar v hv
    · exact convInt_tyU16_tyI8 v hv
    · exact convInt_tyU16_tyI16 v hv
    · exact convInt_tyU16_tyI32 v hv
    · exact convInt_tyU16_tyI64 v hv
  · rcases ht with rfl | rfl | rfl | rfl | rfl | rfl | rfl | rfl | rfl | rfl
    · exact convInt_tyU32_tyBool v hv
    · exact convInt_tyU32_tyU8 v hv
    · exact convInt_tyU32_tyU16 v hv
    · exact convInt_tyU32_tyU32 v hv
    · exact convInt_tyU32_tyU64 v hv
    · exact convInt_tyU32_tyChar v hv
    · exact convInt_tyU32_tyI8 v hv
    · exact convInt_tyU32_tyI16 v hv
    · exact convInt_tyU32_tyI32 v hv
    · exact convInt_tyU32_tyI64 v hv
  · rcases ht with rfl | rfl | rfl | rfl | rfl | rfl | rfl | rfl | rfl | rfl
    · exact convInt_tyU64_tyBool v hv
    · exact convInt_tyU64_tyU8 v hv
    · exact convInt_tyU64_tyU16 v hv
    · exact convInt_tyU64_tyU32 v hv
    · exact convInt_tyU64_tyU64 v hv
    · exact convInt_tyU64_tyChar v hv
    · exact convInt_tyU64_tyI8 v hv
    · exact convInt_tyU64_tyI16 v hv
    · exact convInt_tyU64_tyI32 v hv
    · exact convInt_tyU64_tyI64 v hv
  · rcases ht with rfl | rfl | rfl | rfl | rfl | rfl | rfl | rfl | rfl | rfl
    · exact convInt_tyI16_tyBool v hv
    · exact convInt_tyI16_tyU8 v hv
    · exact convInt_tyI16_tyU16 v hv
    · exact convInt_tyI16_tyU32 v hv
    · exact convInt_tyI16_tyU64 v hv
    · exact convInt_tyI16_tyChar v hv
    · exact convInt_tyI16_tyI8 v hv
    · exact convInt_tyI16_tyI16 v hv
    · exact convInt_tyI16_tyI32 v hv
    · exact convInt_tyI16_tyI64 v hv
  · rcases ht with rfl | rfl | rfl | rfl | rfl | rfl | rfl | rfl | rfl | rfl
    · exact convInt_tyI32_tyBool v hv
    · exact convInt_tyI32_tyU8 v hv
    · exact convInt_tyI32_tyU16 v hv
    · exact convInt_tyI32_tyU32 v hv
    · exact convInt_tyI32_tyU64 v hv
    · exact convInt_tyI32_tyChar v hv
    · exact convInt_tyI32_tyI8 v hv
    · exact convInt_tyI32_tyI16 v hv
    · exact convInt_tyI32_tyI32 v hv
    · exact convInt_tyI32_tyI64 v hv
  · rcases ht with rfl | rfl | rfl | rfl | rfl | rfl | rfl | rfl | rfl | rfl
    · exact convInt_tyI64_tyBool v hv
    · exact convInt_tyI64_tyU8 v hv
    · exact convInt_tyI64_tyU16 v hv
    · exact convInt_tyI64_tyU32 v hv
    · exact convInt_tyI64_tyU64 v hv
    · exact convInt_tyI64_tyChar v hv
    · exact convInt_tyI64_tyI8 v hv
    · exact convInt_tyI64_tyI16 v hv
    · exact convInt_tyI64_tyI32 v hv
    · exact convInt_tyI64_tyI64 v hv

theorem getValue_on_be (k : Nat) (hk : WidthOk k) (bs : Bytes) (hb : BytesOk bs) (p n : Nat) (hn : n < 256 ^ k)
    (rest : Bytes) (hd : bs.drop p = beBytes k n ++ rest) : getValue k bs p = .ok (n, p + k) := by
  rw [getValue_eq k hk bs hb p, hd, takeN_beBytes]
  simp [beNat_beBytes k n hn]

theorem castTo_id (t : IntTy) (ht : t ∈ srcTypes) (v : Int) (h : t.holds v) : castTo t v = v := by
  simp only [srcTypes, List.mem_cons, List.mem_nil_iff, or_false] at ht
  rcases ht with rfl | rfl | rfl | rfl | rfl | rfl | rfl | rfl <;>
  (simp [Model.IntTy.holds, Model.IntTy.lo, Model.IntTy.hi, tyU8, tyU16, tyU32, tyU64, tyI8, tyI16, tyI32, tyI64] at h
   simp [castTo, tyU8, tyU16, tyU32, tyU64, tyI8, tyI16, tyI32, tyI64]
   (repeat' split) <;> omega)

/-- reading an unsigned wire format `code ++ be(k, n)` -/
theorem readInteger_body (tgt : IntTy) (ht : tgt ∈ tgtTypes) (o : Opts) (src : IntTy) (hs : src ∈ srcTypes) (k : Nat) (hk : WidthOk k)
    (bs : Bytes) (hb : BytesOk bs) (pos n : Nat) (hn : n < 256 ^ k) (rest : Bytes)
    (hd : bs.drop (pos + 1) = beBytes k n ++ rest) (v : Int) (hv : castTo src (Int.ofNat n) = v) (hh : src.holds v) :
    readIntBody src tgt o k bs pos
      = convertByPolicy (if tgt.holds v then some v else none) o (pos + 1 + k) := by
  unfold readIntBody
  rw [getValue_on_be k hk bs hb (pos + 1) n hn rest hd]
  simp only [hv, convInt_spec src tgt hs ht v hh]

/-- `ReadInteger<T>` on ANY legal integer format of a value: in range -> the value, otherwise the overflow
    policy; the position is behind the token in both cases. -/
theorem readInteger_on_encoding (tgt : IntTy) (ht : tgt ∈ tgtTypes) (o : Opts) (f : Format) (v : Int) (enc : Bytes)
    (he : encodeAs f (.int v) = some enc) (bs : Bytes) (hb : BytesOk bs) (pos : Nat) (rest : Bytes)
    (hd : bs.drop pos = enc ++ rest) :
    readInteger tgt o bs pos = convertByPolicy (if tgt.holds v then some v else none) o (pos + enc.length) := by
  cases f <;> try (simp [encodeAs] at he; done)
  case posFixint =>
    simp only [encodeAs] at he; split at he <;> simp at he; subst he
    rename_i hl
    obtain ⟨h1, h2, h3⟩ := drop_cons_facts hd
    have hc : castTo tyI8 (Int.ofNat v.toNat) = v := by
      rw [ofNat_toNat v hl.1]; exact castTo_id tyI8 (by simp [srcTypes]) v (by simp [Model.IntTy.holds, Model.IntTy.lo, Model.IntTy.hi, tyI8]; omega)
    have hh : tyI8.holds v := by simp [Model.IntTy.holds, Model.IntTy.lo, Model.IntTy.hi, tyI8]; omega
    simp only [readInteger, h1]
    rw [if_pos (Or.inl (by omega)), hc, convInt_spec tyI8 tgt (by simp [srcTypes]) ht v hh]
    simp
  case negFixint =>
    simp only [encodeAs] at he; split at he <;> simp at he; subst he
    rename_i hl
    obtain ⟨h1, h2, h3⟩ := drop_cons_facts hd
    have hc : castTo tyI8 (Int.ofNat (v + 256).toNat) = v := by
      simp [castTo, tyI8]; (repeat' split) <;> omega
    have hh : tyI8.holds v := by simp [Model.IntTy.holds, Model.IntTy.lo, Model.IntTy.hi, tyI8]; omega
    simp only [readInteger, h1]
    rw [if_pos (Or.inr (by omega)), hc, convInt_spec tyI8 tgt (by simp [srcTypes]) ht v hh]
    simp
  case uint8 =>
    simp only [encodeAs, encUInt] at he; split at he <;> simp at he; subst he
    rename_i hl
    obtain ⟨h1, h2, h3⟩ := drop_cons_facts hd
    have hn : v.toNat < 256 ^ 1 := by have := hl.2; simp at this ⊢; omega
    have hc : castTo tyU8 (Int.ofNat v.toNat) = v := by
      rw [ofNat_toNat v hl.1]; exact castTo_id tyU8 (by simp [srcTypes]) v (by have := hl.2; simp [Model.IntTy.holds, Model.IntTy.lo, Model.IntTy.hi, tyU8] at this ⊢; omega)
    have hh : tyU8.holds v := by have := hl.2; simp [Model.IntTy.holds, Model.IntTy.lo, Model.IntTy.hi, tyU8] at this ⊢; omega
    have := readInteger_body tgt ht o tyU8 (by simp [srcTypes]) 1 (by simp [WidthOk]) bs hb pos v.toNat hn rest h2 v hc hh
    simp only [readInteger, h1]
    rw [show pos + 1 + 1 = pos + (1 + 1) from by omega] at this
    simpa using this
  case uint16 =>
    simp only [encodeAs, encUInt] at he; split at he <;> simp at he; subst he
    rename_i hl
    obtain ⟨h1, h2, h3⟩ := drop_cons_facts hd
    have hn : v.toNat < 256 ^ 2 := by have := hl.2; simp at this ⊢; omega
    have hc : castTo tyU16 (Int.ofNat v.toNat) = v := by
      rw [ofNat_toNat v hl.1]; exact castTo_id tyU16 (by simp [srcTypes]) v (by have := hl.2; simp [Model.IntTy.holds, Model.IntTy.lo, Model.IntTy.hi, tyU16] at this ⊢; omega)
    have hh : tyU16.holds v := by have := hl.2; simp [Model.IntTy.holds, Model.IntTy.lo, Model.IntTy.hi, tyU16] at this ⊢; omega
    have := readInteger_body tgt ht o tyU16 (by simp [srcTypes]) 2 (by simp [WidthOk]) bs hb pos v.toNat hn rest h2 v hc hh
    simp only [readInteger, h1]
    rw [show pos + 1 + 2 = pos + (2 + 1) from by omega] at this
    simpa using this
  case uint32 =>
    simp only [encodeAs, encUInt] at he; split at he <;> simp at he; subst he
    rename_i hl
    obtain ⟨h1, h2, h3⟩ := drop_cons_facts hd
    have hn : v.toNat < 256 ^ 4 := by have := hl.2; simp at this ⊢; omega
    have hc : castTo tyU32 (Int.ofNat v.toNat) = v := by
      rw [ofNat_toNat v hl.1]; exact castTo_id tyU32 (by simp [srcTypes]) v (by have := hl.2; simp [Model.IntTy.holds, Model.IntTy.lo, Model.IntTy.hi, tyU32] at this ⊢; omega)
    have hh : tyU32.holds v := by have := hl.2; simp [Model.IntTy.holds, Model.IntTy.lo, Model.IntTy.hi, tyU32] at this ⊢; omega
    have := readInteger_body tgt ht o tyU32 (by simp [srcTypes]) 4 (by simp [WidthOk]) bs hb pos v.toNat hn rest h2 v hc hh
    simp only [readInteger, h1]
    rw [show pos + 1 + 4 = pos + (4 + 1) from by omega] at this
    simpa using this
  case uint64 =>
    simp only [encodeAs, encUInt] at he; split at he <;> simp at he; subst he
    rename_i hl
    obtain ⟨h1, h2, h3⟩ := drop_cons_facts hd
    have hn : v.toNat < 256 ^ 8 := by have := hl.2; simp at this ⊢; omega
    have hc : castTo tyU64 (Int.ofNat v.toNat) = v := by
      rw [ofNat_toNat v hl.1]; exact castTo_id tyU64 (by simp [srcTypes]) v (by have := hl.2; simp [Model.IntTy.holds, Model.IntTy.lo, Model.IntTy.hi, tyU64] at this ⊢; omega)
    have hh : tyU64.holds v := by have := hl.2; simp [Model.IntTy.holds, Model.IntTy.lo, Model.IntTy.hi, tyU64] at this ⊢; omega
    have := readInteger_body tgt ht o tyU64 (by simp [srcTypes]) 8 (by simp [WidthOk]) bs hb pos v.toNat hn rest h2 v hc hh
    simp only [readInteger, h1]
    rw [show pos + 1 + 8 = pos + (8 + 1) from by omega] at this
    simpa using this
  case int8 =>
    simp only [encodeAs, encSInt] at he; split at he <;> simp at he; subst he
    rename_i hl
    obtain ⟨h1, h2, h3⟩ := drop_cons_facts hd
    have hu : ofSigned 8 v = uimg 1 v := by simp [ofSigned, uimg]
    rw [hu] at h2
    have hc : castTo tyI8 (Int.ofNat (uimg 1 v)) = v := by
      have h0 := hl.1; have h1' := hl.2; simp at h0 h1'
      simp [castTo, tyI8, uimg]; (repeat' split) <;> omega
    have hh : tyI8.holds v := by have h0 := hl.1; have h1' := hl.2; simp at h0 h1'; simp [Model.IntTy.holds, Model.IntTy.lo, Model.IntTy.hi, tyI8]; omega
    have := readInteger_body tgt ht o tyI8 (by simp [srcTypes]) 1 (by simp [WidthOk]) bs hb pos (uimg 1 v) (uimg_lt 1 v) rest h2 v hc hh
    simp only [readInteger, h1]
    rw [show pos + 1 + 1 = pos + (1 + 1) from by omega] at this
    simpa using this
  case int16 =>
    simp only [encodeAs, encSInt] at he; split at he <;> simp at he; subst he
    rename_i hl
    obtain ⟨h1, h2, h3⟩ := drop_cons_facts hd
    have hu : ofSigned 16 v = uimg 2 v := by simp [ofSigned, uimg]
    rw [hu] at h2
    have hc : castTo tyI16 (Int.ofNat (uimg 2 v)) = v := by
      have h0 := hl.1; have h1' := hl.2; simp at h0 h1'
      simp [castTo, tyI16, uimg]; (repeat' split) <;> omega
    have hh : tyI16.holds v := by have h0 := hl.1; have h1' := hl.2; simp at h0 h1'; simp [Model.IntTy.holds, Model.IntTy.lo, Model.IntTy.hi, tyI16]; omega
    have := readInteger_body tgt ht o tyI16 (by simp [srcTypes]) 2 (by simp [WidthOk]) bs hb pos (uimg 2 v) (uimg_lt 2 v) rest h2 v hc hh
    simp only [readInteger, h1]
    rw [show pos + 1 + 2 = pos + (2 + 1) from by omega] at this
    simpa using this
  case int32 =>
    simp only [encodeAs, encSInt] at he; split at he <;> simp at he; subst he
    rename_i hl
    obtain ⟨h1, h2, h3⟩ := drop_cons_facts hd
    have hu : ofSigned 32 v = uimg 4 v := by simp [ofSigned, uimg]
    rw [hu] at h2
    have hc : castTo tyI32 (Int.ofNat (uimg 4 v)) = v := by
      have h0 := hl.1; have h1' := hl.2; simp at h0 h1'
      simp [castTo, tyI32, uimg]; (repeat' split) <;> omega
    have hh : tyI32.holds v := by have h0 := hl.1; have h1' := hl.2; simp at h0 h1'; simp [Model.IntTy.holds, Model.IntTy.lo, Model.IntTy.hi, tyI32]; omega
    have := readInteger_body tgt ht o tyI32 (by simp [srcTypes]) 4 (by simp [WidthOk]) bs hb pos (uimg 4 v) (uimg_lt 4 v) rest h2 v hc hh
    simp only [readInteger, h1]
    rw [show pos + 1 + 4 = pos + (4 + 1) from by omega] at this
    simpa using this
  case int64 =>
    simp only [encodeAs, encSInt] at he; split at he <;> simp at he; subst he
    rename_i hl
    obtain ⟨h1, h2, h3⟩ := drop_cons_facts hd
    have hu : ofSigned 64 v = uimg 8 v := by simp [ofSigned, uimg]
    rw [hu] at h2
    have hc : castTo tyI64 (Int.ofNat (uimg 8 v)) = v := by
      have h0 := hl.1; have h1' := hl.2; simp at h0 h1'
      simp [castTo, tyI64, uimg]; (repeat' split) <;> omega
    have hh : tyI64.holds v := by have h0 := hl.1; have h1' := hl.2; simp at h0 h1'; simp [Model.IntTy.holds, Model.IntTy.lo, Model.IntTy.hi, tyI64]; omega
    have := readInteger_body tgt ht o tyI64 (by simp [srcTypes]) 8 (by simp [WidthOk]) bs hb pos (uimg 8 v) (uimg_lt 8 v) rest h2 v hc hh
    simp only [readInteger, h1]
    rw [show pos + 1 + 8 = pos + (8 + 1) from by omega] at this
    simpa using this


end BSVerif.MsgPack
