/-
  Helper lemmas for C10 (MsgPack part): the stream-reader programs of MsgPack/StreamReader.lean, interpreted over the
  abstract cursor, compute exactly what the string-reader model computes (no property statements here).
-/
import BSVerif.MsgPack.StreamReader
set_option linter.unusedSimpArgs false
set_option linter.unusedVariables false

namespace BSVerif.MsgPack.StreamModel
open BSVerif BSVerif.Generated BSVerif.MsgPack.Model BSVerif.BinStream

deriving instance DecidableEq for Except

/-- a result of the string-reader model, as a result over the cursor on the same bytes -/
def lift (bs : Bytes) : Except Err (α × Nat) → AR α
  | .ok (a, p) => some (.ok (a, some ⟨bs, p⟩))
  | .error e => some (.error e)

@[simp] theorem bind_eq (p : Prog α) (f : α → Prog β) : (p >>= f) = p.bind f := rfl
@[simp] theorem pure_eq (a : α) : (pure a : Prog α) = .ret a := rfl

theorem runA_bind (N : Nat) (p : Prog α) (f : α → Prog β) (s : Option Cursor) :
    runA N (p.bind f) s =
      match runA N p s with
      | none => none
      | some (.error e) => some (.error e)
      | some (.ok (a, s')) => runA N (f a) s' := by
  induction p generalizing s with
  | ret a => simp [Prog.bind, runA]
  | throw e => simp [Prog.bind, runA]
  | peekByte k ih => cases s <;> simp [Prog.bind, runA, ih]
  | readByte k ih => cases s <;> simp [Prog.bind, runA, ih]
  | gotoNextByte k ih => cases s <;> simp [Prog.bind, runA, ih]
  | readSolidBlock n k ih =>
    cases s with
    | none => simp [Prog.bind, runA]
    | some c => simp only [Prog.bind, runA]; split <;> simp [ih]
  | readExact n k ih =>
    cases s with
    | none => simp [Prog.bind, runA]
    | some c => simp only [Prog.bind, runA]; split <;> simp [ih]
  | setPosition q k ih =>
    cases s with
    | none => simp [Prog.bind, runA]
    | some c => simp only [Prog.bind, runA]; split <;> simp [ih]
  | getPosition k ih => cases s <;> simp [Prog.bind, runA, ih]
  | isEnd k ih => cases s <;> simp [Prog.bind, runA, ih]


/-- continue after a string-model step -/
def andThen (r : Except Err (α × Nat)) (g : α → Nat → AR β) : AR β :=
  match r with
  | .ok (a, p') => g a p'
  | .error e => some (.error e)

@[simp] theorem andThen_ok (a : α) (p' : Nat) (g : α → Nat → AR β) : andThen (.ok (a, p')) g = g a p' := rfl
@[simp] theorem andThen_error (e : Err) (g : α → Nat → AR β) : andThen (.error e : Except Err (α × Nat)) g = some (.error e) := rfl

theorem runA_bind_of {N : Nat} {p : Prog α} {bs : Bytes} {pos : Nat} {r : Except Err (α × Nat)} (f : α → Prog β)
    (h : runA N p (some ⟨bs, pos⟩) = lift bs r) :
    runA N (p.bind f) (some ⟨bs, pos⟩) = andThen r fun a p' => runA N (f a) (some ⟨bs, p'⟩) := by
  rw [runA_bind, h]
  cases r with
  | error e => rfl
  | ok v => obtain ⟨a, p'⟩ := v; rfl

/-! #### primitive steps -/

theorem block_eq (bs : Bytes) (pos k : Nat) :
    (Cursor.block ⟨bs, pos⟩ k) = if pos + k ≤ bs.length then some ((bs.drop pos).take k) else none := rfl

theorem advance_eq (bs : Bytes) (pos k : Nat) (h : pos + k ≤ bs.length) :
    Cursor.advance ⟨bs, pos⟩ k = ⟨bs, pos + k⟩ := by
  simp [Cursor.advance, Nat.min_eq_left h]

theorem getValue_eq (N k : Nat) (bs : Bytes) (pos : Nat) (hk : 0 < k) (hN : k ≤ N) :
    runA N (getValue k) (some ⟨bs, pos⟩) = lift bs (Model.getValue k bs pos) := by
  unfold getValue Model.getValue
  by_cases h1 : k = 1
  · simp only [h1, if_true, bind_eq, pure_eq, readByte, Prog.bind, runA, Cursor.peekByte]
    cases hb : bs[pos]? with
    | none => simp [runA, lift]
    | some b =>
      have hlt : pos < bs.length := by
        rcases Nat.lt_or_ge pos bs.length with h | h
        · exact h
        · rw [List.getElem?_eq_none h] at hb; cases hb
      simp [runA, lift, advance_eq bs pos 1 (by omega)]
  · simp only [h1, if_false, bind_eq, pure_eq, readSolidBlock, Prog.bind, runA, hN, if_true, block_eq]
    by_cases hle : pos + k ≤ bs.length
    · have hne : ((bs.drop pos).take k).isEmpty = false := by
        have : ((bs.drop pos).take k).length = k := by simp [List.length_take, List.length_drop]; omega
        cases hd : (bs.drop pos).take k with
        | nil => rw [hd] at this; simp at this; omega
        | cons _ _ => rfl
      simp [hle, runA, lift, hne, advance_eq bs pos k hle]
    · simp [hle, runA, lift]


theorem getValue_ok_pos {k : Nat} {bs : Bytes} {pos u p : Nat} (hk : 0 < k)
    (h : Model.getValue k bs pos = .ok (u, p)) : p = pos + k ∧ pos + k ≤ bs.length := by
  unfold Model.getValue at h
  split at h
  · rename_i h1
    subst h1
    split at h
    · rename_i b hb
      cases h
      have hlt : pos < bs.length := by
        rcases Nat.lt_or_ge pos bs.length with h | h
        · exact h
        · rw [List.getElem?_eq_none h] at hb; cases hb
      exact ⟨rfl, hlt⟩
    · cases h
  · split at h
    · cases h; rename_i hle; exact ⟨rfl, hle⟩
    · cases h

theorem readExtSize_eq (N n : Nat) (bs : Bytes) (pos : Nat) (hN : 4 ≤ N) :
    runA N (readExtSize n) (some ⟨bs, pos⟩) =
      lift bs ((Model.readExtSize n bs pos).map fun v => (v, pos + n)) := by
  unfold readExtSize Model.readExtSize
  by_cases hn : n = 1 ∨ n = 2 ∨ n = 4
  · simp only [hn, if_true]
    rw [getValue_eq N n bs pos (by omega) (by omega)]
    cases hg : Model.getValue n bs pos with
    | error e => rfl
    | ok v =>
      obtain ⟨u, p⟩ := v
      obtain ⟨hp, _⟩ := getValue_ok_pos (by omega) hg
      subst hp
      rfl
  · simp only [hn, if_false]
    rfl

/-! #### SkipValueImpl -/

/-- the part of `skipBody` after the length field -/
def skipTail (e : Entry) (extSize : Nat) : Prog Nat :=
  let flat := e.type = Msgpack.vtString ∨ e.type = Msgpack.vtBinaryArray ∨ e.type = Msgpack.vtExt
  let size := if flat then e.dataSize + extSize else e.dataSize
  (if size = 0 then Prog.ret true else getPosition.bind fun p => setPosition (p + size)).bind fun ok =>
    if ok = true then Prog.ret (if flat then 0 else extSize) else Prog.throw Err.parsing

theorem skipBody_unfold (e : Entry) :
    skipBody e = if e.type = Msgpack.vtUnknown then .throw .parsing
      else (if e.fixedSeq ≠ 0 then Prog.ret e.fixedSeq
            else if e.extSize ≠ 0 then readExtSize e.extSize else Prog.ret 0).bind (skipTail e) := rfl

theorem skipTail_eq (N : Nat) (e : Entry) (n : Nat) (bs : Bytes) (q : Nat) (hq : q ≤ bs.length) :
    runA N (skipTail e n) (some ⟨bs, q⟩) =
      let flat := e.type = Msgpack.vtString ∨ e.type = Msgpack.vtBinaryArray ∨ e.type = Msgpack.vtExt
      let size := if flat then e.dataSize + n else e.dataSize
      lift bs (if q + size ≤ bs.length then .ok (if flat then 0 else n, q + size) else .error .parsing) := by
  simp only [skipTail]
  generalize (if e.type = Msgpack.vtString ∨ e.type = Msgpack.vtBinaryArray ∨ e.type = Msgpack.vtExt then e.dataSize + n else e.dataSize) = size
  by_cases h0 : size = 0
  · subst h0
    simp [Prog.bind, runA, lift, hq]
  · simp only [h0, if_false, getPosition, setPosition, Prog.bind, runA]
    by_cases hle : q + size ≤ bs.length
    · simp [hle, runA, lift]
    · simp [hle, runA, lift]

theorem skipBody_eq (N : Nat) (e : Entry) (bs : Bytes) (pos : Nat) (hN : 4 ≤ N) (hp : pos ≤ bs.length) :
    runA N (skipBody e) (some ⟨bs, pos⟩) =
      lift bs ((Model.skipBody e bs pos).map fun (r : Nat × Nat) => (r.2, r.1)) := by
  rw [skipBody_unfold]
  unfold Model.skipBody
  by_cases hu : e.type = Msgpack.vtUnknown
  · simp only [hu, if_true]; rfl
  · simp only [hu, if_false]
    by_cases hf : e.fixedSeq ≠ 0
    · simp only [hf, if_true, Prog.bind, not_false_eq_true, ne_eq]
      rw [skipTail_eq N e _ bs pos hp]
      simp only []
      (repeat' split) <;> rfl
    · simp only [hf, if_false]
      by_cases hx : e.extSize ≠ 0
      · simp only [hx, if_true, not_false_eq_true, ne_eq]
        rw [runA_bind_of _ (readExtSize_eq N e.extSize bs pos hN)]
        cases hr : Model.readExtSize e.extSize bs pos with
        | error er => rfl
        | ok v =>
          have hle : pos + e.extSize ≤ bs.length := by
            unfold Model.readExtSize at hr
            split at hr
            · cases hg : Model.getValue e.extSize bs pos with
              | error er => rw [hg] at hr; cases hr
              | ok w => obtain ⟨u, p⟩ := w; exact (getValue_ok_pos (by omega) hg).2
            · cases hr
          simp only [Except.map, andThen_ok]
          rw [skipTail_eq N e _ bs _ hle]
          simp only []
          by_cases hfl : e.type = Msgpack.vtString ∨ e.type = Msgpack.vtBinaryArray ∨ e.type = Msgpack.vtExt
          · simp only [hfl, if_true]
            have : pos + e.extSize + (e.dataSize + v) = pos + (e.dataSize + e.extSize + v) := by omega
            rw [this]
            split <;> rfl
          · simp only [hfl, if_false]
            have : pos + e.extSize + e.dataSize = pos + (e.dataSize + e.extSize) := by omega
            rw [this]
            split <;> rfl
      · simp only [hx, if_false, Prog.bind]
        rw [skipTail_eq N e _ bs pos hp]
        simp only []
        (repeat' split) <;> rfl
/-- a position-only result of the string-reader model (SkipValue) -/
def liftU (bs : Bytes) (r : Except Err Nat) : AR Unit := lift bs (r.map fun p => ((), p))

theorem iter_eq (N : Nat) (bs : Bytes) (body : Prog Unit) (f : Nat → Except Err Nat)
    (h : ∀ pos, runA N body (some ⟨bs, pos⟩) = liftU bs (f pos)) (n : Nat) :
    ∀ pos, runA N (iter body n) (some ⟨bs, pos⟩) = liftU bs (Model.iter f n pos) := by
  induction n with
  | zero => intro pos; rfl
  | succ n ih =>
    intro pos
    simp only [iter, bind_eq, Model.iter]
    rw [runA_bind_of _ (h pos)]
    cases hf : f pos with
    | error e => rfl
    | ok p => simp only [Except.map, andThen_ok]; exact ih p

theorem skipImpl_eq (N : Nat) (bs : Bytes) (hN : 4 ≤ N) (fuel : Nat) :
    ∀ pos, runA N (skipImpl fuel) (some ⟨bs, pos⟩) = liftU bs (Model.skipImpl fuel bs pos) := by
  induction fuel with
  | zero => intro pos; rfl
  | succ fuel ih =>
    intro pos
    simp only [skipImpl, Model.skipImpl, Model.skipHeader, bind_eq, pure_eq, readByte, Prog.bind, runA, Cursor.peekByte]
    cases hb : bs[pos]? with
    | none => rfl
    | some b =>
      have hlt : pos < bs.length := by
        rcases Nat.lt_or_ge pos bs.length with h | h
        · exact h
        · rw [List.getElem?_eq_none h] at hb; cases hb
      simp only [advance_eq bs pos 1 (by omega)]
      rw [runA_bind_of _ (skipBody_eq N (entry b) bs (pos + 1) hN (by omega))]
      cases hs : Model.skipBody (entry b) bs (pos + 1) with
      | error e => rfl
      | ok v =>
        obtain ⟨p, x⟩ := v
        simp only [Except.map, andThen_ok]
        by_cases hx : x ≠ 0
        · simp only [hx, if_true, not_false_eq_true, ne_eq]
          by_cases hm : (entry b).type = Msgpack.vtMap
          · simp only [hm, if_true]
            refine iter_eq N bs _ _ (fun q => ?_) x p
            rw [runA_bind_of _ (ih q)]
            cases hq : Model.skipImpl fuel bs q with
            | error e => rfl
            | ok q' => simp only [Except.map, andThen_ok]; exact ih q'
          · simp only [hm, if_false]
            by_cases ha : (entry b).type = Msgpack.vtArray
            · simp only [ha, if_true]
              exact iter_eq N bs _ _ ih x p
            · simp only [ha, if_false]; rfl
        · simp only [hx, if_false]; rfl
theorem getElem?_lt {bs : Bytes} {pos b : Nat} (hb : bs[pos]? = some b) : pos < bs.length := by
  rcases Nat.lt_or_ge pos bs.length with h | h
  · exact h
  · rw [List.getElem?_eq_none h] at hb; cases hb

/-- split the same `if` on both sides of a program/model equation -/
theorem if_split_eq {N : Nat} {bs : Bytes} {c : Prop} {inst : Decidable c} {p q : Prog α} {s : Option Cursor}
    {x y : Except Err (α × Nat)}
    (h1 : c → runA N p s = lift bs x) (h2 : ¬ c → runA N q s = lift bs y) :
    runA N (@ite _ c inst p q) s = lift bs (@ite _ c inst x y) := by
  by_cases h : c
  · rw [if_pos h, if_pos h]; exact h1 h
  · rw [if_neg h, if_neg h]; exact h2 h

/-! #### HandleMismatchedTypesPolicy, ConvertByPolicy, ReadInteger -/

theorem handleMismatch_eq (N : Nat) (bs : Bytes) (hN : 4 ≤ N) (t : Nat) (m : Bool) (pos : Nat) :
    runA N (handleMismatch (bs.length + 1) t m) (some ⟨bs, pos⟩) = liftU bs (Model.handleMismatch bs pos t m) := by
  unfold handleMismatch Model.handleMismatch
  split
  · rfl
  · exact skipImpl_eq N bs hN _ pos

theorem convertByPolicy_eq (N : Nat) (bs : Bytes) (r : Option α) (o : Opts) (p : Nat) :
    runA N (convertByPolicy r o) (some ⟨bs, p⟩) = lift bs (Model.convertByPolicy r o p) := by
  unfold convertByPolicy Model.convertByPolicy
  cases r with
  | some x => rfl
  | none => simp only []; split <;> rfl

theorem goto_bind (N : Nat) (bs : Bytes) (pos : Nat) (h : pos < bs.length) (f : Unit → Prog β) :
    runA N (gotoNextByte.bind f) (some ⟨bs, pos⟩) = runA N (f ()) (some ⟨bs, pos + 1⟩) := by
  simp only [gotoNextByte, Prog.bind, runA, advance_eq bs pos 1 (by omega)]

theorem peek_bind (N : Nat) (bs : Bytes) (pos : Nat) (f : Option Nat → Prog β) :
    runA N (peekByte.bind f) (some ⟨bs, pos⟩) = runA N (f bs[pos]?) (some ⟨bs, pos⟩) := by
  simp only [peekByte, Prog.bind, runA, Cursor.peekByte]

theorem readIntBody_eq (N : Nat) (bs : Bytes) (src tgt : IntTy) (o : Opts) (k : Nat) (hk : 0 < k) (hN : k ≤ N)
    (pos : Nat) (h : pos < bs.length) :
    runA N (readIntBody src tgt o k) (some ⟨bs, pos⟩) = lift bs (Model.readIntBody src tgt o k bs pos) := by
  unfold readIntBody Model.readIntBody
  simp only [bind_eq]
  rw [goto_bind N bs pos h, runA_bind_of _ (getValue_eq N k bs (pos + 1) hk hN)]
  cases hg : Model.getValue k bs (pos + 1) with
  | error e => rfl
  | ok v => obtain ⟨u, p⟩ := v; simp only [andThen_ok]; exact convertByPolicy_eq N bs _ o p

theorem readInteger_eq (N : Nat) (bs : Bytes) (hN : 8 ≤ N) (tgt : IntTy) (o : Opts) (pos : Nat) :
    runA N (readInteger (bs.length + 1) tgt o) (some ⟨bs, pos⟩) = lift bs (Model.readInteger tgt o bs pos) := by
  unfold readInteger Model.readInteger
  simp only [bind_eq]
  rw [peek_bind]
  cases hb : bs[pos]? with
  | none => rfl
  | some b =>
    have hlt := getElem?_lt hb
    simp only []
    by_cases h1 : b < 128 ∨ b ≥ 224
    · rw [if_pos h1, if_pos h1, goto_bind N bs pos hlt]; exact convertByPolicy_eq N bs _ o _
    rw [if_neg h1, if_neg h1]
    iterate 8
      refine if_split_eq ?_ ?_
      · intro _; exact readIntBody_eq N bs _ tgt o _ (by omega) (by omega) pos hlt
      intro _
    refine if_split_eq ?_ ?_
    · intro _; rw [goto_bind N bs pos hlt]; exact convertByPolicy_eq N bs _ o _
    intro _
    refine if_split_eq ?_ ?_
    · intro _; rw [goto_bind N bs pos hlt]; exact convertByPolicy_eq N bs _ o _
    intro _
    rw [runA_bind_of _ (handleMismatch_eq N bs (by omega) _ _ pos)]
    cases Model.handleMismatch bs pos (entry b).type o.misThrow <;> rfl
/-! #### ReadExtFamilyType, ReadValueType -/

/-- the one fact about the GENERATED ByteCodeTable the equivalence needs: every ext format has exactly one
    data byte besides the payload (the type byte), so "DataOffset bytes are available" (string copy) is
    "the type byte could be read" (stream copy) -/
theorem ext_dataSize_lt : ∀ b, b < 256 → (entry b).type = Msgpack.vtExt → (entry b).dataSize = 1 := by decide +kernel

theorem ext_dataSize (b : Nat) (h : (entry b).type = Msgpack.vtExt) : (entry b).dataSize = 1 := by
  rcases Nat.lt_or_ge b 256 with hb | hb
  · exact ext_dataSize_lt b hb h
  · exfalso
    have hn : Msgpack.byteCodeTable[b]? = none := List.getElem?_eq_none (by
      have : Msgpack.byteCodeTable.length = 256 := by decide +kernel
      omega)
    unfold entry at h
    rw [hn] at h
    revert h
    decide

theorem getPos_bind (N : Nat) (bs : Bytes) (pos : Nat) (f : Nat → Prog β) :
    runA N (getPosition.bind f) (some ⟨bs, pos⟩) = runA N (f pos) (some ⟨bs, pos⟩) := by
  simp only [getPosition, Prog.bind, runA]

theorem setPos_bind (N : Nat) (bs : Bytes) (pos q : Nat) (h : q ≤ bs.length) (f : Bool → Prog β) :
    runA N ((setPosition q).bind f) (some ⟨bs, pos⟩) = runA N (f true) (some ⟨bs, q⟩) := by
  simp only [setPosition, Prog.bind, runA, h, if_true]

/-- ReadByte followed by "no byte → throw" -/
theorem readByte_bind (N : Nat) (bs : Bytes) (pos : Nat) (f : Option Nat → Prog β) (e : Err)
    (hf : f none = .throw e) :
    runA N (readByte.bind f) (some ⟨bs, pos⟩) =
      match bs[pos]? with
      | some b => runA N (f (some b)) (some ⟨bs, pos + 1⟩)
      | none => some (.error e) := by
  simp only [readByte, Prog.bind, runA, Cursor.peekByte]
  cases hb : bs[pos]? with
  | none => simp only [hf, runA]
  | some b => simp only [advance_eq bs pos 1 (getElem?_lt hb)]

theorem readExtFamilyType_eq (N : Nat) (bs : Bytes) (hN : 4 ≤ N) (pos : Nat) :
    runA N readExtFamilyType (some ⟨bs, pos⟩) =
      lift bs ((Model.readExtFamilyType bs pos).map fun i => (i, pos)) := by
  unfold readExtFamilyType Model.readExtFamilyType
  simp only [bind_eq]
  rw [peek_bind]
  cases hb : bs[pos]? with
  | none => rfl
  | some b =>
    have hlt := getElem?_lt hb
    simp only []
    by_cases ht : (entry b).type ≠ Msgpack.vtExt
    · rw [if_pos ht, if_pos ht]; rfl
    rw [if_neg ht, if_neg ht]
    have hds := ext_dataSize b (by simpa using ht)
    rw [getPos_bind, goto_bind N bs pos hlt]
    by_cases hf : (entry b).fixedSeq ≠ 0
    · rw [if_pos hf, if_pos hf, readByte_bind N bs (pos + 1) _ .parsing rfl]
      simp only [hds]
      cases hb1 : bs[pos + 1]? with
      | none =>
        have : ¬ (pos + (1 + 1) ≤ bs.length) := by
          intro hle
          have := List.getElem?_eq_none_iff.mp hb1
          omega
        simp only [this, if_false]; rfl
      | some t =>
        have hl1 := getElem?_lt hb1
        have : pos + (1 + 1) ≤ bs.length := by omega
        simp only [this, if_true]
        rw [setPos_bind N bs _ pos (by omega)]
        simp [List.getD_eq_getElem?_getD, hb1, runA, lift, Except.map]
    rw [if_neg hf, if_neg hf]
    by_cases hx : (entry b).extSize ≠ 0
    · rw [if_pos hx, if_pos hx, runA_bind_of _ (readExtSize_eq N _ bs (pos + 1) hN)]
      cases hr : Model.readExtSize (entry b).extSize bs (pos + 1) with
      | error e => rfl
      | ok sz =>
        simp only [Except.map, andThen_ok, hds]
        rw [readByte_bind N bs _ _ .parsing rfl]
        cases hb1 : bs[pos + 1 + (entry b).extSize]? with
        | none =>
          have : ¬ (pos + (1 + 1 + (entry b).extSize) ≤ bs.length) := by
            intro hle
            have := List.getElem?_eq_none_iff.mp hb1
            omega
          simp only [this, if_false]; rfl
        | some t =>
          have hl1 := getElem?_lt hb1
          have : pos + (1 + 1 + (entry b).extSize) ≤ bs.length := by omega
          simp only [this, if_true]
          rw [setPos_bind N bs _ pos (by omega)]
          simp [List.getD_eq_getElem?_getD, hb1, runA, lift]
    · rw [if_neg hx, if_neg hx]; rfl

theorem readValueType_eq (N : Nat) (bs : Bytes) (hN : 4 ≤ N) (pos : Nat) :
    runA N readValueType (some ⟨bs, pos⟩) = lift bs ((Model.readValueType bs pos).map fun t => (t, pos)) := by
  unfold readValueType Model.readValueType
  simp only [bind_eq]
  rw [peek_bind]
  cases hb : bs[pos]? with
  | none => rfl
  | some b =>
    simp only []
    by_cases ht : (entry b).type = Msgpack.vtExt
    · rw [if_pos ht, if_pos ht, runA_bind_of _ (readExtFamilyType_eq N bs hN pos)]
      cases hr : Model.readExtFamilyType bs pos with
      | error e => rfl
      | ok i => cases i <;> rfl
    · rw [if_neg ht, if_neg ht]; rfl

theorem mismatchTail_eq (N : Nat) (bs : Bytes) (hN : 4 ≤ N) (o : Opts) (pos : Nat) :
    runA N (mismatchTail (α := α) (bs.length + 1) o) (some ⟨bs, pos⟩) = lift bs (Model.mismatchTail o bs pos) := by
  unfold mismatchTail Model.mismatchTail
  simp only [bind_eq]
  rw [runA_bind_of _ (readValueType_eq N bs hN pos)]
  cases hr : Model.readValueType bs pos with
  | error e => rfl
  | ok t =>
    simp only [Except.map, andThen_ok]
    rw [runA_bind_of _ (handleMismatch_eq N bs hN _ _ pos)]
    cases Model.handleMismatch bs pos t o.misThrow <;> rfl

/-! #### ReadValue overloads, Read*Size -/

theorem readNil_eq (N : Nat) (bs : Bytes) (hN : 4 ≤ N) (o : Opts) (pos : Nat) :
    runA N (readNil (bs.length + 1) o) (some ⟨bs, pos⟩) = lift bs (Model.readNil o bs pos) := by
  unfold readNil Model.readNil
  simp only [bind_eq]
  rw [peek_bind]
  cases hb : bs[pos]? with
  | none => rfl
  | some b =>
    have hlt := getElem?_lt hb
    simp only []
    refine if_split_eq ?_ ?_
    · intro _; rw [goto_bind N bs pos hlt]; rfl
    · intro _; exact mismatchTail_eq N bs hN o pos

/-- `GotoNextByte(); GetValue(v); return f(v)` -/
theorem goto_getValue (N : Nat) (bs : Bytes) (k : Nat) (hk : 0 < k) (hN : k ≤ N) (pos : Nat) (h : pos < bs.length)
    (f : Nat → Prog β) :
    runA N (gotoNextByte.bind fun _ => (getValue k).bind f) (some ⟨bs, pos⟩) =
      andThen (Model.getValue k bs (pos + 1)) fun u p => runA N (f u) (some ⟨bs, p⟩) := by
  rw [goto_bind N bs pos h, runA_bind_of _ (getValue_eq N k bs (pos + 1) hk hN)]

theorem readF32_eq (N : Nat) (bs : Bytes) (hN : 8 ≤ N) (o : Opts) (pos : Nat) :
    runA N (readF32 (bs.length + 1) o) (some ⟨bs, pos⟩) = lift bs (Model.readF32 o bs pos) := by
  unfold readF32 Model.readF32
  simp only [bind_eq]
  rw [peek_bind]
  cases hb : bs[pos]? with
  | none => rfl
  | some b =>
    have hlt := getElem?_lt hb
    simp only []
    refine if_split_eq ?_ ?_
    · intro _
      rw [goto_getValue N bs 4 (by omega) (by omega) pos hlt]
      cases Model.getValue 4 bs (pos + 1) with
      | error e => rfl
      | ok v => rfl
    intro _
    refine if_split_eq ?_ ?_
    · intro _
      rw [goto_getValue N bs 8 (by omega) (by omega) pos hlt]
      cases Model.getValue 8 bs (pos + 1) with
      | error e => rfl
      | ok v => obtain ⟨u, p⟩ := v; simp only [andThen_ok]; exact convertByPolicy_eq N bs _ o p
    · intro _; exact mismatchTail_eq N bs (by omega) o pos

theorem readF64_eq (N : Nat) (bs : Bytes) (hN : 8 ≤ N) (o : Opts) (pos : Nat) :
    runA N (readF64 (bs.length + 1) o) (some ⟨bs, pos⟩) = lift bs (Model.readF64 o bs pos) := by
  unfold readF64 Model.readF64
  simp only [bind_eq]
  rw [peek_bind]
  cases hb : bs[pos]? with
  | none => rfl
  | some b =>
    have hlt := getElem?_lt hb
    simp only []
    refine if_split_eq ?_ ?_
    · intro _
      rw [goto_getValue N bs 8 (by omega) (by omega) pos hlt]
      cases Model.getValue 8 bs (pos + 1) with
      | error e => rfl
      | ok v => rfl
    intro _
    refine if_split_eq ?_ ?_
    · intro _
      rw [goto_getValue N bs 4 (by omega) (by omega) pos hlt]
      cases Model.getValue 4 bs (pos + 1) with
      | error e => rfl
      | ok v => rfl
    · intro _; exact mismatchTail_eq N bs (by omega) o pos

theorem readCount_eq (N : Nat) (bs : Bytes) (hN : 4 ≤ N) (fixHi c16 c32 : Nat) (o : Opts) (pos : Nat) :
    runA N (readCount fixHi c16 c32 (bs.length + 1) o) (some ⟨bs, pos⟩) =
      lift bs (Model.readCount fixHi c16 c32 o bs pos) := by
  unfold readCount Model.readCount
  simp only [bind_eq]
  rw [peek_bind]
  cases hb : bs[pos]? with
  | none => rfl
  | some b =>
    have hlt := getElem?_lt hb
    simp only []
    refine if_split_eq ?_ ?_
    · intro _; rw [goto_bind N bs pos hlt]; rfl
    intro _
    refine if_split_eq ?_ ?_
    · intro _
      rw [goto_getValue N bs 2 (by omega) (by omega) pos hlt]
      cases Model.getValue 2 bs (pos + 1) with
      | error e => rfl
      | ok v => rfl
    intro _
    refine if_split_eq ?_ ?_
    · intro _
      rw [goto_getValue N bs 4 (by omega) (by omega) pos hlt]
      cases Model.getValue 4 bs (pos + 1) with
      | error e => rfl
      | ok v => rfl
    · intro _; exact mismatchTail_eq N bs hN o pos

theorem readBinarySize_eq (N : Nat) (bs : Bytes) (hN : 4 ≤ N) (o : Opts) (pos : Nat) :
    runA N (readBinarySize (bs.length + 1) o) (some ⟨bs, pos⟩) = lift bs (Model.readBinarySize o bs pos) := by
  unfold readBinarySize Model.readBinarySize
  simp only [bind_eq]
  rw [peek_bind]
  cases hb : bs[pos]? with
  | none => rfl
  | some b =>
    have hlt := getElem?_lt hb
    simp only []
    refine if_split_eq ?_ ?_
    · intro _
      rw [goto_getValue N bs 1 (by omega) (by omega) pos hlt]
      cases Model.getValue 1 bs (pos + 1) with
      | error e => rfl
      | ok v => rfl
    intro _
    refine if_split_eq ?_ ?_
    · intro _
      rw [goto_getValue N bs 2 (by omega) (by omega) pos hlt]
      cases Model.getValue 2 bs (pos + 1) with
      | error e => rfl
      | ok v => rfl
    intro _
    refine if_split_eq ?_ ?_
    · intro _
      rw [goto_getValue N bs 4 (by omega) (by omega) pos hlt]
      cases Model.getValue 4 bs (pos + 1) with
      | error e => rfl
      | ok v => rfl
    · intro _; exact mismatchTail_eq N bs hN o pos
theorem readExact_bind (N : Nat) (bs : Bytes) (n p : Nat) (f : Bytes → Prog β) :
    runA N ((readExact n).bind f) (some ⟨bs, p⟩) =
      if p + n ≤ bs.length then runA N (f ((bs.drop p).take n)) (some ⟨bs, p + n⟩) else some (.error .parsing) := by
  simp only [readExact, Prog.bind, runA, block_eq]
  by_cases h : p + n ≤ bs.length
  · simp only [h, if_true, advance_eq bs p n h]
  · simp only [h, if_false]

/-- the shared body of `ReadValue(string_view&)`: `size` bytes at `p` -/
theorem strTail_eq (N : Nat) (bs : Bytes) (n p : Nat) :
    runA N ((readExact n).bind fun d => pure (some d)) (some ⟨bs, p⟩) =
      lift bs (if p + n ≤ bs.length then .ok (some ((bs.drop p).take n), p + n) else .error .parsing) := by
  rw [readExact_bind]
  split <;> rfl

theorem readStr_eq (N : Nat) (bs : Bytes) (hN : 4 ≤ N) (o : Opts) (pos : Nat) :
    runA N (readStr (bs.length + 1) o) (some ⟨bs, pos⟩) = lift bs (Model.readStr o bs pos) := by
  unfold readStr Model.readStr
  simp only [bind_eq]
  rw [peek_bind]
  cases hb : bs[pos]? with
  | none => rfl
  | some b =>
    have hlt := getElem?_lt hb
    simp only []
    have sized : ∀ k, 0 < k → k ≤ N →
        runA N ((gotoNextByte.bind fun _ => getValue k).bind fun remainingSize =>
            (readExact remainingSize).bind fun d => pure (some d)) (some ⟨bs, pos⟩) =
          lift bs (match Model.getValue k bs (pos + 1) with
            | .error e => .error e
            | .ok (n, p) => if p + n ≤ bs.length then .ok (some ((bs.drop p).take n), p + n) else .error .parsing) := by
      intro k hk hkN
      rw [runA_bind, goto_bind N bs pos hlt, getValue_eq N k bs (pos + 1) hk hkN]
      cases Model.getValue k bs (pos + 1) with
      | error e => rfl
      | ok v => obtain ⟨n, p⟩ := v; exact strTail_eq N bs n p
    refine if_split_eq ?_ ?_
    · intro _
      rw [runA_bind, goto_bind N bs pos hlt]
      exact strTail_eq N bs _ _
    intro _
    refine if_split_eq ?_ ?_
    · intro _; exact sized 1 (by omega) (by omega)
    intro _
    refine if_split_eq ?_ ?_
    · intro _; exact sized 2 (by omega) (by omega)
    intro _
    refine if_split_eq ?_ ?_
    · intro _; exact sized 4 (by omega) (by omega)
    · intro _; exact mismatchTail_eq N bs hN o pos
theorem extFamily_offset_le {bs : Bytes} {pos : Nat} {i : ExtInfo}
    (h : Model.readExtFamilyType bs pos = .ok (some i)) : pos + i.dataOffset ≤ bs.length := by
  unfold Model.readExtFamilyType at h
  split at h
  · cases h
  · simp only [] at h
    split at h
    · cases h
    · split at h
      · split at h
        · rename_i hle; cases h; exact hle
        · cases h
      · split at h
        · split at h
          · cases h
          · split at h
            · rename_i hle; cases h; exact hle
            · cases h
        · cases h

theorem getValue_bind (N : Nat) (bs : Bytes) (k : Nat) (hk : 0 < k) (hN : k ≤ N) (pos : Nat) (f : Nat → Prog β) :
    runA N ((getValue k).bind f) (some ⟨bs, pos⟩) =
      andThen (Model.getValue k bs pos) fun u p => runA N (f u) (some ⟨bs, p⟩) :=
  runA_bind_of _ (getValue_eq N k bs pos hk hN)

theorem readTs_eq (N : Nat) (bs : Bytes) (hN : 8 ≤ N) (o : Opts) (pos : Nat) :
    runA N (readTs (bs.length + 1) o) (some ⟨bs, pos⟩) = lift bs (Model.readTs o bs pos) := by
  unfold readTs Model.readTs
  simp only [bind_eq]
  rw [runA_bind_of _ (readExtFamilyType_eq N bs (by omega) pos)]
  cases hr : Model.readExtFamilyType bs pos with
  | error e => rfl
  | ok info =>
    simp only [Except.map, andThen_ok]
    cases info with
    | none => exact mismatchTail_eq N bs (by omega) o pos
    | some i =>
      have hoff := extFamily_offset_le hr
      simp only []
      refine if_split_eq ?_ ?_
      · intro _
        rw [getPos_bind, setPos_bind N bs pos _ hoff]
        refine if_split_eq ?_ ?_
        · intro _
          rw [getValue_bind N bs 4 (by omega) (by omega)]
          cases Model.getValue 4 bs (pos + i.dataOffset) with
          | error e => rfl
          | ok v => rfl
        intro _
        refine if_split_eq ?_ ?_
        · intro _
          rw [getValue_bind N bs 8 (by omega) (by omega)]
          cases Model.getValue 8 bs (pos + i.dataOffset) with
          | error e => rfl
          | ok v => rfl
        intro _
        refine if_split_eq ?_ ?_
        · intro _
          rw [getValue_bind N bs 8 (by omega) (by omega)]
          cases Model.getValue 8 bs (pos + i.dataOffset) with
          | error e => rfl
          | ok v =>
            obtain ⟨s, p1⟩ := v
            simp only [andThen_ok]
            rw [getValue_bind N bs 4 (by omega) (by omega)]
            cases Model.getValue 4 bs p1 with
            | error e => rfl
            | ok w => rfl
        · intro _; rfl
      · intro _; exact mismatchTail_eq N bs (by omega) o pos

theorem readBinary_eq (N : Nat) (bs : Bytes) (pos : Nat) :
    runA N readBinary (some ⟨bs, pos⟩) = lift bs (stringReadBinary bs pos) := by
  unfold readBinary stringReadBinary
  simp only [bind_eq]
  rw [readByte_bind N bs pos _ .parsing rfl]
  cases bs[pos]? <;> rfl

theorem setPos_eq (N : Nat) (bs : Bytes) (pos q : Nat) :
    runA N (setPos q) (some ⟨bs, pos⟩) = lift bs ((stringSetPos bs q).map fun p => ((), p)) := by
  unfold setPos stringSetPos
  simp only [bind_eq, setPosition, Prog.bind, runA]
  by_cases h : q ≤ bs.length
  · simp only [h, if_true]; rfl
  · simp only [h, if_false]; rfl
/-! #### one call of the public interface -/

theorem mapRR_bind (N : Nat) (bs : Bytes) (pos : Nat) (p : Prog (Option α)) (r : RR α) (f : α → Ans)
    (h : runA N p (some ⟨bs, pos⟩) = lift bs r) :
    runA N (p.bind fun x => pure (ansOpt f x)) (some ⟨bs, pos⟩) = lift bs (mapRR f r) := by
  rw [runA_bind_of _ h]
  cases r with
  | error e => rfl
  | ok v => obtain ⟨a, p'⟩ := v; rfl

theorem callProg_eq (N : Nat) (bs : Bytes) (hN : 8 ≤ N) (o : Opts) (pos : Nat) (hp : pos ≤ bs.length) (c : Call) :
    runA N (callProg (bs.length + 1) o c) (some ⟨bs, pos⟩) = lift bs (callString o bs pos c) := by
  cases c with
  | valueType =>
    simp only [callProg, callString, bind_eq]
    rw [runA_bind_of _ (readValueType_eq N bs (by omega) pos)]
    cases Model.readValueType bs pos <;> rfl
  | skip =>
    simp only [callProg, callString, bind_eq, skip, Model.skip]
    have h := skipImpl_eq N bs (by omega) (bs.length + 1) pos
    unfold liftU at h
    rw [runA_bind_of _ h]
    cases Model.skipImpl (bs.length + 1) bs pos <;> rfl
  | nil => exact mapRR_bind N bs pos _ _ _ (readNil_eq N bs (by omega) o pos)
  | int t => exact mapRR_bind N bs pos _ _ _ (readInteger_eq N bs hN t o pos)
  | f32 => exact mapRR_bind N bs pos _ _ _ (readF32_eq N bs hN o pos)
  | f64 => exact mapRR_bind N bs pos _ _ _ (readF64_eq N bs hN o pos)
  | str => exact mapRR_bind N bs pos _ _ _ (readStr_eq N bs (by omega) o pos)
  | ts => exact mapRR_bind N bs pos _ _ _ (readTs_eq N bs hN o pos)
  | arraySize => exact mapRR_bind N bs pos _ _ _ (readCount_eq N bs (by omega) _ _ _ o pos)
  | mapSize => exact mapRR_bind N bs pos _ _ _ (readCount_eq N bs (by omega) _ _ _ o pos)
  | binarySize => exact mapRR_bind N bs pos _ _ _ (readBinarySize_eq N bs (by omega) o pos)
  | binary =>
    simp only [callProg, callString, bind_eq]
    rw [runA_bind_of _ (readBinary_eq N bs pos)]
    cases hr : stringReadBinary bs pos with
    | error e => rfl
    | ok v => obtain ⟨b, p⟩ := v; rfl
  | getPos => rfl
  | setPos q =>
    simp only [callProg, callString, bind_eq]
    rw [runA_bind_of _ (setPos_eq N bs pos q)]
    cases stringSetPos bs q <;> rfl
  | isEnd =>
    simp only [callProg, callString, bind_eq, isEnd, Prog.bind, runA, Cursor.isEnd, stringIsEnd, lift, pure_eq]
    have : decide (pos ≥ bs.length) = (pos == bs.length) := by
      by_cases h : pos = bs.length
      · simp [h]
      · have : ¬ pos ≥ bs.length := by omega
        simp [h, this]
    simp [this]

/-! #### the cursor stays inside the data -/

theorem runA_none (N : Nat) (p : Prog α) (a : α) (s' : Option Cursor)
    (h : runA N p none = some (.ok (a, s'))) : s' = none := by
  cases p <;> simp [runA] at h
  exact h.2.symm

theorem advance_wf (c : Cursor) (k : Nat) : (c.advance k).pos ≤ (c.advance k).data.length ∧ (c.advance k).data = c.data := by
  simp [Cursor.advance]; exact Nat.min_le_right _ _

theorem runA_wf (N : Nat) (p : Prog α) :
    ∀ (c : Cursor), c.pos ≤ c.data.length → ∀ (a : α) (c' : Cursor),
      runA N p (some c) = some (.ok (a, some c')) → c'.pos ≤ c'.data.length ∧ c'.data = c.data := by
  induction p with
  | ret a => intro c hc a' c' h; simp [runA] at h; obtain ⟨_, h⟩ := h; subst h; exact ⟨hc, rfl⟩
  | throw e => intro c hc a' c' h; simp [runA] at h
  | peekByte k ih => intro c hc a' c' h; exact ih _ c hc a' c' h
  | readByte k ih =>
    intro c hc a' c' h
    have hw := advance_wf c 1
    have := ih _ _ hw.1 a' c' h
    exact ⟨this.1, this.2.trans hw.2⟩
  | gotoNextByte k ih =>
    intro c hc a' c' h
    have hw := advance_wf c 1
    have := ih _ hw.1 a' c' h
    exact ⟨this.1, this.2.trans hw.2⟩
  | readSolidBlock n k ih =>
    intro c hc a' c' h
    simp only [runA] at h
    split at h
    · have hw := advance_wf c n
      have := ih _ _ hw.1 a' c' h
      exact ⟨this.1, this.2.trans hw.2⟩
    · exact ih _ c hc a' c' h
  | readExact n k ih =>
    intro c hc a' c' h
    simp only [runA] at h
    split at h
    · have hw := advance_wf c n
      have := ih _ _ hw.1 a' c' h
      exact ⟨this.1, this.2.trans hw.2⟩
    · simp at h
  | setPosition q k ih =>
    intro c hc a' c' h
    simp only [runA] at h
    split at h
    · rename_i hq
      exact ih _ ⟨c.data, q⟩ hq a' c' h
    · have := runA_none N _ _ _ h
      cases this
  | getPosition k ih => intro c hc a' c' h; exact ih _ c hc a' c' h
  | isEnd k ih => intro c hc a' c' h; exact ih _ c hc a' c' h

/-- a successful call leaves the string reader inside its input -/
theorem callString_pos_le (o : Opts) (bs : Bytes) (pos : Nat) (hp : pos ≤ bs.length) (c : Call) (a : Ans) (p : Nat)
    (h : callString o bs pos c = .ok (a, p)) : p ≤ bs.length := by
  have h1 := callProg_eq 8 bs (Nat.le_refl _) o pos hp c
  rw [h] at h1
  exact (runA_wf 8 _ ⟨bs, pos⟩ hp a ⟨bs, p⟩ h1).1
end BSVerif.MsgPack.StreamModel
