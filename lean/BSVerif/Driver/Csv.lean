/-
  Line-protocol handlers for the CSV ops (see harness/ops_csv.cpp for the implementation side and
  the exact syntax):
    csv.write <sep> <withHeader> <rows>                 -> <string-writer result> <stream-writer result>
    csv.read <mem|stream> <sep> <withHeader> <script> <text>
    csv.load <mem|stream> <sep> <text>
    csv.save <sep> <rows>
-/
import BSVerif.Csv.Oracle
import BSVerif.Csv.Archive
import BSVerif.Generated.UtfConsts

namespace BSVerif.Driver.Csv
open BSVerif BSVerif.Csv BSVerif.Csv.Reader

def chunk : Nat := BSVerif.Generated.Utf.encodedStreamReaderDefaultChunk

def verdictStr : Oracle.Verdict → String
  | .ok => "ok" | .known c => s!"known:{c}" | .bad w => s!"bad:{w.replace " " "_"}" | .nospec => "nospec"

def parseSep (s : String) : Option Nat :=
  match parseBytes s with
  | some [b] => some b
  | _ => none

def parseFlag : String → Option Bool
  | "1" => some true | "0" => some false | _ => none

def bytesOk (l : List Nat) : Bool := l.all (· < 256)

/-- `key:value` -/
def parseKv (s : String) : Option Writer.KV :=
  match s.splitOn ":" with
  | [k, v] => do let k ← parseBytes k; let v ← parseBytes v; pure (k, v)
  | _ => none

def parseKvRows (s : String) : Option (List (List Writer.KV)) :=
  if s == "." then some [] else
  (s.splitOn ";").mapM fun rt => if rt == "_" then some [] else (rt.splitOn ",").mapM parseKv

def parseReq (s : String) : Option Req :=
  if s == "i" then some .idx
  else if s.startsWith "k" then ((s.drop 1).toString.toNat?).map .key
  else none

def parseScript (s : String) : Option (List Req) :=
  if s == "." then some [] else (s.splitOn ".").mapM parseReq

/-- the stream model assumes a first chunk that `DetectEncoding` takes for UTF-8 without BOM -/
def streamTextOk (txt : List Nat) : Bool :=
  let first := txt.take chunk
  !first.contains 0 && !(first.take 3 == [0xEF, 0xBB, 0xBF]) && !(first.take 2 == [0xFF, 0xFE]) && !(first.take 2 == [0xFE, 0xFF])

/-! rendering of answers -/

def wansStr : Except Err (List Nat) → String
  | .ok b => hexBytes b
  | .error e => "E" ++ e.toString

def cellStr : Cell → String
  | .val v => hexBytes v
  | .notFound => "N"

def joinCells (cs : List Cell) : String :=
  if cs.isEmpty then "." else String.intercalate "," (cs.map cellStr)

def outcomeStr : Outcome → String
  | .ok h rows f n =>
    let toks := rows.map joinCells ++ (if f then ["F"] else [])
    let r := if toks.isEmpty then "/" else String.intercalate ";" toks
    s!"ok h={joinCells (h.map Cell.val)} r={r} n={n}"
  | .err e n => s!"err {e.toString} {n}"
  | .errCtor e => s!"err {e.toString} ctor"

def loadStr : Except Err (List (List Cell)) → String
  | .ok rows => "ok " ++ (if rows.isEmpty then "/" else String.intercalate ";" (rows.map fun r => String.intercalate "," (r.map cellStr)))
  | .error e => s!"err {e.toString}"

/-! parsing of implementation answers -/

def parseErr : String → Option Err
  | "parsing" => some .parsing | "ser_out_of_range" => some .serOutOfRange
  | "out_of_range" => some .stdOutOfRange | "invalid_options" => some .invalidOptions | _ => none

def parseWAns (s : String) : Option Oracle.WAns :=
  if s.startsWith "E" then some (.err (s.drop 1).toString) else (parseBytes s).map .bytes

def parseCell (s : String) : Option Cell :=
  if s == "N" then some .notFound else (parseBytes s).map .val

def parseCells (s : String) : Option (List Cell) :=
  if s == "." then some [] else (s.splitOn ",").mapM parseCell

def parseOutcome (s : String) : Option Outcome :=
  match s.splitOn " " with
  | ["ok", h, r, n] => do
    if !(h.startsWith "h=" && r.startsWith "r=" && n.startsWith "n=") then none
    let hs ← parseCells (h.drop 2).toString
    let hs ← hs.mapM fun c => match c with | .val v => some v | .notFound => none
    let n ← (n.drop 2).toString.toNat?
    let r := (r.drop 2).toString
    if r == "/" then pure (.ok hs [] false n) else
    let toks := r.splitOn ";"
    let f := toks.getLast? == some "F"
    let toks := if f then toks.dropLast else toks
    let rows ← toks.mapM parseCells
    pure (.ok hs rows f n)
  | ["err", c, "ctor"] => (parseErr c).map .errCtor
  | ["err", c, n] => do let e ← parseErr c; let n ← n.toNat?; pure (.err e n)
  | _ => none

def parseLoadAns (s : String) : Option Oracle.LAns :=
  match s.splitOn " " with
  | ["ok", r] =>
    if r == "/" then some (.rows []) else ((r.splitOn ";").mapM parseCells).map .rows
  | ["err", c] => (parseErr c).map .err
  | _ => none

/-! the fixed class of `csv.load` / `csv.save` (three string fields) -/
def keyX : List Nat := [120]
def keyY : List Nat := [121, 44, 59, 9, 32, 124, 122]
def keyQ : List Nat := [113, 34, 13, 10, 119]
def row3Keys : List (List Nat) := [keyX, keyY, keyQ]

def parseRow3 (s : String) : Option (List Writer.KV) :=
  match s.splitOn "," with
  | [a, b, c] => do
    let a ← parseBytes a; let b ← parseBytes b; let c ← parseBytes c
    pure [(keyX, a), (keyY, b), (keyQ, c)]
  | _ => none

def parseRows3 (s : String) : Option (List (List Writer.KV)) :=
  if s == "." then some [] else (s.splitOn ";").mapM parseRow3

def kvOk (rows : List (List Writer.KV)) : Bool := rows.all fun r => r.all fun kv => bytesOk kv.1 && bytesOk kv.2

def handle (toks : List String) (impl : Option String) : Option (String × String) :=
  match toks with
  | ["csv.write", sep, wh, rows] => do
    let sep ← parseSep sep; let wh ← parseFlag wh; let rows ← parseKvRows rows
    if !kvOk rows then none
    let a := Writer.saveString sep wh rows
    let b := Writer.saveStream sep wh rows
    let v := match impl.map (·.splitOn " ") with
      | some [ia, ib] => match parseWAns ia, parseWAns ib with
        | some ia, some ib => verdictStr (Oracle.judgeWrite sep wh rows ia ib)
        | _, _ => "nospec"
      | _ => "nospec"
    pure (s!"{wansStr a} {wansStr b}", v)
  | ["csv.read", src, sep, wh, script, txt] => do
    let sep ← parseSep sep; let wh ← parseFlag wh; let script ← parseScript script; let txt ← parseBytes txt
    if !bytesOk txt then none
    let o ← if src == "mem" then some (memSession sep wh script txt)
            else if src == "stream" then (if streamTextOk txt then some (Stream.streamSession chunk sep wh script txt) else none)
            else none
    let v := match impl.bind parseOutcome with
      | some io => verdictStr (Oracle.judgeRead sep wh script txt io)
      | none => "nospec"
    pure (outcomeStr o, v)
  | ["csv.load", src, sep, txt] => do
    let sep ← parseSep sep; let txt ← parseBytes txt
    if !bytesOk txt then none
    let o ← if src == "mem" then some (Archive.loadString sep row3Keys txt)
            else if src == "stream" then (if streamTextOk txt then some (Archive.loadStream chunk sep row3Keys txt) else none)
            else none
    let v := match impl.bind parseLoadAns with
      | some io => verdictStr (Oracle.judgeLoad sep row3Keys txt io)
      | none => "nospec"
    pure (loadStr o, v)
  | ["csv.save", sep, rows] => do
    let sep ← parseSep sep; let rows ← parseRows3 rows
    if !kvOk rows then none
    let a := Archive.saveString sep rows
    let b := Archive.saveStream sep rows
    let v := match impl.map (·.splitOn " ") with
      | some [ia, ib] => match parseWAns ia, parseWAns ib with
        | some ia, some ib => verdictStr (Oracle.judgeSave sep rows ia ib)
        | _, _ => "nospec"
      | _ => "nospec"
    pure (s!"{wansStr a} {wansStr b}", v)
  | _ => none

end BSVerif.Driver.Csv
