import BSVerif.Driver.Utf

namespace BSVerif.Driver

def dispatch (toks : List String) (impl : Option String) : Option (String × String) :=
  match toks with
  | [] => none
  | t :: _ =>
    if t.startsWith "utf." then Utf.handle toks impl
    else none

end BSVerif.Driver
