import BSVerif.Driver.Utf
import BSVerif.Driver.UtfStream

namespace BSVerif.Driver

def dispatch (toks : List String) (impl : Option String) : Option (String × String) :=
  match toks with
  | [] => none
  | t :: _ =>
    if t == "utf.detect" || t == "utf.read" || t == "utf.write" then UtfStream.handle toks impl
    else if t.startsWith "utf." then Utf.handle toks impl
    else none

end BSVerif.Driver
