import BSVerif.Driver.Utf
import BSVerif.Driver.UtfStream
import BSVerif.Driver.BinStream
import BSVerif.Driver.Scope
import BSVerif.Driver.Num
import BSVerif.Driver.Csv
import BSVerif.Driver.Fault
import BSVerif.Driver.MsgPack
import BSVerif.Driver.Load
import BSVerif.Driver.Cont
import BSVerif.Driver.Valid
import BSVerif.Driver.Adapter
import BSVerif.Driver.Chrono
import BSVerif.Driver.WStr
import BSVerif.Driver.MpObj

namespace BSVerif.Driver

def dispatch (toks : List String) (impl : Option String) : Option (String × String) :=
  match toks with
  | [] => none
  | t :: _ =>
    if t == "wstr.rt" then WStr.handle toks impl
    else if t == "utf.detect" || t == "utf.detects" || t == "utf.read" || t == "utf.write" then UtfStream.handle toks impl
    else if t.startsWith "utf." then Utf.handle toks impl
    else if t.startsWith "bs." then BinStream.handle toks impl
    else if t == "mp.obj" || t == "mp.obj2" then MpObj.handle toks impl
    else if t == "mp.scope" || t == "mp.tuple" || t == "mp.keyeq" then Scope.handle toks impl
    else if t.startsWith "mp." then MsgPack.handle toks impl
    else if t.startsWith "num." then Num.handle toks impl
    else if t.startsWith "csv." then Csv.handle toks impl
    else if t.startsWith "fault." then Fault.handle toks impl
    else if t == "load.any" || t == "rt.any" || t == "enc.rt" then Load.handle toks impl
    else if t.startsWith "cont." then Cont.handle toks impl
    else if t.startsWith "val." then Valid.handle toks impl
    else if t.startsWith "json." || t.startsWith "xml." then Adapter.handle toks impl
    else if t.startsWith "iso." || t.startsWith "bin." then Chrono.handle toks impl
    else none

end BSVerif.Driver
