/-
  wstr.rt <archive> <src> <w:8|16|32|w> <value units> <key units>   (harness/ops_wstr.cpp)
  String values and keys of any width inside the archives: on save the value is transcoded to the archive's UTF-8
  (`Detail::TranscodeStringByPolicy`, serialization_base_types.h), on load back to the C++ string's width.
  MODEL: the two `Transcode` calls of the transcoder model; answer `ok <units> 7`.
  ORACLE (C11, last clause): a well-formed value under a well-formed key comes back unit for unit.
-/
import BSVerif.Driver.Utf

namespace BSVerif.Driver.WStr
open BSVerif BSVerif.Utf BSVerif.Driver.Utf

def parseW : String → Option Nat
  | "8" => some 8 | "16" => some 16 | "32" => some 32 | "w" => some 32 | _ => none

def handle (toks : List String) (impl : Option String) : Option (String × String) :=
  match toks with
  | ["wstr.rt", _arch, _src, w, vU, kU] => do
    let w ← parseW w
    let v ← parseUnits vU
    let k ← parseUnits kU
    if !(unitsOk w v && unitsOk w k) then none
    let saved := (transcode w 8 .skip (some [0xE2, 0x98, 0x90]) v []).out
    let back := (transcode 8 w .skip (some (if w = 8 then [0xE2, 0x98, 0x90] else [0x2610])) saved []).out
    let ans := s!"ok {hexUnits w back} 7"
    let wf := !Spec.hasBad (Spec.segment w v) && !Spec.hasBad (Spec.segment w k)
    let verdict := match impl with
      | some i =>
        if !wf then "nospec"
        else if i == s!"ok {hexUnits w v} 7" then "ok"
        else "bad:string_value_or_key_not_restored_through_the_archive"
      | none => "nospec"
    pure (ans, verdict)
  | _ => none

end BSVerif.Driver.WStr
