/-
  val.load <class> <cap> <config> <doc tokens>         (implementation side: harness/ops_valid.cpp)  policy Skip
  val.loadt <class> <cap> <config> <doc tokens>        the same load under MismatchedTypesPolicy::ThrowError
    answer: ok <state> | validation <path>=[msg|msg];… [<state>] | err <class>
  val.phone[z|16|32|w] <min> <max> <plus 0|1> <loaded 0|1> <string>     the real PhoneNumber functor on any string
  val.email[z|16|32|w] <loaded 0|1> <string>                            the real Email functor on any string
    answer: pass | fail:<message class>;  model = Valid/TextValidators.lean, judged by Valid/TextSpec.lean
-/
import BSVerif.Valid.Model
import BSVerif.Valid.Spec
import BSVerif.Valid.TextValidators
import BSVerif.Valid.TextSpec
import BSVerif.Driver.Scope

namespace BSVerif.Driver.Valid
open BSVerif BSVerif.Scope BSVerif.Scope.Spec BSVerif.Valid

def odd (s : Seen) : Bool := s.int % 2 != 0 || s.size % 2 != 0

def parseValidator (code : String) : Option Validator :=
  let cs := code.toList
  match cs with
  | ['R'] => some (.required none)
  | ['R', '!'] => some (.required (some "custom required"))
  | ['E', '+'] => some (.verdict true "Invalid email address")
  | ['E', '-'] => some (.verdict false "Invalid email address")
  | ['P', '+'] => some (.verdict true "bad phone")
  | ['P', '-'] => some (.verdict false "bad phone")
  | ['C', 'e'] => some (.custom (fun s l => l && odd s) "odd")
  | ['C', 'a'] => some (.custom (fun _ _ => true) "always")
  | ['C', 'u'] => some (.custom (fun _ l => !l) "unloaded")
  | ['C', 'v'] => some (.custom (fun s _ => odd s) "oddvalue")
  | c :: rest =>
    let (custom, body) := match rest with
      | '!' :: r => (true, String.ofList r)
      | r => (false, String.ofList r)
    match c with
    | 'G' =>
      match body.splitOn ":" with
      | [lo, hi] => do
        let lo ← parseInt lo; let hi ← parseInt hi
        pure (.range lo hi (if custom then some "custom range" else none))
      | _ => none
    | 'N' => body.toNat?.map fun n => .minSize n (if custom then some "custom min" else none)
    | 'X' => body.toNat?.map fun n => .maxSize n (if custom then some "custom max" else none)
    | _ => none
  | [] => none

/-- config: `<field>=<v>,<v>;…` → validators of a field -/
def parseConfig (cfg : String) : Option (List (String × List Validator)) :=
  if cfg == "-" then some []
  else (cfg.splitOn ";").mapM fun part =>
    match part.splitOn "=" with
    | [name, codes] => do
      let vs ← (codes.splitOn ",").mapM parseValidator
      if vs.length > 4 then none
      pure (name, vs)
    | _ => none

def cfgOf (cfg : List (String × List Validator)) (name : String) : List Validator :=
  match cfg.find? (·.1 == name) with
  | some e => e.2
  | none => []

def flatFields (cfg : List (String × List Validator)) : List LeafField :=
  [⟨"i", .int, cfgOf cfg "i"⟩, ⟨"s", .str, cfgOf cfg "s"⟩, ⟨"o", .optInt, cfgOf cfg "o"⟩, ⟨"v", .vecInt, cfgOf cfg "v"⟩,
   ⟨"e", .enm, cfgOf cfg "e"⟩]

def classOf (name : String) (cfg : List (String × List Validator)) : Option (List Field) :=
  match name with
  | "flat" => some ((flatFields cfg).map fun f => ⟨f.key, .leaf f.kind, f.validators⟩)
  | "nested" => some [⟨"n", .obj (flatFields cfg), cfgOf cfg "n"⟩, ⟨"k", .leaf .int, cfgOf cfg "k"⟩]
  | "vec" => some [⟨"items", .vecObj (flatFields cfg), cfgOf cfg "items"⟩]
  | "map" => some [⟨"m", .mapObj (flatFields cfg), cfgOf cfg "m"⟩]
  | _ => none

/-! ### canonical text -/

def intStr (v : Int) : String := toString v

def leafStr : LeafVal → String
  | .int v => intStr v
  | .str s => hexBytes s
  | .opt none => "-"
  | .opt (some v) => intStr v
  | .vec l => if l.isEmpty then "e" else String.intercalate "." (l.map intStr)
  | .enm i => toString i

def flatStr (f : FlatVal) : String := String.intercalate ":" (f.map leafStr)

def bytesLe : List Nat → List Nat → Bool
  | [], _ => true
  | _ :: _, [] => false
  | a :: as, b :: bs => a < b || (a == b && bytesLe as bs)

def fieldStr : FieldVal → String
  | .leaf v => leafStr v
  | .obj f => flatStr f
  | .vec l => if l.isEmpty then "-" else String.intercalate "," (l.map flatStr)
  | .map l =>
    if l.isEmpty then "-"
    else String.intercalate "," ((l.mergeSort fun a b => bytesLe a.1 b.1).map fun e => hexBytes e.1 ++ "=" ++ flatStr e.2)

/-- flat: i:s:o:v:e   nested: <flat>;k   vec / map: the single field -/
def stateStr (className : String) (st : List FieldVal) : String :=
  match className with
  | "flat" => String.intercalate ":" (st.map fieldStr)
  | _ => String.intercalate ";" (st.map fieldStr)

def canonMsg (m : String) : String := m.replace " " "_"

def errsStr (m : ErrMap) : String :=
  String.intercalate ";" ((Spec.sortByPath m).map fun e => e.1 ++ "=[" ++ String.intercalate "|" (e.2.map canonMsg) ++ "]")

def outcomeStr (className : String) : Outcome → String
  | .ok st => "ok " ++ stateStr className st
  | .validation m (some st) => "validation " ++ errsStr m ++ " " ++ stateStr className st
  | .validation m none => "validation " ++ errsStr m

def parseErrs (s : String) : Option (List (String × List String)) :=
  (s.splitOn ";").mapM fun part =>
    match part.splitOn "=[" with
    | [path, rest] =>
      if rest.endsWith "]" then some (path, ((rest.dropEnd 1).toString.splitOn "|"))
      else none
    | _ => none

def parseAnswer (s : String) : Option Spec.Answer :=
  match s.splitOn " " with
  | ["ok", st] => some (.ok st)
  | ["validation", errs] => (parseErrs errs).map fun e => .validation e none
  | ["validation", errs, st] => (parseErrs errs).map fun e => .validation e (some st)
  | ["err", c] => some (.err c)
  | _ => none

/-! ### documents the abstraction covers: string keys, distinct within an object; no booleans -/

def objOk (es : List (Val × Val)) : Bool :=
  let ks := es.filterMap fun e => match e.1 with | .sc (.str s) => some s | _ => none
  ks.length == es.length && ks.eraseDups.length == ks.length && ks.all (fun k => !k.isEmpty && k.all fun c => 97 ≤ c && c ≤ 122)

def childObjs (v : Val) : List (List (Val × Val)) :=
  match v with
  | .map es => [es]
  | .arr items => items.filterMap fun it => match it with | .map es => some es | _ => none
  | _ => []

def docOk (doc : Val) : Bool :=
  match doc with
  | .map es =>
    objOk es && (es.all fun e =>
      (childObjs e.2).all fun es1 => objOk es1 && (es1.all fun e1 => (childObjs e1.2).all objOk))
  | _ => true

def tokOk : Tok → Bool
  | .bool _ => false
  | _ => true

/-- validators the harness can attach to the enum field: Required, Range with a custom message, custom lambdas -/
def enumValidatorOk : Validator → Bool
  | .required _ => true
  | .range _ _ (some _) => true
  | .custom _ _ => true
  | _ => false

/-- tokens of the ThrowError op: only what the harness encoder and the generator produce -/
def tokOkT : Tok → Bool
  | .bool _ => false
  | .bin _ => false
  | .ext _ _ => false
  | .ts _ _ => false
  | _ => true

def outcomeStrT (className : String) : OutcomeT → String
  | .done o => outcomeStr className o
  | .mismatched => "err mismatched"

def handleLoad (toks : List String) (impl : Option String) : Option (String × String) :=
  match toks with
  | [op, className, capS, cfgS, docS] => do
    let throwError ← if op == "val.load" || op == "val.loads" then some false else if op == "val.loadt" then some true else none
    let cap ← capS.toNat?
    let cfg ← parseConfig cfgS
    if !(cfgOf cfg "e").all enumValidatorOk then none
    let cls ← classOf className cfg
    let toks ← (docS.splitOn ",").mapM Scope.parseTok
    if !toks.all (if throwError then tokOkT else tokOk) then none
    let vals ← parseDoc toks
    let doc ← match vals with | [v] => some v | _ => none
    if !docOk doc then none
    let ans := if throwError then outcomeStrT className (loadClassT cap cls doc) else outcomeStr className (loadClass cap cls doc)
    let v := match impl with
      | some i =>
        match parseAnswer i with
        | some a =>
          if throwError then Spec.judgeT (stateStr className) canonMsg cap cls doc a
          else Spec.judge (stateStr className) canonMsg cap cls doc a
        | none => "bad:unparsable_or_abnormal_answer"
      | none => "nospec"
    pure (ans, v)
  | _ => none

/-! ### the text validators called directly -/

def phoneErrStr : Text.PhoneErr → String
  | .dashes => "dashes" | .nested => "nested" | .closing => "closing" | .chars => "chars" | .plus => "plus"
  | .unclosed => "unclosed"
  | .digitsExact n => s!"digits_eq_{n}"
  | .digitsRange lo hi => s!"digits_range_{lo}_{hi}"

/-- op suffix → (unit width, C string?) ; the string token → units -/
def parseText (suffix : String) (text : String) : Option (List Nat) :=
  match suffix with
  | "" => parseBytes text
  | "z" => (parseBytes text).map Text.cstrView
  | "16" => (parseUnits text).bind fun u => if u.all (· < 65536) then some u else none
  | "32" => (parseUnits text).bind fun u => if u.all (· < 4294967296) then some u else none
  | "w" => (parseUnits text).bind fun u => if u.all (· < 4294967296) then some u else none
  | _ => none

def parseFlag : String → Option Bool
  | "0" => some false | "1" => some true | _ => none

def implPass (i : String) : Option Bool :=
  if i == "pass" then some true else if i.startsWith "fail:" then some false else none

def judgeText (v : TextSpec.Verdict) (why : String) (impl : Option String) : String :=
  match impl with
  | none => "nospec"
  | some i =>
    match implPass i with
    | some b => TextSpec.judge v b why
    | none => "bad:unparsable_or_abnormal_answer"

def handleText (toks : List String) (impl : Option String) : Option (String × String) :=
  match toks with
  | [op, minS, maxS, plusS, loadedS, text] => do
    if !op.startsWith "val.phone" then none
    let s ← parseText (op.drop 9).toString text
    let min ← minS.toNat?; let max ← maxS.toNat?
    if min ≥ 18446744073709551616 || max ≥ 18446744073709551616 then none
    let plus ← parseFlag plusS; let loaded ← parseFlag loadedS
    let ans := match Text.phone ⟨min, max, plus⟩ loaded s with
      | none => "pass"
      | some e => "fail:" ++ phoneErrStr e
    let v := TextSpec.verdictFor loaded (TextSpec.phoneVerdict min max plus s)
    pure (ans, judgeText v ((TextSpec.phoneBroken min max plus s).getD "-") impl)
  | [op, loadedS, text] => do
    if !op.startsWith "val.email" then none
    let s ← parseText (op.drop 9).toString text
    let loaded ← parseFlag loadedS
    let ans := match Text.email loaded s with
      | .pass => "pass"
      | .fail => "fail:invalid"
      | .sizeOverflow => "size-overflow"
    let v := TextSpec.verdictFor loaded (TextSpec.emailVerdict s)
    pure (ans, judgeText v (TextSpec.emailBroken s) impl)
  | _ => none

def handle (toks : List String) (impl : Option String) : Option (String × String) :=
  match toks with
  | "val.load" :: _ => handleLoad toks impl
  | "val.loadt" :: _ => handleLoad toks impl
  | "val.loads" :: _ => handleLoad toks impl        -- the same load through the std::istream overload of LoadObject
  | _ => handleText toks impl


end BSVerif.Driver.Valid
