/-
  mp.scope <src:mem|stream> <mis:throw|skip> <doc tokens> <requests>
    doc tokens (comma separated): n t f i<dec> d<hexbits> s<hex> b<hex> a<n> m<n>     (`s-` = empty string)
                                  x<type dec>:<hex payload> (ext value, type -128..127 except -1)
                                  T<sec>:<ns> (timestamp = ext type -1; 0 ≤ sec < 2^34, ns ≤ 999999999: the 32/64-bit layouts)
    requests (semicolon separated): g<key>=<ty> A<key> O<key> B<key> v n=<ty> a o B r e c
                                  key: s<hex>|i<dec>|T<sec>:<ns>  ty: i b s d n x (x = CBinTimestamp)
                                  B / B<key> = OpenBinaryScope, inside it: r = read one byte, e = IsEnd, c = close
    answers: T<scalar> F P<n> K<keys> Y N C E<class> X ?     (a trailing E after the last request = the error that a
             destructor deferred, rethrown by Finalize()); scalar = i<dec> t f s<hex> d<hex16> n <sec>:<ns> <2 hex digits = byte>
  mp.tuple  <src> <mis> <doc tokens>      LoadObject into std::tuple<int64,string,int64,bool>
  mp.tuple  <src> <mis> <doc tokens> obj  LoadObject into struct { that tuple "t"; int64 "z" }: 4 element answers ; z
-/
import BSVerif.Scope.Spec
import BSVerif.Scope.VarKey

namespace BSVerif.Driver.Scope
open BSVerif BSVerif.Scope

/-- `<sec>:<ns>` within the timestamp 32 / timestamp 64 layouts (the 96-bit layout is the recorded C07 class
    `ts96-seconds-first-read`; it is not generated for the scope ops) -/
def parseTs (body : String) : Option (Int × Nat) :=
  match body.splitOn ":" with
  | [a, b] => do
    let sec ← parseInt a
    let ns ← b.toNat?
    if 0 ≤ sec ∧ sec < 17179869184 ∧ ns ≤ 999999999 then some (sec, ns) else none
  | _ => none

def parseExt (body : String) : Option Tok :=
  match body.splitOn ":" with
  | [a, b] => do
    let ty ← parseInt a
    let p ← parseBytes b
    if -128 ≤ ty ∧ ty ≤ 127 ∧ ty ≠ -1 then some (.ext ty p) else none
  | _ => none

def parseTok (s : String) : Option Tok :=
  if s == "n" then some .nil
  else if s == "t" then some (.bool true)
  else if s == "f" then some (.bool false)
  else
    let body := (s.drop 1).toString
    match s.toList.head? with
    | some 'i' => (parseInt body).map .int
    | some 'd' => (parseHexNat body).map .flt
    | some 's' => (parseBytes body).map .str
    | some 'b' => (parseBytes body).map .bin
    | some 'a' => body.toNat?.map .arr
    | some 'm' => body.toNat?.map .map
    | some 'x' => parseExt body
    | some 'T' => (parseTs body).map fun (sec, ns) => .ts sec ns
    | _ => none

def parseKey (s : String) : Option Key :=
  let body := (s.drop 1).toString
  match s.toList.head? with
  | some 's' => (parseBytes body).map .str
  | some 'c' => (parseBytes body).map .str      -- the same text passed in a char[24] buffer
  | some 'i' => (parseInt body).map .int
  -- request keys passed to the scope as int32_t (`j`) / uint64_t (`u`): the same mathematical integer
  | some 'j' => (parseInt body).bind fun v => if -2147483648 ≤ v ∧ v < 2147483648 then some (.int v) else none
  | some 'u' => (parseInt body).bind fun v => if 0 ≤ v ∧ v < 18446744073709551616 then some (.int v) else none
  | some 'T' => (parseTs body).map fun (sec, ns) => .ts sec ns
  | _ => none

def parseTy : String → Option Ty
  | "i" => some .int | "b" => some .bool | "s" => some .str | "d" => some .flt | "n" => some .nil | "x" => some .ts | _ => none

def parseReq (s : String) : Option Req :=
  if s == "v" then some .visit
  else if s == "a" then some .openArr
  else if s == "o" then some .openObj
  else if s == "e" then some .isEnd
  else if s == "c" then some .close
  else if s == "B" then some .openBin
  else if s == "r" then some .readByte
  else
    let body := (s.drop 1).toString
    match s.toList.head? with
    | some 'g' =>
      match body.splitOn "=" with
      | [k, ty] => do let k ← parseKey k; let ty ← parseTy ty; pure (.get k ty)
      | _ => none
    | some 'A' => (parseKey body).map .openArrK
    | some 'O' => (parseKey body).map .openObjK
    | some 'B' => (parseKey body).map .openBinK
    | some 'n' =>
      match body.splitOn "=" with
      | ["", ty] => (parseTy ty).map .next
      | _ => none
    | _ => none

def intStr (v : Int) : String := toString v

def scStr : Sc → String
  | .int v => s!"i{intStr v}" | .bool true => "t" | .bool false => "f" | .str s => s!"s{hexBytes s}"
  | .flt b => s!"d{hexUnit 64 b}" | .nil => "n"
  | .ts sec ns => s!"{intStr sec}:{ns}" | .byte b => hexUnit 8 b

def keyStr : Key → String
  | .str s => s!"s{hexBytes s}" | .int v => s!"i{intStr v}" | .ts sec ns => s!"T{intStr sec}:{ns}"

def errStr : Err → String
  | .parsing => "parsing" | .mismatched => "mismatched" | .outOfRange => "ser_out_of_range" | .overflow => "overflow"

def ansStr : Ans → String
  | .val v => "T" ++ scStr v
  | .no => "F"
  | .opened n => s!"P{n}"
  | .keys ks => "K" ++ String.intercalate "," (ks.map keyStr)
  | .flag b => if b then "Y" else "N"
  | .closed => "C"
  | .err e => "E" ++ errStr e
  | .terminate => "X"
  | .badReq => "?"

def parseSc (s : String) : Option Sc :=
  if s == "t" then some (.bool true) else if s == "f" then some (.bool false) else if s == "n" then some .nil
  else if s.contains ':' then (parseTs s).map fun (sec, ns) => .ts sec ns
  -- exactly two hex digits = one byte of a binary scope (no other scalar answer has that shape: `d` is followed by 16 digits)
  else if s.length == 2 ∧ s.toList.all (fun c => c.isDigit ∨ ('a' ≤ c ∧ c ≤ 'f')) then (parseHexNat s).map .byte
  else
    let body := (s.drop 1).toString
    match s.toList.head? with
    | some 'i' => (parseInt body).map .int
    | some 's' => (parseBytes body).map .str
    | some 'd' => (parseHexNat body).map .flt
    | _ => none

def parseAns (s : String) : Option Ans :=
  let body := (s.drop 1).toString
  match s.toList.head? with
  | some 'T' => (parseSc body).map .val
  | some 'F' => some .no
  | some 'P' => body.toNat?.map .opened
  | some 'K' => if body.isEmpty then some (.keys []) else ((body.splitOn ",").mapM parseKey).map .keys
  | some 'Y' => some (.flag true)
  | some 'N' => some (.flag false)
  | some 'C' => some .closed
  | some 'E' =>
    match body with
    | "parsing" => some (.err .parsing) | "mismatched" => some (.err .mismatched) | "ser_out_of_range" => some (.err .outOfRange)
    | "overflow" => some (.err .overflow)
    | _ => none
  | some 'X' => some .terminate
  | _ => none

/-- `std::tuple<int64,string,int64,bool>` loaded through types/std/tuple.h (model: the element requests on an array
    scope, an OutOfRange from CheckEnd turned into MismatchedTypes under ThrowError / swallowed under Skip, surplus
    elements rejected under ThrowError) -/
def tupleTys : List Ty := [.int, .str, .int, .bool]

/-- `SerializeArray(arrayScope, tuple)` on the freshly opened array scope `st`: the element answers and the state in
    which the array scope is then destroyed, or the exception -/
def tupleElems (mis : Mis) : List Ty → St → List Ans → Except Ans (List Ans × St)
  | [], st, acc =>
    match step st .isEnd with
    | (.flag false, _) => if mis = .throwError then .error (.err .mismatched) else .ok (acc.reverse, st)
    | _ => .ok (acc.reverse, st)
  | ty :: tys, st, acc =>
    match step st (.next ty) with
    | (.err .outOfRange, _) =>
      if mis = .throwError then .error (.err .mismatched) else .ok (acc.reverse ++ (ty :: tys).map fun _ => Ans.no, st)
    | (.err e, _) => .error (.err e)
    | (a, st') => tupleElems mis tys st' (a :: acc)

/-- what `Finalize()` adds after the last scope was closed -/
def finalize (st : St) (answers : List Ans) : List Ans :=
  match st.deferred with
  | some e => [.err e]
  | none => answers

/-- `LoadObject(tuple, doc)`: root `OpenArrayScope`, the elements, the scope's destructor, `Finalize()` -/
def tupleModel (mis : Mis) (doc : List Tok) : List Ans :=
  let st0 := initSt doc mis
  match step st0 .openArr with
  | (.opened _, st1) =>
    match tupleElems mis tupleTys st1 [] with
    | .error a => [a]
    | .ok (as, st2) => finalize (step st2 .close).2 as
  | (.no, _) => tupleTys.map fun _ => Ans.no
  | (.err e, _) => [.err e]
  | _ => [.badReq]

def keyT : Key := .str [116]
def keyZ : Key := .str [122]

/-- `LoadObject(holder, doc)` with `struct { std::tuple<…> t; int64_t z; }` serialized as `KeyValue("t", t) << KeyValue("z", z)`:
    the tuple is an array scope INSIDE an object scope, closed wherever the tuple stops (shorter tuple under Skip,
    shorter array), and the field behind it is requested afterwards -/
def tupleObjModel (mis : Mis) (doc : List Tok) : List Ans :=
  let st0 := initSt doc mis
  match step st0 .openObj with
  | (.opened _, st1) =>
    let afterT : Except Ans (List Ans × St) :=
      match step st1 (.openArrK keyT) with
      | (.opened _, st2) =>
        match tupleElems mis tupleTys st2 [] with
        | .error a => .error a
        | .ok (as, st3) => .ok (as, (step st3 .close).2)
      | (.no, st2) => .ok (tupleTys.map fun _ => Ans.no, st2)
      | (a, _) => .error a
    match afterT with
    | .error a => [a]
    | .ok (as, st4) =>
      match step st4 (.get keyZ .int) with
      | (.err e, _) => [.err e]
      | (z, st5) => finalize (step st5 .close).2 (as ++ [z])
  | (.no, _) => (tupleTys.map fun _ => Ans.no) ++ [Ans.no]
  | (.err e, _) => [.err e]
  | _ => [.badReq]

/-- abstract expectation for a tuple loaded from the value `v` (from the data model, not from the scope model);
    `none` = no value (absent key) -/
def tupleValSpec (mis : Mis) (v : Option Spec.Val) : Except Ans (List Ans) :=
  match v with
  | some (.arr items) =>
    let per := (tupleTys.zip items).map fun (ty, v) => Spec.expectScalar mis ty v
    match per.find? (fun a => match a with | .err _ => true | _ => false) with
    | some e => .error e
    | none =>
      if items.length < tupleTys.length then
        (if mis = .throwError then .error (.err .mismatched) else .ok (per ++ (List.replicate (tupleTys.length - items.length) Ans.no)))
      else if items.length > tupleTys.length ∧ mis = .throwError then .error (.err .mismatched)
      else .ok per
  | some (.sc .nil) | none => .ok (tupleTys.map fun _ => Ans.no)
  | some _ => if mis = .throwError then .error (.err .mismatched) else .ok (tupleTys.map fun _ => Ans.no)

def tupleSpec (mis : Mis) (doc : List Tok) : Option (List Ans) :=
  match Spec.parseDoc doc with
  | some (v :: _) => some (match tupleValSpec mis (some v) with | .ok as => as | .error e => [e])
  | _ => none

/-- the holder object: whatever the tuple takes from (or leaves in) the array under "t", the field "z" behind it
    must load as the value stored under "z" -/
def tupleObjSpec (mis : Mis) (doc : List Tok) : Option (List Ans) :=
  match Spec.parseDoc doc with
  | some (.map es :: _) =>
    match tupleValSpec mis (Spec.lookup es keyT) with
    | .error e => some [e]
    | .ok as =>
      match (Spec.lookup es keyZ).map (Spec.expectScalar mis .int) with
      | some (.err e) => some [.err e]
      | some z => some (as ++ [z])
      | none => some (as ++ [Ans.no])
  | some (.sc .nil :: _) => some ((tupleTys.map fun _ => Ans.no) ++ [Ans.no])
  | some (_ :: _) => if mis = .throwError then some [.err .mismatched] else some ((tupleTys.map fun _ => Ans.no) ++ [Ans.no])
  | _ => none

def handle (toks : List String) (impl : Option String) : Option (String × String) :=
  match toks with
  | ["mp.keyeq", alt, stored, bits, sg, value] => do
    let r ← parseInt stored
    let v ← parseInt value
    let b ← bits.toNat?
    let st ← match alt with | "u" => some (VarKey.Stored.u r) | "s" => some (VarKey.Stored.s r) | _ => none
    let ty : VarKey.ITy := ⟨b, sg == "s"⟩
    let ans := if VarKey.eqKey st ty v then "t" else "f"
    let v := match impl with
      | some i => if i == (if r == v then "t" else "f") then "ok" else "bad:key_comparison_is_not_integer_equality"
      | none => "nospec"
    pure (ans, v)
  | ["mp.tuple", _src, mis, docS] => do
    let mis ← match mis with | "throw" => some Mis.throwError | "skip" => some Mis.skip | _ => none
    let doc ← (docS.splitOn ",").mapM parseTok
    let ans := String.intercalate ";" ((tupleModel mis doc).map ansStr)
    let v := match impl with
      | some i =>
        match (i.splitOn ";").mapM parseAns, tupleSpec mis doc with
        | some ia, some exp => if ia = exp then "ok" else "bad:tuple_elements_differ_from_the_data_model"
        | none, _ => "bad:unparsable_or_abnormal_answer"
        | _, none => "nospec"
      | none => "nospec"
    pure (ans, v)
  | ["mp.tuple", _src, mis, docS, "obj"] => do
    let mis ← match mis with | "throw" => some Mis.throwError | "skip" => some Mis.skip | _ => none
    let doc ← (docS.splitOn ",").mapM parseTok
    let ans := String.intercalate ";" ((tupleObjModel mis doc).map ansStr)
    let v := match impl with
      | some i =>
        match (i.splitOn ";").mapM parseAns, tupleObjSpec mis doc with
        | some ia, some exp => if ia = exp then "ok" else "bad:tuple_or_the_field_behind_it_differs_from_the_data_model"
        | none, _ => "bad:unparsable_or_abnormal_answer"
        | _, none => "nospec"
      | none => "nospec"
    pure (ans, v)
  | ["mp.scope", _src, mis, docS, reqS] => do
    let mis ← match mis with | "throw" => some Mis.throwError | "skip" => some Mis.skip | _ => none
    let doc ← (docS.splitOn ",").mapM parseTok
    let reqs ← (reqS.splitOn ";").mapM parseReq
    let answers := run (initSt doc mis) reqs
    let ans := String.intercalate ";" (answers.map ansStr)
    let v := match impl with
      | some i =>
        match (i.splitOn ";").mapM parseAns with
        | some ia => Spec.judge mis doc reqs ia
        | none => "bad:unparsable_or_abnormal_answer"
      | none => "nospec"
    pure (ans, v)
  | _ => none

end BSVerif.Driver.Scope
