/-
  mp.scope <src:mem|stream> <mis:throw|skip> <doc tokens> <requests>
    doc tokens (comma separated): n t f i<dec> d<hexbits> s<hex> b<hex> a<n> m<n>     (`s-` = empty string)
    requests (semicolon separated): g<key>=<ty> A<key> O<key> v n=<ty> a o e c        key: s<hex>|i<dec>  ty: i b s d n
    answers: T<scalar> F P<n> K<keys> Y N C E<class> X ?
-/
import BSVerif.Scope.Spec

namespace BSVerif.Driver.Scope
open BSVerif BSVerif.Scope

def parseTok (s : String) : Option Tok :=
  if s == "n" then some .nil
  else if s == "t" then some (.bool true)
  else if s == "f" then some (.bool false)
  else
    let body := (s.drop 1).toString
    match s.toList.head? with
    | some 'i' => (parseInt body).map .int
    | some 'd' => (parseHexNat body).map .flt
    | some 's' => (parseBytes body).map .str
    | some 'b' => (parseBytes body).map .bin
    | some 'a' => body.toNat?.map .arr
    | some 'm' => body.toNat?.map .map
    | _ => none

def parseKey (s : String) : Option Key :=
  let body := (s.drop 1).toString
  match s.toList.head? with
  | some 's' => (parseBytes body).map .str
  | some 'i' => (parseInt body).map .int
  | _ => none

def parseTy : String → Option Ty
  | "i" => some .int | "b" => some .bool | "s" => some .str | "d" => some .flt | "n" => some .nil | _ => none

def parseReq (s : String) : Option Req :=
  if s == "v" then some .visit
  else if s == "a" then some .openArr
  else if s == "o" then some .openObj
  else if s == "e" then some .isEnd
  else if s == "c" then some .close
  else
    let body := (s.drop 1).toString
    match s.toList.head? with
    | some 'g' =>
      match body.splitOn "=" with
      | [k, ty] => do let k ← parseKey k; let ty ← parseTy ty; pure (.get k ty)
      | _ => none
    | some 'A' => (parseKey body).map .openArrK
    | some 'O' => (parseKey body).map .openObjK
    | some 'n' =>
      match body.splitOn "=" with
      | ["", ty] => (parseTy ty).map .next
      | _ => none
    | _ => none

def intStr (v : Int) : String := toString v

def scStr : Sc → String
  | .int v => s!"i{intStr v}" | .bool true => "t" | .bool false => "f" | .str s => s!"s{hexBytes s}"
  | .flt b => s!"d{hexUnit 64 b}" | .nil => "n"

def keyStr : Key → String
  | .str s => s!"s{hexBytes s}" | .int v => s!"i{intStr v}"

def errStr : Err → String
  | .parsing => "parsing" | .mismatched => "mismatched" | .outOfRange => "ser_out_of_range" | .overflow => "overflow"

def ansStr : Ans → String
  | .val v => "T" ++ scStr v
  | .no => "F"
  | .opened n => s!"P{n}"
  | .keys ks => "K" ++ String.intercalate "," (ks.map keyStr)
  | .flag b => if b then "Y" else "N"
  | .closed => "C"
  | .err e => "E" ++ errStr e
  | .terminate => "X"
  | .badReq => "?"

def parseSc (s : String) : Option Sc :=
  if s == "t" then some (.bool true) else if s == "f" then some (.bool false) else if s == "n" then some .nil
  else
    let body := (s.drop 1).toString
    match s.toList.head? with
    | some 'i' => (parseInt body).map .int
    | some 's' => (parseBytes body).map .str
    | some 'd' => (parseHexNat body).map .flt
    | _ => none

def parseAns (s : String) : Option Ans :=
  let body := (s.drop 1).toString
  match s.toList.head? with
  | some 'T' => (parseSc body).map .val
  | some 'F' => some .no
  | some 'P' => body.toNat?.map .opened
  | some 'K' => if body.isEmpty then some (.keys []) else ((body.splitOn ",").mapM parseKey).map .keys
  | some 'Y' => some (.flag true)
  | some 'N' => some (.flag false)
  | some 'C' => some .closed
  | some 'E' =>
    match body with
    | "parsing" => some (.err .parsing) | "mismatched" => some (.err .mismatched) | "ser_out_of_range" => some (.err .outOfRange)
    | "overflow" => some (.err .overflow)
    | _ => none
  | some 'X' => some .terminate
  | _ => none

def handle (toks : List String) (impl : Option String) : Option (String × String) :=
  match toks with
  | ["mp.scope", _src, mis, docS, reqS] => do
    let mis ← match mis with | "throw" => some Mis.throwError | "skip" => some Mis.skip | _ => none
    let doc ← (docS.splitOn ",").mapM parseTok
    let reqs ← (reqS.splitOn ";").mapM parseReq
    let answers := run (initSt doc mis) reqs
    let ans := String.intercalate ";" (answers.map ansStr)
    let v := match impl with
      | some i =>
        match (i.splitOn ";").mapM parseAns with
        | some ia => Spec.judge mis doc reqs ia
        | none => "bad:unparsable_or_abnormal_answer"
      | none => "nospec"
    pure (ans, v)
  | _ => none

end BSVerif.Driver.Scope
