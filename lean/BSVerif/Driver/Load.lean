/-
  load.any / rt.any ops (whole-object loads of arbitrary bytes, and save→load round trips through the
  real archives). No model prediction: the driver echoes the implementation's answer and JUDGES it.
    load.any : the only acceptable outcomes are `ok …` and `exc:<std::exception class>` (C02);
               crashes, sanitizer reports, terminate, timeouts are violations — except the recorded classes
               (`terminate` is in no recorded class any more: the scope destructors defer their errors)
    rt.any   : `same`, or the save failed with an exception; a document that loads to a different value or
               cannot be loaded is a violation (C01) — except the recorded classes
-/
import BSVerif.Basic

namespace BSVerif.Driver.Load

def handle (toks : List String) (impl : Option String) : Option (String × String) :=
  let a := impl.getD "-"
  let verdict : String :=
    match impl with
    | none => "nospec"
    | some a =>
      match toks with
      | ["load.any", arch, _src, target, _ovf, _mis, _hex] =>
        if (a.splitOn " ").contains "BIGALLOC" then
          -- one allocation request out of proportion to the document: recorded only for container targets pre-sized from a MsgPack
          -- array / map header; anything else (a string or binary length trusted before the data arrives, …) is a violation
          (if arch == "mp" && ["vi", "vs", "vvi", "msi", "outer", "vouter", "rows", "a4", "ca4"].contains target
           then "known:msgpack-header-preallocation" else "bad:allocation_out_of_proportion_to_the_input")
        else if a.startsWith "ok" || a.startsWith "exc:" then
          (if arch == "mp" && (a == "exc:bad_alloc" || a == "exc:length_error") then "known:msgpack-header-preallocation" else "ok")
        else if arch == "mp" && a == "crash:asan:stack-overflow" then "known:msgpack-deep-nesting-recursion"
        else if arch == "mp" && (a == "crash:asan:allocation-size-too-big" || a == "crash:asan:out-of-memory") then
          "known:msgpack-header-preallocation"
        else if arch == "json" && a.startsWith "crash:ubsan" then "known:rapidjson-fullprecision-edge-literals"
        else "bad:" ++ a.replace " " "_"
      | ["rt.any", arch, _src, target, _seed] =>
        if a == "same" || a.startsWith "exc-save:" then "ok"
        else if arch == "csv" && (target == "rows" || target == "vchrono" || target == "vshape") && a.startsWith "exc-load:parsing" &&
            (match a.splitOn " " with | [_, saved, v] => (saved == "-" || saved == "efbbbf") && v == "[]" | _ => false) then
          "known:csv-empty-array-unloadable"
        else "bad:" ++ ((a.splitOn " ").headD "?")
      | ["enc.rt", _arch, _enc, _bom, _seed, _delta] =>
        -- a table saved to a stream in any of the five encodings is read back unchanged, whatever its size relative to the chunk
        if a.startsWith "same " then "ok" else "bad:" ++ ((a.splitOn " ").headD "?")
      | _ => "nospec"
  match toks with
  | t :: _ => if t == "load.any" || t == "rt.any" || t == "enc.rt" then some (a, verdict) else none
  | [] => none

end BSVerif.Driver.Load
