/-
  Line-protocol handlers for the UTF ops (see harness/ops_utf.cpp for the implementation side).
    utf.transcode <wi> <wo> <pol> <mark> <out0> <in>
    utf.dec <src> <wo> <pol> <mark> <out0> <in>      src ∈ 8 16 16le 16be 32 32le 32be
    utf.enc <dst> <wi> <pol> <mark> <out0> <in>
  units: dot-separated hex, `-` = empty; mark: `null` or units; pol: skip|throw
  answer: <ok|invalid|end> <iter> <invalidCount> <out units>
-/
import BSVerif.Utf.Oracle

namespace BSVerif.Driver.Utf
open BSVerif BSVerif.Utf

def parsePol : String → Option Policy
  | "skip" => some .skip
  | "throw" => some .throwError
  | _ => none

def parseMark (s : String) : Option (Option (List Nat)) :=
  if s == "null" then some none else (parseUnits s).map some

def codeStr : Code → String
  | .success => "ok" | .invalidSequence => "invalid" | .unexpectedEnd => "end"

def parseCode : String → Option Code
  | "ok" => some .success | "invalid" => some .invalidSequence | "end" => some .unexpectedEnd | _ => none

def render (wo : Nat) (r : Res) : String :=
  s!"{codeStr r.code} {r.iter} {r.invalid} {hexUnits wo r.out}"

def parseRes (s : String) : Option Res :=
  match s.splitOn " " with
  | [c, i, n, o] => do
    let c ← parseCode c; let i ← i.toNat?; let n ← n.toNat?; let o ← parseUnits o
    pure ⟨o, c, i, n⟩
  | _ => none

def verdictStr : Oracle.Verdict → String
  | .ok => "ok" | .known c => s!"known:{c}" | .bad w => s!"bad:{w.replace " " "_"}"

/-- (width, bigEndian?) of an encoding-class name -/
def parseEnc : String → Option (Nat × Bool)
  | "8" => some (8, false) | "16" => some (16, false) | "16le" => some (16, false) | "16be" => some (16, true)
  | "32" => some (32, false) | "32le" => some (32, false) | "32be" => some (32, true) | _ => none

def unitsOk (w : Nat) (l : List Nat) : Bool := l.all (· < 2 ^ w)

def handle (toks : List String) (impl : Option String) : Option (String × String) :=
  -- `utf.transcodew`: the same call with wchar_t on the 32-bit side(s) (same model: the code dispatches on the unit SIZE)
  let toks := match toks with | "utf.transcodew" :: r => "utf.transcode" :: r | _ => toks
  match toks with
  | ["utf.transcode", wi, wo, pol, mark, out0, inp] => do
    let wi ← wi.toNat?; let wo ← wo.toNat?; let pol ← parsePol pol; let mark ← parseMark mark
    let out0 ← parseUnits out0; let inp ← parseUnits inp
    if !(unitsOk wi inp && unitsOk wo out0) then none
    let r := transcode wi wo pol mark inp out0
    let v := match impl.bind parseRes with
      | some ir => verdictStr (Oracle.judge wi wo pol mark out0 inp ir)
      | none => "nospec"
    pure (render wo r, v)
  | ["utf.dec", src, wo, pol, mark, out0, inp] => do
    let (wi, be) ← parseEnc src; let wo ← wo.toNat?; let pol ← parsePol pol; let mark ← parseMark mark
    let out0 ← parseUnits out0; let inp ← parseUnits inp
    if !(unitsOk wi inp && unitsOk wo out0) then none
    let r := if wi = 8 then (if wo = 8 then copyAll inp 0 out0 else utf8Decode wo pol mark inp out0)
             else decodeEndian wi be wo pol mark inp out0
    -- the oracle sees the logical units (after byte-order normalisation)
    let inpL := if be then inp.map (reverseUnit wi) else inp
    let v := match impl.bind parseRes with
      | some ir => verdictStr (Oracle.judge wi wo pol mark out0 inpL ir)
      | none => "nospec"
    pure (render wo r, v)
  | ["utf.enc", dst, wi, pol, mark, out0, inp] => do
    let (wo, be) ← parseEnc dst; let wi ← wi.toNat?; let pol ← parsePol pol; let mark ← parseMark mark
    let out0 ← parseUnits out0; let inp ← parseUnits inp
    if !(unitsOk wi inp && unitsOk wo out0) then none
    let r := if wo = 8 then (if wi = 8 then copyAll inp 0 out0 else utf8Encode wi pol mark inp out0)
             else encodeEndian wo be wi pol mark inp out0
    let v := match impl.bind parseRes with
      | some ir =>
        -- undo the byte swap of the appended part before judging
        let irL := if be then { ir with out := out0 ++ (ir.out.drop out0.length).map (reverseUnit wo) } else ir
        let markL := if be then mark else mark
        verdictStr (Oracle.judge wi wo pol markL out0 inp irL)
      | none => "nospec"
    pure (render wo r, v)
  -- `utf.convert <wi> <wo> <form> <out0> <in>`: Convert::To between the string types = Transcode under ThrowError appended to the
  -- init-argument string; the form (std::basic_string / view / C string) of the source does not matter to the model
  | ["utf.convert", wi, wo, _form, out0, inp] => do
    let wi ← (if wi == "w" then some 32 else wi.toNat?); let wo ← (if wo == "w" then some 32 else wo.toNat?)
    let out0 ← parseUnits out0; let inp ← parseUnits inp
    if !(unitsOk wi inp && unitsOk wo out0) then none
    let r := transcode wi wo .throwError none inp out0
    let ans := if r.code == .success then s!"ok {hexUnits wo r.out}" else "exc"
    let v := match impl with
      | some i =>
        match i.splitOn " " with
        | ["ok", o] => match parseUnits o with
          | some o => verdictStr (Oracle.judge wi wo .throwError none out0 inp ⟨o, .success, inp.length, 0⟩)
          | none => "nospec"
        | ["exc"] =>
          -- an exception is right exactly when the Spec accepts a failing result for this input (the model's own, judged by the Spec)
          if r.code == .success then "bad:exception_on_well-formed_text" else verdictStr (Oracle.judge wi wo .throwError none out0 inp r)
        | _ => "nospec"
      | none => "nospec"
    pure (ans, v)
  | _ => none

end BSVerif.Driver.Utf
