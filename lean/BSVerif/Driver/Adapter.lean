/-
  json.save <keys> <out> <cfg> <schema> <value>            -> ok <hex bytes> | err <class>
  json.load <keys> <in:str|stream> <pol> <schema> <hex>     -> ok <value> | err <class>
  xml.save  <keys> <out> <cfg> <root|-> <schema> <value>    -> ok <hex bytes> | err <class>
  xml.load  <keys> <in:str|stream> <pol> <root|-> <schema> <hex> -> ok <value> | err <class>

  (grammar of <schema> / <value>: harness/dyn_model.h)

  The printers and parsers of RapidJSON / pugixml are parameters of the model (Props/C08: `Codec`).
  Text answers are therefore compared at the DOM level: for a `save` op the model's answer is the
  implementation's text itself when the SPEC parser (Adapter/JsonText, Adapter/XmlText) reads the
  model's DOM back from it — otherwise a rendering of the model's DOM, which can never agree.
-/
import BSVerif.Adapter.JsonModel
import BSVerif.Adapter.JsonText
import BSVerif.Adapter.Spec
import BSVerif.Adapter.XmlText
import BSVerif.Adapter.XmlModel
import BSVerif.Adapter.XmlSpec

namespace BSVerif.Driver.Adapter
open BSVerif BSVerif.Adapter

/-! ### schema / value syntax -/

def leafOfName : String → Option LeafTy
  | "b" => some .bool | "i8" => some (.int .i8) | "u8" => some (.int .u8) | "i16" => some (.int .i16) | "u16" => some (.int .u16)
  | "i32" => some (.int .i32) | "u32" => some (.int .u32) | "i64" => some (.int .i64) | "u64" => some (.int .u64)
  | "ll" => some (.int .ll) | "ull" => some (.int .ull) | "f32" => some .f32 | "f64" => some .f64 | "s" => some .str | "n" => some .null
  | _ => none

def isStop (stops : List Char) (c : Char) : Bool := stops.contains c

def word (stops : List Char) : List Char → List Char → List Char × List Char
  | [], acc => (acc.reverse, [])
  | c :: r, acc => if isStop stops c then (acc.reverse, c :: r) else word stops r (c :: acc)

mutual
def parseSchemaAt : Nat → List Char → Option (Schema × List Char)
  | 0, _ => none
  | fuel + 1, cs =>
    match cs with
    | '[' :: r => do
      let (e, r1) ← parseSchemaAt fuel r
      match r1 with
      | ']' :: r2 => pure (.vec e, r2)
      | _ => none
    | '<' :: r => do
      let (e, r1) ← parseSchemaAt fuel r
      match r1 with
      | '>' :: r2 => pure (.map e, r2)
      | _ => none
    | '?' :: r => do
      let (e, r1) ← parseSchemaAt fuel r
      pure (.opt e, r1)
    | '{' :: '}' :: r => some (.cls [], r)
    | '{' :: r => do
      let (fs, r1) ← parseFieldsAt fuel r
      pure (.cls fs, r1)
    | _ =>
      let (w, r) := word [',', ']', '}', '>'] cs []
      (leafOfName (String.ofList w)).map fun t => (.leaf t, r)
def parseFieldsAt : Nat → List Char → Option (List (Bool × Str × Schema) × List Char)
  | 0, _ => none
  | fuel + 1, cs =>
    let (attr, cs1) := match cs with
      | '@' :: r => (true, r)
      | _ => (false, cs)
    let (kw, cs2) := word [':'] cs1 []
    match cs2 with
    | ':' :: r => do
      let k ← parseBytes (String.ofList kw)
      let (s, r1) ← parseSchemaAt fuel r
      match r1 with
      | '}' :: r2 => pure ([(attr, k, s)], r2)
      | ',' :: r2 => do
        let (fs, r3) ← parseFieldsAt fuel r2
        pure ((attr, k, s) :: fs, r3)
      | _ => none
    | _ => none
end

def parseSchema (s : String) : Option Schema :=
  match parseSchemaAt (s.length + 2) s.toList with
  | some (sc, []) => some sc
  | _ => none

def valStops : List Char := [',', ']', '}', '>']

def parseLeafVal (t : LeafTy) (cs : List Char) : Option (Scalar × List Char) :=
  match t with
  | .bool => match cs with
    | 't' :: r => some (.bool true, r)
    | 'f' :: r => some (.bool false, r)
    | _ => none
  | .null => match cs with
    | 'n' :: r => some (.null, r)
    | _ => none
  | .str => match cs with
    | 's' :: r => let (w, r') := word valStops r []; (parseBytes (String.ofList w)).map fun b => (.str b, r')
    | _ => none
  | .f64 => match cs with
    | 'x' :: r => let (w, r') := word valStops r []; (parseHexNat (String.ofList w)).map fun b => (.f64 b, r')
    | _ => none
  | .f32 => match cs with
    | 'y' :: r => let (w, r') := word valStops r []; (parseHexNat (String.ofList w)).map fun b => (.f32 b, r')
    | _ => none
  | .int ty => let (w, r') := word valStops cs []; (parseInt (String.ofList w)).map fun v => (.int ty v, r')

def insertField (k : Str) (v : Val) : List (Bool × Str × Val) → List (Bool × Str × Val)
  | [] => [(false, k, v)]
  | (a, k', v') :: r => if k < k' then (false, k, v) :: (a, k', v') :: r else (a, k', v') :: insertField k v r

mutual
def parseValAt : Nat → Schema → List Char → Option (Val × List Char)
  | 0, _, _ => none
  | fuel + 1, sc, cs =>
    match sc with
    | .leaf t => (parseLeafVal t cs).map fun (s, r) => (.sc s, r)
    | .vec e =>
      match cs with
      | '[' :: ']' :: r => some (.arr [], r)
      | '[' :: r => do
        let (vs, r1) ← parseItemsAt fuel e r
        pure (.arr vs, r1)
      | _ => none
    | .cls fs =>
      match cs with
      | '{' :: r => do
        let (vs, r1) ← parseFieldValsAt fuel fs r true
        pure (.obj vs, r1)
      | _ => none
    | .map e =>
      match cs with
      | '<' :: '>' :: r => some (.obj [], r)
      | '<' :: r => do
        let (vs, r1) ← parseEntriesAt fuel e r
        pure (.obj vs, r1)
      | _ => none
    | .opt e =>
      match cs with
      | '~' :: r => some (.none, r)
      | _ => parseValAt fuel e cs
def parseItemsAt : Nat → Schema → List Char → Option (List Val × List Char)
  | 0, _, _ => none
  | fuel + 1, e, cs => do
    let (v, r) ← parseValAt fuel e cs
    match r with
    | ']' :: r1 => pure ([v], r1)
    | ',' :: r1 => do
      let (vs, r2) ← parseItemsAt fuel e r1
      pure (v :: vs, r2)
    | _ => none
def parseFieldValsAt : Nat → List (Bool × Str × Schema) → List Char → Bool → Option (List (Bool × Str × Val) × List Char)
  | 0, _, _, _ => none
  | fuel + 1, fs, cs, first =>
    match fs with
    | [] => match cs with
      | '}' :: r => some ([], r)
      | _ => none
    | (a, k, s) :: rest => do
      let cs1 ← if first then some cs else (match cs with | ',' :: r => some r | _ => none)
      let (v, r) ← parseValAt fuel s cs1
      let (vs, r1) ← parseFieldValsAt fuel rest r false
      pure ((a, k, v) :: vs, r1)
def parseEntriesAt : Nat → Schema → List Char → Option (List (Bool × Str × Val) × List Char)
  | 0, _, _ => none
  | fuel + 1, e, cs =>
    let (kw, cs1) := word ['='] cs []
    match cs1 with
    | '=' :: r => do
      let k ← parseBytes (String.ofList kw)
      let (v, r1) ← parseValAt fuel e r
      match r1 with
      | '>' :: r2 => pure ([(false, k, v)], r2)
      | ',' :: r2 => do
        let (vs, r3) ← parseEntriesAt fuel e r2
        pure (insertField k v vs, r3)
      | _ => none
    | _ => none
end

def parseVal (sc : Schema) (s : String) : Option Val :=
  match parseValAt (2 * s.length + 4) sc s.toList with
  | some (v, []) => some v
  | _ => none

def scalarStr : Scalar → String
  | .null => "n"
  | .bool true => "t" | .bool false => "f"
  | .int _ v => toString v
  | .f32 b => "y" ++ hexUnit 32 b
  | .f64 b => "x" ++ hexUnit 64 b
  | .str s => "s" ++ hexBytes s

mutual
def lvalStr : LVal → String
  | .unset => "_"
  | .none => "~"
  | .sc s => scalarStr s
  | .arr items => "[" ++ lvalListStr items true ++ "]"
  | .obj fs => "{" ++ lvalListStr fs true ++ "}"
  | .map es => "<" ++ lvalEntriesStr es true ++ ">"
def lvalListStr : List LVal → Bool → String
  | [], _ => ""
  | v :: r, first => (if first then "" else ",") ++ lvalStr v ++ lvalListStr r false
def lvalEntriesStr : List (Str × LVal) → Bool → String
  | [], _ => ""
  | (k, v) :: r, first => (if first then "" else ",") ++ hexBytes k ++ "=" ++ lvalStr v ++ lvalEntriesStr r false
end

def errStr : Err → String
  | .parsing => "parsing" | .mismatched => "mismatched" | .overflow => "overflow" | .outOfRange => "ser_out_of_range"
  | .utf => "utf" | .unsupportedEncoding => "unsupported_encoding"

def resStr : Except Err LVal → String
  | .ok v => "ok " ++ lvalStr v
  | .error e => "err " ++ errStr e

def parsePol (s : String) : Option Opts :=
  let p (c : Char) : Option Policy := if c = 't' then some .throwError else if c = 's' then some .skip else none
  match s.toList with
  | [a, b] => do let x ← p a; let y ← p b; pure ⟨x, y⟩
  | _ => none

open JsonText in
def parseEnc : String → Option Enc
  | "utf8" => some .utf8 | "utf16le" => some .utf16le | "utf16be" => some .utf16be
  | "utf32le" => some .utf32le | "utf32be" => some .utf32be | _ => none

/-- `str` -> none; `<enc>:<0|1>` -> some (enc, bom) -/
def parseOut (s : String) : Option (Option (JsonText.Enc × Bool)) :=
  if s == "str" then some none else
  match s.splitOn ":" with
  | [e, b] => do
    let e ← parseEnc e
    let b ← if b == "1" then some true else if b == "0" then some false else none
    pure (some (e, b))
  | _ => none

/-! ### JSON -/

/-- diagnostic rendering of a DOM (only shown when the implementation's text does not read back as this DOM) -/
def jsonRender : Nat → Json → String
  | 0, _ => "?"
  | _ + 1, .null => "null"
  | _ + 1, .bool b => if b then "true" else "false"
  | _ + 1, .int v => toString v
  | _ + 1, .dbl b => "x" ++ hexUnit 64 b
  | _ + 1, .str s => "s" ++ hexBytes s
  | f + 1, .arr items => "[" ++ String.intercalate "," (items.map (jsonRender f)) ++ "]"
  | f + 1, .obj ms => "{" ++ String.intercalate "," (ms.map fun m => hexBytes m.1 ++ ":" ++ jsonRender f m.2) ++ "}"

mutual
def valAllStrings (p : Str → Bool) : Val → Bool
  | .sc (.str s) => p s
  | .sc _ => true
  | .none => true
  | .arr items => valListAllStrings p items
  | .obj fs => valFieldsAllStrings p fs
def valListAllStrings (p : Str → Bool) : List Val → Bool
  | [] => true
  | v :: r => valAllStrings p v && valListAllStrings p r
def valFieldsAllStrings (p : Str → Bool) : List (Bool × Str × Val) → Bool
  | [] => true
  | (_, k, v) :: r => p k && valAllStrings p v && valFieldsAllStrings p r
end

mutual
def valAllScalars (p : Scalar → Bool) : Val → Bool
  | .sc s => p s
  | .none => true
  | .arr items => valListAllScalars p items
  | .obj fs => valFieldsAllScalars p fs
def valListAllScalars (p : Scalar → Bool) : List Val → Bool
  | [] => true
  | v :: r => valAllScalars p v && valListAllScalars p r
def valFieldsAllScalars (p : Scalar → Bool) : List (Bool × Str × Val) → Bool
  | [] => true
  | (_, _, v) :: r => valAllScalars p v && valFieldsAllScalars p r
end

def validUtf8 (s : Str) : Bool := !Utf.Spec.hasBad (Utf.Spec.segment 8 s)
def noNul (s : Str) : Bool := !s.contains 0

/-- decode the produced bytes as the output configuration prescribes: `str` = UTF-8 without BOM -/
def decodeOutput (out : Option (JsonText.Enc × Bool)) (bytes : List Nat) : Option (List Nat) :=
  match out with
  | none => JsonText.decode .utf8 bytes
  | some (e, bom) =>
    if bom then (JsonText.stripBom e bytes).bind (JsonText.decode e)
    else JsonText.decode e bytes

/-- encoding detection of RapidJSON's `AutoUTFInputStream` (BOM, else the zero pattern of the first four bytes) -/
def detectInput (bs : List Nat) : JsonText.Enc × List Nat :=
  open JsonText in
  if bs.take 4 = Enc.utf32le.bom then (.utf32le, bs.drop 4)
  else if bs.take 4 = Enc.utf32be.bom then (.utf32be, bs.drop 4)
  else if bs.take 2 = Enc.utf16le.bom then (.utf16le, bs.drop 2)
  else if bs.take 2 = Enc.utf16be.bom then (.utf16be, bs.drop 2)
  else if bs.take 3 = Enc.utf8.bom then (.utf8, bs.drop 3)
  else match bs with
    | a :: b :: c :: d :: _ =>
      let pat := (if a ≠ 0 then 1 else 0) + (if b ≠ 0 then 2 else 0) + (if c ≠ 0 then 4 else 0) + (if d ≠ 0 then 8 else 0)
      if pat = 8 then (.utf32be, bs) else if pat = 10 then (.utf16be, bs) else if pat = 1 then (.utf32le, bs)
      else if pat = 5 then (.utf16le, bs) else (.utf8, bs)
    | _ => (.utf8, bs)

def parseImplOk (impl : Option String) : Option (List Nat) :=
  match impl with
  | some i => if i.startsWith "ok " then parseBytes (i.drop 3).toString else none
  | none => none

def handleJsonSave (outS cfg schemaS valS : String) (impl : Option String) : Option (String × String) := do
  let out ← parseOut outS
  let _ := cfg
  let sc ← parseSchema schemaS
  let v ← parseVal sc valS
  if JsonModel.hasAttr v then none else
  let transcode := out.isSome
  let inDomain := valAllStrings validUtf8 v
  match JsonModel.save transcode v with
  | .error e =>
    -- SPEC: a value JSON cannot carry must make the save fail
    let verdict := match impl with
      | some i => if !valAllScalars Spec.scalarFinite v then (if i.startsWith "err " then "ok" else "bad:non_finite_number_saved")
                  else if !inDomain then "nospec" else "bad:save_failed"
      | none => "nospec"
    pure ("err " ++ errStr e, verdict)
  | .ok d =>
    let implDom : Option JsonText.DocRes := (parseImplOk impl).map fun bytes =>
      match decodeOutput out bytes with
      | some cs => JsonText.parseDoc false cs
      | none => .malformed
    match implDom with
    | some (.ok di) =>
      let same := Spec.jsonEq di d
      let ans := if same then impl.getD "" else "ok-dom " ++ jsonRender 64 d
      let verdict :=
        if !inDomain then "nospec"
        else if !valAllScalars Spec.scalarFinite v then "bad:non_finite_number_saved"
        else if same then "ok" else "bad:document_reads_back_as_a_different_data_model"
      pure (ans, verdict)
    | some .unevaluated => pure (impl.getD "", "nospec")
    | some _ => pure ("ok-dom " ++ jsonRender 64 d, if inDomain then "bad:document_is_not_well_formed_json_in_the_configured_encoding" else "nospec")
    | none => pure ("ok-dom " ++ jsonRender 64 d, match impl with | some _ => (if inDomain then "bad:save_failed" else "nospec") | none => "nospec")

/-- the encoding in which the bytes ARE a JSON text: the BOM's, else the only one of the five in which they decode and parse -/
def specEncoding (bytes : List Nat) : Option (JsonText.Enc × List Nat) :=
  open JsonText in
  let withBom := [Enc.utf32le, .utf32be, .utf16le, .utf16be, .utf8].filter fun e => bytes.take e.bom.length = e.bom
  match withBom with
  | e :: _ => some (e, bytes.drop e.bom.length)
  | [] =>
    let good := [Enc.utf8, .utf16le, .utf16be, .utf32le, .utf32be].filter fun e =>
      match decode e bytes with
      | some cs => (match parseDoc false cs with | .ok _ => true | _ => false)
      | none => false
    match good with
    | [e] => some (e, bytes)
    | _ => none

def takeUntilNul : List Nat → List Nat
  | [] => []
  | c :: r => if c = 0 then [] else c :: takeUntilNul r

def handleJsonLoad (inS polS schemaS docS : String) (impl : Option String) : Option (String × String) := do
  let o ← parsePol polS
  let sc ← parseSchema schemaS
  let bytes ← parseBytes docS
  let stream ← if inS == "stream" then some true else if inS == "str" then some false else none
  -- MODEL: the parser is a parameter; the SPEC parser with RapidJSON's observed deviations stands in for it
  -- (encoding detection of AutoUTFInputStream; a NUL code unit ends the input; lone \uDC00-\uDFFF escapes pass)
  let (enc, body) := if stream then detectInput bytes else
    (JsonText.Enc.utf8, if bytes.take 3 = JsonText.Enc.utf8.bom then bytes.drop 3 else bytes)
  let modelDoc : Option JsonText.DocRes := (JsonText.decode enc body).map fun cs => JsonText.parseDoc true (takeUntilNul cs)
  let modelAns : String := match modelDoc with
    | none => impl.getD "err parsing"       -- ill-formed UTF: outside the codec's domain (RapidJSON does not validate UTF-8 -> UTF-8)
    | some .unevaluated => impl.getD "err parsing"
    | some .ub => "crash:ubsan:other"
    | some .edge => impl.getD "err parsing"     -- RapidJSON 1.1.0 full-precision answers garbage below the subnormal range: not modelled
    | some .malformed => "err parsing"
    | some .tooBig => impl.getD "err parsing"    -- beyond the binary64 range: RapidJSON's answer (error, DBL_MAX or infinity) is not modelled
    | some (.ok d) => resStr (JsonModel.loadRoot o sc d)
  -- SPEC: the document as a JSON text in its real encoding, read by the RFC 8259 parser
  let specDoc : Option JsonText.DocRes :=
    if stream then (specEncoding bytes).bind fun (e, b) => (JsonText.decode e b).map (JsonText.parseDoc false)
    else (JsonText.decode .utf8 body).map (JsonText.parseDoc false)
  let verdict : String := match impl with
    | none => "nospec"
    | some i =>
      match specDoc with
      | some (.ok d) =>
        if stream ∧ (specEncoding bytes).map (·.1) ≠ some enc ∧ i == "err parsing" then "known:json-bomless-utf16-not-detected"
        else if modelDoc matches some .ub then "known:rapidjson-fullprecision-edge-literals"
        else match Spec.expectLoad o sc (some d) with
          | none => "nospec"
          | some e =>
            if resStr e == i then "ok"
            else if modelDoc matches some .edge then "known:rapidjson-fullprecision-edge-literals"
            else "bad:loaded_value_differs_from_the_data_model"
      | some .malformed => if i == "err parsing" then "ok" else "nospec"   -- the property speaks about conforming documents
      | some .tooBig => if i == "err parsing" then "ok" else "known:rapidjson-fullprecision-edge-literals"
      | _ => "nospec"
  pure (modelAns, verdict)

/-! ### XML -/

def xmlRender : Nat → XNode → String
  | 0, _ => "?"
  | _ + 1, .text s => "s" ++ hexBytes s
  | f + 1, .elem n attrs children =>
    "<" ++ hexBytes n ++ String.join (attrs.map fun a => " " ++ hexBytes a.1 ++ "=" ++ hexBytes a.2) ++ ">"
      ++ String.intercalate "," (children.map (xmlRender f)) ++ "</>"

/-- placeholder spelling for the parameter `NumFmt` in diagnostic renderings -/
def diagFmt : XmlModel.NumFmt := ⟨fun b => ("x" ++ hexUnit 64 b).toList.map (·.toNat), fun b => ("y" ++ hexUnit 32 b).toList.map (·.toNat)⟩

def xmlCharsOk (s : Str) : Bool :=
  let segs := Utf.Spec.segment 8 s
  !Utf.Spec.hasBad segs && (Utf.Spec.scalarsOf segs).all XmlText.isChar

def xmlNameOk (s : Str) : Bool :=
  let segs := Utf.Spec.segment 8 s
  !Utf.Spec.hasBad segs &&
    (match Utf.Spec.scalarsOf segs with
     | c :: r => XmlText.isNameStart c && r.all XmlText.isNameChar && !(c :: r).contains 0x3A
     | [] => false)

mutual
def valXmlDomain : Val → Bool
  | .sc (.str s) => xmlCharsOk s
  | .sc s => Spec.scalarFinite s
  | .none => true
  | .arr items => valListXmlDomain items
  | .obj fs => valFieldsXmlDomain fs
def valListXmlDomain : List Val → Bool
  | [] => true
  | v :: r => valXmlDomain v && valListXmlDomain r
def valFieldsXmlDomain : List (Bool × Str × Val) → Bool
  | [] => true
  | (_, k, v) :: r => xmlNameOk k && valXmlDomain v && valFieldsXmlDomain r
end

mutual
/-- a string kept as element text contains a carriage return (pugixml writes it raw; XML parsers read a line feed) -/
def valHasCrText : Val → Bool
  | .arr items => valListHasCrText items
  | .obj fs => valFieldsHasCrText fs
  | .sc (.str s) => s.contains 0x0D
  | _ => false
def valListHasCrText : List Val → Bool
  | [] => false
  | v :: r => valHasCrText v || valListHasCrText r
def valFieldsHasCrText : List (Bool × Str × Val) → Bool
  | [] => false
  | (a, _, v) :: r => (!a && valHasCrText v) || valFieldsHasCrText r
end

mutual
/-- value / schema pairs that XML maps to the same element as another value: an empty optional of a container type
    (reads back as the empty container) and an optional holding the empty string (reads back as empty optional) -/
def nullAmbiguous : Schema → Val → Bool
  | .opt (.leaf .str), .sc (.str s) => s.isEmpty
  | .opt (.vec _), .none => true
  | .opt (.cls _), .none => true
  | .opt (.map _), .none => true
  | .opt e, v => nullAmbiguous e v
  | .vec e, .arr items => nullAmbiguousList e items
  | .map e, .obj fs => nullAmbiguousEntries e fs
  | .cls ss, .obj fs => nullAmbiguousFields ss fs
  | _, _ => false
def nullAmbiguousList (e : Schema) : List Val → Bool
  | [] => false
  | v :: r => nullAmbiguous e v || nullAmbiguousList e r
def nullAmbiguousEntries (e : Schema) : List (Bool × Str × Val) → Bool
  | [] => false
  | (_, _, v) :: r => nullAmbiguous e v || nullAmbiguousEntries e r
def nullAmbiguousFields : List (Bool × Str × Schema) → List (Bool × Str × Val) → Bool
  | (a, _, s) :: ss, (_, _, v) :: fs =>
    -- an empty optional string ATTRIBUTE is written as key="" and reads back as the empty string
    (a && (match s, v with | .opt (.leaf .str), .none => true | _, _ => false)) || nullAmbiguous s v || nullAmbiguousFields ss fs
  | _, _ => false
end

def decodeLatin1 (bs : List Nat) : List Nat := bs

/-- XML 1.0 Appendix F / pugixml `guess_buffer_encoding`: BOM, `<` patterns, declared ISO-8859-1 -/
inductive XEnc where
  | utf (e : JsonText.Enc)
  | latin1
  deriving DecidableEq, Repr

def asciiLower (c : Nat) : Nat := if 0x41 ≤ c ∧ c ≤ 0x5A then c + 32 else c

/-- value of the `encoding` pseudo attribute of an 8-bit declaration, lower-cased -/
def declaredEncoding8 (bs : List Nat) : Option (List Nat) :=
  let head := bs.take 200
  let rec find : Nat → List Nat → Option (List Nat)
    | 0, _ => none
    | _, [] => none
    | fuel + 1, cs =>
      if cs.take 8 = [0x65,0x6E,0x63,0x6F,0x64,0x69,0x6E,0x67] then
        match XmlText.skipS (cs.drop 8) with
        | 0x3D :: r =>
          (match XmlText.skipS r with
           | q :: r' => if q = 0x22 ∨ q = 0x27 then some ((r'.takeWhile (· ≠ q)).map asciiLower) else none
           | [] => none)
        | _ => none
      else if cs.take 2 = [0x3F, 0x3E] then none
      else find fuel (cs.drop 1)
  find 200 head

def detectXml (bs : List Nat) : XEnc × List Nat :=
  open JsonText in
  match bs with
  | d0 :: d1 :: d2 :: d3 :: _ =>
    if d0 = 0 ∧ d1 = 0 ∧ d2 = 0xFE ∧ d3 = 0xFF then (.utf .utf32be, bs.drop 4)
    else if d0 = 0xFF ∧ d1 = 0xFE ∧ d2 = 0 ∧ d3 = 0 then (.utf .utf32le, bs.drop 4)
    else if d0 = 0xFE ∧ d1 = 0xFF then (.utf .utf16be, bs.drop 2)
    else if d0 = 0xFF ∧ d1 = 0xFE then (.utf .utf16le, bs.drop 2)
    else if d0 = 0xEF ∧ d1 = 0xBB ∧ d2 = 0xBF then (.utf .utf8, bs.drop 3)
    else if d0 = 0 ∧ d1 = 0 ∧ d2 = 0 ∧ d3 = 0x3C then (.utf .utf32be, bs)
    else if d0 = 0x3C ∧ d1 = 0 ∧ d2 = 0 ∧ d3 = 0 then (.utf .utf32le, bs)
    else if d0 = 0 ∧ d1 = 0x3C then (.utf .utf16be, bs)
    else if d0 = 0x3C ∧ d1 = 0 then (.utf .utf16le, bs)
    else if d0 = 0x3C ∧ d1 = 0x3F ∧ d2 = 0x78 ∧ d3 = 0x6D then
      match declaredEncoding8 bs with
      | some e => if e = "iso-8859-1".toList.map (·.toNat) ∨ e = "latin1".toList.map (·.toNat) then (.latin1, bs) else (.utf .utf8, bs)
      | none => (.utf .utf8, bs)
    else (.utf .utf8, bs)
  | _ => (.utf .utf8, bs)

def decodeXml (e : XEnc) (bs : List Nat) : Option (List Nat) :=
  match e with
  | .utf u => JsonText.decode u bs
  | .latin1 => some bs

mutual
/-- an element whose whole content is white space written literally (pugixml drops it: the cell reads as null) -/
def rHasWsOnlyLeaf : XmlText.RNode → Bool
  | .elem _ _ children =>
    (match children with
     | [.pcdata _ true] => true
     | _ => false) || rListHasWsOnlyLeaf children
  | _ => false
def rListHasWsOnlyLeaf : List XmlText.RNode → Bool
  | [] => false
  | c :: r => rHasWsOnlyLeaf c || rListHasWsOnlyLeaf r
end

mutual
/-- an element whose only content is white space written as character references or CDATA: a blank string for a scalar
    target, but for a container target neither clearly empty nor clearly a text value -/
def rHasRefWsOnly : XmlText.RNode → Bool
  | .elem _ _ children =>
    (!children.isEmpty && children.all (fun c => match c with
        | .pcdata s _ => s.all XmlText.isS
        | .cdata s => s.all XmlText.isS
        | _ => false)
      && children.any (fun c => match c with | .pcdata _ rawWs => !rawWs | .cdata _ => true | _ => false))
    || rListHasRefWsOnly children
  | _ => false
def rListHasRefWsOnly : List XmlText.RNode → Bool
  | [] => false
  | c :: r => rHasRefWsOnly c || rListHasRefWsOnly r
end

def isTextPiece : XmlText.RNode → Bool
  | .pcdata _ rawWs => !rawWs
  | .cdata _ => true
  | _ => false

mutual
/-- an element whose character data is written in more than one piece (CDATA sections, comments or processing
    instructions in between): `text()` answers the first piece only -/
def rHasSplitText : XmlText.RNode → Bool
  | .elem _ _ children => decide ((children.filter isTextPiece).length ≥ 2) || rListHasSplitText children
  | _ => false
def rListHasSplitText : List XmlText.RNode → Bool
  | [] => false
  | c :: r => rHasSplitText c || rListHasSplitText r
end

def dirtyNumeral (t : Str) : Bool :=
  match XmlSpec.numeral t with
  | .notNumeral =>
    -- a numeral (or true/false) followed by something else
    (NumText.scanDecimal (NumText.skipBlanks t)).isSome
      || NumText.isPrefixCI XmlModel.strTrue (NumText.skipBlanks t) || NumText.isPrefixCI XmlModel.strFalse (NumText.skipBlanks t)
  | .dec _ _ _ => true      -- a floating literal into an integer target: `1e3` loads 1
  | _ => false

def negativeNumeral (t : Str) : Bool :=
  match XmlSpec.trimBlanks t with
  | 0x2D :: d :: _ => NumText.isDigit d
  | _ => false

mutual
def xAnyCell (p : Str → Bool) : XNode → Bool
  | .text s => p s
  | .elem _ attrs children => attrs.any (fun a => p a.2) || xListAnyCell p children
def xListAnyCell (p : Str → Bool) : List XNode → Bool
  | [] => false
  | c :: r => xAnyCell p c || xListAnyCell p r
end

def handleXmlSave (outS cfg rootS schemaS valS : String) (impl : Option String) : Option (String × String) := do
  let out ← parseOut outS
  let _ := cfg
  let key ← if rootS == "-" then some none else (parseBytes rootS).map some
  let sc ← parseSchema schemaS
  let v ← parseVal sc valS
  let rootName := match v with
    | .arr _ => key.getD XmlModel.nameArray
    | _ => key.getD XmlModel.nameRoot
  let modelDom ← XmlModel.buildRoot diagFmt key v       -- none: scalars at the root do not compile
  let inDomain := valXmlDomain v && (key.map xmlNameOk).getD true
  let implDoc : Option XmlText.DocRes := (parseImplOk impl).map fun bytes =>
    match decodeOutput out bytes with
    | some cs => XmlText.parseDoc cs
    | none => .malformed
  if !inDomain then pure (impl.getD "-", "nospec") else
  match implDoc with
  | some (.ok root _) =>
    let same := XmlSpec.domMatches rootName v (XmlText.toInfoset root)
    let ans := if same then impl.getD "" else "ok-dom " ++ xmlRender 64 modelDom
    let bomless : Bool := match out with
      | some (e, false) => decide (e ≠ .utf8)
      | _ => false
    let verdict :=
      if !inDomain then "nospec"
      else if valHasCrText v then "known:xml-cr-in-text-not-escaped"
      else if !same then "bad:document_reads_back_as_a_different_data_model"
      else if bomless then "known:xml-utf16-utf32-without-bom-or-declaration"
      else if nullAmbiguous sc v then "known:xml-null-and-empty-share-one-form"
      else "ok"
    pure (if valHasCrText v && inDomain then impl.getD "" else ans, verdict)
  | some .unevaluated => pure (impl.getD "", "nospec")
  | some .malformed => pure (if inDomain then "ok-dom " ++ xmlRender 64 modelDom else impl.getD "", if inDomain then "bad:document_is_not_well_formed_xml_in_the_configured_encoding" else "nospec")
  | none => pure ("ok-dom " ++ xmlRender 64 modelDom, match impl with | some _ => (if inDomain then "bad:save_failed" else "nospec") | none => "nospec")

def handleXmlLoad (inS polS rootS schemaS docS : String) (impl : Option String) : Option (String × String) := do
  let o ← parsePol polS
  let key ← if rootS == "-" then some none else (parseBytes rootS).map some
  let sc ← parseSchema schemaS
  match sc with
  | .leaf _ | .opt _ => none
  | _ =>
  let bytes ← parseBytes docS
  let stream ← if inS == "stream" then some true else if inS == "str" then some false else none
  -- pugixml: a string is UTF-8 (`load_buffer(..., encoding_utf8)`), a stream is auto-detected
  let (enc, body) : XEnc × List Nat := if stream then detectXml bytes else
    (.utf .utf8, if bytes.take 3 = JsonText.Enc.utf8.bom then bytes.drop 3 else bytes)
  let echo : Option (String × String) := some (impl.getD "err parsing", match impl with | some "err parsing" => "ok" | _ => "nospec")
  match decodeXml enc body with
  | none => echo                                -- ill-formed UTF: outside the codec's domain
  | some cs =>
    let cs := match cs with | 0xFEFF :: r => r | _ => cs
    match XmlText.parseDoc cs with
    | .unevaluated => echo
    | .malformed => echo                         -- the property speaks about conforming documents; pugixml is lenient
    | .ok root _ =>
      let pugi := (XmlText.toPugi root).head?
      let info := XmlText.toInfoset root
      let modelRes : XmlModel.LoadRes := match pugi with
        | some r => XmlModel.loadRoot o key sc r
        | none => .unevaluated
      match modelRes with
      | .unevaluated => echo
      | _ =>
        let modelAns := match modelRes with
          | .ok v => "ok " ++ lvalStr v
          | .err e => "err " ++ errStr e
          | .unevaluated => ""
        let verdict := match impl with
          | none => "nospec"
          | some i =>
            match XmlSpec.expectRoot o key sc info with
            | .nospec => "nospec"
            | .is e =>
              if resStr e == i then "ok"
              else if rHasWsOnlyLeaf root then "known:xml-whitespace-only-text-dropped"
              else if rHasSplitText root then "known:xml-text-after-markup-ignored"
              else if xAnyCell dirtyNumeral info then "known:number-text-prefix-accepted"
              else if xAnyCell negativeNumeral info then "known:negative-text-into-unsigned-is-mismatch"
              else if rHasRefWsOnly root then "nospec"
              else "bad:loaded_value_differs_from_the_data_model"
        pure (modelAns, verdict)

/-! ### std::tuple<int32_t, int32_t> (types/std/tuple.h): one array item per element without IsEnd(); OutOfRange from the
    array scope becomes MismatchedTypes (ThrowError) or ends the load (Skip); surplus items are MismatchedTypes (ThrowError) -/

def tupleLoad {α : Type} (o : Opts) (items : List α) (loadItem : α → Except Err (Option Scalar)) : String :=
  let show2 (a b : Option Int) : String := s!"ok {a.getD 90},{b.getD 90}"
  let asInt : Option Scalar → Option Int
    | some (.int _ v) => some v
    | _ => none
  match items with
  | [] => if o.mismatched = .throwError then "err mismatched" else show2 none none
  | x :: r =>
    match loadItem x with
    | .error e => "err " ++ errStr e
    | .ok a =>
      match r with
      | [] => if o.mismatched = .throwError then "err mismatched" else show2 (asInt a) none
      | y :: r' =>
        match loadItem y with
        | .error e => "err " ++ errStr e
        | .ok b => if !r'.isEmpty ∧ o.mismatched = .throwError then "err mismatched" else show2 (asInt a) (asInt b)

def handleJsonTuple (polS docS : String) (impl : Option String) : Option (String × String) := do
  let o ← parsePol polS
  let bytes ← parseBytes docS
  let body := if bytes.take 3 = JsonText.Enc.utf8.bom then bytes.drop 3 else bytes
  match (JsonText.decode .utf8 body).map fun cs => JsonText.parseDoc true (takeUntilNul cs) with
  | some (.ok (.arr items)) =>
    let m := tupleLoad o items (JsonModel.loadValue o (.int .i32))
    pure (m, match impl with | some i => (if i == m then "ok" else "bad:tuple_load_differs") | none => "nospec")
  | some (.ok .null) => pure ("ok 90,90", "nospec")
  | some (.ok _) => pure (if o.mismatched = .throwError then "err mismatched" else "ok 90,90", "nospec")
  | some .malformed => pure ("err parsing", "nospec")
  | _ => pure (impl.getD "err parsing", "nospec")

def handleXmlTuple (polS docS : String) (impl : Option String) : Option (String × String) := do
  let o ← parsePol polS
  let bytes ← parseBytes docS
  let body := if bytes.take 3 = JsonText.Enc.utf8.bom then bytes.drop 3 else bytes
  match (JsonText.decode .utf8 body).map XmlText.parseDoc with
  | some (.ok root _) =>
    match (XmlText.toPugi root).head? with
    | some r =>
      let conv (n : XNode) : Except Err (Option Scalar) := match XmlModel.loadValue o (.int .i32) n with
        | .done x => x
        | .unevaluated => .ok none
      let m := tupleLoad o (XmlModel.childrenOf r) conv
      pure (m, match impl with | some i => (if i == m then "ok" else "bad:tuple_load_differs") | none => "nospec")
    | none => none
  | _ => pure (impl.getD "err parsing", "nospec")

def handle (toks : List String) (impl : Option String) : Option (String × String) :=
  match toks with
  | ["json.save", _keys, out, cfg, schema, val] => handleJsonSave out cfg schema val impl
  | ["json.load", _keys, inp, pol, schema, doc] => handleJsonLoad inp pol schema doc impl
  | ["json.tuple", pol, doc] => handleJsonTuple pol doc impl
  | ["xml.tuple", pol, doc] => handleXmlTuple pol doc impl
  | ["xml.save", _keys, out, cfg, root, schema, val] => handleXmlSave out cfg root schema val impl
  | ["xml.load", _keys, inp, pol, root, schema, doc] => handleXmlLoad inp pol root schema doc impl
  | _ => none

end BSVerif.Driver.Adapter
