/-
  bs.run <N> <hex data> <op;op;…>   -> answers joined by `;`
  ops: peek next rb solid:<k> chunks:<k> set:<p> pos end failed
-/
import BSVerif.BinStream.Oracle

namespace BSVerif.Driver.BinStream
open BSVerif BSVerif.BinStream BSVerif.BinStream.Oracle

def handle (toks : List String) (impl : Option String) : Option (String × String) :=
  match toks with
  | ["bs.run", n, hex, opsS] => do
    let n ← n.toNat?
    let data ← parseBytes hex
    let ops ← (opsS.splitOn ";").mapM parseOp
    let (answers, _) := ops.foldl (fun (acc : List String × Reader) op =>
      let (a, r') := stepModel acc.2 op
      (acc.1 ++ [a], r')) ([], Reader.mk' n data)
    let v := match impl with
      | some i => judgeRun n data ops (i.splitOn ";")
      | none => "nospec"
    pure (String.intercalate ";" answers, v)
  | _ => none

end BSVerif.Driver.BinStream
