/-
  Line-protocol handlers for the numeric ops (implementation side: harness/ops_num.cpp), prefix `num.`
    num.conv   <S> <T> <v>                 -> ok <v'> | err out_of_range | err invalid_argument
    num.try    <S> <T> <v>                 -> ok <v'> | none
    num.parse  <T> <w> <units>             -> ok <v'> | err …
    num.bool   <w> <units>                 -> ok 0|1  | err …
    num.print  <T> <w> <v>                 -> ok <units>
    num.frt    <F> <w> <bits>              -> ok <bits'> <units> | err …
    num.policy <S> <T> <ovf> <mis> <v>     -> true <target> | false <target> | err overflow | err mismatched
  types: i8 u8 i16 u16 i32 u32 i64 u64 bool char c16 c32 wc f32 f64 ; S of num.policy also str8|str16|str32|null
  integers decimal, floats hex bit patterns, w ∈ 8|16|32|w
-/
import BSVerif.Num.Model
import BSVerif.Num.Oracle

namespace BSVerif.Driver.Num
open BSVerif BSVerif.Num

def parseTy : String → Option Ty
  | "i8" => some (.int ⟨8, true⟩) | "u8" => some (.int ⟨8, false⟩)
  | "i16" => some (.int ⟨16, true⟩) | "u16" => some (.int ⟨16, false⟩)
  | "i32" => some (.int ⟨32, true⟩) | "u32" => some (.int ⟨32, false⟩)
  | "i64" => some (.int ⟨64, true⟩) | "u64" => some (.int ⟨64, false⟩)
  | "bool" => some .bool
  | "char" => some (.int ⟨8, true⟩)        -- x86-64 Linux: plain char is signed
  | "c16" => some (.int ⟨16, false⟩) | "c32" => some (.int ⟨32, false⟩)
  | "wc" => some (.int ⟨32, true⟩)         -- wchar_t is a signed 32-bit type on Linux
  | "f32" => some (.flt .f32) | "f64" => some (.flt .f64)
  | _ => none

/-- tokens that name *distinct* C++ types with the same representation are never `is_same` -/
def sameCppType (a b : String) : Bool := a == b

def textParsable : String → Bool
  | "c16" | "c32" | "wc" => false
  | _ => true

def parseWidth : String → Option Nat
  | "8" => some 8 | "16" => some 16 | "32" => some 32 | "w" => some 32 | _ => none

def parseVal (T : Ty) (s : String) : Option Val :=
  match T with
  | .flt F =>
    if s.length ≠ F.width / 4 then none else
    (parseHexNat s).map Val.flt
  | _ => (BSVerif.parseInt s).bind fun x => if T.FitsInt x then some (.int x) else none

def showVal (T : Ty) : Val → String
  | .int x => toString x
  | .flt b => match T with
    | .flt F => hexUnit F.width b
    | _ => hexUnit 64 b

def showErr : ConvErr → String
  | .outOfRange => "err out_of_range" | .invalidArgument => "err invalid_argument"

def showOutcome (T : Ty) : Outcome Val → String
  | .ok v => s!"ok {showVal T v}"
  | .err e => showErr e
  | .ub w => s!"crash:ubsan:{w}"

/-- implementation answer → ConvAnswer (for the oracle) -/
def readAnswer (T : Ty) (s : String) : Option ConvAnswer :=
  match s.splitOn " " with
  | ["ok", v] => (match T with
      | .flt F => if v.length ≠ F.width / 4 then none else (parseHexNat v).map fun b => .ok (.flt b)
      | _ => (BSVerif.parseInt v).map fun x => .ok (.int x))
  | ["err", "out_of_range"] => some (.err .outOfRange)
  | ["err", "invalid_argument"] => some (.err .invalidArgument)
  | _ => none

def verdictStr : Oracle.Verdict → String
  | .ok => "ok" | .known c => s!"known:{c}" | .bad w => s!"bad:{w.replace " " "_"}"

def unitsOk (w : Nat) (l : List Nat) : Bool := l.all (· < 2 ^ w)

def parsePol : String → Option Pol
  | "skip" => some .skip | "throw" => some .throwError | _ => none

def sentinel : Ty → Val
  | .bool => .int 1
  | .int _ => .int 42
  | .flt .f32 => .flt 0x42280000
  | .flt .f64 => .flt 0x4045000000000000

def lift {α : Type} (f : α → Val) : Outcome α → Outcome Val
  | .ok v => .ok (f v) | .err e => .err e | .ub w => .ub w

/-- `Convert::To<T>(S v)`. Two *different* C++ types with the same representation (char/i8, c32/u32,
    wc/i32, c16/u16) are not `is_same`: they run the generic cast-and-compare branch (`convIntInt`). -/
def modelConv (s t : String) (S T : Ty) (x : Val) : Outcome Val :=
  if sameCppType s t then .ok x
  else if S = T then
    (match S, x with
     | .int st, .int i => lift Val.int (convIntInt st st i)
     | _, _ => .ok x)
  else convertTo refOps S T x

/-- text → `T` through the model -/
def modelParse (T : Ty) (w : Nat) (s : List Nat) : Outcome Val :=
  match T with
  | .int t => lift Val.int (Num.parseInt t w s)
  | .bool => lift (fun b => Val.int (if b then 1 else 0)) (Num.parseBool s)
  | .flt F => lift Val.flt (Num.parseFloat F w s)

def modelPrint (T : Ty) (w : Nat) (v : Val) : Outcome (List Nat) :=
  match T, v with
  | .int _, .int x => Num.printInt w x
  | .bool, .int x => .ok (Num.printBool (x = 1))
  | .flt F, .flt b => Num.printFloat F w b
  | _, _ => .ub "ill-typed"

def showPolicy (T : Ty) : PolicyRes Val → String
  | .loaded v => s!"true {showVal T v}"
  | .skipped => s!"false {showVal T (sentinel T)}"
  | .thrown .overflow => "err overflow"
  | .thrown .mismatched => "err mismatched"
  | .thrown .parsing => "err parsing"
  | .ub w => s!"crash:ubsan:{w}"

def readPolicy (T : Ty) (s : String) : Oracle.PolAnswer :=
  match s.splitOn " " with
  | ["true", v] => (match readAnswer T s!"ok {v}" with | some (.ok x) => .ret true x | _ => .other)
  | ["false", v] => (match readAnswer T s!"ok {v}" with | some (.ok x) => .ret false x | _ => .other)
  | ["err", "overflow"] => .thrown true
  | ["err", "mismatched"] => .thrown false
  | _ => .other

def handle (toks : List String) (impl : Option String) : Option (String × String) :=
  match toks with
  | ["num.conv", s, t, v] => do
    let S ← parseTy s; let T ← parseTy t; let x ← parseVal S v
    -- two different C++ types with the same representation (char/i8, c32/u32, wc/i32 …) take the generic branch
    let r := modelConv s t S T x
    let vd := match impl with
      | some a => verdictStr (Oracle.judgeConv S T x (readAnswer T a))
      | none => "nospec"
    pure (showOutcome T r, vd)
  | ["num.try", s, t, v] => do
    let S ← parseTy s; let T ← parseTy t; let x ← parseVal S v
    let r := modelConv s t S T x
    let ans := match r with
      | .ok y => s!"ok {showVal T y}" | .err _ => "none" | .ub w => s!"crash:ubsan:{w}"
    let vd := match impl with
      | some a =>
        let ia : Option (Option Val) := if a == "none" then some none else
          match readAnswer T a with | some (.ok y) => some (some y) | _ => none
        verdictStr (Oracle.judgeTry S T x ia)
      | none => "nospec"
    pure (ans, vd)
  | ["num.parse", t, w, u] => do
    let T ← parseTy t; let wd ← parseWidth w; let s ← parseUnits u
    if !textParsable t || !unitsOk wd s then none
    let r := modelParse T wd s
    let vd := match impl with
      | some a => verdictStr (Oracle.judgeParse T s (readAnswer T a))
      | none => "nospec"
    pure (showOutcome T r, vd)
  | ["num.bool", w, u] => do
    let wd ← parseWidth w; let s ← parseUnits u
    if !unitsOk wd s then none
    let r := modelParse .bool wd s
    let vd := match impl with
      | some a => verdictStr (Oracle.judgeParse .bool s (readAnswer .bool a))
      | none => "nospec"
    pure (showOutcome .bool r, vd)
  | ["num.print", t, w, v] => do
    let T ← parseTy t; let wd ← parseWidth w; let x ← parseVal T v
    if !textParsable t then none
    let r := modelPrint T wd x
    let ans := match r with
      | .ok l => s!"ok {hexUnits wd l}" | .err e => showErr e | .ub wh => s!"crash:{wh}"
    let vd := match impl with
      | some a =>
        let txt : Option (List Nat) := match a.splitOn " " with
          | ["ok", l] => (parseUnits l).bind fun us => if unitsOk wd us then some us else none
          | _ => none
        verdictStr (Oracle.judgePrint T x txt)
      | none => "nospec"
    pure (ans, vd)
  | ["num.frt", t, w, v] => do
    let T ← parseTy t; let wd ← parseWidth w; let x ← parseVal T v
    match T, x with
    | .flt F, .flt b =>
      let ans := match Num.printFloat F wd b with
        | .ok txt => (match Num.parseFloat F wd txt with
          | .ok b' => s!"ok {hexUnit F.width b'} {hexUnits wd txt}"
          | .err e => showErr e
          | .ub wh => s!"crash:{wh}")
        | .err e => showErr e
        | .ub wh => s!"crash:{wh}"
      let vd := match impl with
        | some a =>
          (match a.splitOn " " with
           | ["ok", bs, l] =>
             (match parseHexNat bs, parseUnits l with
              | some b', some txt =>
                -- finite values must come back bit-identical; NaN must come back as a NaN; text judged as in num.print
                if isFinite F b ∨ decode F b ≠ .nan then
                  (if b' ≠ b then "bad:text_round_trip_is_not_bit-identical"
                   else verdictStr (Oracle.judgePrint T x (some txt)))
                else if isNaN F b' then "ok" else "bad:NaN_did_not_come_back_as_NaN"
              | _, _ => "bad:unreadable_answer")
           | _ => "bad:text_round_trip_failed")
        | none => "nospec"
      pure (ans, vd)
    | _, _ => none
  | ["num.frtsweep", t, w, lo, hi, stride] => do
    -- implementation-side sweep; by the libstdc++ round-trip assumption no bit pattern fails
    let T ← parseTy t; let _ ← parseWidth w; let _ ← parseVal T lo; let _ ← parseVal T hi; let _ ← stride.toNat?
    if !T.isFloat then none
    let vd := match impl with
      | some a => if a == "ok 0 -" then "ok" else "bad:float_text_round_trip_is_not_bit-identical_for_some_value_in_the_range"
      | none => "nospec"
    pure ("ok 0 -", vd)
  | ["num.policy", s, t, ovf, mis, v] => do
    let T ← parseTy t; let ovfP ← parsePol ovf; let misP ← parsePol mis
    let sent := sentinel T
    let fin (r : PolicyRes Val) (accept : ConvAnswer → Bool) : Option (String × String) :=
      let vd := match impl with
        | some a => verdictStr (Oracle.judgePolicy accept T sent (ovfP == .throwError) (misP == .throwError) (readPolicy T a))
        | none => "nospec"
      some (showPolicy T r, vd)
    if s == "null" then
      -- std::nullptr_t: not convertible; "a value of another kind"
      fin (convertByPolicy false (Outcome.err .invalidArgument : Outcome Val) misP ovfP)
          (fun a => a = .err .invalidArgument)
    else if s == "str8" || s == "str16" || s == "str32" then do
      let wd := if s == "str8" then 8 else if s == "str16" then 16 else 32
      let str ← parseUnits v
      if !textParsable t || !unitsOk wd str then none
      fin (convertByPolicy true (modelParse T wd str) misP ovfP) (fun a => Oracle.acceptParse T str a)
    else do
      let S ← parseTy s; let x ← parseVal S v
      let r := modelConv s t S T x
      let vd := match impl with
        | some a => verdictStr (Oracle.judgePolicyConv S T x sent (ovfP == .throwError) (misP == .throwError) (readPolicy T a))
        | none => "nospec"
      some (showPolicy T (convertByPolicy true r misP ovfP), vd)
  | _ => none

end BSVerif.Driver.Num
