/-
  Line-protocol handlers for the chrono ops (see harness/ops_chrono.cpp for the implementation side).
    iso.print_tp  <prec>:<rep> <count>            -> ok <text>
    iso.parse_tp  <prec>:<rep> <w> <hex units>    -> ok <count>
    iso.print_dur <prec>:<rep> <count>            -> ok <text>
    iso.parse_dur <prec>:<rep> <w> <hex units>    -> ok <count>
    iso.print_raw <time_t>                        -> ok <text>
    iso.parse_raw <w> <hex units>                 -> ok <time_t>
    iso.print_tm  <year> <mon> <mday> <hour> <min> <sec>  -> ok <text>
    iso.parse_tm  <w> <hex units>                 -> ok <year> <mon> <mday> <hour> <min> <sec>
    bin.ts / bin.dur       <prec>:<rep> <count>   -> ok <seconds> <nanoseconds>
    bin.ts_back / bin.dur_back <prec>:<rep> <seconds> <ns> -> ok <count>
  prec ∈ ns us ms s min h d; rep ∈ i64 i32 u64 i8; w ∈ 8 16 32
  errors: `err invalid_argument | out_of_range | runtime_error`; undefined behaviour: `crash:ubsan:<kind>`
-/
import BSVerif.Chrono.Oracle

namespace BSVerif.Driver.Chrono
open BSVerif BSVerif.Chrono

def parsePrec : String → Option Period
  | "ns" => some pNano | "us" => some pMicro | "ms" => some pMilli | "s" => some pSec
  | "min" => some pMin | "h" => some pHour | "d" => some pDay | _ => none

def parseRep : String → Option Rep
  | "i64" => some i64 | "i32" => some i32 | "u64" => some u64 | "i8" => some i8 | _ => none

def parseType (s : String) : Option (Rep × Period) :=
  match s.splitOn ":" with
  | [p, r] => do let p ← parsePrec p; let r ← parseRep r; pure (r, p)
  | _ => none

def parseCount (r : Rep) (s : String) : Option Int := do
  let v ← parseInt s
  if s == "-0" then none
  if r.fits v then pure v else none

def parseW : String → Option Nat
  | "8" => some 8 | "16" => some 16 | "32" => some 32 | _ => none

def unitsOk (w : Nat) (l : List Nat) : Bool := l.all (· < 2 ^ w)

def errStr : Err → String
  | .invalidArgument => "err invalid_argument"
  | .outOfRange => "err out_of_range"
  | .runtimeError => "err runtime_error"

def showText (t : List Nat) : String :=
  if !t.isEmpty && t.all (fun c => 0x20 < c && c < 0x7F) then "ok " ++ String.ofList (t.map Char.ofNat)
  else "ok hex:" ++ hexBytes t

def renderOut {α : Type} (f : α → String) : Out α → String
  | .ok v => f v
  | .err e => errStr e
  | .ub k => "crash:ubsan:" ++ k

def showInt (v : Int) : String := "ok " ++ toString v
def showPair (v : Int × Int) : String := s!"ok {v.1} {v.2}"
def showParts (u : Parts) : String := s!"ok {u.year} {u.mon} {u.day} {u.hour} {u.min} {u.sec}"

/-- implementation answer → structured form for the oracle -/
def parseImplText (s : String) : Oracle.Impl (List Nat) :=
  if s.startsWith "ok hex:" then
    match parseBytes (s.drop 7).toString with
    | some b => .ok b
    | none => .other
  else if s.startsWith "ok " then .ok ((s.drop 3).toString.toList.map Char.toNat)
  else if s == "err invalid_argument" then .err .invalidArgument
  else if s == "err out_of_range" then .err .outOfRange
  else if s == "err runtime_error" then .err .runtimeError
  else if s.startsWith "crash:" || s == "terminate" || s == "timeout" then .crash
  else .other

def parseImplInts (n : Nat) (s : String) : Oracle.Impl (List Int) :=
  if s.startsWith "ok " then
    match ((s.drop 3).toString.splitOn " ").mapM parseInt with
    | some l => if l.length = n then .ok l else .other
    | none => .other
  else if s == "err invalid_argument" then .err .invalidArgument
  else if s == "err out_of_range" then .err .outOfRange
  else if s == "err runtime_error" then .err .runtimeError
  else if s.startsWith "crash:" || s == "terminate" || s == "timeout" then .crash
  else .other

def verdictStr : Oracle.Verdict → String
  | .ok => "ok" | .known c => s!"known:{c}" | .bad w => s!"bad:{w.replace " " "_"}"

def judged {α : Type} (impl : Option String) (p : String → Oracle.Impl α) (j : Oracle.Impl α → Oracle.Verdict) : String :=
  match impl with
  | some s => verdictStr (j (p s))
  | none => "nospec"

/-- answer of a two-step op: `<first> <second>`; undefined behaviour in either step is the whole answer -/
def renderTwo {α β : Type} (f : α → String) (g : β → String) (a : Out α) (k : α → Out β) : String :=
  match a with
  | .ok v =>
    (match k v with
     | .ub u => "crash:ubsan:" ++ u
     | b => f v ++ " " ++ renderOut g b)
  | .err e => errStr e
  | .ub u => "crash:ubsan:" ++ u

/-- split `ok <a…> ok|err <b…>` into the two halves -/
def splitTwo (n : Nat) (s : String) : Option (String × String) :=
  let t := s.splitOn " "
  if t.length > n ∧ t.head? = some "ok" then
    some (" ".intercalate (t.take (n + 1)), " ".intercalate (t.drop (n + 1)))
  else none

def judgedTwo {α : Type} (impl : Option String) (n : Nat) (c : Int) (p1 : String → Oracle.Impl α) (j1 : Oracle.Impl α → Oracle.Verdict)
    (j2 : String → Oracle.Impl (List Int) → Oracle.Verdict) : String :=
  match impl with
  | none => "nospec"
  | some s =>
    match splitTwo n s with
    | some (a, b) => verdictStr (Oracle.judgeRt c (j1 (p1 a)) (j2 a) (parseImplInts 1 b))
    | none => verdictStr (j1 (p1 s))

def textOf (a : String) : List Nat :=
  match parseImplText a with
  | .ok t => t
  | _ => []

def intsOf (a : String) : List Int :=
  match parseImplInts 2 a with
  | .ok l => l
  | _ => []

def printDays (r : Rep) (p : Period) (first : Int) : Nat → Nat → List (List Nat) → Out (List Nat)
  | 0, _, acc => .ok ((acc.reverse.intersperse [44]).flatten)
  | k + 1, i, acc =>
    match printTp r p ((first + (i : Int)) * Oracle.unitsPerDay p) with
    | .ok t => printDays r p first k (i + 1) (t :: acc)
    | e => e

def handle (toks : List String) (impl : Option String) : Option (String × String) :=
  match toks with
  | ["iso.print_tp", ty, c] => do
    let (r, p) ← parseType ty; let c ← parseCount r c
    if !r.signed then none
    pure (renderOut showText (printTp r p c), judged impl parseImplText (Oracle.judgePrintTp r p c))
  | ["iso.parse_tp", ty, w, u] => do
    let (r, p) ← parseType ty; let w ← parseW w; let u ← parseUnits u
    if !unitsOk w u then none
    pure (renderOut showInt (parseTp r p w u), judged impl (parseImplInts 1) (Oracle.judgeParseTp r p w u))
  | ["iso.print_dur", ty, c] => do
    let (r, p) ← parseType ty; let c ← parseCount r c
    if !r.signed && p.den > 1 then none
    pure (renderOut showText (printDur r p c), judged impl parseImplText (Oracle.judgePrintDur r p c))
  | ["iso.parse_dur", ty, w, u] => do
    let (r, p) ← parseType ty; let w ← parseW w; let u ← parseUnits u
    if !unitsOk w u then none
    pure (renderOut showInt (parseDur r p w u), judged impl (parseImplInts 1) (Oracle.judgeParseDur r p w u))
  | ["iso.print_raw", c] => do
    let c ← parseCount i64 c
    pure (renderOut showText (printTp i64 pSec c), judged impl parseImplText (Oracle.judgePrintTp i64 pSec c))
  | ["iso.parse_raw", w, u] => do
    let w ← parseW w; let u ← parseUnits u
    if !unitsOk w u then none
    pure (renderOut showInt (parseTp i64 pSec w u), judged impl (parseImplInts 1) (Oracle.judgeParseTp i64 pSec w u))
  | ["iso.print_tm", y, mo, d, h, mi, s] => do
    let y ← parseCount i32 y; let mo ← parseCount i32 mo; let d ← parseCount i32 d
    let h ← parseCount i32 h; let mi ← parseCount i32 mi; let s ← parseCount i32 s
    pure (renderOut showText (printTm y mo d h mi s), judged impl parseImplText (Oracle.judgePrintTm y mo d h mi s))
  | ["iso.parse_tm", w, u] => do
    let w ← parseW w; let u ← parseUnits u
    if !unitsOk w u then none
    pure (renderOut showParts (parseTm w u), judged impl (parseImplInts 6) (Oracle.judgeParseTm w u))
  | ["bin.ts", ty, c] => do
    let (r, p) ← parseType ty; let c ← parseCount r c
    pure (renderOut showPair (toBinTimestamp r p c), judged impl (parseImplInts 2) (Oracle.judgeToBin r p c))
  | ["bin.dur", ty, c] => do
    let (r, p) ← parseType ty; let c ← parseCount r c
    pure (renderOut showPair (toBinTimestamp r p c), judged impl (parseImplInts 2) (Oracle.judgeToBin r p c))
  | ["bin.ts_back", ty, sec, ns] => do
    let (r, p) ← parseType ty; let sec ← parseCount i64 sec; let ns ← parseCount i32 ns
    pure (renderOut showInt (tpFromBinTimestamp r p sec ns), judged impl (parseImplInts 1) (Oracle.judgeFromBin r p sec ns))
  | ["bin.dur_back", ty, sec, ns] => do
    let (r, p) ← parseType ty; let sec ← parseCount i64 sec; let ns ← parseCount i32 ns
    pure (renderOut showInt (durFromBinTimestamp r p sec ns), judged impl (parseImplInts 1) (Oracle.judgeFromBin r p sec ns))
  | ["iso.rt_tp", ty, c] => do
    let (r, p) ← parseType ty; let c ← parseCount r c
    if !r.signed then none
    pure (renderTwo showText showInt (printTp r p c) (fun t => parseTp r p 8 t),
          judgedTwo impl 1 c parseImplText (Oracle.judgePrintTp r p c) (fun a => Oracle.judgeParseTp r p 8 (textOf a)))
  | ["iso.rt_dur", ty, c] => do
    let (r, p) ← parseType ty; let c ← parseCount r c
    if !r.signed && p.den > 1 then none
    pure (renderTwo showText showInt (printDur r p c) (fun t => parseDur r p 8 t),
          judgedTwo impl 1 c parseImplText (Oracle.judgePrintDur r p c) (fun a => Oracle.judgeParseDur r p 8 (textOf a)))
  | ["bin.rt_ts", ty, c] => do
    let (r, p) ← parseType ty; let c ← parseCount r c
    pure (renderTwo showPair showInt (toBinTimestamp r p c) (fun t => tpFromBinTimestamp r p t.1 t.2),
          judgedTwo impl 2 c (parseImplInts 2) (Oracle.judgeToBin r p c)
            (fun a => match intsOf a with | [s, n] => Oracle.judgeFromBin r p s n | _ => fun _ => .bad "unparsable answer"))
  | ["bin.rt_dur", ty, c] => do
    let (r, p) ← parseType ty; let c ← parseCount r c
    pure (renderTwo showPair showInt (toBinTimestamp r p c) (fun t => durFromBinTimestamp r p t.1 t.2),
          judgedTwo impl 2 c (parseImplInts 2) (Oracle.judgeToBin r p c)
            (fun a => match intsOf a with | [s, n] => Oracle.judgeFromBin r p s n | _ => fun _ => .bad "unparsable answer"))
  | ["iso.print_days", ty, first, n] => do
    let (r, p) ← parseType ty; let first ← parseCount i64 first; let n ← n.toNat?
    if !r.signed || n = 0 || n > 100000 then none
    if !(r.fits (first * Oracle.unitsPerDay p) && r.fits ((first + n - 1) * Oracle.unitsPerDay p)) then none
    pure (renderOut showText (printDays r p first n 0 []), judged impl parseImplText (Oracle.judgePrintDays r p first n))
  | _ => none

end BSVerif.Driver.Chrono
