/-
  Line-protocol handlers for the encoded-stream ops (harness/ops_utfstream.cpp):
    utf.detect <hex bytes>                                   -> <type> <offset>
    utf.detects <pre> <skipBom> <hex bytes>                  -> <type> <stream position relative to the document start>
    utf.read <N> <wo> <pol> <mark> <enc> <hex bytes>          -> <type> <results S/D/E/H…> <units>
    utf.write <type> <bom:0|1> <pol> <wi> <units;units;…>     -> <codes s/i/e…> <hex bytes>
-/
import BSVerif.Utf.StreamOracle
import BSVerif.Driver.Utf

namespace BSVerif.Driver.UtfStream
open BSVerif BSVerif.Utf BSVerif.Utf.StreamOracle BSVerif.Driver.Utf

def resChar : ReadResult → Char
  | .success => 'S' | .decodeError => 'D' | .endFile => 'E'

def handle (toks : List String) (impl : Option String) : Option (String × String) :=
  match toks with
  | ["utf.detect", hex] => do
    let bs ← parseBytes hex
    let (t, off) := detect bs
    pure (s!"{typeName t} {off}", "nospec")
  -- the istream overload: looks at the first 128 bytes from the CURRENT position, leaves the stream behind the BOM (skip) or where it was
  | ["utf.detects", _pre, skip, hex] => do
    let bs ← parseBytes hex
    let (t, off) := detect (bs.take 128)
    let ans := s!"{typeName t} {if skip == "1" then off else 0}"
    -- Spec side: the byte order mark the document starts with (the longest one of the standard table), if any
    let bom : Option UtfType := [UtfType.utf32le, .utf32be, .utf8, .utf16le, .utf16be].find? (fun e => (specBom e).isPrefixOf bs)
    let wantPos := if skip == "1" then (match bom with | some e => (specBom e).length | none => 0) else 0
    let v := match impl.map (·.splitOn " ") with
      | some [ty, pos] =>
        if pos != toString wantPos then s!"bad:stream_left_at_{pos}_instead_of_{wantPos}_relative_to_where_detection_started"
        else match bom with
          | some e => if ty == typeName e then "ok" else s!"bad:BOM_of_{typeName e}_detected_as_{ty}"
          | none => "nospec"
      | _ => "nospec"
    pure (ans, v)
  | ["utf.read", n, wo, pol, mark, enc, hex] => do
    let n ← n.toNat?; let wo ← wo.toNat?; let pol ← parsePol pol; let mark ← parseMark mark
    let enc ← parseType enc; let bs ← parseBytes hex
    let r := Reader.mk' n wo pol mark bs
    let (results, text, hang) := Reader.readAll (4 * bs.length + 8) r [] []
    let rs := String.ofList (results.map resChar) ++ (if hang then "H" else "")
    let ans := s!"{typeName r.utf} {rs} {hexUnits wo text}"
    let v := match impl.map (·.splitOn " ") with
      | some [d, rs', txt] =>
        match parseUnits txt with
        | some t => verdictStr (judgeRead wo pol mark enc bs d rs' t)
        | none => "bad:unparsable_answer"
      | some _ => "bad:unparsable_answer"
      | none => "nospec"
    pure (ans, v)
  | ["utf.write", ty, bom, pol, wi, strs] => do
    let t ← parseType ty; let pol ← parsePol pol; let wi ← wi.toNat?
    let addBom := bom == "1"
    let ss ← (strs.splitOn ";").mapM parseUnits
    let init := writerOpen t addBom
    let (codes, bytes) := ss.foldl (fun (acc : List Char × List Nat) s =>
      let (c, b) := writerWrite t pol wi s
      (acc.1 ++ [match c with | .success => 's' | .invalidSequence => 'i' | .unexpectedEnd => 'e'], acc.2 ++ b)) ([], init)
    let ans := s!"{String.ofList codes} {hexBytes bytes}"
    let v := match impl.map (·.splitOn " ") with
      | some [cs, hb] =>
        match parseBytes hb with
        | some b => verdictStr (judgeWrite t addBom wi ss cs.toList b)
        | none => "bad:unparsable_answer"
      | some _ => "bad:unparsable_answer"
      | none => "nospec"
    pure (ans, v)
  | _ => none

end BSVerif.Driver.UtfStream
