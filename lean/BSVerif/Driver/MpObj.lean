/-
  mp.obj <mem|stream> <mask;mask;…>   (harness/ops_mpobj.cpp)
  Classes with value-dependent (conditional) fields, one of them contributed by a base class, saved as MsgPack maps.
  MODEL: `beginMap (number of fields present)` followed by key/value pairs in declaration order, written with the writer model.
  ORACLE: every document is exactly ONE well-formed MessagePack object (Spec.objects) — i.e. the map header equals the
  number of entries actually written — and equals the expected bytes.
-/
import BSVerif.MsgPack.Writer
import BSVerif.MsgPack.Spec

namespace BSVerif.Driver.MpObj
open BSVerif BSVerif.MsgPack

def ascii (s : String) : List Nat := s.toList.map Char.toNat

/-- (bit, key, value bytes) in declaration order: the base class first -/
def fields : List (Nat × String × List Nat) :=
  [ (1, "b0", Model.writeI32 10),
    (2, "f1", Model.writeI32 1),
    (4, "f2", match Model.writeStr (ascii "two") with | .ok b => b | .error _ => []),
    (8, "f3", Model.writeBool true),
    (16, "f4", (match Model.beginArray 2 with | .ok b => b | .error _ => []) ++ Model.writeI32 1 ++ Model.writeI32 2),
    (32, "f5", Model.writeI32 (-200)) ]

def docOf (mask : Nat) : List Nat :=
  let present := fields.filter fun (bit, _, _) => mask / bit % 2 == 1
  (match Model.beginMap present.length with | .ok b => b | .error _ => []) ++
    present.flatMap fun (_, k, v) => (match Model.writeStr (ascii k) with | .ok b => b | .error _ => []) ++ v

/-- `mp.obj2`: field before the first base, two base classes, fields between and after (declaration order) -/
def fields2 : List (Nat × String × List Nat) :=
  [ (1, "pre", Model.writeI32 5),
    (2, "b0", Model.writeI32 10),
    (8, "mid", match Model.writeStr (ascii "m") with | .ok b => b | .error _ => []),
    (4, "c0", Model.writeI32 30),
    (0, "c1", Model.writeI32 31),
    (16, "post", Model.writeBool false) ]

def docOf2 (mask : Nat) : List Nat :=
  let present := fields2.filter fun (bit, _, _) => bit == 0 || mask / bit % 2 == 1
  (match Model.beginMap present.length with | .ok b => b | .error _ => []) ++
    present.flatMap fun (_, k, v) => (match Model.writeStr (ascii k) with | .ok b => b | .error _ => []) ++ v

def judge (docs : List (List Nat)) (impl : Option String) : String :=
  match impl with
  | some i =>
    match (i.splitOn ";").mapM parseBytes with
    | some ds =>
      if ds.length ≠ docs.length then "bad:one_document_per_object_expected"
      else if ds.any (fun d => Spec.objects 1 d != some []) then "bad:document_is_not_exactly_one_wellformed_object"
      else if ds == docs then "ok" else "bad:document_differs_from_the_fields_written"
    | none => "bad:save_failed_or_unparsable_answer"
  | none => "nospec"

def handle (toks : List String) (impl : Option String) : Option (String × String) :=
  match toks with
  | ["mp.obj2", _src, masks] => do
    let ms ← (masks.splitOn ";").mapM (·.toNat?)
    let docs := ms.map docOf2
    pure (String.intercalate ";" (docs.map hexBytes), judge docs impl)
  | ["mp.obj", _src, masks] => do
    let ms ← (masks.splitOn ";").mapM (·.toNat?)
    let docs := ms.map docOf
    let ans := String.intercalate ";" (docs.map hexBytes)
    let verdict := match impl with
      | some i =>
        match (i.splitOn ";").mapM parseBytes with
        | some ds =>
          if ds.length ≠ docs.length then "bad:one_document_per_object_expected"
          else if ds.any (fun d => Spec.objects 1 d != some []) then "bad:document_is_not_exactly_one_wellformed_object"
          else if ds == docs then "ok" else "bad:document_differs_from_the_fields_written"
        | none => "bad:save_failed_or_unparsable_answer"
      | none => "nospec"
    pure (ans, verdict)
  | _ => none

end BSVerif.Driver.MpObj
