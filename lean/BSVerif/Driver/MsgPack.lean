/-
  Line-protocol handlers for the MsgPack token-level ops (implementation side: harness/ops_msgpack.cpp).
    mp.write <entry> <args>             entry: nil | bool b | u8 u16 u32 u64 i8 i16 i32 i64 <dec> | f32 <hex8> | f64 <hex16>
                                               | str <hex> | ts <sec> <ns> | arr <n> | map <n> | bin <n>
        answer: `<hex> same` | `<hex> diff <hex>` | `err <class>`
    mp.read <mem|stream> <ovf> <mis> <T> <pre> <hex>     ovf, mis ∈ throw|skip
        T ∈ nil bool u8 u16 u32 u64 char i8 i16 i32 i64 f32 f64 str ts arr map bin
        answer: `ok <value> <pos>` | `no <pos>` | `err <class>`
    mp.skip <mem|stream> <pre> <hex>    answer: `ok <pos>` | `err <class>`
    mp.type <mem|stream> <pre> <hex>    answer: `ok <ValueType number> <pos>` | `err <class>`
    mp.seq <mem|stream> <ovf> <mis> <hex> <call;call;…>   a HISTORY of calls on one reader object (harness/ops_mpstream.cpp)
        call: type skip nil bool u8…i64 f32 f64 str ts arr map bin rb pos set:<q> end
        answer: `<value>@<pos>` | `no@<pos>` per call joined by `;`, the first exception ends it with `err:<class>`
    mp.wseq <call,call,…>   a SESSION of writer calls on one string writer and one stream writer (harness/ops_mpstream.cpp)
        call: nil bool:<0|1> u8…i64:<dec> f32:<hex8> f64:<hex16> str:<hex> ts:<sec>:<ns> arr:<n> map:<n> bin:<n> bb:<byte>
        answer as for mp.write
  `mp.write`/`mp.wseq` are answered by BOTH writer models (string writer, stream writer on an empty stream).
  `mem` ops are answered by the string-reader model (MsgPack/Reader.lean); `stream` ops by the STREAM-reader model
  (MsgPack/StreamReader.lean) run over the model of CBinaryStreamReader with the chunk size of the code (generated
  constant) and driven exactly as the harness drives the real reader (`pre` SkipValue calls, then the call).
  The verdict (Oracle) judges the implementation answer against the Spec and is the same for both sources; for
  `mp.seq stream` the verdict compares the stream answer with the string-reader model (the C10 property itself).
-/
import BSVerif.MsgPack.Oracle
import BSVerif.MsgPack.Reader
import BSVerif.MsgPack.StreamReader
import BSVerif.MsgPack.StreamWriter

namespace BSVerif.Driver.MsgPack
open BSVerif BSVerif.MsgPack BSVerif.MsgPack.Model

def verdictStr : Oracle.Verdict → String
  | .ok => "ok" | .known c => s!"known:{c}" | .bad w => s!"bad:{w.replace " " "_"}" | .nospec => "nospec"

def errStr : Err → String
  | .parsing => "parsing" | .mismatched => "mismatched" | .overflow => "overflow"
  | .internal => "internal" | .depth => "depth"

def parsePolicy : String → Option Bool
  | "throw" => some true | "skip" => some false | _ => none

def hexFixed (digits : Nat) (n : Nat) : String :=
  String.ofList ((List.range digits).reverse.map fun i => hexDigit (n / 16 ^ i % 16))

def bytesOk (l : List Nat) : Bool := l.all (· < 256)

/-! #### mp.write -/

def intRange (s : String) : Option (Int × Int) :=
  match s with
  | "u8" => some (0, 255) | "u16" => some (0, 65535) | "u32" => some (0, 4294967295) | "u64" => some (0, 18446744073709551615)
  | "i8" => some (-128, 127) | "i16" => some (-32768, 32767) | "i32" => some (-2147483648, 2147483647)
  | "i64" => some (-9223372036854775808, 9223372036854775807)
  | _ => none

def modelWriteInt (ty : String) (v : Int) : Bytes :=
  match ty with
  | "u8" => writeU8 v.toNat | "u16" => writeU16 v.toNat | "u32" => writeU32 v.toNat | "u64" => writeU64 v.toNat
  | "i8" => writeI8 v | "i16" => writeI16 v | "i32" => writeI32 v | _ => writeI64 v

/-- answer in the harness format from the two models: `a` = string writer (MsgPack/Writer.lean), `b` = stream writer
    (MsgPack/StreamWriter.lean run on an empty stream) — they agree by `C10mp.stream_writer_equals_string_writer` -/
def renderW2 (a : Except WErr Bytes) (b : Except WErr Bytes) : String :=
  match a, b with
  | .ok x, .ok y => if x = y then s!"{hexBytes x} same" else s!"{hexBytes x} diff {hexBytes y}"
  | .error .outOfRange, .error .outOfRange => "err ser_out_of_range"
  | .ok x, .error .outOfRange => s!"mixed {hexBytes x} err:ser_out_of_range"
  | .error .outOfRange, .ok y => s!"mixed err:ser_out_of_range {hexBytes y}"

open BSVerif.MsgPack.StreamWriterModel (WCall) in
def modelWCallInt (ty : String) (v : Int) : WCall :=
  match ty with
  | "u8" => .u8 v.toNat | "u16" => .u16 v.toNat | "u32" => .u32 v.toNat | "u64" => .u64 v.toNat
  | "i8" => .i8 v | "i16" => .i16 v | "i32" => .i32 v | _ => .i64 v

def parseWAns (s : String) : Oracle.WAns :=
  match s.splitOn " " with
  | [h, "same"] => match parseBytes h with | some b => .bytes b true | none => .other
  | [h, "diff", _] => match parseBytes h with | some b => .bytes b false | none => .other
  | ["err", c] => .err c
  | "mixed" :: _ => .bytes [] false
  | _ => .other

open BSVerif.MsgPack.StreamWriterModel (WCall) in
def handleWrite (args : List String) (impl : Option String) : Option (String × String) := do
  let (call, req) : WCall × Oracle.WReq ← (match args with
    | ["nil"] => some (.nil, .tok .nil)
    | ["bool", b] => if b = "1" then some (.bool true, .tok (.bool true))
                     else if b = "0" then some (.bool false, .tok (.bool false)) else none
    | ["f32", h] => do
      let b ← parseHexNat h
      if h.length ≠ 8 then none else some (.f32 b, .tok (.f32 b))
    | ["f64", h] => do
      let b ← parseHexNat h
      if h.length ≠ 16 then none else some (.f64 b, .tok (.f64 b))
    | ["str", h] => do
      let d ← parseBytes h
      some (.str d, .tok (.str d))
    | ["ts", s, n] => do
      let s ← parseInt s; let n ← parseInt n
      if s < -9223372036854775808 ∨ s > 9223372036854775807 ∨ n < -2147483648 ∨ n > 2147483647 then none
      else some (.ts s n, .ts s n)
    | ["arr", n] => do
      let n ← n.toNat?
      if n ≥ 2 ^ 64 then none else some (.arr n, if n < 2 ^ 32 then .tok (.array n) else .tooLarge)
    | ["map", n] => do
      let n ← n.toNat?
      if n ≥ 2 ^ 64 then none else some (.map n, if n < 2 ^ 32 then .tok (.map n) else .tooLarge)
    | ["bin", n] => do
      let n ← n.toNat?
      if n ≥ 2 ^ 64 then none else some (.bin n, if n < 2 ^ 32 then .binHeader n else .tooLarge)
    | [ty, v] => do
      let (lo, hi) ← intRange ty
      let v ← parseInt v
      if v < lo ∨ v > hi then none else some (modelWCallInt ty v, .tok (.int v))
    | _ => none)
  -- string writer model, and stream writer model on a fresh (empty) stream as the harness does
  let a := StreamWriterModel.stringCall call
  let b := (StreamWriterModel.streamCall call ⟨[]⟩).map (·.out)
  let v := match impl with
    | some i => verdictStr (Oracle.judgeWrite req (parseWAns i))
    | none => "nospec"
  pure (renderW2 a b, v)

open BSVerif.MsgPack.StreamWriterModel (WCall) in
def parseWCall (s : String) : Option WCall :=
  match s.splitOn ":" with
  | ["nil"] => some .nil
  | ["bool", "0"] => some (.bool false) | ["bool", "1"] => some (.bool true)
  | ["f32", h] => if h.length = 8 then (parseHexNat h).map .f32 else none
  | ["f64", h] => if h.length = 16 then (parseHexNat h).map .f64 else none
  | ["str", h] => (parseBytes h).map .str
  | ["ts", a, b] => do
    let a ← parseInt a; let b ← parseInt b
    if a < -9223372036854775808 ∨ a > 9223372036854775807 ∨ b < -2147483648 ∨ b > 2147483647 then none else some (.ts a b)
  | ["arr", n] => do let n ← n.toNat?; if n ≥ 2 ^ 64 then none else some (.arr n)
  | ["map", n] => do let n ← n.toNat?; if n ≥ 2 ^ 64 then none else some (.map n)
  | ["bin", n] => do let n ← n.toNat?; if n ≥ 2 ^ 64 then none else some (.bin n)
  | ["bb", n] => do let n ← n.toNat?; if n ≥ 256 then none else some (.binByte n)
  | [ty, v] => do
    let (lo, hi) ← intRange ty
    let v ← parseInt v
    if v < lo ∨ v > hi then none else some (modelWCallInt ty v)
  | _ => none

/-- `mp.wseq`: both writer models over the whole session; verdict: the two implementation outputs must be identical -/
def handleWSeq (calls : String) (impl : Option String) : Option (String × String) := do
  let cs ← (calls.splitOn ",").mapM parseWCall
  let a := StreamWriterModel.stringSession cs []
  let b := (StreamWriterModel.streamSession cs ⟨[]⟩).map (·.out)
  let v := match impl with
    | some i => if i.endsWith " same" ∨ i.startsWith "err " then "ok" else "bad:stream_writer_bytes_differ_from_memory_writer"
    | none => "nospec"
  pure (renderW2 a b, v)

/-! #### mp.read -/

def intTy : String → Option IntTy
  | "bool" => some tyBool | "u8" => some tyU8 | "u16" => some tyU16 | "u32" => some tyU32 | "u64" => some tyU64
  | "char" => some tyChar | "i8" => some tyI8 | "i16" => some tyI16 | "i32" => some tyI32 | "i64" => some tyI64
  | _ => none

def tgtOf : String → Option Oracle.Tgt
  | "nil" => some .nil | "bool" => some (.int 0 1) | "char" => some (.int (-128) 127)
  | "f32" => some .f32 | "f64" => some .f64 | "str" => some .str | "ts" => some .ts
  | "arr" => some .arr | "map" => some .map | "bin" => some .bin
  | s => (intRange s).map fun (lo, hi) => .int lo hi

def renderRR (f : α → String) : RR α → String
  | .ok (some v, p) => s!"ok {f v} {p}"
  | .ok (none, p) => s!"no {p}"
  | .error e => s!"err {errStr e}"

def modelRead (T : String) (o : Opts) (bs : Bytes) (pos : Nat) : Option String :=
  match T with
  | "nil" => some (renderRR (fun _ => "-") (readNil o bs pos))
  | "f32" => some (renderRR (hexFixed 8) (readF32 o bs pos))
  | "f64" => some (renderRR (hexFixed 16) (readF64 o bs pos))
  | "str" => some (renderRR hexBytes (readStr o bs pos))
  | "ts" => some (renderRR (fun (s, n) => s!"{s}:{n}") (readTs o bs pos))
  | "arr" => some (renderRR toString (readArraySize o bs pos))
  | "map" => some (renderRR toString (readMapSize o bs pos))
  | "bin" => some (renderRR toString (readBinarySize o bs pos))
  | _ => (intTy T).map fun ty => renderRR toString (readInteger ty o bs pos)

/-! #### the stream reader: CMsgPackStreamReader model over the CBinaryStreamReader model -/

section stream
open BSVerif.MsgPack.StreamModel (Call Ans Prog callProg readerSrc)

/-- the reader object the harness builds: constructor, then `pre` SkipValue calls over the nil padding;
    `none` = the padding could not be consumed (the harness reports a logic error) -/
def openStream (fuel : Nat) (bs : Bytes) : Nat → Option BinStream.Reader
  | 0 => some (BinStream.Reader.mk' Generated.Msgpack.binaryStreamChunkSize bs)
  | pre + 1 =>
    match openStream fuel bs pre with
    | none => none
    | some r =>
      match StreamModel.run readerSrc (StreamModel.skip fuel) r with
      | .ok (_, r') => some r'
      | .error _ => none

def callOfT (T : String) : Option Call :=
  match T with
  | "nil" => some .nil | "f32" => some .f32 | "f64" => some .f64 | "str" => some .str | "ts" => some .ts
  | "arr" => some .arraySize | "map" => some .mapSize | "bin" => some .binarySize
  | _ => (intTy T).map .int

/-- value as the harness prints it -/
def renderAns (c : Call) : Ans → String
  | .unit => "-" | .no => "no"
  | .nat n => (match c with | .f32 => hexFixed 8 n | .f64 => hexFixed 16 n | _ => toString n)
  | .int i => toString i | .bytes b => hexBytes b | .ts s n => s!"{s}:{n}"
  | .bool b => if b then "1" else "0"

/-- one `mp.read stream` / `mp.skip stream` / `mp.type stream` op -/
def modelStreamCall (o : Opts) (bs : Bytes) (pre : Nat) (c : Call) : String :=
  let fuel := bs.length + 1
  match openStream fuel bs pre with
  | none => "err logic_error"
  | some r =>
    if r.getPosition ≠ pre then "err logic_error"
    else
      match StreamModel.run readerSrc (callProg fuel o c) r with
      | .error e => s!"err {errStr e}"
      | .ok (a, r') =>
        match c, a with
        | .skip, _ => s!"ok {r'.getPosition}"
        | _, .no => s!"no {r'.getPosition}"
        | _, a => s!"ok {renderAns c a} {r'.getPosition}"

def parseCall (s : String) : Option Call :=
  match s with
  | "type" => some .valueType | "skip" => some .skip | "rb" => some .binary | "pos" => some .getPos | "end" => some .isEnd
  | _ =>
    match s.splitOn ":" with
    | ["set", q] => q.toNat?.map .setPos
    | [T] => callOfT T
    | _ => none

/-- error classes as `describeException` names them in a history: the only reachable "internal" error is the
    std::invalid_argument of SetPosition / ReadExtSize -/
def errStrSeq : Err → String
  | .internal => "invalid_argument"
  | e => errStr e

/-- answers of a history as the harness prints them: position after every call -/
def renderHistMem (o : Opts) (bs : Bytes) : Nat → List Call → List String
  | _, [] => []
  | pos, c :: cs =>
    match StreamModel.callString o bs pos c with
    | .ok (a, p) => s!"{renderAns c a}@{p}" :: renderHistMem o bs p cs
    | .error e => [s!"err:{errStrSeq e}"]

def renderHistStream (fuel : Nat) (o : Opts) : BinStream.Reader → List Call → List String
  | _, [] => []
  | r, c :: cs =>
    match StreamModel.run readerSrc (callProg fuel o c) r with
    | .ok (a, r') => s!"{renderAns c a}@{r'.getPosition}" :: renderHistStream fuel o r' cs
    | .error e => [s!"err:{errStrSeq e}"]

end stream

def parseVal (T : String) (s : String) : Option Oracle.Val :=
  match T with
  | "nil" => if s = "-" then some .unit else none
  | "f32" => if s.length = 8 then (parseHexNat s).map .bits else none
  | "f64" => if s.length = 16 then (parseHexNat s).map .bits else none
  | "str" => (parseBytes s).map .bytes
  | "ts" => match s.splitOn ":" with
    | [a, b] => do let a ← parseInt a; let b ← parseInt b; pure (.ts a b)
    | _ => none
  | _ => (parseInt s).map .int

def parseAns (T : String) (s : String) : Oracle.Ans :=
  match s.splitOn " " with
  | ["ok", v, p] => match parseVal T v, p.toNat? with | some v, some p => .ok v p | _, _ => .other
  | ["no", p] => match p.toNat? with | some p => .no p | none => .other
  | ["err", c] => .err c
  | _ => .other

def parsePosAns (s : String) : Oracle.Ans :=
  match s.splitOn " " with
  | ["ok", p] => match p.toNat? with | some p => .ok .unit p | none => .other
  | ["err", c] => .err c
  | _ => .other

def parseTypeAns (s : String) : Oracle.Ans :=
  match s.splitOn " " with
  | ["ok", t, p] => match t.toNat?, p.toNat? with | some t, some p => .ok (.int (Int.ofNat t)) p | _, _ => .other
  | ["err", c] => .err c
  | _ => .other

def padded (pre : Nat) (b : Bytes) : Bytes := List.replicate pre 0xC0 ++ b

def handle (toks : List String) (impl : Option String) : Option (String × String) :=
  match toks with
  | "mp.write" :: args => handleWrite args impl
  | ["mp.wseq", calls] => handleWSeq calls impl
  | ["mp.read", src, ovf, mis, T, pre, hex] => do
    if src ≠ "mem" ∧ src ≠ "stream" then none
    let ovf ← parsePolicy ovf; let mis ← parsePolicy mis
    let pre ← pre.toNat?; let b ← parseBytes hex
    if !bytesOk b then none
    let tgt ← tgtOf T
    let bs := padded pre b
    let m ← (if src == "stream" then (callOfT T).map (modelStreamCall ⟨ovf, mis⟩ bs pre) else modelRead T ⟨ovf, mis⟩ bs pre)
    let v := match impl with
      | some i => verdictStr (Oracle.judgeRead tgt ovf mis bs pre (parseAns T i))
      | none => "nospec"
    pure (m, v)
  | ["mp.skip", src, pre, hex] => do
    if src ≠ "mem" ∧ src ≠ "stream" then none
    let pre ← pre.toNat?; let b ← parseBytes hex
    if !bytesOk b then none
    let bs := padded pre b
    let m := if src == "stream" then modelStreamCall ⟨true, true⟩ bs pre .skip
      else match skip bs pre with | .ok p => s!"ok {p}" | .error e => s!"err {errStr e}"
    let v := match impl with
      | some i => verdictStr (Oracle.judgeSkip bs pre (parsePosAns i))
      | none => "nospec"
    pure (m, v)
  | ["mp.type", src, pre, hex] => do
    if src ≠ "mem" ∧ src ≠ "stream" then none
    let pre ← pre.toNat?; let b ← parseBytes hex
    if !bytesOk b then none
    let bs := padded pre b
    let m := if src == "stream" then modelStreamCall ⟨true, true⟩ bs pre .valueType
      else match readValueType bs pre with | .ok t => s!"ok {t} {pre}" | .error e => s!"err {errStr e}"
    let v := match impl with
      | some i => verdictStr (Oracle.judgeType bs pre (parseTypeAns i))
      | none => "nospec"
    pure (m, v)
  | ["mp.seq", src, ovf, mis, hex, calls] => do
    if src ≠ "mem" ∧ src ≠ "stream" then none
    let ovf ← parsePolicy ovf; let mis ← parsePolicy mis
    let bs ← parseBytes hex
    if !bytesOk bs then none
    let cs ← (calls.splitOn ";").mapM parseCall
    let mem := ";".intercalate (renderHistMem ⟨ovf, mis⟩ bs 0 cs)
    let m := if src == "stream" then
        ";".intercalate (renderHistStream (bs.length + 1) ⟨ovf, mis⟩ (BinStream.Reader.mk' Generated.Msgpack.binaryStreamChunkSize bs) cs)
      else mem
    -- the property itself: the stream reader must answer as the string-reader model does
    let v := match impl with
      | some i => if src == "stream" then (if i = mem then "ok" else "bad:stream_history_differs_from_string_reader") else "nospec"
      | none => "nospec"
    pure (m, v)
  | _ => none

end BSVerif.Driver.MsgPack
