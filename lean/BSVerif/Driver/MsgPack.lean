/-
  Line-protocol handlers for the MsgPack token-level ops (implementation side: harness/ops_msgpack.cpp).
    mp.write <entry> <args>             entry: nil | bool b | u8 u16 u32 u64 i8 i16 i32 i64 <dec> | f32 <hex8> | f64 <hex16>
                                               | str <hex> | ts <sec> <ns> | arr <n> | map <n> | bin <n>
        answer: `<hex> same` | `<hex> diff <hex>` | `err <class>`
    mp.read <mem|stream> <ovf> <mis> <T> <pre> <hex>     ovf, mis ∈ throw|skip
        T ∈ nil bool u8 u16 u32 u64 char i8 i16 i32 i64 f32 f64 str ts arr map bin
        answer: `ok <value> <pos>` | `no <pos>` | `err <class>`
    mp.skip <mem|stream> <pre> <hex>    answer: `ok <pos>` | `err <class>`
    mp.type <mem|stream> <pre> <hex>    answer: `ok <ValueType number> <pos>` | `err <class>`
  The model is the string reader; `stream` ops are answered by the same model (every divergence of
  the stream reader shows up as DISAGREE).
-/
import BSVerif.MsgPack.Oracle
import BSVerif.MsgPack.Reader

namespace BSVerif.Driver.MsgPack
open BSVerif BSVerif.MsgPack BSVerif.MsgPack.Model

def verdictStr : Oracle.Verdict → String
  | .ok => "ok" | .known c => s!"known:{c}" | .bad w => s!"bad:{w.replace " " "_"}" | .nospec => "nospec"

def errStr : Err → String
  | .parsing => "parsing" | .mismatched => "mismatched" | .overflow => "overflow"
  | .internal => "internal" | .depth => "depth"

def parsePolicy : String → Option Bool
  | "throw" => some true | "skip" => some false | _ => none

def hexFixed (digits : Nat) (n : Nat) : String :=
  String.ofList ((List.range digits).reverse.map fun i => hexDigit (n / 16 ^ i % 16))

def bytesOk (l : List Nat) : Bool := l.all (· < 256)

/-! #### mp.write -/

def intRange (s : String) : Option (Int × Int) :=
  match s with
  | "u8" => some (0, 255) | "u16" => some (0, 65535) | "u32" => some (0, 4294967295) | "u64" => some (0, 18446744073709551615)
  | "i8" => some (-128, 127) | "i16" => some (-32768, 32767) | "i32" => some (-2147483648, 2147483647)
  | "i64" => some (-9223372036854775808, 9223372036854775807)
  | _ => none

def modelWriteInt (ty : String) (v : Int) : Bytes :=
  match ty with
  | "u8" => writeU8 v.toNat | "u16" => writeU16 v.toNat | "u32" => writeU32 v.toNat | "u64" => writeU64 v.toNat
  | "i8" => writeI8 v | "i16" => writeI16 v | "i32" => writeI32 v | _ => writeI64 v

def renderW : Except WErr Bytes → String
  | .ok b => s!"{hexBytes b} same"
  | .error .outOfRange => "err ser_out_of_range"

def parseWAns (s : String) : Oracle.WAns :=
  match s.splitOn " " with
  | [h, "same"] => match parseBytes h with | some b => .bytes b true | none => .other
  | [h, "diff", _] => match parseBytes h with | some b => .bytes b false | none => .other
  | ["err", c] => .err c
  | "mixed" :: _ => .bytes [] false
  | _ => .other

def handleWrite (args : List String) (impl : Option String) : Option (String × String) := do
  let (model, req) : Except WErr Bytes × Oracle.WReq ← (match args with
    | ["nil"] => some (.ok writeNil, .tok .nil)
    | ["bool", b] => if b = "1" then some (.ok (writeBool true), .tok (.bool true))
                     else if b = "0" then some (.ok (writeBool false), .tok (.bool false)) else none
    | ["f32", h] => do
      let b ← parseHexNat h
      if h.length ≠ 8 then none else some (.ok (writeF32 b), .tok (.f32 b))
    | ["f64", h] => do
      let b ← parseHexNat h
      if h.length ≠ 16 then none else some (.ok (writeF64 b), .tok (.f64 b))
    | ["str", h] => do
      let d ← parseBytes h
      some (writeStr d, .tok (.str d))
    | ["ts", s, n] => do
      let s ← parseInt s; let n ← parseInt n
      if s < -9223372036854775808 ∨ s > 9223372036854775807 ∨ n < -2147483648 ∨ n > 2147483647 then none
      else some (.ok (writeTs s n), .ts s n)
    | ["arr", n] => do
      let n ← n.toNat?
      if n ≥ 2 ^ 64 then none else some (beginArray n, if n < 2 ^ 32 then .tok (.array n) else .tooLarge)
    | ["map", n] => do
      let n ← n.toNat?
      if n ≥ 2 ^ 64 then none else some (beginMap n, if n < 2 ^ 32 then .tok (.map n) else .tooLarge)
    | ["bin", n] => do
      let n ← n.toNat?
      if n ≥ 2 ^ 64 then none else some (beginBinary n, if n < 2 ^ 32 then .binHeader n else .tooLarge)
    | [ty, v] => do
      let (lo, hi) ← intRange ty
      let v ← parseInt v
      if v < lo ∨ v > hi then none else some (.ok (modelWriteInt ty v), .tok (.int v))
    | _ => none)
  let v := match impl with
    | some i => verdictStr (Oracle.judgeWrite req (parseWAns i))
    | none => "nospec"
  pure (renderW model, v)

/-! #### mp.read -/

def intTy : String → Option IntTy
  | "bool" => some tyBool | "u8" => some tyU8 | "u16" => some tyU16 | "u32" => some tyU32 | "u64" => some tyU64
  | "char" => some tyChar | "i8" => some tyI8 | "i16" => some tyI16 | "i32" => some tyI32 | "i64" => some tyI64
  | _ => none

def tgtOf : String → Option Oracle.Tgt
  | "nil" => some .nil | "bool" => some (.int 0 1) | "char" => some (.int (-128) 127)
  | "f32" => some .f32 | "f64" => some .f64 | "str" => some .str | "ts" => some .ts
  | "arr" => some .arr | "map" => some .map | "bin" => some .bin
  | s => (intRange s).map fun (lo, hi) => .int lo hi

def renderRR (f : α → String) : RR α → String
  | .ok (some v, p) => s!"ok {f v} {p}"
  | .ok (none, p) => s!"no {p}"
  | .error e => s!"err {errStr e}"

def modelRead (stream : Bool) (T : String) (o : Opts) (bs : Bytes) (pos : Nat) : Option String :=
  match T with
  | "nil" => some (renderRR (fun _ => "-") (if stream then readNilStream o bs pos else readNil o bs pos))
  | "f32" => some (renderRR (hexFixed 8) (readF32 o bs pos))
  | "f64" => some (renderRR (hexFixed 16) (readF64 o bs pos))
  | "str" => some (renderRR hexBytes (readStr o bs pos))
  | "ts" => some (renderRR (fun (s, n) => s!"{s}:{n}") (readTs o bs pos))
  | "arr" => some (renderRR toString (readArraySize o bs pos))
  | "map" => some (renderRR toString (readMapSize o bs pos))
  | "bin" => some (renderRR toString (readBinarySize o bs pos))
  | _ => (intTy T).map fun ty => renderRR toString (readInteger ty o bs pos)

def parseVal (T : String) (s : String) : Option Oracle.Val :=
  match T with
  | "nil" => if s = "-" then some .unit else none
  | "f32" => if s.length = 8 then (parseHexNat s).map .bits else none
  | "f64" => if s.length = 16 then (parseHexNat s).map .bits else none
  | "str" => (parseBytes s).map .bytes
  | "ts" => match s.splitOn ":" with
    | [a, b] => do let a ← parseInt a; let b ← parseInt b; pure (.ts a b)
    | _ => none
  | _ => (parseInt s).map .int

def parseAns (T : String) (s : String) : Oracle.Ans :=
  match s.splitOn " " with
  | ["ok", v, p] => match parseVal T v, p.toNat? with | some v, some p => .ok v p | _, _ => .other
  | ["no", p] => match p.toNat? with | some p => .no p | none => .other
  | ["err", c] => .err c
  | _ => .other

def parsePosAns (s : String) : Oracle.Ans :=
  match s.splitOn " " with
  | ["ok", p] => match p.toNat? with | some p => .ok .unit p | none => .other
  | ["err", c] => .err c
  | _ => .other

def parseTypeAns (s : String) : Oracle.Ans :=
  match s.splitOn " " with
  | ["ok", t, p] => match t.toNat?, p.toNat? with | some t, some p => .ok (.int (Int.ofNat t)) p | _, _ => .other
  | ["err", c] => .err c
  | _ => .other

def padded (pre : Nat) (b : Bytes) : Bytes := List.replicate pre 0xC0 ++ b

def handle (toks : List String) (impl : Option String) : Option (String × String) :=
  match toks with
  | "mp.write" :: args => handleWrite args impl
  | ["mp.read", src, ovf, mis, T, pre, hex] => do
    if src ≠ "mem" ∧ src ≠ "stream" then none
    let ovf ← parsePolicy ovf; let mis ← parsePolicy mis
    let pre ← pre.toNat?; let b ← parseBytes hex
    if !bytesOk b then none
    let tgt ← tgtOf T
    let bs := padded pre b
    let m ← modelRead (src == "stream") T ⟨ovf, mis⟩ bs pre
    let v := match impl with
      | some i => verdictStr (Oracle.judgeRead tgt ovf mis bs pre (parseAns T i))
      | none => "nospec"
    pure (m, v)
  | ["mp.skip", src, pre, hex] => do
    if src ≠ "mem" ∧ src ≠ "stream" then none
    let pre ← pre.toNat?; let b ← parseBytes hex
    if !bytesOk b then none
    let bs := padded pre b
    let m := match skip bs pre with | .ok p => s!"ok {p}" | .error e => s!"err {errStr e}"
    let v := match impl with
      | some i => verdictStr (Oracle.judgeSkip bs pre (parsePosAns i))
      | none => "nospec"
    pure (m, v)
  | ["mp.type", src, pre, hex] => do
    if src ≠ "mem" ∧ src ≠ "stream" then none
    let pre ← pre.toNat?; let b ← parseBytes hex
    if !bytesOk b then none
    let bs := padded pre b
    let m := match readValueType bs pre with | .ok t => s!"ok {t} {pre}" | .error e => s!"err {errStr e}"
    let v := match impl with
      | some i => verdictStr (Oracle.judgeType bs pre (parseTypeAns i))
      | none => "nospec"
    pure (m, v)
  | _ => none

end BSVerif.Driver.MsgPack
