/-
  cont.load <kind> <mode> <prior> <doc tokens>      (implementation side: harness/ops_cont.cpp)
  cont.csv <kind> <prior> <header> <rows>
    answer: <populated result>|<fresh result>, each a canonical value or !<error class>

  The ARCHIVE ABSTRACTION lives here: a MsgPack document (token tree, `Scope.Spec.Val`) is turned into the
  abstract items of `Cont/Model.lean` for the element type of the kind (what the MsgPack scopes do with a
  value of another kind under MismatchedTypesPolicy::Skip is "return false and pass the value": C05).
-/
import BSVerif.Cont.Model
import BSVerif.Cont.Spec
import BSVerif.Driver.Scope

namespace BSVerif.Driver.Cont
open BSVerif BSVerif.Scope BSVerif.Scope.Spec BSVerif.Cont
open BSVerif.Cont.Spec (Entry Res Kind Mode)

/-! ### document → abstract items -/

def intIt : Val → Option Int
  | .sc (.int v) => some v
  | _ => none

def boolIt : Val → Option Bool
  | .sc (.bool b) => some b
  | _ => none

def strIt : Val → Option (List Int)
  | .sc (.str s) => some (s.map Int.ofNat)
  | _ => none

def arrIt {ι : Type} (f : Val → ι) : Val → ArrItem ι
  | .arr items => some (items.length, items.map f)
  | _ => none

def keyIt : Val → Option Int
  | .sc (.int k) => some k
  | _ => none

def objIt {ι : Type} (f : Val → ι) : Val → ObjItem ι
  | .map es => some (es.map fun e => (keyIt e.1, f e.2))
  | _ => none

def field (es : List (Val × Val)) (name : String) : Option Val :=
  (es.find? fun e => match e.1 with | .sc (.str s) => s == Spec.strBytes name | _ => false).map (·.2)

/-- element of a multimap array: an object {"key":k,"value":v} -/
def pairIt : Val → Option (Option Int × Option Int)
  | .map es => some ((field es "key").bind intIt, (field es "value").bind intIt)
  | _ => none

/-- the ops keep to documents this abstraction covers: no int<->bool funnelling (C04), keys are integers
    or strings starting with a letter (not convertible to an integer key), every object key is a scalar -/
def supportedKey : Val → Bool
  | .sc (.int _) => true
  | .sc (.str (c :: _)) => (65 ≤ c && c ≤ 90) || (97 ≤ c && c ≤ 122)
  | _ => false

def supportedTok (boolKind : Bool) : Tok → Bool
  | .bool _ => boolKind
  | .int _ => !boolKind
  | _ => true

/-- keys of the document's objects, two levels deep (map kinds: the root; multimap: the elements) -/
def supportedKeys : Val → Bool
  | .map es => es.all fun e => supportedKey e.1
  | .arr items => items.all fun it => match it with
    | .map es => es.all fun e => supportedKey e.1
    | _ => true
  | _ => true

/-! ### canonical text -/

def intStr (v : Int) : String := toString v

def innerStr (l : List Int) : String := if l.isEmpty then "e" else String.intercalate "." (l.map intStr)

def joinOr (l : List String) : String := if l.isEmpty then "-" else String.intercalate "," l

inductive Shape where
  | ints | pairs | pairsVec | optInt | optVec | str | vecs
  deriving DecidableEq

def shapeOf : Kind → Shape
  | .seq | .fixed _ | .vbool | .bits _ | .set _ => .ints
  | .map _ | .multimap => .pairs
  | .mapVec _ => .pairsVec
  | .opt => .optInt | .optVec => .optVec | .str => .str | .vecVec => .vecs

def entriesStr (sh : Shape) (es : List Entry) : String :=
  match sh with
  | .ints => joinOr (es.map fun e => innerStr e.2)
  | .pairs => joinOr (es.map fun e => s!"{intStr (e.1.getD 0)}:{innerStr e.2}")
  | .pairsVec => joinOr (es.map fun e => s!"{intStr (e.1.getD 0)}:{innerStr e.2}")
  | .optInt => match es with | [e] => innerStr e.2 | _ => "-"
  | .optVec => match es with | [e] => innerStr e.2 | _ => "-"
  | .str => match es with | [e] => hexBytes (e.2.map Int.toNat) | _ => "-"
  | .vecs => joinOr (es.map fun e => innerStr e.2)

def resStr (sh : Shape) : Res → String
  | .ok es => entriesStr sh es
  | .error e => "!" ++ e

def parseInner (s : String) : Option (List Int) :=
  if s == "e" then some [] else (s.splitOn ".").mapM parseInt

def parseEntries (sh : Shape) (s : String) : Option (List Entry) :=
  match sh with
  | .ints => if s == "-" then some [] else (s.splitOn ",").mapM fun p => (parseInt p).map fun v => (none, [v])
  | .pairs | .pairsVec =>
    if s == "-" then some [] else (s.splitOn ",").mapM fun p =>
      match p.splitOn ":" with
      | [k, v] => do
        let k ← parseInt k
        let v ← parseInner v
        if sh == .pairs && v.length != 1 then none
        pure (some k, v)
      | _ => none
  | .optInt => if s == "-" then some [] else (parseInt s).map fun v => [(none, [v])]
  | .optVec => if s == "-" then some [] else (parseInner s).map fun v => [(none, v)]
  | .str => (parseBytes s).map fun bs => [(none, bs.map Int.ofNat)]
  | .vecs => if s == "-" then some [] else (s.splitOn ",").mapM fun p => (parseInner p).map fun v => (none, v)

def parseRes (sh : Shape) (s : String) : Option Res :=
  if s.startsWith "!" then some (.error (s.drop 1).toString) else (parseEntries sh s).map .ok

/-! ### running the model -/

def ints (es : List Entry) : List Int := es.map fun e => e.2.headD 0
def ofInts (l : List Int) : List Entry := l.map fun v => (none, [v])
def bools (es : List Entry) : List Bool := es.map fun e => e.2.headD 0 != 0
def ofBools (l : List Bool) : List Entry := l.map fun b => (none, [if b then 1 else 0])
def pairsOf (es : List Entry) : List (Int × Int) := es.map fun e => (e.1.getD 0, e.2.headD 0)
def ofPairs (l : List (Int × Int)) : List Entry := l.map fun p => (some p.1, [p.2])
def pairsVecOf (es : List Entry) : List (Int × List Int) := es.map fun e => (e.1.getD 0, e.2)
def ofPairsVec (l : List (Int × List Int)) : List Entry := l.map fun p => (some p.1, p.2)

def intL : Loader (Option Int) Int := scalar 0

def modeOf : Mode → MapMode
  | .clean => .clean | .exist => .onlyExist | .update => .update

def errStr : Cont.Err → String
  | .outOfRange => "ser_out_of_range"

/-- the model's result of loading `doc` into a target holding `prior` -/
def runModel (kindName : String) (k : Kind) (doc : Val) (prior : List Entry) : Res :=
  match k with
  | .seq =>
    match arrIt intIt doc with
    | none => .ok prior
    | some (est, items) =>
      if kindName == "forward_list" then
        match serializeForwardList intL (ints prior) est items with
        | some r => .ok (ofInts r)
        | none => .error "undefined_behaviour"
      else if kindName == "valarray" then .ok (ofInts (serializeValarray intL (ints prior) est items))
      else .ok (ofInts (serializeContainer intL (ints prior) est items))
  | .fixed _ =>
    match arrIt intIt doc with
    | none => .ok prior
    | some (_, items) =>
      match serializeFixedArray intL (ints prior) items with
      | .ok r => .ok (ofInts r)
      | .error e => .error (errStr e)
  | .vbool =>
    match arrIt boolIt doc with
    | none => .ok prior
    | some (est, items) => .ok (ofBools (serializeVectorBool (bools prior) est items))
  | .bits _ =>
    match arrIt boolIt doc with
    | none => .ok prior
    | some (_, items) =>
      match serializeBitset (bools prior) items with
      | .ok r => .ok (ofBools r)
      | .error e => .error (errStr e)
  | .set u =>
    match arrIt intIt doc with
    | none => .ok prior
    | some (_, items) => .ok (Spec.sortEntries (ofInts (serializeSet intL u (ints prior) items)))
  | .map m => .ok (Spec.sortEntries (ofPairs (loadObject (mapLoader intL (modeOf m)) (objIt intIt doc) (pairsOf prior))))
  | .mapVec m =>
    .ok (Spec.sortEntries (ofPairsVec (loadObject (mapLoader (vecLoader intL) (modeOf m)) (objIt (arrIt intIt) doc) (pairsVecOf prior))))
  | .multimap =>
    match arrIt pairIt doc with
    | none => .ok prior
    | some (_, items) =>
      let r := ofPairs (serializeMultiMap intL (pairsOf prior) items)
      -- std::multimap iterates by key, equivalent keys in insertion order (`emplace_hint(end())`): a stable sort by key;
      -- the unordered variant is printed fully sorted
      if kindName == "multimap" then .ok (r.mergeSort fun a b => decide (a.1.getD 0 ≤ b.1.getD 0))
      else .ok (Spec.sortEntries r)
  | .opt =>
    let p : Option Int := match prior with | [e] => some (e.2.headD 0) | _ => none
    match loadObject (optLoader intL) (intIt doc) p with
    | some v => .ok [(none, [v])]
    | none => .ok []
  | .optVec =>
    let p : Option (List Int) := match prior with | [e] => some e.2 | _ => none
    match loadObject (optLoader (vecLoader intL)) (arrIt intIt doc) p with
    | some v => .ok [(none, v)]
    | none => .ok []
  | .str =>
    let p : List Int := match prior with | [e] => e.2 | _ => []
    .ok [(none, loadObject (scalar ([] : List Int)) (strIt doc) p)]
  | .vecVec =>
    .ok ((loadObject (vecLoader (vecLoader intL)) (arrIt (arrIt intIt) doc) (prior.map (·.2))).map fun v => (none, v))

def freshOf : Kind → List Entry
  | .fixed n => List.replicate n (none, [0])
  | .bits n => List.replicate n (none, [0])
  | .str => [(none, [])]
  | _ => []

def isBoolKind : Kind → Bool
  | .vbool | .bits _ => true
  | _ => false

/-! ### CSV rows: a vector of objects with the fields a and b -/

abbrev RowItem := Option Int × Option Int

def rowL : Loader RowItem (Int × Int) :=
  ⟨(0, 0), fun it old => (true, ((intL.load it.1 old.1).2, (intL.load it.2 old.2).2))⟩

def rowItem (header cells : List String) : RowItem :=
  let f (name : String) : Option Int := ((header.zip cells).find? fun p => p.1 == name).bind fun p => Spec.parseCell p.2
  (f "a", f "b")

def splitList (s : String) (sep : String) : List String := if s == "-" then [] else s.splitOn sep

def handle (toks : List String) (impl : Option String) : Option (String × String) :=
  match toks with
  | ["cont.load", kindName, mode, priorS, docS] => do
    let k ← Spec.parseKind kindName mode
    let sh := shapeOf k
    let prior ← parseEntries sh priorS
    let toks ← (docS.splitOn ",").mapM Scope.parseTok
    let vals ← parseDoc toks
    let doc ← match vals with | [v] => some v | _ => none
    if !(toks.all (supportedTok (isBoolKind k)) && supportedKeys doc) then none
    let pop := runModel kindName k doc prior
    let fresh := runModel kindName k doc (freshOf k)
    let ans := s!"{resStr sh pop}|{resStr sh fresh}"
    let v := match impl with
      | some i =>
        match i.splitOn "|" with
        | [a, b] =>
          match parseRes sh a, parseRes sh b with
          | some ra, some rb => Spec.judge k prior doc ra rb
          | _, _ => "bad:unparsable_or_abnormal_answer"
        | _ => "bad:unparsable_or_abnormal_answer"
      | none => "nospec"
    pure (ans, v)
  | ["cont.csv", kindName, priorS, headerS, rowsS] => do
    if !["vector", "deque", "list", "forward_list"].contains kindName then none
    let prior ← parseEntries .pairs priorS
    let header := splitList headerS ":"
    if header.isEmpty then none
    let rows := (splitList rowsS ";").map fun r => (r.splitOn ":").map fun c => if c == "_" then "" else c
    if rows.any (fun r => r.length != header.length) then none
    let items := rows.map (rowItem header)
    let run (p : List (Int × Int)) : String :=
      if kindName == "forward_list" then
        match serializeForwardList rowL p 0 items with
        | some r => entriesStr .pairs (ofPairs r)
        | none => "!undefined_behaviour"
      else entriesStr .pairs (ofPairs (serializeContainer rowL p 0 items))
    let ans := s!"{run (pairsOf prior)}|{run []}"
    let v := match impl with
      | some i =>
        match i.splitOn "|" with
        | [a, b] =>
          match parseRes .pairs a, parseRes .pairs b with
          | some ra, some rb => Spec.judgeCsv prior header rows ra rb
          | _, _ => "bad:unparsable_or_abnormal_answer"
        | _ => "bad:unparsable_or_abnormal_answer"
      | none => "nospec"
    pure (ans, v)
  | _ => none

end BSVerif.Driver.Cont
