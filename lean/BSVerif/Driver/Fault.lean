/-
  fault.* ops (runtime fault enumeration for C20/C02): there is no model prediction of the exact
  exception class; the driver echoes the implementation's answer and JUDGES it:
    * `terminate`, crashes, sanitizer reports, leaks, timeouts are never acceptable;
    * a strict prefix of a MessagePack document must be rejected with an exception (prefix-free format);
    * a stream failure must surface as an exception;
    * a library-detected mid-save error must surface as an exception.
  No exception class is accepted for `terminate` any more: the destructors of ~CCsvWriteObjectScope,
  ~CMsgPackReadObjectScope and ~CMsgPackReadArrayScope defer their errors to Finalize() (formerly the
  recorded classes csv-write-dtor-throws / msgpack-object-dtor-throws).
-/
import BSVerif.Basic

namespace BSVerif.Driver.Fault

def isExc (a : String) : Bool := a.startsWith "exc:"
def isOkOrExc (a : String) : Bool := a.startsWith "ok" || isExc a

/-- `fault.defer c₁ … cₙ`: `DeferError` keeps the FIRST error, `RethrowDeferredError` throws it once (the slot is
    cleared), a second call has nothing to throw -/
def deferExpected (classes : List String) : String :=
  match classes.filter (· != "-") with
  | [] => "ok ok"
  | c :: _ => s!"exc:{c} ok"

def handle (toks : List String) (impl : Option String) : Option (String × String) :=
  match toks with
  | "fault.defer" :: classes =>
    let exp := deferExpected classes
    some (exp, match impl with
      | none => "nospec"
      | some a => if a == exp then "ok" else "bad:deferred_error_is_not_the_first_one_or_not_rethrown_once")
  | _ =>
  let a := impl.getD "-"
  let verdict : String :=
    match impl with
    | none => "nospec"
    | some a =>
      match toks with
      | ["fault.trunc", arch, _src, _doc, _k] =>
        if a == "skip" then "ok"
        else if a == "terminate" then "bad:terminate"
        else if arch == "mp" || arch == "mpvec" || arch == "mpx" || arch == "mptup" || arch == "mpbin" then
          (if isExc a then "ok" else "bad:truncated_MessagePack_document_accepted")
        else if isOkOrExc a then "ok" else "bad:abnormal_outcome"
      | ["fault.alloc", _sc, _k] =>
        if isOkOrExc a then "ok"
        else "bad:abnormal_outcome_under_allocation_failure"
      | ["fault.io", _sc, _off] =>
        if a == "skip" then "ok"
        else if isExc a then "ok"
        else if a.startsWith "ok" then "bad:stream_failure_not_reported"
        else "bad:abnormal_outcome_under_stream_failure"
      | ["fault.option", _sc, sep] =>
        -- the five separators csv_archive.cpp accepts: , ; tab space |
        let valid := sep == "44" || sep == "59" || sep == "9" || sep == "32" || sep == "124"
        if (a.splitOn " ").contains "LEAK" then "bad:memory_leaked_on_the_error_path"
        else if valid then (if a == "ok" then "ok" else "bad:valid_option_rejected")
        else if isExc a then "ok"
        else "bad:invalid_option_not_reported_as_exception"
      | ["fault.preset", _arch, _state] =>
        if isExc a then "ok" else "bad:save_to_a_failed_stream_not_reported"
      | ["fault.midsave", _sc] =>
        if isExc a then "ok"
        else "bad:mid-save_error_not_reported_as_exception"
      | _ => "nospec"
  match toks with
  | t :: _ => if t.startsWith "fault." then some (a, verdict) else none
  | [] => none

end BSVerif.Driver.Fault
