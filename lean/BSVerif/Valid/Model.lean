/-
  MODEL of validation during loading (C17):
    serialization_detail/validators.h      Required, Range, MinSize, MaxSize (+ custom lambdas)  -> `Validator.check`
    serialization_detail/key_value_proxy.h SplitAndSerialize: Serialize, then VisitArgs over the validators
                                           in declaration order with (value, result)               -> `visitArgs`
    serialization_detail/serialization_context.h  AddValidationError (group by path, throw when the map size
                                           reaches maxValidationErrors), OnFinishSerialization     -> `addError`, `runEvents`, `finish`
    bit_serializer.h                       LoadObject: load, Finalize, OnFinishSerialization        -> `loadClass`

  Email and PhoneNumber are modelled unit by unit in Valid/TextValidators.lean (`Text.email`, `Text.phone`), judged by
  Valid/TextSpec.lean and exercised directly by the ops `val.email*` / `val.phone*`. Inside a LOAD (`val.load`) the
  validator list still carries their outcome as an input (`Validator.verdict`): what the load machinery does with a
  failing validator does not depend on why it failed.

  A class is a list of fields `(key, kind, validators)`; kinds: scalar leaves (int64, string, optional<int64>,
  vector<int64>), a nested flat class, a vector of flat classes, a string-keyed map of flat classes.
  The document is the token tree of `Scope.Spec` (`Val`): an object is a list of (key, value) entries.

  Control flow: an exception thrown by `AddValidationError` leaves every loop at once, and nothing a
  validator sees depends on the error map. The model therefore computes the TRACE — the sequence of
  `(path, message)` reported by the validator calls in the order the load performs them — and feeds it to the
  error-map machine `runEvents`, which stops at the throw.
-/
import BSVerif.Scope.Spec

namespace BSVerif.Valid
open BSVerif.Scope BSVerif.Scope.Spec

/-- what a validator can observe of a field value -/
structure Seen where
  int : Int      -- integer fields: the value (0 otherwise)
  size : Nat     -- fields with size(): string, vector, map (0 otherwise)
  deriving Repr, DecidableEq

inductive Validator where
  | required (msg : Option String)
  | range (lo hi : Int) (msg : Option String)
  | minSize (n : Nat) (msg : Option String)
  | maxSize (n : Nat) (msg : Option String)
  | verdict (pass : Bool) (msg : String)                  -- Email / PhoneNumber (outcome supplied, see above)
  | custom (fails : Seen → Bool → Bool) (msg : String)    -- any lambda (value, isLoaded) -> optional<string>

def requiredDefault : String := "This field is required"

/-- `validator(value, isLoaded)` : the message when it fails -/
def Validator.check : Validator → Seen → Bool → Option String
  | .required msg, _, loaded => if loaded then none else some (msg.getD requiredDefault)
  | .range lo hi msg, v, loaded =>
    if !loaded then none
    else if v.int < lo ∨ v.int > hi then some (msg.getD s!"Value must be between {lo} and {hi}")
    else none
  | .minSize n msg, v, loaded =>
    if !loaded then none
    else if v.size ≥ n then none
    else some (msg.getD s!"The minimum size of this field should be {n}")
  | .maxSize n msg, v, loaded =>
    if !loaded then none
    else if v.size ≤ n then none
    else some (msg.getD s!"The maximum size of this field should be not greater than {n}")
  | .verdict pass msg, _, loaded => if !loaded then none else if pass then none else some msg
  | .custom fails msg, v, loaded => if fails v loaded then some msg else none

/-- `keyValue.VisitArgs(...)`: every validator is called, in declaration order; each failure is reported under the field's path -/
def visitArgs (path : String) (vs : List Validator) (seen : Seen) (loaded : Bool) : List (String × String) :=
  vs.filterMap fun v => (v.check seen loaded).map fun msg => (path, msg)

/-! ### the error map of SerializationContext -/

abbrev ErrMap := List (String × List String)      -- entries in order of first insertion; paths are unique

def ErrMap.add (m : ErrMap) (path msg : String) : ErrMap :=
  if m.any (·.1 == path) then m.map fun e => if e.1 == path then (e.1, e.2 ++ [msg]) else e
  else m ++ [(path, [msg])]

/-- `AddValidationError`: `.error` = ValidationException thrown right away (carrying the map) -/
def addError (cap : Nat) (m : ErrMap) (path msg : String) : Except ErrMap ErrMap :=
  let m' := m.add path msg
  if cap > 0 ∧ cap = m'.length then .error m' else .ok m'

def runEvents (cap : Nat) : ErrMap → List (String × String) → Except ErrMap ErrMap
  | m, [] => .ok m
  | m, e :: es =>
    match addError cap m e.1 e.2 with
    | .ok m' => runEvents cap m' es
    | .error m' => .error m'

/-! ### values and classes -/

inductive Leaf where
  | int | str | optInt | vecInt
  deriving Repr, DecidableEq

inductive LeafVal where
  | int (v : Int) | str (s : List Nat) | opt (o : Option Int) | vec (l : List Int)
  deriving Repr, DecidableEq

structure LeafField where
  key : String
  kind : Leaf
  validators : List Validator

inductive Kind where
  | leaf (k : Leaf)
  | obj (fields : List LeafField)
  | vecObj (fields : List LeafField)
  | mapObj (fields : List LeafField)

structure Field where
  key : String
  kind : Kind
  validators : List Validator

abbrev FlatVal := List LeafVal

inductive FieldVal where
  | leaf (v : LeafVal)
  | obj (v : FlatVal)
  | vec (l : List FlatVal)
  | map (l : List (List Nat × FlatVal))      -- in order of first insertion (printed sorted by key)
  deriving Repr, DecidableEq

def keyBytes (s : String) : List Nat := s.toList.map Char.toNat

/-- the value stored under a string key (`FindValueByKey`; keys are distinct in the generated documents) -/
def lookup (entries : List (Val × Val)) (key : String) : Option Val :=
  (entries.find? fun e => match e.1 with | .sc (.str s) => s == keyBytes key | _ => false).map (·.2)

def intOr0 : Val → Int
  | .sc (.int v) => v
  | _ => 0

/-- `Serialize(scope, key, member)` for the leaf kinds under MismatchedTypesPolicy::Skip into a fresh member:
    `(result, member value)` -/
def loadLeaf : Leaf → Option Val → Bool × LeafVal
  | .int, some (.sc (.int v)) => (true, .int v)
  | .int, _ => (false, .int 0)
  | .str, some (.sc (.str s)) => (true, .str s)
  | .str, _ => (false, .str [])
  | .optInt, some (.sc (.int v)) => (true, .opt (some v))
  | .optInt, _ => (false, .opt none)
  | .vecInt, some (.arr items) => (true, .vec (items.map intOr0))
  | .vecInt, _ => (false, .vec [])

def seenLeaf : LeafVal → Seen
  | .int v => ⟨v, 0⟩
  | .str s => ⟨0, s.length⟩
  | .opt _ => ⟨0, 0⟩
  | .vec l => ⟨0, l.length⟩

def defaultFlat (fields : List LeafField) : FlatVal := fields.map fun f => (loadLeaf f.kind none).2

/-- `value.Serialize(objectScope)` of a flat class whose scope has the path `pfx` -/
def loadFlat (pfx : String) (fields : List LeafField) (entries : List (Val × Val)) : FlatVal × List (String × String) :=
  let rs := fields.map fun f =>
    let r := loadLeaf f.kind (lookup entries f.key)
    (r.2, visitArgs (pfx ++ "/" ++ f.key) f.validators (seenLeaf r.2) r.1)
  (rs.map (·.1), (rs.map (·.2)).flatten)

/-- elements of a vector<Flat>: element j (0-based) is loaded through a child scope whose path ends in j+1
    (the array scope has already advanced its index when the child asks for the path) -/
def loadVecElems (pfx : String) (fields : List LeafField) : Nat → List Val → List FlatVal × List (String × String)
  | _, [] => ([], [])
  | j, it :: its =>
    let r := match it with
      | .map es => loadFlat (pfx ++ "/" ++ toString (j + 1)) fields es
      | _ => (defaultFlat fields, [])
    let rest := loadVecElems pfx fields (j + 1) its
    (r.1 :: rest.1, r.2 ++ rest.2)

def keyString (bs : List Nat) : String := String.ofList (bs.map Char.ofNat)

/-- entries of a map<string, Flat> in Clean mode, visited in document order (string keys, distinct) -/
def loadMapElems (pfx : String) (fields : List LeafField) : List (Val × Val) → List (List Nat × FlatVal) × List (String × String)
  | [] => ([], [])
  | e :: es =>
    let rest := loadMapElems pfx fields es
    match e.1 with
    | .sc (.str k) =>
      let r := match e.2 with
        | .map es' => loadFlat (pfx ++ "/" ++ keyString k) fields es'
        | _ => (defaultFlat fields, [])
      ((k, r.1) :: rest.1, r.2 ++ rest.2)
    | _ => rest

/-- `Serialize(scope, key, member)` for one field of the root class: (result, value, trace of the nested validators) -/
def loadField (f : Field) (v : Option Val) : Bool × FieldVal × List (String × String) :=
  match f.kind, v with
  | .leaf k, v => let r := loadLeaf k v; (r.1, .leaf r.2, [])
  | .obj fields, some (.map es) => let r := loadFlat ("/" ++ f.key) fields es; (true, .obj r.1, r.2)
  | .obj fields, _ => (false, .obj (defaultFlat fields), [])
  | .vecObj fields, some (.arr items) => let r := loadVecElems ("/" ++ f.key) fields 0 items; (true, .vec r.1, r.2)
  | .vecObj _, _ => (false, .vec [], [])
  | .mapObj fields, some (.map es) => let r := loadMapElems ("/" ++ f.key) fields es; (true, .map r.1, r.2)
  | .mapObj _, _ => (false, .map [], [])

def seenField : FieldVal → Seen
  | .leaf v => seenLeaf v
  | .obj _ => ⟨0, 0⟩
  | .vec l => ⟨0, l.length⟩
  | .map l => ⟨0, l.length⟩

/-- the whole load of the root object (never interrupted): values and the trace of reported failures -/
def loadRoot (cls : List Field) (entries : List (Val × Val)) : List FieldVal × List (String × String) :=
  let rs := cls.map fun f =>
    let r := loadField f (lookup entries f.key)
    (r.2.1, r.2.2 ++ visitArgs ("/" ++ f.key) f.validators (seenField r.2.1) r.1)
  (rs.map (·.1), (rs.map (·.2)).flatten)

inductive Outcome where
  | ok (state : List FieldVal)
  | validation (errors : ErrMap) (state : Option (List FieldVal))    -- state = none: thrown before the load ended
  deriving DecidableEq

/-- `LoadObject`: load; `OnFinishSerialization` throws when the map is not empty. A root value that is not an
    object is not loaded at all (no field is visited, no validator runs). -/
def loadClass (cap : Nat) (cls : List Field) (doc : Val) : Outcome :=
  match doc with
  | .map es =>
    let r := loadRoot cls es
    match runEvents cap [] r.2 with
    | .error m => .validation m none
    | .ok m => if m.isEmpty then .ok r.1 else .validation m (some r.1)
  | _ => .ok (cls.map fun f => (loadField f none).2.1)

end BSVerif.Valid
