/-
  MODEL of validation during loading (C17):
    serialization_detail/validators.h      Required, Range, MinSize, MaxSize (+ custom lambdas)  -> `Validator.check`
    serialization_detail/key_value_proxy.h SplitAndSerialize: Serialize, then VisitArgs over the validators
                                           in declaration order with (value, result)               -> `visitArgs`
    serialization_detail/serialization_context.h  AddValidationError (group by path, throw when the map size
                                           reaches maxValidationErrors), OnFinishSerialization     -> `addError`, `runEvents`, `finish`
    bit_serializer.h                       LoadObject: load, Finalize, OnFinishSerialization        -> `loadClass`

  Email and PhoneNumber are modelled unit by unit in Valid/TextValidators.lean (`Text.email`, `Text.phone`), judged by
  Valid/TextSpec.lean and exercised directly by the ops `val.email*` / `val.phone*`. Inside a LOAD (`val.load`) the
  validator list still carries their outcome as an input (`Validator.verdict`): what the load machinery does with a
  failing validator does not depend on why it failed.

  A class is a list of fields `(key, kind, validators)`; kinds: scalar leaves (int64, string, optional<int64>,
  vector<int64>, a REGISTERED ENUM loaded by name), a nested flat class, a vector of flat classes, a string-keyed map of
  flat classes.

  The enum leaf: serialization_base_types.h `Serialize(archive, key, TValue& /*enum*/)` (loading branch) reads a string
  view under the key and returns `Detail::ConvertByPolicy(view, value, …)`; archive_base.h `ConvertByPolicy` assigns
  `Convert::To<TEnum>(view)` and returns true, or catches the `std::invalid_argument` of convert_enum.h `To(view, out)`
  (name not in the registry) and — under MismatchedTypesPolicy::Skip — returns false leaving the target untouched (under
  ThrowError it throws SerializationException(MismatchedTypes)). convert_enum.h `EnumRegistry::GetEnumMetadata(name)` is
  the table scan `findEnum`: first entry of the same size whose characters agree position by position after
  `std::tolower`. The table is the one registered by harness/valid_enum.h (`enumNames`, tied to what the library's registry
  holds by `Props.C17.enum_table_matches_code`).

  MismatchedTypesPolicy::ThrowError (`val.loadt`, second part of this file): the first mismatched value met by the load
  throws SerializationException(MismatchedTypes) and the load is abandoned there.
  The document is the token tree of `Scope.Spec` (`Val`): an object is a list of (key, value) entries.

  Control flow: an exception thrown by `AddValidationError` leaves every loop at once, and nothing a
  validator sees depends on the error map. The model therefore computes the TRACE — the sequence of
  `(path, message)` reported by the validator calls in the order the load performs them — and feeds it to the
  error-map machine `runEvents`, which stops at the throw.
-/
import BSVerif.Scope.Spec

namespace BSVerif.Valid
open BSVerif.Scope BSVerif.Scope.Spec

/-- what a validator can observe of a field value -/
structure Seen where
  int : Int      -- integer fields: the value (0 otherwise)
  size : Nat     -- fields with size(): string, vector, map (0 otherwise)
  deriving Repr, DecidableEq

inductive Validator where
  | required (msg : Option String)
  | range (lo hi : Int) (msg : Option String)
  | minSize (n : Nat) (msg : Option String)
  | maxSize (n : Nat) (msg : Option String)
  | verdict (pass : Bool) (msg : String)                  -- Email / PhoneNumber (outcome supplied, see above)
  | custom (fails : Seen → Bool → Bool) (msg : String)    -- any lambda (value, isLoaded) -> optional<string>

def requiredDefault : String := "This field is required"

/-- `validator(value, isLoaded)` : the message when it fails -/
def Validator.check : Validator → Seen → Bool → Option String
  | .required msg, _, loaded => if loaded then none else some (msg.getD requiredDefault)
  | .range lo hi msg, v, loaded =>
    if !loaded then none
    else if v.int < lo ∨ v.int > hi then some (msg.getD s!"Value must be between {lo} and {hi}")
    else none
  | .minSize n msg, v, loaded =>
    if !loaded then none
    else if v.size ≥ n then none
    else some (msg.getD s!"The minimum size of this field should be {n}")
  | .maxSize n msg, v, loaded =>
    if !loaded then none
    else if v.size ≤ n then none
    else some (msg.getD s!"The maximum size of this field should be not greater than {n}")
  | .verdict pass msg, _, loaded => if !loaded then none else if pass then none else some msg
  | .custom fails msg, v, loaded => if fails v loaded then some msg else none

/-- `keyValue.VisitArgs(...)`: every validator is called, in declaration order; each failure is reported under the field's path -/
def visitArgs (path : String) (vs : List Validator) (seen : Seen) (loaded : Bool) : List (String × String) :=
  vs.filterMap fun v => (v.check seen loaded).map fun msg => (path, msg)

/-! ### the error map of SerializationContext -/

abbrev ErrMap := List (String × List String)      -- entries in order of first insertion; paths are unique

def ErrMap.add (m : ErrMap) (path msg : String) : ErrMap :=
  if m.any (·.1 == path) then m.map fun e => if e.1 == path then (e.1, e.2 ++ [msg]) else e
  else m ++ [(path, [msg])]

/-- `AddValidationError`: `.error` = ValidationException thrown right away (carrying the map) -/
def addError (cap : Nat) (m : ErrMap) (path msg : String) : Except ErrMap ErrMap :=
  let m' := m.add path msg
  if cap > 0 ∧ cap = m'.length then .error m' else .ok m'

def runEvents (cap : Nat) : ErrMap → List (String × String) → Except ErrMap ErrMap
  | m, [] => .ok m
  | m, e :: es =>
    match addError cap m e.1 e.2 with
    | .ok m' => runEvents cap m' es
    | .error m' => .error m'

/-! ### values and classes -/

inductive Leaf where
  | int | str | optInt | vecInt
  | enm                      -- a registered enum (harness: ValTone), loaded by name
  deriving Repr, DecidableEq

inductive LeafVal where
  | int (v : Int) | str (s : List Nat) | opt (o : Option Int) | vec (l : List Int)
  | enm (idx : Nat)          -- index into `enumNames` = underlying value of the enumerator
  deriving Repr, DecidableEq

structure LeafField where
  key : String
  kind : Leaf
  validators : List Validator

inductive Kind where
  | leaf (k : Leaf)
  | obj (fields : List LeafField)
  | vecObj (fields : List LeafField)
  | mapObj (fields : List LeafField)

structure Field where
  key : String
  kind : Kind
  validators : List Validator

abbrev FlatVal := List LeafVal

inductive FieldVal where
  | leaf (v : LeafVal)
  | obj (v : FlatVal)
  | vec (l : List FlatVal)
  | map (l : List (List Nat × FlatVal))      -- in order of first insertion (printed sorted by key)
  deriving Repr, DecidableEq

def keyBytes (s : String) : List Nat := s.toList.map Char.toNat

/-- the value stored under a string key (`FindValueByKey`; keys are distinct in the generated documents) -/
def lookup (entries : List (Val × Val)) (key : String) : Option Val :=
  (entries.find? fun e => match e.1 with | .sc (.str s) => s == keyBytes key | _ => false).map (·.2)

def intOr0 : Val → Int
  | .sc (.int v) => v
  | _ => 0

/-! ### the registered enum -/

/-- the names registered for the enum of the ops (harness/valid_enum.h: ValTone { Low, Mid, High }), in registration
    order; the underlying value of an enumerator is its index -/
def enumNames : List (List Nat) := [[76, 111, 119], [77, 105, 100], [72, 105, 103, 104]]

/-- the member's initial value (`ValTone e = Mid`): what the field holds when nothing is loaded into it -/
def enumInitial : Nat := 1

/-- `std::tolower` in the "C" locale on a byte -/
def toLowerC (c : Nat) : Nat := if 65 ≤ c ∧ c ≤ 90 then c + 32 else c

/-- the inner loop of `GetEnumMetadata(name)`: position by position, stop at the first difference (sizes are equal) -/
def charsMatch : List Nat → List Nat → Bool
  | [], _ => true
  | _ :: _, [] => true                       -- not reached: the sizes were compared before
  | a :: as, b :: bs => if toLowerC a != toLowerC b then false else charsMatch as bs

/-- `EnumRegistry::GetEnumMetadata(string_view)`: first entry with `Name.size() == name.size()` and matching characters;
    the answer is the position in the table -/
def findEnum : List (List Nat) → Nat → List Nat → Option Nat
  | [], _, _ => none
  | r :: rs, i, name =>
    if r.length == name.length then
      if charsMatch r name then some i else findEnum rs (i + 1) name
    else findEnum rs (i + 1) name

/-- `Serialize(scope, key, member)` for the leaf kinds under MismatchedTypesPolicy::Skip into a fresh member:
    `(result, member value)` -/
def loadLeaf : Leaf → Option Val → Bool × LeafVal
  | .int, some (.sc (.int v)) => (true, .int v)
  | .int, _ => (false, .int 0)
  | .str, some (.sc (.str s)) => (true, .str s)
  | .str, _ => (false, .str [])
  | .optInt, some (.sc (.int v)) => (true, .opt (some v))
  | .optInt, _ => (false, .opt none)
  | .vecInt, some (.arr items) => (true, .vec (items.map intOr0))
  | .vecInt, _ => (false, .vec [])
  | .enm, some (.sc (.str s)) =>
    match findEnum enumNames 0 s with
    | some i => (true, .enm i)                 -- ConvertByPolicy: target = Convert::To<TEnum>(view); return true
    | none => (false, .enm enumInitial)        -- invalid_argument caught, policy Skip: return false, target untouched
  | .enm, _ => (false, .enm enumInitial)       -- no string under the key (absent, nil, another type: skipped by the archive)

def seenLeaf : LeafVal → Seen
  | .int v => ⟨v, 0⟩
  | .str s => ⟨0, s.length⟩
  | .opt _ => ⟨0, 0⟩
  | .vec l => ⟨0, l.length⟩
  | .enm i => ⟨i, 0⟩

def defaultFlat (fields : List LeafField) : FlatVal := fields.map fun f => (loadLeaf f.kind none).2

/-- `value.Serialize(objectScope)` of a flat class whose scope has the path `pfx` -/
def loadFlat (pfx : String) (fields : List LeafField) (entries : List (Val × Val)) : FlatVal × List (String × String) :=
  let rs := fields.map fun f =>
    let r := loadLeaf f.kind (lookup entries f.key)
    (r.2, visitArgs (pfx ++ "/" ++ f.key) f.validators (seenLeaf r.2) r.1)
  (rs.map (·.1), (rs.map (·.2)).flatten)

/-- elements of a vector<Flat>: element j (0-based) is loaded through a child scope whose path ends in j+1
    (the array scope has already advanced its index when the child asks for the path) -/
def loadVecElems (pfx : String) (fields : List LeafField) : Nat → List Val → List FlatVal × List (String × String)
  | _, [] => ([], [])
  | j, it :: its =>
    let r := match it with
      | .map es => loadFlat (pfx ++ "/" ++ toString (j + 1)) fields es
      | _ => (defaultFlat fields, [])
    let rest := loadVecElems pfx fields (j + 1) its
    (r.1 :: rest.1, r.2 ++ rest.2)

def keyString (bs : List Nat) : String := String.ofList (bs.map Char.ofNat)

/-- entries of a map<string, Flat> in Clean mode, visited in document order (string keys, distinct) -/
def loadMapElems (pfx : String) (fields : List LeafField) : List (Val × Val) → List (List Nat × FlatVal) × List (String × String)
  | [] => ([], [])
  | e :: es =>
    let rest := loadMapElems pfx fields es
    match e.1 with
    | .sc (.str k) =>
      let r := match e.2 with
        | .map es' => loadFlat (pfx ++ "/" ++ keyString k) fields es'
        | _ => (defaultFlat fields, [])
      ((k, r.1) :: rest.1, r.2 ++ rest.2)
    | _ => rest

/-- `Serialize(scope, key, member)` for one field of the root class: (result, value, trace of the nested validators) -/
def loadField (f : Field) (v : Option Val) : Bool × FieldVal × List (String × String) :=
  match f.kind, v with
  | .leaf k, v => let r := loadLeaf k v; (r.1, .leaf r.2, [])
  | .obj fields, some (.map es) => let r := loadFlat ("/" ++ f.key) fields es; (true, .obj r.1, r.2)
  | .obj fields, _ => (false, .obj (defaultFlat fields), [])
  | .vecObj fields, some (.arr items) => let r := loadVecElems ("/" ++ f.key) fields 0 items; (true, .vec r.1, r.2)
  | .vecObj _, _ => (false, .vec [], [])
  | .mapObj fields, some (.map es) => let r := loadMapElems ("/" ++ f.key) fields es; (true, .map r.1, r.2)
  | .mapObj _, _ => (false, .map [], [])

def seenField : FieldVal → Seen
  | .leaf v => seenLeaf v
  | .obj _ => ⟨0, 0⟩
  | .vec l => ⟨0, l.length⟩
  | .map l => ⟨0, l.length⟩

/-- the whole load of the root object (never interrupted): values and the trace of reported failures -/
def loadRoot (cls : List Field) (entries : List (Val × Val)) : List FieldVal × List (String × String) :=
  let rs := cls.map fun f =>
    let r := loadField f (lookup entries f.key)
    (r.2.1, r.2.2 ++ visitArgs ("/" ++ f.key) f.validators (seenField r.2.1) r.1)
  (rs.map (·.1), (rs.map (·.2)).flatten)

inductive Outcome where
  | ok (state : List FieldVal)
  | validation (errors : ErrMap) (state : Option (List FieldVal))    -- state = none: thrown before the load ended
  deriving DecidableEq

/-- `LoadObject`: load; `OnFinishSerialization` throws when the map is not empty. A root value that is not an
    object is not loaded at all (no field is visited, no validator runs). -/
def loadClass (cap : Nat) (cls : List Field) (doc : Val) : Outcome :=
  match doc with
  | .map es =>
    let r := loadRoot cls es
    match runEvents cap [] r.2 with
    | .error m => .validation m none
    | .ok m => if m.isEmpty then .ok r.1 else .validation m (some r.1)
  | _ => .ok (cls.map fun f => (loadField f none).2.1)

/-! ### MismatchedTypesPolicy::ThrowError (`val.loadt`)

  The policy is consulted only where a value cannot be loaded into its target: under ThrowError the archive (or
  `ConvertByPolicy`, for an enum name that is not registered) throws SerializationException(MismatchedTypes) instead of
  answering "not loaded". Nil is never a mismatch (the reader answers "not loaded" before it looks at the policy), neither
  is an absent key. The exception leaves the load at once — the validators of the field being loaded are not called, the
  errors collected so far are dropped with the context. So the load is modelled by the trace UP TO the first mismatched
  value (`…Cut`, second component: was a mismatch met); a load that meets no mismatch is the Skip load. -/

def notNil : Val → Bool
  | .sc .nil => false
  | _ => true

/-- does `Serialize(scope, key, member)` of a leaf throw MismatchedTypes under ThrowError -/
def leafThrows : Leaf → Option Val → Bool
  | _, none => false
  | .vecInt, some (.arr items) =>        -- each element is read as int64: nil leaves the element alone
    items.any fun it => match it with
      | .sc (.int _) => false
      | .sc .nil => false
      | _ => true
  | k, some v => notNil v && !(loadLeaf k (some v)).1

def flatCut (pfx : String) : List LeafField → List (Val × Val) → List (String × String) × Bool
  | [], _ => ([], false)
  | f :: fs, entries =>
    let v := lookup entries f.key
    if leafThrows f.kind v then ([], true)
    else
      let r := loadLeaf f.kind v
      let rest := flatCut pfx fs entries
      (visitArgs (pfx ++ "/" ++ f.key) f.validators (seenLeaf r.2) r.1 ++ rest.1, rest.2)

def vecCut (pfx : String) (fields : List LeafField) : Nat → List Val → List (String × String) × Bool
  | _, [] => ([], false)
  | j, it :: its =>
    match it with
    | .map es =>
      let c := flatCut (pfx ++ "/" ++ toString (j + 1)) fields es
      if c.2 then c
      else
        let rest := vecCut pfx fields (j + 1) its
        (c.1 ++ rest.1, rest.2)
    | .sc .nil => vecCut pfx fields (j + 1) its
    | _ => ([], true)

def mapCut (pfx : String) (fields : List LeafField) : List (Val × Val) → List (String × String) × Bool
  | [] => ([], false)
  | e :: es =>
    match e.1 with
    | .sc (.str k) =>
      match e.2 with
      | .map es' =>
        let c := flatCut (pfx ++ "/" ++ keyString k) fields es'
        if c.2 then c
        else
          let rest := mapCut pfx fields es
          (c.1 ++ rest.1, rest.2)
      | .sc .nil => mapCut pfx fields es
      | _ => ([], true)
    | _ => mapCut pfx fields es          -- keys that are not strings: outside the documents the ops generate

def strKeyCount (es : List (Val × Val)) : Nat :=
  (es.filter fun e => match e.1 with | .sc (.str _) => true | _ => false).length

/-- one field of the root class: the trace up to the first mismatch inside it, the field's own validators last -/
def fieldCut (f : Field) (v : Option Val) : List (String × String) × Bool :=
  let p := "/" ++ f.key
  let own (c : List (String × String) × Bool) (seen : Seen) (loaded : Bool) : List (String × String) × Bool :=
    if c.2 then c else (c.1 ++ visitArgs p f.validators seen loaded, false)
  match f.kind, v with
  | .leaf k, v =>
    if leafThrows k v then ([], true)
    else let r := loadLeaf k v; own ([], false) (seenLeaf r.2) r.1
  | .obj fields, some (.map es) => own (flatCut p fields es) ⟨0, 0⟩ true
  | .vecObj fields, some (.arr items) => own (vecCut p fields 0 items) ⟨0, items.length⟩ true
  | .mapObj fields, some (.map es) => own (mapCut p fields es) ⟨0, strKeyCount es⟩ true
  | _, none => own ([], false) ⟨0, 0⟩ false
  | _, some v => if notNil v then ([], true) else own ([], false) ⟨0, 0⟩ false

def rootCut : List Field → List (Val × Val) → List (String × String) × Bool
  | [], _ => ([], false)
  | f :: fs, es =>
    let c := fieldCut f (lookup es f.key)
    if c.2 then c
    else
      let rest := rootCut fs es
      (c.1 ++ rest.1, rest.2)

inductive OutcomeT where
  | done (o : Outcome)          -- no SerializationException: what `loadClass` describes
  | mismatched                  -- SerializationException(MismatchedTypes)
  deriving DecidableEq

/-- `LoadObject` under ThrowError. A mismatch is met: the validation errors reported before it may already have reached
    the cap (ValidationException from `AddValidationError`), otherwise MismatchedTypes. No mismatch: the Skip load. -/
def loadClassT (cap : Nat) (cls : List Field) (doc : Val) : OutcomeT :=
  match doc with
  | .map es =>
    let c := rootCut cls es
    if c.2 then
      match runEvents cap [] c.1 with
      | .error m => .done (.validation m none)
      | .ok _ => .mismatched
    else .done (loadClass cap cls doc)
  | .sc .nil => .done (loadClass cap cls doc)
  | _ => .mismatched

end BSVerif.Valid
