/-
  Helper lemmas for C17: the model's trace equals the Spec's failing list; the error-map machine in closed form.
-/
import BSVerif.Valid.Model
import BSVerif.Valid.Spec

namespace BSVerif.Valid
open BSVerif.Scope BSVerif.Scope.Spec

/-- every validator of the model rejects exactly when the documented semantics says so, with the documented message -/
theorem check_eq (v : Validator) (seen : Seen) (loaded : Bool) :
    v.check seen loaded = if Spec.fails v seen loaded then some (Spec.message v) else none := by
  cases v with
  | required msg => cases loaded <;> simp [Validator.check, Spec.fails, Spec.message, requiredDefault]
  | range lo hi msg =>
    cases loaded
    · simp [Validator.check, Spec.fails]
    · simp only [Validator.check, Spec.fails, Spec.message, Bool.not_true, Bool.false_eq_true, if_false, Bool.true_and]
      by_cases h : seen.int < lo ∨ seen.int > hi
      · have : ¬ (lo ≤ seen.int ∧ seen.int ≤ hi) := by omega
        simp [h, toString]
      · have : (lo ≤ seen.int ∧ seen.int ≤ hi) := by omega
        simp [h, this]
  | minSize n msg =>
    cases loaded
    · simp [Validator.check, Spec.fails]
    · simp only [Validator.check, Spec.fails, Spec.message, Bool.not_true, Bool.false_eq_true, if_false, Bool.true_and]
      by_cases h : seen.size ≥ n
      · have : ¬ seen.size < n := by omega
        simp [h, this]
      · have : seen.size < n := by omega
        simp [h, this, toString]
  | maxSize n msg =>
    cases loaded
    · simp [Validator.check, Spec.fails]
    · simp only [Validator.check, Spec.fails, Spec.message, Bool.not_true, Bool.false_eq_true, if_false, Bool.true_and]
      by_cases h : seen.size ≤ n
      · have : ¬ n < seen.size := by omega
        simp [h, this]
      · have : n < seen.size := by omega
        simp [h, this, toString]
  | verdict pass msg => cases loaded <;> cases pass <;> simp [Validator.check, Spec.fails, Spec.message]
  | custom f msg =>
    simp only [Validator.check, Spec.fails, Spec.message]
    by_cases h : f seen loaded = true <;> simp [h]

/-! ### the model's trace is the Spec's failing list, flattened -/

def flattenFailing (l : List (String × List String)) : List (String × String) :=
  l.flatMap fun e => e.2.map fun m => (e.1, m)

def occTrace (os : List Spec.Occ) : List (String × String) :=
  os.flatMap fun o => (Spec.occMessages o).map fun m => (o.path, m)

theorem occTrace_append (a b : List Spec.Occ) : occTrace (a ++ b) = occTrace a ++ occTrace b := by
  simp [occTrace]

theorem occTrace_nil : occTrace [] = [] := rfl

theorem visitArgs_msgs (path : String) (vs : List Validator) (seen : Seen) (loaded : Bool) :
    visitArgs path vs seen loaded
      = ((vs.filter fun v => Spec.fails v seen loaded).map Spec.message).map fun m => (path, m) := by
  unfold visitArgs
  induction vs with
  | nil => rfl
  | cons v vs ih =>
    rw [List.filterMap_cons, check_eq, List.filter_cons]
    by_cases h : Spec.fails v seen loaded = true
    · simp only [h, if_true, Option.map_some, List.map_cons]
      rw [ih]
    · simp only [h, Bool.false_eq_true, if_false, Option.map_none]
      rw [ih]

theorem visitArgs_eq (path : String) (vs : List Validator) (seen : Seen) (loaded : Bool) :
    visitArgs path vs seen loaded = occTrace [⟨path, vs, seen, loaded⟩] := by
  rw [visitArgs_msgs]
  simp [occTrace, Spec.occMessages]

theorem flatten_failing (os : List Spec.Occ) :
    flattenFailing (os.filterMap fun o => let ms := Spec.occMessages o; if ms.isEmpty then none else some (o.path, ms)) = occTrace os := by
  induction os with
  | nil => rfl
  | cons o os ih =>
    rw [List.filterMap_cons]
    by_cases h : (Spec.occMessages o).isEmpty = true
    · have h' : Spec.occMessages o = [] := by simpa using h
      simp only [h, if_true]
      rw [ih]
      simp [occTrace, h']
    · simp only [h, Bool.false_eq_true, if_false]
      simp only [flattenFailing, occTrace, List.flatMap_cons] at ih ⊢
      rw [ih]

theorem intOr0_eq (it : Val) : intOr0 it = (match it with | .sc (.int v) => v | _ => 0) := by
  cases it with
  | sc t => cases t <;> rfl
  | arr => rfl
  | map => rfl

/-! ### the enum table scan is "equal up to letter case" -/

theorem toLowerC_eq (c : Nat) : toLowerC c = (if 65 ≤ c ∧ c ≤ 90 then c + 32 else c) := rfl

theorem charsMatch_iff (r s : List Nat) (h : r.length = s.length) :
    charsMatch r s = true ↔ Spec.foldCase r = Spec.foldCase s := by
  induction r generalizing s with
  | nil =>
    cases s with
    | nil => simp [charsMatch, Spec.foldCase]
    | cons b bs => simp at h
  | cons a as ih =>
    cases s with
    | nil => simp at h
    | cons b bs =>
      have hl : as.length = bs.length := by simpa using h
      have ih' := ih bs hl
      simp only [Spec.foldCase] at ih'
      simp only [charsMatch, Spec.foldCase, List.map_cons, List.cons.injEq]
      by_cases hc : toLowerC a = toLowerC b
      · simp only [hc, bne_self_eq_false, Bool.false_eq_true, if_false]
        rw [ih']
        simp only [toLowerC] at hc
        simp [hc]
      · have hne : (toLowerC a != toLowerC b) = true := by simpa using hc
        simp only [hne, if_true, Bool.false_eq_true, false_iff]
        intro h'
        exact hc h'.1

theorem foldCase_length (s : List Nat) : (Spec.foldCase s).length = s.length := by simp [Spec.foldCase]

/-- the code's scan (size test, then the characters through `tolower`) finds the first name that equals the string up to
    letter case -/
theorem findEnum_eq (names : List (List Nat)) (i : Nat) (s : List Nat) :
    findEnum names i s = (names.findIdx? fun n => Spec.foldCase n == Spec.foldCase s).map (· + i) := by
  induction names generalizing i with
  | nil => rfl
  | cons r rs ih =>
    rw [List.findIdx?_cons]
    simp only [findEnum]
    by_cases hl : r.length = s.length
    · have hl' : (r.length == s.length) = true := by simpa using hl
      simp only [hl', if_true]
      by_cases hm : charsMatch r s = true
      · have := (charsMatch_iff r s hl).mp hm
        simp [hm, this]
      · have hf : ¬ Spec.foldCase r = Spec.foldCase s := fun h => hm ((charsMatch_iff r s hl).mpr h)
        have hb : (Spec.foldCase r == Spec.foldCase s) = false := by simpa using hf
        simp only [hm, Bool.false_eq_true, if_false, hb]
        rw [ih (i + 1), Option.map_map]
        congr 1
        funext x
        simp only [Function.comp]
        omega
    · have hl' : (r.length == s.length) = false := by simpa using hl
      have hf : ¬ Spec.foldCase r = Spec.foldCase s := by
        intro h
        apply hl
        rw [← foldCase_length r, ← foldCase_length s, h]
      have hb : (Spec.foldCase r == Spec.foldCase s) = false := by simpa using hf
      simp only [hl', Bool.false_eq_true, if_false, hb]
      rw [ih (i + 1), Option.map_map]
      congr 1
      funext x
      simp only [Function.comp]
      omega

theorem findEnum_registered (s : List Nat) : findEnum enumNames 0 s = Spec.registered s := by
  rw [findEnum_eq]
  simp [Spec.registered]

theorem loadLeaf_view (k : Leaf) (v : Option Val) :
    (loadLeaf k v).1 = (Spec.leafView k v).1 ∧ seenLeaf (loadLeaf k v).2 = (Spec.leafView k v).2 ∧
    (loadLeaf k v).2 = Spec.leafState k v := by
  cases k <;> cases v with
  | none => simp [loadLeaf, Spec.leafView, Spec.leafState, seenLeaf]
  | some v =>
    cases v with
    | sc t =>
      cases t <;> simp [loadLeaf, Spec.leafView, Spec.leafState, seenLeaf]
      all_goals
        rw [findEnum_registered]
        cases Spec.registered _ <;> simp
    | arr items =>
      simp [loadLeaf, Spec.leafView, Spec.leafState, seenLeaf]
      try exact fun a _ => intOr0_eq a
    | map es => simp [loadLeaf, Spec.leafView, Spec.leafState, seenLeaf]

theorem lookup_eq (entries : List (Val × Val)) (key : String) : lookup entries key = Spec.valueAt entries key := by
  unfold lookup Spec.valueAt
  congr 2

theorem defaultFlat_eq (fields : List LeafField) : defaultFlat fields = Spec.flatState fields [] := by
  simp only [defaultFlat, Spec.flatState, Spec.valueAt, List.find?_nil, Option.map_none]
  apply List.map_congr_left
  intro f _
  exact (loadLeaf_view f.kind none).2.2

theorem loadFlat_spec (pfx : String) (fields : List LeafField) (entries : List (Val × Val)) :
    (loadFlat pfx fields entries).1 = Spec.flatState fields entries ∧
    (loadFlat pfx fields entries).2 = occTrace (Spec.flatOccs pfx fields entries) := by
  induction fields with
  | nil => exact ⟨rfl, rfl⟩
  | cons f fields ih =>
    obtain ⟨ih1, ih2⟩ := ih
    simp only [loadFlat, Spec.flatState, Spec.flatOccs, List.map_cons, List.flatten_cons] at ih1 ih2 ⊢
    obtain ⟨h1, h2, h3⟩ := loadLeaf_view f.kind (lookup entries f.key)
    refine ⟨?_, ?_⟩
    · rw [ih1, h3, lookup_eq]
    · rw [ih2, visitArgs_eq, h1, h2, lookup_eq]
      rw [show ({ path := pfx ++ "/" ++ f.key, validators := f.validators, seen := (Spec.leafView f.kind (Spec.valueAt entries f.key)).2,
                  loaded := (Spec.leafView f.kind (Spec.valueAt entries f.key)).1 } : Spec.Occ) :: List.map _ fields
            = [_] ++ List.map _ fields from rfl, occTrace_append]

theorem loadVecElems_spec (pfx : String) (fields : List LeafField) (j : Nat) (items : List Val) :
    (loadVecElems pfx fields j items).1 = items.map (fun it => match it with
      | .map es => Spec.flatState fields es
      | _ => Spec.flatState fields []) ∧
    (loadVecElems pfx fields j items).2 = occTrace ((items.zipIdx j).flatMap fun it => match it.1 with
      | .map es => Spec.flatOccs (pfx ++ "/" ++ toString (it.2 + 1)) fields es
      | _ => []) := by
  induction items generalizing j with
  | nil => exact ⟨rfl, rfl⟩
  | cons it items ih =>
    obtain ⟨ih1, ih2⟩ := ih (j + 1)
    simp only [loadVecElems, List.map_cons, List.zipIdx_cons, List.flatMap_cons, occTrace_append]
    rw [ih1, ih2]
    cases it with
    | map es => exact ⟨by rw [(loadFlat_spec _ fields es).1], by rw [(loadFlat_spec _ fields es).2]⟩
    | sc t => exact ⟨by rw [defaultFlat_eq], by simp [occTrace_nil]⟩
    | arr l => exact ⟨by rw [defaultFlat_eq], by simp [occTrace_nil]⟩

def isStrKey (e : Val × Val) : Bool := match e.1 with | .sc (.str _) => true | _ => false

theorem loadMapElems_spec (pfx : String) (fields : List LeafField) (es : List (Val × Val)) :
    (loadMapElems pfx fields es).1 = (es.filterMap fun e => match e.1 with
      | .sc (.str k) => some (k, match e.2 with | .map es' => Spec.flatState fields es' | _ => Spec.flatState fields [])
      | _ => none) ∧
    (loadMapElems pfx fields es).2 = occTrace ((es.filter isStrKey).flatMap fun e => match e.1, e.2 with
      | .sc (.str k), .map es' => Spec.flatOccs (pfx ++ "/" ++ String.ofList (k.map Char.ofNat)) fields es'
      | _, _ => []) ∧
    (loadMapElems pfx fields es).1.length = (es.filter isStrKey).length := by
  induction es with
  | nil => exact ⟨rfl, rfl, rfl⟩
  | cons e es ih =>
    obtain ⟨ih1, ih2, ih3⟩ := ih
    obtain ⟨k, v⟩ := e
    cases k with
    | sc t =>
      cases t with
      | str s =>
        simp only [loadMapElems, List.filterMap_cons, List.filter_cons, isStrKey, if_true, List.flatMap_cons, occTrace_append,
          List.length_cons]
        rw [ih1] at ih3
        rw [ih1, ih2]
        cases v with
        | map es' =>
          exact ⟨by rw [(loadFlat_spec _ fields es').1], by rw [(loadFlat_spec _ fields es').2]; rfl, by rw [ih3]⟩
        | sc t => exact ⟨by rw [defaultFlat_eq], by simp [occTrace_nil], by rw [ih3]⟩
        | arr l => exact ⟨by rw [defaultFlat_eq], by simp [occTrace_nil], by rw [ih3]⟩
      | nil => simpa [loadMapElems, isStrKey] using ⟨ih1, ih2, ih3⟩
      | bool b => simpa [loadMapElems, isStrKey] using ⟨ih1, ih2, ih3⟩
      | int b => simpa [loadMapElems, isStrKey] using ⟨ih1, ih2, ih3⟩
      | flt b => simpa [loadMapElems, isStrKey] using ⟨ih1, ih2, ih3⟩
      | bin b => simpa [loadMapElems, isStrKey] using ⟨ih1, ih2, ih3⟩
      | arr b => simpa [loadMapElems, isStrKey] using ⟨ih1, ih2, ih3⟩
      | map b => simpa [loadMapElems, isStrKey] using ⟨ih1, ih2, ih3⟩
      | ext a b => simpa [loadMapElems, isStrKey] using ⟨ih1, ih2, ih3⟩
      | ts a b => simpa [loadMapElems, isStrKey] using ⟨ih1, ih2, ih3⟩
    | arr l => simpa [loadMapElems, isStrKey] using ⟨ih1, ih2, ih3⟩
    | map l => simpa [loadMapElems, isStrKey] using ⟨ih1, ih2, ih3⟩

theorem loadField_spec (f : Field) (v : Option Val) :
    (loadField f v).2.1 = Spec.fieldState f v ∧
    (loadField f v).2.2 ++ visitArgs ("/" ++ f.key) f.validators (seenField (loadField f v).2.1) (loadField f v).1
      = occTrace (Spec.fieldOccs f v) := by
  obtain ⟨key, kind, vs⟩ := f
  cases kind with
  | leaf k =>
    obtain ⟨h1, h2, h3⟩ := loadLeaf_view k v
    simp only [loadField, Spec.fieldState, Spec.fieldOccs, seenField, List.nil_append]
    exact ⟨by rw [h3], by rw [visitArgs_eq, h1, h2]⟩
  | obj fields =>
    cases v with
    | none => exact ⟨by simp [loadField, Spec.fieldState, defaultFlat_eq], by simp [loadField, Spec.fieldOccs, visitArgs_eq, seenField]⟩
    | some v =>
      cases v with
      | sc t => exact ⟨by simp [loadField, Spec.fieldState, defaultFlat_eq], by simp [loadField, Spec.fieldOccs, visitArgs_eq, seenField]⟩
      | arr l => exact ⟨by simp [loadField, Spec.fieldState, defaultFlat_eq], by simp [loadField, Spec.fieldOccs, visitArgs_eq, seenField]⟩
      | map es =>
        obtain ⟨h1, h2⟩ := loadFlat_spec ("/" ++ key) fields es
        simp only [loadField, Spec.fieldState, Spec.fieldOccs, seenField, occTrace_append]
        exact ⟨by rw [h1], by rw [h2, visitArgs_eq]⟩
  | vecObj fields =>
    cases v with
    | none => exact ⟨by simp [loadField, Spec.fieldState], by simp [loadField, Spec.fieldOccs, visitArgs_eq, seenField]⟩
    | some v =>
      cases v with
      | sc t => exact ⟨by simp [loadField, Spec.fieldState], by simp [loadField, Spec.fieldOccs, visitArgs_eq, seenField]⟩
      | map l => exact ⟨by simp [loadField, Spec.fieldState], by simp [loadField, Spec.fieldOccs, visitArgs_eq, seenField]⟩
      | arr items =>
        obtain ⟨h1, h2⟩ := loadVecElems_spec ("/" ++ key) fields 0 items
        simp only [loadField, Spec.fieldState, Spec.fieldOccs, seenField, occTrace_append]
        refine ⟨by rw [h1]; rfl, ?_⟩
        rw [h2, visitArgs_eq, h1]
        simp only [List.length_map]
        rfl
  | mapObj fields =>
    cases v with
    | none => exact ⟨by simp [loadField, Spec.fieldState], by simp [loadField, Spec.fieldOccs, visitArgs_eq, seenField]⟩
    | some v =>
      cases v with
      | sc t => exact ⟨by simp [loadField, Spec.fieldState], by simp [loadField, Spec.fieldOccs, visitArgs_eq, seenField]⟩
      | arr l => exact ⟨by simp [loadField, Spec.fieldState], by simp [loadField, Spec.fieldOccs, visitArgs_eq, seenField]⟩
      | map es =>
        obtain ⟨h1, h2, h3⟩ := loadMapElems_spec ("/" ++ key) fields es
        simp only [loadField, Spec.fieldState, Spec.fieldOccs, seenField, occTrace_append]
        refine ⟨by rw [h1]; rfl, ?_⟩
        rw [h2, visitArgs_eq, h3]
        rfl

theorem occTrace_flatMap {β : Type} (l : List β) (g : β → List Spec.Occ) :
    occTrace (l.flatMap g) = l.flatMap fun x => occTrace (g x) := by
  induction l with
  | nil => rfl
  | cons x l ih => simp [List.flatMap_cons, occTrace_append, ih]

/-- **the model's trace is the Spec's failing list**, and the loaded values are the document's values -/
theorem loadRoot_spec (cls : List Field) (es : List (Val × Val)) :
    (loadRoot cls es).1 = Spec.expectedState cls (.map es) ∧
    (loadRoot cls es).2 = flattenFailing (Spec.failing cls (.map es)) := by
  unfold Spec.failing
  rw [flatten_failing]
  simp only [Spec.occs, Spec.expectedState, occTrace_flatMap, loadRoot]
  induction cls with
  | nil => exact ⟨rfl, rfl⟩
  | cons f cls ih =>
    obtain ⟨h1, h2⟩ := loadField_spec f (lookup es f.key)
    simp only [List.map_cons, List.flatten_cons, List.flatMap_cons]
    rw [ih.1, ih.2, h2, h1, lookup_eq]
    exact ⟨rfl, rfl⟩

/-! ### the error map machine -/

def paths (m : ErrMap) : List String := m.map (·.1)

theorem any_path_false (m : ErrMap) (p : String) (h : p ∉ paths m) : (m.any fun e => e.1 == p) = false := by
  induction m with
  | nil => rfl
  | cons e m ih =>
    simp only [paths, List.map_cons, List.mem_cons, not_or] at h
    simp only [List.any_cons, Bool.or_eq_false_iff]
    refine ⟨?_, ih h.2⟩
    simp only [beq_eq_false_iff_ne, ne_eq]
    exact fun h' => h.1 h'.symm

theorem add_new (m : ErrMap) (p msg : String) (h : p ∉ paths m) : m.add p msg = m ++ [(p, [msg])] := by
  simp [ErrMap.add, any_path_false m p h]

theorem map_other (m : ErrMap) (p msg : String) (h : p ∉ paths m) :
    (m.map fun e => if e.1 == p then (e.1, e.2 ++ [msg]) else e) = m := by
  induction m with
  | nil => rfl
  | cons e m ih =>
    simp only [paths, List.map_cons, List.mem_cons, not_or] at h
    have : (e.1 == p) = false := by simp only [beq_eq_false_iff_ne, ne_eq]; exact fun h' => h.1 h'.symm
    simp only [List.map_cons, this, Bool.false_eq_true, if_false]
    rw [ih h.2]

theorem add_last (m : ErrMap) (p : String) (xs : List String) (msg : String) (h : p ∉ paths m) :
    (m ++ [(p, xs)]).add p msg = m ++ [(p, xs ++ [msg])] := by
  have hany : ((m ++ [(p, xs)]).any fun e => e.1 == p) = true := by simp
  unfold ErrMap.add
  rw [if_pos hany, List.map_append, map_other m p msg h]
  simp

theorem add_ne_nil (m : ErrMap) (p msg : String) : m.add p msg ≠ [] := by
  unfold ErrMap.add
  split
  · rename_i h
    cases m with
    | nil => simp at h
    | cons => simp
  · simp

theorem runEvents_ok_ne_nil (cap : Nat) (m : ErrMap) (evs : List (String × String)) (m' : ErrMap)
    (h : runEvents cap m evs = .ok m') (hne : m ≠ [] ∨ evs ≠ []) : m' ≠ [] := by
  induction evs generalizing m with
  | nil =>
    simp only [runEvents, Except.ok.injEq] at h
    rcases hne with h1 | h1
    · exact h ▸ h1
    · exact absurd rfl h1
  | cons e evs ih =>
    simp only [runEvents, addError] at h
    split at h
    · rename_i m2 heq
      split at heq
      · simp at heq
      · simp only [Except.ok.injEq] at heq
        exact ih m2 h (Or.inl (heq ▸ add_ne_nil m e.1 e.2))
    · simp at h

theorem runEvents_zero (m : ErrMap) (evs : List (String × String)) :
    runEvents 0 m evs = .ok (evs.foldl (fun m e => m.add e.1 e.2) m) := by
  induction evs generalizing m with
  | nil => rfl
  | cons e evs ih => simp [runEvents, addError, ih]

/-- the remaining messages of the field that is being reported are appended without reaching the cap -/
theorem runEvents_msgs (n : Nat) (m : ErrMap) (p : String) (xs rest : List String) (tail : List (String × String))
    (hp : p ∉ paths m) (hn : n = 0 ∨ m.length + 1 ≠ n) :
    runEvents n (m ++ [(p, xs)]) (rest.map (fun msg => (p, msg)) ++ tail) = runEvents n (m ++ [(p, xs ++ rest)]) tail := by
  induction rest generalizing xs with
  | nil => simp
  | cons msg rest ih =>
    simp only [List.map_cons, List.cons_append, runEvents, addError, add_last m p xs msg hp]
    have : ¬ (n > 0 ∧ n = (m ++ [(p, xs ++ [msg])]).length) := by simp; omega
    simp only [this, if_false]
    rw [ih (xs ++ [msg])]
    simp

/-- **closed form of the capped collection** -/
theorem run_failing (n : Nat) (l : List (String × List String)) (m : ErrMap)
    (hnd : (paths m ++ l.map (·.1)).Nodup) (hne : ∀ e ∈ l, e.2 ≠ []) (hm : n = 0 ∨ m.length < n) :
    if n = 0 ∨ m.length + l.length < n then runEvents n m (flattenFailing l) = .ok (m ++ l)
    else ∃ p msg rest, l[n - 1 - m.length]? = some (p, msg :: rest) ∧
      runEvents n m (flattenFailing l) = .error (m ++ l.take (n - 1 - m.length) ++ [(p, [msg])]) := by
  induction l generalizing m with
  | nil =>
    have : n = 0 ∨ m.length + ([] : List (String × List String)).length < n := by simpa using hm
    simp only [this, if_true]
    simp [flattenFailing, runEvents]
  | cons e l ih =>
    obtain ⟨p, ms⟩ := e
    cases ms with
    | nil => exact absurd rfl (hne (p, []) (by simp))
    | cons msg rest =>
      have hp : p ∉ paths m := by
        intro hin
        rw [List.nodup_append] at hnd
        exact hnd.2.2 p hin p (by simp) rfl
      have hflat : flattenFailing ((p, msg :: rest) :: l)
          = (p, msg) :: (rest.map (fun x => (p, x)) ++ flattenFailing l) := by
        simp [flattenFailing]
      rw [hflat]
      simp only [runEvents, addError, add_new m p msg hp]
      by_cases hcap : n > 0 ∧ n = (m ++ [(p, [msg])]).length
      · -- the cap is reached by the first message of this field
        have hlen : n = m.length + 1 := by simpa using hcap.2
        have hc : ¬ (n = 0 ∨ m.length + ((p, msg :: rest) :: l).length < n) := by simp; omega
        rw [if_neg hc, if_pos hcap]
        refine ⟨p, msg, rest, ?_, ?_⟩
        · have : n - 1 - m.length = 0 := by omega
          simp [this]
        · have : n - 1 - m.length = 0 := by omega
          simp [this]
      · rw [if_neg hcap]
        have hn' : n = 0 ∨ m.length + 1 ≠ n := by
          rcases hm with h | h
          · exact Or.inl h
          · right; intro h'; exact hcap ⟨by omega, by simp; omega⟩
        rw [show m ++ [(p, [msg])] = m ++ [(p, ([] : List String) ++ [msg])] from rfl] at *
        dsimp only
        rw [runEvents_msgs n m p ([] ++ [msg]) rest (flattenFailing l) hp hn']
        have hm2 : n = 0 ∨ (m ++ [(p, msg :: rest)]).length < n := by
          rcases hm with h | h
          · exact Or.inl h
          · right; simp; rcases hn' with h0 | h1 <;> omega
        have hnd2 : (paths (m ++ [(p, msg :: rest)]) ++ l.map (·.1)).Nodup := by
          simpa [paths, List.append_assoc] using hnd
        have := ih (m ++ [(p, msg :: rest)]) hnd2 (fun e he => hne e (List.mem_cons_of_mem _ he)) hm2
        simp only [List.nil_append, List.singleton_append]
        by_cases hc : n = 0 ∨ m.length + ((p, msg :: rest) :: l).length < n
        · have hc2 : n = 0 ∨ (m ++ [(p, msg :: rest)]).length + l.length < n := by
            rcases hc with h | h
            · exact Or.inl h
            · right; simp at h ⊢; omega
          simp only [hc, if_true]
          simp only [hc2, if_true] at this
          rw [this]; simp
        · have hc2 : ¬ (n = 0 ∨ (m ++ [(p, msg :: rest)]).length + l.length < n) := by
            intro h; apply hc
            rcases h with h | h
            · exact Or.inl h
            · right; simp at h ⊢; omega
          simp only [hc, if_false]
          simp only [hc2, if_false] at this
          obtain ⟨p', msg', rest', h1, h2⟩ := this
          have hidx : n - 1 - m.length = (n - 1 - (m ++ [(p, msg :: rest)]).length) + 1 := by
            simp at hc hm2 ⊢
            rcases hm2 with h | h
            · omega
            · omega
          refine ⟨p', msg', rest', ?_, ?_⟩
          · rw [hidx]; simpa using h1
          · rw [h2, hidx]; simp

/-! ### ThrowError: the trace up to the first mismatched value -/

/-- what a list of visited fields with mismatch markers means: the reports of the fields before the first marker, and
    whether there is a marker -/
def cutTrace : List (Option Spec.Occ) → List (String × String) × Bool
  | [] => ([], false)
  | none :: _ => ([], true)
  | some o :: r => (occTrace [o] ++ (cutTrace r).1, (cutTrace r).2)

theorem cutTrace_append (a b : List (Option Spec.Occ)) :
    cutTrace (a ++ b) = if (cutTrace a).2 then cutTrace a else ((cutTrace a).1 ++ (cutTrace b).1, (cutTrace b).2) := by
  induction a with
  | nil => simp [cutTrace]
  | cons x a ih =>
    cases x with
    | none => simp [cutTrace]
    | some o =>
      simp only [List.cons_append, cutTrace, ih]
      by_cases h : (cutTrace a).2 = true
      · simp [h]
      · simp [h]

theorem cutTrace_snoc (a : List (Option Spec.Occ)) (o : Spec.Occ) :
    cutTrace (a ++ [some o]) = if (cutTrace a).2 then cutTrace a else ((cutTrace a).1 ++ occTrace [o], false) := by
  rw [cutTrace_append]
  simp [cutTrace]

theorem cutTrace_spec (l : List (Option Spec.Occ)) :
    cutTrace l = (occTrace ((l.takeWhile Option.isSome).filterMap id), l.any Option.isNone) := by
  induction l with
  | nil => rfl
  | cons x l ih =>
    cases x with
    | none => simp [cutTrace, occTrace_nil]
    | some o =>
      simp only [cutTrace, ih, List.takeWhile_cons, Option.isSome_some, if_true, List.filterMap_cons, id, List.any_cons,
        Option.isNone_some, Bool.false_or]
      rw [show o :: List.filterMap id (List.takeWhile Option.isSome l) = [o] ++ List.filterMap id (List.takeWhile Option.isSome l) from rfl,
        occTrace_append]

theorem leafThrows_eq (k : Leaf) (v : Option Val) : leafThrows k v = Spec.leafMismatch k v := by
  cases v with
  | none => cases k <;> rfl
  | some v =>
    have h := (loadLeaf_view k (some v)).1
    cases k <;> cases v with
    | sc t => cases t <;> simp [leafThrows, Spec.leafMismatch, notNil, Spec.isNil, h]
    | arr items =>
      simp [leafThrows, Spec.leafMismatch, notNil, Spec.isNil, h]
      all_goals
        refine congrArg (List.any items) (funext fun it => ?_)
        cases it with
        | sc t => cases t <;> rfl
        | arr l => rfl
        | map l => rfl
    | map es => simp [leafThrows, Spec.leafMismatch, notNil, Spec.isNil, h]

theorem flatCut_spec (pfx : String) (fields : List LeafField) (entries : List (Val × Val)) :
    flatCut pfx fields entries = cutTrace (Spec.flatOccsT pfx fields entries) := by
  induction fields with
  | nil => rfl
  | cons f fields ih =>
    simp only [flatCut, Spec.flatOccsT, List.map_cons] at ih ⊢
    rw [leafThrows_eq, lookup_eq]
    by_cases hm : Spec.leafMismatch f.kind (Spec.valueAt entries f.key) = true
    · simp [hm, cutTrace]
    · obtain ⟨h1, h2, _⟩ := loadLeaf_view f.kind (Spec.valueAt entries f.key)
      simp only [hm, Bool.false_eq_true, if_false, cutTrace]
      rw [ih, visitArgs_eq, h1, h2]

theorem vecCut_spec (pfx : String) (fields : List LeafField) (j : Nat) (items : List Val) :
    vecCut pfx fields j items = cutTrace ((items.zipIdx j).flatMap fun it => match it.1 with
      | .map es => Spec.flatOccsT (pfx ++ "/" ++ toString (it.2 + 1)) fields es
      | .sc .nil => []
      | _ => [none]) := by
  induction items generalizing j with
  | nil => rfl
  | cons it items ih =>
    simp only [vecCut, List.zipIdx_cons, List.flatMap_cons, cutTrace_append]
    cases it with
    | map es => simp only [flatCut_spec, ih (j + 1)]
    | arr l => simp [cutTrace]
    | sc t =>
      cases t <;> simp [cutTrace]
      exact ih (j + 1)

theorem mapCut_spec (pfx : String) (fields : List LeafField) (es : List (Val × Val)) :
    mapCut pfx fields es = cutTrace ((es.filter isStrKey).flatMap fun e => match e.1, e.2 with
      | .sc (.str k), .map es' => Spec.flatOccsT (pfx ++ "/" ++ String.ofList (k.map Char.ofNat)) fields es'
      | _, .sc .nil => []
      | _, _ => [none]) := by
  induction es with
  | nil => rfl
  | cons e es ih =>
    obtain ⟨k, v⟩ := e
    cases k with
    | sc t =>
      cases t with
      | str s =>
        simp only [mapCut, List.filter_cons, isStrKey, if_true, List.flatMap_cons, cutTrace_append]
        cases v with
        | map es' => simp only [flatCut_spec, ih]; rfl
        | arr l => simp [cutTrace]
        | sc t =>
          cases t <;> simp [cutTrace]
          exact ih
      | nil => simpa [mapCut, isStrKey] using ih
      | bool b => simpa [mapCut, isStrKey] using ih
      | int b => simpa [mapCut, isStrKey] using ih
      | flt b => simpa [mapCut, isStrKey] using ih
      | bin b => simpa [mapCut, isStrKey] using ih
      | arr b => simpa [mapCut, isStrKey] using ih
      | map b => simpa [mapCut, isStrKey] using ih
      | ext a b => simpa [mapCut, isStrKey] using ih
      | ts a b => simpa [mapCut, isStrKey] using ih
    | arr l => simpa [mapCut, isStrKey] using ih
    | map l => simpa [mapCut, isStrKey] using ih

theorem fieldCut_spec (f : Field) (v : Option Val) : fieldCut f v = cutTrace (Spec.fieldOccsT f v) := by
  obtain ⟨key, kind, vs⟩ := f
  cases kind with
  | leaf k =>
    simp only [fieldCut, Spec.fieldOccsT]
    rw [leafThrows_eq]
    by_cases hm : Spec.leafMismatch k v = true
    · simp [hm, cutTrace]
    · obtain ⟨h1, h2, _⟩ := loadLeaf_view k v
      simp [hm, cutTrace, visitArgs_eq, h1, h2]
  | obj fields =>
    cases v with
    | none => simp [fieldCut, Spec.fieldOccsT, cutTrace, visitArgs_eq]
    | some v =>
      cases v with
      | sc t => cases t <;> simp [fieldCut, Spec.fieldOccsT, cutTrace, visitArgs_eq, notNil, Spec.isNil]
      | arr l => simp [fieldCut, Spec.fieldOccsT, cutTrace, notNil, Spec.isNil]
      | map es => simp only [fieldCut, Spec.fieldOccsT, cutTrace_snoc, flatCut_spec, visitArgs_eq]
  | vecObj fields =>
    cases v with
    | none => simp [fieldCut, Spec.fieldOccsT, cutTrace, visitArgs_eq]
    | some v =>
      cases v with
      | sc t => cases t <;> simp [fieldCut, Spec.fieldOccsT, cutTrace, visitArgs_eq, notNil, Spec.isNil]
      | map l => simp [fieldCut, Spec.fieldOccsT, cutTrace, notNil, Spec.isNil]
      | arr items =>
        simp only [fieldCut, Spec.fieldOccsT, cutTrace_snoc, vecCut_spec, visitArgs_eq]
        rfl
  | mapObj fields =>
    cases v with
    | none => simp [fieldCut, Spec.fieldOccsT, cutTrace, visitArgs_eq]
    | some v =>
      cases v with
      | sc t => cases t <;> simp [fieldCut, Spec.fieldOccsT, cutTrace, visitArgs_eq, notNil, Spec.isNil]
      | arr l => simp [fieldCut, Spec.fieldOccsT, cutTrace, notNil, Spec.isNil]
      | map es =>
        simp only [fieldCut, Spec.fieldOccsT, cutTrace_snoc, mapCut_spec, visitArgs_eq]
        rfl

theorem rootCut_spec (cls : List Field) (es : List (Val × Val)) : rootCut cls es = cutTrace (Spec.occsT cls (.map es)) := by
  induction cls with
  | nil => rfl
  | cons f cls ih =>
    simp only [Spec.occsT, List.flatMap_cons] at ih ⊢
    simp only [rootCut, cutTrace_append, fieldCut_spec, lookup_eq, ih]

theorem failingOf_msgs_ne_nil (os : List Spec.Occ) : ∀ e ∈ Spec.failingOf os, e.2 ≠ [] := by
  intro e he
  simp only [Spec.failingOf, List.mem_filterMap] at he
  obtain ⟨o, _, ho⟩ := he
  split at ho
  · simp at ho
  · rename_i h
    simp only [Option.some.injEq] at ho
    rw [← ho]
    simpa using h

/-- the trace up to the first mismatched value is what the validators of the fields before it report -/
theorem rootCut_failingBefore (cls : List Field) (es : List (Val × Val)) :
    (rootCut cls es).1 = flattenFailing (Spec.failingBefore cls (.map es)) ∧
    (rootCut cls es).2 = Spec.hasMismatch cls (.map es) := by
  rw [rootCut_spec, cutTrace_spec]
  exact ⟨(flatten_failing _).symm, rfl⟩

/-! ### the two descriptions of the visited fields agree on documents without a mismatched value -/

theorem flatOccsT_clean (pfx : String) (fields : List LeafField) (es : List (Val × Val))
    (h : (Spec.flatOccsT pfx fields es).all Option.isSome = true) :
    Spec.flatOccsT pfx fields es = (Spec.flatOccs pfx fields es).map some := by
  induction fields with
  | nil => rfl
  | cons f fields ih =>
    simp only [Spec.flatOccsT, Spec.flatOccs, List.map_cons, List.all_cons, Bool.and_eq_true] at h ih ⊢
    rw [ih h.2]
    by_cases hm : Spec.leafMismatch f.kind (Spec.valueAt es f.key) = true
    · simp [hm] at h
    · simp [hm]

theorem all_append_isSome (a b : List (Option Spec.Occ)) :
    (a ++ b).all Option.isSome = true ↔ a.all Option.isSome = true ∧ b.all Option.isSome = true := by
  simp [List.all_append]

theorem vecOccsT_clean (pfx : String) (fields : List LeafField) (j : Nat) (items : List Val)
    (h : ((items.zipIdx j).flatMap fun it => match it.1 with
      | .map es => Spec.flatOccsT (pfx ++ "/" ++ toString (it.2 + 1)) fields es
      | .sc .nil => []
      | _ => [none]).all Option.isSome = true) :
    ((items.zipIdx j).flatMap fun it => match it.1 with
      | .map es => Spec.flatOccsT (pfx ++ "/" ++ toString (it.2 + 1)) fields es
      | .sc .nil => []
      | _ => [none])
    = ((items.zipIdx j).flatMap fun it => match it.1 with
      | .map es => Spec.flatOccs (pfx ++ "/" ++ toString (it.2 + 1)) fields es
      | _ => []).map some := by
  induction items generalizing j with
  | nil => rfl
  | cons it items ih =>
    simp only [List.zipIdx_cons, List.flatMap_cons, all_append_isSome, List.map_append] at h ⊢
    rw [ih (j + 1) h.2]
    congr 1
    cases it with
    | map es => exact flatOccsT_clean _ fields es h.1
    | arr l => simp at h
    | sc t => cases t <;> simp at h ⊢

theorem mapOccsT_clean (pfx : String) (fields : List LeafField) (es : List (Val × Val))
    (h : (es.flatMap fun e => match e.1, e.2 with
      | .sc (.str k), .map es' => Spec.flatOccsT (pfx ++ "/" ++ String.ofList (k.map Char.ofNat)) fields es'
      | _, .sc .nil => []
      | _, _ => [none]).all Option.isSome = true) :
    (es.flatMap fun e => match e.1, e.2 with
      | .sc (.str k), .map es' => Spec.flatOccsT (pfx ++ "/" ++ String.ofList (k.map Char.ofNat)) fields es'
      | _, .sc .nil => []
      | _, _ => [none])
    = (es.flatMap fun e => match e.1, e.2 with
      | .sc (.str k), .map es' => Spec.flatOccs (pfx ++ "/" ++ String.ofList (k.map Char.ofNat)) fields es'
      | _, _ => []).map some := by
  induction es with
  | nil => rfl
  | cons e es ih =>
    simp only [List.flatMap_cons, all_append_isSome, List.map_append] at h ⊢
    rw [ih h.2]
    congr 1
    obtain ⟨k, v⟩ := e
    cases v with
    | map es' =>
      cases k with
      | sc t => cases t <;> first | exact flatOccsT_clean _ fields es' h.1 | simp at h
      | arr l => simp at h
      | map l => simp at h
    | arr l => simp at h
    | sc t =>
      cases t <;> first | (simp at h; done) | skip
      cases k with
      | sc t => cases t <;> simp
      | arr l => simp
      | map l => simp

theorem fieldOccsT_clean (f : Field) (v : Option Val) (h : (Spec.fieldOccsT f v).all Option.isSome = true) :
    Spec.fieldOccsT f v = (Spec.fieldOccs f v).map some := by
  obtain ⟨key, kind, vs⟩ := f
  cases kind with
  | leaf k =>
    simp only [Spec.fieldOccsT, Spec.fieldOccs] at h ⊢
    by_cases hm : Spec.leafMismatch k v = true
    · simp [hm] at h
    · simp [hm]
  | obj fields =>
    cases v with
    | none => simp [Spec.fieldOccsT, Spec.fieldOccs]
    | some v =>
      cases v with
      | sc t => cases t <;> simp [Spec.fieldOccsT, Spec.fieldOccs, Spec.isNil] at h ⊢
      | arr l => simp [Spec.fieldOccsT, Spec.isNil] at h
      | map es =>
        simp only [Spec.fieldOccsT, Spec.fieldOccs, all_append_isSome, List.map_append] at h ⊢
        rw [flatOccsT_clean _ fields es h.1]
        rfl
  | vecObj fields =>
    cases v with
    | none => simp [Spec.fieldOccsT, Spec.fieldOccs]
    | some v =>
      cases v with
      | sc t => cases t <;> simp [Spec.fieldOccsT, Spec.fieldOccs, Spec.isNil] at h ⊢
      | map l => simp [Spec.fieldOccsT, Spec.isNil] at h
      | arr items =>
        simp only [Spec.fieldOccsT, Spec.fieldOccs, all_append_isSome, List.map_append] at h ⊢
        congr 1
        exact vecOccsT_clean _ fields 0 items h.1
  | mapObj fields =>
    cases v with
    | none => simp [Spec.fieldOccsT, Spec.fieldOccs]
    | some v =>
      cases v with
      | sc t => cases t <;> simp [Spec.fieldOccsT, Spec.fieldOccs, Spec.isNil] at h ⊢
      | arr l => simp [Spec.fieldOccsT, Spec.isNil] at h
      | map es =>
        simp only [Spec.fieldOccsT, Spec.fieldOccs, all_append_isSome, List.map_append] at h ⊢
        congr 1
        exact mapOccsT_clean _ fields _ h.1

theorem any_isNone_false (l : List (Option Spec.Occ)) : l.any Option.isNone = false ↔ l.all Option.isSome = true := by
  induction l with
  | nil => simp
  | cons x l ih => cases x <;> simp [ih]

/-- a document without a mismatched value: the ThrowError description of the visited fields is the Skip description -/
theorem occsT_clean (cls : List Field) (doc : Val) (h : Spec.hasMismatch cls doc = false) :
    Spec.occsT cls doc = (Spec.occs cls doc).map some := by
  rw [Spec.hasMismatch, any_isNone_false] at h
  cases doc with
  | sc t => cases t <;> simp [Spec.occsT, Spec.occs, Spec.isNil] at h ⊢
  | arr l => simp [Spec.occsT, Spec.isNil] at h
  | map es =>
    simp only [Spec.occsT, Spec.occs] at h ⊢
    induction cls with
    | nil => rfl
    | cons f cls ih =>
      simp only [List.flatMap_cons, all_append_isSome, List.map_append] at h ⊢
      rw [ih h.2, fieldOccsT_clean f _ h.1]

theorem failingBefore_clean (cls : List Field) (doc : Val) (h : Spec.hasMismatch cls doc = false) :
    Spec.failingBefore cls doc = Spec.failing cls doc := by
  have hall : (Spec.occsT cls doc).all Option.isSome = true := by
    rw [Spec.hasMismatch, any_isNone_false] at h; exact h
  have htw : ∀ l : List (Option Spec.Occ), l.all Option.isSome = true → l.takeWhile Option.isSome = l := by
    intro l hl
    induction l with
    | nil => rfl
    | cons x l ih =>
      simp only [List.all_cons, Bool.and_eq_true] at hl
      simp [hl.1, ih hl.2]
  simp only [Spec.failingBefore, Spec.beforeMismatch, Spec.failing, Spec.failingOf]
  rw [htw _ hall, occsT_clean cls doc h]
  simp [List.filterMap_map]

end BSVerif.Valid
