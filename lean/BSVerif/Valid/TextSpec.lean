/-
  SPEC of the two text validators (C17), written from the DOCUMENTATION, not from the C++ control flow.
  Three verdicts: `accept` (the documentation says this value is valid), `reject` (it says it is not), `open`
  (the documentation is silent: the oracle answers `nospec`, whatever the implementation does).

  PhoneNumber — sources:
    [P1] validators.h, doc comment of the class: "Validates that string contains a phone number. Allows to validate
         phones with various numbers of digits, optional plus, parentheses and dashes, e.g.: +555 (55) 555-55-55"
    [P2] README.md, table of validators: `PhoneNumber(minDigits = 7, maxDigits = 15, isPlusRequired = true,
         errorMessage = nullptr)` — "examples: +555 (55) 555-55-55, (55) 555 55 55, 555 5 55 55"
    [P3] the default error texts, which are what a user is told about each rule: "dashes should be used to separate
         numbers", "contains nested parentheses", "invalid closing parenthesis", "missing closing parenthesis",
         "contains invalid characters", "missing initial `+`", "must contain N digits", "the number of digits must
         be FROM min TO max" (both bounds belong to the range).
  ACCEPT = the documented shape (`shape`): an optional `+` at the very beginning, then groups of digits; a group may
    be enclosed in one pair of parentheses; neighbouring groups are separated by ONE space, two plain groups
    also by ONE dash (exactly the forms of the examples) — with the `+` present when required and the number of
    digits within [min, max] inclusive.
  REJECT = a documented rule is broken: a character other than digit + ( ) - space [P1, P3]; `+` required but the
    string has none [P2, P3]; a `+` after a digit (not "initial") [P3]; parentheses that are nested, closed
    without being open, or left open [P3]; a dash that does not separate numbers — no digit before it, no digit
    after it, or directly followed (spaces aside) by another dash [P3]; digit count outside [min, max] [P2, P3].
  OPEN   = everything else, e.g. leading/trailing/double spaces, spaces around a dash, several `+` before the first
    digit, `+` inside the parentheses, a dash next to a parenthesis, empty parentheses: not documented.

  Email — sources:
    [E1] validators.h doc comment / README: "Validates that string contains an email. Generally complies with the RFC
         standard, except: quoted parts, comments, SMTPUTF8 and IP address as domain part."
    [E2] RFC 5321 §4.1.2: Mailbox = Local-part "@" Domain; Dot-string = Atom *("." Atom); Atom = 1*atext;
         Domain = sub-domain *("." sub-domain); sub-domain = Let-dig [Ldh-str];  Ldh-str ends with Let-dig.
         RFC 5322 §3.2.3: atext = ALPHA / DIGIT / one of  ! # $ % & ' * + - / = ? ^ _ ` { | } ~
         RFC 5321 §4.5.3.1.1/2: local-part ≤ 64 octets, domain ≤ 255 octets; RFC 1035 §2.3.4: label ≤ 63 octets.
  By [E1] the forms outside the simplified grammar (Quoted-string, comments, non-ASCII, address-literal) are not
  accepted: they all contain a unit that is neither atext nor letter/digit/hyphen, so the grammar rejects them.
  OPEN (RFCs disagree or the documentation says nothing): a label that begins with a digit (allowed by RFC 1123 §2.1 /
  RFC 5321, excluded by RFC 1035 §2.3.1 "must start with a letter"), and an address longer than 254 units in total
  (RFC 5321 §4.5.3.1.3 limits a path to 256 octets; the documentation does not mention it).
-/
namespace BSVerif.Valid.TextSpec

inductive Verdict where
  | accept | reject | «open»
  deriving Repr, DecidableEq

/-! ### PhoneNumber -/

def dgt (c : Nat) : Bool := 48 ≤ c && c ≤ 57

def cPlus : Nat := 43
def cSpace : Nat := 32
def cDash : Nat := 45
def cOpen : Nat := 40
def cClose : Nat := 41

/-- what stands before the current position -/
inductive Prev where
  | start | plus | digit | space | dash | «open» | close
  deriving Repr, DecidableEq

/-- the documented shape, as adjacency rules: `shape prev inPar rest` -/
def shape : Prev → Bool → List Nat → Bool
  | prev, inPar, [] => (prev == .digit || prev == .close) && !inPar
  | prev, inPar, c :: cs =>
    if dgt c then prev != .close && shape .digit inPar cs                    -- after `)` comes a space
    else if c == cPlus then prev == .start && shape .plus inPar cs           -- only at the very beginning
    else if c == cSpace then (prev == .digit || prev == .close) && !inPar && shape .space false cs
    else if c == cDash then prev == .digit && !inPar && (match cs with | d :: _ => dgt d | [] => false) && shape .dash false cs
    else if c == cOpen then (prev == .start || prev == .plus || prev == .space) && !inPar && shape .open true cs
    else if c == cClose then prev == .digit && inPar && shape .close false cs
    else false

/-- the shape predicate of the property theorems -/
def wellShaped (s : List Nat) : Bool := shape .start false s

def digits (s : List Nat) : Nat := s.countP dgt

def allowedChar (c : Nat) : Bool := dgt c || c == cPlus || c == cSpace || c == cDash || c == cOpen || c == cClose

/-- a `+` somewhere after a digit -/
def plusAfterDigit : Bool → List Nat → Bool
  | _, [] => false
  | seen, c :: cs => (seen && c == cPlus) || plusAfterDigit (seen || dgt c) cs

/-- parentheses balanced with depth at most one -/
def parensOk : Bool → List Nat → Bool
  | inPar, [] => !inPar
  | inPar, c :: cs =>
    if c == cOpen then !inPar && parensOk true cs
    else if c == cClose then inPar && parensOk false cs
    else parensOk inPar cs

/-- the first unit that is not a space is a dash -/
def nextIsDash : List Nat → Bool
  | [] => false
  | c :: cs => if c == cSpace then nextIsDash cs else c == cDash

/-- some dash does not separate numbers -/
def dashMisused : Bool → List Nat → Bool
  | _, [] => false
  | seen, c :: cs =>
    if c == cDash then !seen || !cs.any dgt || nextIsDash cs || dashMisused seen cs
    else dashMisused (seen || dgt c) cs

/-- the first documented rule the string breaks -/
def phoneBroken (min max : Nat) (plusRequired : Bool) (s : List Nat) : Option String :=
  if !s.all allowedChar then some "invalid_character"
  else if plusRequired && !s.contains cPlus then some "plus_required_but_absent"
  else if plusAfterDigit false s then some "plus_after_a_digit"
  else if !parensOk false s then some "parentheses_nested_or_unbalanced"
  else if dashMisused false s then some "dash_does_not_separate_numbers"
  else if digits s < min || max < digits s then some "digit_count_outside_min_max"
  else none

def phoneAccepts (min max : Nat) (plusRequired : Bool) (s : List Nat) : Bool :=
  wellShaped s && (!plusRequired || s.head? == some cPlus) && decide (min ≤ digits s) && decide (digits s ≤ max)

/-- **the specification of PhoneNumber(min, max, plusRequired)** for a loaded value -/
def phoneVerdict (min max : Nat) (plusRequired : Bool) (s : List Nat) : Verdict :=
  if phoneAccepts min max plusRequired s then .accept
  else if (phoneBroken min max plusRequired s).isSome then .reject
  else .open

/-! ### Email -/

def cDot : Nat := 46
def cAt : Nat := 64

def alpha (c : Nat) : Bool := (65 ≤ c && c ≤ 90) || (97 ≤ c && c ≤ 122)

/-- RFC 5322 atext -/
def atext (c : Nat) : Bool :=
  alpha c || dgt c || [33, 35, 36, 37, 38, 39, 42, 43, 45, 47, 61, 63, 94, 95, 96, 123, 124, 125, 126].contains c

def letDig (c : Nat) : Bool := alpha c || dgt c
def ldh (c : Nat) : Bool := letDig c || c == cDash

/-- the pieces between dots (`"a..b"` has an empty piece, `""` is one empty piece) -/
def splitDots : List Nat → List (List Nat)
  | [] => [[]]
  | c :: cs =>
    if c == cDot then [] :: splitDots cs
    else match splitDots cs with
      | l :: ls => (c :: l) :: ls
      | [] => [[c]]

def localPart (s : List Nat) : List Nat := s.takeWhile (· != cAt)

/-- what follows the first `@` -/
def afterAt (s : List Nat) : Option (List Nat) :=
  match s.dropWhile (· != cAt) with
  | [] => none
  | _ :: d => some d

def atomOk (a : List Nat) : Bool := !a.isEmpty && a.all atext

/-- Dot-string of at most 64 units -/
def localOk (l : List Nat) : Bool := decide (l.length ≤ 64) && (splitDots l).all atomOk

def lastOk (l : List Nat) : Bool :=
  match l.getLast? with
  | some c => letDig c
  | none => false

def firstOk (l : List Nat) : Bool :=
  match l.head? with
  | some c => letDig c
  | none => false

/-- sub-domain = Let-dig [Ldh-str], at most 63 units -/
def labelOk (l : List Nat) : Bool := decide (l.length ≤ 63) && l.all ldh && firstOk l && lastOk l

def domainOk (d : List Nat) : Bool := decide (d.length ≤ 255) && (splitDots d).all labelOk

def startsWithDigit (l : List Nat) : Bool :=
  match l.head? with
  | some c => dgt c
  | none => false

def digitFirstLabel (d : List Nat) : Bool := (splitDots d).any startsWithDigit

/-- **the specification of Email()** for a loaded value -/
def emailVerdict (s : List Nat) : Verdict :=
  match afterAt s with
  | none => .reject
  | some d =>
    if !localOk (localPart s) || !domainOk d then .reject
    else if digitFirstLabel d || decide (s.length > 254) then .open
    else .accept

def emailBroken (s : List Nat) : String :=
  match afterAt s with
  | none => "no_at_sign"
  | some d => if !localOk (localPart s) then "local_part_is_not_a_dot_string_of_at_most_64" else if !domainOk d then "domain_is_not_a_list_of_labels" else "-"

/-! ### not loaded -/

/-- both validators: "Automatically pass if value is not loaded" (the rule of every built-in validator but Required) -/
def verdictFor (loaded : Bool) (v : Verdict) : Verdict := if loaded then v else .accept

/-- judge an implementation answer (`pass` = true) -/
def judge (v : Verdict) (implPass : Bool) (why : String) : String :=
  match v, implPass with
  | .accept, true => "ok"
  | .accept, false => "bad:rejects_a_value_the_documentation_describes_as_valid"
  | .reject, false => "ok"
  | .reject, true => "bad:accepts_a_value_that_breaks_a_documented_rule:" ++ why
  | .open, _ => "nospec"

end BSVerif.Valid.TextSpec
