/-
  Helper lemmas for Props/C17Text.lean: the scanners of Valid/TextValidators.lean against the predicates of
  Valid/TextSpec.lean. (Property theorems are in Props/C17Text.lean.)
-/
import BSVerif.Valid.TextValidators
import BSVerif.Valid.TextSpec

namespace BSVerif.Valid.Text
open BSVerif.Valid.TextSpec

/-! ## PhoneNumber -/

theorem isDigit_eq_dgt (c : Nat) : isDigit c = dgt c := rfl

/-- every unit is a digit, one of the five punctuation units, or not allowed at all -/
theorem unit_cases (c : Nat) :
    dgt c = true ∨ c = 43 ∨ c = 32 ∨ c = 45 ∨ c = 40 ∨ c = 41 ∨ allowedChar c = false := by
  by_cases h1 : dgt c = true
  · exact Or.inl h1
  by_cases h2 : c = 43
  · exact Or.inr (Or.inl h2)
  by_cases h3 : c = 32
  · exact Or.inr (Or.inr (Or.inl h3))
  by_cases h4 : c = 45
  · exact Or.inr (Or.inr (Or.inr (Or.inl h4)))
  by_cases h5 : c = 40
  · exact Or.inr (Or.inr (Or.inr (Or.inr (Or.inl h5))))
  by_cases h6 : c = 41
  · exact Or.inr (Or.inr (Or.inr (Or.inr (Or.inr (Or.inl h6)))))
  · refine Or.inr (Or.inr (Or.inr (Or.inr (Or.inr (Or.inr ?_)))))
    simp [allowedChar, cPlus, cSpace, cDash, cOpen, cClose, h1, h2, h3, h4, h5, h6]

theorem dgt_bounds {c : Nat} (h : dgt c = true) : 48 ≤ c ∧ c ≤ 57 := by
  simpa [dgt] using h

theorem step_digit (st : PhoneState) (c : Nat) (rest : List Nat) (h : dgt c = true) :
    phoneStep st c rest = { st with digitCount := st.digitCount + 1, lastDigit := true } := by
  have hb := dgt_bounds h
  have h43 : c ≠ 43 := by omega
  simp [phoneStep, isDigit_eq_dgt, h, h43]

theorem step_plus0 (st : PhoneState) (rest : List Nat) (h : st.digitCount = 0) :
    phoneStep st 43 rest = { st with hasPlus := true } := by
  simp [phoneStep, h]

theorem step_plus_pos (st : PhoneState) (rest : List Nat) (h : st.digitCount ≠ 0) :
    phoneStep st 43 rest = { st with error := some .chars, lastDigit := false } := by
  simp [phoneStep, h, isDigit]

theorem step_space (st : PhoneState) (rest : List Nat) : phoneStep st 32 rest = st := by
  simp [phoneStep, isDigit]

theorem step_dash (st : PhoneState) (rest : List Nat) :
    phoneStep st 45 rest =
      if !st.lastDigit || onlySpaces rest then { st with error := some .dashes, lastDigit := false }
      else { st with lastDigit := false } := by
  cases h1 : st.lastDigit <;> cases h2 : onlySpaces rest <;> simp [phoneStep, isDigit, h1, h2]

theorem step_open (st : PhoneState) (rest : List Nat) :
    phoneStep st 40 rest =
      if st.inPar then { st with error := some .nested, inPar := true, lastDigit := false }
      else { st with inPar := true, lastDigit := false } := by
  cases h1 : st.inPar <;> simp [phoneStep, isDigit, h1]

theorem step_close (st : PhoneState) (rest : List Nat) :
    phoneStep st 41 rest =
      if st.inPar && st.lastDigit then { st with inPar := false, lastDigit := false }
      else { st with error := some .closing, lastDigit := false } := by
  cases h1 : st.inPar <;> cases h2 : st.lastDigit <;> simp [phoneStep, isDigit, h1, h2]

theorem step_other (st : PhoneState) (c : Nat) (rest : List Nat) (h : allowedChar c = false) :
    phoneStep st c rest = { st with error := some .chars, lastDigit := false } := by
  simp only [allowedChar, cPlus, cSpace, cDash, cOpen, cClose, Bool.or_eq_false_iff, beq_eq_false_iff_ne] at h
  obtain ⟨⟨⟨⟨⟨h1, h2⟩, h3⟩, h4⟩, h5⟩, h6⟩ := h
  simp [phoneStep, isDigit_eq_dgt, h1, h2, h3, h4, h5, h6]

theorem loop_nil (st : PhoneState) : phoneLoop st [] = st := rfl

theorem loop_cons_ok (st : PhoneState) (c : Nat) (cs : List Nat) (h : st.error = none) :
    phoneLoop st (c :: cs) = phoneLoop (phoneStep st c cs) cs := by
  simp [phoneLoop, h]

theorem loop_error (st : PhoneState) (cs : List Nat) (h : st.error ≠ none) : phoneLoop st cs = st := by
  cases cs with
  | nil => rfl
  | cons c cs =>
    have : st.error.isSome = true := by cases he : st.error <;> simp_all
    simp [phoneLoop, this]

/-- the error, once set, is what the loop ends with -/
theorem loop_error_ne (st : PhoneState) (cs : List Nat) (h : st.error ≠ none) : (phoneLoop st cs).error ≠ none := by
  rw [loop_error st cs h]; exact h

theorem finish_none_iff (cfg : PhoneCfg) (st : PhoneState) :
    phoneFinish cfg st = none ↔
      st.error = none ∧ st.inPar = false ∧ (cfg.plusRequired = true → st.hasPlus = true) ∧
      cfg.minNumbers ≤ st.digitCount ∧ st.digitCount ≤ cfg.maxNumbers := by
  unfold phoneFinish
  cases hp : st.inPar <;> cases hh : st.hasPlus <;> cases hr : cfg.plusRequired <;> cases he : st.error <;>
    simp <;> (try split) <;> simp_all <;> omega


theorem digits_cons (c : Nat) (cs : List Nat) : digits (c :: cs) = digits cs + (if dgt c then 1 else 0) := by
  simp [digits, List.countP_cons]

theorem not_dgt_of_eq {c : Nat} (h : c = 43 ∨ c = 32 ∨ c = 45 ∨ c = 40 ∨ c = 41) : dgt c = false := by
  rcases h with h | h | h | h | h <;> subst h <;> rfl

theorem prev_beq (a b : Prev) : (a == b) = decide (a = b) := by cases a <;> cases b <;> rfl

/-- a string of the documented shape runs through the loop without an error, leaves no parenthesis open, and
    every digit is counted; the `+` is seen exactly when the string begins with it -/
theorem shape_loop (cs : List Nat) : ∀ (prev : Prev) (inPar : Bool) (st : PhoneState),
    shape prev inPar cs = true → st.error = none → st.inPar = inPar →
    (prev = .digit → st.lastDigit = true) → (prev = .start → st.digitCount = 0) →
    (phoneLoop st cs).error = none ∧ (phoneLoop st cs).inPar = false ∧
    (phoneLoop st cs).digitCount = st.digitCount + digits cs ∧
    (phoneLoop st cs).hasPlus = (st.hasPlus || (prev == .start && cs.head? == some 43)) := by
  induction cs with
  | nil =>
    intro prev inPar st h herr hpar _ _
    simp only [shape, Bool.and_eq_true, Bool.not_eq_true'] at h
    simp [loop_nil, herr, hpar, h.2, digits]
  | cons c cs ih =>
    intro prev inPar st h herr hpar hld hdc
    rw [loop_cons_ok st c cs herr]
    rcases unit_cases c with hd | hc | hc | hc | hc | hc | hbad
    · -- digit
      have hb := dgt_bounds hd
      simp only [shape, hd, if_true, Bool.and_eq_true] at h
      rw [step_digit st c cs hd]
      obtain ⟨h1, h2, h3, h4⟩ := ih .digit inPar { st with digitCount := st.digitCount + 1, lastDigit := true } h.2 herr hpar
        (fun _ => rfl) (fun h => by cases h)
      refine ⟨h1, h2, ?_, ?_⟩
      · rw [h3, digits_cons, hd]; simp; omega
      · rw [h4]
        have : (c == 43) = false := by simp; omega
        simp [this, prev_beq]
    · -- '+'
      subst hc
      simp only [shape, cPlus, show dgt 43 = false from rfl, Bool.false_eq_true, if_false, beq_self_eq_true,
        if_true, Bool.and_eq_true, prev_beq, decide_eq_true_eq] at h
      have hp : prev = .start := h.1
      rw [step_plus0 st cs (hdc hp)]
      obtain ⟨h1, h2, h3, h4⟩ := ih .plus inPar { st with hasPlus := true } h.2 herr hpar (fun h => by cases h) (fun h => by cases h)
      refine ⟨h1, h2, ?_, ?_⟩
      · rw [h3, digits_cons]; simp [show dgt 43 = false from rfl]
      · rw [h4]; simp [hp]
    · -- ' '
      subst hc
      simp only [shape, cPlus, cSpace, show dgt 32 = false from rfl, Bool.false_eq_true, if_false, beq_self_eq_true,
        if_true, Bool.and_eq_true, prev_beq, Bool.or_eq_true, decide_eq_true_eq, Bool.not_eq_true',
        show (32 == 43) = false from rfl] at h
      obtain ⟨⟨hprev, hnp⟩, hsh⟩ := h
      rw [step_space st cs]
      obtain ⟨h1, h2, h3, h4⟩ := ih .space false st hsh herr (hpar.trans hnp) (fun h => by cases h) (fun h => by cases h)
      refine ⟨h1, h2, ?_, ?_⟩
      · rw [h3, digits_cons]; simp [show dgt 32 = false from rfl]
      · rw [h4]
        have : prev ≠ .start := by rcases hprev with h | h <;> simp [h]
        simp [prev_beq, this]
    · -- '-'
      subst hc
      simp only [shape, cPlus, cSpace, cDash, show dgt 45 = false from rfl, Bool.false_eq_true, if_false, beq_self_eq_true,
        if_true, Bool.and_eq_true, prev_beq, decide_eq_true_eq, Bool.not_eq_true',
        show (45 == 43) = false from rfl, show (45 == 32) = false from rfl] at h
      obtain ⟨⟨⟨hprev, hnp⟩, hnext⟩, hsh⟩ := h
      have hns : onlySpaces cs = false := by
        cases cs with
        | nil => simp at hnext
        | cons d ds =>
          have hb := dgt_bounds (by simpa using hnext : dgt d = true)
          have : d ≠ 32 := by omega
          simp [onlySpaces, this]
      rw [step_dash st cs, hld hprev, hns]
      simp only [Bool.not_true, Bool.or_self, Bool.false_eq_true, if_false]
      obtain ⟨h1, h2, h3, h4⟩ := ih .dash false { st with lastDigit := false } hsh herr (hpar.trans hnp) (fun h => by cases h) (fun h => by cases h)
      refine ⟨h1, h2, ?_, ?_⟩
      · rw [h3, digits_cons]; simp [show dgt 45 = false from rfl]
      · rw [h4]; simp [prev_beq, hprev]
    · -- '('
      subst hc
      simp only [shape, cPlus, cSpace, cDash, cOpen, show dgt 40 = false from rfl, Bool.false_eq_true, if_false, beq_self_eq_true,
        if_true, Bool.and_eq_true, prev_beq, Bool.or_eq_true, decide_eq_true_eq, Bool.not_eq_true',
        show (40 == 43) = false from rfl, show (40 == 32) = false from rfl, show (40 == 45) = false from rfl] at h
      obtain ⟨⟨_, hnp⟩, hsh⟩ := h
      rw [step_open st cs, hpar.trans hnp]
      simp only [Bool.false_eq_true, if_false]
      obtain ⟨h1, h2, h3, h4⟩ := ih .open true { st with inPar := true, lastDigit := false } hsh herr rfl (fun h => by cases h) (fun h => by cases h)
      refine ⟨h1, h2, ?_, ?_⟩
      · rw [h3, digits_cons]; simp [show dgt 40 = false from rfl]
      · rw [h4]; simp [prev_beq]
    · -- ')'
      subst hc
      simp only [shape, cPlus, cSpace, cDash, cOpen, cClose, show dgt 41 = false from rfl, Bool.false_eq_true, if_false, beq_self_eq_true,
        if_true, Bool.and_eq_true, prev_beq, decide_eq_true_eq,
        show (41 == 43) = false from rfl, show (41 == 32) = false from rfl, show (41 == 45) = false from rfl,
        show (41 == 40) = false from rfl] at h
      obtain ⟨⟨hprev, hip⟩, hsh⟩ := h
      rw [step_close st cs, hpar.trans hip, hld hprev]
      simp only [Bool.and_self, if_true]
      obtain ⟨h1, h2, h3, h4⟩ := ih .close false { st with inPar := false, lastDigit := false } hsh herr rfl (fun h => by cases h) (fun h => by cases h)
      refine ⟨h1, h2, ?_, ?_⟩
      · rw [h3, digits_cons]; simp [show dgt 41 = false from rfl]
      · rw [h4]; simp [prev_beq, hprev]
    · -- anything else is not part of the shape
      simp only [allowedChar, cPlus, cSpace, cDash, cOpen, cClose, Bool.or_eq_false_iff] at hbad
      obtain ⟨⟨⟨⟨⟨b1, b2⟩, b3⟩, b4⟩, b5⟩, b6⟩ := hbad
      simp [shape, cPlus, cSpace, cDash, cOpen, cClose, b1, b2, b3, b4, b5, b6] at h


/-! ### each documented rule, broken, makes the scanner fail -/

/-- R1: a unit outside the alphabet -/
theorem loop_bad_char (cs : List Nat) : ∀ st : PhoneState, cs.all allowedChar = false → (phoneLoop st cs).error ≠ none := by
  induction cs with
  | nil => intro st h; simp at h
  | cons c cs ih =>
    intro st h
    by_cases herr : st.error = none
    · rw [loop_cons_ok st c cs herr]
      by_cases hc : allowedChar c = true
      · apply ih
        simpa [hc] using h
      · have hc' : allowedChar c = false := by simpa using hc
        rw [step_other st c cs hc']
        exact loop_error_ne _ _ (by simp)
    · exact loop_error_ne _ _ herr

theorem step_hasPlus (st : PhoneState) (c : Nat) (rest : List Nat) (h : c ≠ 43) : (phoneStep st c rest).hasPlus = st.hasPlus := by
  rcases unit_cases c with hd | hc | hc | hc | hc | hc | hbad
  · rw [step_digit st c rest hd]
  · exact absurd hc h
  · subst hc; rw [step_space]
  · subst hc; rw [step_dash]; split <;> rfl
  · subst hc; rw [step_open]; split <;> rfl
  · subst hc; rw [step_close]; split <;> rfl
  · rw [step_other st c rest hbad]

/-- R2: without a `+` in the string `hasPlus` stays false -/
theorem loop_no_plus (cs : List Nat) : ∀ st : PhoneState, cs.contains 43 = false → (phoneLoop st cs).hasPlus = st.hasPlus := by
  induction cs with
  | nil => intro st _; rfl
  | cons c cs ih =>
    intro st h
    simp only [List.contains_cons, Bool.or_eq_false_iff, beq_eq_false_iff_ne, ne_eq] at h
    by_cases herr : st.error = none
    · rw [loop_cons_ok st c cs herr, ih _ h.2, step_hasPlus st c cs (fun e => h.1 e.symm)]
    · rw [loop_error st _ herr]

theorem step_digitCount (st : PhoneState) (c : Nat) (rest : List Nat) :
    (phoneStep st c rest).digitCount = st.digitCount + (if dgt c then 1 else 0) := by
  rcases unit_cases c with hd | hc | hc | hc | hc | hc | hbad
  · rw [step_digit st c rest hd]; simp [hd]
  · subst hc
    by_cases h0 : st.digitCount = 0
    · rw [step_plus0 st rest h0]; simp [show dgt 43 = false from rfl]
    · rw [step_plus_pos st rest h0]; simp [show dgt 43 = false from rfl]
  · subst hc; rw [step_space]; simp [show dgt 32 = false from rfl]
  · subst hc; rw [step_dash]; split <;> simp [show dgt 45 = false from rfl]
  · subst hc; rw [step_open]; split <;> simp [show dgt 40 = false from rfl]
  · subst hc; rw [step_close]; split <;> simp [show dgt 41 = false from rfl]
  · rw [step_other st c rest hbad]
    have : dgt c = false := by
      simp only [allowedChar, Bool.or_eq_false_iff] at hbad
      exact hbad.1.1.1.1.1
    simp [this]

/-- R6: when the loop ends without an error every digit of the string has been counted -/
theorem loop_count (cs : List Nat) : ∀ st : PhoneState, (phoneLoop st cs).error = none →
    (phoneLoop st cs).digitCount = st.digitCount + digits cs := by
  induction cs with
  | nil => intro st _; simp [loop_nil, digits]
  | cons c cs ih =>
    intro st h
    by_cases herr : st.error = none
    · rw [loop_cons_ok st c cs herr] at h ⊢
      rw [ih _ h, step_digitCount, digits_cons]; omega
    · exact absurd h (loop_error_ne _ _ herr)

/-- R3: a `+` after a digit is an invalid character -/
theorem loop_plus_after_digit (cs : List Nat) : ∀ (st : PhoneState) (seen : Bool),
    (seen = true → st.digitCount ≠ 0) → plusAfterDigit seen cs = true → (phoneLoop st cs).error ≠ none := by
  induction cs with
  | nil => intro st seen _ h; simp [plusAfterDigit] at h
  | cons c cs ih =>
    intro st seen hs h
    by_cases herr : st.error = none
    · rw [loop_cons_ok st c cs herr]
      simp only [plusAfterDigit, Bool.or_eq_true, Bool.and_eq_true, beq_iff_eq, cPlus] at h
      rcases h with ⟨h1, h2⟩ | h
      · subst h2
        rw [step_plus_pos st cs (hs h1)]
        exact loop_error_ne _ _ (by simp)
      · apply ih _ (seen || dgt c) _ h
        intro hsd
        rw [step_digitCount]
        simp only [Bool.or_eq_true] at hsd
        rcases hsd with h1 | h1
        · have := hs h1; omega
        · simp [h1]
    · exact loop_error_ne _ _ herr

theorem step_inPar (st : PhoneState) (c : Nat) (rest : List Nat) (h1 : c ≠ 40) (h2 : c ≠ 41) : (phoneStep st c rest).inPar = st.inPar := by
  rcases unit_cases c with hd | hc | hc | hc | hc | hc | hbad
  · rw [step_digit st c rest hd]
  · subst hc
    by_cases h0 : st.digitCount = 0
    · rw [step_plus0 st rest h0]
    · rw [step_plus_pos st rest h0]
  · subst hc; rw [step_space]
  · subst hc; rw [step_dash]; split <;> rfl
  · exact absurd hc h1
  · exact absurd hc h2
  · rw [step_other st c rest hbad]

/-- R4: nested, unmatched or unclosed parentheses end in an error or with the parenthesis still open -/
theorem loop_parens (cs : List Nat) : ∀ (st : PhoneState) (inPar : Bool), st.inPar = inPar → parensOk inPar cs = false →
    (phoneLoop st cs).error ≠ none ∨ (phoneLoop st cs).inPar = true := by
  induction cs with
  | nil =>
    intro st inPar hp h
    simp only [parensOk, Bool.not_eq_false'] at h
    exact Or.inr (by rw [loop_nil, hp, h])
  | cons c cs ih =>
    intro st inPar hp h
    by_cases herr : st.error = none
    · rw [loop_cons_ok st c cs herr]
      by_cases h40 : c = 40
      · subst h40
        simp only [parensOk, cOpen, beq_self_eq_true, if_true, Bool.and_eq_false_iff, Bool.not_eq_false'] at h
        rw [step_open]
        cases hip : st.inPar
        · simp only [Bool.false_eq_true, if_false]
          rcases h with h | h
          · rw [← hp, hip] at h; cases h
          · exact ih _ true rfl h
        · simp only [if_true]
          exact Or.inl (loop_error_ne _ _ (by simp))
      · by_cases h41 : c = 41
        · subst h41
          simp only [parensOk, cOpen, cClose, show (41 == 40) = false from rfl, Bool.false_eq_true, if_false, beq_self_eq_true, if_true,
            Bool.and_eq_false_iff] at h
          rw [step_close]
          by_cases hc : (st.inPar && st.lastDigit) = true
          · simp only [hc, if_true]
            rcases h with h | h
            · simp only [Bool.and_eq_true] at hc
              rw [← hp, hc.1] at h; cases h
            · exact ih _ false rfl h
          · simp only [hc, Bool.false_eq_true, if_false]
            exact Or.inl (loop_error_ne _ _ (by simp))
        · have : parensOk inPar cs = false := by
            simpa [parensOk, cOpen, cClose, h40, h41] using h
          exact ih _ inPar (by rw [step_inPar st c cs h40 h41, hp]) this
    · exact Or.inl (loop_error_ne _ _ herr)


/-- a dash, then spaces, then another dash -/
theorem loop_next_dash (cs : List Nat) : ∀ st : PhoneState, st.lastDigit = false → nextIsDash cs = true →
    (phoneLoop st cs).error ≠ none := by
  induction cs with
  | nil => intro st _ h; simp [nextIsDash] at h
  | cons c cs ih =>
    intro st hl h
    by_cases herr : st.error = none
    · rw [loop_cons_ok st c cs herr]
      by_cases h32 : c = 32
      · subst h32
        rw [step_space]
        exact ih st hl (by simpa [nextIsDash, cSpace] using h)
      · have h45 : c = 45 := by simpa [nextIsDash, cSpace, cDash, h32] using h
        subst h45
        rw [step_dash, hl]
        exact loop_error_ne _ _ (by simp)
    · exact loop_error_ne _ _ herr

/-- inside a parenthesis with no digit left: it cannot be closed any more -/
theorem loop_inpar_no_digit (cs : List Nat) : ∀ st : PhoneState, st.inPar = true → st.lastDigit = false → cs.any dgt = false →
    (phoneLoop st cs).error ≠ none ∨ (phoneLoop st cs).inPar = true := by
  induction cs with
  | nil => intro st hp _ _; exact Or.inr hp
  | cons c cs ih =>
    intro st hp hl h
    simp only [List.any_cons, Bool.or_eq_false_iff] at h
    by_cases herr : st.error = none
    · rw [loop_cons_ok st c cs herr]
      rcases unit_cases c with hd | hc | hc | hc | hc | hc | hbad
      · rw [h.1] at hd; cases hd
      · subst hc
        by_cases h0 : st.digitCount = 0
        · rw [step_plus0 st cs h0]; exact ih _ hp hl h.2
        · rw [step_plus_pos st cs h0]; exact Or.inl (loop_error_ne _ _ (by simp))
      · subst hc; rw [step_space]; exact ih _ hp hl h.2
      · subst hc; rw [step_dash, hl]; exact Or.inl (loop_error_ne _ _ (by simp))
      · subst hc; rw [step_open, hp]; exact Or.inl (loop_error_ne _ _ (by simp))
      · subst hc; rw [step_close, hl]; exact Or.inl (loop_error_ne _ _ (by simp))
      · rw [step_other st c cs hbad]; exact Or.inl (loop_error_ne _ _ (by simp))
    · exact Or.inl (loop_error_ne _ _ herr)

/-- after a dash with no digit left and something other than spaces -/
theorem loop_after_dash (cs : List Nat) : ∀ st : PhoneState, st.lastDigit = false → st.digitCount ≠ 0 → cs.any dgt = false →
    onlySpaces cs = false → (phoneLoop st cs).error ≠ none ∨ (phoneLoop st cs).inPar = true := by
  induction cs with
  | nil => intro st _ _ _ h; simp [onlySpaces] at h
  | cons c cs ih =>
    intro st hl h0 h hs
    simp only [List.any_cons, Bool.or_eq_false_iff] at h
    by_cases herr : st.error = none
    · rw [loop_cons_ok st c cs herr]
      rcases unit_cases c with hd | hc | hc | hc | hc | hc | hbad
      · rw [h.1] at hd; cases hd
      · subst hc; rw [step_plus_pos st cs h0]; exact Or.inl (loop_error_ne _ _ (by simp))
      · subst hc; rw [step_space]
        exact ih _ hl h0 h.2 (by simpa [onlySpaces] using hs)
      · subst hc; rw [step_dash, hl]; exact Or.inl (loop_error_ne _ _ (by simp))
      · subst hc; rw [step_open]
        cases hip : st.inPar
        · simp only [Bool.false_eq_true, if_false]
          exact loop_inpar_no_digit cs _ rfl rfl h.2
        · exact Or.inl (loop_error_ne _ _ (by simp))
      · subst hc; rw [step_close, hl]; exact Or.inl (loop_error_ne _ _ (by simp))
      · rw [step_other st c cs hbad]; exact Or.inl (loop_error_ne _ _ (by simp))
    · exact Or.inl (loop_error_ne _ _ herr)

theorem step_lastDigit (st : PhoneState) (c : Nat) (rest : List Nat) (h : (phoneStep st c rest).lastDigit = true) :
    dgt c = true ∨ st.lastDigit = true := by
  rcases unit_cases c with hd | hc | hc | hc | hc | hc | hbad
  · exact Or.inl hd
  · subst hc
    by_cases h0 : st.digitCount = 0
    · rw [step_plus0 st rest h0] at h; exact Or.inr h
    · rw [step_plus_pos st rest h0] at h; cases h
  · subst hc; rw [step_space] at h; exact Or.inr h
  · subst hc; rw [step_dash] at h; split at h <;> cases h
  · subst hc; rw [step_open] at h; split at h <;> cases h
  · subst hc; rw [step_close] at h; split at h <;> cases h
  · rw [step_other st c rest hbad] at h; cases h

/-- R5: a dash that does not separate numbers -/
theorem loop_dash_misused (cs : List Nat) : ∀ (st : PhoneState) (seen : Bool),
    (st.lastDigit = true → seen = true ∧ st.digitCount ≠ 0) → dashMisused seen cs = true →
    (phoneLoop st cs).error ≠ none ∨ (phoneLoop st cs).inPar = true := by
  induction cs with
  | nil => intro st seen _ h; simp [dashMisused] at h
  | cons c cs ih =>
    intro st seen hinv h
    by_cases herr : st.error = none
    · rw [loop_cons_ok st c cs herr]
      by_cases h45 : c = 45
      · subst h45
        simp only [dashMisused, cDash, beq_self_eq_true, if_true, Bool.or_eq_true, Bool.not_eq_true'] at h
        rw [step_dash]
        by_cases hcond : (!st.lastDigit || onlySpaces cs) = true
        · simp only [hcond, if_true]
          exact Or.inl (loop_error_ne _ _ (by simp))
        · simp only [hcond, Bool.false_eq_true, if_false]
          simp only [Bool.or_eq_true, Bool.not_eq_true', not_or, Bool.not_eq_false, Bool.not_eq_true] at hcond
          obtain ⟨hseen, h0⟩ := hinv hcond.1
          rcases h with ((h | h) | h) | h
          · rw [hseen] at h; cases h
          · exact loop_after_dash cs _ rfl h0 h hcond.2
          · exact Or.inl (loop_next_dash cs _ rfl h)
          · exact ih _ seen (fun hl => by cases hl) h
      · have h' : dashMisused (seen || dgt c) cs = true := by
          simpa [dashMisused, cDash, h45] using h
        apply ih _ _ _ h'
        intro hl
        rw [step_digitCount]
        rcases step_lastDigit st c cs hl with hd | hl0
        · simp [hd]
        · obtain ⟨hseen, h0⟩ := hinv hl0
          simp [hseen]; omega
    · exact Or.inl (loop_error_ne _ _ herr)


/-! ## Email -/

/-- one unit of a label: `n` = size of the label before it -/
def domUnitOk (n c : Nat) (rest : List Nat) : Bool :=
  (if c == 45 then !(n == 0 || rest.isEmpty || rest.head? == some 46)
   else if 48 ≤ c && c ≤ 57 then n != 0
   else !(c < 65 || c > 122 || (c > 90 && c < 97))) && decide (n + 1 ≤ 63)

/-- the domain-part scanner without the bookkeeping: `n` = size of the current label so far -/
def domScan : Nat → List Nat → Bool
  | _, [] => true
  | n, c :: rest =>
    if c == 46 then n != 0 && !rest.isEmpty && domScan 0 rest
    else domUnitOk n c rest && domScan (n + 1) rest

/-- the local-part scanner: `pd` = the previous unit was a dot (or there is none), `i` = the position -/
def locScan : Bool → Nat → List Nat → Bool
  | _, _, [] => false
  | pd, i, c :: rest =>
    if c == 46 then !(pd || rest.isEmpty) && locScan true (i + 1) rest
    else if c == 64 then !(decide (i > 64) || pd) && !rest.isEmpty && decide (rest.length ≤ 255) && domScan 0 rest
    else !localCharRejected c && locScan false (i + 1) rest

theorem emailLoop_invalid (strSize i : Int) (st : EmailState) (cs : List Nat) (h : st.isValid = false) :
    emailLoop strSize i st cs = st := by
  cases cs with
  | nil => rfl
  | cons c cs => simp [emailLoop, h]

theorem emailLoop_cons (strSize i : Int) (st : EmailState) (c : Nat) (cs : List Nat) (h : st.isValid = true) :
    emailLoop strSize i st (c :: cs) = emailLoop strSize (i + 1) (emailStep strSize i st c cs.head?) cs := by
  simp [emailLoop, h]

theorem emailFinish_invalid (strSize : Int) (st : EmailState) (h : st.isValid = false) : emailFinish strSize st = false := by
  simp [emailFinish, h]

theorem step_dot (strSize i : Int) (st : EmailState) (next : Option Nat) :
    emailStep strSize i st 46 next =
      { st with isValid := st.isValid && !(st.lastDotPos + 1 == i || strSize - 1 == i), lastDotPos := i, currentLabelSize := 0 } := by
  unfold emailStep EmailState.invalid
  by_cases h : (st.lastDotPos + 1 == i || strSize - 1 == i) = true
  · simp [h]
  · simp [h]

theorem beq_dec {α : Type} [BEq α] [LawfulBEq α] [DecidableEq α] (a b : α) : (a == b) = decide (a = b) := by
  by_cases h : a = b <;> simp [h]

theorem ite_invalid_prop (p : Prop) [Decidable p] (st : EmailState) :
    (if p then st.invalid else st) = { st with isValid := st.isValid && !decide p } := by
  by_cases h : p <;> cases st <;> simp [EmailState.invalid, h]

/-- a unit of the domain part other than a dot -/
theorem step_domain (strSize i : Int) (st : EmailState) (c : Nat) (next : Option Nat) (h46 : c ≠ 46) (hl : st.isLocalPart = false) :
    emailStep strSize i st c next =
      { st with
        isValid := st.isValid &&
          (if c == 45 then !(st.currentLabelSize + 1 == 1 || i + 1 == strSize || next == some 46)
           else if 48 ≤ c && c ≤ 57 then !(st.currentLabelSize + 1 == 1)
           else !(c < 65 || c > 122 || (c > 90 && c < 97))) && !(decide (st.currentLabelSize + 1 > 63)),
        currentLabelSize := st.currentLabelSize + 1 } := by
  unfold emailStep
  simp only [beq_iff_eq, h46, if_false, hl, Bool.false_eq_true, domainPartLabelMaxSize]
  by_cases h45 : c = 45
  · simp only [h45, if_true, ite_invalid_prop]
    simp [beq_dec]
  · simp only [h45, if_false]
    by_cases hd : (48 ≤ c && c ≤ 57) = true
    · simp only [hd, if_true, ite_invalid_prop]
      simp [beq_dec]
    · simp only [hd, Bool.false_eq_true, if_false, ite_invalid_prop]
      simp

theorem step_at (strSize i : Int) (st : EmailState) (next : Option Nat) (hl : st.isLocalPart = true) :
    emailStep strSize i st 64 next =
      { st with isValid := st.isValid && !(decide (i > 64) || st.lastDotPos + 1 == i), isLocalPart := false, startDomainPos := i + 1,
                currentLabelSize := 0, lastDotPos := i } := by
  unfold emailStep EmailState.invalid
  simp only [hl, localPartMaxSize]
  by_cases hc : (decide (i > 64) || st.lastDotPos + 1 == i) = true
  · simp [hc]
  · simp [hc]

theorem step_local (strSize i : Int) (st : EmailState) (c : Nat) (next : Option Nat) (h46 : c ≠ 46) (h64 : c ≠ 64) (hl : st.isLocalPart = true) :
    emailStep strSize i st c next =
      { st with isValid := st.isValid && !localCharRejected c, currentLabelSize := st.currentLabelSize + 1 } := by
  unfold emailStep EmailState.invalid
  simp only [hl, h46, h64, beq_iff_eq, if_false, if_true]
  by_cases hc : localCharRejected c = true
  · simp [hc]
  · simp [hc]

theorem isEmpty_iff_len (strSize i : Int) (cs : List Nat) (h : i + 1 + (cs.length : Int) = strSize) :
    (i + 1 == strSize) = cs.isEmpty := by
  cases cs with
  | nil => simp at h; simp [h]
  | cons c cs =>
    have : i + 1 ≠ strSize := by simp at h; omega
    simp [this]

/-- the domain part of the loop is `domScan` -/
theorem emailLoop_domain (strSize : Int) (cs : List Nat) : ∀ (i : Int) (st : EmailState) (n : Nat),
    st.isValid = true → st.isLocalPart = false → st.currentLabelSize = n → st.lastDotPos + 1 ≤ i →
    (st.lastDotPos + 1 = i ↔ n = 0) → i + cs.length = strSize →
    (emailLoop strSize i st cs).isValid = domScan n cs ∧ (emailLoop strSize i st cs).isLocalPart = false ∧
    (emailLoop strSize i st cs).startDomainPos = st.startDomainPos := by
  induction cs with
  | nil => intro i st n hv hl _ _ _ _; simp [emailLoop, domScan, hv, hl]
  | cons c cs ih =>
    intro i st n hv hl hn hle hiff hlen
    rw [emailLoop_cons strSize i st c cs hv]
    have hlen' : i + 1 + (cs.length : Int) = strSize := by simp at hlen; omega
    by_cases h46 : c = 46
    · subst h46
      rw [step_dot]
      have hcond : (st.isValid && !(st.lastDotPos + 1 == i || strSize - 1 == i)) = (n != 0 && !cs.isEmpty) := by
        rw [hv, ← isEmpty_iff_len strSize i cs hlen']
        by_cases hn0 : n = 0
        · have := hiff.mpr hn0
          simp [hn0, this]
        · have : st.lastDotPos + 1 ≠ i := fun h => hn0 (hiff.mp h)
          have h2 : (strSize - 1 == i) = (i + 1 == strSize) := by
            by_cases h : i + 1 = strSize
            · have : strSize - 1 = i := by omega
              simp [h, this]
            · have : strSize - 1 ≠ i := by omega
              simp [beq_dec, h, this]
          have e : (st.lastDotPos + 1 == i) = false := by simp [beq_dec, this]
          have e' : (n != 0) = true := by simp [hn0]
          simp [e, e', h2]
      rw [hcond]
      cases hb : (n != 0 && !cs.isEmpty)
      · rw [emailLoop_invalid _ _ _ _ rfl]
        simp [domScan, hb, hl]
      · obtain ⟨h1, h2, h3⟩ := ih (i + 1) { st with isValid := true, lastDotPos := i, currentLabelSize := 0 } 0 rfl hl rfl
          (Int.le_refl _) (by simp) hlen'
        simp only [domScan, beq_self_eq_true, if_true]
        rw [hb, Bool.true_and]
        exact ⟨h1, h2, h3⟩
    · rw [step_domain strSize i st c cs.head? h46 hl]
      have hcond : (st.isValid &&
          (if c == 45 then !(st.currentLabelSize + 1 == 1 || i + 1 == strSize || cs.head? == some 46)
           else if 48 ≤ c && c ≤ 57 then !(st.currentLabelSize + 1 == 1)
           else !(c < 65 || c > 122 || (c > 90 && c < 97))) && !(decide (st.currentLabelSize + 1 > 63))) = domUnitOk n c cs := by
        rw [hv, hn, isEmpty_iff_len strSize i cs hlen']
        have e1 : (((n : Int) + 1 == 1) : Bool) = (n == 0) := by
          by_cases h : n = 0
          · simp [h]
          · have : (n : Int) + 1 ≠ 1 := by omega
            simp [beq_dec, h, this]
        have e2 : (!decide ((n : Int) + 1 > 63)) = decide (n + 1 ≤ 63) := by
          by_cases h : n + 1 ≤ 63
          · have : ¬ ((n : Int) + 1 > 63) := by omega
            simp [h, this]
          · have : ((n : Int) + 1 > 63) := by omega
            simp [h, this]
        simp only [domUnitOk, e1, e2, Bool.true_and]
        by_cases h45 : c = 45
        · simp [h45]
        · by_cases hd : (48 ≤ c && c ≤ 57) = true
          · simp [h45, hd, bne]
          · simp [h45, hd]
      rw [hcond]
      cases hb : domUnitOk n c cs
      · rw [emailLoop_invalid _ _ _ _ rfl]
        simp [domScan, h46, hb, hl]
      · obtain ⟨h1, h2, h3⟩ := ih (i + 1) { st with isValid := true, currentLabelSize := st.currentLabelSize + 1 } (n + 1) rfl hl
          (by simp [hn]) (by simp; omega) (by simp; omega) hlen'
        simp only [domScan, beq_iff_eq, h46, if_false, hb, Bool.true_and]
        exact ⟨h1, h2, h3⟩


/-- the whole loop and the final test are `locScan` -/
theorem emailLoop_local (strSize : Int) (cs : List Nat) : ∀ (i : Int) (st : EmailState) (pd : Bool) (iN : Nat),
    i = iN → st.isValid = true → st.isLocalPart = true → st.lastDotPos + 1 ≤ i →
    (st.lastDotPos + 1 = i ↔ pd = true) → i + cs.length = strSize →
    emailFinish strSize (emailLoop strSize i st cs) = locScan pd iN cs := by
  induction cs with
  | nil => intro i st pd iN _ _ hl _ _ _; simp [emailLoop, emailFinish, locScan, hl]
  | cons c cs ih =>
    intro i st pd iN hi hv hl hle hiff hlen
    rw [emailLoop_cons strSize i st c cs hv]
    have hlen' : i + 1 + (cs.length : Int) = strSize := by simp at hlen; omega
    have hpd : (st.lastDotPos + 1 == i) = pd := by
      cases pd
      · have : st.lastDotPos + 1 ≠ i := fun h => by simpa using hiff.mp h
        simp [beq_dec, this]
      · have := hiff.mpr rfl
        simp [this]
    by_cases h46 : c = 46
    · subst h46
      rw [step_dot]
      have hcond : (st.isValid && !(st.lastDotPos + 1 == i || strSize - 1 == i)) = !(pd || cs.isEmpty) := by
        rw [hv, hpd, ← isEmpty_iff_len strSize i cs hlen']
        have h2 : (strSize - 1 == i) = (i + 1 == strSize) := by
          by_cases h : i + 1 = strSize
          · have : strSize - 1 = i := by omega
            simp [h, this]
          · have : strSize - 1 ≠ i := by omega
            simp [beq_dec, h, this]
        simp [h2]
      rw [hcond]
      cases hb : !(pd || cs.isEmpty)
      · rw [emailLoop_invalid _ _ _ _ rfl, emailFinish_invalid _ _ rfl]
        simp [locScan, hb]
      · have := ih (i + 1) { st with isValid := true, lastDotPos := i, currentLabelSize := 0 } true (iN + 1) (by simp [hi]) rfl hl
          (Int.le_refl _) (by simp) hlen'
        simp only [locScan, beq_self_eq_true, if_true, hb, Bool.true_and]
        exact this
    · by_cases h64 : c = 64
      · subst h64
        rw [step_at strSize i st cs.head? hl]
        have hcond : (st.isValid && !(decide (i > 64) || st.lastDotPos + 1 == i)) = !(decide (iN > 64) || pd) := by
          rw [hv, hpd, hi]
          have : decide ((iN : Int) > 64) = decide (iN > 64) := by
            by_cases h : iN > 64
            · have : (iN : Int) > 64 := by omega
              simp [h, this]
            · have : ¬ (iN : Int) > 64 := by omega
              simp [h, this]
          simp [this]
        rw [hcond]
        cases hb : !(decide (iN > 64) || pd)
        · rw [emailLoop_invalid _ _ _ _ rfl, emailFinish_invalid _ _ rfl]
          simp [locScan, hb]
        · obtain ⟨h1, h2, h3⟩ := emailLoop_domain strSize cs (i + 1)
            { st with isValid := true, isLocalPart := false, startDomainPos := i + 1, currentLabelSize := 0, lastDotPos := i } 0
            rfl rfl rfl (Int.le_refl _) (by simp) hlen'
          simp only [locScan, show (64 == 46) = false from rfl, Bool.false_eq_true, if_false, beq_self_eq_true, if_true, hb, Bool.true_and]
          simp only [emailFinish, h1, h2, h3, domainPartMaxSize, Bool.false_or]
          rw [isEmpty_iff_len strSize i cs hlen']
          cases cs with
          | nil => simp
          | cons d ds =>
            by_cases hlen255 : (d :: ds).length ≤ 255
            · have : ¬ (strSize - (i + 1) > 255) := by omega
              simp [this]
              intro _; simpa using hlen255
            · have : strSize - (i + 1) > 255 := by omega
              simp [this]
              intro h; simp at hlen255; omega
      · rw [step_local strSize i st c cs.head? h46 h64 hl, hv, Bool.true_and]
        cases hb : !localCharRejected c
        · rw [emailLoop_invalid _ _ _ _ rfl, emailFinish_invalid _ _ rfl]
          simp [locScan, h46, h64, hb]
        · have := ih (i + 1) { st with isValid := true, currentLabelSize := st.currentLabelSize + 1 } false (iN + 1) (by simp [hi]) rfl hl
            (by simp; omega) (by simp; omega) hlen'
          simp only [locScan, beq_iff_eq, h46, h64, if_false, hb, Bool.true_and]
          exact this

theorem emailCore_eq_locScan (s : List Nat) : emailCore s = locScan true 0 s := by
  unfold emailCore
  exact emailLoop_local s.length s 0 {} true 0 rfl rfl rfl (by decide) (by decide) (by simp)

/-! ### the scanners against the grammar of the Spec -/

theorem localCharRejected_eq (c : Nat) : localCharRejected c = !atext c := by
  by_cases h : c < 127
  · have : ∀ d, d < 127 → localCharRejected d = !atext d := by decide +kernel
    exact this c h
  · have h1 : localCharRejected c = true := by
      simp [localCharRejected, show allowedLocalPartChars.length = 127 from rfl]
      exact Or.inl (by omega)
    have h2 : atext c = false := by
      simp [atext, alpha, dgt]
      refine ⟨⟨?_, ?_⟩, ?_⟩ <;> omega
    rw [h1, h2]; rfl


theorem splitDots_ne_nil (cs : List Nat) : ∃ l ls, splitDots cs = l :: ls := by
  induction cs with
  | nil => exact ⟨[], [], rfl⟩
  | cons c cs ih =>
    obtain ⟨l, ls, h⟩ := ih
    by_cases h46 : c = 46
    · exact ⟨[], splitDots cs, by simp [splitDots, cDot, h46]⟩
    · exact ⟨c :: l, ls, by simp [splitDots, cDot, h46, h]⟩

theorem splitDots_dot (cs : List Nat) : splitDots (46 :: cs) = [] :: splitDots cs := by
  simp [splitDots, cDot]

theorem splitDots_other (c : Nat) (cs l : List Nat) (ls : List (List Nat)) (h46 : c ≠ 46) (h : splitDots cs = l :: ls) :
    splitDots (c :: cs) = (c :: l) :: ls := by
  simp [splitDots, cDot, h46, h]

theorem splitDots_head_empty (cs l : List Nat) (ls : List (List Nat)) (h : splitDots cs = l :: ls) :
    l.isEmpty = (cs.isEmpty || cs.head? == some 46) := by
  cases cs with
  | nil => simp [splitDots] at h; simp [h.1]
  | cons d ds =>
    by_cases h46 : d = 46
    · subst h46
      rw [splitDots_dot] at h
      simp at h; simp [← h.1]
    · obtain ⟨l', ls', h'⟩ := splitDots_ne_nil ds
      rw [splitDots_other d ds l' ls' h46 h'] at h
      simp at h
      simp [← h.1, h46]

def firstAlpha (l : List Nat) : Bool :=
  match l.head? with
  | some c => alpha c
  | none => false

/-- the rest `l` of a label of which `n` units are already read -/
def contOk (n : Nat) (l : List Nat) : Bool :=
  decide (n + l.length ≤ 63) && l.all ldh && (n != 0 || firstAlpha l) && (l.isEmpty || lastOk l)

theorem lastOk_cons (c : Nat) (l : List Nat) : lastOk (c :: l) = if l.isEmpty then letDig c else lastOk l := by
  cases l with
  | nil => simp [lastOk]
  | cons d ds => simp [lastOk, List.getLast?_cons_cons]

theorem unit_contOk (n c : Nat) (rest l : List Nat) (h46 : c ≠ 46)
    (lE : l.isEmpty = (rest.isEmpty || rest.head? == some 46)) :
    contOk n (c :: l) = (domUnitOk n c rest && contOk (n + 1) l) := by
  have hsz : decide (n + (l.length + 1) ≤ 63) = (decide (n + 1 ≤ 63) && decide (n + 1 + l.length ≤ 63)) := by
    by_cases h : n + 1 + l.length ≤ 63
    · have h1 : n + (l.length + 1) ≤ 63 := by omega
      have h2 : n + 1 ≤ 63 := by omega
      simp [h, h1, h2]
    · have h1 : ¬ n + (l.length + 1) ≤ 63 := by omega
      simp [h, h1]
  simp only [contOk, domUnitOk, List.length_cons, List.all_cons, firstAlpha, List.head?_cons, List.isEmpty_cons, Bool.false_or,
    lastOk_cons, hsz, Bool.or_assoc, ← lE]
  have hnn : ((n + 1 != 0) : Bool) = true := by simp
  rw [hnn]
  by_cases h45 : c = 45
  · subst h45
    simp only [beq_self_eq_true, if_true, show ldh 45 = true from rfl, show alpha 45 = false from rfl, show letDig 45 = false from rfl]
    cases decide (n + 1 ≤ 63) <;> cases decide (n + 1 + l.length ≤ 63) <;> cases l.all ldh <;> cases l.isEmpty <;> cases lastOk l <;>
      cases hz : (n == 0) <;> simp [bne, hz]
  · by_cases hd : (48 ≤ c && c ≤ 57) = true
    · have hb : 48 ≤ c ∧ c ≤ 57 := by simpa using hd
      have a1 : alpha c = false := by simp [alpha]; omega
      have a2 : letDig c = true := by simp [letDig, dgt, hb]
      have a3 : ldh c = true := by simp [ldh, a2]
      simp only [beq_iff_eq, h45, if_false, hd, if_true, a1, a2, a3]
      cases decide (n + 1 ≤ 63) <;> cases decide (n + 1 + l.length ≤ 63) <;> cases l.all ldh <;> cases l.isEmpty <;> cases lastOk l <;>
        cases hz : (n == 0) <;> simp [bne, hz]
    · simp only [beq_iff_eq, h45, if_false, hd, Bool.false_eq_true]
      by_cases ha : alpha c = true
      · have a0 : (c < 65 || c > 122 || (c > 90 && c < 97)) = false := by
          simp [alpha] at ha ⊢; omega
        have a2 : letDig c = true := by simp [letDig, ha]
        have a3 : ldh c = true := by simp [ldh, a2]
        have hc3 : 65 ≤ c ∧ c ≤ 122 ∧ (c ≤ 90 ∨ 97 ≤ c) := by
          simp [alpha] at ha; omega
        simp only [ha, a2, a3]
        cases decide (n + 1 ≤ 63) <;> cases decide (n + 1 + l.length ≤ 63) <;> cases l.all ldh <;> cases l.isEmpty <;> cases lastOk l <;>
          cases hz : (n == 0) <;> simp [bne, hz, hc3]
      · have ha' : alpha c = false := by simpa using ha
        have a0 : (c < 65 || c > 122 || (c > 90 && c < 97)) = true := by
          simp [alpha] at ha' ⊢; omega
        have hdg : dgt c = false := by simpa [dgt] using hd
        have a3 : ldh c = false := by simp [ldh, letDig, ha', hdg, cDash, h45]
        have hc3 : ¬(65 ≤ c ∧ c ≤ 122 ∧ (c ≤ 90 ∨ 97 ≤ c)) := by
          simp [alpha] at ha'; omega
        simp [a3]
        intro h1 h2 h3
        exact absurd ⟨h1, h2, h3⟩ hc3


/-- the labels of a domain of which the first `n` units of the first label are already read -/
def labelsOk (n : Nat) (cs : List Nat) : Bool :=
  match splitDots cs with
  | l :: ls => contOk n l && ls.all (contOk 0)
  | [] => false

theorem labelsOk_zero (cs : List Nat) : labelsOk 0 cs = (splitDots cs).all (contOk 0) := by
  obtain ⟨l, ls, h⟩ := splitDots_ne_nil cs
  simp [labelsOk, h]

theorem domUnitOk_size {n c : Nat} {rest : List Nat} (h : domUnitOk n c rest = true) : n + 1 ≤ 63 := by
  simp only [domUnitOk, Bool.and_eq_true, decide_eq_true_eq] at h
  exact h.2

theorem domScan_eq (cs : List Nat) : ∀ n, n ≤ 63 → (n ≠ 0 ∨ cs ≠ []) → domScan n cs = labelsOk n cs := by
  induction cs with
  | nil =>
    intro n hn h0
    have : n ≠ 0 := by rcases h0 with h | h; exact h; exact absurd rfl h
    simp [domScan, labelsOk, splitDots, contOk, hn, this]
  | cons c cs ih =>
    intro n hn _
    by_cases h46 : c = 46
    · subst h46
      simp only [domScan, beq_self_eq_true, if_true, labelsOk, splitDots_dot]
      have hc : contOk n [] = (n != 0) := by simp [contOk, hn, firstAlpha]
      rw [hc, ← labelsOk_zero]
      cases cs with
      | nil => simp [labelsOk, splitDots, contOk, firstAlpha]
      | cons d ds =>
        rw [ih 0 (by omega) (Or.inr (by simp))]
        simp
    · obtain ⟨l, ls, hs⟩ := splitDots_ne_nil cs
      have lE := splitDots_head_empty cs l ls hs
      simp only [domScan, beq_iff_eq, h46, if_false, labelsOk, splitDots_other c cs l ls h46 hs, unit_contOk n c cs l h46 lE]
      cases hu : domUnitOk n c cs
      · simp
      · rw [ih (n + 1) (domUnitOk_size hu) (Or.inl (by omega))]
        simp [labelsOk, hs]


theorem alpha_not_dgt {c : Nat} (h : alpha c = true) : dgt c = false := by
  simp [alpha] at h
  simp [dgt]
  omega

theorem contOk_zero (l : List Nat) : contOk 0 l = (labelOk l && !startsWithDigit l) := by
  cases l with
  | nil => simp [contOk, labelOk, firstAlpha, firstOk]
  | cons c t =>
    simp only [contOk, labelOk, firstAlpha, firstOk, startsWithDigit, List.head?_cons, List.isEmpty_cons, Bool.false_or,
      Nat.zero_add, bne_self_eq_false, letDig]
    cases ha : alpha c
    · cases dgt c <;> simp
    · simp [alpha_not_dgt ha]

theorem all_and_not {α : Type} (p q : α → Bool) (l : List α) :
    l.all (fun x => p x && !q x) = (l.all p && !l.any q) := by
  induction l with
  | nil => rfl
  | cons x xs ih =>
    simp only [List.all_cons, List.any_cons, ih]
    cases p x <;> cases q x <;> simp

theorem labelsOk_zero_spec (d : List Nat) :
    (decide (d.length ≤ 255) && labelsOk 0 d) = (domainOk d && !digitFirstLabel d) := by
  have : (contOk 0) = (fun l => labelOk l && !startsWithDigit l) := funext contOk_zero
  rw [labelsOk_zero, this, all_and_not, domainOk, digitFirstLabel, Bool.and_assoc]

def atomsOk (pd : Bool) (l : List Nat) : Bool :=
  match splitDots l with
  | a :: as => (!pd || !a.isEmpty) && a.all atext && as.all atomOk
  | [] => false

theorem atomsOk_true (l : List Nat) : atomsOk true l = (splitDots l).all atomOk := by
  obtain ⟨a, as, h⟩ := splitDots_ne_nil l
  simp [atomsOk, h, atomOk]

theorem afterAt_some_ne {cs d : List Nat} (h : afterAt cs = some d) : cs.isEmpty = false := by
  cases cs with
  | nil => simp [afterAt] at h
  | cons c cs => rfl

theorem locScan_eq (cs : List Nat) : ∀ pd i, locScan pd i cs =
    match afterAt cs with
    | none => false
    | some d => atomsOk pd (localPart cs) && decide (i + (localPart cs).length ≤ 64) && decide (d.length ≤ 255) && labelsOk 0 d := by
  induction cs with
  | nil => intro pd i; simp [locScan, afterAt]
  | cons c cs ih =>
    intro pd i
    by_cases h46 : c = 46
    · subst h46
      have e1 : afterAt (46 :: cs) = afterAt cs := by simp [afterAt, cAt]
      have e2 : localPart (46 :: cs) = 46 :: localPart cs := by simp [localPart, cAt]
      simp only [locScan, beq_self_eq_true, if_true, ih, e1, e2]
      cases hd : afterAt cs with
      | none => simp
      | some d =>
        have hl : i + (46 :: localPart cs).length = i + 1 + (localPart cs).length := by simp; omega
        simp only [afterAt_some_ne hd, Bool.or_false, hl]
        simp only [atomsOk, splitDots_dot, List.isEmpty_nil, Bool.not_true, Bool.or_false, List.all_nil, Bool.and_true]
        rw [← atomsOk_true]
        simp only [atomsOk, Bool.and_assoc]
        simp
    · by_cases h64 : c = 64
      · subst h64
        have e1 : afterAt (64 :: cs) = some cs := by simp [afterAt, cAt]
        have e2 : localPart (64 :: cs) = [] := by simp [localPart, cAt]
        simp only [locScan, show (64 == 46) = false from rfl, Bool.false_eq_true, if_false, beq_self_eq_true, if_true, e1, e2]
        have hat : atomsOk pd [] = !pd := by simp [atomsOk, splitDots]
        rw [hat]
        cases cs with
        | nil => simp [labelsOk, splitDots, contOk, firstAlpha]
        | cons d ds =>
          rw [domScan_eq (d :: ds) 0 (by omega) (Or.inr (by simp))]
          by_cases hi : i ≤ 64
          · have : ¬ i > 64 := by omega
            simp [hi, this]
          · have : i > 64 := by omega
            simp [hi, this]
      · have e1 : afterAt (c :: cs) = afterAt cs := by simp [afterAt, cAt, h64]
        have e2 : localPart (c :: cs) = c :: localPart cs := by simp [localPart, cAt, h64]
        simp only [locScan, beq_iff_eq, h46, h64, if_false, ih, e1, e2, localCharRejected_eq, Bool.not_not]
        cases hd : afterAt cs with
        | none => simp
        | some d =>
          obtain ⟨a, as, hs⟩ := splitDots_ne_nil (localPart cs)
          have hl : i + (c :: localPart cs).length = i + 1 + (localPart cs).length := by simp; omega
          simp only [hl, atomsOk, splitDots_other c _ a as h46 hs, hs, List.isEmpty_cons, Bool.not_false, Bool.or_true, Bool.true_and,
            List.all_cons, Bool.and_assoc]
          simp

/-- **the model of Email, characterised by the grammar of the Spec** -/
theorem emailCore_spec (s : List Nat) : emailCore s =
    match afterAt s with
    | none => false
    | some d => localOk (localPart s) && domainOk d && !digitFirstLabel d := by
  rw [emailCore_eq_locScan, locScan_eq]
  cases afterAt s with
  | none => rfl
  | some d =>
    simp only [atomsOk_true, Nat.zero_add]
    rw [Bool.and_assoc, labelsOk_zero_spec, localOk]
    cases (splitDots (localPart s)).all atomOk <;> cases decide ((localPart s).length ≤ 64) <;> simp

end BSVerif.Valid.Text
