/-
  MODEL of the two text validators of serialization_detail/validators.h (C17), branch for branch:

    PhoneNumber::operator()(value, isLoaded)   -> `phone`      (loop body `phoneStep`, loop `phoneLoop`, tail `phoneFinish`)
    Email::operator()(value, isLoaded)         -> `email`      (loop body `emailStep`, loop `emailLoop`, tail `emailFinish`)

  Strings are lists of CODE UNITS (`List Nat`): `Convert::Detail::ToStringView` returns a
  `basic_string_view<TSym>` over the value's own units (no transcoding; for `const TSym*` the view ends at the
  first NUL — `cstrView`), and both functors compare `static_cast<make_unsigned_t<TSym>>(str[i])` with ASCII
  constants, so one model serves char / char16_t / char32_t / wchar_t: a unit is its unsigned value.

  Integers: PhoneNumber counts in `size_t` (one increment per unit: cannot wrap for a string that fits in
  memory). Email narrows `str.size()` to `int`: for 2^31 units or more the narrowing is implementation
  defined and the loop arithmetic is no longer the mathematical one — the distinguished outcome
  `EmailOutcome.sizeOverflow` (never produced by the correspondence run); below that bound every `int`
  of the function stays within [-1, strSize] and is modelled by `Int`.

  The model is of the FIXED tree (fixes/0001, fixes/0002): `@` anchors the "dot cannot be first" test of the
  domain part, and a dash followed only by spaces counts as a dash at the end.
-/
namespace BSVerif.Valid.Text

/-! ### PhoneNumber -/

/-- the message classes of PhoneNumber (the `const char* error` literals and the two composed texts) -/
inductive PhoneErr where
  | dashes                          -- "(dashes should be used to separate numbers)"
  | nested                          -- "(contains nested parentheses)"
  | closing                         -- "(invalid closing parenthesis)"
  | chars                           -- "(contains invalid characters)"
  | plus                            -- "(missing initial `+`)"
  | unclosed                        -- "(missing closing parenthesis)"
  | digitsExact (n : Nat)           -- "(must contain n digits)"
  | digitsRange (lo hi : Nat)       -- "(the number of digits must be from lo to hi)"
  deriving Repr, DecidableEq

/-- constructor parameters (defaults of the C++ constructor) -/
structure PhoneCfg where
  minNumbers : Nat := 7
  maxNumbers : Nat := 15
  plusRequired : Bool := true
  deriving Repr, DecidableEq

/-- the locals of `operator()` -/
structure PhoneState where
  hasPlus : Bool := false
  inPar : Bool := false             -- isInParenthesis
  lastDigit : Bool := false         -- isLastDigit
  digitCount : Nat := 0
  error : Option PhoneErr := none   -- `const char* error`
  deriving Repr, DecidableEq

/-- `ch >= '0' && ch <= '9'` -/
def isDigit (ch : Nat) : Bool := 48 ≤ ch && ch ≤ 57

/-- `str.find_first_not_of(' ', i + 1) == npos` on the units after position i -/
def onlySpaces (rest : List Nat) : Bool := rest.all (· == 32)

/-- one pass through the body of the for loop at unit `ch`; `rest` = the units after it -/
def phoneStep (st : PhoneState) (ch : Nat) (rest : List Nat) : PhoneState :=
  if st.digitCount == 0 && ch == 43 then { st with hasPlus := true }                       -- '+'
  else if isDigit ch then { st with digitCount := st.digitCount + 1, lastDigit := true }
  else if ch != 32 then
    let st1 : PhoneState :=
      if ch == 45 then                                                                     -- '-'
        if !st.lastDigit || onlySpaces rest then { st with error := some .dashes } else st
      else if ch == 40 then                                                                -- '('
        let st0 := if st.inPar then { st with error := some .nested } else st
        { st0 with inPar := true }
      else if ch == 41 then                                                                -- ')'
        if st.inPar && st.lastDigit then { st with inPar := false } else { st with error := some .closing }
      else { st with error := some .chars }
    { st1 with lastDigit := false }
  else st

/-- `for (i = 0; i < strSize && error == nullptr; ++i)` over the remaining units -/
def phoneLoop : PhoneState → List Nat → PhoneState
  | st, [] => st
  | st, ch :: rest => if st.error.isSome then st else phoneLoop (phoneStep st ch rest) rest

/-- the code after the loop: the later tests overwrite the earlier error -/
def phoneFinish (cfg : PhoneCfg) (st : PhoneState) : Option PhoneErr :=
  let e1 := if !st.hasPlus && cfg.plusRequired then some PhoneErr.plus else st.error
  let e2 := if st.inPar then some PhoneErr.unclosed else e1
  match e2 with
  | some e => some e
  | none =>
    if st.digitCount < cfg.minNumbers || st.digitCount > cfg.maxNumbers then
      if cfg.minNumbers == cfg.maxNumbers then some (.digitsExact cfg.minNumbers)
      else some (.digitsRange cfg.minNumbers cfg.maxNumbers)
    else none

/-- `PhoneNumber(min, max, plus)(value, isLoaded)`: `none` = passed (std::nullopt) -/
def phone (cfg : PhoneCfg) (loaded : Bool) (s : List Nat) : Option PhoneErr :=
  if !loaded then none else phoneFinish cfg (phoneLoop {} s)

/-- the default texts (`errorMessage == nullptr`); `Convert::ToString(size_t)` is the decimal numeral -/
def PhoneErr.message : PhoneErr → String
  | .dashes => "Invalid phone number (dashes should be used to separate numbers)"
  | .nested => "Invalid phone number (contains nested parentheses)"
  | .closing => "Invalid phone number (invalid closing parenthesis)"
  | .chars => "Invalid phone number (contains invalid characters)"
  | .plus => "Invalid phone number (missing initial `+`)"
  | .unclosed => "Invalid phone number (missing closing parenthesis)"
  | .digitsExact n => "Invalid phone number (must contain " ++ toString n ++ " digits)"
  | .digitsRange lo hi => "Invalid phone number (the number of digits must be from " ++ toString lo ++ " to " ++ toString hi ++ ")"

/-- the returned optional<string>: a custom `errorMessage` replaces every text -/
def phoneMessage (custom : Option String) (cfg : PhoneCfg) (loaded : Bool) (s : List Nat) : Option String :=
  (phone cfg loaded s).map fun e => custom.getD e.message

/-! ### Email -/

def localPartMaxSize : Int := 64
def domainPartMaxSize : Int := 255
def domainPartLabelMaxSize : Int := 63

/-- `allowedLocalPartChars[127]`, copied entry for entry -/
def allowedLocalPartChars : List Nat :=
  [0,0,0,0,0,0,0,0,0,0,0,0,0,0,0,0,0,0,0,0,0,0,0,0,0,0,0,0,0,0,0,0,0,33,0,35,36,37,38,39,0,0,42,43,0,45,0,47,48,49,50,51,52,53,54,55,56,57,
   0,0,0,61,0,63,0,65,66,67,68,69,70,71,72,73,74,75,76,77,78,79,80,81,82,83,84,85,86,87,88,89,90,0,0,0,94,95,96,97,98,99,100,101,102,103,104,
   105,106,107,108,109,110,111,112,113,114,115,116,117,118,119,120,121,122,123,124,125,126]

/-- `ch >= sizeof(allowedLocalPartChars) || allowedLocalPartChars[ch] == 0` -/
def localCharRejected (ch : Nat) : Bool := ch ≥ allowedLocalPartChars.length || allowedLocalPartChars.getD ch 0 == 0

/-- the locals of `operator()` -/
structure EmailState where
  isValid : Bool := true
  isLocalPart : Bool := true
  currentLabelSize : Int := 0
  startDomainPos : Int := 0
  lastDotPos : Int := -1
  deriving Repr, DecidableEq

def EmailState.invalid (st : EmailState) : EmailState := { st with isValid := false }

/-- one pass through the loop body at index `i`, unit `ch`; `next` = `str[i + 1]` when it exists -/
def emailStep (strSize i : Int) (st : EmailState) (ch : Nat) (next : Option Nat) : EmailState :=
  let st := { st with currentLabelSize := st.currentLabelSize + 1 }
  if ch == 46 then                                                                          -- '.'
    let st := if st.lastDotPos + 1 == i || strSize - 1 == i then st.invalid else st
    { st with lastDotPos := i, currentLabelSize := 0 }
  else if st.isLocalPart then
    if ch == 64 then                                                                        -- '@'
      let st := { st with isLocalPart := false, startDomainPos := i + 1, currentLabelSize := 0 }
      let st := if i > localPartMaxSize || st.lastDotPos + 1 == i then st.invalid else st
      { st with lastDotPos := i }
    else if localCharRejected ch then st.invalid
    else st
  else
    let st :=
      if ch == 45 then                                                                      -- '-'
        if st.currentLabelSize == 1 || i + 1 == strSize || next == some 46 then st.invalid else st
      else if 48 ≤ ch && ch ≤ 57 then
        if st.currentLabelSize == 1 then st.invalid else st
      else if ch < 65 || ch > 122 || (ch > 90 && ch < 97) then st.invalid
      else st
    if st.currentLabelSize > domainPartLabelMaxSize then st.invalid else st

/-- `for (int i = 0; i < strSize && isValid; ++i)` over the remaining units -/
def emailLoop (strSize : Int) : Int → EmailState → List Nat → EmailState
  | _, st, [] => st
  | i, st, ch :: rest => if !st.isValid then st else emailLoop strSize (i + 1) (emailStep strSize i st ch rest.head?) rest

/-- the test after the loop -/
def emailFinish (strSize : Int) (st : EmailState) : Bool :=
  if st.isLocalPart || st.startDomainPos == strSize || strSize - st.startDomainPos > domainPartMaxSize then false
  else st.isValid

/-- the function for a string whose size fits `int`: true = passed -/
def emailCore (s : List Nat) : Bool :=
  emailFinish s.length (emailLoop s.length 0 {} s)

inductive EmailOutcome where
  | pass | fail
  | sizeOverflow        -- str.size() ≥ 2^31: `static_cast<int>` is implementation defined, not modelled
  deriving Repr, DecidableEq

/-- `Email()(value, isLoaded)` -/
def email (loaded : Bool) (s : List Nat) : EmailOutcome :=
  if !loaded then .pass
  else if s.length ≥ 2 ^ 31 then .sizeOverflow
  else if emailCore s then .pass else .fail

def emailDefaultMessage : String := "Invalid email address"

/-! ### `ToStringView(const TSym*)` -/

/-- a C string ends at its first NUL -/
def cstrView (s : List Nat) : List Nat := s.takeWhile (· != 0)

end BSVerif.Valid.Text
