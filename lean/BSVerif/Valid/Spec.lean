/-
  SPEC / ORACLE for C17, from the property text and the documented semantics of the built-in validators
  (docs: "Required — the field must be loaded; Range/MinSize/MaxSize — inclusive bounds, pass when the field is
  absent"), not from the C++ control flow. There is no error map machine here: the expected report is
  described declaratively.

  `failing cls doc` : the fields whose validators fail, in load order, each with the messages of its failing
  validators in declaration order.
  Expected exception content: cap = 0 → exactly `failing`; cap = n > 0 → if fewer than n fields fail, exactly
  `failing`; otherwise the first n failing fields, the first n−1 complete and the n-th with a non-empty
  prefix of its messages (collection stops when the cap is reached — pinned by the library's core tests).

  Enum fields (README "Serializing enum types": an enum is saved as the string registered for it; pinned test
  ConvertEnums.EnumFromCStr: "One", u"TWO", U"three" all convert — letter case is ignored): the field is loaded iff the
  document holds a STRING that equals a registered name up to ASCII letter case (`registered`); any other string, any
  value of another type, nil, an absent key leave the member as it was.

  MismatchedTypesPolicy (README "Error handling": "When a type from the archive does not match to the target value (can be
  configured via MismatchedTypesPolicy)"; options doc: ThrowError is the default, Skip ignores the value): under ThrowError
  a value that is present, not null and not loadable into its target ends the load with
  SerializationException(MismatchedTypes) — unless maxValidationErrors was already reached by the fields loaded before it
  (`occsT`, `failingBefore`, `judgeT`). A document without such a value is loaded as under Skip.
-/
import BSVerif.Valid.Model

namespace BSVerif.Valid.Spec
open BSVerif.Scope BSVerif.Scope.Spec BSVerif.Valid

/-- documented semantics: does the validator reject (value, loaded)? -/
def fails : Validator → Seen → Bool → Bool
  | .required _, _, loaded => !loaded
  | .range lo hi _, v, loaded => loaded && !(decide (lo ≤ v.int) && decide (v.int ≤ hi))
  | .minSize n _, v, loaded => loaded && decide (v.size < n)
  | .maxSize n _, v, loaded => loaded && decide (n < v.size)
  | .verdict pass _, _, loaded => loaded && !pass
  | .custom f _, v, loaded => f v loaded

/-- documented messages -/
def message : Validator → String
  | .required msg => msg.getD "This field is required"
  | .range lo hi msg => msg.getD ("Value must be between " ++ toString lo ++ " and " ++ toString hi)
  | .minSize n msg => msg.getD ("The minimum size of this field should be " ++ toString n)
  | .maxSize n msg => msg.getD ("The maximum size of this field should be not greater than " ++ toString n)
  | .verdict _ msg => msg
  | .custom _ msg => msg

/-- one visited field: its path, its validators, what they see, whether it was loaded -/
structure Occ where
  path : String
  validators : List Validator
  seen : Seen
  loaded : Bool

def strKey (key : String) (v : Val) : Bool :=
  match v with
  | .sc (.str s) => s == key.toList.map Char.toNat
  | _ => false

def valueAt (entries : List (Val × Val)) (key : String) : Option Val :=
  (entries.find? fun e => strKey key e.1).map (·.2)

/-- a string with its ASCII capital letters replaced by small ones -/
def foldCase (s : List Nat) : List Nat := s.map fun c => if 65 ≤ c ∧ c ≤ 90 then c + 32 else c

/-- the enumerator a string names: the position of the registered name it equals up to letter case -/
def registered (s : List Nat) : Option Nat := enumNames.findIdx? fun n => foldCase n == foldCase s

/-- is the document value loadable into a leaf of this kind, and what do validators see (an enum member that is not
    loaded still holds its initial value) -/
def leafView : Leaf → Option Val → Bool × Seen
  | .int, some (.sc (.int v)) => (true, ⟨v, 0⟩)
  | .str, some (.sc (.str s)) => (true, ⟨0, s.length⟩)
  | .optInt, some (.sc (.int _)) => (true, ⟨0, 0⟩)
  | .vecInt, some (.arr items) => (true, ⟨0, items.length⟩)
  | .enm, some (.sc (.str s)) =>
    match registered s with
    | some i => (true, ⟨i, 0⟩)
    | none => (false, ⟨enumInitial, 0⟩)
  | .enm, _ => (false, ⟨enumInitial, 0⟩)
  | _, _ => (false, ⟨0, 0⟩)

def flatOccs (pfx : String) (fields : List LeafField) (entries : List (Val × Val)) : List Occ :=
  fields.map fun f =>
    let w := leafView f.kind (valueAt entries f.key)
    ⟨pfx ++ "/" ++ f.key, f.validators, w.2, w.1⟩

/-- the fields visited by a load, in load order: the members of a nested object come before the field that
    holds it; array positions are 1-based in the paths -/
def fieldOccs (f : Field) (v : Option Val) : List Occ :=
  let p := "/" ++ f.key
  match f.kind, v with
  | .leaf k, v => let w := leafView k v; [⟨p, f.validators, w.2, w.1⟩]
  | .obj fields, some (.map es) => flatOccs p fields es ++ [⟨p, f.validators, ⟨0, 0⟩, true⟩]
  | .vecObj fields, some (.arr items) =>
    (items.zipIdx.flatMap fun it => match it.1 with
      | .map es => flatOccs (p ++ "/" ++ toString (it.2 + 1)) fields es
      | _ => []) ++ [⟨p, f.validators, ⟨0, items.length⟩, true⟩]
  | .mapObj fields, some (.map es) =>
    let strs := es.filter fun e => match e.1 with | .sc (.str _) => true | _ => false
    (strs.flatMap fun e => match e.1, e.2 with
      | .sc (.str k), .map es' => flatOccs (p ++ "/" ++ String.ofList (k.map Char.ofNat)) fields es'
      | _, _ => []) ++ [⟨p, f.validators, ⟨0, strs.length⟩, true⟩]
  | _, _ => [⟨p, f.validators, ⟨0, 0⟩, false⟩]

def occs (cls : List Field) (doc : Val) : List Occ :=
  match doc with
  | .map es => cls.flatMap fun f => fieldOccs f (valueAt es f.key)
  | _ => []

def occMessages (o : Occ) : List String := (o.validators.filter fun v => fails v o.seen o.loaded).map message

/-- **the specification**: failing fields in load order with their messages -/
def failing (cls : List Field) (doc : Val) : List (String × List String) :=
  (occs cls doc).filterMap fun o => let ms := occMessages o; if ms.isEmpty then none else some (o.path, ms)

/-! ### oracle -/

def isPrefix (a b : List String) : Bool := a.length ≤ b.length && b.take a.length == a

def sortByPath (m : List (String × List String)) : List (String × List String) := m.mergeSort fun a b => a.1 ≤ b.1

def nodupPaths (m : List (String × List String)) : Bool :=
  let ps := m.map (·.1)
  ps.length == ps.eraseDups.length

/-- is the reported error map (sorted by path) what the property demands for this cap? -/
def acceptErrors (cap : Nat) (expected : List (String × List String)) (got : List (String × List String)) : Bool :=
  if cap = 0 ∨ expected.length < cap then got == sortByPath expected
  else
    let full := expected.take (cap - 1)
    match expected[cap - 1]? with
    | none => false
    | some last =>
      got.length == cap &&
        (full.all fun e => got.contains e) &&
        (got.any fun g => g.1 == last.1 && !g.2.isEmpty && isPrefix g.2 last.2)

/-- expected leaf states (fresh object): the document's value where loadable, else the member's initial value -/
def leafState : Leaf → Option Val → LeafVal
  | .int, some (.sc (.int v)) => .int v
  | .int, _ => .int 0
  | .str, some (.sc (.str s)) => .str s
  | .str, _ => .str []
  | .optInt, some (.sc (.int v)) => .opt (some v)
  | .optInt, _ => .opt none
  | .vecInt, some (.arr items) => .vec (items.map fun it => match it with | .sc (.int v) => v | _ => 0)
  | .vecInt, _ => .vec []
  | .enm, some (.sc (.str s)) => .enm ((registered s).getD enumInitial)
  | .enm, _ => .enm enumInitial

def flatState (fields : List LeafField) (entries : List (Val × Val)) : FlatVal :=
  fields.map fun f => leafState f.kind (valueAt entries f.key)

def fieldState (f : Field) (v : Option Val) : FieldVal :=
  match f.kind, v with
  | .leaf k, v => .leaf (leafState k v)
  | .obj fields, some (.map es) => .obj (flatState fields es)
  | .obj fields, _ => .obj (flatState fields [])
  | .vecObj fields, some (.arr items) => .vec (items.map fun it => match it with
      | .map es => flatState fields es
      | _ => flatState fields [])
  | .vecObj _, _ => .vec []
  | .mapObj fields, some (.map es) => .map (es.filterMap fun e => match e.1 with
      | .sc (.str k) => some (k, match e.2 with | .map es' => flatState fields es' | _ => flatState fields [])
      | _ => none)
  | .mapObj _, _ => .map []

def expectedState (cls : List Field) (doc : Val) : List FieldVal :=
  match doc with
  | .map es => cls.map fun f => fieldState f (valueAt es f.key)
  | _ => cls.map fun f => fieldState f none

/-- what the implementation answered -/
inductive Answer where
  | ok (state : String)
  | validation (errors : List (String × List String)) (state : Option String)
  | err (cls : String)

/-- `stateStr` renders a state canonically (supplied by the driver) -/
def judge (stateStr : List FieldVal → String) (canonMsg : String → String) (cap : Nat) (cls : List Field) (doc : Val)
    (a : Answer) : String :=
  let expected := (failing cls doc).map fun e => (e.1, e.2.map canonMsg)     -- the line protocol has no spaces
  if !nodupPaths expected then "nospec"
  else
    let st := stateStr (expectedState cls doc)
    match a with
    | .err c => s!"bad:unexpected_exception_{c}"
    | .ok s =>
      if !expected.isEmpty then "bad:no_ValidationException_although_a_validator_fails"
      else if s != st then "bad:loaded_values_differ_from_the_document"
      else "ok"
    | .validation errs s =>
      if expected.isEmpty then "bad:ValidationException_although_no_validator_fails"
      else if !acceptErrors cap expected errs then "bad:reported_fields_or_messages_differ"
      else match s with
        | some s => if s != st then "bad:passing_fields_not_loaded" else "ok"
        | none => if cap = 0 ∨ expected.length < cap then "bad:state_missing" else "ok"

/-! ### MismatchedTypesPolicy::ThrowError -/

def isNil : Val → Bool
  | .sc .nil => true
  | _ => false

/-- the document holds, for a leaf of this kind, a value that is neither null nor loadable into it (for a vector of
    integers: an element that is neither an integer nor null counts as well) -/
def leafMismatch (k : Leaf) (v : Option Val) : Bool :=
  match v with
  | none => false
  | some v =>
    !isNil v &&
      match k, v with
      | .vecInt, .arr items => items.any fun it => match it with
          | .sc (.int _) => false
          | .sc .nil => false
          | _ => true
      | k, v => !(leafView k (some v)).1

/-- the visited fields with a marker `none` where a mismatched value stands -/
def flatOccsT (pfx : String) (fields : List LeafField) (entries : List (Val × Val)) : List (Option Occ) :=
  fields.map fun f =>
    let v := valueAt entries f.key
    if leafMismatch f.kind v then none
    else let w := leafView f.kind v; some ⟨pfx ++ "/" ++ f.key, f.validators, w.2, w.1⟩

def fieldOccsT (f : Field) (v : Option Val) : List (Option Occ) :=
  let p := "/" ++ f.key
  match f.kind, v with
  | .leaf k, v => if leafMismatch k v then [none] else let w := leafView k v; [some ⟨p, f.validators, w.2, w.1⟩]
  | .obj fields, some (.map es) => flatOccsT p fields es ++ [some ⟨p, f.validators, ⟨0, 0⟩, true⟩]
  | .vecObj fields, some (.arr items) =>
    (items.zipIdx.flatMap fun it => match it.1 with
      | .map es => flatOccsT (p ++ "/" ++ toString (it.2 + 1)) fields es
      | .sc .nil => []
      | _ => [none]) ++ [some ⟨p, f.validators, ⟨0, items.length⟩, true⟩]
  | .mapObj fields, some (.map es) =>
    let strs := es.filter fun e => match e.1 with | .sc (.str _) => true | _ => false
    (strs.flatMap fun e => match e.1, e.2 with
      | .sc (.str k), .map es' => flatOccsT (p ++ "/" ++ String.ofList (k.map Char.ofNat)) fields es'
      | _, .sc .nil => []
      | _, _ => [none]) ++ [some ⟨p, f.validators, ⟨0, strs.length⟩, true⟩]
  | _, none => [some ⟨p, f.validators, ⟨0, 0⟩, false⟩]
  | _, some v => if isNil v then [some ⟨p, f.validators, ⟨0, 0⟩, false⟩] else [none]

def occsT (cls : List Field) (doc : Val) : List (Option Occ) :=
  match doc with
  | .map es => cls.flatMap fun f => fieldOccsT f (valueAt es f.key)
  | v => if isNil v then [] else [none]

def hasMismatch (cls : List Field) (doc : Val) : Bool := (occsT cls doc).any Option.isNone

/-- the fields visited before the first mismatched value -/
def beforeMismatch (cls : List Field) (doc : Val) : List Occ := ((occsT cls doc).takeWhile Option.isSome).filterMap id

def failingOf (os : List Occ) : List (String × List String) :=
  os.filterMap fun o => let ms := occMessages o; if ms.isEmpty then none else some (o.path, ms)

/-- what the validators of the fields loaded before the first mismatched value report -/
def failingBefore (cls : List Field) (doc : Val) : List (String × List String) := failingOf (beforeMismatch cls doc)

/-- the judgement of a `val.loadt` answer: a document without a mismatched value is judged as under Skip; with one, the
    answer must be MismatchedTypes, unless the cap is reached by the fields before it (then the capped report) -/
def judgeT (stateStr : List FieldVal → String) (canonMsg : String → String) (cap : Nat) (cls : List Field) (doc : Val)
    (a : Answer) : String :=
  if !hasMismatch cls doc then judge stateStr canonMsg cap cls doc a
  else
    let expected := (failingBefore cls doc).map fun e => (e.1, e.2.map canonMsg)
    if !nodupPaths expected then "nospec"
    else
      let capped : Bool := decide (0 < cap) && decide (cap ≤ expected.length)
      match a with
      | .ok _ => "bad:no_exception_although_a_value_is_mismatched_under_ThrowError"
      | .err c =>
        if c != "mismatched" then s!"bad:unexpected_exception_{c}"
        else if capped then "bad:MismatchedTypes_although_maxValidationErrors_was_reached_before_the_mismatched_value"
        else "ok"
      | .validation errs st =>
        if !capped then "bad:ValidationException_although_a_mismatched_value_ends_the_load_first"
        else if !acceptErrors cap expected errs then "bad:reported_fields_or_messages_differ"
        else if st.isSome then "bad:state_of_an_abandoned_load"
        else "ok"

end BSVerif.Valid.Spec
