/-
  The abstract reader reads every RFC 4180 rendering of a table as that table: line-level lemmas
  (`absLine` on a rendered record) and the step property `LineStep` used by the session proofs.
-/
import BSVerif.Csv.AbsBasic
import BSVerif.Csv.SpecLemmas

namespace BSVerif.Csv.Abs
open BSVerif.Csv BSVerif.Csv.Reader BSVerif.Csv.Spec

variable {sep : Nat}

/-- prepend a whole string to the cell being scanned -/
def pushAll (s : List Nat) (x : List RawCell × List Nat) : List RawCell × List Nat := s.foldr pushRaw x

@[simp] theorem pushAll_nil (x : List RawCell × List Nat) : pushAll [] x = x := rfl
@[simp] theorem pushAll_cons (c : Nat) (s : List Nat) (x : List RawCell × List Nat) :
    pushAll (c :: s) x = pushRaw c (pushAll s x) := rfl
theorem pushAll_append (s t : List Nat) (x : List RawCell × List Nat) : pushAll (s ++ t) x = pushAll s (pushAll t x) := by
  simp [pushAll, List.foldr_append]

/-- the cell made of the string `s` -/
def fieldCell (s : List Nat) : RawCell := ⟨s, s.contains 34⟩

theorem pushAll_empty (s : List Nat) (cs : List RawCell) (rest : List Nat) :
    pushAll s (emptyCell :: cs, rest) = (fieldCell s :: cs, rest) := by
  induction s with
  | nil => simp [fieldCell, emptyCell]
  | cons c s ih =>
    rw [pushAll_cons, ih]
    have : (c == 34) = ((34 : Nat) == c) := by
      by_cases h : c = 34
      · subst h; rfl
      · have h1 : (c == 34) = false := by simp [h]
        have h2 : ((34 : Nat) == c) = false := by simp; exact fun h' => h h'.symm
        rw [h1, h2]
    simp only [pushRaw, fieldCell, List.contains_cons, this]

/-! ### unescaping what `escape` produced -/

theorem unescLoop_escape (f : List Nat) (dq : Nat) (h : dq % 2 = 0) : unescLoop (escape f) dq = f := by
  induction f generalizing dq with
  | nil => rfl
  | cons c f ih =>
    by_cases hc : c = 34
    · subst hc
      have h1 : ¬ ((dq + 1) % 2 = 0) := by omega
      have h2 : (dq + 1 + 1) % 2 = 0 := by omega
      simp [escape, unescLoop, h1, h2, ih (dq + 1 + 1) h2]
    · simp [escape, hc, unescLoop, ih dq h]

theorem unescapeCopy_quoted (f : List Nat) : unescapeCopy (34 :: (escape f ++ [34])) = .ok f := by
  unfold unescapeCopy
  have h1 : ¬ ((34 :: (escape f ++ [34])).isEmpty = true ∨ (34 :: (escape f ++ [34])).head? ≠ some 34) := by simp
  have h2 : ¬ ((34 :: (escape f ++ [34])).length < 2 ∨ (34 :: (escape f ++ [34])).getLast? ≠ some 34) := by
    have : (34 :: (escape f ++ [34])).getLast? = some 34 := by
      rw [show 34 :: (escape f ++ [34]) = (34 :: escape f) ++ [34] by simp, List.getLast?_append]; simp
    simp [this]
  rw [if_neg h1, if_neg h2]
  have : ((34 :: (escape f ++ [34])).drop 1).take ((34 :: (escape f ++ [34])).length - 2) = escape f := by
    simp
  rw [this, unescLoop_escape f 0 rfl]

theorem contains_of_all_isText (f : List Nat) (h : f.all (isText sep) = true) : f.contains 34 = false := by
  induction f with
  | nil => rfl
  | cons c f ih =>
    simp only [List.all_cons, Bool.and_eq_true] at h
    have hc := (isText_iff.mp h.1).1
    have : ((34 : Nat) == c) = false := by simp; exact fun h' => hc h'.symm
    rw [List.contains_cons, ih h.2, this]; rfl

/-- the cell of a rendered field decodes to the field -/
theorem cellValue_fieldR {f : Field} {s : List Nat} (h : FieldR sep f s) : cellValue (fieldCell s) = .ok f := by
  cases h with
  | plain hf =>
    have hcn := contains_of_all_isText f hf
    show (if (f.contains 34) = true then _ else _) = _
    rw [hcn]; rfl
  | quoted => simp [cellValue, fieldCell, unescapeCopy_quoted]

/-! ### `absLine` on rendered fields and records -/

theorem absLine_plain (hs : SepOk sep) (f : Field) (hf : f.all (isText sep) = true) (k : List Nat) :
    absLine sep (f ++ k) false = pushAll f (absLine sep k false) := by
  induction f with
  | nil => rfl
  | cons c f ih =>
    simp only [List.all_cons, Bool.and_eq_true] at hf
    obtain ⟨c1, c2, c3, c4⟩ := isText_iff.mp hf.1
    rw [List.cons_append, absLine_other c1 (fun h => c2 h.1) (fun h => c3 h.1) (fun h => c4 h.1), ih hf.2, pushAll_cons]

theorem absLine_quotedBody (f : Field) (k : List Nat) :
    absLine sep (escape f ++ 34 :: k) true = pushAll (escape f ++ [34]) (absLine sep k false) := by
  induction f with
  | nil => simp [escape, absLine_quote]
  | cons c f ih =>
    by_cases hc : c = 34
    · subst hc
      have e1 : escape (34 :: f) = 34 :: 34 :: escape f := by simp [escape]
      simp only [e1, List.cons_append, absLine_quote, Bool.not_true, Bool.not_false, ih, pushAll_cons]
    · have : absLine sep (c :: (escape f ++ 34 :: k)) true = pushRaw c (absLine sep (escape f ++ 34 :: k) true) :=
        absLine_other hc (fun h => by cases h.2) (fun h => by cases h.2.1) (fun h => by cases h.2)
      simp only [escape, hc, if_false, List.cons_append, this, ih, pushAll_cons]

/-- scanning a rendered field: its characters become the current cell -/
theorem absLine_field (hs : SepOk sep) {f : Field} {s : List Nat} (h : FieldR sep f s) (k : List Nat) :
    absLine sep (s ++ k) false = pushAll s (absLine sep k false) := by
  cases h with
  | plain hf => exact absLine_plain hs f hf k
  | quoted =>
    have : 34 :: (escape f ++ [34]) ++ k = 34 :: (escape f ++ 34 :: k) := by simp
    rw [this, absLine_quote, Bool.not_false, absLine_quotedBody]
    rfl

/-- the text after the line break that `k` starts with -/
def eolRest : List Nat → List Nat
  | 10 :: t => t
  | 13 :: 10 :: t => t
  | l => l

theorem absLine_eol (hs : SepOk sep) {k : List Nat} (h : EolTerm k) : absLine sep k false = ([emptyCell], eolRest k) := by
  obtain ⟨s34, s13, s10⟩ := hs
  cases h with
  | nil => rfl
  | lf r => rw [absLine_lf s10]; rfl
  | crlf r => rw [absLine_crlf s34 s13]; rfl

/-- scanning a rendered record -/
theorem absLine_record (hs : SepOk sep) {r : Record} {s : List Nat} (h : RecordR sep r s) {k : List Nat} (hk : EolTerm k) :
    ∃ cells, absLine sep (s ++ k) false = (cells, eolRest k) ∧ cells.map cellValue = r.map .ok := by
  induction h with
  | @one f s hf =>
    refine ⟨[fieldCell s], ?_, by simp [cellValue_fieldR hf]⟩
    rw [absLine_field hs hf, absLine_eol hs hk, pushAll_empty]
  | @cons f s fs t hf _ _ ih =>
    obtain ⟨cells, h1, h2⟩ := ih
    refine ⟨fieldCell s :: cells, ?_, by simp [cellValue_fieldR hf, h2]⟩
    have s34 : sep ≠ 34 := hs.1
    rw [List.append_assoc, List.cons_append, absLine_field hs hf, absLine_sep s34 rfl, h1]
    simp [newCell, pushAll_empty]

/-- the step property of a reading discipline `P` (table ↦ texts): the first line of the text holds the
    first record, and the rest of the text is related to the rest of the table -/
structure LineStep (sep : Nat) (P : Table → List Nat → Prop) : Prop where
  nil : ∀ txt, P [] txt → txt = []
  cons : ∀ r rs txt, P (r :: rs) txt →
    txt ≠ [] ∧ ∃ cells rest, absLine sep txt false = (cells, rest) ∧ cells.map cellValue = r.map .ok ∧ P rs rest

theorem renders_lineStep (hs : SepOk sep) : LineStep sep (Renders sep) where
  nil := by intro txt h; cases h; rfl
  cons := by
    intro r rs txt h
    cases h with
    | last hr hne =>
      obtain ⟨cells, h1, h2⟩ := absLine_record hs hr EolTerm.nil
      rw [List.append_nil] at h1
      exact ⟨hne, cells, [], h1, h2, Renders.nil⟩
    | @cons _ s e _ t hr he hrs =>
      have hk : EolTerm (e ++ t) := by cases he <;> constructor
      obtain ⟨cells, h1, h2⟩ := absLine_record hs hr hk
      have hrest : eolRest (e ++ t) = t := by cases he <;> rfl
      rw [hrest] at h1
      refine ⟨by cases he <;> simp, cells, t, h1, h2, hrs⟩

end BSVerif.Csv.Abs
