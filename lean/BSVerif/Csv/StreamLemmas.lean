/-
  The stream-reader model equals the abstract reader on every text, for every chunk size ≥ 1.
-/
import BSVerif.Csv.AbsBasic
import BSVerif.Csv.StreamReader

namespace BSVerif.Csv.Stream
open BSVerif.Csv BSVerif.Csv.Abs BSVerif.Csv.Reader BSVerif.Csv.Spec

/-- invariant of the encoded reader: eofbit only after everything was read; a real chunk size -/
def EncOk (e : Enc) : Prop := (e.eof = true → e.rest = []) ∧ 1 ≤ e.chunk

theorem readChunk_success' {e e' : Enc} {buf buf' : List Nat} (h : e.readChunk buf = (.success, e', buf')) (hok : EncOk e) :
    ∃ c, c ≠ [] ∧ buf' = buf ++ c ∧ e.logical = c ++ e'.logical ∧ EncOk e' := by
  obtain ⟨c, h1, h2, h3, h4⟩ := readChunk_success h
  refine ⟨c, h1, h2, h3, ?_⟩
  -- eof' → rest' = []
  unfold Enc.readChunk at h
  by_cases hend : e.isEnd = true
  · rw [if_pos hend] at h; cases h
  · rw [if_neg hend] at h
    have hr : e.readNext.2.rest = e.rest.drop (e.chunk - e.pending.length) := rfl
    have he : e.readNext.2.eof = (e.eof || decide ((e.rest.take (e.chunk - e.pending.length)).length < e.chunk - e.pending.length)) := rfl
    have hc : e.readNext.2.chunk = e.chunk := rfl
    generalize e.readNext = rn at h hr he hc
    obtain ⟨got, e1⟩ := rn
    simp only at h hr he hc
    split at h
    · cases h
    · injection h with _ h; injection h with h5 _
      subst h5
      constructor
      · intro heof
        simp only at heof ⊢
        rw [hr]
        rw [he] at heof
        simp only [Bool.or_eq_true, decide_eq_true_eq] at heof
        rcases heof with h6 | h6
        · rw [hok.1 h6]; simp
        · simp only [List.length_take] at h6
          apply List.drop_eq_nil_iff.mpr
          omega
      · simp only; rw [hc]; exact hok.2

theorem readChunk_endFile {e e' : Enc} {buf buf' : List Nat} (h : e.readChunk buf = (.endFile, e', buf')) (hok : EncOk e) :
    buf' = buf ∧ e.logical = [] ∧ e'.logical = [] ∧ EncOk e' ∧ e'.isEnd = true := by
  unfold Enc.readChunk at h
  by_cases hend : e.isEnd = true
  · rw [if_pos hend] at h
    injection h with _ h; injection h with h1 h2
    subst h1 h2
    have : e.pending = [] ∧ e.eof = true := by simpa [Enc.isEnd, List.isEmpty_iff] using hend
    refine ⟨rfl, ?_, ?_, hok, hend⟩ <;> simp [Enc.logical, this.1, hok.1 this.2]
  · rw [if_neg hend] at h
    have hp : e.readNext.2.pending = e.pending ++ e.rest.take (e.chunk - e.pending.length) := rfl
    have hr : e.readNext.2.rest = e.rest.drop (e.chunk - e.pending.length) := rfl
    have hg : e.readNext.1 = ((e.rest.take (e.chunk - e.pending.length)).length != 0) := rfl
    have he : e.readNext.2.eof = (e.eof || decide ((e.rest.take (e.chunk - e.pending.length)).length < e.chunk - e.pending.length)) := rfl
    have hc : e.readNext.2.chunk = e.chunk := rfl
    generalize e.readNext = rn at h hp hr hg he hc
    obtain ⟨got, e1⟩ := rn
    simp only at h hp hr hg he hc
    split at h
    · rename_i hcond
      injection h with _ h; injection h with h1 h2
      subst h1 h2
      simp only [Bool.and_eq_true, Bool.not_eq_true', List.isEmpty_iff] at hcond
      obtain ⟨_, hpe⟩ := hcond
      rw [hpe] at hp
      have h5 := hp.symm
      rw [List.append_eq_nil_iff] at h5
      obtain ⟨hpend, htake⟩ := h5
      have hchunk := hok.2
      have hrest : e.rest = [] := by
        rw [hpend] at htake
        simp only [List.length_nil, Nat.sub_zero, List.take_eq_nil_iff] at htake
        rcases htake with h6 | h6
        · omega
        · exact h6
      refine ⟨rfl, by simp [Enc.logical, hpend, hrest], by simp [Enc.logical, hpe, hr, hrest], ⟨?_, by rw [hc]; exact hchunk⟩, ?_⟩
      · intro _; rw [hr, hrest]; simp
      · simp only [Enc.isEnd, hpe, List.isEmpty_nil, Bool.true_and, he, hrest, hpend]
        simp; omega
    · cases h

theorem isEnd_logical {e : Enc} (hok : EncOk e) (h : e.isEnd = true) : e.logical = [] := by
  have : e.pending = [] ∧ e.eof = true := by simpa [Enc.isEnd, List.isEmpty_iff] using h
  simp [Enc.logical, this.1, hok.1 this.2]

/-! ### one step of the stream scanner -/
section steps
variable {sep : Nat} {e : Enc} {buf : List Nat} {pos start dq : Nat} {cr : Option Nat}

theorem scanLineS_refill {e' : Enc} {buf' : List Nat} (hp : pos ≥ buf.length) (h : e.readChunk buf = (.success, e', buf')) :
    scanLineS sep e buf pos start dq cr = scanLineS sep e' buf' pos start dq cr := by
  rw [scanLineS]
  simp only [hp, dite_true]
  split
  · rename_i e2 b2 h2
    rw [h] at h2
    injection h2 with _ h2; injection h2 with h3 h4
    subst h3 h4; rfl
  · rename_i h2; rw [h] at h2; cases h2

theorem scanLineS_endFile {e' : Enc} {buf' : List Nat} (hp : pos ≥ buf.length) (h : e.readChunk buf = (.endFile, e', buf')) :
    scanLineS sep e buf pos start dq cr = ([⟨start, buf'.length - start, dq != 0⟩], e', buf', pos) := by
  rw [scanLineS]
  simp only [hp, dite_true]
  split
  · rename_i h2; rw [h] at h2; cases h2
  · rename_i e2 b2 h2
    rw [h] at h2
    injection h2 with _ h2; injection h2 with h3 h4
    subst h3 h4; rfl

theorem scanLineS_quote (hp : pos < buf.length) (hc : buf[pos] = 34) :
    scanLineS sep e buf pos start dq cr = scanLineS sep e buf (pos + 1) start (dq + 1) cr := by
  rw [scanLineS]
  have : ¬ pos ≥ buf.length := by omega
  simp only [this, dite_false, hc, if_true]

theorem scanLineS_sep (hp : pos < buf.length) (hc : buf[pos] ≠ 34) (h : buf[pos] = sep) (hq : dq % 2 = 0) :
    scanLineS sep e buf pos start dq cr
      = consMeta ⟨start, pos - start, dq != 0⟩ (scanLineS sep e buf (pos + 1) (pos + 1) 0 none) := by
  rw [scanLineS]
  have : ¬ pos ≥ buf.length := by omega
  have hc' : ¬ sep = 34 := by rw [← h]; exact hc
  simp only [this, dite_false, h, hc', if_false, hq, and_self, if_true]

theorem scanLineS_cr (hp : pos < buf.length) (h13 : sep ≠ 13) (hc : buf[pos] = 13) :
    scanLineS sep e buf pos start dq cr = scanLineS sep e buf (pos + 1) start dq (some pos) := by
  rw [scanLineS]
  have : ¬ pos ≥ buf.length := by omega
  have h1 : ¬ ((13 : Nat) = sep ∧ dq % 2 = 0) := fun h => h13 h.1.symm
  simp only [this, dite_false, hc, show ¬ ((13 : Nat) = 34) by decide, if_false, h1, if_true]

theorem scanLineS_lf (hp : pos < buf.length) (h10 : sep ≠ 10) (hc : buf[pos] = 10) (hq : dq % 2 = 0) :
    scanLineS sep e buf pos start dq cr
      = ([⟨start, (if cr.getD pos = decWrap pos then cr.getD pos else pos) - start, dq != 0⟩], e, buf, pos + 1) := by
  rw [scanLineS]
  have : ¬ pos ≥ buf.length := by omega
  have h1 : ¬ ((10 : Nat) = sep) := fun h => h10 h.symm
  simp only [this, dite_false, hc, show ¬ ((10 : Nat) = 34) by decide, show ¬ ((10 : Nat) = 13) by decide, if_false, h1, false_and, hq, and_self, if_true]

theorem scanLineS_eof (hp : pos < buf.length) (hc : buf[pos] ≠ 34) (h1 : ¬ (buf[pos] = sep ∧ dq % 2 = 0)) (h2 : buf[pos] ≠ 13)
    (h3 : ¬ (buf[pos] = 10 ∧ dq % 2 = 0)) (h4 : pos + 1 = buf.length ∧ e.isEnd = true) :
    scanLineS sep e buf pos start dq cr = ([⟨start, buf.length - start, dq != 0⟩], e, buf, buf.length) := by
  rw [scanLineS]
  have : ¬ pos ≥ buf.length := by omega
  simp only [this, dite_false, hc, h1, h2, h3, if_false, h4, and_self, if_true]

theorem scanLineS_other (hp : pos < buf.length) (hc : buf[pos] ≠ 34) (h1 : ¬ (buf[pos] = sep ∧ dq % 2 = 0)) (h2 : buf[pos] ≠ 13)
    (h3 : ¬ (buf[pos] = 10 ∧ dq % 2 = 0)) (h4 : ¬ (pos + 1 = buf.length ∧ e.isEnd = true)) :
    scanLineS sep e buf pos start dq cr = scanLineS sep e buf (pos + 1) start dq cr := by
  rw [scanLineS]
  have : ¬ pos ≥ buf.length := by omega
  simp only [this, dite_false, hc, h1, h2, h3, h4, if_false]

end steps


theorem scanMeasure_step (e : Enc) (buf : List Nat) (pos : Nat) (hp : pos < buf.length) :
    scanMeasure e buf (pos + 1) < scanMeasure e buf pos := by
  unfold scanMeasure; split <;> split <;> omega

/-- the state in which the scanner has just passed a CR outside quotes and the next character is LF -/
def Special (pos dq : Nat) (cr : Option Nat) (L : List Nat) : Prop :=
  cr = some (pos - 1) ∧ 1 ≤ pos ∧ L.head? = some 10 ∧ dq % 2 = 0

/-- what `scanLineS` computes, in terms of the abstract line scanner over the logical text `L` -/
def ScanSpec (sep : Nat) (e : Enc) (buf : List Nat) (pos start dq : Nat) (cr : Option Nat) (cur L : List Nat)
    (res : List Meta × Enc × List Nat × Nat) : Prop :=
  (∃ app, res.2.2.1 = buf ++ app ∧ e.logical = app ++ res.2.1.logical) ∧ EncOk res.2.1 ∧
  res.2.2.2 ≤ res.2.2.1.length ∧
  (Special pos dq cr L →
    res.1 = [⟨start, pos - 1 - start, dq != 0⟩] ∧ res.2.2.2 = pos + 1 ∧
    res.2.2.1.drop (pos + 1) ++ res.2.1.logical = L.tail) ∧
  (¬ Special pos dq cr L →
    view res.2.2.1 res.1 = prependCur cur (dq != 0) (absLine sep L (decide (dq % 2 = 1))).1 ∧
    pos ≤ res.2.2.2 ∧
    res.2.2.1.drop res.2.2.2 ++ res.2.1.logical = (absLine sep L (decide (dq % 2 = 1))).2 ∧
    (L ≠ [] → pos < res.2.2.2))

theorem slice_mid' (pre cur rest : List Nat) (n : Nat) (hn : n = cur.length) : slice (pre ++ cur ++ rest) pre.length n = cur := by
  subst hn; exact slice_mid pre cur rest

theorem slice_mid_app (pre cur rest app : List Nat) : slice (pre ++ cur ++ rest ++ app) pre.length cur.length = cur := by
  rw [List.append_assoc (pre ++ cur)]; exact slice_mid pre cur (rest ++ app)

theorem drop_mid (pre cur : List Nat) (c : Nat) (r : List Nat) : (pre ++ cur ++ c :: r).drop (pre.length + cur.length + 1) = r := by
  have : pre ++ cur ++ c :: r = (pre ++ cur ++ [c]) ++ r := by simp
  rw [this, List.drop_append]
  have h2 : (pre ++ cur ++ [c]).length = pre.length + cur.length + 1 := by simp only [List.length_append, List.length_singleton]
  rw [h2, Nat.sub_self, List.drop_zero]
  have : (pre ++ cur ++ [c]).drop (pre.length + cur.length + 1) = [] := by
    apply List.drop_eq_nil_iff.mpr; omega
  rw [this]; rfl

/-- **line-level refinement (stream reader)**, for every way the text is cut into chunks -/
theorem scanLineS_abs (sep : Nat) (hs : SepOk sep) :
    ∀ (n : Nat) (e : Enc) (buf : List Nat) (pos start dq : Nat) (cr : Option Nat) (pre cur ahead : List Nat),
      scanMeasure e buf pos = n → EncOk e → buf = pre ++ cur ++ ahead → start = pre.length → pos = pre.length + cur.length →
      (∀ p, cr = some p → start ≤ p ∧ p < pos) →
      ScanSpec sep e buf pos start dq cr cur (ahead ++ e.logical) (scanLineS sep e buf pos start dq cr) := by
  obtain ⟨s34, s13, s10⟩ := hs
  intro n
  induction n using Nat.strongRecOn with
  | _ n ih =>
    intro e buf pos start dq cr pre cur ahead hn hok hbuf hstart hpos hcr
    subst hstart hpos
    have hsub : pre.length + cur.length - pre.length = cur.length := by omega
    cases ahead with
    | nil =>
      -- the decoded buffer is exhausted: read the next chunk
      have hp : pre.length + cur.length ≥ buf.length := by rw [hbuf]; simp
      have hbl : buf.length = pre.length + cur.length := by rw [hbuf]; simp
      simp only [List.nil_append]
      cases hrc : e.readChunk buf with
      | mk rr rest2 =>
        obtain ⟨e', buf'⟩ := rest2
        cases rr with
        | success =>
          obtain ⟨c, hc1, hc2, hc3, hc4⟩ := readChunk_success' hrc hok
          rw [scanLineS_refill hp hrc]
          have := ih _ (by rw [← hn]; exact scanMeasure_refill hrc hp) e' buf' _ _ dq cr pre cur c rfl hc4
            (by rw [hc2, hbuf]; simp) rfl rfl hcr
          rw [← hc3] at this
          obtain ⟨⟨app, a1, a2⟩, b, c', d, f⟩ := this
          refine ⟨⟨c ++ app, by rw [a1, hc2]; simp, by rw [hc3, a2]; simp⟩, b, c', d, f⟩
        | endFile =>
          obtain ⟨h1, h2, h3, h4, _⟩ := readChunk_endFile hrc hok
          subst h1
          rw [scanLineS_endFile hp hrc, h2]
          refine ⟨⟨[], by simp, by rw [h2, h3]; rfl⟩, h4, by simp only; omega, ?_, ?_⟩
          · intro hsp; have := hsp.2.2.1; simp at this
          · intro _
            simp only [absLine_nil, prependCur_single, view, List.map_cons, List.map_nil, h3, List.append_nil]
            refine ⟨?_, Nat.le_refl _, ?_, fun h => absurd rfl h⟩
            · rw [hbl, hsub]
              have := slice_mid pre cur []
              rw [List.append_nil] at this
              rw [hbuf, List.append_nil, this]
            · apply List.drop_eq_nil_iff.mpr; omega
    | cons c r =>
      have hp : pre.length + cur.length < buf.length := by rw [hbuf]; simp
      have hc : buf[pre.length + cur.length] = c := by
        simp only [hbuf]
        rw [List.getElem_append_right (by simp)]
        simp
      have hbuf' : buf = pre ++ (cur ++ [c]) ++ r := by rw [hbuf]; simp
      have hlen' : pre.length + (cur ++ [c]).length = pre.length + cur.length + 1 := by
        simp only [List.length_append, List.length_singleton]; omega
      have hm := scanMeasure_step e buf _ hp
      simp only [List.cons_append]
      -- the generic recursive call after pushing `c`
      have child : ∀ (dq' : Nat) (cr' : Option Nat), (∀ p, cr' = some p → pre.length ≤ p ∧ p < pre.length + cur.length + 1) →
          ScanSpec sep e buf (pre.length + cur.length + 1) pre.length dq' cr' (cur ++ [c]) (r ++ e.logical)
            (scanLineS sep e buf (pre.length + cur.length + 1) pre.length dq' cr') := by
        intro dq' cr' h
        have := ih _ (by rw [← hn]; exact hm) e buf (pre.length + cur.length + 1) pre.length dq' cr' pre (cur ++ [c]) r rfl hok hbuf' rfl
          (by rw [hlen']) h
        exact this
      by_cases hsp : Special (pre.length + cur.length) dq cr (c :: (r ++ e.logical))
      · -- LF right after a CR of this value, outside quotes
        obtain ⟨h1, h2, h3, h4⟩ := hsp
        simp only [List.head?_cons, Option.some.injEq] at h3
        subst h3
        rw [scanLineS_lf hp s10 hc h4]
        have hdw : decWrap (pre.length + cur.length) = pre.length + cur.length - 1 := by
          unfold decWrap; rw [if_neg (by omega)]
        simp only [h1, Option.getD_some, hdw, if_true]
        refine ⟨⟨[], by simp, by simp⟩, hok, by simp only; omega, fun _ => ⟨rfl, rfl, ?_⟩, fun hns => absurd ⟨rfl, h2, by simp, h4⟩ hns⟩
        simp only [List.tail_cons]
        rw [hbuf, drop_mid]
      · by_cases h34 : c = 34
        · subst h34
          have ch := child (dq + 1) cr (fun p hp' => by have := hcr p hp'; omega)
          rw [scanLineS_quote hp hc]
          obtain ⟨a, b, c', _, f⟩ := ch
          have hns : ¬ Special (pre.length + cur.length + 1) (dq + 1) cr (r ++ e.logical) := by
            intro h; have := hcr _ h.1; omega
          obtain ⟨f1, f2, f3, f4⟩ := f hns
          refine ⟨a, b, c', fun h => absurd h hsp, fun _ => ?_⟩
          rw [absLine_quote, pushRaw_snd]
          rw [parity_succ] at f1 f3
          refine ⟨?_, by omega, f3, fun _ => by omega⟩
          rw [f1, show ((dq + 1) != 0) = true by simp]
          exact prependCur_push_quote cur (dq != 0) _
        · by_cases hsep : c = sep ∧ dq % 2 = 0
          · obtain ⟨hcs, hq⟩ := hsep
            have := ih _ (by rw [← hn]; exact hm) e buf (pre.length + cur.length + 1) (pre.length + cur.length + 1) 0 none
              (pre ++ cur ++ [c]) [] r rfl hok (by rw [hbuf]; simp)
              (by simp only [List.length_append, List.length_singleton])
              (by simp only [List.length_append, List.length_singleton, List.length_nil]; try omega) (fun p hp' => by cases hp')
            obtain ⟨a, b, c', _, f⟩ := this
            have hns : ¬ Special (pre.length + cur.length + 1) 0 none (r ++ e.logical) := by
              intro h; cases h.1
            obtain ⟨f1, f2, f3, f4⟩ := f hns
            rw [scanLineS_sep hp (by rw [hc]; exact h34) (by rw [hc]; exact hcs) hq]
            refine ⟨a, b, c', fun h => absurd h hsp, fun _ => ?_⟩
            rw [parity_even hq, absLine_sep h34 hcs, newCell_snd]
            simp only [Nat.zero_mod, show decide ((0:Nat) = 1) = false by rfl, show ((0:Nat) != 0) = false by rfl] at f1 f3
            refine ⟨?_, by simp only [consMeta]; omega, by simp only [consMeta]; exact f3, fun _ => by simp only [consMeta]; omega⟩
            simp only [consMeta, view, List.map_cons] at f1 ⊢
            rw [f1, prependCur_newCell, hsub]
            obtain ⟨app, a1, _⟩ := a
            rw [a1, hbuf, slice_mid_app]
            cases h : (absLine sep (r ++ e.logical) false).1 <;> simp [prependCur]
          · by_cases h13 : c = 13
            · subst h13
              have ch := child dq (some (pre.length + cur.length)) (fun p hp' => by cases hp'; omega)
              rw [scanLineS_cr hp s13 hc]
              obtain ⟨a, b, c', d, f⟩ := ch
              refine ⟨a, b, c', fun h => absurd h hsp, fun _ => ?_⟩
              by_cases hcs : Special (pre.length + cur.length + 1) dq (some (pre.length + cur.length)) (r ++ e.logical)
              · -- CR LF outside quotes
                obtain ⟨d1, d2, d3⟩ := d hcs
                obtain ⟨_, _, hh, hq⟩ := hcs
                cases hL : r ++ e.logical with
                | nil => rw [hL] at hh; simp at hh
                | cons x L'' =>
                  rw [hL] at hh d3
                  simp only [List.head?_cons, Option.some.injEq] at hh
                  subst hh
                  rw [parity_even hq, absLine_crlf s34 s13]
                  refine ⟨?_, by omega, ?_, fun _ => by omega⟩
                  · rw [d1]
                    simp only [view, List.map_cons, List.map_nil, prependCur_single]
                    rw [show pre.length + cur.length + 1 - 1 - pre.length = cur.length by omega]
                    obtain ⟨app, a1, _⟩ := a
                    rw [a1, hbuf, slice_mid_app]
                  · rw [d2]; exact d3
              · obtain ⟨f1, f2, f3, f4⟩ := f hcs
                have hnl : ¬ ((r ++ e.logical).head? = some 10 ∧ dq % 2 = 0) := by
                  intro h; exact hcs ⟨rfl, by omega, h.1, h.2⟩
                have habs : absLine sep (13 :: (r ++ e.logical)) (decide (dq % 2 = 1))
                    = pushRaw 13 (absLine sep (r ++ e.logical) (decide (dq % 2 = 1))) := by
                  apply absLine_other (by decide)
                  · exact fun h => s13 h.1.symm
                  · intro h; exact hnl ⟨h.2.2, parity_false h.2.1⟩
                  · intro h; cases h.1
                rw [habs, pushRaw_snd]
                refine ⟨?_, by omega, f3, fun _ => by omega⟩
                rw [f1]; exact prependCur_push cur 13 (by decide) _ _
            · by_cases h10 : c = 10 ∧ dq % 2 = 0
              · obtain ⟨hc10, hq⟩ := h10
                subst hc10
                have hncr : ¬ (cr.getD (pre.length + cur.length) = decWrap (pre.length + cur.length)) := by
                  intro h
                  cases hcr' : cr with
                  | none =>
                    rw [hcr'] at h
                    simp only [Option.getD_none, decWrap] at h
                    split at h <;> omega
                  | some p =>
                    rw [hcr'] at h
                    simp only [Option.getD_some] at h
                    have hp' := hcr p hcr'
                    by_cases hz : pre.length + cur.length = 0
                    · omega
                    · have : decWrap (pre.length + cur.length) = pre.length + cur.length - 1 := by
                        unfold decWrap; rw [if_neg hz]
                      rw [this] at h
                      exact hsp ⟨by rw [hcr', h], by omega, by simp, hq⟩
                rw [scanLineS_lf hp s10 hc hq]
                simp only [hncr, if_false]
                refine ⟨⟨[], by simp, by simp⟩, hok, by simp only; omega, fun h => absurd h hsp, fun _ => ?_⟩
                rw [parity_even hq, absLine_lf s10]
                refine ⟨?_, by simp only; omega, ?_, fun _ => by simp only; omega⟩
                · simp only [view, List.map_cons, List.map_nil, prependCur_single, hsub]
                  rw [hbuf, slice_mid]
                · simp only; rw [hbuf, drop_mid]
              · -- any other character
                have hc1 : buf[pre.length + cur.length] ≠ 34 := by rw [hc]; exact h34
                have hc2 : ¬ (buf[pre.length + cur.length] = sep ∧ dq % 2 = 0) := by rw [hc]; exact hsep
                have hc3 : buf[pre.length + cur.length] ≠ 13 := by rw [hc]; exact h13
                have hc4 : ¬ (buf[pre.length + cur.length] = 10 ∧ dq % 2 = 0) := by rw [hc]; exact h10
                have habs : ∀ L', absLine sep (c :: L') (decide (dq % 2 = 1)) = pushRaw c (absLine sep L' (decide (dq % 2 = 1))) := by
                  intro L'
                  apply absLine_other h34
                  · intro h; exact hsep ⟨h.1, parity_false h.2⟩
                  · intro h; exact h13 h.1
                  · intro h; exact h10 ⟨h.1, parity_false h.2⟩
                by_cases heof : pre.length + cur.length + 1 = buf.length ∧ e.isEnd = true
                · -- the last character of the stream
                  rw [scanLineS_eof hp hc1 hc2 hc3 hc4 heof]
                  have hr : r = [] := by
                    have := heof.1; rw [hbuf] at this; simp at this
                    exact List.length_eq_zero_iff.mp (by omega)
                  have hlog := isEnd_logical hok heof.2
                  subst hr
                  refine ⟨⟨[], by simp, by simp⟩, hok, by simp, fun h => absurd h hsp, fun _ => ?_⟩
                  rw [hlog, List.append_nil, habs, absLine_nil]
                  refine ⟨?_, by simp only; omega, ?_, fun _ => by simp only; omega⟩
                  · simp only [view, List.map_cons, List.map_nil, pushRaw, emptyCell, prependCur]
                    have : (c == 34) = false := by simp [h34]
                    simp only [this, Bool.or_false]
                    rw [← heof.1, show pre.length + cur.length + 1 - pre.length = (cur ++ [c]).length by simp; omega]
                    congr 2
                    rw [hbuf']
                    exact slice_mid pre (cur ++ [c]) []
                  · simp
                · have ch := child dq cr (fun p hp' => by have := hcr p hp'; omega)
                  rw [scanLineS_other hp hc1 hc2 hc3 hc4 heof]
                  obtain ⟨a, b, c', _, f⟩ := ch
                  have hns : ¬ Special (pre.length + cur.length + 1) dq cr (r ++ e.logical) := by
                    intro h; have := hcr _ h.1; omega
                  obtain ⟨f1, f2, f3, f4⟩ := f hns
                  refine ⟨a, b, c', fun h => absurd h hsp, fun _ => ?_⟩
                  rw [habs, pushRaw_snd]
                  refine ⟨?_, by omega, f3, fun _ => by omega⟩
                  rw [f1]; exact prependCur_push cur c h34 _ _


theorem readChunk_endFile_buf {e e' : Enc} {buf buf' : List Nat} (h : e.readChunk buf = (.endFile, e', buf')) : buf' = buf := by
  unfold Enc.readChunk at h
  split at h
  · injection h with _ h; injection h with _ h; exact h.symm
  · generalize e.readNext = rn at h
    obtain ⟨got, e1⟩ := rn
    simp only at h
    split at h
    · injection h with _ h; injection h with _ h; exact h.symm
    · cases h

/-- where the metas of a scanned line lie: inside `[start, final position)`, in order, without overlap -/
theorem scanLineS_spans (sep : Nat) (hs : SepOk sep) :
    ∀ (n : Nat) (e : Enc) (buf : List Nat) (pos start dq : Nat) (cr : Option Nat),
      scanMeasure e buf pos = n → start ≤ pos → pos ≤ buf.length → (∀ p, cr = some p → p < pos) →
      (∀ m ∈ (scanLineS sep e buf pos start dq cr).1, start ≤ m.off ∧ m.off + m.size ≤ (scanLineS sep e buf pos start dq cr).2.2.2) ∧
      (scanLineS sep e buf pos start dq cr).1.Pairwise (fun a b => a.off + a.size < b.off) ∧
      pos ≤ (scanLineS sep e buf pos start dq cr).2.2.2 ∧
      (scanLineS sep e buf pos start dq cr).2.2.2 ≤ (scanLineS sep e buf pos start dq cr).2.2.1.length := by
  obtain ⟨s34, s13, s10⟩ := hs
  intro n
  induction n using Nat.strongRecOn with
  | _ n ih =>
    intro e buf pos start dq cr hn hsp hpb hcr
    by_cases hp : pos ≥ buf.length
    · cases hrc : e.readChunk buf with
      | mk rr rest2 =>
        obtain ⟨e', buf'⟩ := rest2
        cases rr with
        | success =>
          obtain ⟨c, _, hc2, _, _⟩ := readChunk_success hrc
          rw [scanLineS_refill hp hrc]
          exact ih _ (by rw [← hn]; exact scanMeasure_refill hrc hp) e' buf' pos start dq cr rfl hsp
            (by rw [hc2, List.length_append]; omega) hcr
        | endFile =>
          have := readChunk_endFile_buf hrc
          subst this
          rw [scanLineS_endFile hp hrc]
          refine ⟨?_, by simp, Nat.le_refl _, hpb⟩
          intro m hm
          simp only [List.mem_singleton] at hm
          subst hm
          simp only; omega
    · have hp' : pos < buf.length := by omega
      have hm := scanMeasure_step e buf pos hp'
      have child : ∀ (start' dq' : Nat) (cr' : Option Nat), start' ≤ pos + 1 → (∀ p, cr' = some p → p < pos + 1) → _ :=
        fun start' dq' cr' h1 h2 => ih _ (by rw [← hn]; exact hm) e buf (pos + 1) start' dq' cr' rfl h1 (by omega) h2
      by_cases h34 : buf[pos] = 34
      · rw [scanLineS_quote hp' h34]
        obtain ⟨a, b, c, d⟩ := child start (dq + 1) cr (by omega) (fun p h => by have := hcr p h; omega)
        exact ⟨a, b, by omega, d⟩
      · by_cases hsep : buf[pos] = sep ∧ dq % 2 = 0
        · rw [scanLineS_sep hp' h34 hsep.1 hsep.2]
          obtain ⟨a, b, c, d⟩ := child (pos + 1) 0 none (Nat.le_refl _) (fun p h => by cases h)
          refine ⟨?_, ?_, by simp only [consMeta]; omega, by simp only [consMeta]; exact d⟩
          · intro m hm
            simp only [consMeta, List.mem_cons] at hm
            rcases hm with rfl | hm
            · simp only [consMeta]; omega
            · have := a m hm; simp only [consMeta]; omega
          · simp only [consMeta, List.pairwise_cons]
            refine ⟨?_, b⟩
            intro m hm
            have := a m hm
            omega
        · by_cases h13 : buf[pos] = 13
          · rw [scanLineS_cr hp' s13 h13]
            obtain ⟨a, b, c, d⟩ := child start dq (some pos) (by omega) (fun p h => by cases h; omega)
            exact ⟨a, b, by omega, d⟩
          · by_cases h10 : buf[pos] = 10 ∧ dq % 2 = 0
            · rw [scanLineS_lf hp' s10 h10.1 h10.2]
              refine ⟨?_, by simp, by simp only; omega, by simp only; omega⟩
              intro m hm
              simp only [List.mem_singleton] at hm
              subst hm
              simp only
              refine ⟨Nat.le_refl _, ?_⟩
              split
              · rename_i h
                cases hcr' : cr with
                | none => rw [hcr'] at h; simp only [Option.getD_none]; omega
                | some p => have := hcr p hcr'; simp only [Option.getD_some]; omega
              · omega
            · by_cases heof : pos + 1 = buf.length ∧ e.isEnd = true
              · rw [scanLineS_eof hp' h34 hsep h13 h10 heof]
                refine ⟨?_, by simp, by simp only; omega, by simp⟩
                intro m hm
                simp only [List.mem_singleton] at hm
                subst hm
                simp only; omega
              · rw [scanLineS_other hp' h34 hsep h13 h10 heof]
                obtain ⟨a, b, c, d⟩ := child start dq cr (by omega) (fun p h => by have := hcr p h; omega)
                exact ⟨a, b, by omega, d⟩

end BSVerif.Csv.Stream
