/-
  The string-reader model equals the abstract reader on every text.
-/
import BSVerif.Csv.AbsBasic

namespace BSVerif.Csv.Reader
open BSVerif.Csv BSVerif.Csv.Abs BSVerif.Csv.Spec

/-! ### one step of the scanner -/
section steps
variable {sep total : Nat} {r : List Nat} {pos start dq : Nat} {cr : Option Nat}

theorem scanLine_quote : scanLine sep total (34 :: r) pos start dq cr = scanLine sep total r (pos + 1) start (dq + 1) cr := by
  simp [scanLine]

theorem scanLine_sep {c : Nat} (hc : c ≠ 34) (h : c = sep) (hq : dq % 2 = 0) :
    scanLine sep total (c :: r) pos start dq cr
      = consMeta ⟨start, pos - start, dq != 0⟩ (scanLine sep total r (pos + 1) (pos + 1) 0 none) := by
  subst h
  simp [scanLine, hc, hq]

theorem scanLine_cr (h13 : sep ≠ 13) :
    scanLine sep total (13 :: r) pos start dq cr = scanLine sep total r (pos + 1) start dq (some pos) := by
  have : ¬ ((13 : Nat) = sep) := fun h => h13 h.symm
  simp [scanLine, this]

theorem scanLine_lf (h10 : sep ≠ 10) (hq : dq % 2 = 0) :
    scanLine sep total (10 :: r) pos start dq cr
      = ([⟨start, (if cr.getD pos = decWrap pos then cr.getD pos else pos) - start, dq != 0⟩], pos + 1) := by
  have : ¬ ((10 : Nat) = sep) := fun h => h10 h.symm
  simp [scanLine, this, hq]

theorem scanLine_other {c : Nat} (hc : c ≠ 34) (h1 : ¬ (c = sep ∧ dq % 2 = 0)) (h2 : c ≠ 13) (h3 : ¬ (c = 10 ∧ dq % 2 = 0)) :
    scanLine sep total (c :: r) pos start dq cr = scanLine sep total r (pos + 1) start dq cr := by
  simp [scanLine, hc, h1, h2, h3]

end steps

theorem drop_succ_of_le {α : Type} (c : α) (r : List α) {n p : Nat} (h : p + 1 ≤ n) :
    (c :: r).drop (n - p) = r.drop (n - (p + 1)) := by
  rw [show n - p = (n - (p + 1)) + 1 by omega]; rfl

/-- **line-level refinement (string reader)**: scanning from a state in which `cur` is the part of the
    current value already passed yields metas that denote the abstract cells, and stops where the
    abstract line stops. -/
theorem scanLine_abs (sep : Nat) (hs : SepOk sep) (l : List Nat) :
    ∀ (pre cur : List Nat) (dq : Nat) (cr : Option Nat),
      (∀ p, cr = some p → p < pre.length + cur.length) →
      (cr = some (pre.length + cur.length - 1) → 1 ≤ pre.length + cur.length → ¬ (l.head? = some 10 ∧ dq % 2 = 0)) →
      view (pre ++ cur ++ l) (scanLine sep (pre ++ cur ++ l).length l (pre.length + cur.length) pre.length dq cr).1
          = prependCur cur (dq != 0) (absLine sep l (decide (dq % 2 = 1))).1 ∧
      pre.length + cur.length ≤ (scanLine sep (pre ++ cur ++ l).length l (pre.length + cur.length) pre.length dq cr).2 ∧
      l.drop ((scanLine sep (pre ++ cur ++ l).length l (pre.length + cur.length) pre.length dq cr).2 - (pre.length + cur.length))
          = (absLine sep l (decide (dq % 2 = 1))).2 ∧
      (l ≠ [] → pre.length + cur.length < (scanLine sep (pre ++ cur ++ l).length l (pre.length + cur.length) pre.length dq cr).2) := by
  obtain ⟨s34, s13, s10⟩ := hs
  induction l with
  | nil =>
    intro pre cur dq cr _ _
    simp [scanLine, absLine, view, prependCur, emptyCell, slice]
  | cons c r ih =>
    intro pre cur dq cr hcr hH
    have hassoc : pre ++ (cur ++ [c]) ++ r = pre ++ cur ++ (c :: r) := by simp
    have hlen : pre.length + (cur ++ [c]).length = pre.length + cur.length + 1 := by
      simp only [List.length_append, List.length_singleton]; omega
    have hsub : pre.length + cur.length - pre.length = cur.length := by omega
    -- the generic "push one character" step
    have push : ∀ (dq' : Nat) (cr' : Option Nat),
        (∀ p, cr' = some p → p < pre.length + cur.length + 1) →
        (cr' = some (pre.length + cur.length) → ¬ (r.head? = some 10 ∧ dq' % 2 = 0)) →
        view (pre ++ cur ++ c :: r) (scanLine sep (pre ++ cur ++ c :: r).length r (pre.length + cur.length + 1) pre.length dq' cr').1
            = prependCur (cur ++ [c]) (dq' != 0) (absLine sep r (decide (dq' % 2 = 1))).1 ∧
        pre.length + cur.length + 1 ≤ (scanLine sep (pre ++ cur ++ c :: r).length r (pre.length + cur.length + 1) pre.length dq' cr').2 ∧
        (c :: r).drop ((scanLine sep (pre ++ cur ++ c :: r).length r (pre.length + cur.length + 1) pre.length dq' cr').2 - (pre.length + cur.length))
            = (absLine sep r (decide (dq' % 2 = 1))).2 := by
      intro dq' cr' h1 h2
      have := ih pre (cur ++ [c]) dq' cr' (by rw [hlen]; exact h1) (by rw [hlen]; intro h _; exact h2 (by simpa using h))
      rw [hassoc, hlen] at this
      obtain ⟨a1, a2, a3, _⟩ := this
      exact ⟨a1, a2, by rw [drop_succ_of_le c r a2]; exact a3⟩
    by_cases h34 : c = 34
    · -- a double quote
      subst h34
      obtain ⟨a1, a2, a3⟩ := push (dq + 1) cr (fun p hp => by have := hcr p hp; omega)
        (fun h => by have := hcr _ h; omega)
      rw [scanLine_quote, absLine_quote, pushRaw_snd]
      rw [parity_succ] at a1 a3
      refine ⟨?_, by omega, a3, fun _ => by omega⟩
      rw [a1, show ((dq + 1) != 0) = true by simp]
      exact prependCur_push_quote cur (dq != 0) _
    · by_cases hsep : c = sep ∧ dq % 2 = 0
      · -- a separator outside quotes
        obtain ⟨hc, hq⟩ := hsep
        have := ih (pre ++ cur ++ [c]) [] 0 none (fun p hp => by cases hp) (fun h => by cases h)
        have hassoc2 : pre ++ cur ++ [c] ++ [] ++ r = pre ++ cur ++ (c :: r) := by simp
        have hlen3 : (pre ++ cur ++ [c]).length = pre.length + cur.length + 1 := by
          simp only [List.length_append, List.length_singleton]
        rw [hassoc2, List.length_nil, Nat.add_zero, hlen3] at this
        obtain ⟨a1, a2, a3, _⟩ := this
        rw [scanLine_sep h34 hc hq, parity_even hq, absLine_sep h34 hc, newCell_snd]
        simp only [Nat.zero_mod, show decide ((0:Nat) = 1) = false by rfl] at a1 a3
        refine ⟨?_, by simp only [consMeta]; omega, ?_, fun _ => by simp only [consMeta]; omega⟩
        · simp only [consMeta, view, List.map_cons] at a1 ⊢
          rw [a1, prependCur_newCell, hsub, slice_mid]
          cases h : (absLine sep r false).1 <;> simp [prependCur]
        · simp only [consMeta]
          rw [drop_succ_of_le c r a2]; exact a3
      · by_cases h13 : c = 13
        · subst h13
          by_cases hcrlf : dq % 2 = 0 ∧ r.head? = some 10
          · -- CR LF outside quotes: the line ends, the value ends before the CR
            obtain ⟨hq, hr⟩ := hcrlf
            cases r with
            | nil => simp at hr
            | cons d r' =>
              simp only [List.head?_cons, Option.some.injEq] at hr
              subst hr
              rw [scanLine_cr s13, scanLine_lf s10 hq, parity_even hq, absLine_crlf s34 s13]
              have hdw : decWrap (pre.length + cur.length + 1) = pre.length + cur.length := by simp [decWrap]
              simp only [Option.getD_some, hdw, if_true]
              refine ⟨?_, by omega, ?_, fun _ => by omega⟩
              · simp only [view, List.map_cons, List.map_nil, prependCur_single, hsub]
                rw [slice_mid]
              · rw [show pre.length + cur.length + 1 + 1 - (pre.length + cur.length) = 2 by omega]; rfl
          · -- a CR that is not the first half of a line break outside quotes
            obtain ⟨a1, a2, a3⟩ := push dq (some (pre.length + cur.length)) (fun p hp => by cases hp; omega)
              (fun _ hh => hcrlf ⟨hh.2, hh.1⟩)
            have habs : absLine sep (13 :: r) (decide (dq % 2 = 1)) = pushRaw 13 (absLine sep r (decide (dq % 2 = 1))) := by
              apply absLine_other (by decide)
              · exact fun h => s13 h.1.symm
              · intro h; exact hcrlf ⟨parity_false h.2.1, h.2.2⟩
              · intro h; cases h.1
            rw [scanLine_cr s13, habs, pushRaw_snd]
            refine ⟨?_, by omega, a3, fun _ => by omega⟩
            rw [a1]; exact prependCur_push cur 13 (by decide) _ _
        · by_cases h10 : c = 10 ∧ dq % 2 = 0
          · -- LF outside quotes, not preceded by a CR of this value
            obtain ⟨hc, hq⟩ := h10
            subst hc
            have hncr : ¬ (cr.getD (pre.length + cur.length) = decWrap (pre.length + cur.length)) := by
              intro h
              cases hcr' : cr with
              | none =>
                rw [hcr'] at h
                simp only [Option.getD_none, decWrap] at h
                split at h <;> omega
              | some p =>
                rw [hcr'] at h
                simp only [Option.getD_some] at h
                have hp := hcr p hcr'
                by_cases hz : pre.length + cur.length = 0
                · omega
                · have : decWrap (pre.length + cur.length) = pre.length + cur.length - 1 := by
                    unfold decWrap; rw [if_neg hz]
                  rw [this] at h
                  exact hH (by rw [hcr', h]) (by omega) ⟨by simp, hq⟩
            rw [scanLine_lf s10 hq, parity_even hq, absLine_lf s10]
            simp only [hncr, if_false]
            refine ⟨?_, by omega, ?_, fun _ => by omega⟩
            · simp only [view, List.map_cons, List.map_nil, prependCur_single, hsub]
              rw [slice_mid]
            · rw [show pre.length + cur.length + 1 - (pre.length + cur.length) = 1 by omega]; rfl
          · -- any other character
            obtain ⟨a1, a2, a3⟩ := push dq cr (fun p hp => by have := hcr p hp; omega)
              (fun h => by have := hcr _ h; omega)
            have habs : absLine sep (c :: r) (decide (dq % 2 = 1)) = pushRaw c (absLine sep r (decide (dq % 2 = 1))) := by
              apply absLine_other h34
              · intro h; exact hsep ⟨h.1, parity_false h.2⟩
              · intro h; exact h13 h.1
              · intro h; exact h10 ⟨h.1, parity_false h.2⟩
            rw [scanLine_other h34 hsep h13 h10, habs, pushRaw_snd]
            refine ⟨?_, by omega, a3, fun _ => by omega⟩
            rw [a1]; exact prependCur_push cur c h34 _ _

end BSVerif.Csv.Reader

namespace BSVerif.Csv.Reader
open BSVerif.Csv BSVerif.Csv.Abs BSVerif.Csv.Spec

/-! ### the string reader as an abstract reader -/

/-- abstraction function -/
def MemReader.toAbs (m : MemReader) : AbsReader :=
  { rem := m.src.drop m.curPos, withHeader := m.withHeader, sep := m.sep, headers := m.headers,
    cells := view m.src m.metas, lineNumber := m.lineNumber, rowIndex := m.rowIndex,
    valueIndex := m.valueIndex, prevValuesCount := m.prevValuesCount }

theorem prependCur_nil (cs : List RawCell) : prependCur [] false cs = cs := by
  cases cs <;> simp [prependCur]

theorem view_length (src : List Nat) (metas : List Meta) : (view src metas).length = metas.length := by
  simp [view]

theorem view_getElem? (src : List Nat) (metas : List Meta) (i : Nat) :
    (view src metas)[i]? = metas[i]?.map (fun m => ⟨slice src m.off m.size, m.esc⟩) := by
  simp [view]

/-- transport the state component of a result -/
def mapSt {α σ τ : Type} (f : σ → τ) : Except Err (α × σ) → Except Err (α × τ)
  | .ok (a, s) => .ok (a, f s)
  | .error e => .error e

@[simp] theorem mapSt_ok {α σ τ : Type} (f : σ → τ) (a : α) (s : σ) : mapSt f (.ok (a, s)) = .ok (a, f s) := rfl
@[simp] theorem mapSt_error {α σ τ : Type} (f : σ → τ) (e : Err) : mapSt f (.error e : Except Err (α × σ)) = .error e := rfl

namespace MemReader

theorem toAbs_isEnd (m : MemReader) : m.toAbs.isEnd = m.isEnd := by
  simp only [toAbs, AbsReader.isEnd, isEnd]
  rw [Bool.eq_iff_iff]
  simp [List.isEmpty_iff, List.drop_eq_nil_iff]

theorem parseNextLine_toAbs (m : MemReader) (hs : SepOk m.sep) :
    m.toAbs.parseNextLine = (m.parseNextLine.1, m.parseNextLine.2.toAbs) ∧ m.parseNextLine.2.sep = m.sep ∧
    m.parseNextLine.2.src = m.src ∧ m.parseNextLine.2.withHeader = m.withHeader ∧ m.parseNextLine.2.headers = m.headers ∧
    (¬ m.isEnd → m.curPos < m.parseNextLine.2.curPos) := by
  unfold parseNextLine AbsReader.parseNextLine
  by_cases hend : m.curPos ≥ m.src.length
  · have : (m.toAbs.rem).isEmpty = true := by simp [toAbs, List.isEmpty_iff, List.drop_eq_nil_iff, hend]
    simp [hend, this, isEnd]
  · have hne : ¬ (m.toAbs.rem).isEmpty = true := by
      simp [toAbs, List.isEmpty_iff, List.drop_eq_nil_iff]; omega
    rw [if_neg hend, if_neg hne]
    have hlt : m.curPos < m.src.length := by omega
    have hsrc : m.src.take m.curPos ++ [] ++ m.src.drop m.curPos = m.src := by simp
    have hpl : (m.src.take m.curPos).length + ([] : List Nat).length = m.curPos := by simp; omega
    have hpl' : (m.src.take m.curPos).length = m.curPos := by simp; omega
    have key := scanLine_abs m.sep hs (m.src.drop m.curPos) (m.src.take m.curPos) [] 0 none
      (fun p hp => by cases hp) (fun h => by cases h)
    rw [hsrc, hpl, hpl'] at key
    obtain ⟨k1, k2, k3, k4⟩ := key
    simp only [Nat.zero_mod, show decide ((0:Nat) = 1) = false by rfl, show ((0:Nat) != 0) = false by rfl, prependCur_nil] at k1 k3
    have hl : m.src.drop m.curPos ≠ [] := by simp [List.drop_eq_nil_iff]; omega
    refine ⟨?_, rfl, rfl, rfl, rfl, fun _ => k4 hl⟩
    simp only [toAbs]
    rw [← k1, ← k3]
    have hd : List.drop ((scanLine m.sep m.src.length (List.drop m.curPos m.src) m.curPos m.curPos 0 none).2 - m.curPos) (List.drop m.curPos m.src)
        = List.drop (scanLine m.sep m.src.length (List.drop m.curPos m.src) m.curPos m.curPos 0 none).2 m.src := by
      rw [List.drop_drop]; congr 1; omega
    simp [view_length, hd, view]

theorem cellValue_toAbs (src : List Nat) (mm : Meta) :
    Abs.cellValue ⟨slice src mm.off mm.size, mm.esc⟩ = cellValueOf src mm := rfl

theorem readValueIdx_toAbs (m : MemReader) :
    m.toAbs.readValueIdx = mapSt toAbs m.readValueIdx := by
  unfold readValueIdx AbsReader.readValueIdx
  simp only [toAbs, view_getElem?]
  cases h : m.metas[m.valueIndex]? with
  | none => simp
  | some mm =>
    simp only [Option.map_some, cellValue_toAbs, cellValue]
    cases hv : cellValueOf m.src mm with
    | error e => simp [bind, Except.bind]
    | ok v => simp [bind, Except.bind, pure, Except.pure]; rfl

theorem readValueKey_toAbs (m : MemReader) (key : List Nat) :
    m.toAbs.readValueKey key = mapSt toAbs (m.readValueKey key) := by
  unfold readValueKey AbsReader.readValueKey
  by_cases hw : m.withHeader = true
  · simp only [toAbs, hw, Bool.not_true, Bool.false_eq_true, if_false]
    generalize resolveKey m.headers m.valueIndex key = res
    obtain ⟨vi, found⟩ := res
    cases found with
    | false => simp; rfl
    | true =>
      simp only [Bool.not_true, Bool.false_eq_true, if_false, view_getElem?]
      cases h : m.metas[vi]? with
      | none => simp
      | some mm =>
        simp only [Option.map_some]
        simp only [cellValue_toAbs, cellValue]
        cases hv : cellValueOf m.src mm with
        | error e => simp [bind, Except.bind]
        | ok v => simp [bind, Except.bind, pure, Except.pure]; rfl
  · simp [toAbs, hw]


theorem readValueIdx_fields (m m' : MemReader) (v : List Nat) (h : m.readValueIdx = .ok (v, m')) :
    m'.sep = m.sep ∧ m'.src = m.src ∧ m'.headers = m.headers ∧ m'.withHeader = m.withHeader ∧ m'.metas = m.metas ∧
    m'.curPos = m.curPos ∧ m'.rowIndex = m.rowIndex ∧ m'.lineNumber = m.lineNumber := by
  unfold readValueIdx at h
  split at h
  · rename_i mm _
    cases hv : m.cellValue mm with
    | error e => simp [hv, bind, Except.bind] at h
    | ok w =>
      simp [hv, bind, Except.bind, pure, Except.pure] at h
      obtain ⟨_, rfl⟩ := h
      simp
  · cases h

theorem readValueKey_fields (m m' : MemReader) (key : List Nat) (v : Option (List Nat)) (h : m.readValueKey key = .ok (v, m')) :
    m'.sep = m.sep ∧ m'.src = m.src ∧ m'.headers = m.headers ∧ m'.withHeader = m.withHeader ∧ m'.metas = m.metas ∧
    m'.curPos = m.curPos ∧ m'.rowIndex = m.rowIndex ∧ m'.lineNumber = m.lineNumber := by
  unfold readValueKey at h
  split at h
  · injection h with h; injection h with _ h; subst h; simp
  · generalize resolveKey m.headers m.valueIndex key = res at h
    obtain ⟨vi, found⟩ := res
    simp only at h
    split at h
    · injection h with h; injection h with _ h; subst h; simp
    · split at h
      · cases h
      · rename_i mm _
        cases hv : ({ m with valueIndex := vi } : MemReader).cellValue mm with
        | error e => simp [hv, bind, Except.bind] at h
        | ok w =>
          simp [hv, bind, Except.bind, pure, Except.pure] at h
          obtain ⟨_, rfl⟩ := h
          simp

theorem parseNextRow_toAbs (m : MemReader) (hs : SepOk m.sep) :
    m.toAbs.parseNextRow = (match m.parseNextRow with | .ok (b, m') => .ok (b, m'.toAbs) | .error e => .error e) := by
  obtain ⟨h1, _⟩ := parseNextLine_toAbs m hs
  unfold parseNextRow AbsReader.parseNextRow
  rw [h1]
  generalize m.parseNextLine = res
  obtain ⟨more, m1⟩ := res
  cases more with
  | false => simp
  | true =>
    simp only [if_true, toAbs, view_length]
    split
    · simp
    · split
      · simp
      · rfl

theorem parseNextRow_fields (m m' : MemReader) (b : Bool) (hs : SepOk m.sep) (h : m.parseNextRow = .ok (b, m')) :
    m'.sep = m.sep ∧ m'.src = m.src ∧ m'.headers = m.headers ∧ m'.withHeader = m.withHeader ∧
    (¬ m.isEnd → m.curPos < m'.curPos) := by
  obtain ⟨_, h2, h3, h4, h5, h6⟩ := parseNextLine_toAbs m hs
  unfold parseNextRow at h
  generalize m.parseNextLine = res at h h2 h3 h4 h5 h6
  obtain ⟨more, m1⟩ := res
  cases more with
  | false => simp at h; obtain ⟨_, rfl⟩ := h; exact ⟨h2, h3, h5, h4, h6⟩
  | true =>
    simp only [if_true] at h
    split at h
    · cases h
    · split at h
      · cases h
      · injection h with h; injection h with _ h; subst h
        exact ⟨h2, h3, h5, h4, h6⟩

theorem readHeaders_toAbs (m : MemReader) (n : Nat) :
    m.toAbs.readHeaders n = mapSt toAbs (m.readHeaders n) := by
  induction n generalizing m with
  | zero => rfl
  | succ n ih =>
    simp only [readHeaders, AbsReader.readHeaders, readValueIdx_toAbs]
    cases h : m.readValueIdx with
    | error e => simp [bind, Except.bind]
    | ok r =>
      obtain ⟨v, m1⟩ := r
      simp only [mapSt_ok, bind, Except.bind, ih m1]
      cases h2 : m1.readHeaders n with
      | error e => simp
      | ok r2 => obtain ⟨vs, m2⟩ := r2; simp [pure, Except.pure]

theorem readHeaders_fields (m : MemReader) (n : Nat) (hs : List (List Nat)) (m' : MemReader) (h : m.readHeaders n = .ok (hs, m')) :
    m'.sep = m.sep ∧ m'.src = m.src ∧ m'.withHeader = m.withHeader ∧ m'.curPos = m.curPos := by
  induction n generalizing m hs with
  | zero => simp [readHeaders] at h; obtain ⟨_, rfl⟩ := h; simp
  | succ n ih =>
    simp only [readHeaders] at h
    cases h1 : m.readValueIdx with
    | error e => simp [h1, bind, Except.bind] at h
    | ok r =>
      obtain ⟨v, m1⟩ := r
      simp only [h1, bind, Except.bind] at h
      cases h2 : m1.readHeaders n with
      | error e => simp [h2] at h
      | ok r2 =>
        obtain ⟨vs, m2⟩ := r2
        simp [h2, pure, Except.pure] at h
        obtain ⟨_, rfl⟩ := h
        obtain ⟨a1, a2, _, a4, _, a6, _⟩ := readValueIdx_fields m m1 v h1
        obtain ⟨b1, b2, b3, b4⟩ := ih m1 vs h2
        exact ⟨b1.trans a1, b2.trans a2, b3.trans a4, b4.trans a6⟩

theorem runScript_toAbs (m : MemReader) (script : List Req) :
    m.toAbs.runScript script = mapSt toAbs (m.runScript script) := by
  induction script generalizing m with
  | nil => rfl
  | cons q qs ih =>
    cases q with
    | idx =>
      simp only [runScript, AbsReader.runScript, readValueIdx_toAbs]
      cases h : m.readValueIdx with
      | error e => simp [bind, Except.bind]
      | ok r =>
        obtain ⟨v, m1⟩ := r
        simp only [mapSt_ok, bind, Except.bind, ih m1]
        cases h2 : m1.runScript qs with
        | error e => simp
        | ok r2 => obtain ⟨cs, m2⟩ := r2; simp [pure, Except.pure]
    | key n =>
      simp only [runScript, AbsReader.runScript, readValueKey_toAbs]
      have : m.toAbs.headers = m.headers := rfl
      rw [this]
      cases h : m.readValueKey (keyOf m.headers n) with
      | error e => simp [bind, Except.bind]
      | ok r =>
        obtain ⟨v, m1⟩ := r
        simp only [mapSt_ok, bind, Except.bind, ih m1]
        cases h2 : m1.runScript qs with
        | error e => simp
        | ok r2 => obtain ⟨cs, m2⟩ := r2; simp [pure, Except.pure]; rfl
    | lit k =>
      simp only [runScript, AbsReader.runScript, readValueKey_toAbs]
      cases h : m.readValueKey k with
      | error e => simp [bind, Except.bind]
      | ok r =>
        obtain ⟨v, m1⟩ := r
        simp only [mapSt_ok, bind, Except.bind, ih m1]
        cases h2 : m1.runScript qs with
        | error e => simp
        | ok r2 => obtain ⟨cs, m2⟩ := r2; simp [pure, Except.pure]; rfl

theorem runScript_fields (m : MemReader) (script : List Req) (cs : List Cell) (m' : MemReader) (h : m.runScript script = .ok (cs, m')) :
    m'.sep = m.sep ∧ m'.src = m.src ∧ m'.headers = m.headers ∧ m'.withHeader = m.withHeader ∧ m'.curPos = m.curPos := by
  induction script generalizing m cs with
  | nil => simp [runScript] at h; obtain ⟨_, rfl⟩ := h; simp
  | cons q qs ih =>
    cases q with
    | idx =>
      simp only [runScript] at h
      cases h1 : m.readValueIdx with
      | error e => simp [h1, bind, Except.bind] at h
      | ok r =>
        obtain ⟨v, m1⟩ := r
        simp only [h1, bind, Except.bind] at h
        cases h2 : m1.runScript qs with
        | error e => simp [h2] at h
        | ok r2 =>
          obtain ⟨cs2, m2⟩ := r2
          simp [h2, pure, Except.pure] at h
          obtain ⟨_, rfl⟩ := h
          obtain ⟨a1, a2, a3, a4, _, a6, _⟩ := readValueIdx_fields m m1 v h1
          obtain ⟨b1, b2, b3, b4, b5⟩ := ih m1 cs2 h2
          exact ⟨b1.trans a1, b2.trans a2, b3.trans a3, b4.trans a4, b5.trans a6⟩
    | key n =>
      simp only [runScript] at h
      cases h1 : m.readValueKey (keyOf m.headers n) with
      | error e => simp [h1, bind, Except.bind] at h
      | ok r =>
        obtain ⟨v, m1⟩ := r
        simp only [h1, bind, Except.bind] at h
        cases h2 : m1.runScript qs with
        | error e => simp [h2] at h
        | ok r2 =>
          obtain ⟨cs2, m2⟩ := r2
          simp [h2, pure, Except.pure] at h
          obtain ⟨_, rfl⟩ := h
          obtain ⟨a1, a2, a3, a4, _, a6, _⟩ := readValueKey_fields m m1 _ v h1
          obtain ⟨b1, b2, b3, b4, b5⟩ := ih m1 cs2 h2
          exact ⟨b1.trans a1, b2.trans a2, b3.trans a3, b4.trans a4, b5.trans a6⟩
    | lit k =>
      simp only [runScript] at h
      cases h1 : m.readValueKey k with
      | error e => simp [h1, bind, Except.bind] at h
      | ok r =>
        obtain ⟨v, m1⟩ := r
        simp only [h1, bind, Except.bind] at h
        cases h2 : m1.runScript qs with
        | error e => simp [h2] at h
        | ok r2 =>
          obtain ⟨cs2, m2⟩ := r2
          simp [h2, pure, Except.pure] at h
          obtain ⟨_, rfl⟩ := h
          obtain ⟨a1, a2, a3, a4, _, a6, _⟩ := readValueKey_fields m m1 _ v h1
          obtain ⟨b1, b2, b3, b4, b5⟩ := ih m1 cs2 h2
          exact ⟨b1.trans a1, b2.trans a2, b3.trans a3, b4.trans a4, b5.trans a6⟩

theorem loop_toAbs (script : List Req) (fuel : Nat) (m : MemReader) (hs : SepOk m.sep) :
    m.toAbs.loop script fuel = m.loop script fuel := by
  induction fuel generalizing m with
  | zero => rfl
  | succ fuel ih =>
    simp only [loop, AbsReader.loop, toAbs_isEnd]
    split
    · rfl
    · rw [parseNextRow_toAbs m hs]
      cases h : m.parseNextRow with
      | error e => rfl
      | ok r =>
        obtain ⟨b, m1⟩ := r
        obtain ⟨f1, _⟩ := parseNextRow_fields m m1 b hs h
        cases b with
        | false => rfl
        | true =>
          simp only [runScript_toAbs]
          cases h2 : m1.runScript script with
          | error e => rfl
          | ok r2 =>
            obtain ⟨cs, m2⟩ := r2
            obtain ⟨g1, _⟩ := runScript_fields m1 script cs m2 h2
            simp only [mapSt_ok]
            rw [ih m2 (by rw [g1, f1]; exact hs)]

theorem create_toAbs (txt : List Nat) (wh : Bool) (sep : Nat) (hs : SepOk sep) :
    AbsReader.create txt wh sep = (match create txt wh sep with | .ok m => .ok m.toAbs | .error e => .error e) ∧
    (∀ m, create txt wh sep = .ok m → m.sep = sep) := by
  unfold create AbsReader.create
  cases wh with
  | false => simp [toAbs, view]
  | true =>
    simp only [if_true]
    have h0 : ({ rem := txt, withHeader := true, sep := sep } : AbsReader) = ({ src := txt, withHeader := true, sep := sep } : MemReader).toAbs := by
      simp [toAbs, view]
    obtain ⟨h1, h2, _⟩ := parseNextLine_toAbs ({ src := txt, withHeader := true, sep := sep } : MemReader) hs
    rw [h0, h1]
    generalize ({ src := txt, withHeader := true, sep := sep } : MemReader).parseNextLine = res at h2 ⊢
    obtain ⟨more, m1⟩ := res
    cases more with
    | false => simp
    | true =>
      simp only [if_true]
      have : m1.toAbs.cells.length = m1.metas.length := by simp [toAbs, view_length]
      rw [this, readHeaders_toAbs]
      cases h3 : m1.readHeaders m1.metas.length with
      | error e => simp [bind, Except.bind]
      | ok r =>
        obtain ⟨hsd, m2⟩ := r
        obtain ⟨a1, _⟩ := readHeaders_fields m1 _ hsd m2 h3
        simp only [mapSt_ok, bind, Except.bind, pure, Except.pure]
        refine ⟨by simp [toAbs], ?_⟩
        intro m hm
        injection hm with hm
        subst hm
        simp only at h2
        simp [a1, h2]

end MemReader

/-- **the string-reader model is the abstract reader** (every text, every script) -/
theorem memSession_eq_abs (sep : Nat) (hs : SepOk sep) (wh : Bool) (script : List Req) (txt : List Nat) :
    memSession sep wh script txt = absSession sep wh script txt := by
  unfold memSession absSession
  obtain ⟨h1, h2⟩ := MemReader.create_toAbs txt wh sep hs
  rw [h1]
  cases h : MemReader.create txt wh sep with
  | error e => rfl
  | ok m =>
    simp only
    rw [MemReader.loop_toAbs script _ m (by rw [h2 m h]; exact hs)]

end BSVerif.Csv.Reader
