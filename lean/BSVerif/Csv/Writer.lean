/-
  MODEL of src/csv/csv_writers.cpp (after the fix "quote fields that contain a bare CR"):
  `WriteEscapedValue`, `CCsvStringWriter::{WriteValue, NextLine}`, `CCsvStreamWriter::{WriteValue,
  NextLine}` with a UTF-8 / no-BOM `CEncodedStreamWriter` (which writes `char` input "as is").
  `SetEstimatedSize` only reserves memory and is not modelled.
-/
import BSVerif.Csv.Common

namespace BSVerif.Csv.Writer
open BSVerif.Csv

/-- the characters at which the first loop of `WriteEscapedValue` stops -/
def mustQuote (sep sym : Nat) : Bool := sym == 34 || sym == sep || sym == 10 || sym == 13

/-- second loop of `WriteEscapedValue`: copy, doubling every double quote -/
def copyEscaped : List Nat → List Nat
  | [] => []
  | c :: r => if c = 34 then 34 :: 34 :: copyEscaped r else c :: copyEscaped r

/-- `WriteEscapedValue(value, outputString, separator)` -/
def writeEscapedValue (sep : Nat) (value out : List Nat) : List Nat :=
  let head := value.takeWhile (fun c => !mustQuote sep c)     -- [value.data(), it)
  let tail := value.dropWhile (fun c => !mustQuote sep c)     -- [it, endIt)
  if tail.isEmpty then out ++ value
  else out ++ 34 :: (head ++ (copyEscaped tail ++ [34]))

/-- `CCsvStringWriter` -/
structure StringWriter where
  out : List Nat            -- mOutputString
  withHeader : Bool
  sep : Nat
  currentRow : List Nat := []
  rowIndex : Nat := 0
  valueIndex : Nat := 0
  prevValuesCount : Nat := 0
  deriving Repr, DecidableEq

def StringWriter.writeValue (w : StringWriter) (key value : List Nat) : StringWriter :=
  let out :=
    if w.rowIndex = 0 ∧ w.withHeader then
      writeEscapedValue w.sep key (if w.valueIndex ≠ 0 then w.out ++ [w.sep] else w.out)
    else w.out
  let row := writeEscapedValue w.sep value (if w.valueIndex ≠ 0 then w.currentRow ++ [w.sep] else w.currentRow)
  { w with out := out, currentRow := row, valueIndex := w.valueIndex + 1 }

def StringWriter.nextLine (w : StringWriter) : Except Err StringWriter :=
  if w.rowIndex = 0 then
    let out := if w.withHeader then w.out ++ [13, 10] else w.out
    .ok { w with out := out ++ w.currentRow ++ [13, 10], prevValuesCount := w.valueIndex,
                 rowIndex := w.rowIndex + 1, valueIndex := 0, currentRow := [] }
  else if w.valueIndex ≠ w.prevValuesCount then .error .serOutOfRange
  else .ok { w with out := w.out ++ w.currentRow ++ [13, 10],
                    rowIndex := w.rowIndex + 1, valueIndex := 0, currentRow := [] }

/-- `CCsvStreamWriter` over a UTF-8 stream without BOM; `stream` is what has been written so far -/
structure StreamWriter where
  stream : List Nat
  withHeader : Bool
  sep : Nat
  csvHeader : List Nat := []
  currentRow : List Nat := []
  rowIndex : Nat := 0
  valueIndex : Nat := 0
  prevValuesCount : Nat := 0
  deriving Repr, DecidableEq

def StreamWriter.writeValue (w : StreamWriter) (key value : List Nat) : StreamWriter :=
  let hdr :=
    if w.rowIndex = 0 ∧ w.withHeader then
      writeEscapedValue w.sep key (if w.valueIndex ≠ 0 then w.csvHeader ++ [w.sep] else w.csvHeader)
    else w.csvHeader
  let row := writeEscapedValue w.sep value (if w.valueIndex ≠ 0 then w.currentRow ++ [w.sep] else w.currentRow)
  { w with csvHeader := hdr, currentRow := row, valueIndex := w.valueIndex + 1 }

def StreamWriter.nextLine (w : StreamWriter) : Except Err StreamWriter :=
  if w.rowIndex = 0 then
    -- the header is flushed first (mEncodedStream.Write(mCsvHeader) cannot fail for UTF-8 output)
    let hdr := if w.withHeader then w.csvHeader ++ [13, 10] else w.csvHeader
    let stream := if w.withHeader then w.stream ++ hdr else w.stream
    .ok { w with csvHeader := hdr, stream := stream ++ (w.currentRow ++ [13, 10]), prevValuesCount := w.valueIndex,
                 rowIndex := w.rowIndex + 1, valueIndex := 0, currentRow := [] }
  else if w.valueIndex ≠ w.prevValuesCount then .error .serOutOfRange
  else .ok { w with stream := w.stream ++ (w.currentRow ++ [13, 10]),
                    rowIndex := w.rowIndex + 1, valueIndex := 0, currentRow := [] }

/-! ### whole documents: one `WriteValue` per (key, value) of a row, then `NextLine` -/

abbrev KV := List Nat × List Nat

def StringWriter.writeRow (w : StringWriter) (row : List KV) : Except Err StringWriter :=
  (row.foldl (fun w kv => w.writeValue kv.1 kv.2) w).nextLine

def StreamWriter.writeRow (w : StreamWriter) (row : List KV) : Except Err StreamWriter :=
  (row.foldl (fun w kv => w.writeValue kv.1 kv.2) w).nextLine

def StringWriter.writeRows (w : StringWriter) : List (List KV) → Except Err StringWriter
  | [] => .ok w
  | r :: rs => match w.writeRow r with
    | .error e => .error e
    | .ok w' => w'.writeRows rs

def StreamWriter.writeRows (w : StreamWriter) : List (List KV) → Except Err StreamWriter
  | [] => .ok w
  | r :: rs => match w.writeRow r with
    | .error e => .error e
    | .ok w' => w'.writeRows rs

/-- text produced by `CCsvStringWriter` for a list of rows -/
def saveString (sep : Nat) (withHeader : Bool) (rows : List (List KV)) : Except Err (List Nat) :=
  match (StringWriter.mk [] withHeader sep [] 0 0 0).writeRows rows with
  | .ok w => .ok w.out
  | .error e => .error e

/-- bytes produced by `CCsvStreamWriter` (UTF-8, no BOM) for a list of rows -/
def saveStream (sep : Nat) (withHeader : Bool) (rows : List (List KV)) : Except Err (List Nat) :=
  match (StreamWriter.mk [] withHeader sep [] [] 0 0 0).writeRows rows with
  | .ok w => .ok w.stream
  | .error e => .error e

end BSVerif.Csv.Writer
