/-
  Sessions of the abstract reader: under a reading discipline `P` with the step property
  (`LineStep`), the session delivers exactly what the Oracle expects from the table (`expectOfRecs`).
-/
import BSVerif.Csv.AbstractLemmas
import BSVerif.Csv.Oracle

namespace BSVerif.Csv.Abs
open BSVerif.Csv BSVerif.Csv.Reader BSVerif.Csv.Spec BSVerif.Csv.Oracle

/-! ### header lookup -/

theorem idxOf_of_getElem? {l : List (List Nat)} (hn : l.Nodup) {i : Nat} {a : List Nat} (h : l[i]? = some a) : l.idxOf a = i := by
  induction l generalizing i with
  | nil => simp at h
  | cons x xs ih =>
    rw [List.nodup_cons] at hn
    cases i with
    | zero => simp at h; subst h; simp
    | succ j =>
      simp only [List.getElem?_cons_succ] at h
      have hmem : a ∈ xs := List.mem_of_getElem? h
      have hne : x ≠ a := fun hx => hn.1 (hx ▸ hmem)
      rw [List.idxOf_cons]
      have : (x == a) = false := by simp [hne]
      simp [this, ih hn.2 h]

theorem resolveKey_nodup {hdr : List (List Nat)} (hn : hdr.Nodup) (vi : Nat) (key : List Nat) :
    resolveKey hdr vi key = if key ∈ hdr then (hdr.idxOf key, true) else (vi + 1, false) := by
  unfold resolveKey
  by_cases hm : key ∈ hdr
  · have hlt : hdr.idxOf key < hdr.length := List.idxOf_lt_length_of_mem hm
    simp only [hm, if_true]
    split
    · have : ¬ (hdr.idxOf key ≥ hdr.length) := by omega
      simp [this]
    · rename_i h
      have h' : vi + 1 < hdr.length ∧ hdr[vi + 1]? = some key := by
        constructor
        · apply Classical.byContradiction; intro hc; exact h (Or.inl (by omega))
        · apply Classical.byContradiction; intro hc; exact h (Or.inr hc)
      rw [idxOf_of_getElem? hn h'.2]
  · have : hdr.idxOf key = hdr.length := List.idxOf_eq_length hm
    simp only [hm, if_false]
    have h1 : vi + 1 ≥ hdr.length ∨ hdr[vi + 1]? ≠ some key := by
      by_cases h : vi + 1 ≥ hdr.length
      · exact Or.inl h
      · right; intro hc; exact hm (List.mem_of_getElem? hc)
    simp [h1, this]

/-- cells that decode to `row` -/
def Decodes (cells : List RawCell) (row : List Field) : Prop := cells.map cellValue = row.map .ok

theorem Decodes.length {cells : List RawCell} {row : List Field} (h : Decodes cells row) : cells.length = row.length := by
  have := congrArg List.length h; simpa using this

theorem Decodes.get {cells : List RawCell} {row : List Field} (h : Decodes cells row) {i : Nat} {c : RawCell}
    (hc : cells[i]? = some c) : ∃ v, row[i]? = some v ∧ cellValue c = .ok v := by
  have := congrArg (fun l => l[i]?) h
  simp only [List.getElem?_map, hc, Option.map_some] at this
  cases hr : row[i]? with
  | none => simp [hr] at this
  | some v => simp [hr] at this; exact ⟨v, rfl, this⟩

/-- the cell a by-key request delivers (Oracle semantics) -/
def reqCell (hdr : Option (List Field)) (row : List Field) : Req → Cell
  | .key n => lookupCell hdr row (keyOf (hdr.getD []) n)
  | .lit k => lookupCell hdr row k
  | .idx => .notFound


namespace AbsReader

def optCell : Option (List Nat) → Cell
  | some v => .val v
  | none => .notFound

theorem runScript_key_ok {a a1 a2 : AbsReader} {n : Nat} {qs : List Req} {v : Option (List Nat)} {cs : List Cell}
    (h1 : a.readValueKey (keyOf a.headers n) = .ok (v, a1)) (h2 : a1.runScript qs = .ok (cs, a2)) :
    a.runScript (.key n :: qs) = .ok (optCell v :: cs, a2) := by
  simp only [runScript, h1, bind, Except.bind, h2, pure, Except.pure]
  cases v <;> rfl

theorem runScript_lit_ok {a a1 a2 : AbsReader} {k : List Nat} {qs : List Req} {v : Option (List Nat)} {cs : List Cell}
    (h1 : a.readValueKey k = .ok (v, a1)) (h2 : a1.runScript qs = .ok (cs, a2)) :
    a.runScript (.lit k :: qs) = .ok (optCell v :: cs, a2) := by
  simp only [runScript, h1, bind, Except.bind, h2, pure, Except.pure]
  cases v <;> rfl

theorem runScript_idx_ok {a a1 a2 : AbsReader} {qs : List Req} {v : List Nat} {cs : List Cell}
    (h1 : a.readValueIdx = .ok (v, a1)) (h2 : a1.runScript qs = .ok (cs, a2)) :
    a.runScript (.idx :: qs) = .ok (.val v :: cs, a2) := by
  simp only [runScript, h1, bind, Except.bind, h2, pure, Except.pure]

theorem runScript_idx_err2 {a a1 : AbsReader} {qs : List Req} {v : List Nat} {e : Err}
    (h1 : a.readValueIdx = .ok (v, a1)) (h2 : a1.runScript qs = .error e) :
    a.runScript (.idx :: qs) = .error e := by
  simp only [runScript, h1, bind, Except.bind, h2]

theorem runScript_idx_err1 {a : AbsReader} {qs : List Req} {e : Err}
    (h1 : a.readValueIdx = .error e) : a.runScript (.idx :: qs) = .error e := by
  simp only [runScript, h1, bind, Except.bind]

theorem optCell_lookup (hdr : Option (List Field)) (row : List Field) (key : List Nat) :
    optCell (match lookupCell hdr row key with | .val v => some v | .notFound => none) = lookupCell hdr row key := by
  cases lookupCell hdr row key <;> rfl

/-- `ReadValue(key)` under a header without duplicates -/
theorem readValueKey_hdr (a : AbsReader) (hdr row : List Field) (hw : a.withHeader = true) (hh : a.headers = hdr)
    (hn : hdr.Nodup) (hd : Decodes a.cells row) (hl : row.length = hdr.length) (key : List Nat) :
    ∃ vi, a.readValueKey key = .ok ((match lookupCell (some hdr) row key with | .val v => some v | .notFound => none),
      { a with valueIndex := vi }) := by
  unfold readValueKey
  simp only [hw, Bool.not_true, Bool.false_eq_true, if_false, hh, resolveKey_nodup hn]
  by_cases hm : key ∈ hdr
  · have hlt : hdr.idxOf key < hdr.length := List.idxOf_lt_length_of_mem hm
    simp only [hm, if_true, Bool.not_true, Bool.false_eq_true, if_false]
    have hcl := hd.length
    have hc : a.cells[hdr.idxOf key]? = some (a.cells[hdr.idxOf key]'(by omega)) := List.getElem?_eq_getElem (by omega)
    obtain ⟨v, hv1, hv2⟩ := hd.get hc
    refine ⟨hdr.idxOf key, ?_⟩
    simp only [hc, hv2, bind, Except.bind, pure, Except.pure, lookupCell, hv1, hlt, if_true]
  · have : hdr.idxOf key = hdr.length := List.idxOf_eq_length hm
    simp only [hm, if_false, Bool.not_false, if_true]
    refine ⟨a.valueIndex + 1, ?_⟩
    have hr : row[hdr.length]? = none := by simp [hl]
    simp [lookupCell, this, hr]

theorem runScript_keys (hdr row : List Field) (hn : hdr.Nodup) (hl : row.length = hdr.length) (script : List Req) (hk : noIdx script = true) :
    ∀ (a : AbsReader), a.withHeader = true → a.headers = hdr → Decodes a.cells row →
      ∃ vi, a.runScript script = .ok (script.map (reqCell (some hdr) row), { a with valueIndex := vi }) := by
  induction script with
  | nil => intro a _ _ _; exact ⟨a.valueIndex, rfl⟩
  | cons q qs ih =>
    intro a hw hh hd
    simp only [noIdx, List.all_cons, Bool.and_eq_true] at hk
    have ihq := ih (by simpa [noIdx] using hk.2)
    cases q with
    | idx => simp [isIdx] at hk
    | key n =>
      obtain ⟨vi, h1⟩ := readValueKey_hdr a hdr row hw hh hn hd hl (keyOf a.headers n)
      obtain ⟨vj, h2⟩ := ihq { a with valueIndex := vi } hw hh hd
      refine ⟨vj, ?_⟩
      rw [runScript_key_ok h1 h2, optCell_lookup, hh]
      rfl
    | lit k =>
      obtain ⟨vi, h1⟩ := readValueKey_hdr a hdr row hw hh hn hd hl k
      obtain ⟨vj, h2⟩ := ihq { a with valueIndex := vi } hw hh hd
      refine ⟨vj, ?_⟩
      rw [runScript_lit_ok h1 h2, optCell_lookup]
      rfl

/-- without a header line `ReadValue(key)` finds nothing -/
theorem runScript_keys_nohdr (row : List Field) (script : List Req) (hk : noIdx script = true) :
    ∀ (a : AbsReader), a.withHeader = false →
      a.runScript script = .ok (script.map (reqCell none row), a) := by
  induction script with
  | nil => intro a _; rfl
  | cons q qs ih =>
    intro a hw
    simp only [noIdx, List.all_cons, Bool.and_eq_true] at hk
    have ihq := ih (by simpa [noIdx] using hk.2) a hw
    cases q with
    | idx => simp [isIdx] at hk
    | key n => simp [runScript, readValueKey, hw, bind, Except.bind, ihq, pure, Except.pure, reqCell, lookupCell]
    | lit k => simp [runScript, readValueKey, hw, bind, Except.bind, ihq, pure, Except.pure, reqCell, lookupCell]

/-- `ReadValue()` requests deliver the cells in order and fail after the last one -/
theorem runScript_idxs (row : List Field) (script : List Req) (hk : allIdx script = true) :
    ∀ (a : AbsReader), Decodes a.cells row →
      (a.valueIndex + script.length ≤ row.length →
        a.runScript script = .ok (((row.drop a.valueIndex).take script.length).map .val, { a with valueIndex := a.valueIndex + script.length })) ∧
      (a.valueIndex ≤ row.length → a.valueIndex + script.length > row.length → a.runScript script = .error .serOutOfRange) := by
  induction script with
  | nil => intro a _; exact ⟨fun _ => by simp [runScript], fun h1 h2 => by simp at h2; omega⟩
  | cons q qs ih =>
    intro a hd
    simp only [allIdx, List.all_cons, Bool.and_eq_true] at hk
    have ihq := ih (by simpa [allIdx] using hk.2)
    cases q with
    | key n => simp [isIdx] at hk
    | lit k => simp [isIdx] at hk
    | idx =>
      have hcl := hd.length
      by_cases hlt : a.valueIndex < row.length
      · have hc : a.cells[a.valueIndex]? = some (a.cells[a.valueIndex]'(by omega)) := List.getElem?_eq_getElem (by omega)
        obtain ⟨v, hv1, hv2⟩ := hd.get hc
        have hread : a.readValueIdx = .ok (v, { a with valueIndex := a.valueIndex + 1 }) := by
          simp [readValueIdx, hc, hv2, bind, Except.bind, pure, Except.pure]
        obtain ⟨i1, i2⟩ := ihq { a with valueIndex := a.valueIndex + 1 } hd
        simp only [List.length_cons] at *
        constructor
        · intro hle
          have := i1 (by omega)
          rw [runScript_idx_ok hread this]
          have hdrop : row.drop a.valueIndex = v :: row.drop (a.valueIndex + 1) := by
            rw [List.drop_eq_getElem_cons hlt]
            congr 1
            have := List.getElem?_eq_getElem hlt
            rw [hv1] at this; injection this with this; exact this.symm
          simp only [hdrop, List.take_succ_cons, List.map_cons]
          congr 3
          omega
        · intro _ hgt
          have := i2 (by omega) (by omega)
          rw [runScript_idx_err2 hread this]
      · constructor
        · intro hle; simp only [List.length_cons] at hle; omega
        · intro hle _
          have hc : a.cells[a.valueIndex]? = none := by simp; omega
          exact runScript_idx_err1 (by simp [readValueIdx, hc])


theorem absLine_cells_ne (sep : Nat) (l : List Nat) (q : Bool) : (absLine sep l q).1 ≠ [] := by
  induction l generalizing q with
  | nil => simp [absLine]
  | cons c r ih =>
    have push : ∀ (d : Nat) (x : List RawCell × List Nat), x.1 ≠ [] → (pushRaw d x).1 ≠ [] := by
      intro d x hx
      obtain ⟨cs, rest⟩ := x
      cases cs with
      | nil => exact absurd rfl hx
      | cons a as => simp [pushRaw]
    simp only [absLine]
    split
    · exact push _ _ (ih _)
    · split
      · simp [newCell]
      · split
        · simp
        · split
          · simp
          · exact push _ _ (ih _)

/-- `ParseNextRow` when there is text left -/
theorem parseNextRow_step (a : AbsReader) (cells : List RawCell) (rest : List Nat) (hne : a.rem ≠ [])
    (hl : absLine a.sep a.rem false = (cells, rest)) :
    a.parseNextRow =
      if a.withHeader = true ∧ a.headers.length ≠ cells.length then .error .parsing
      else if ¬ a.withHeader = true ∧ a.lineNumber + 1 ≥ 2 ∧ a.cells.length ≠ cells.length then .error .parsing
      else .ok (true, { a with lineNumber := a.lineNumber + 1, prevValuesCount := a.cells.length, cells := cells, rem := rest,
                               valueIndex := 0,
                               rowIndex := if a.lineNumber + 1 = (if a.withHeader = true then 2 else 1) then a.rowIndex else a.rowIndex + 1 }) := by
  have hc : cells ≠ [] := by have := absLine_cells_ne a.sep a.rem false; rw [hl] at this; exact this
  have he : a.rem.isEmpty = false := by cases h : a.rem <;> simp_all
  have hce : cells.isEmpty = false := by cases h : cells <;> simp_all
  unfold parseNextRow parseNextLine
  simp only [he, Bool.false_eq_true, if_false, hl, hce, Bool.not_false, if_true]

/-- set the reported row index of a successful outcome -/
def setIndex (i : Nat) : Outcome → Outcome
  | .ok h rows f _ => .ok h rows f i
  | o => o

theorem fixIndex_eq (n : Nat) (o : Outcome) : fixIndex n o = setIndex (n - 1) o := by cases o <;> rfl

theorem setIndex_addRow (i : Nat) (row : List Cell) (o : Outcome) : (setIndex i o).addRow row = setIndex i (o.addRow row) := by
  cases o <;> rfl

theorem scriptKind_keys {script : List Req} (h : noIdx script = true) : scriptKind script = .keys := by
  unfold scriptKind; rw [if_pos h]

theorem scriptKind_cases (script : List Req) (h : scriptKind script ≠ .mixed) :
    (noIdx script = true ∧ scriptKind script = .keys) ∨ (noIdx script = false ∧ allIdx script = true ∧ scriptKind script = .idxs) := by
  unfold scriptKind at h ⊢
  by_cases h1 : noIdx script = true
  · left; exact ⟨h1, by rw [if_pos h1]⟩
  · by_cases h2 : allIdx script = true
    · right; exact ⟨Bool.eq_false_iff.mpr h1, h2, by rw [if_neg h1, if_pos h2]⟩
    · rw [if_neg h1, if_neg h2] at h; exact absurd rfl h

theorem expectRow_keys {script : List Req} (h : noIdx script = true) (hdr : Option (List Field)) (row : List Field) :
    expectRow hdr script row = script.map (reqCell hdr row) := by
  unfold expectRow
  rw [scriptKind_keys h]
  simp only
  apply List.map_congr_left
  intro q _
  cases q <;> rfl

/-- the requests of one row -/
theorem runScript_row (hdrOpt : Option (List Field)) (script : List Req) (hkind : scriptKind script ≠ .mixed)
    (hnd : ∀ hdr, hdrOpt = some hdr → hdr.Nodup ∨ allIdx script = true) (row : List Field) (a : AbsReader)
    (hw : a.withHeader = hdrOpt.isSome) (hh : a.headers = hdrOpt.getD []) (hd : Decodes a.cells row) (hv : a.valueIndex = 0)
    (hl : ∀ hdr, hdrOpt = some hdr → row.length = hdr.length) :
    (scriptKind script = .idxs ∧ script.length > row.length → a.runScript script = .error .serOutOfRange) ∧
    (¬ (scriptKind script = .idxs ∧ script.length > row.length) →
      ∃ vi, a.runScript script = .ok (expectRow hdrOpt script row, { a with valueIndex := vi })) := by
  rcases scriptKind_cases script hkind with ⟨hk, hkk⟩ | ⟨hk, hk2, hkk⟩
  · -- by key
    refine ⟨fun h => (by rw [hkk] at h; cases h.1), fun _ => ?_⟩
    rw [expectRow_keys hk]
    cases hdrOpt with
    | none =>
      exact ⟨a.valueIndex, by rw [runScript_keys_nohdr row script hk a (by simpa using hw)]⟩
    | some hdr =>
      rcases hnd hdr rfl with hn | he
      · exact runScript_keys hdr row hn (hl hdr rfl) script hk a (by simpa using hw) (by simpa using hh) hd
      · have he' : script = [] := by
          cases script with
          | nil => rfl
          | cons q qs =>
            simp only [noIdx, allIdx, List.all_cons, Bool.and_eq_true] at hk he
            have h1 := hk.1; have h2 := he.1
            simp [h2] at h1
        subst he'; exact ⟨a.valueIndex, rfl⟩
  · -- by index
    obtain ⟨i1, i2⟩ := runScript_idxs row script hk2 a hd
    rw [hv] at i1 i2
    constructor
    · intro h; exact i2 (by omega) (by omega)
    · intro h
      have hle : script.length ≤ row.length := by
        apply Classical.byContradiction; intro hc; exact h ⟨hkk, by omega⟩
      refine ⟨0 + script.length, ?_⟩
      rw [i1 (by omega)]
      simp [expectRow, hkk]

theorem loop_end {a : AbsReader} (script : List Req) (fuel : Nat) (h : a.rem = []) :
    a.loop script (fuel + 1) = .ok a.headers [] false a.rowIndex := by
  simp [loop, isEnd, h]

theorem loop_err1 {a : AbsReader} (script : List Req) (fuel : Nat) {e : Err} (h0 : a.rem ≠ [])
    (h1 : a.parseNextRow = .error e) : a.loop script (fuel + 1) = .err e 0 := by
  have : a.isEnd = false := by cases h : a.rem <;> simp_all [isEnd]
  simp [loop, this, h1]

theorem loop_err2 {a a2 : AbsReader} (script : List Req) (fuel : Nat) {e : Err} (h0 : a.rem ≠ [])
    (h1 : a.parseNextRow = .ok (true, a2)) (h2 : a2.runScript script = .error e) : a.loop script (fuel + 1) = .err e 0 := by
  have : a.isEnd = false := by cases h : a.rem <;> simp_all [isEnd]
  simp [loop, this, h1, h2]

theorem loop_ok {a a2 a3 : AbsReader} (script : List Req) (fuel : Nat) {cs : List Cell} (h0 : a.rem ≠ [])
    (h1 : a.parseNextRow = .ok (true, a2)) (h2 : a2.runScript script = .ok (cs, a3)) :
    a.loop script (fuel + 1) = (a3.loop script fuel).addRow cs := by
  have : a.isEnd = false := by cases h : a.rem <;> simp_all [isEnd]
  simp [loop, this, h1, h2]

/-- **the loop delivers what the Oracle expects** -/
theorem loop_expect {sep : Nat} {P : Table → List Nat → Prop} (hP : LineStep sep P) (hdrOpt : Option (List Field))
    (script : List Req) (hkind : scriptKind script ≠ .mixed) (hnd : ∀ hdr, hdrOpt = some hdr → hdr.Nodup ∨ allIdx script = true)
    (width : Nat) (hwidth : ∀ hdr, hdrOpt = some hdr → width = hdr.length) :
    ∀ (rows : List (List Field)) (a : AbsReader) (fuel k : Nat),
      P rows a.rem → a.sep = sep → a.withHeader = hdrOpt.isSome → a.headers = hdrOpt.getD [] →
      a.lineNumber = k + (if hdrOpt.isSome then 1 else 0) → a.rowIndex = k - 1 →
      (hdrOpt = none → k ≥ 1 → a.cells.length = width) →
      (hdrOpt = none → k = 0 → ∀ row rest, rows = row :: rest → row.length = width) →
      fuel ≥ a.rem.length + 1 →
      a.loop script fuel = setIndex (k + rows.length - 1) (expectRows hdrOpt script width rows) := by
  intro rows
  induction rows with
  | nil =>
    intro a fuel k hp _ _ hh _ hri _ _ hf
    have hrem := hP.nil _ hp
    cases fuel with
    | zero => omega
    | succ fuel =>
      rw [loop_end script fuel hrem]
      simp [expectRows, setIndex, hh, hri]
  | cons row rest ih =>
    intro a fuel k hp hsep hw hh hln hri hcl hfirst hf
    obtain ⟨hne, cells, rem', hl, hdec, hp'⟩ := hP.cons _ _ _ hp
    have hlt := absLine_rest_lt (sep := sep) a.rem false hne
    rw [hl] at hlt
    simp only at hlt
    rw [← hsep] at hl
    cases fuel with
    | zero => omega
    | succ fuel =>
      have hclen : cells.length = row.length := Decodes.length hdec
      have hstep := parseNextRow_step a cells rem' hne hl
      -- is the width right?
      have hwcheck : (a.withHeader = true ∧ a.headers.length ≠ cells.length) ∨
          (¬ a.withHeader = true ∧ a.lineNumber + 1 ≥ 2 ∧ a.cells.length ≠ cells.length) ↔ row.length ≠ width := by
        cases hdrOpt with
        | some hdr =>
          have hwd := hwidth hdr rfl
          simp only [Option.isSome_some, Option.getD_some] at hw hh
          simp only [hw, hh, hclen, true_and, not_true_eq_false, false_and, or_false]
          omega
        | none =>
          simp only [Option.isSome_none, Option.getD_none] at hw hh
          have hln0 : a.lineNumber = k := by simpa using hln
          simp only [hw, Bool.false_eq_true, false_and, not_false_eq_true, true_and, false_or, hclen, hln0]
          constructor
          · intro h; have := hcl rfl (by omega); omega
          · intro h
            have hk : k ≥ 1 := by
              apply Classical.byContradiction; intro hc
              exact h (hfirst rfl (by omega) row rest rfl)
            have := hcl rfl hk
            constructor <;> omega
      by_cases hrw : row.length = width
      · -- the row is accepted
        have hno1 : ¬ (a.withHeader = true ∧ a.headers.length ≠ cells.length) := fun h => (hwcheck.mp (Or.inl h)) hrw
        have hno2 : ¬ (¬ a.withHeader = true ∧ a.lineNumber + 1 ≥ 2 ∧ a.cells.length ≠ cells.length) := fun h => (hwcheck.mp (Or.inr h)) hrw
        rw [if_neg hno1, if_neg hno2] at hstep
        have hidx : (if a.lineNumber + 1 = (if a.withHeader = true then 2 else 1) then a.rowIndex else a.rowIndex + 1) = k := by
          cases hdrOpt with
          | some hdr =>
            simp only [Option.isSome_some] at hw hln
            simp only [hw, if_true, hln]; split <;> omega
          | none =>
            simp only [Option.isSome_none] at hw hln
            simp only [hw, hln]; simp; split <;> omega
        rw [hidx] at hstep
        let a2 : AbsReader := { a with lineNumber := a.lineNumber + 1, prevValuesCount := a.cells.length, cells := cells, rem := rem', valueIndex := 0, rowIndex := k }
        have hstep' : a.parseNextRow = .ok (true, a2) := hstep
        obtain ⟨r1, r2⟩ := runScript_row hdrOpt script hkind hnd row a2
          hw hh hdec rfl (fun hdr e => by have := hwidth hdr e; omega)
        by_cases herr : scriptKind script = .idxs ∧ script.length > row.length
        · have hexp : expectRows hdrOpt script width (row :: rest) = .err .serOutOfRange 0 := by
            have : ¬ (row.length ≠ width) := by omega
            simp [expectRows, this, herr.1, hrw ▸ herr.2]
          rw [loop_err2 script fuel hne hstep' (r1 herr), hexp]; rfl
        · obtain ⟨vi, r2'⟩ := r2 herr
          have hexp : expectRows hdrOpt script width (row :: rest)
              = (expectRows hdrOpt script width rest).addRow (expectRow hdrOpt script row) := by
            have h1 : ¬ (row.length ≠ width) := by omega
            have h2 : ¬ (scriptKind script = .idxs ∧ script.length > width) := by rw [← hrw]; exact herr
            simp [expectRows, h1, h2]
          rw [loop_ok script fuel hne hstep' r2', hexp, ← setIndex_addRow]
          congr 1
          have := ih { a2 with valueIndex := vi } fuel (k + 1) hp' hsep hw hh
            (show a.lineNumber + 1 = k + 1 + (if hdrOpt.isSome then 1 else 0) by omega)
            (show k = k + 1 - 1 by omega)
            (fun _ _ => show cells.length = width by omega) (fun _ h => by omega)
            (show fuel ≥ rem'.length + 1 by omega)
          rw [this]
          congr 1
          simp only [List.length_cons]; omega
      · -- a record of the wrong width
        have hexp : expectRows hdrOpt script width (row :: rest) = .err .parsing 0 := by simp [expectRows, hrw]
        have herr : a.parseNextRow = .error .parsing := by
          rw [hstep]
          rcases hwcheck.mpr hrw with h | h
          · rw [if_pos h]
          · by_cases h1 : a.withHeader = true ∧ a.headers.length ≠ cells.length
            · rw [if_pos h1]
            · rw [if_neg h1, if_pos h]
        rw [loop_err1 script fuel hne herr, hexp]; rfl


/-- the constructor's header loop reads all the cells of the first line -/
theorem readHeaders_all (row : List Field) (n : Nat) : ∀ (a : AbsReader), Decodes a.cells row → a.valueIndex + n = row.length →
    a.readHeaders n = .ok (row.drop a.valueIndex, { a with valueIndex := a.valueIndex + n }) := by
  induction n with
  | zero =>
    intro a _ h
    have : row.drop a.valueIndex = [] := by simp [List.drop_eq_nil_iff]; omega
    simp [readHeaders, this]
  | succ n ih =>
    intro a hd h
    have hcl := hd.length
    have hlt : a.valueIndex < row.length := by omega
    have hc : a.cells[a.valueIndex]? = some (a.cells[a.valueIndex]'(by omega)) := List.getElem?_eq_getElem (by omega)
    obtain ⟨v, hv1, hv2⟩ := hd.get hc
    have hread : a.readValueIdx = .ok (v, { a with valueIndex := a.valueIndex + 1 }) := by
      simp [readValueIdx, hc, hv2, bind, Except.bind, pure, Except.pure]
    have := ih { a with valueIndex := a.valueIndex + 1 } hd (by simp only; omega)
    have hdrop : row.drop a.valueIndex = v :: row.drop (a.valueIndex + 1) := by
      rw [List.drop_eq_getElem_cons hlt]
      congr 1
      have := List.getElem?_eq_getElem hlt
      rw [hv1] at this; injection this with this; exact this.symm
    simp only [readHeaders, hread, bind, Except.bind, this, pure, Except.pure, hdrop]
    congr 3
    omega

end AbsReader

/-- **the abstract reader delivers what the Oracle expects** from any text related to the table by a
    reading discipline with the step property -/
theorem absSession_expect {sep : Nat} {P : Table → List Nat → Prop} (hP : LineStep sep P) (wh : Bool) (script : List Req)
    (recs : Table) (txt : List Nat) (h : P recs txt) (exp : Outcome) (he : expectOfRecs wh script recs = some exp) :
    absSession sep wh script txt = exp := by
  unfold expectOfRecs at he
  by_cases hkind : scriptKind script = .mixed
  · simp [hkind] at he
  · rw [if_neg hkind] at he
    unfold absSession AbsReader.create
    cases wh with
    | true =>
      simp only [if_true] at he ⊢
      cases recs with
      | nil =>
        have := hP.nil _ h
        subst this
        simp only at he
        injection he with he
        all_goals (subst he; simp [AbsReader.parseNextLine])
      | cons hdr rows =>
        simp only at he
        by_cases hnd : ¬ hdr.Nodup ∧ allIdx script = false
        · rw [if_pos hnd] at he; cases he
        · rw [if_neg hnd] at he
          injection he with he
          subst he
          obtain ⟨hne, cells, rest, hl, hdec, hp'⟩ := hP.cons _ _ _ h
          have hlt := absLine_rest_lt (sep := sep) txt false hne
          rw [hl] at hlt
          simp only at hlt
          have hc : cells ≠ [] := by have := AbsReader.absLine_cells_ne sep txt false; rw [hl] at this; exact this
          have he1 : txt.isEmpty = false := by cases h' : txt <;> simp_all
          have hce : cells.isEmpty = false := by cases h' : cells <;> simp_all
          have hclen := Decodes.length hdec
          have hrh := AbsReader.readHeaders_all hdr cells.length
            { rem := rest, withHeader := true, sep := sep, cells := cells, lineNumber := 0 + 1, prevValuesCount := 0 }
            hdec (by simp only; omega)
          simp only [List.drop_zero] at hrh
          simp only [AbsReader.parseNextLine, he1, Bool.false_eq_true, if_false, hl, hce, Bool.not_false, if_true,
            List.length_nil, hrh, bind, Except.bind, pure, Except.pure]
          have hnd' : hdr.Nodup ∨ allIdx script = true := by
            by_cases hn : hdr.Nodup
            · exact Or.inl hn
            · right
              cases hb : allIdx script with
              | true => rfl
              | false => exact absurd ⟨hn, hb⟩ hnd
          have := AbsReader.loop_expect hP (some hdr) script hkind (fun h' e => by injection e with e; subst e; exact hnd')
            hdr.length (fun h' e => by injection e with e; subst e; rfl) rows
            { rem := rest, withHeader := true, sep := sep, headers := hdr, cells := cells, lineNumber := 0 + 1, prevValuesCount := 0,
              valueIndex := 0 + cells.length }
            (txt.length + 1) 0 hp' rfl rfl rfl rfl rfl (fun h' => by cases h') (fun h' => by cases h') (by simp only; omega)
          rw [this, AbsReader.fixIndex_eq]
          congr 1
          omega
    | false =>
      simp only [Bool.false_eq_true, if_false] at he ⊢
      have key : ∀ width, (∀ row rest, recs = row :: rest → row.length = width) →
          ({ rem := txt, withHeader := false, sep := sep } : AbsReader).loop script (txt.length + 1)
            = AbsReader.setIndex (0 + recs.length - 1) (expectRows none script width recs) := by
        intro width hw
        exact AbsReader.loop_expect hP none script hkind (fun h' e => by cases e) width (fun h' e => by cases e) recs
          { rem := txt, withHeader := false, sep := sep } (txt.length + 1) 0 h rfl rfl rfl rfl rfl
          (fun _ h' => by omega) (fun _ _ => hw) (by simp only; omega)
      cases recs with
      | nil =>
        simp only at he
        injection he with he
        subst he
        rw [key 0 (fun _ _ e => by cases e)]
        rfl
      | cons first rest =>
        simp only at he
        injection he with he
        subst he
        rw [key first.length (fun row r e => by injection e with e1 _; subst e1; rfl), AbsReader.fixIndex_eq]
        congr 1
        omega

end BSVerif.Csv.Abs
