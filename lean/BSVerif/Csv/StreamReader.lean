/-
  MODEL of `CCsvStreamReader` (src/csv/csv_readers.cpp, after the fixes "end pointer of
  ReadValue(key) without the offset" and "quoted value read twice") on top of
  `Convert::Utf::CEncodedStreamReader<char, ChunkSize>` (convert_utf.h) for a UTF-8 stream without
  BOM: the decoded text arrives in chunks of `chunk` code units that are appended to
  `mDecodedBuffer`; `ParseNextLine` first erases the consumed prefix `[0, mCurrentPos)`.

  ASSUMED about the layer below (belongs to C13): `DetectEncoding` of the first chunk answers
  UTF-8 with no BOM (true when the first chunk has no NUL byte and does not start with a BOM);
  `std::istream::read` delivers `min(n, remaining)` bytes and sets eofbit iff fewer than `n` arrived.
-/
import BSVerif.Csv.Reader

namespace BSVerif.Csv.Stream
open BSVerif.Csv BSVerif.Csv.Reader

/-- state of `CEncodedStreamReader<char, chunk>` over a UTF-8 stream -/
structure Enc where
  pending : List Nat     -- [mStartDataPtr, mEndDataPtr): read from the stream, not yet handed out
  rest : List Nat        -- bytes still in the std::istream
  eof : Bool             -- mInputStream.eof()
  chunk : Nat            -- ChunkSize
  deriving Repr, DecidableEq

inductive ReadResult where
  | success | endFile
  deriving DecidableEq, Repr

namespace Enc

/-- `IsEnd()` -/
def isEnd (e : Enc) : Bool := e.pending.isEmpty && e.eof

/-- `ReadNextEncodedChunk()`: fill the encoded buffer up; returns `lastReadSize != 0` -/
def readNext (e : Enc) : Bool × Enc :=
  let k := e.chunk - e.pending.length
  let got := e.rest.take k
  (got.length != 0, { e with pending := e.pending ++ got, rest := e.rest.drop k, eof := e.eof || decide (got.length < k) })

/-- constructor: reads the first chunk (encoding detection is assumed to answer UTF-8, no BOM) -/
def init (chunk : Nat) (bytes : List Nat) : Enc :=
  (readNext { pending := [], rest := bytes, eof := false, chunk := chunk }).2

/-- `ReadChunk(outStr)` for `char` output from UTF-8: appends the raw bytes -/
def readChunk (e : Enc) (buf : List Nat) : ReadResult × Enc × List Nat :=
  if e.isEnd then (.endFile, e, buf)
  else
    let (got, e1) := e.readNext
    if !got && e1.pending.isEmpty then (.endFile, e1, buf)
    else (.success, { e1 with pending := [] }, buf ++ e1.pending)

/-- the text that is still to come -/
def logical (e : Enc) : List Nat := e.pending ++ e.rest

end Enc

theorem readChunk_success {e e' : Enc} {buf buf' : List Nat} (h : e.readChunk buf = (.success, e', buf')) :
    ∃ c, c ≠ [] ∧ buf' = buf ++ c ∧ e.logical = c ++ e'.logical ∧ e'.pending = [] := by
  unfold Enc.readChunk at h
  by_cases h1 : e.isEnd = true
  · rw [if_pos h1] at h; cases h
  · rw [if_neg h1] at h
    have hp : e.readNext.2.pending = e.pending ++ e.rest.take (e.chunk - e.pending.length) := rfl
    have hr : e.readNext.2.rest = e.rest.drop (e.chunk - e.pending.length) := rfl
    have hg : e.readNext.1 = ((e.rest.take (e.chunk - e.pending.length)).length != 0) := rfl
    generalize e.readNext = rn at h hp hr hg
    obtain ⟨got, e1⟩ := rn
    simp only at h hp hr hg
    split at h
    · cases h
    · rename_i h2
      injection h with _ h; injection h with h3 h4
      subst h3 h4
      refine ⟨e1.pending, ?_, rfl, ?_, rfl⟩
      · intro hc
        apply h2
        rw [hc] at hp
        have : e.rest.take (e.chunk - e.pending.length) = [] := by
          have h5 := hp.symm
          rw [List.append_eq_nil_iff] at h5
          exact h5.2
        simp [hg, hc, this]
      · simp [Enc.logical, hp, hr]

/-- measure of the scanning loop: every step either consumes a character or refills an exhausted buffer -/
def scanMeasure (e : Enc) (buf : List Nat) (pos : Nat) : Nat :=
  2 * (e.pending.length + e.rest.length) + 2 * (buf.length - pos) + (if pos ≥ buf.length then 1 else 0)

theorem scanMeasure_refill {e e' : Enc} {buf buf' : List Nat} {pos : Nat}
    (h : e.readChunk buf = (.success, e', buf')) (hp : pos ≥ buf.length) :
    scanMeasure e' buf' pos < scanMeasure e buf pos := by
  obtain ⟨c, hc, hb, hl, hpend⟩ := readChunk_success h
  have hlen : e.pending.length + e.rest.length = c.length + (e'.pending.length + e'.rest.length) := by
    have := congrArg List.length hl
    simpa [Enc.logical, List.length_append] using this
  have hcpos : 0 < c.length := List.length_pos_iff.mpr hc
  unfold scanMeasure
  subst hb
  simp only [List.length_append]
  split <;> (try split) <;> omega

/-- The two nested loops of `CCsvStreamReader::ParseNextLine`, flattened (same parameters as
    `Reader.scanLine`, plus the encoded reader and the growing decoded buffer).
    Result: metas, reader, buffer, `mCurrentPos`. (`pos ≤ buf.length` always holds; the model treats
    `pos > buf.length` like `pos == buf.length`.) -/
def scanLineS (sep : Nat) (e : Enc) (buf : List Nat) (pos start dq : Nat) (cr : Option Nat) :
    List Meta × Enc × List Nat × Nat :=
  if hp : pos ≥ buf.length then
    match h : e.readChunk buf with
    | (.success, e', buf') => scanLineS sep e' buf' pos start dq cr          -- `continue`
    | (.endFile, e', buf') => ([⟨start, buf'.length - start, dq != 0⟩], e', buf', pos)
  else
    let sym := buf[pos]
    if sym = 34 then scanLineS sep e buf (pos + 1) start (dq + 1) cr
    else if sym = sep ∧ dq % 2 = 0 then
      consMeta ⟨start, pos - start, dq != 0⟩ (scanLineS sep e buf (pos + 1) (pos + 1) 0 none)
    else if sym = 13 then scanLineS sep e buf (pos + 1) start dq (some pos)
    else if sym = 10 ∧ dq % 2 = 0 then
      let crp := cr.getD pos
      let endV := if crp = decWrap pos then crp else pos
      ([⟨start, endV - start, dq != 0⟩], e, buf, pos + 1)
    else if pos + 1 = buf.length ∧ e.isEnd then
      -- "End of file": endValuePos = mCurrentPos = mDecodedBuffer.size()
      ([⟨start, buf.length - start, dq != 0⟩], e, buf, buf.length)
    else scanLineS sep e buf (pos + 1) start dq cr
termination_by scanMeasure e buf pos
decreasing_by
  · exact scanMeasure_refill h hp
  all_goals (unfold scanMeasure; split <;> (try split) <;> omega)

/-- `CCsvStreamReader::UnescapeValue(beginIt, endIt)` on `[off, off + size)` of the buffer:
    the decoded value and the buffer after decoding "to the same buffer" -/
def unescapeInPlace (buf : List Nat) (off size : Nat) : Except Err (List Nat × List Nat) :=
  if buf.getD off 0 ≠ 34 then .error .parsing
  else if size < 2 ∨ buf.getD (off + size - 1) 0 ≠ 34 then .error .parsing
  else
    let v := unescLoop (slice buf (off + 1) (size - 2)) 0
    .ok (v, buf.take off ++ v ++ buf.drop (off + v.length))

structure StreamReader where
  enc : Enc
  buf : List Nat := []          -- mDecodedBuffer
  withHeader : Bool
  sep : Nat
  headers : List (List Nat) := []
  metas : List Meta := []
  curPos : Nat := 0
  lineNumber : Nat := 0
  rowIndex : Nat := 0
  valueIndex : Nat := 0
  prevValuesCount : Nat := 0
  deriving Repr, DecidableEq

namespace StreamReader

def isEnd (rd : StreamReader) : Bool := rd.curPos ≥ rd.buf.length && rd.enc.isEnd

def parseNextLine (rd : StreamReader) : Bool × StreamReader :=
  if rd.isEnd then (false, rd)
  else
    -- erase the parsed part
    let buf0 := if rd.curPos ≠ 0 then rd.buf.drop rd.curPos else rd.buf
    let (metas, e, buf, pos) := scanLineS rd.sep rd.enc buf0 0 0 0 none
    -- "When entire buffer has been parsed, need to read next chunk for detect end of file"
    let (e, buf) := if pos = buf.length then ((e.readChunk buf).2.1, (e.readChunk buf).2.2) else (e, buf)
    (!metas.isEmpty, { rd with lineNumber := rd.lineNumber + 1, prevValuesCount := rd.metas.length, metas := metas,
                               enc := e, buf := buf, curPos := pos })

/-- read the cell `i`: the value, and the reader with the buffer / meta updated by in-place unescaping -/
def cellValue (rd : StreamReader) (i : Nat) (m : Meta) : Except Err (List Nat × StreamReader) :=
  if m.esc then
    match unescapeInPlace rd.buf m.off m.size with
    | .error e => .error e
    | .ok (v, buf) => .ok (v, { rd with buf := buf, metas := rd.metas.set i ⟨m.off, v.length, false⟩ })
  else .ok (slice rd.buf m.off m.size, rd)

def readValueIdx (rd : StreamReader) : Except Err (List Nat × StreamReader) :=
  match rd.metas[rd.valueIndex]? with
  | some m => do
    let (v, rd) ← rd.cellValue rd.valueIndex m
    pure (v, { rd with valueIndex := rd.valueIndex + 1 })
  | none => .error .serOutOfRange

def readValueKey (rd : StreamReader) (key : List Nat) : Except Err (Option (List Nat) × StreamReader) :=
  if !rd.withHeader then .ok (none, rd)
  else
    let (vi, found) := resolveKey rd.headers rd.valueIndex key
    let rd := { rd with valueIndex := vi }
    if !found then .ok (none, rd)
    else match rd.metas[vi]? with
      | none => .error .stdOutOfRange
      | some m => do
        let (v, rd) ← rd.cellValue vi m
        pure (some v, rd)

def parseNextRow (rd : StreamReader) : Except Err (Bool × StreamReader) :=
  let (more, rd) := rd.parseNextLine
  if more then
    if rd.withHeader ∧ rd.headers.length ≠ rd.metas.length then .error .parsing
    else if ¬ rd.withHeader ∧ rd.lineNumber ≥ 2 ∧ rd.prevValuesCount ≠ rd.metas.length then .error .parsing
    else
      let firstDataRow := rd.lineNumber = (if rd.withHeader then 2 else 1)
      .ok (true, { rd with valueIndex := 0, rowIndex := if firstDataRow then rd.rowIndex else rd.rowIndex + 1 })
  else .ok (false, rd)

def readHeaders (rd : StreamReader) : Nat → Except Err (List (List Nat) × StreamReader)
  | 0 => .ok ([], rd)
  | n + 1 => do
    let (v, rd) ← rd.readValueIdx
    let (vs, rd) ← readHeaders rd n
    pure (v :: vs, rd)

/-- `CCsvStreamReader::CCsvStreamReader` -/
def create (chunk : Nat) (bytes : List Nat) (withHeader : Bool) (sep : Nat) : Except Err StreamReader :=
  let rd : StreamReader := { enc := Enc.init chunk bytes, withHeader := withHeader, sep := sep }
  if withHeader then
    let (more, rd) := rd.parseNextLine
    if more then do
      let (hs, rd) ← rd.readHeaders rd.metas.length
      pure { rd with headers := hs }
    else .error .parsing
  else .ok rd

def runScript (rd : StreamReader) : List Req → Except Err (List Cell × StreamReader)
  | [] => .ok ([], rd)
  | .idx :: qs => do
    let (v, rd) ← rd.readValueIdx
    let (cs, rd) ← runScript rd qs
    pure (.val v :: cs, rd)
  | .key n :: qs => do
    let (v, rd) ← rd.readValueKey (keyOf rd.headers n)
    let (cs, rd) ← runScript rd qs
    pure ((match v with | some v => .val v | none => .notFound) :: cs, rd)
  | .lit k :: qs => do
    let (v, rd) ← rd.readValueKey k
    let (cs, rd) ← runScript rd qs
    pure ((match v with | some v => .val v | none => .notFound) :: cs, rd)

def loop (script : List Req) : Nat → StreamReader → Outcome
  | 0, rd => .ok rd.headers [] false rd.rowIndex
  | fuel + 1, rd =>
    if rd.isEnd then .ok rd.headers [] false rd.rowIndex
    else match rd.parseNextRow with
      | .error e => .err e 0
      | .ok (false, rd) => .ok rd.headers [] true rd.rowIndex
      | .ok (true, rd) =>
        match rd.runScript script with
        | .error e => .err e 0
        | .ok (cells, rd) => (loop script fuel rd).addRow cells

end StreamReader

/-- the whole `csv.read stream` op for chunk size `chunk` -/
def streamSession (chunk sep : Nat) (withHeader : Bool) (script : List Req) (txt : List Nat) : Outcome :=
  match StreamReader.create chunk txt withHeader sep with
  | .error e => .errCtor e
  | .ok rd => rd.loop script (txt.length + 1)

end BSVerif.Csv.Stream
