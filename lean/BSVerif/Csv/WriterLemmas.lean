/-
  Lemmas about the writer model: what `WriteEscapedValue` appends is an RFC 4180 rendering of the
  value; the text of a whole document is a rendering (`Spec.Renders`) of header + rows; the stream
  writer simulates the string writer.
-/
import BSVerif.Csv.Writer
import BSVerif.Csv.SpecLemmas

namespace BSVerif.Csv.Writer
open BSVerif.Csv BSVerif.Csv.Spec

/-- the text `WriteEscapedValue` appends for a value -/
def wfield (sep : Nat) (v : List Nat) : List Nat := writeEscapedValue sep v []

theorem writeEscapedValue_eq (sep : Nat) (v out : List Nat) : writeEscapedValue sep v out = out ++ wfield sep v := by
  by_cases h : (v.dropWhile (fun c => !mustQuote sep c)).isEmpty = true <;> simp [wfield, writeEscapedValue, h]

theorem dropWhile_nil_all {p : Nat → Bool} : ∀ {l : List Nat}, l.dropWhile p = [] → ∀ c ∈ l, p c = true
  | [], _, c, hc => by simp at hc
  | a :: l, h, c, hc => by
    by_cases ha : p a = true
    · rw [List.dropWhile_cons_of_pos ha] at h
      simp only [List.mem_cons] at hc
      rcases hc with rfl | hc
      · exact ha
      · exact dropWhile_nil_all h c hc
    · rw [List.dropWhile_cons_of_neg ha] at h; cases h

theorem mem_takeWhile_pos {p : Nat → Bool} {l : List Nat} {c : Nat} (hc : c ∈ l.takeWhile p) : p c = true := by
  have := List.all_takeWhile (l := l) (p := p)
  rw [List.all_eq_true] at this
  exact this c hc

theorem copyEscaped_eq_escape (l : List Nat) : copyEscaped l = escape l := by
  induction l with
  | nil => rfl
  | cons c r ih => simp [copyEscaped, escape, ih]

theorem escape_append_of_noquote (a b : List Nat) (h : ∀ c ∈ a, c ≠ 34) : escape (a ++ b) = a ++ escape b := by
  induction a with
  | nil => rfl
  | cons c a ih =>
    have hc : c ≠ 34 := h c (by simp)
    have := ih (fun x hx => h x (by simp [hx]))
    simp [escape, hc, this]

theorem mustQuote_false_iff (sep c : Nat) : mustQuote sep c = false ↔ isText sep c = true := by
  simp [mustQuote, isText, and_assoc]
  intro _ _
  exact And.comm

/-- **escaping lemma**: what is written for a value is an RFC 4180 rendering of that value -/
theorem wfield_fieldR (sep : Nat) (v : List Nat) : FieldR sep v (wfield sep v) := by
  unfold wfield writeEscapedValue
  simp only [List.nil_append]
  split
  · rename_i h
    apply FieldR.plain
    rw [List.isEmpty_iff] at h
    rw [List.all_eq_true]
    intro c hc
    have := dropWhile_nil_all h c hc
    rw [← mustQuote_false_iff]
    simpa using this
  · have hv : v = v.takeWhile (fun c => !mustQuote sep c) ++ v.dropWhile (fun c => !mustQuote sep c) :=
      (List.takeWhile_append_dropWhile).symm
    have hq : ∀ c ∈ v.takeWhile (fun c => !mustQuote sep c), c ≠ 34 := by
      intro c hc
      have := mem_takeWhile_pos hc
      intro h34
      subst h34
      simp [mustQuote] at this
    have : 34 :: (v.takeWhile (fun c => !mustQuote sep c) ++ (copyEscaped (v.dropWhile (fun c => !mustQuote sep c)) ++ [34]))
        = 34 :: (escape v ++ [34]) := by
      conv => rhs; rw [hv]
      rw [escape_append_of_noquote _ _ hq, copyEscaped_eq_escape, List.append_assoc]
    rw [this]
    exact FieldR.quoted v

/-- fields joined by the separator -/
def joinFields (sep : Nat) : List (List Nat) → List Nat
  | [] => []
  | [v] => wfield sep v
  | v :: vs => wfield sep v ++ sep :: joinFields sep vs

theorem joinFields_cons (sep : Nat) (v : List Nat) (vs : List (List Nat)) :
    joinFields sep (v :: vs) = wfield sep v ++ vs.flatMap (fun x => sep :: wfield sep x) := by
  induction vs generalizing v with
  | nil => simp [joinFields]
  | cons w ws ih => rw [joinFields, ih]; simp; simp

theorem joinFields_recordR (sep : Nat) : ∀ (vs : List (List Nat)), vs ≠ [] → RecordR sep vs (joinFields sep vs)
  | [], h => absurd rfl h
  | [v], _ => RecordR.one (wfield_fieldR sep v)
  | v :: w :: ws, _ => by
    have := joinFields_recordR sep (w :: ws) (by simp)
    simpa [joinFields] using RecordR.cons (wfield_fieldR sep v) (by simp) this

/-- every record followed by CRLF -/
def lines (sep : Nat) (recs : List (List (List Nat))) : List Nat :=
  recs.flatMap (fun r => joinFields sep r ++ [13, 10])

theorem lines_renders (sep : Nat) : ∀ (recs : Table), (∀ r ∈ recs, r ≠ []) → Renders sep recs (lines sep recs)
  | [], _ => Renders.nil
  | r :: rs, h => by
    have h1 := joinFields_recordR sep r (h r (by simp))
    have h2 := lines_renders sep rs (fun r' hr' => h r' (by simp [hr']))
    simpa [lines] using Renders.cons h1 EolR.crlf h2

/-! ### the string writer writes `lines` -/

/-- effect of the `WriteValue` calls of one row on `mCurrentRow` (and on the header line) -/
def joinFrom (sep : Nat) (vi : Nat) (cur : List Nat) : List (List Nat) → List Nat
  | [] => cur
  | v :: vs => joinFrom sep (vi + 1) ((if vi ≠ 0 then cur ++ [sep] else cur) ++ wfield sep v) vs

theorem joinFrom_succ (sep n : Nat) (cur : List Nat) (vs : List (List Nat)) :
    joinFrom sep (n + 1) cur vs = cur ++ vs.flatMap (fun x => sep :: wfield sep x) := by
  induction vs generalizing n cur with
  | nil => simp [joinFrom]
  | cons v vs ih => simp [joinFrom, ih]

theorem joinFrom_zero (sep : Nat) (vs : List (List Nat)) : joinFrom sep 0 [] vs = joinFields sep vs := by
  cases vs with
  | nil => rfl
  | cons v vs => simp [joinFrom, joinFrom_succ, joinFields_cons]

theorem foldl_writeValue (w : StringWriter) (row : List KV) :
    let w' := row.foldl (fun w kv => w.writeValue kv.1 kv.2) w
    w'.currentRow = joinFrom w.sep w.valueIndex w.currentRow (row.map (·.2)) ∧
    w'.out = (if w.rowIndex = 0 ∧ w.withHeader then joinFrom w.sep w.valueIndex w.out (row.map (·.1)) else w.out) ∧
    w'.valueIndex = w.valueIndex + row.length ∧ w'.rowIndex = w.rowIndex ∧ w'.withHeader = w.withHeader ∧
    w'.sep = w.sep ∧ w'.prevValuesCount = w.prevValuesCount := by
  induction row generalizing w with
  | nil => simp [joinFrom]
  | cons kv row ih =>
    have := ih (w.writeValue kv.1 kv.2)
    simp only [List.foldl_cons, List.map_cons, List.length_cons]
    obtain ⟨h1, h2, h3, h4, h5, h6, h7⟩ := this
    refine ⟨?_, ?_, ?_, ?_, ?_, ?_, ?_⟩
    · rw [h1]; simp [StringWriter.writeValue, joinFrom, writeEscapedValue_eq]
    · rw [h2]
      by_cases hc : w.rowIndex = 0 ∧ w.withHeader = true
      · simp [StringWriter.writeValue, joinFrom, writeEscapedValue_eq, hc]
      · have : ¬ ((w.writeValue kv.1 kv.2).rowIndex = 0 ∧ (w.writeValue kv.1 kv.2).withHeader = true) := by
          simpa [StringWriter.writeValue] using hc
        simp [hc, this, StringWriter.writeValue]
    · rw [h3]; simp [StringWriter.writeValue]; omega
    · rw [h4]; simp [StringWriter.writeValue]
    · rw [h5]; simp [StringWriter.writeValue]
    · rw [h6]; simp [StringWriter.writeValue]
    · rw [h7]; simp [StringWriter.writeValue]

/-- a later row (rowIndex ≠ 0) of the right width appends its line -/
theorem writeRow_later (w : StringWriter) (row : List KV) (h0 : w.rowIndex ≠ 0) (hv : w.valueIndex = 0)
    (hc : w.currentRow = []) (hw : row.length = w.prevValuesCount) :
    ∃ w', w.writeRow row = .ok w' ∧ w'.out = w.out ++ (joinFields w.sep (row.map (·.2)) ++ [13, 10]) ∧
      w'.rowIndex = w.rowIndex + 1 ∧ w'.valueIndex = 0 ∧ w'.currentRow = [] ∧ w'.prevValuesCount = w.prevValuesCount ∧
      w'.sep = w.sep ∧ w'.withHeader = w.withHeader := by
  obtain ⟨h1, h2, h3, h4, h5, h6, h7⟩ := foldl_writeValue w row
  unfold StringWriter.writeRow StringWriter.nextLine
  simp only [h4, h0, if_false]
  have : ¬ ((List.foldl (fun w kv => w.writeValue kv.1 kv.2) w row).valueIndex ≠
      (List.foldl (fun w kv => w.writeValue kv.1 kv.2) w row).prevValuesCount) := by
    rw [h3, h7, hv]; omega
  rw [if_neg this]
  refine ⟨_, rfl, ?_, ?_, rfl, rfl, ?_, ?_, ?_⟩
  · simp only [h1, h2, h0, false_and, if_false, hv, hc, joinFrom_zero, List.append_assoc]
  · simp [h4]
  · simp [h7]
  · simp [h6]
  · simp [h5]

theorem writeRows_later (w : StringWriter) (rows : List (List KV)) (h0 : w.rowIndex ≠ 0) (hv : w.valueIndex = 0)
    (hc : w.currentRow = []) (hw : ∀ r ∈ rows, r.length = w.prevValuesCount) :
    ∃ w', w.writeRows rows = .ok w' ∧ w'.out = w.out ++ lines w.sep (rows.map (·.map (·.2))) := by
  induction rows generalizing w with
  | nil => exact ⟨w, rfl, by simp [lines]⟩
  | cons r rs ih =>
    obtain ⟨w1, e1, o1, r1, v1, c1, p1, s1, _⟩ := writeRow_later w r h0 hv hc (hw r (by simp))
    obtain ⟨w2, e2, o2⟩ := ih w1 (by omega) v1 c1 (fun r' hr' => by rw [p1]; exact hw r' (by simp [hr']))
    refine ⟨w2, ?_, ?_⟩
    · simp [StringWriter.writeRows, e1, e2]
    · rw [o2, o1, s1]; simp [lines]

/-- the first row writes the header line (when enabled) and its own line -/
theorem writeRow_first (sep : Nat) (wh : Bool) (row : List KV) :
    ∃ w', (StringWriter.mk [] wh sep [] 0 0 0).writeRow row = .ok w' ∧
      w'.out = lines sep ((if wh then [row.map (·.1)] else []) ++ [row.map (·.2)]) ∧
      w'.rowIndex = 1 ∧ w'.valueIndex = 0 ∧ w'.currentRow = [] ∧ w'.prevValuesCount = row.length ∧ w'.sep = sep := by
  obtain ⟨h1, h2, h3, h4, h5, h6, h7⟩ := foldl_writeValue (StringWriter.mk [] wh sep [] 0 0 0) row
  unfold StringWriter.writeRow StringWriter.nextLine
  simp only at h1 h2 h3 h4 h5 h6 h7
  simp only [h4, if_true]
  refine ⟨_, rfl, ?_, ?_, rfl, rfl, ?_, ?_⟩
  · simp only [h1, h2, h5, joinFrom_zero]
    cases wh <;> simp [lines]
  · simp [h4]
  · simp [h3]
  · simp [h6]

/-- **the document written by the string writer** for rows of equal width -/
theorem saveString_eq (sep : Nat) (wh : Bool) (first : List KV) (rest : List (List KV))
    (hw : ∀ r ∈ rest, r.length = first.length) :
    saveString sep wh (first :: rest) =
      .ok (lines sep ((if wh then [first.map (·.1)] else []) ++ (first :: rest).map (·.map (·.2)))) := by
  obtain ⟨w1, e1, o1, r1, v1, c1, p1, s1⟩ := writeRow_first sep wh first
  obtain ⟨w2, e2, o2⟩ := writeRows_later w1 rest (by omega) v1 c1 (fun r hr => by rw [p1]; exact hw r hr)
  unfold saveString
  simp only [StringWriter.writeRows, e1, e2, o2, o1, s1]
  cases wh <;> simp [lines]

/-- rows of different width are refused -/
theorem saveString_ragged (sep : Nat) (wh : Bool) (first : List KV) (rest : List (List KV))
    (hw : ∃ r ∈ rest, r.length ≠ first.length) :
    saveString sep wh (first :: rest) = .error .serOutOfRange := by
  obtain ⟨w1, e1, o1, r1, v1, c1, p1, s1⟩ := writeRow_first sep wh first
  have key : ∀ (rows : List (List KV)) (w : StringWriter), w.rowIndex ≠ 0 → w.valueIndex = 0 → w.currentRow = [] →
      (∃ r ∈ rows, r.length ≠ w.prevValuesCount) → w.writeRows rows = .error .serOutOfRange := by
    intro rows
    induction rows with
    | nil => intro w _ _ _ h; simp at h
    | cons r rs ih =>
      intro w h0 hv hc h
      by_cases hr : r.length = w.prevValuesCount
      · obtain ⟨w1, e1, _, r1, v1, c1, p1, _, _⟩ := writeRow_later w r h0 hv hc hr
        have : ∃ r' ∈ rs, r'.length ≠ w1.prevValuesCount := by
          obtain ⟨r', hm, hn⟩ := h
          simp only [List.mem_cons] at hm
          rcases hm with rfl | hm
          · exact absurd hr hn
          · exact ⟨r', hm, by rw [p1]; exact hn⟩
        simp [StringWriter.writeRows, e1, ih w1 (by omega) v1 c1 this]
      · obtain ⟨_, _, h3, h4, _, _, h7⟩ := foldl_writeValue w r
        simp only [StringWriter.writeRows, StringWriter.writeRow, StringWriter.nextLine, h4, h0, if_false]
        have : (List.foldl (fun w kv => w.writeValue kv.1 kv.2) w r).valueIndex ≠
            (List.foldl (fun w kv => w.writeValue kv.1 kv.2) w r).prevValuesCount := by
          rw [h3, h7, hv]; omega
        simp [this]
  unfold saveString
  have := key rest w1 (by omega) v1 c1 (by rw [p1]; exact hw)
  simp [StringWriter.writeRows, e1, this]

/-! ### the stream writer simulates the string writer -/

/-- simulation relation between the two writers -/
def Sim (w : StringWriter) (s : StreamWriter) : Prop :=
  w.withHeader = s.withHeader ∧ w.sep = s.sep ∧ w.currentRow = s.currentRow ∧ w.rowIndex = s.rowIndex ∧
  w.valueIndex = s.valueIndex ∧ w.prevValuesCount = s.prevValuesCount ∧
  w.out = s.stream ++ (if w.rowIndex = 0 then s.csvHeader else []) ∧
  (w.rowIndex = 0 → w.withHeader = false → s.csvHeader = [])

theorem sim_writeValue {w : StringWriter} {s : StreamWriter} (h : Sim w s) (k v : List Nat) :
    Sim (w.writeValue k v) (s.writeValue k v) := by
  obtain ⟨h1, h2, h3, h4, h5, h6, h7, h8⟩ := h
  unfold Sim StringWriter.writeValue StreamWriter.writeValue
  simp only [← h1, ← h2, ← h3, ← h4, ← h5, ← h6]
  refine ⟨trivial, trivial, trivial, trivial, trivial, trivial, ?_, ?_⟩
  · by_cases hr : w.rowIndex = 0
    · by_cases hh : w.withHeader = true
      · simp [hr, hh, h7, writeEscapedValue_eq]
        split <;> simp
      · simp [hr, hh, h7]
    · simp [hr, h7]
  · intro hr hh
    simp [hr, hh, h8 hr hh]

theorem sim_nextLine {w : StringWriter} {s : StreamWriter} (h : Sim w s) :
    (∃ e, w.nextLine = .error e ∧ s.nextLine = .error e) ∨
    (∃ w' s', w.nextLine = .ok w' ∧ s.nextLine = .ok s' ∧ Sim w' s' ∧ w'.rowIndex ≠ 0) := by
  obtain ⟨h1, h2, h3, h4, h5, h6, h7, h8⟩ := h
  unfold StringWriter.nextLine StreamWriter.nextLine
  simp only [← h1, ← h2, ← h3, ← h4, ← h5, ← h6]
  by_cases hr : w.rowIndex = 0
  · simp only [hr, if_true]
    right
    refine ⟨_, _, rfl, rfl, ?_, by simp⟩
    unfold Sim
    refine ⟨rfl, rfl, rfl, rfl, rfl, rfl, ?_, by simp⟩
    by_cases hh : w.withHeader = true
    · simp [hh, h7, hr]
    · have := h8 hr (by simpa using hh)
      simp [hh, h7, hr, this]
  · simp only [hr, if_false]
    by_cases hv : w.valueIndex ≠ w.prevValuesCount
    · left; exact ⟨.serOutOfRange, by simp [hv], by simp [hv]⟩
    · right
      simp only [hv, if_false]
      refine ⟨_, _, rfl, rfl, ?_, by simp⟩
      unfold Sim
      refine ⟨rfl, rfl, rfl, rfl, rfl, rfl, ?_, by simp⟩
      simp [h7, hr]

theorem sim_foldl {w : StringWriter} {s : StreamWriter} (h : Sim w s) (row : List KV) :
    Sim (row.foldl (fun w kv => w.writeValue kv.1 kv.2) w) (row.foldl (fun w kv => w.writeValue kv.1 kv.2) s) := by
  induction row generalizing w s with
  | nil => exact h
  | cons kv row ih => exact ih (sim_writeValue h kv.1 kv.2)

theorem sim_writeRows {w : StringWriter} {s : StreamWriter} (h : Sim w s) (rows : List (List KV)) :
    (∃ e, w.writeRows rows = .error e ∧ s.writeRows rows = .error e) ∨
    (∃ w' s', w.writeRows rows = .ok w' ∧ s.writeRows rows = .ok s' ∧ Sim w' s' ∧ (rows ≠ [] → w'.rowIndex ≠ 0)) := by
  induction rows generalizing w s with
  | nil => right; exact ⟨w, s, rfl, rfl, h, by simp⟩
  | cons r rs ih =>
    rcases sim_nextLine (sim_foldl h r) with ⟨e, e1, e2⟩ | ⟨w1, s1, e1, e2, hs, hr⟩
    · left; exact ⟨e, by simp [StringWriter.writeRows, StringWriter.writeRow, e1], by simp [StreamWriter.writeRows, StreamWriter.writeRow, e2]⟩
    · rcases ih hs with ⟨e, e3, e4⟩ | ⟨w2, s2, e3, e4, hs2, _⟩
      · left; exact ⟨e, by simp [StringWriter.writeRows, StringWriter.writeRow, e1, e3], by simp [StreamWriter.writeRows, StreamWriter.writeRow, e2, e4]⟩
      · right
        refine ⟨w2, s2, by simp [StringWriter.writeRows, StringWriter.writeRow, e1, e3], by simp [StreamWriter.writeRows, StreamWriter.writeRow, e2, e4], hs2, ?_⟩
        intro _
        -- rowIndex only grows
        have mono : ∀ (rows : List (List KV)) (a b : StringWriter), a.writeRows rows = .ok b → a.rowIndex ≠ 0 → b.rowIndex ≠ 0 := by
          intro rows
          induction rows with
          | nil => intro a b hab; simp [StringWriter.writeRows] at hab; subst hab; exact id
          | cons x xs ihx =>
            intro a b hab ha
            simp only [StringWriter.writeRows] at hab
            split at hab
            · cases hab
            · rename_i a' ha'
              apply ihx a' b hab
              unfold StringWriter.writeRow StringWriter.nextLine at ha'
              have hfold := (foldl_writeValue a x).2.2.2.1
              simp only [hfold, ha, if_false] at ha'
              split at ha'
              · cases ha'
              · injection ha' with ha'; subst ha'; simp
        exact mono rs w1 w2 e3 hr

theorem saveStream_eq_saveString (sep : Nat) (wh : Bool) (rows : List (List KV)) :
    saveStream sep wh rows = saveString sep wh rows := by
  have h0 : Sim (StringWriter.mk [] wh sep [] 0 0 0) (StreamWriter.mk [] wh sep [] [] 0 0 0) := by
    simp [Sim]
  unfold saveStream saveString
  rcases sim_writeRows h0 rows with ⟨e, e1, e2⟩ | ⟨w, s, e1, e2, hs, hr⟩
  · simp [e1, e2]
  · simp only [e1, e2]
    obtain ⟨_, _, _, _, _, _, h7, _⟩ := hs
    cases rows with
    | nil =>
      simp [StringWriter.writeRows] at e1; simp [StreamWriter.writeRows] at e2
      subst e1 e2; rfl
    | cons r rs =>
      have := hr (by simp)
      simp [h7, this]

end BSVerif.Csv.Writer
