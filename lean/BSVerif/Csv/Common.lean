/-
  Shared definitions of the CSV models: error classes (what `describeException` of the harness
  prints), value metadata (`CValueMeta`, src/csv/csv_readers.h), slices, size_t helpers.
-/
import BSVerif.Basic

namespace BSVerif.Csv

/-- exception classes that the CSV code can raise -/
inductive Err where
  | parsing          -- ParsingException (SerializationErrorCode::ParsingError)
  | serOutOfRange    -- SerializationException(SerializationErrorCode::OutOfRange)
  | stdOutOfRange    -- std::out_of_range from std::vector::at
  | invalidOptions   -- SerializationException(SerializationErrorCode::InvalidOptions)
  deriving DecidableEq, Repr

def Err.toString : Err → String
  | .parsing => "parsing"
  | .serOutOfRange => "ser_out_of_range"
  | .stdOutOfRange => "out_of_range"
  | .invalidOptions => "invalid_options"

/-- `CValueMeta{Offset, Size, HasEscapedChars}` -/
structure Meta where
  off : Nat
  size : Nat
  esc : Bool
  deriving DecidableEq, Repr

/-- `std::string_view(data + off, size)` -/
def slice (buf : List Nat) (off size : Nat) : List Nat := (buf.drop off).take size

/-- `pos - 1` in `size_t` arithmetic (64-bit) -/
def decWrap (pos : Nat) : Nat := if pos = 0 then 2 ^ 64 - 1 else pos - 1

end BSVerif.Csv
