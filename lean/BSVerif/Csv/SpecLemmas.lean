/-
  Lemmas about the RFC 4180 Spec alone: the strict recogniser reads every conformant rendering of a
  table back as that table (`parse_of_renders`), and the canonical rendering is a rendering.
-/
import BSVerif.Csv.Spec

namespace BSVerif.Csv.Spec

/-- prepend a whole field content to the field being read -/
def pushField (f : Field) (t : Table) : Table := f.foldr pushChar t

@[simp] theorem pushField_nil (t : Table) : pushField [] t = t := rfl
@[simp] theorem pushField_cons (c : Nat) (f : Field) (t : Table) : pushField (c :: f) t = pushChar c (pushField f t) := rfl
theorem map_pushField_nil (o : Option Table) : o.map (pushField []) = o := by cases o <;> rfl
theorem map_pushField_cons (c : Nat) (f : Field) (o : Option Table) :
    o.map (pushField (c :: f)) = (o.map (pushField f)).map (pushChar c) := by cases o <;> rfl

theorem pushField_head (f g : Field) (fs : Record) (rs : Table) :
    pushField f ((g :: fs) :: rs) = ((f ++ g) :: fs) :: rs := by
  induction f with
  | nil => rfl
  | cons c f ih => rw [pushField_cons, ih]; rfl

/-- what the recogniser does when a field is over and `k` follows -/
def afterField (sep : Nat) : List Nat → Option Table
  | [] => some [[[]]]
  | c :: r =>
    if c = sep then (go sep .fieldStart r).map newField
    else if c = 10 then (go sep .recStart r).map newRecord
    else if c = 13 then go sep .afterCR r
    else none

/-- `k` is empty or starts with a separator or a line break -/
inductive Term (sep : Nat) : List Nat → Prop
  | nil : Term sep []
  | sep (r) : Term sep (sep :: r)
  | lf (r) : Term sep (10 :: r)
  | crlf (r) : Term sep (13 :: 10 :: r)

/-- `k` is empty or starts with a line break -/
inductive EolTerm : List Nat → Prop
  | nil : EolTerm []
  | lf (r) : EolTerm (10 :: r)
  | crlf (r) : EolTerm (13 :: 10 :: r)

theorem EolTerm.term {sep : Nat} {k : List Nat} (h : EolTerm k) : Term sep k := by
  cases h <;> constructor

variable {sep : Nat}

theorem go_unq_term (hs : SepOk sep) {k : List Nat} (h : Term sep k) : go sep .unq k = afterField sep k := by
  obtain ⟨h1, h2, h3⟩ := hs
  cases h <;> simp [go, afterField, h1, h2, h3]

theorem go_fieldStart_term (hs : SepOk sep) {k : List Nat} (h : Term sep k) : go sep .fieldStart k = afterField sep k := by
  obtain ⟨h1, h2, h3⟩ := hs
  cases h <;> simp [go, afterField, h1, h2, h3]

theorem go_afterQuote_term (hs : SepOk sep) {k : List Nat} (h : Term sep k) : go sep .afterQuote k = afterField sep k := by
  obtain ⟨h1, h2, h3⟩ := hs
  cases h <;> simp [go, afterField, h1, h2, h3]

theorem go_recStart_cons (c : Nat) (r : List Nat) : go sep .recStart (c :: r) = go sep .fieldStart (c :: r) := by
  simp [go]

theorem go_recStart_ne_nil {l : List Nat} (h : l ≠ []) : go sep .recStart l = go sep .fieldStart l := by
  cases l with
  | nil => exact absurd rfl h
  | cons c r => exact go_recStart_cons c r

theorem isText_iff {c : Nat} : isText sep c = true ↔ c ≠ 34 ∧ c ≠ sep ∧ c ≠ 13 ∧ c ≠ 10 := by
  simp [isText, and_assoc]

theorem go_plain (hs : SepOk sep) (f : Field) (hf : f.all (isText sep) = true) {k : List Nat} (hk : Term sep k) :
    go sep .unq (f ++ k) = (afterField sep k).map (pushField f) ∧
    go sep .fieldStart (f ++ k) = (afterField sep k).map (pushField f) := by
  induction f with
  | nil => simp [go_unq_term hs hk, go_fieldStart_term hs hk, map_pushField_nil]
  | cons c f ih =>
    simp only [List.all_cons, Bool.and_eq_true] at hf
    obtain ⟨hc, hf⟩ := hf
    obtain ⟨c1, c2, c3, c4⟩ := isText_iff.mp hc
    have ih := (ih hf).1
    simp [go, c1, c2, c3, c4, ih, map_pushField_cons]

theorem go_quoted_body (f : Field) (k : List Nat) :
    go sep .quoted (escape f ++ 34 :: k) = (go sep .afterQuote k).map (pushField f) := by
  induction f with
  | nil => simp [escape, go, map_pushField_nil]
  | cons c f ih =>
    by_cases hc : c = 34
    · subst hc
      simp [escape, go, ih, map_pushField_cons]
    · simp [escape, hc, go, ih, map_pushField_cons]

/-- reading a rendered field -/
theorem go_field (hs : SepOk sep) {f : Field} {s : List Nat} (h : FieldR sep f s) {k : List Nat} (hk : Term sep k) :
    go sep .fieldStart (s ++ k) = (afterField sep k).map (pushField f) := by
  cases h with
  | plain hf => exact (go_plain hs f hf hk).2
  | quoted =>
    simp only [List.cons_append, List.append_assoc, List.singleton_append, List.nil_append]
    rw [show go sep .fieldStart (34 :: (escape f ++ 34 :: k)) = go sep .quoted (escape f ++ 34 :: k) by simp [go]]
    rw [go_quoted_body, go_afterQuote_term hs hk]

/-- the records that follow a record terminated by `k` -/
def restTable (sep : Nat) : List Nat → Option Table
  | [] => some []
  | 10 :: t => go sep .recStart t
  | 13 :: 10 :: t => go sep .recStart t
  | _ => none

theorem afterField_eol (hs : SepOk sep) {k : List Nat} (h : EolTerm k) :
    afterField sep k = (restTable sep k).map newRecord := by
  obtain ⟨h1, h2, h3⟩ := hs
  cases h
  · simp [afterField, restTable, newRecord, go]
  · rename_i r
    have : (10 : Nat) ≠ sep := fun h => h3 h.symm
    simp [afterField, restTable, this]
  · rename_i r
    have : (13 : Nat) ≠ sep := fun h => h2 h.symm
    simp [afterField, restTable, this, go]

/-- reading a rendered record -/
theorem go_record (hs : SepOk sep) {r : Record} {s : List Nat} (h : RecordR sep r s) {k : List Nat} (hk : EolTerm k) :
    go sep .fieldStart (s ++ k) = (restTable sep k).map (fun T => r :: T) := by
  induction h with
  | one hf =>
    rw [go_field hs hf hk.term, afterField_eol hs hk, Option.map_map]
    congr 1
    funext T
    simp [newRecord, pushField_head]
  | @cons f s fs t hf hne _ ih =>
    rw [List.append_assoc, List.cons_append, go_field hs hf (Term.sep _)]
    have : afterField sep (sep :: (t ++ k)) = (go sep .fieldStart (t ++ k)).map newField := by simp [afterField]
    rw [this, ih, Option.map_map, Option.map_map]
    congr 1
    funext T
    simp [newField, pushField_head]

/-- **Spec lemma.** Every RFC-4180-conformant rendering of a table is read back, by the strict recogniser,
    as exactly that table. -/
theorem parse_of_renders (hs : SepOk sep) {t : Table} {txt : List Nat} (h : Renders sep t txt) :
    parse sep txt = some t := by
  unfold parse
  induction h with
  | nil => simp [go]
  | @last r s hr hne =>
    rw [go_recStart_ne_nil hne]
    have := go_record hs hr EolTerm.nil
    simpa [restTable] using this
  | @cons r s e rs t hr he _ ih =>
    have hne : s ++ (e ++ t) ≠ [] := by cases he <;> simp
    rw [go_recStart_ne_nil hne]
    cases he with
    | crlf =>
      have := go_record hs hr (EolTerm.crlf t)
      simp only [List.cons_append, List.nil_append] at this ⊢
      rw [this]; simp [restTable, ih]
    | lf =>
      have := go_record hs hr (EolTerm.lf t)
      simp only [List.cons_append, List.nil_append] at this ⊢
      rw [this]; simp [restTable, ih]

/-! ### the canonical rendering is a rendering -/

theorem renderField_fieldR (f : Field) : FieldR sep f (renderField sep f) := by
  unfold renderField
  split
  · exact FieldR.plain f ‹_›
  · exact FieldR.quoted f

theorem renderRecord_recordR : ∀ (r : Record), r ≠ [] → RecordR sep r (renderRecord sep r)
  | [], h => absurd rfl h
  | [f], _ => RecordR.one (renderField_fieldR f)
  | f :: g :: fs, _ => by
    have := renderRecord_recordR (g :: fs) (by simp)
    simpa [renderRecord] using RecordR.cons (renderField_fieldR f) (by simp) this

theorem render_renders : ∀ (t : Table), (∀ r ∈ t, r ≠ []) → Renders sep t (render sep t)
  | [], _ => Renders.nil
  | r :: rs, h => by
    have h1 := renderRecord_recordR (sep := sep) r (h r (by simp))
    have h2 := render_renders rs (fun r' hr' => h r' (by simp [hr']))
    exact Renders.cons h1 EolR.crlf h2

/-- the canonical rendering is read back exactly -/
theorem parse_render (hs : SepOk sep) (t : Table) (h : ∀ r ∈ t, r ≠ []) : parse sep (render sep t) = some t :=
  parse_of_renders hs (render_renders t h)

end BSVerif.Csv.Spec
