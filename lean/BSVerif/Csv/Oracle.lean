/-
  ORACLE for C09 / C10 (CSV): judges an implementation answer directly against the RFC 4180 Spec
  (`Spec.parse`), independently of the Model.

  C09 made precise:
  * writers: for rows of equal width w ≥ 1 (and at least one row) the produced text must be read by
    the strict RFC 4180 recogniser as exactly [keys of the first row (if the header is on)] followed
    by the rows of values; rows of different width must be refused; the stream writer (UTF-8, no BOM)
    must produce the same bytes as the string writer (C10).
  * readers: if the text is RFC-4180-conformant and all records have as many fields as the first one,
    the reader must deliver exactly the Spec's fields (by key: the column whose header equals the key,
    `notFound` when there is none; by index: the fields in order); if a record has a different number
    of fields the reader must raise a parsing error when it reaches that record; a conformant text
    without any record has no header line and must be refused when a header is expected.
    Non-conformant text: C09 does not say what must happen (no verdict; C10 still compares the readers).
  * documented API semantics used for scripts: `ReadValue()` after a fresh `ParseNextRow` delivers the
    fields in order and fails with OutOfRange after the last one; mixed key/index scripts and by-key
    reads under duplicate header names have no Spec verdict.
-/
import BSVerif.Csv.Spec
import BSVerif.Csv.Reader
import BSVerif.Csv.Writer

namespace BSVerif.Csv.Oracle
open BSVerif.Csv BSVerif.Csv.Reader

inductive Verdict where
  | ok
  | known (cls : String)
  | bad (why : String)
  | nospec
  deriving Repr, DecidableEq

/-- the separators the documentation allows: ',', ';', TAB, ' ', '|' -/
def specSeparators : List Nat := [44, 59, 9, 32, 124]

/-- a writer answer: the bytes, or an error class -/
inductive WAns where
  | bytes (b : List Nat)
  | err (cls : String)
  deriving DecidableEq, Repr

def judgeWrite (sep : Nat) (withHeader : Bool) (rows : List (List Writer.KV)) (a b : WAns) : Verdict :=
  if ¬ Spec.SepOk sep then .nospec else
  match rows with
  | [] => if a = .bytes [] ∧ b = .bytes [] then .ok else .bad "output for no rows at all"
  | first :: _ =>
    let w := first.length
    if w = 0 then .nospec
    else if rows.any (fun r => r.length != w) then
      match a, b with
      | .err _, .err _ => .ok
      | _, _ => .bad "rows of different width were written"
    else
      let expected : Spec.Table := (if withHeader then [first.map (·.1)] else []) ++ rows.map (fun r => r.map (·.2))
      match a with
      | .err _ => .bad "well-formed table refused"
      | .bytes t =>
        if Spec.parse sep t ≠ some expected then .bad "RFC 4180 reading of the output is not the table written"
        else if b ≠ a then .bad "stream output differs from memory output"
        else .ok

inductive ScriptKind where
  | keys | idxs | mixed
  deriving DecidableEq

def isIdx : Req → Bool
  | .idx => true
  | _ => false

/-- no `ReadValue()` request -/
def noIdx (script : List Req) : Bool := script.all (fun q => !isIdx q)
/-- only `ReadValue()` requests -/
def allIdx (script : List Req) : Bool := script.all isIdx

def scriptKind (script : List Req) : ScriptKind :=
  if noIdx script then .keys
  else if allIdx script then .idxs
  else .mixed

/-- the cell a by-key request must deliver -/
def lookupCell (hdr : Option (List Spec.Field)) (row : List Spec.Field) (key : List Nat) : Cell :=
  match hdr with
  | none => .notFound
  | some h =>
    let i := h.idxOf key
    match row[i]? with
    | some v => if i < h.length then .val v else .notFound
    | none => .notFound

def expectRow (hdr : Option (List Spec.Field)) (script : List Req) (row : List Spec.Field) : List Cell :=
  match scriptKind script with
  | .idxs => (row.take script.length).map .val
  | _ => script.map fun q => match q with
    | .key n => lookupCell hdr row (keyOf (hdr.getD []) n)
    | .lit k => lookupCell hdr row k
    | .idx => .notFound

/-- expected outcome over the data rows (`i` = number of rows delivered so far) -/
def expectRows (hdr : Option (List Spec.Field)) (script : List Req) (width : Nat) : List (List Spec.Field) → Outcome
  | [] => .ok (hdr.getD []) [] false 0
  | row :: rest =>
    if row.length ≠ width then .err .parsing 0
    else if scriptKind script = .idxs ∧ script.length > width then .err .serOutOfRange 0
    else (expectRows hdr script width rest).addRow (expectRow hdr script row)

def fixIndex (n : Nat) : Outcome → Outcome
  | .ok h rows f _ => .ok h rows f (n - 1)
  | o => o

/-- what C09 demands of a reading session over a text whose RFC 4180 reading is `recs`, `none` = nothing -/
def expectOfRecs (withHeader : Bool) (script : List Req) (recs : Spec.Table) : Option Outcome :=
  if scriptKind script = .mixed then none else
  if withHeader then
    match recs with
    | [] => some (.errCtor .parsing)
    | hdr :: rows =>
      if ¬ hdr.Nodup ∧ allIdx script = false then none
      else some (fixIndex rows.length (expectRows (some hdr) script hdr.length rows))
  else
    match recs with
    | [] => some (.ok [] [] false 0)
    | first :: _ => some (fixIndex recs.length (expectRows none script first.length recs))

/-- what C09 demands of a reading session, `none` = nothing -/
def expectRead (sep : Nat) (withHeader : Bool) (script : List Req) (txt : List Nat) : Option Outcome :=
  if ¬ Spec.SepOk sep then none else
  match Spec.parse sep txt with
  | none => none
  | some recs => expectOfRecs withHeader script recs

def judgeRead (sep : Nat) (withHeader : Bool) (script : List Req) (txt : List Nat) (impl : Outcome) : Verdict :=
  match expectRead sep withHeader script txt with
  | none => .nospec
  | some exp =>
    if impl = exp then .ok
    else match exp, impl with
      | .ok .., .ok .. => .bad "loaded rows differ from the RFC 4180 reading of the text"
      | .ok .., _ => .bad "conformant text refused"
      | _, .ok .. => .bad "text that must be refused (field count differs / no header line / no more values) was loaded"
      | _, _ => .bad "wrong error class or position"

/-- a `LoadObject` answer: the objects, or an error class -/
inductive LAns where
  | rows (r : List (List Cell))
  | err (e : Err)
  deriving DecidableEq, Repr

def LAns.ofExcept : Except Err (List (List Cell)) → LAns
  | .ok r => .rows r
  | .error e => .err e

/-- archive level: `LoadObject` answers rows or an error class -/
def judgeLoad (sep : Nat) (keys : List (List Nat)) (txt : List Nat) (impl : LAns) : Verdict :=
  if sep ∉ specSeparators then
    (if impl = .err .invalidOptions then .ok else .bad "separator outside the documented set accepted")
  else
    match expectRead sep true (keys.map Req.lit) txt with
    | none => .nospec
    | some exp =>
      let e : LAns := match exp with
        | .ok _ rows _ _ => .rows rows
        | .err e _ => .err e
        | .errCtor e => .err e
      if impl = e then .ok
      else match e, impl with
        | .rows _, .rows _ => .bad "loaded objects differ from the RFC 4180 reading of the text"
        | .rows _, _ => .bad "conformant text refused"
        | _, .rows _ => .bad "text that must be refused was loaded"
        | _, _ => .bad "wrong error class"

/-- archive level: `SaveObject` to string and to stream -/
def judgeSave (sep : Nat) (objs : List (List Writer.KV)) (a b : WAns) : Verdict :=
  if sep ∉ specSeparators then
    (match a, b with
     | .err "invalid_options", .err "invalid_options" => .ok
     | _, _ => .bad "separator outside the documented set accepted")
  else if objs.isEmpty then
    -- an empty array is saved as the empty text (no header line can be produced), which cannot be loaded back
    (if a = .bytes [] ∧ b = .bytes [] then .known "csv-empty-array-unloadable" else .bad "output for an empty array")
  else judgeWrite sep true objs a b

end BSVerif.Csv.Oracle
