/-
  MODEL of the archive layer (include/bitserializer/csv_archive.h, src/csv/csv_archive.cpp):
  `ValidateSeparator`, `SaveObject<CsvArchive>` of a sequence of objects (each object issues one
  `WriteValue(key, value)` per field, its scope's destructor calls `NextLine`; an exception of `NextLine` is
  caught in the destructor, deferred to the SerializationContext and rethrown by `CsvWriteRootScope::Finalize()`
  — `saveStringDeferred` / `saveStreamDeferred` below, equal to the stop-at-the-first-error sessions
  `saveString` / `saveStream` by `C20.csv_deferred_save_eq`), `LoadObject<CsvArchive>`
  into a sequence of objects (`while (!IsEnd()) { ParseNextRow(); ReadValue(key) per field }`).
  Objects are lists of (key, string value); the header is always on (`withHeader = true`).
-/
import BSVerif.Csv.Writer
import BSVerif.Csv.StreamReader
import BSVerif.Generated.CsvConsts

namespace BSVerif.Csv.Archive
open BSVerif.Csv BSVerif.Csv.Reader

/-- `ValidateSeparator` -/
def validateSeparator (sep : Nat) : Except Err Unit :=
  if sep ∈ BSVerif.Generated.Csv.allowedSeparators then .ok () else .error .invalidOptions

def saveString (sep : Nat) (objs : List (List Writer.KV)) : Except Err (List Nat) := do
  validateSeparator sep
  Writer.saveString sep true objs

def saveStream (sep : Nat) (objs : List (List Writer.KV)) : Except Err (List Nat) := do
  validateSeparator sep
  Writer.saveStream sep true objs

/-! ### the deferred-error path of `~CCsvWriteObjectScope` (fix d75a225)

`NextLine()` throws before it changes anything (`if (mValueIndex != mPrevValuesCount) throw …`), so after a
failed call the writer is as `WriteValue` left it; the destructor catches the exception, the context keeps the first
one, the remaining objects are written as if nothing had happened and `Finalize()` rethrows. -/

/-- `DeferError`: keep the first -/
def deferError (dfr : Option Err) (e : Err) : Option Err :=
  match dfr with
  | some d => some d
  | none => some e

def stringRowsDeferred (w : Writer.StringWriter) (dfr : Option Err) : List (List Writer.KV) → Writer.StringWriter × Option Err
  | [] => (w, dfr)
  | row :: rows =>
    let w1 := row.foldl (fun w kv => w.writeValue kv.1 kv.2) w
    match w1.nextLine with
    | .ok w2 => stringRowsDeferred w2 dfr rows
    | .error e => stringRowsDeferred w1 (deferError dfr e) rows

def streamRowsDeferred (w : Writer.StreamWriter) (dfr : Option Err) : List (List Writer.KV) → Writer.StreamWriter × Option Err
  | [] => (w, dfr)
  | row :: rows =>
    let w1 := row.foldl (fun w kv => w.writeValue kv.1 kv.2) w
    match w1.nextLine with
    | .ok w2 => streamRowsDeferred w2 dfr rows
    | .error e => streamRowsDeferred w1 (deferError dfr e) rows

/-- `SaveObject<CsvArchive>(rows, std::string&)` as the code runs it: every object scope is opened and closed,
    `Finalize()` reports the first deferred error -/
def saveStringDeferred (sep : Nat) (objs : List (List Writer.KV)) : Except Err (List Nat) := do
  validateSeparator sep
  match stringRowsDeferred (Writer.StringWriter.mk [] true sep [] 0 0 0) none objs with
  | (_, some e) => .error e
  | (w, none) => .ok w.out

def saveStreamDeferred (sep : Nat) (objs : List (List Writer.KV)) : Except Err (List Nat) := do
  validateSeparator sep
  match streamRowsDeferred (Writer.StreamWriter.mk [] true sep [] [] 0 0 0) none objs with
  | (_, some e) => .error e
  | (w, none) => .ok w.stream

def ofOutcome : Outcome → Except Err (List (List Cell))
  | .ok _ rows _ _ => .ok rows
  | .err e _ => .error e
  | .errCtor e => .error e

/-- `LoadObject<CsvArchive>(std::vector<T>&, std::string)`, `keys` = the fields of `T` in `Serialize` order;
    `Cell.notFound` = the field is left untouched -/
def loadString (sep : Nat) (keys : List (List Nat)) (txt : List Nat) : Except Err (List (List Cell)) := do
  validateSeparator sep
  ofOutcome (memSession sep true (keys.map Req.lit) txt)

/-- `LoadObject<CsvArchive>(std::vector<T>&, std::istream&)` -/
def loadStream (chunk sep : Nat) (keys : List (List Nat)) (txt : List Nat) : Except Err (List (List Cell)) := do
  validateSeparator sep
  ofOutcome (Stream.streamSession chunk sep true (keys.map Req.lit) txt)

end BSVerif.Csv.Archive
