/-
  MODEL of the archive layer (include/bitserializer/csv_archive.h, src/csv/csv_archive.cpp):
  `ValidateSeparator`, `SaveObject<CsvArchive>` of a sequence of objects (each object issues one
  `WriteValue(key, value)` per field, its scope's destructor calls `NextLine`), `LoadObject<CsvArchive>`
  into a sequence of objects (`while (!IsEnd()) { ParseNextRow(); ReadValue(key) per field }`).
  Objects are lists of (key, string value); the header is always on (`withHeader = true`).
-/
import BSVerif.Csv.Writer
import BSVerif.Csv.StreamReader
import BSVerif.Generated.CsvConsts

namespace BSVerif.Csv.Archive
open BSVerif.Csv BSVerif.Csv.Reader

/-- `ValidateSeparator` -/
def validateSeparator (sep : Nat) : Except Err Unit :=
  if sep ∈ BSVerif.Generated.Csv.allowedSeparators then .ok () else .error .invalidOptions

def saveString (sep : Nat) (objs : List (List Writer.KV)) : Except Err (List Nat) := do
  validateSeparator sep
  Writer.saveString sep true objs

def saveStream (sep : Nat) (objs : List (List Writer.KV)) : Except Err (List Nat) := do
  validateSeparator sep
  Writer.saveStream sep true objs

def ofOutcome : Outcome → Except Err (List (List Cell))
  | .ok _ rows _ _ => .ok rows
  | .err e _ => .error e
  | .errCtor e => .error e

/-- `LoadObject<CsvArchive>(std::vector<T>&, std::string)`, `keys` = the fields of `T` in `Serialize` order;
    `Cell.notFound` = the field is left untouched -/
def loadString (sep : Nat) (keys : List (List Nat)) (txt : List Nat) : Except Err (List (List Cell)) := do
  validateSeparator sep
  ofOutcome (memSession sep true (keys.map Req.lit) txt)

/-- `LoadObject<CsvArchive>(std::vector<T>&, std::istream&)` -/
def loadStream (chunk sep : Nat) (keys : List (List Nat)) (txt : List Nat) : Except Err (List (List Cell)) := do
  validateSeparator sep
  ofOutcome (Stream.streamSession chunk sep true (keys.map Req.lit) txt)

end BSVerif.Csv.Archive
