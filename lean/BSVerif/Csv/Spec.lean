/-
  SPEC for C09 — CSV per RFC 4180 (written from the RFC, not from the C++).

  RFC 4180 §2 grammar:
      file        = [header CRLF] record *(CRLF record) [CRLF]
      record      = field *(COMMA field)
      field       = (escaped / non-escaped)
      escaped     = DQUOTE *(TEXTDATA / COMMA / CR / LF / 2DQUOTE) DQUOTE
      non-escaped = *TEXTDATA
  with the two liberalisations the property statement names:
    * a line break is CRLF or a single LF;
    * COMMA is any separator `sep`, TEXTDATA is every code unit other than DQUOTE, `sep`, CR, LF
      (so UTF-8 text is allowed in fields).
  The grammar is ambiguous about a trailing line break (`a CRLF` could be one record or two, the
  second consisting of one empty field); as everywhere, the final line break is a terminator:
  input that ends right after a line break has no further record.

  `parse`  : strict recogniser (a quote inside a non-escaped field, text after a closing quote, a bare
             CR outside quotes, an unterminated escaped field are rejected).
  `Renders`: the relation "txt is an RFC-4180-conformant rendering of table" (free choice, per field,
             of quoting; per line, of CRLF or LF; optional final line break).
  Code units are `Nat` (bytes of UTF-8 text for this library).
-/
namespace BSVerif.Csv.Spec

abbrev Field := List Nat
abbrev Record := List Field
abbrev Table := List Record

def DQUOTE : Nat := 34
def CR : Nat := 13
def LF : Nat := 10

/-- separators for which the grammar is unambiguous -/
def SepOk (sep : Nat) : Prop := sep ≠ 34 ∧ sep ≠ 13 ∧ sep ≠ 10

instance (sep : Nat) : Decidable (SepOk sep) := by unfold SepOk; infer_instance

/-- TEXTDATA -/
def isText (sep c : Nat) : Bool := c != 34 && c != sep && c != 13 && c != 10

/-! ### recogniser -/

inductive St where
  | recStart     -- at the start of a record (start of input or just after a line break)
  | fieldStart   -- just after a separator
  | unq          -- inside a non-escaped field
  | quoted       -- inside an escaped field
  | afterQuote   -- just after a DQUOTE inside an escaped field (closing quote or first half of 2DQUOTE)
  | afterCR      -- just after a CR outside quotes: only LF may follow (CRLF)
  deriving DecidableEq, Repr

/-- prepend a code unit to the field that is being read (first field of the first record) -/
def pushChar (c : Nat) : Table → Table
  | (f :: fs) :: rs => ((c :: f) :: fs) :: rs
  | t => t

/-- the field being read is complete and another one follows in the same record -/
def newField : Table → Table
  | r :: rs => ([] :: r) :: rs
  | [] => []

/-- the field being read is the last one of its record -/
def newRecord (t : Table) : Table := [[]] :: t

/-- `go st txt`: the records of `txt` when reading starts in state `st`; the first field of the first
    record is the remainder of the field being read. -/
def go (sep : Nat) : St → List Nat → Option Table
  | .recStart, [] => some []
  | .quoted, [] => none
  | .fieldStart, [] => some [[[]]]
  | .unq, [] => some [[[]]]
  | .afterQuote, [] => some [[[]]]
  | .afterCR, [] => none
  | .afterCR, c :: r =>
    if c = 10 then (go sep .recStart r).map newRecord else none
  | .quoted, c :: r =>
    if c = 34 then go sep .afterQuote r else (go sep .quoted r).map (pushChar c)
  | .afterQuote, c :: r =>
    if c = 34 then (go sep .quoted r).map (pushChar 34)
    else if c = sep then (go sep .fieldStart r).map newField
    else if c = 10 then (go sep .recStart r).map newRecord
    else if c = 13 then go sep .afterCR r
    else none
  | .unq, c :: r =>
    if c = 34 then none
    else if c = sep then (go sep .fieldStart r).map newField
    else if c = 10 then (go sep .recStart r).map newRecord
    else if c = 13 then go sep .afterCR r
    else (go sep .unq r).map (pushChar c)
  | .fieldStart, c :: r =>
    if c = 34 then go sep .quoted r
    else if c = sep then (go sep .fieldStart r).map newField
    else if c = 10 then (go sep .recStart r).map newRecord
    else if c = 13 then go sep .afterCR r
    else (go sep .unq r).map (pushChar c)
  | .recStart, c :: r =>
    if c = 34 then go sep .quoted r
    else if c = sep then (go sep .fieldStart r).map newField
    else if c = 10 then (go sep .recStart r).map newRecord
    else if c = 13 then go sep .afterCR r
    else (go sep .unq r).map (pushChar c)

/-- RFC 4180 reading of a text: `none` = not conformant, `some records` otherwise (every record has
    at least one field; whether all records have the same number of fields is checked separately). -/
def parse (sep : Nat) (txt : List Nat) : Option Table := go sep .recStart txt

/-- RFC 4180 §2.4: "Each line should contain the same number of fields throughout the file." -/
def uniform : Table → Bool
  | [] => true
  | h :: rows => rows.all (fun r => r.length == h.length)

/-! ### renderings -/

/-- 2DQUOTE escaping of the content of an escaped field -/
def escape : Field → List Nat
  | [] => []
  | c :: r => if c = 34 then 34 :: 34 :: escape r else c :: escape r

/-- `FieldR sep f s`: `s` is a rendering of field `f` -/
inductive FieldR (sep : Nat) : Field → List Nat → Prop
  | plain (f : Field) : f.all (isText sep) = true → FieldR sep f f
  | quoted (f : Field) : FieldR sep f (34 :: (escape f ++ [34]))

inductive EolR : List Nat → Prop
  | crlf : EolR [13, 10]
  | lf : EolR [10]

inductive RecordR (sep : Nat) : Record → List Nat → Prop
  | one {f : Field} {s : List Nat} : FieldR sep f s → RecordR sep [f] s
  | cons {f : Field} {s : List Nat} {fs : Record} {t : List Nat} :
      FieldR sep f s → fs ≠ [] → RecordR sep fs t → RecordR sep (f :: fs) (s ++ sep :: t)

/-- `Renders sep table txt`: `txt` is an RFC-4180-conformant rendering of `table`. The final line
    break may be left out unless the last record renders as the empty string. -/
inductive Renders (sep : Nat) : Table → List Nat → Prop
  | nil : Renders sep [] []
  | last {r : Record} {s : List Nat} : RecordR sep r s → s ≠ [] → Renders sep [r] s
  | cons {r : Record} {s e : List Nat} {rs : Table} {t : List Nat} :
      RecordR sep r s → EolR e → Renders sep rs t → Renders sep (r :: rs) (s ++ (e ++ t))

/-- canonical rendering: quote exactly the fields that need it, CRLF after every record -/
def renderField (sep : Nat) (f : Field) : List Nat :=
  if f.all (isText sep) then f else 34 :: (escape f ++ [34])

def renderRecord (sep : Nat) : Record → List Nat
  | [] => []
  | [f] => renderField sep f
  | f :: fs => renderField sep f ++ sep :: renderRecord sep fs

def render (sep : Nat) : Table → List Nat
  | [] => []
  | r :: rs => renderRecord sep r ++ ([13, 10] ++ render sep rs)

end BSVerif.Csv.Spec
