/-
  Completeness of the rendering relation: every text the strict RFC 4180 recogniser accepts IS a
  rendering (`Renders`) of the table it is read as. Together with `parse_of_renders` this shows that
  `Renders sep t txt ↔ parse sep txt = some t` (for tables whose records are non-empty), so the theorems
  stated over `Renders` cover exactly the conformant texts.
-/
import BSVerif.Csv.SpecLemmas

namespace BSVerif.Csv.Spec

variable {sep : Nat}

/-- what may follow a complete record: the end of the text, or a line break and the remaining table -/
def After (sep : Nat) (rs : Table) (k : List Nat) : Prop :=
  (k = [] ∧ rs = []) ∨ (∃ e t, EolR e ∧ k = e ++ t ∧ Renders sep rs t)

/-- what may follow a complete field: the end of the record, or a separator and the remaining fields -/
def RestRec (sep : Nat) (fs : Record) (rs : Table) (k : List Nat) : Prop :=
  (fs = [] ∧ After sep rs k) ∨ (∃ s k', k = sep :: (s ++ k') ∧ RecordR sep fs s ∧ After sep rs k')

theorem recordR_ne_nil {r : Record} {s : List Nat} (h : RecordR sep r s) : r ≠ [] := by
  cases h <;> simp

/-- a rendered field followed by the rest of its record is a rendered record -/
theorem mkRecord {f : Field} {sf : List Nat} (hf : FieldR sep f sf) {fs : Record} {rs : Table} {k : List Nat}
    (h : RestRec sep fs rs k) : ∃ s k', sf ++ k = s ++ k' ∧ RecordR sep (f :: fs) s ∧ After sep rs k' := by
  rcases h with ⟨rfl, ha⟩ | ⟨s, k', rfl, hr, ha⟩
  · exact ⟨sf, k, rfl, RecordR.one hf, ha⟩
  · exact ⟨sf ++ sep :: s, k', by simp, RecordR.cons hf (recordR_ne_nil hr) hr, ha⟩

/-- a rendered record followed by `After` is a rendered table, provided the text is not empty -/
theorem mkTable {r : Record} {s : List Nat} (hr : RecordR sep r s) {rs : Table} {k : List Nat} (ha : After sep rs k)
    (hne : s ++ k ≠ []) : Renders sep (r :: rs) (s ++ k) := by
  rcases ha with ⟨rfl, rfl⟩ | ⟨e, t, he, rfl, ht⟩
  · rw [List.append_nil] at hne ⊢; exact Renders.last hr hne
  · exact Renders.cons hr he ht

/-- meaning of `go st l = some T` per state -/
def G (sep : Nat) : St → List Nat → Table → Prop
  | .recStart, l, T => Renders sep T l
  | .fieldStart, l, T => ∃ r rs s k, T = r :: rs ∧ l = s ++ k ∧ RecordR sep r s ∧ After sep rs k
  | .unq, l, T => ∃ f fs rs k, T = (f :: fs) :: rs ∧ l = f ++ k ∧ f.all (isText sep) = true ∧ RestRec sep fs rs k
  | .quoted, l, T => ∃ f fs rs k, T = (f :: fs) :: rs ∧ l = escape f ++ 34 :: k ∧ RestRec sep fs rs k
  | .afterQuote, l, T => ∃ f fs rs k, T = (f :: fs) :: rs ∧ RestRec sep fs rs k ∧
      ((f = [] ∧ l = k) ∨ ∃ f', f = 34 :: f' ∧ l = 34 :: (escape f' ++ 34 :: k))
  | .afterCR, l, T => ∃ t rs, l = 10 :: t ∧ T = [[]] :: rs ∧ Renders sep rs t

theorem G_unq_to_fieldStart {l : List Nat} {T : Table} (h : G sep .unq l T) : G sep .fieldStart l T := by
  obtain ⟨f, fs, rs, k, rfl, rfl, hf, hr⟩ := h
  obtain ⟨s, k', h1, h2, h3⟩ := mkRecord (FieldR.plain f hf) hr
  exact ⟨f :: fs, rs, s, k', rfl, h1, h2, h3⟩

theorem escape_cons_ne {c : Nat} (hc : c ≠ 34) (f : Field) : escape (c :: f) = c :: escape f := by simp [escape, hc]
theorem escape_cons_quote (f : Field) : escape (34 :: f) = 34 :: 34 :: escape f := by simp [escape]

/-- **completeness**: what the recogniser accepts from a state is what `G` says -/
theorem go_sound (hs : SepOk sep) : ∀ (l : List Nat) (st : St) (T : Table), go sep st l = some T → G sep st l T := by
  obtain ⟨s34, s13, s10⟩ := hs
  intro l
  induction l with
  | nil =>
    intro st T h
    cases st with
    | recStart => simp [go] at h; subst h; exact Renders.nil
    | fieldStart =>
      simp [go] at h; subst h
      exact ⟨[[]], [], [], [], rfl, rfl, RecordR.one (FieldR.plain [] rfl), Or.inl ⟨rfl, rfl⟩⟩
    | unq =>
      simp [go] at h; subst h
      exact ⟨[], [], [], [], rfl, rfl, rfl, Or.inl ⟨rfl, Or.inl ⟨rfl, rfl⟩⟩⟩
    | quoted => simp [go] at h
    | afterQuote =>
      simp [go] at h; subst h
      exact ⟨[], [], [], [], rfl, Or.inl ⟨rfl, Or.inl ⟨rfl, rfl⟩⟩, Or.inl ⟨rfl, rfl⟩⟩
    | afterCR => simp [go] at h
  | cons c r ih =>
    -- what a field terminator at the head of the text means (shared by unq / fieldStart / afterQuote)
    have term : ∀ (T : Table),
        ((c = sep ∧ ∃ T', go sep .fieldStart r = some T' ∧ T = newField T') ∨
         (c = 10 ∧ ∃ T', go sep .recStart r = some T' ∧ T = newRecord T') ∨
         (c = 13 ∧ go sep .afterCR r = some T)) →
        ∃ fs rs, T = ([] :: fs) :: rs ∧ RestRec sep fs rs (c :: r) := by
      intro T h
      rcases h with ⟨rfl, T', h1, rfl⟩ | ⟨rfl, T', h1, rfl⟩ | ⟨rfl, h1⟩
      · obtain ⟨r', rs, s, k, rfl, rfl, hr, ha⟩ := ih .fieldStart T' h1
        exact ⟨r', rs, rfl, Or.inr ⟨s, k, rfl, hr, ha⟩⟩
      · have := ih .recStart T' h1
        exact ⟨[], T', rfl, Or.inl ⟨rfl, Or.inr ⟨[10], r, EolR.lf, rfl, this⟩⟩⟩
      · obtain ⟨t, rs, rfl, rfl, hr⟩ := ih .afterCR T h1
        exact ⟨[], rs, rfl, Or.inl ⟨rfl, Or.inr ⟨[13, 10], t, EolR.crlf, rfl, hr⟩⟩⟩
    -- the behaviour shared by `unq` and the start states on a character that is not a quote
    have unqLike : ∀ (T : Table), c ≠ 34 →
        (if c = sep then (go sep .fieldStart r).map newField
         else if c = 10 then (go sep .recStart r).map newRecord
         else if c = 13 then go sep .afterCR r
         else (go sep .unq r).map (pushChar c)) = some T → G sep .unq (c :: r) T := by
      intro T hc h
      by_cases h1 : c = sep
      · rw [if_pos h1] at h
        obtain ⟨T', hT', rfl⟩ := Option.map_eq_some_iff.mp h
        obtain ⟨fs, rs, e1, e2⟩ := term _ (Or.inl ⟨h1, T', hT', rfl⟩)
        exact ⟨[], fs, rs, c :: r, e1, rfl, rfl, e2⟩
      · rw [if_neg h1] at h
        by_cases h2 : c = 10
        · rw [if_pos h2] at h
          obtain ⟨T', hT', rfl⟩ := Option.map_eq_some_iff.mp h
          obtain ⟨fs, rs, e1, e2⟩ := term _ (Or.inr (Or.inl ⟨h2, T', hT', rfl⟩))
          exact ⟨[], fs, rs, c :: r, e1, rfl, rfl, e2⟩
        · rw [if_neg h2] at h
          by_cases h3 : c = 13
          · rw [if_pos h3] at h
            obtain ⟨fs, rs, e1, e2⟩ := term T (Or.inr (Or.inr ⟨h3, h⟩))
            exact ⟨[], fs, rs, c :: r, e1, rfl, rfl, e2⟩
          · rw [if_neg h3] at h
            obtain ⟨T', hT', rfl⟩ := Option.map_eq_some_iff.mp h
            obtain ⟨f, fs, rs, k, rfl, rfl, hf, hr⟩ := ih .unq T' hT'
            refine ⟨c :: f, fs, rs, k, rfl, rfl, ?_, hr⟩
            simp only [List.all_cons, hf, Bool.and_true]
            exact isText_iff.mpr ⟨hc, h1, h3, h2⟩
    intro st T h
    cases st with
    | quoted =>
      by_cases hc : c = 34
      · subst hc
        have h' : go sep .afterQuote r = some T := by simpa [go] using h
        obtain ⟨f, fs, rs, k, rfl, hr, hcase⟩ := ih .afterQuote T h'
        rcases hcase with ⟨rfl, rfl⟩ | ⟨f', rfl, rfl⟩
        · exact ⟨[], fs, rs, r, rfl, rfl, hr⟩
        · exact ⟨34 :: f', fs, rs, k, rfl, by rw [escape_cons_quote]; rfl, hr⟩
      · have h' : (go sep .quoted r).map (pushChar c) = some T := by simpa [go, hc] using h
        obtain ⟨T', hT', rfl⟩ := Option.map_eq_some_iff.mp h'
        obtain ⟨f, fs, rs, k, rfl, rfl, hr⟩ := ih .quoted T' hT'
        exact ⟨c :: f, fs, rs, k, rfl, by rw [escape_cons_ne hc]; rfl, hr⟩
    | afterQuote =>
      by_cases hc : c = 34
      · subst hc
        have h' : (go sep .quoted r).map (pushChar 34) = some T := by simpa [go] using h
        obtain ⟨T', hT', rfl⟩ := Option.map_eq_some_iff.mp h'
        obtain ⟨f, fs, rs, k, rfl, rfl, hr⟩ := ih .quoted T' hT'
        exact ⟨34 :: f, fs, rs, k, rfl, hr, Or.inr ⟨f, rfl, rfl⟩⟩
      · have h' : (if c = sep then (go sep .fieldStart r).map newField
            else if c = 10 then (go sep .recStart r).map newRecord
            else if c = 13 then go sep .afterCR r else none) = some T := by simpa [go, hc] using h
        by_cases h1 : c = sep
        · rw [if_pos h1] at h'
          obtain ⟨T', hT', rfl⟩ := Option.map_eq_some_iff.mp h'
          obtain ⟨fs, rs, e1, e2⟩ := term _ (Or.inl ⟨h1, T', hT', rfl⟩)
          exact ⟨[], fs, rs, c :: r, e1, e2, Or.inl ⟨rfl, rfl⟩⟩
        · rw [if_neg h1] at h'
          by_cases h2 : c = 10
          · rw [if_pos h2] at h'
            obtain ⟨T', hT', rfl⟩ := Option.map_eq_some_iff.mp h'
            obtain ⟨fs, rs, e1, e2⟩ := term _ (Or.inr (Or.inl ⟨h2, T', hT', rfl⟩))
            exact ⟨[], fs, rs, c :: r, e1, e2, Or.inl ⟨rfl, rfl⟩⟩
          · rw [if_neg h2] at h'
            by_cases h3 : c = 13
            · rw [if_pos h3] at h'
              obtain ⟨fs, rs, e1, e2⟩ := term T (Or.inr (Or.inr ⟨h3, h'⟩))
              exact ⟨[], fs, rs, c :: r, e1, e2, Or.inl ⟨rfl, rfl⟩⟩
            · rw [if_neg h3] at h'; cases h'
    | afterCR =>
      by_cases hc : c = 10
      · subst hc
        have h' : (go sep .recStart r).map newRecord = some T := by simpa [go] using h
        obtain ⟨T', hT', rfl⟩ := Option.map_eq_some_iff.mp h'
        exact ⟨r, T', rfl, rfl, ih .recStart T' hT'⟩
      · simp [go, hc] at h
    | unq =>
      by_cases hc : c = 34
      · simp [go, hc] at h
      · exact unqLike T hc (by simpa [go, hc] using h)
    | fieldStart =>
      by_cases hc : c = 34
      · subst hc
        have h' : go sep .quoted r = some T := by simpa [go] using h
        obtain ⟨f, fs, rs, k, rfl, rfl, hr⟩ := ih .quoted T h'
        obtain ⟨s, k', e1, e2, e3⟩ := mkRecord (FieldR.quoted f) hr
        refine ⟨f :: fs, rs, s, k', rfl, ?_, e2, e3⟩
        rw [← e1]; simp
      · exact G_unq_to_fieldStart (unqLike T hc (by simpa [go, hc] using h))
    | recStart =>
      have hfs : G sep .fieldStart (c :: r) T := by
        by_cases hc : c = 34
        · subst hc
          have h' : go sep .quoted r = some T := by simpa [go] using h
          obtain ⟨f, fs, rs, k, rfl, rfl, hr⟩ := ih .quoted T h'
          obtain ⟨s, k', e1, e2, e3⟩ := mkRecord (FieldR.quoted f) hr
          refine ⟨f :: fs, rs, s, k', rfl, ?_, e2, e3⟩
          rw [← e1]; simp
        · exact G_unq_to_fieldStart (unqLike T hc (by simpa [go, hc] using h))
      obtain ⟨r', rs, s, k, rfl, e1, hr, ha⟩ := hfs
      show Renders sep (r' :: rs) (c :: r)
      rw [e1]
      exact mkTable hr ha (by rw [← e1]; simp)

/-- **completeness of `Renders`**: every text the strict recogniser accepts is a rendering of its reading -/
theorem renders_of_parse (hs : SepOk sep) {txt : List Nat} {t : Table} (h : parse sep txt = some t) : Renders sep t txt :=
  go_sound hs txt .recStart t h

/-- the rendering relation and the recogniser describe the same pairs (table, text) -/
theorem renders_iff_parse (hs : SepOk sep) (t : Table) (txt : List Nat) : Renders sep t txt ↔ parse sep txt = some t :=
  ⟨parse_of_renders hs, renders_of_parse hs⟩

end BSVerif.Csv.Spec
