/-
  Basic facts about the abstract line scanner shared by the refinement proofs of both readers.
-/
import BSVerif.Csv.Abstract
import BSVerif.Csv.Spec

namespace BSVerif.Csv.Abs
open BSVerif.Csv BSVerif.Csv.Reader

/-- what the metas denote in a buffer -/
def view (src : List Nat) (metas : List Meta) : List RawCell := metas.map fun m => ⟨slice src m.off m.size, m.esc⟩

/-- the cell being scanned already has the characters `cur` -/
def prependCur (cur : List Nat) (e : Bool) : List RawCell → List RawCell
  | c :: cs => ⟨cur ++ c.text, e || c.esc⟩ :: cs
  | [] => []

theorem slice_mid (pre cur rest : List Nat) : slice (pre ++ cur ++ rest) pre.length cur.length = cur := by
  simp [slice, List.append_assoc]

theorem prependCur_push (cur : List Nat) (c : Nat) (hc : c ≠ 34) (e : Bool) (x : List RawCell × List Nat) :
    prependCur (cur ++ [c]) e x.1 = prependCur cur e (pushRaw c x).1 := by
  obtain ⟨cells, rest⟩ := x
  cases cells with
  | nil => rfl
  | cons a as =>
    have : (c == 34) = false := by simp [hc]
    simp [prependCur, pushRaw, this]

theorem prependCur_push_quote (cur : List Nat) (e : Bool) (x : List RawCell × List Nat) :
    prependCur (cur ++ [34]) true x.1 = prependCur cur e (pushRaw 34 x).1 := by
  obtain ⟨cells, rest⟩ := x
  cases cells with
  | nil => rfl
  | cons a as => simp [prependCur, pushRaw]

theorem prependCur_newCell (cur : List Nat) (e : Bool) (x : List RawCell × List Nat) :
    prependCur cur e (newCell x).1 = ⟨cur, e⟩ :: x.1 := by
  obtain ⟨cells, rest⟩ := x
  simp [prependCur, newCell, emptyCell]

theorem prependCur_single (cur : List Nat) (e : Bool) : prependCur cur e [emptyCell] = [⟨cur, e⟩] := by
  simp [prependCur, emptyCell]

@[simp] theorem pushRaw_snd (c : Nat) (x : List RawCell × List Nat) : (pushRaw c x).2 = x.2 := by
  obtain ⟨cells, rest⟩ := x
  cases cells <;> rfl

@[simp] theorem newCell_snd (x : List RawCell × List Nat) : (newCell x).2 = x.2 := rfl

theorem parity_succ (dq : Nat) : decide ((dq + 1) % 2 = 1) = !decide (dq % 2 = 1) := by
  rcases Nat.mod_two_eq_zero_or_one dq with h | h <;> simp [Nat.add_mod, h]

theorem parity_even {dq : Nat} (h : dq % 2 = 0) : decide (dq % 2 = 1) = false := by simp [h]

theorem parity_false {dq : Nat} (h : decide (dq % 2 = 1) = false) : dq % 2 = 0 := by
  simp at h; omega

variable {sep : Nat}

theorem absLine_quote (r : List Nat) (q : Bool) : absLine sep (34 :: r) q = pushRaw 34 (absLine sep r (!q)) := by
  simp [absLine]

theorem absLine_sep {c : Nat} (hc : c ≠ 34) (h : c = sep) (r : List Nat) :
    absLine sep (c :: r) false = newCell (absLine sep r false) := by
  subst h
  simp [absLine, hc]

theorem absLine_crlf (h34 : sep ≠ 34) (h13 : sep ≠ 13) (r : List Nat) : absLine sep (13 :: 10 :: r) false = ([emptyCell], r) := by
  have : ¬ ((13 : Nat) = sep) := fun h => h13 h.symm
  simp [absLine, this]

theorem absLine_lf (h10 : sep ≠ 10) (r : List Nat) : absLine sep (10 :: r) false = ([emptyCell], r) := by
  have : ¬ ((10 : Nat) = sep) := fun h => h10 h.symm
  simp [absLine, this]

theorem absLine_other {c : Nat} {q : Bool} {r : List Nat} (hc : c ≠ 34) (h1 : ¬ (c = sep ∧ q = false))
    (h2 : ¬ (c = 13 ∧ q = false ∧ r.head? = some 10)) (h3 : ¬ (c = 10 ∧ q = false)) :
    absLine sep (c :: r) q = pushRaw c (absLine sep r q) := by
  simp [absLine, hc, h1, h2, h3]

theorem absLine_nil (q : Bool) : absLine sep [] q = ([emptyCell], []) := rfl

/-- a non-empty text loses at least one character per line -/
theorem absLine_rest_lt (l : List Nat) (q : Bool) (h : l ≠ []) : (absLine sep l q).2.length < l.length := by
  induction l generalizing q with
  | nil => exact absurd rfl h
  | cons c r ih =>
    have ih' : ∀ q, (absLine sep r q).2.length ≤ r.length := by
      intro q
      cases r with
      | nil => simp [absLine]
      | cons d r' => exact Nat.le_of_lt (ih q (by simp))
    simp only [absLine]
    split
    · simp; exact Nat.lt_succ_of_le (ih' _)
    · split
      · simp; exact Nat.lt_succ_of_le (ih' _)
      · split
        · simp; cases r <;> simp; omega
        · split
          · simp
          · simp; exact Nat.lt_succ_of_le (ih' _)

end BSVerif.Csv.Abs
