/-
  MODEL of `CCsvStringReader` (src/csv/csv_readers.cpp, after the fix "last empty value after a
  trailing separator"): constructor, `ParseNextLine`, `ParseNextRow`, `ReadValue(key)`,
  `ReadValue()`, `UnescapeValue` (copying), `IsEnd`, and the reading session the harness op
  `csv.read` performs (`while (!IsEnd()) { ParseNextRow(); <requests> }`, which is also how
  `CsvReadArrayScope`/`CCsvReadObjectScope` drive the reader).

  Positions (`mCurrentPos`, `CValueMeta::Offset/Size`) are `Nat` indices into the source string.
  A returned `std::string_view` is modelled by its content (the harness copies it before the next call).
-/
import BSVerif.Csv.Common

namespace BSVerif.Csv.Reader
open BSVerif.Csv

def consMeta {α : Type} (m : Meta) (r : List Meta × α) : List Meta × α := (m :: r.1, r.2)

/-- The two nested loops of `CCsvStringReader::ParseNextLine`, flattened: `l` is the source from
    `mCurrentPos = pos` on, `start = startValuePos`, `dq = doubleQuotesCount`, `cr = precedingCrPos`
    (`none` = npos). Result: the metas emplaced from here on and the final `mCurrentPos`. -/
def scanLine (sep total : Nat) : List Nat → (pos start dq : Nat) → (cr : Option Nat) → List Meta × Nat
  | [], pos, start, dq, _ =>
    -- `while (mCurrentPos < totalSize)` is over: endValuePos == totalSize, emplace, `break`
    ([⟨start, total - start, dq != 0⟩], pos)
  | sym :: r, pos, start, dq, cr =>
    if sym = 34 then scanLine sep total r (pos + 1) start (dq + 1) cr
    else if sym = sep ∧ dq % 2 = 0 then
      -- endValuePos = mCurrentPos; emplace; endValuePos != totalSize, so the outer loop goes on
      consMeta ⟨start, pos - start, dq != 0⟩ (scanLine sep total r (pos + 1) (pos + 1) 0 none)
    else if sym = 13 then scanLine sep total r (pos + 1) start dq (some pos)
    else if sym = 10 ∧ dq % 2 = 0 then
      let crp := cr.getD pos
      let endV := if crp = decWrap pos then crp else pos
      ([⟨start, endV - start, dq != 0⟩], pos + 1)
    else scanLine sep total r (pos + 1) start dq cr

/-- copy loop of `UnescapeValue` over the characters between the outer quotes -/
def unescLoop : List Nat → Nat → List Nat
  | [], _ => []
  | sym :: r, dq =>
    if sym = 34 then
      if (dq + 1) % 2 = 0 then unescLoop r (dq + 1) else 34 :: unescLoop r (dq + 1)
    else sym :: unescLoop r dq

/-- `CCsvStringReader::UnescapeValue` -/
def unescapeCopy (v : List Nat) : Except Err (List Nat) :=
  if v.isEmpty ∨ v.head? ≠ some 34 then .error .parsing
  else if v.length < 2 ∨ v.getLast? ≠ some 34 then .error .parsing
  else .ok (unescLoop ((v.drop 1).take (v.length - 2)) 0)

/-- header lookup of `ReadValue(key)`: `(mValueIndex after the call, found?)` -/
def resolveKey (headers : List (List Nat)) (valueIndex : Nat) (key : List Nat) : Nat × Bool :=
  let vi := valueIndex + 1
  if vi ≥ headers.length ∨ headers[vi]? ≠ some key then
    let i := headers.idxOf key          -- std::find
    if i ≥ headers.length then (vi, false) else (i, true)
  else (vi, true)

/-- value of the cell described by `m` in the source string -/
def cellValueOf (src : List Nat) (m : Meta) : Except Err (List Nat) :=
  if m.esc then unescapeCopy (slice src m.off m.size) else .ok (slice src m.off m.size)

structure MemReader where
  src : List Nat
  withHeader : Bool
  sep : Nat
  headers : List (List Nat) := []
  metas : List Meta := []
  curPos : Nat := 0
  lineNumber : Nat := 0
  rowIndex : Nat := 0
  valueIndex : Nat := 0
  prevValuesCount : Nat := 0
  deriving Repr, DecidableEq

namespace MemReader

def isEnd (rd : MemReader) : Bool := rd.curPos ≥ rd.src.length

def parseNextLine (rd : MemReader) : Bool × MemReader :=
  if rd.curPos ≥ rd.src.length then (false, rd)
  else
    let (metas, pos) := scanLine rd.sep rd.src.length (rd.src.drop rd.curPos) rd.curPos rd.curPos 0 none
    (!metas.isEmpty, { rd with lineNumber := rd.lineNumber + 1, prevValuesCount := rd.metas.length, metas := metas, curPos := pos })

/-- value of the cell described by `m` -/
def cellValue (rd : MemReader) (m : Meta) : Except Err (List Nat) := cellValueOf rd.src m

/-- `ReadValue(std::string_view& out_value)` -/
def readValueIdx (rd : MemReader) : Except Err (List Nat × MemReader) :=
  match rd.metas[rd.valueIndex]? with
  | some m => do
    let v ← rd.cellValue m
    pure (v, { rd with valueIndex := rd.valueIndex + 1 })
  | none => .error .serOutOfRange

/-- `ReadValue(std::string_view key, std::string_view& out_value)`; `none` = returned false -/
def readValueKey (rd : MemReader) (key : List Nat) : Except Err (Option (List Nat) × MemReader) :=
  if !rd.withHeader then .ok (none, rd)
  else
    let (vi, found) := resolveKey rd.headers rd.valueIndex key
    let rd := { rd with valueIndex := vi }
    if !found then .ok (none, rd)
    else match rd.metas[vi]? with
      | none => .error .stdOutOfRange          -- mRowValuesMeta.at()
      | some m => do
        let v ← rd.cellValue m
        pure (some v, rd)

def parseNextRow (rd : MemReader) : Except Err (Bool × MemReader) :=
  let (more, rd) := rd.parseNextLine
  if more then
    if rd.withHeader ∧ rd.headers.length ≠ rd.metas.length then .error .parsing
    else if ¬ rd.withHeader ∧ rd.lineNumber ≥ 2 ∧ rd.prevValuesCount ≠ rd.metas.length then .error .parsing
    else
      let firstDataRow := rd.lineNumber = (if rd.withHeader then 2 else 1)
      .ok (true, { rd with valueIndex := 0, rowIndex := if firstDataRow then rd.rowIndex else rd.rowIndex + 1 })
  else .ok (false, rd)

/-- the constructor's header loop: `for (auto& header : mHeaders) { ReadValue(val); header = val; }` -/
def readHeaders (rd : MemReader) : Nat → Except Err (List (List Nat) × MemReader)
  | 0 => .ok ([], rd)
  | n + 1 => do
    let (v, rd) ← rd.readValueIdx
    let (vs, rd) ← readHeaders rd n
    pure (v :: vs, rd)

/-- `CCsvStringReader::CCsvStringReader` -/
def create (src : List Nat) (withHeader : Bool) (sep : Nat) : Except Err MemReader :=
  let rd : MemReader := { src := src, withHeader := withHeader, sep := sep }
  if withHeader then
    let (more, rd) := rd.parseNextLine
    if more then do
      let (hs, rd) ← rd.readHeaders rd.metas.length
      pure { rd with headers := hs }
    else .error .parsing
  else .ok rd

end MemReader

/-! ### reading sessions (shared with the stream reader) -/

/-- a request of the session script: `key n` = `ReadValue(key)` with the n-th header as key (the
    absent key `01` when there is no such header), `idx` = `ReadValue()` -/
inductive Req where
  | key (n : Nat)
  | idx
  | lit (key : List Nat)     -- `ReadValue(key)` with a literal key (what `CCsvReadObjectScope::SerializeValue` issues)
  deriving DecidableEq, Repr

inductive Cell where
  | val (v : List Nat)
  | notFound
  deriving DecidableEq, Repr

def keyOf (headers : List (List Nat)) (n : Nat) : List Nat := headers[n]?.getD [1]

inductive Outcome where
  | ok (headers : List (List Nat)) (rows : List (List Cell)) (sawFalse : Bool) (index : Nat)
  | err (e : Err) (rowsDone : Nat)
  | errCtor (e : Err)
  deriving DecidableEq, Repr

def Outcome.addRow (row : List Cell) : Outcome → Outcome
  | .ok h rows f i => .ok h (row :: rows) f i
  | .err e n => .err e (n + 1)
  | .errCtor e => .errCtor e

namespace MemReader

def runScript (rd : MemReader) : List Req → Except Err (List Cell × MemReader)
  | [] => .ok ([], rd)
  | .idx :: qs => do
    let (v, rd) ← rd.readValueIdx
    let (cs, rd) ← runScript rd qs
    pure (.val v :: cs, rd)
  | .key n :: qs => do
    let (v, rd) ← rd.readValueKey (keyOf rd.headers n)
    let (cs, rd) ← runScript rd qs
    pure ((match v with | some v => .val v | none => .notFound) :: cs, rd)
  | .lit k :: qs => do
    let (v, rd) ← rd.readValueKey k
    let (cs, rd) ← runScript rd qs
    pure ((match v with | some v => .val v | none => .notFound) :: cs, rd)

/-- `while (!IsEnd()) { if (!ParseNextRow()) break; script }` -/
def loop (script : List Req) : Nat → MemReader → Outcome
  | 0, rd => .ok rd.headers [] false rd.rowIndex
  | fuel + 1, rd =>
    if rd.isEnd then .ok rd.headers [] false rd.rowIndex
    else match rd.parseNextRow with
      | .error e => .err e 0
      | .ok (false, rd) => .ok rd.headers [] true rd.rowIndex
      | .ok (true, rd) =>
        match rd.runScript script with
        | .error e => .err e 0
        | .ok (cells, rd) => (loop script fuel rd).addRow cells

end MemReader

/-- the whole `csv.read mem` op -/
def memSession (sep : Nat) (withHeader : Bool) (script : List Req) (txt : List Nat) : Outcome :=
  match MemReader.create txt withHeader sep with
  | .error e => .errCtor e
  | .ok rd => rd.loop script (txt.length + 1)

end BSVerif.Csv.Reader
