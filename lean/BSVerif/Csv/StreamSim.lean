/-
  In-place unescaping (`CCsvStreamReader::UnescapeValue`) agrees with the copying version and only
  touches the cell it decodes; simulation of the abstract reader by the stream-reader model.
-/
import BSVerif.Csv.StreamLemmas
import BSVerif.Csv.ReaderLemmas

namespace BSVerif.Csv.Stream
open BSVerif.Csv BSVerif.Csv.Abs BSVerif.Csv.Reader BSVerif.Csv.Spec

/-! ### slices -/

theorem slice_getElem? (buf : List Nat) (o s k : Nat) : (slice buf o s)[k]? = if k < s then buf[o + k]? else none := by
  unfold slice
  rw [List.getElem?_take]
  split
  · rw [List.getElem?_drop]
  · rfl

theorem slice_congr {a b : List Nat} {o s : Nat} (h : ∀ i, o ≤ i → i < o + s → a[i]? = b[i]?) : slice a o s = slice b o s := by
  apply List.ext_getElem?
  intro k
  rw [slice_getElem?, slice_getElem?]
  split
  · exact h (o + k) (by omega) (by omega)
  · rfl

theorem slice_length {buf : List Nat} {o s : Nat} (h : o + s ≤ buf.length) : (slice buf o s).length = s := by
  simp [slice]; omega

theorem slice_append_left {buf app : List Nat} {o s : Nat} (h : o + s ≤ buf.length) : slice (buf ++ app) o s = slice buf o s := by
  apply slice_congr
  intro i _ hi
  rw [List.getElem?_append_left (by omega)]

theorem unescLoop_length_le (l : List Nat) (dq : Nat) : (unescLoop l dq).length ≤ l.length := by
  induction l generalizing dq with
  | nil => simp [unescLoop]
  | cons c r ih =>
    simp only [unescLoop]
    split
    · split
      · have := ih (dq + 1); simp; omega
      · have := ih (dq + 1); simp; omega
    · have := ih dq; simp; omega

/-- the buffer after writing `v` at `off` -/
def patch (buf : List Nat) (off : Nat) (v : List Nat) : List Nat := buf.take off ++ v ++ buf.drop (off + v.length)

theorem patch_length {buf : List Nat} {off : Nat} {v : List Nat} (h : off + v.length ≤ buf.length) :
    (patch buf off v).length = buf.length := by
  simp [patch]; omega

theorem patch_getElem?_out {buf : List Nat} {off : Nat} {v : List Nat} (h : off + v.length ≤ buf.length) {i : Nat}
    (hi : i < off ∨ off + v.length ≤ i) : (patch buf off v)[i]? = buf[i]? := by
  unfold patch
  have hto : (buf.take off).length = off := by simp; omega
  rcases hi with hi | hi
  · rw [List.append_assoc, List.getElem?_append_left (by omega), List.getElem?_take_of_lt hi]
  · rw [List.getElem?_append_right (by simp; omega)]
    simp only [List.length_append, hto, List.getElem?_drop]
    congr 1; omega

theorem patch_getElem?_in {buf : List Nat} {off : Nat} {v : List Nat} (h : off + v.length ≤ buf.length) {k : Nat}
    (hk : k < v.length) : (patch buf off v)[off + k]? = v[k]? := by
  unfold patch
  have hto : (buf.take off).length = off := by simp; omega
  rw [List.getElem?_append_left (by simp; omega), List.getElem?_append_right (by omega)]
  simp [hto]

theorem slice_patch_self {buf : List Nat} {off : Nat} {v : List Nat} (h : off + v.length ≤ buf.length) :
    slice (patch buf off v) off v.length = v := by
  apply List.ext_getElem?
  intro k
  rw [slice_getElem?]
  split
  · exact patch_getElem?_in h ‹_›
  · rw [List.getElem?_eq_none (by omega)]

theorem slice_patch_other {buf : List Nat} {off : Nat} {v : List Nat} (h : off + v.length ≤ buf.length) {o s : Nat}
    (hd : o + s ≤ off ∨ off + v.length ≤ o) : slice (patch buf off v) o s = slice buf o s := by
  apply slice_congr
  intro i h1 h2
  exact patch_getElem?_out h (by omega)

theorem drop_patch {buf : List Nat} {off : Nat} {v : List Nat} (h : off + v.length ≤ buf.length) {n : Nat} (hn : off + v.length ≤ n) :
    (patch buf off v).drop n = buf.drop n := by
  apply List.ext_getElem?
  intro k
  rw [List.getElem?_drop, List.getElem?_drop]
  exact patch_getElem?_out h (by omega)

/-! ### in-place unescaping agrees with the copying one -/

theorem unescapeInPlace_spec (buf : List Nat) (off size : Nat) (h : off + size ≤ buf.length) :
    (unescapeInPlace buf off size = .error .parsing ∧ unescapeCopy (slice buf off size) = .error .parsing) ∨
    (∃ v, unescapeInPlace buf off size = .ok (v, patch buf off v) ∧ unescapeCopy (slice buf off size) = .ok v ∧ v.length + 2 ≤ size) := by
  have hlen := slice_length h
  unfold unescapeInPlace unescapeCopy
  by_cases hs : size < 2
  · left
    constructor
    · by_cases h1 : buf.getD off 0 ≠ 34
      · rw [if_pos h1]
      · rw [if_neg h1, if_pos (Or.inl hs)]
    · by_cases h1 : (slice buf off size).isEmpty = true ∨ (slice buf off size).head? ≠ some 34
      · rw [if_pos h1]
      · rw [if_neg h1, if_pos (Or.inl (by omega))]
  · have hs2 : 2 ≤ size := by omega
    have hhead : (slice buf off size).head? = some (buf.getD off 0) := by
      rw [List.head?_eq_getElem?, slice_getElem?, if_pos (by omega), Nat.add_zero]
      rw [List.getD_eq_getElem?_getD, List.getElem?_eq_getElem (by omega)]; rfl
    have hlast : (slice buf off size).getLast? = some (buf.getD (off + size - 1) 0) := by
      rw [List.getLast?_eq_getElem?, hlen, slice_getElem?, if_pos (by omega)]
      rw [show off + (size - 1) = off + size - 1 by omega]
      rw [List.getD_eq_getElem?_getD, List.getElem?_eq_getElem (by omega)]; rfl
    have hne : ¬ (slice buf off size).isEmpty = true := by
      rw [List.isEmpty_iff]; intro h0; rw [h0] at hlen; simp at hlen; omega
    by_cases h1 : buf.getD off 0 = 34
    · by_cases h2 : buf.getD (off + size - 1) 0 = 34
      · right
        have e1 : ¬ (buf.getD off 0 ≠ 34) := fun hc => hc h1
        have e2 : ¬ (size < 2 ∨ buf.getD (off + size - 1) 0 ≠ 34) := fun hc => hc.elim (fun h' => by omega) (fun hc => hc h2)
        have e3 : ¬ ((slice buf off size).isEmpty = true ∨ (slice buf off size).head? ≠ some 34) :=
          fun hc => hc.elim hne (fun hc => hc (by rw [hhead, h1]))
        have e4 : ¬ ((slice buf off size).length < 2 ∨ (slice buf off size).getLast? ≠ some 34) :=
          fun hc => hc.elim (fun h' => by omega) (fun hc => hc (by rw [hlast, h2]))
        rw [if_neg e1, if_neg e2, if_neg e3, if_neg e4]
        have hinner : ((slice buf off size).drop 1).take ((slice buf off size).length - 2) = slice buf (off + 1) (size - 2) := by
          rw [hlen]
          apply List.ext_getElem?
          intro k
          rw [List.getElem?_take, slice_getElem?]
          split
          · rw [List.getElem?_drop, slice_getElem?, if_pos (by omega)]
            congr 1; omega
          · rfl
        rw [hinner]
        refine ⟨_, rfl, rfl, ?_⟩
        have := unescLoop_length_le (slice buf (off + 1) (size - 2)) 0
        have h3 : (slice buf (off + 1) (size - 2)).length = size - 2 := slice_length (by omega)
        omega
      · left
        constructor
        · rw [if_neg (fun hc => hc h1), if_pos (Or.inr h2)]
        · have e3 : ¬ ((slice buf off size).isEmpty = true ∨ (slice buf off size).head? ≠ some 34) :=
            fun hc => hc.elim hne (fun hc => hc (by rw [hhead, h1]))
          rw [if_neg e3, if_pos (Or.inr (by rw [hlast]; intro hc; injection hc with hc; exact h2 hc))]
    · left
      constructor
      · rw [if_pos h1]
      · rw [if_pos (Or.inr (by rw [hhead]; intro hc; injection hc with hc; exact h1 hc))]


/-! ### simulation -/

/-- the stream reader `s` represents the abstract reader `a` -/
structure SimS (s : StreamReader) (a : AbsReader) : Prop where
  rem : a.rem = s.buf.drop s.curPos ++ s.enc.logical
  pos : s.curPos ≤ s.buf.length
  enc : EncOk s.enc
  lzy : s.curPos ≥ s.buf.length → s.enc.logical = [] → s.enc.isEnd = true
  vals : s.metas.map (cellValueOf s.buf) = a.cells.map cellValue
  bounds : ∀ m ∈ s.metas, m.off + m.size ≤ s.curPos
  disj : s.metas.Pairwise (fun x y => x.off + x.size < y.off)
  wh : s.withHeader = a.withHeader
  sep : s.sep = a.sep
  hdr : s.headers = a.headers
  ln : s.lineNumber = a.lineNumber
  ri : s.rowIndex = a.rowIndex
  vi : s.valueIndex = a.valueIndex
  pv : s.prevValuesCount = a.prevValuesCount

theorem SimS.len {s : StreamReader} {a : AbsReader} (h : SimS s a) : s.metas.length = a.cells.length := by
  have := congrArg List.length h.vals; simpa using this

theorem sim_isEnd {s : StreamReader} {a : AbsReader} (h : SimS s a) : s.isEnd = a.isEnd := by
  unfold StreamReader.isEnd AbsReader.isEnd
  rw [Bool.eq_iff_iff]
  simp only [Bool.and_eq_true, decide_eq_true_eq, List.isEmpty_iff, h.rem, List.append_eq_nil_iff, List.drop_eq_nil_iff]
  constructor
  · rintro ⟨h1, h2⟩; exact ⟨h1, isEnd_logical h.enc h2⟩
  · rintro ⟨h1, h2⟩; exact ⟨h1, h.lzy h1 h2⟩

theorem cellValueOf_view (buf : List Nat) (m : Meta) : cellValueOf buf m = cellValue ⟨slice buf m.off m.size, m.esc⟩ := rfl

theorem cellValueOf_congr {a b : List Nat} {m : Meta} (h : slice a m.off m.size = slice b m.off m.size) :
    cellValueOf a m = cellValueOf b m := by
  unfold cellValueOf; rw [h]

/-- `ParseNextLine` when not at the end, with the tuple destructuring spelled out -/
theorem parseNextLine_eq (s : StreamReader) (h : s.isEnd = false) :
    s.parseNextLine =
      (!(scanLineS s.sep s.enc (s.buf.drop s.curPos) 0 0 0 none).1.isEmpty,
       { s with lineNumber := s.lineNumber + 1, prevValuesCount := s.metas.length,
                metas := (scanLineS s.sep s.enc (s.buf.drop s.curPos) 0 0 0 none).1,
                enc := if (scanLineS s.sep s.enc (s.buf.drop s.curPos) 0 0 0 none).2.2.2 = (scanLineS s.sep s.enc (s.buf.drop s.curPos) 0 0 0 none).2.2.1.length
                       then ((scanLineS s.sep s.enc (s.buf.drop s.curPos) 0 0 0 none).2.1.readChunk (scanLineS s.sep s.enc (s.buf.drop s.curPos) 0 0 0 none).2.2.1).2.1
                       else (scanLineS s.sep s.enc (s.buf.drop s.curPos) 0 0 0 none).2.1,
                buf := if (scanLineS s.sep s.enc (s.buf.drop s.curPos) 0 0 0 none).2.2.2 = (scanLineS s.sep s.enc (s.buf.drop s.curPos) 0 0 0 none).2.2.1.length
                       then ((scanLineS s.sep s.enc (s.buf.drop s.curPos) 0 0 0 none).2.1.readChunk (scanLineS s.sep s.enc (s.buf.drop s.curPos) 0 0 0 none).2.2.1).2.2
                       else (scanLineS s.sep s.enc (s.buf.drop s.curPos) 0 0 0 none).2.2.1,
                curPos := (scanLineS s.sep s.enc (s.buf.drop s.curPos) 0 0 0 none).2.2.2 }) := by
  have hb : (if s.curPos ≠ 0 then s.buf.drop s.curPos else s.buf) = s.buf.drop s.curPos := by
    by_cases h0 : s.curPos = 0
    · simp [h0]
    · simp [h0]
  unfold StreamReader.parseNextLine
  simp only [h, Bool.false_eq_true, if_false, hb]
  split <;> rfl

theorem sim_parseNextLine {s : StreamReader} {a : AbsReader} (h : SimS s a) (hs : SepOk s.sep) :
    s.parseNextLine.1 = a.parseNextLine.1 ∧ SimS s.parseNextLine.2 a.parseNextLine.2 := by
  have hend := sim_isEnd h
  by_cases he : s.isEnd = true
  · have he' : a.rem.isEmpty = true := by rw [he] at hend; exact hend.symm
    simp only [StreamReader.parseNextLine, he, if_true, AbsReader.parseNextLine, he']
    exact ⟨trivial, h⟩
  · have he1 : s.isEnd = false := Bool.eq_false_iff.mpr he
    have he' : a.rem.isEmpty = false := by rw [he1] at hend; exact hend.symm
    rw [parseNextLine_eq s he1]
    simp only [AbsReader.parseNextLine, he', Bool.false_eq_true, if_false]
    -- the scan
    have hspec := scanLineS_abs s.sep hs _ s.enc (s.buf.drop s.curPos) 0 0 0 none [] [] (s.buf.drop s.curPos) rfl h.enc
      (by simp) rfl rfl (fun p hp => by cases hp)
    have hspan := scanLineS_spans s.sep hs _ s.enc (s.buf.drop s.curPos) 0 0 0 none rfl (Nat.le_refl _) (Nat.zero_le _)
      (fun p hp => by cases hp)
    rw [← h.rem, h.sep] at hspec
    rw [h.sep] at hspan ⊢
    generalize scanLineS a.sep s.enc (s.buf.drop s.curPos) 0 0 0 none = res at hspec hspan ⊢
    obtain ⟨metas, e1, buf1, np⟩ := res
    obtain ⟨⟨app, ha1, ha2⟩, hok1, hnp, _, hn⟩ := hspec
    simp only at ha1 ha2 hok1 hnp hn hspan ⊢
    have hns : ¬ Special 0 0 none a.rem := fun hsp => by cases hsp.1
    obtain ⟨hv, _, hrest, _⟩ := hn hns
    obtain ⟨hsp1, hsp2, _, _⟩ := hspan
    simp only [Nat.zero_mod, show decide ((0:Nat) = 1) = false by rfl, show ((0:Nat) != 0) = false by rfl, prependCur_nil] at hv hrest
    generalize absLine a.sep a.rem false = al at hv hrest ⊢
    obtain ⟨cells, rest⟩ := al
    simp only at hv hrest ⊢
    have hlen : metas.length = cells.length := by rw [← hv]; simp [view]
    constructor
    · cases metas <;> cases cells <;> simp_all
    · -- the trailing ReadChunk
      have hvals1 : metas.map (cellValueOf buf1) = cells.map cellValue := by
        rw [← hv]; simp only [view, List.map_map]; rfl
      have hbnd1 : ∀ m ∈ metas, m.off + m.size ≤ np := fun m hm => (hsp1 m hm).2
      by_cases hnl : np = buf1.length
      · subst hnl
        simp only [if_true]
        cases hrc : e1.readChunk buf1 with
        | mk rr rest2 =>
          obtain ⟨e2, buf2⟩ := rest2
          cases rr with
          | success =>
            obtain ⟨c, hc1, hc2, hc3, hc4⟩ := readChunk_success' hrc hok1
            simp only
            refine { rem := ?_, pos := ?_, enc := hc4, lzy := ?_, vals := ?_, bounds := ?_, disj := hsp2,
                     wh := h.wh, sep := rfl, hdr := h.hdr, ln := by simp only [h.ln], ri := h.ri, vi := h.vi, pv := by simp only [h.len] }
            · simp only; rw [← hrest, hc2, hc3]
              simp [List.drop_append]
            · simp only; rw [hc2]; simp
            · intro hge; simp only at hge; rw [hc2] at hge
              have : 0 < c.length := List.length_pos_iff.mpr hc1
              simp at hge; omega
            · simp only; rw [← hvals1]
              apply List.map_congr_left
              intro m hm
              apply cellValueOf_congr
              rw [hc2]; exact slice_append_left (by have := hbnd1 m hm; omega)
            · intro m hm; simp only; exact hbnd1 m hm
          | endFile =>
            obtain ⟨g1, g2, g3, g4, g5⟩ := readChunk_endFile hrc hok1
            subst g1
            simp only
            refine { rem := ?_, pos := by simp, enc := g4, lzy := fun _ _ => g5, vals := hvals1, bounds := ?_, disj := hsp2,
                     wh := h.wh, sep := rfl, hdr := h.hdr, ln := by simp only [h.ln], ri := h.ri, vi := h.vi, pv := by simp only [h.len] }
            · simp only; rw [← hrest, g2, g3]
            · intro m hm; simp only; exact hbnd1 m hm
      · simp only [hnl, if_false]
        refine { rem := by simp only; exact hrest.symm, pos := hnp, enc := hok1, lzy := fun hge => by simp only at hge; omega,
                 vals := hvals1, bounds := hbnd1, disj := hsp2,
                 wh := h.wh, sep := rfl, hdr := h.hdr, ln := by simp only [h.ln], ri := h.ri, vi := h.vi, pv := by simp only [h.len] }


theorem sim_setVI {s : StreamReader} {a : AbsReader} (h : SimS s a) (x : Nat) :
    SimS { s with valueIndex := x } { a with valueIndex := x } :=
  { rem := h.rem, pos := h.pos, enc := h.enc, lzy := h.lzy, vals := h.vals, bounds := h.bounds, disj := h.disj,
    wh := h.wh, sep := h.sep, hdr := h.hdr, ln := h.ln, ri := h.ri, vi := rfl, pv := h.pv }

/-- reading the cell `i` -/
theorem sim_cellValue {s : StreamReader} {a : AbsReader} (h : SimS s a) {i : Nat} {m : Meta} {c : RawCell}
    (hm : s.metas[i]? = some m) (hc : a.cells[i]? = some c) :
    (s.cellValue i m = .error .parsing ∧ cellValue c = .error .parsing) ∨
    (∃ v s', s.cellValue i m = .ok (v, s') ∧ cellValue c = .ok v ∧ SimS s' a ∧ s'.valueIndex = s.valueIndex ∧
      s'.headers = s.headers ∧ s'.withHeader = s.withHeader ∧ s'.sep = s.sep) := by
  have hval : cellValueOf s.buf m = cellValue c := by
    have := congrArg (fun l => l[i]?) h.vals
    simp only [List.getElem?_map, hm, hc, Option.map_some] at this
    injection this
  have hi : i < s.metas.length := by
    apply Classical.byContradiction; intro hn
    rw [List.getElem?_eq_none (by omega)] at hm; cases hm
  have hmem : m ∈ s.metas := List.mem_of_getElem? hm
  have hb := h.bounds m hmem
  have hbl : m.off + m.size ≤ s.buf.length := Nat.le_trans hb h.pos
  unfold StreamReader.cellValue
  by_cases hesc : m.esc = true
  · rw [if_pos hesc]
    have hval' : unescapeCopy (slice s.buf m.off m.size) = cellValue c := by
      rw [← hval]; unfold cellValueOf; rw [if_pos hesc]
    rcases unescapeInPlace_spec s.buf m.off m.size hbl with ⟨e1, e2⟩ | ⟨v, e1, e2, e3⟩
    · left; rw [e1]; exact ⟨rfl, by rw [← hval', e2]⟩
    · right
      rw [e1]
      have hvl : m.off + v.length ≤ s.buf.length := by omega
      refine ⟨v, _, rfl, by rw [← hval', e2], ?_, rfl, rfl, rfl, rfl⟩
      have hmi : s.metas[i] = m := by
        have := List.getElem?_eq_getElem hi; rw [hm] at this; injection this with this; exact this.symm
      have hdis := List.pairwise_iff_getElem.mp h.disj
      refine { rem := ?_, pos := ?_, enc := h.enc, lzy := ?_, vals := ?_, bounds := ?_, disj := ?_,
               wh := h.wh, sep := h.sep, hdr := h.hdr, ln := h.ln, ri := h.ri, vi := h.vi, pv := h.pv }
      · simp only; rw [h.rem]; congr 1
        exact (drop_patch hvl (by omega)).symm
      · simp only; rw [patch_length hvl]; exact h.pos
      · simp only; rw [patch_length hvl]; exact h.lzy
      · simp only
        apply List.ext_getElem?
        intro j
        rw [List.getElem?_map, List.getElem?_set, ← h.vals, List.getElem?_map]
        by_cases hij : i = j
        · subst hij
          simp only [if_true, hi, hm, Option.map_some]
          congr 1
          rw [hval, ← hval', e2]
          unfold cellValueOf
          simp only [Bool.false_eq_true, if_false]
          rw [slice_patch_self hvl]
        · simp only [hij, if_false]
          cases hj : s.metas[j]? with
          | none => rfl
          | some mj =>
            simp only [Option.map_some]
            congr 1
            apply cellValueOf_congr
            have hjl : j < s.metas.length := by
              apply Classical.byContradiction; intro hn
              rw [List.getElem?_eq_none (by omega)] at hj; cases hj
            have hmj : s.metas[j] = mj := by
              have := List.getElem?_eq_getElem hjl; rw [hj] at this; injection this with this; exact this.symm
            apply slice_patch_other hvl
            rcases Nat.lt_or_gt_of_ne hij with hlt | hgt
            · have := hdis i j hi hjl hlt; rw [hmi, hmj] at this; right; omega
            · have := hdis j i hjl hi hgt; rw [hmi, hmj] at this; left; omega
      · intro m' hm'
        simp only at hm' ⊢
        rcases List.mem_or_eq_of_mem_set hm' with h1 | h1
        · exact h.bounds m' h1
        · subst h1; simp only; omega
      · simp only
        apply List.pairwise_iff_getElem.mpr
        intro i' j' hi' hj' hlt
        rw [List.length_set] at hi' hj'
        rw [List.getElem_set, List.getElem_set]
        have hbase := hdis i' j' hi' hj' hlt
        by_cases h1 : i = i'
        · subst h1
          have h2 : ¬ i = j' := by omega
          simp only [if_true, h2, if_false]
          rw [hmi] at hbase; omega
        · by_cases h2 : i = j'
          · subst h2
            simp only [h1, if_false, if_true]
            rw [hmi] at hbase; exact hbase
          · simp only [h1, h2, if_false]; exact hbase
  · rw [if_neg hesc]
    right
    refine ⟨_, s, rfl, ?_, h, rfl, rfl, rfl, rfl⟩
    rw [← hval]; unfold cellValueOf; rw [if_neg hesc]


/-- related results: the same error, or the same value and related readers -/
def RelRes {α : Type} (sep : Nat) : Except Err (α × StreamReader) → Except Err (α × AbsReader) → Prop
  | .error e, .error e' => e = e'
  | .ok (x, s), .ok (y, a) => x = y ∧ SimS s a ∧ s.sep = sep
  | _, _ => False

theorem sim_readValueIdx {s : StreamReader} {a : AbsReader} (h : SimS s a) :
    RelRes s.sep s.readValueIdx a.readValueIdx := by
  unfold StreamReader.readValueIdx AbsReader.readValueIdx
  rw [← h.vi]
  cases hm : s.metas[s.valueIndex]? with
  | none =>
    have : a.cells[s.valueIndex]? = none := by
      rw [List.getElem?_eq_none_iff] at hm ⊢; rw [← h.len]; exact hm
    simp only [this, RelRes]
  | some m =>
    have hi : s.valueIndex < a.cells.length := by
      rw [← h.len]
      apply Classical.byContradiction; intro hn
      rw [List.getElem?_eq_none (by omega)] at hm; cases hm
    have hc : a.cells[s.valueIndex]? = some (a.cells[s.valueIndex]) := List.getElem?_eq_getElem hi
    rw [hc]
    rcases sim_cellValue h hm hc with ⟨e1, e2⟩ | ⟨v, s', e1, e2, hs', hvi, _, _, hsep⟩
    · simp only [e1, e2, bind, Except.bind, RelRes]
    · simp only [e1, e2, bind, Except.bind, pure, Except.pure, RelRes]
      refine ⟨trivial, ?_, hsep⟩
      have := sim_setVI hs' (s'.valueIndex + 1)
      rw [hvi] at this ⊢
      rw [h.vi] at this ⊢
      exact this

/-- the abstract reader a stream reader stands for, given the cells of the current row -/
def StreamReader.toAbs (s : StreamReader) (cells : List RawCell) : AbsReader :=
  { rem := s.buf.drop s.curPos ++ s.enc.logical, withHeader := s.withHeader, sep := s.sep, headers := s.headers, cells := cells,
    lineNumber := s.lineNumber, rowIndex := s.rowIndex, valueIndex := s.valueIndex, prevValuesCount := s.prevValuesCount }

theorem SimS.eq_toAbs {s : StreamReader} {a : AbsReader} (h : SimS s a) : a = s.toAbs a.cells := by
  obtain ⟨rem, wh, sep, hdr, cells, ln, ri, vi, pv⟩ := a
  simp only [StreamReader.toAbs, AbsReader.mk.injEq]
  exact ⟨h.rem, h.wh.symm, h.sep.symm, h.hdr.symm, trivial, h.ln.symm, h.ri.symm, h.vi.symm, h.pv.symm⟩

theorem sim_readValueKey {s : StreamReader} {a : AbsReader} (h : SimS s a) (key : List Nat) :
    RelRes s.sep (s.readValueKey key) (a.readValueKey key) := by
  have ha := h.eq_toAbs
  generalize a.cells = cells at ha
  subst ha
  unfold StreamReader.readValueKey AbsReader.readValueKey
  simp only [StreamReader.toAbs]
  by_cases hw : s.withHeader = true
  · simp only [hw, Bool.not_true, Bool.false_eq_true, if_false]
    generalize hres : resolveKey s.headers s.valueIndex key = res
    obtain ⟨vi, found⟩ := res
    have h' := sim_setVI h vi
    simp only [StreamReader.toAbs, hw] at h'
    cases found with
    | false =>
      simp only [Bool.not_false, if_true]
      exact ⟨rfl, h', rfl⟩
    | true =>
      simp only [Bool.not_true, Bool.false_eq_true, if_false]
      cases hm : s.metas[vi]? with
      | none =>
        have : cells[vi]? = none := by
          rw [List.getElem?_eq_none_iff] at hm ⊢
          have := h.len; simp only [StreamReader.toAbs] at this; omega
        simp only [this, RelRes]
      | some m =>
        have hi : vi < cells.length := by
          have hl := h.len; simp only [StreamReader.toAbs] at hl
          rw [← hl]
          apply Classical.byContradiction; intro hn
          rw [List.getElem?_eq_none (by omega)] at hm; cases hm
        have hc : cells[vi]? = some (cells[vi]) := List.getElem?_eq_getElem hi
        rw [hc]
        rcases sim_cellValue h' hm hc with ⟨e1, e2⟩ | ⟨v, s', e1, e2, hs', _, _, _, hsep⟩
        · simp only [e1, e2, bind, Except.bind, RelRes]
        · simp only [e1, e2, bind, Except.bind, pure, Except.pure]
          exact ⟨rfl, hs', hsep⟩
  · have hw' : s.withHeader = false := Bool.eq_false_iff.mpr hw
    simp only [hw', Bool.not_false, if_true]
    simp only [StreamReader.toAbs, hw'] at h
    exact ⟨rfl, h, rfl⟩

theorem sim_parseNextRow {s : StreamReader} {a : AbsReader} (h : SimS s a) (hs : SepOk s.sep) :
    RelRes s.sep s.parseNextRow a.parseNextRow := by
  obtain ⟨h1, h2⟩ := sim_parseNextLine h hs
  have hsep : s.parseNextLine.2.sep = s.sep := by
    by_cases he : s.isEnd = true
    · simp [StreamReader.parseNextLine, he]
    · rw [parseNextLine_eq s (Bool.eq_false_iff.mpr he)]
  unfold StreamReader.parseNextRow AbsReader.parseNextRow
  generalize s.parseNextLine = r1 at h1 h2 hsep
  generalize a.parseNextLine = r2 at h1 h2
  obtain ⟨m1, s1⟩ := r1
  obtain ⟨m2, a1⟩ := r2
  simp only at h1 h2 hsep
  subst h1
  have hlen := h2.len
  have ha := h2.eq_toAbs
  generalize a1.cells = cells at ha hlen
  subst ha
  cases m1 with
  | false => simp only [Bool.false_eq_true, if_false, RelRes]; exact ⟨trivial, h2, hsep⟩
  | true =>
    simp only [if_true]
    by_cases hc1 : s1.withHeader = true ∧ s1.headers.length ≠ s1.metas.length
    · have hc1' : (s1.toAbs cells).withHeader = true ∧ (s1.toAbs cells).headers.length ≠ (s1.toAbs cells).cells.length := by
        show s1.withHeader = true ∧ s1.headers.length ≠ cells.length
        rw [← hlen]; exact hc1
      rw [if_pos hc1, if_pos hc1']; rfl
    · have hc1' : ¬ ((s1.toAbs cells).withHeader = true ∧ (s1.toAbs cells).headers.length ≠ (s1.toAbs cells).cells.length) := by
        show ¬ (s1.withHeader = true ∧ s1.headers.length ≠ cells.length)
        rw [← hlen]; exact hc1
      by_cases hc2 : ¬ s1.withHeader = true ∧ s1.lineNumber ≥ 2 ∧ s1.prevValuesCount ≠ s1.metas.length
      · have hc2' : ¬ (s1.toAbs cells).withHeader = true ∧ (s1.toAbs cells).lineNumber ≥ 2 ∧ (s1.toAbs cells).prevValuesCount ≠ (s1.toAbs cells).cells.length := by
          show ¬ s1.withHeader = true ∧ s1.lineNumber ≥ 2 ∧ s1.prevValuesCount ≠ cells.length
          rw [← hlen]; exact hc2
        rw [if_neg hc1, if_neg hc1', if_pos hc2, if_pos hc2']; rfl
      · have hc2' : ¬ (¬ (s1.toAbs cells).withHeader = true ∧ (s1.toAbs cells).lineNumber ≥ 2 ∧ (s1.toAbs cells).prevValuesCount ≠ (s1.toAbs cells).cells.length) := by
          show ¬ (¬ s1.withHeader = true ∧ s1.lineNumber ≥ 2 ∧ s1.prevValuesCount ≠ cells.length)
          rw [← hlen]; exact hc2
        rw [if_neg hc1, if_neg hc1', if_neg hc2, if_neg hc2']
        refine ⟨rfl, ?_, hsep⟩
        exact { rem := h2.rem, pos := h2.pos, enc := h2.enc, lzy := h2.lzy, vals := h2.vals, bounds := h2.bounds, disj := h2.disj,
                wh := rfl, sep := rfl, hdr := rfl, ln := rfl, ri := rfl, vi := rfl, pv := rfl }


theorem RelRes.sep_trans {α : Type} {sep sep' : Nat} (h : sep' = sep) {r1 : Except Err (α × StreamReader)} {r2 : Except Err (α × AbsReader)}
    (hr : RelRes sep' r1 r2) : RelRes sep r1 r2 := by subst h; exact hr

theorem sim_readHeaders {s : StreamReader} {a : AbsReader} (h : SimS s a) (n : Nat) :
    RelRes s.sep (s.readHeaders n) (a.readHeaders n) := by
  induction n generalizing s a with
  | zero => exact ⟨rfl, h, rfl⟩
  | succ n ih =>
    have h1 := sim_readValueIdx h
    simp only [StreamReader.readHeaders, AbsReader.readHeaders]
    cases hr1 : s.readValueIdx with
    | error e1 =>
      cases hr2 : a.readValueIdx with
      | error e2 => rw [hr1, hr2] at h1; simp only [bind, Except.bind]; exact h1
      | ok r2 => rw [hr1, hr2] at h1; exact absurd h1 id
    | ok r1 =>
      cases hr2 : a.readValueIdx with
      | error e2 => rw [hr1, hr2] at h1; obtain ⟨v, s1⟩ := r1; exact absurd h1 id
      | ok r2 =>
        rw [hr1, hr2] at h1
        obtain ⟨v1, s1⟩ := r1
        obtain ⟨v2, a1⟩ := r2
        obtain ⟨hv, hs1, hsep⟩ := h1
        subst hv
        have h2 := RelRes.sep_trans hsep (ih hs1)
        simp only [bind, Except.bind]
        cases hq1 : s1.readHeaders n with
        | error e1 =>
          cases hq2 : a1.readHeaders n with
          | error e2 => rw [hq1, hq2] at h2; exact h2
          | ok q2 => rw [hq1, hq2] at h2; exact absurd h2 id
        | ok q1 =>
          cases hq2 : a1.readHeaders n with
          | error e2 => rw [hq1, hq2] at h2; obtain ⟨_, _⟩ := q1; exact absurd h2 id
          | ok q2 =>
            rw [hq1, hq2] at h2
            obtain ⟨vs1, s2⟩ := q1
            obtain ⟨vs2, a2⟩ := q2
            obtain ⟨hvs, hs2, hsep2⟩ := h2
            subst hvs
            exact ⟨rfl, hs2, hsep2⟩

/-- one request followed by the rest of the script -/
theorem sim_step {α : Type} {sep : Nat} {r1 : Except Err (α × StreamReader)} {r2 : Except Err (α × AbsReader)} (h1 : RelRes sep r1 r2)
    (k1 : StreamReader → Except Err (List Cell × StreamReader)) (k2 : AbsReader → Except Err (List Cell × AbsReader))
    (hk : ∀ s a, SimS s a → s.sep = sep → RelRes sep (k1 s) (k2 a)) (f : α → Cell) :
    RelRes sep (r1 >>= fun (v, s) => k1 s >>= fun (cs, s') => pure (f v :: cs, s'))
               (r2 >>= fun (v, a) => k2 a >>= fun (cs, a') => pure (f v :: cs, a')) := by
  cases r1 with
  | error e1 =>
    cases r2 with
    | error e2 => exact h1
    | ok q2 => exact absurd h1 id
  | ok q1 =>
    cases r2 with
    | error e2 => obtain ⟨_, _⟩ := q1; exact absurd h1 id
    | ok q2 =>
      obtain ⟨v1, s1⟩ := q1
      obtain ⟨v2, a1⟩ := q2
      obtain ⟨hv, hs1, hsep⟩ := h1
      subst hv
      have h2 := hk s1 a1 hs1 hsep
      simp only [bind, Except.bind]
      cases hq1 : k1 s1 with
      | error e1 =>
        cases hq2 : k2 a1 with
        | error e2 => rw [hq1, hq2] at h2; exact h2
        | ok q2 => rw [hq1, hq2] at h2; exact absurd h2 id
      | ok q1 =>
        cases hq2 : k2 a1 with
        | error e2 => rw [hq1, hq2] at h2; obtain ⟨_, _⟩ := q1; exact absurd h2 id
        | ok q2 =>
          rw [hq1, hq2] at h2
          obtain ⟨cs1, s2⟩ := q1
          obtain ⟨cs2, a2⟩ := q2
          obtain ⟨hcs, hs2, hsep2⟩ := h2
          subst hcs
          exact ⟨rfl, hs2, hsep2⟩

theorem sim_runScript (script : List Req) : ∀ {s : StreamReader} {a : AbsReader}, SimS s a →
    RelRes s.sep (s.runScript script) (a.runScript script) := by
  induction script with
  | nil => intro s a h; exact ⟨rfl, h, rfl⟩
  | cons q qs ih =>
    intro s a h
    cases q with
    | idx =>
      exact sim_step (sim_readValueIdx h) (fun s => s.runScript qs) (fun a => a.runScript qs)
        (fun s' a' hs' hsep => RelRes.sep_trans hsep (ih hs')) Cell.val
    | key n =>
      have := sim_step (sim_readValueKey h (keyOf s.headers n)) (fun s => s.runScript qs) (fun a => a.runScript qs)
        (fun s' a' hs' hsep => RelRes.sep_trans hsep (ih hs')) (fun v => match v with | some v => Cell.val v | none => Cell.notFound)
      rw [h.hdr] at this
      simp only [StreamReader.runScript, AbsReader.runScript]
      rw [h.hdr]
      exact this
    | lit k =>
      exact sim_step (sim_readValueKey h k) (fun s => s.runScript qs) (fun a => a.runScript qs)
        (fun s' a' hs' hsep => RelRes.sep_trans hsep (ih hs')) (fun v => match v with | some v => Cell.val v | none => Cell.notFound)

theorem sim_loop (script : List Req) (fuel : Nat) : ∀ {s : StreamReader} {a : AbsReader}, SimS s a → SepOk s.sep →
    s.loop script fuel = a.loop script fuel := by
  induction fuel with
  | zero => intro s a h _; simp only [StreamReader.loop, AbsReader.loop, h.hdr, h.ri]
  | succ fuel ih =>
    intro s a h hs
    simp only [StreamReader.loop, AbsReader.loop, sim_isEnd h]
    split
    · simp only [h.hdr, h.ri]
    · have h1 := sim_parseNextRow h hs
      cases hr1 : s.parseNextRow with
      | error e1 =>
        cases hr2 : a.parseNextRow with
        | error e2 => rw [hr1, hr2] at h1; simp only; rw [show e1 = e2 from h1]
        | ok r2 => rw [hr1, hr2] at h1; exact absurd h1 id
      | ok r1 =>
        cases hr2 : a.parseNextRow with
        | error e2 => rw [hr1, hr2] at h1; obtain ⟨_, _⟩ := r1; exact absurd h1 id
        | ok r2 =>
          rw [hr1, hr2] at h1
          obtain ⟨b1, s1⟩ := r1
          obtain ⟨b2, a1⟩ := r2
          obtain ⟨hb, hs1, hsep⟩ := h1
          subst hb
          cases b1 with
          | false => simp only [hs1.hdr, hs1.ri]
          | true =>
            simp only
            have h2 := RelRes.sep_trans hsep (sim_runScript script hs1)
            cases hq1 : s1.runScript script with
            | error e1 =>
              cases hq2 : a1.runScript script with
              | error e2 => rw [hq1, hq2] at h2; simp only; rw [show e1 = e2 from h2]
              | ok q2 => rw [hq1, hq2] at h2; exact absurd h2 id
            | ok q1 =>
              cases hq2 : a1.runScript script with
              | error e2 => rw [hq1, hq2] at h2; obtain ⟨_, _⟩ := q1; exact absurd h2 id
              | ok q2 =>
                rw [hq1, hq2] at h2
                obtain ⟨cs1, s2⟩ := q1
                obtain ⟨cs2, a2⟩ := q2
                obtain ⟨hcs, hs2, hsep2⟩ := h2
                subst hcs
                simp only
                rw [ih hs2 (by rw [hsep2]; exact hs)]

theorem init_logical (chunk : Nat) (bytes : List Nat) : (Enc.init chunk bytes).logical = bytes := by
  simp [Enc.init, Enc.readNext, Enc.logical]

theorem init_ok (chunk : Nat) (hc : 1 ≤ chunk) (bytes : List Nat) : EncOk (Enc.init chunk bytes) := by
  refine ⟨?_, hc⟩
  simp only [Enc.init, Enc.readNext, List.length_nil, Nat.sub_zero, Bool.false_or, decide_eq_true_eq, List.length_take]
  intro h
  apply List.drop_eq_nil_iff.mpr; omega

theorem init_lazy (chunk : Nat) (hc : 1 ≤ chunk) (bytes : List Nat) (h : (Enc.init chunk bytes).logical = []) :
    (Enc.init chunk bytes).isEnd = true := by
  rw [init_logical] at h
  subst h
  simp [Enc.init, Enc.readNext, Enc.isEnd]; omega

/-- **the stream-reader model is the abstract reader**: every text, every script, every chunk size ≥ 1 -/
theorem streamSession_eq_abs (chunk : Nat) (hc : 1 ≤ chunk) (sep : Nat) (hs : SepOk sep) (wh : Bool) (script : List Req) (txt : List Nat) :
    streamSession chunk sep wh script txt = absSession sep wh script txt := by
  have h0 : SimS ({ enc := Enc.init chunk txt, withHeader := wh, sep := sep } : StreamReader)
      ({ rem := txt, withHeader := wh, sep := sep } : AbsReader) :=
    { rem := by simp [init_logical], pos := by simp, enc := init_ok chunk hc txt,
      lzy := fun _ h => init_lazy chunk hc txt h, vals := rfl, bounds := fun m hm => (by cases hm), disj := List.Pairwise.nil,
      wh := rfl, sep := rfl, hdr := rfl, ln := rfl, ri := rfl, vi := rfl, pv := rfl }
  unfold streamSession absSession StreamReader.create AbsReader.create
  cases wh with
  | false =>
    simp only [Bool.false_eq_true, if_false]
    exact sim_loop script _ h0 hs
  | true =>
    simp only [if_true]
    obtain ⟨h1, h2⟩ := sim_parseNextLine h0 hs
    have hsep : ({ enc := Enc.init chunk txt, withHeader := true, sep := sep } : StreamReader).parseNextLine.2.sep = sep := by
      by_cases he : ({ enc := Enc.init chunk txt, withHeader := true, sep := sep } : StreamReader).isEnd = true
      · simp [StreamReader.parseNextLine, he]
      · rw [parseNextLine_eq _ (Bool.eq_false_iff.mpr he)]
    generalize ({ enc := Enc.init chunk txt, withHeader := true, sep := sep } : StreamReader).parseNextLine = r1 at h1 h2 hsep
    generalize ({ rem := txt, withHeader := true, sep := sep } : AbsReader).parseNextLine = r2 at h1 h2
    obtain ⟨m1, s1⟩ := r1
    obtain ⟨m2, a1⟩ := r2
    simp only at h1 h2 hsep
    subst h1
    cases m1 with
    | false => rfl
    | true =>
      simp only [if_true]
      rw [h2.len]
      have h3 := RelRes.sep_trans hsep (sim_readHeaders h2 a1.cells.length)
      cases hq1 : s1.readHeaders a1.cells.length with
      | error e1 =>
        cases hq2 : a1.readHeaders a1.cells.length with
        | error e2 => rw [hq1, hq2] at h3; simp only [bind, Except.bind]; rw [show e1 = e2 from h3]
        | ok q2 => rw [hq1, hq2] at h3; exact absurd h3 id
      | ok q1 =>
        cases hq2 : a1.readHeaders a1.cells.length with
        | error e2 => rw [hq1, hq2] at h3; obtain ⟨_, _⟩ := q1; exact absurd h3 id
        | ok q2 =>
          rw [hq1, hq2] at h3
          obtain ⟨hs1, s2⟩ := q1
          obtain ⟨hs2, a2⟩ := q2
          obtain ⟨hh, hsim, hsep2⟩ := h3
          subst hh
          simp only [bind, Except.bind, pure, Except.pure]
          have hsim' : SimS { s2 with headers := hs1 } { a2 with headers := hs1 } :=
            { rem := hsim.rem, pos := hsim.pos, enc := hsim.enc, lzy := hsim.lzy, vals := hsim.vals, bounds := hsim.bounds,
              disj := hsim.disj, wh := hsim.wh, sep := hsim.sep, hdr := rfl, ln := hsim.ln, ri := hsim.ri, vi := hsim.vi, pv := hsim.pv }
          exact sim_loop script _ hsim' (by simp only [hsep2]; exact hs)

end BSVerif.Csv.Stream
