/-
  ABSTRACT READER — the common denominator of the two reader models, used only in proofs
  (Props/C09, Props/C10csv): the same line scanner and session logic, but over the remaining text
  itself (no offsets, no buffer window, no in-place unescaping). `ReaderLemmas` proves that the
  string-reader model equals it on every text, `StreamLemmas` proves the same for the stream-reader
  model for every chunk size; `AbstractLemmas` proves that it reads every RFC 4180 rendering of a
  table as that table.
-/
import BSVerif.Csv.Reader

namespace BSVerif.Csv.Abs
open BSVerif.Csv BSVerif.Csv.Reader

/-- the characters of a cell as they stand in the text (quotes included) and `HasEscapedChars` -/
structure RawCell where
  text : List Nat
  esc : Bool
  deriving DecidableEq, Repr

def emptyCell : RawCell := ⟨[], false⟩

/-- prepend a character to the cell being scanned -/
def pushRaw (c : Nat) : List RawCell × List Nat → List RawCell × List Nat
  | (cell :: cs, rest) => (⟨c :: cell.text, c == 34 || cell.esc⟩ :: cs, rest)
  | x => x

def newCell : List RawCell × List Nat → List RawCell × List Nat
  | (cs, rest) => (emptyCell :: cs, rest)

/-- one line: the cells (the first one is the continuation of the cell being scanned, `q` = an odd
    number of double quotes seen in it) and the text after the line -/
def absLine (sep : Nat) : List Nat → Bool → List RawCell × List Nat
  | [], _ => ([emptyCell], [])
  | c :: r, q =>
    if c = 34 then pushRaw 34 (absLine sep r (!q))
    else if c = sep ∧ q = false then newCell (absLine sep r false)
    else if c = 13 ∧ q = false ∧ r.head? = some 10 then ([emptyCell], r.tail)
    else if c = 10 ∧ q = false then ([emptyCell], r)
    else pushRaw c (absLine sep r q)

def cellValue (c : RawCell) : Except Err (List Nat) :=
  if c.esc then unescapeCopy c.text else .ok c.text

structure AbsReader where
  rem : List Nat
  withHeader : Bool
  sep : Nat
  headers : List (List Nat) := []
  cells : List RawCell := []
  lineNumber : Nat := 0
  rowIndex : Nat := 0
  valueIndex : Nat := 0
  prevValuesCount : Nat := 0
  deriving Repr, DecidableEq

namespace AbsReader

def isEnd (rd : AbsReader) : Bool := rd.rem.isEmpty

def parseNextLine (rd : AbsReader) : Bool × AbsReader :=
  if rd.rem.isEmpty then (false, rd)
  else
    let (cells, rest) := absLine rd.sep rd.rem false
    (!cells.isEmpty, { rd with lineNumber := rd.lineNumber + 1, prevValuesCount := rd.cells.length, cells := cells, rem := rest })

def readValueIdx (rd : AbsReader) : Except Err (List Nat × AbsReader) :=
  match rd.cells[rd.valueIndex]? with
  | some c => do
    let v ← cellValue c
    pure (v, { rd with valueIndex := rd.valueIndex + 1 })
  | none => .error .serOutOfRange

def readValueKey (rd : AbsReader) (key : List Nat) : Except Err (Option (List Nat) × AbsReader) :=
  if !rd.withHeader then .ok (none, rd)
  else
    let (vi, found) := resolveKey rd.headers rd.valueIndex key
    let rd := { rd with valueIndex := vi }
    if !found then .ok (none, rd)
    else match rd.cells[vi]? with
      | none => .error .stdOutOfRange
      | some c => do
        let v ← cellValue c
        pure (some v, rd)

def parseNextRow (rd : AbsReader) : Except Err (Bool × AbsReader) :=
  let (more, rd) := rd.parseNextLine
  if more then
    if rd.withHeader ∧ rd.headers.length ≠ rd.cells.length then .error .parsing
    else if ¬ rd.withHeader ∧ rd.lineNumber ≥ 2 ∧ rd.prevValuesCount ≠ rd.cells.length then .error .parsing
    else
      let firstDataRow := rd.lineNumber = (if rd.withHeader then 2 else 1)
      .ok (true, { rd with valueIndex := 0, rowIndex := if firstDataRow then rd.rowIndex else rd.rowIndex + 1 })
  else .ok (false, rd)

def readHeaders (rd : AbsReader) : Nat → Except Err (List (List Nat) × AbsReader)
  | 0 => .ok ([], rd)
  | n + 1 => do
    let (v, rd) ← rd.readValueIdx
    let (vs, rd) ← readHeaders rd n
    pure (v :: vs, rd)

def create (txt : List Nat) (withHeader : Bool) (sep : Nat) : Except Err AbsReader :=
  let rd : AbsReader := { rem := txt, withHeader := withHeader, sep := sep }
  if withHeader then
    let (more, rd) := rd.parseNextLine
    if more then do
      let (hs, rd) ← rd.readHeaders rd.cells.length
      pure { rd with headers := hs }
    else .error .parsing
  else .ok rd

def runScript (rd : AbsReader) : List Req → Except Err (List Cell × AbsReader)
  | [] => .ok ([], rd)
  | .idx :: qs => do
    let (v, rd) ← rd.readValueIdx
    let (cs, rd) ← runScript rd qs
    pure (.val v :: cs, rd)
  | .key n :: qs => do
    let (v, rd) ← rd.readValueKey (keyOf rd.headers n)
    let (cs, rd) ← runScript rd qs
    pure ((match v with | some v => .val v | none => .notFound) :: cs, rd)
  | .lit k :: qs => do
    let (v, rd) ← rd.readValueKey k
    let (cs, rd) ← runScript rd qs
    pure ((match v with | some v => .val v | none => .notFound) :: cs, rd)

def loop (script : List Req) : Nat → AbsReader → Outcome
  | 0, rd => .ok rd.headers [] false rd.rowIndex
  | fuel + 1, rd =>
    if rd.isEnd then .ok rd.headers [] false rd.rowIndex
    else match rd.parseNextRow with
      | .error e => .err e 0
      | .ok (false, rd) => .ok rd.headers [] true rd.rowIndex
      | .ok (true, rd) =>
        match rd.runScript script with
        | .error e => .err e 0
        | .ok (cells, rd) => (loop script fuel rd).addRow cells

end AbsReader

def absSession (sep : Nat) (withHeader : Bool) (script : List Req) (txt : List Nat) : Outcome :=
  match AbsReader.create txt withHeader sep with
  | .error e => .errCtor e
  | .ok rd => rd.loop script (txt.length + 1)

end BSVerif.Csv.Abs
