/-
  Abstract model for C19: threads whose steps have footprints confined to thread-private
  locations plus shared read-only constants.

  A memory is `Loc → Val`. Thread `i` owns the location set `P i`; `C` is the set of shared
  constants. A step of thread `i` is a memory transformer that
    (frame)     changes nothing outside `P i`, and
    (locality)  computes what it writes from `P i ∪ C` only.
  A schedule is any list of thread ids; each occurrence runs that thread's next step.
-/
namespace BSVerif.Conc

abbrev Loc := Nat
abbrev Val := Int
abbrev Mem := Loc → Val

structure System (n : Nat) where
  P : Fin n → Loc → Prop                 -- private locations of each thread
  C : Loc → Prop                         -- shared read-only constants
  prog : Fin n → List (Mem → Mem)        -- each thread's steps, in program order
  disjoint : ∀ i j l, i ≠ j → P i l → ¬ P j l
  constSep : ∀ i l, P i l → ¬ C l
  frame : ∀ i (s : Mem → Mem), s ∈ prog i → ∀ m l, ¬ P i l → s m l = m l
  local_ : ∀ i (s : Mem → Mem), s ∈ prog i → ∀ m₁ m₂, (∀ l, P i l ∨ C l → m₁ l = m₂ l) → ∀ l, P i l → s m₁ l = s m₂ l

/-- run a list of steps sequentially -/
def runSeq (steps : List (Mem → Mem)) (m : Mem) : Mem := steps.foldl (fun m s => s m) m

/-- state of an interleaved execution: memory and, per thread, the steps not yet executed -/
structure Conf (n : Nat) where
  mem : Mem
  rest : Fin n → List (Mem → Mem)

/-- execute one scheduling decision: thread `i` runs its next step (no-op if it has finished) -/
def Conf.step {n : Nat} (c : Conf n) (i : Fin n) : Conf n :=
  match c.rest i with
  | [] => c
  | s :: tl => { mem := s c.mem, rest := fun j => if j = i then tl else c.rest j }

def Conf.run {n : Nat} (c : Conf n) (sched : List (Fin n)) : Conf n := sched.foldl Conf.step c

end BSVerif.Conc
