/-
  Helper lemmas for the "lossless chunked reading" theorem of C13 — part 4: BOM-less detection on
  the first chunk of a stream whose text starts with an ASCII character other than NUL and
  contains no U+0000 (instantiating the `detect_*_nobom` theorems of Props/C13Detect.lean on
  Spec-serialised text).
-/
import BSVerif.Utf.Lossless
import BSVerif.Props.C13Detect

namespace BSVerif.Utf
open Spec
open BSVerif.Props.C11 (AllScalar Width)
open BSVerif.Props.C13

/-- the UTF-8 form of a scalar other than U+0000 has no zero byte -/
theorem enc8_bytes_pos (x : Nat) (hx : IsScalar x) (h0 : x ≠ 0) : ∀ b ∈ enc8 x, 0 < b ∧ b < 256 := by
  obtain ⟨hlt, hns⟩ := hx
  intro b hb
  unfold enc8 at hb
  split at hb
  · simp at hb; omega
  · split at hb
    · simp at hb; omega
    · split at hb
      · simp at hb; omega
      · simp at hb; omega

theorem encs8_bytes_pos (ts : List Nat) (hts : ∀ x ∈ ts, IsScalar x ∧ x ≠ 0) :
    ∀ b ∈ encs 8 ts, 0 < b ∧ b < 256 := by
  induction ts with
  | nil => simp
  | cons d ts ih =>
    intro b hb
    simp only [encs_cons, List.mem_append] at hb
    rcases hb with hb | hb
    · have := hts d (by simp)
      exact enc8_bytes_pos d this.1 this.2 b (by simpa [enc] using hb)
    · exact ih (fun y hy => hts y (by simp [hy])) b hb

/-- the first UTF-16 unit of a NUL-free text is a non-zero 16-bit unit -/
theorem encs16_first (ts : List Nat) (hts : ∀ x ∈ ts, IsScalar x ∧ x ≠ 0) :
    ts = [] ∨ ∃ x us, encs 16 ts = x :: us ∧ 0 < x ∧ x < 65536 := by
  cases ts with
  | nil => exact Or.inl rfl
  | cons d ts =>
    right
    obtain ⟨⟨hlt, hns⟩, h0⟩ := hts d (by simp)
    simp only [encs_cons, enc, show ¬ (16 = 8) by decide, if_false, if_true, enc16]
    split
    · exact ⟨d, _, rfl, by omega, by omega⟩
    · exact ⟨0xD800 + (d - 0x10000) / 1024, _, rfl, by omega, by omega⟩

theorem hrest16le (ts : List Nat) (hts : ∀ x ∈ ts, IsScalar x ∧ x ≠ 0) (m : Nat) :
    ∀ a b r, (bytesLE 16 (encs 16 ts)).take (m + 2) = a :: b :: r → a < 256 ∧ b < 256 ∧ ¬ (a = 0 ∧ b = 0) := by
  intro a b r h
  rcases encs16_first ts hts with h0 | ⟨x, us, hx, hx0, hx1⟩
  · subst h0; simp [bytesLE] at h
  · rw [hx] at h
    have e : bytesLE 16 (x :: us) = x % 256 :: (x / 256 % 256) :: bytesLE 16 us := by
      simp [bytesLE, unitBytesLE, List.range_succ]
    rw [e] at h
    simp only [List.take_succ_cons, List.cons.injEq] at h
    obtain ⟨ha, hb, _⟩ := h
    omega

theorem hrest16be (ts : List Nat) (hts : ∀ x ∈ ts, IsScalar x ∧ x ≠ 0) (m : Nat) :
    ∀ a b r, (bytesBE 16 (encs 16 ts)).take (m + 2) = a :: b :: r → a < 256 ∧ b < 256 ∧ ¬ (a = 0 ∧ b = 0) := by
  intro a b r h
  rcases encs16_first ts hts with h0 | ⟨x, us, hx, hx0, hx1⟩
  · subst h0; simp [bytesBE] at h
  · rw [hx] at h
    have e : bytesBE 16 (x :: us) = (x / 256 % 256) :: (x % 256) :: bytesBE 16 us := by
      simp [bytesBE, unitBytesBE, unitBytesLE, List.range_succ]
    rw [e] at h
    simp only [List.take_succ_cons, List.cons.injEq] at h
    obtain ⟨ha, hb, _⟩ := h
    omega

/-- **BOM-less detection on the first chunk**, all five encodings -/
theorem detect_nobom_chunk (N : Nat) (hN : 32 ≤ N) (e : UtfType) (c : Nat) (ts : List Nat)
    (hc : 0 < c ∧ c < 0x80) (hts : ∀ x ∈ ts, IsScalar x ∧ x ≠ 0) :
    detect ((encBytes e (encs e.width (c :: ts))).take N) = (e, 0) := by
  obtain ⟨m, rfl⟩ : ∃ m, N = m + 4 := ⟨N - 4, by omega⟩
  have hc16 : c < 0x10000 := by omega
  cases e
  · -- UTF-8
    have hsc : AllScalar (c :: ts) := by
      intro x hx; simp at hx; rcases hx with rfl | hx
      · exact ⟨by omega, by omega⟩
      · exact (hts x hx).1
    rw [show UtfType.utf8.width = 8 from rfl, encBytes_utf8 _ (encs_lt 8 (by simp [Width]) _ hsc)]
    have e1 : encs 8 (c :: ts) = c :: encs 8 ts := by simp [enc, enc8, hc.2]
    rw [e1, List.take_succ_cons]
    exact detect_utf8_nobom c _ hc (fun b hb => encs8_bytes_pos ts hts b (List.mem_of_mem_take hb))
  · -- UTF-16LE
    have e1 : encBytes .utf16le (encs 16 (c :: ts)) = c :: 0 :: bytesLE 16 (encs 16 ts) := by
      simp [encBytes, UtfType.isBE, UtfType.width, enc, enc16, hc16, bytesLE, unitBytesLE, List.range_succ]
      omega
    rw [show UtfType.utf16le.width = 16 from rfl, e1, List.take_succ_cons, List.take_succ_cons]
    exact detect_utf16le_nobom c _ hc (hrest16le ts hts m)
  · -- UTF-16BE
    have e1 : encBytes .utf16be (encs 16 (c :: ts)) = 0 :: c :: bytesBE 16 (encs 16 ts) := by
      simp [encBytes, UtfType.isBE, UtfType.width, enc, enc16, hc16, bytesBE, unitBytesBE, unitBytesLE, List.range_succ]
      omega
    rw [show UtfType.utf16be.width = 16 from rfl, e1, List.take_succ_cons, List.take_succ_cons]
    exact detect_utf16be_nobom c _ hc (hrest16be ts hts m)
  · -- UTF-32LE
    have e1 : encBytes .utf32le (encs 32 (c :: ts)) = c :: 0 :: 0 :: 0 :: bytesLE 32 (encs 32 ts) := by
      simp [encBytes, UtfType.isBE, UtfType.width, enc, enc32, bytesLE, unitBytesLE, List.range_succ]
      omega
    rw [show UtfType.utf32le.width = 32 from rfl, e1]
    simp only [List.take_succ_cons]
    exact detect_utf32le_nobom c _ hc
  · -- UTF-32BE
    have e1 : encBytes .utf32be (encs 32 (c :: ts)) = 0 :: 0 :: 0 :: c :: bytesBE 32 (encs 32 ts) := by
      simp [encBytes, UtfType.isBE, UtfType.width, enc, enc32, bytesBE, unitBytesBE, unitBytesLE, List.range_succ]
      omega
    rw [show UtfType.utf32be.width = 32 from rfl, e1]
    simp only [List.take_succ_cons]
    exact detect_utf32be_nobom c _ hc

/-! ### small facts used by the property theorems -/

theorem bomOf_length_le (e : UtfType) : (bomOf e).length ≤ 4 := by cases e <;> decide

theorem bomOf_ne_nil (e : UtfType) : bomOf e ≠ [] := by cases e <;> decide

theorem isPrefixOf_take (p l : List Nat) (k : Nat) (h : p.isPrefixOf (l.take k) = true) : p.isPrefixOf l = true := by
  rw [List.isPrefixOf_iff_prefix] at h ⊢
  exact h.trans (List.take_prefix k l)

/-- the side condition of `read_lossless_bom` in terms of the text: it does not start with U+0000 -/
theorem h16_of_head (t : List Nat) (ht : ∀ c ∈ t, IsScalar c) (h0 : t.head? ≠ some 0) :
    ¬ [0, 0].isPrefixOf (encBytes .utf16le (encs 16 t)) := by
  cases t with
  | nil => simp [encBytes, bytesLE, UtfType.isBE]
  | cons c t =>
    obtain ⟨hlt, hns⟩ := ht c (by simp)
    have hc0 : c ≠ 0 := by simpa using h0
    simp only [encs_cons, enc, show ¬ (16 = 8) by decide, if_false, if_true, enc16]
    split
    · simp [encBytes, bytesLE, unitBytesLE, UtfType.isBE, UtfType.width, List.range_succ]; omega
    · simp [encBytes, bytesLE, unitBytesLE, UtfType.isBE, UtfType.width, List.range_succ]; omega

end BSVerif.Utf
