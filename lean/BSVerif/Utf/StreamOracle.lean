/-
  ORACLE for C13 (encoded text streams). Judges the implementation's answers for
    utf.detect / utf.read / utf.write
  against the Spec encoders and the Unicode BOM table — independently of the Model.

  Interpretation (DESIGN.md §C13): BOM-less detection is only required for texts that begin with
  an ASCII character other than NUL and contain no U+0000 at all (a UTF-8 text "A\0" and the
  UTF-16LE text "A" are the same bytes: `Props.C13.ambiguous`); such inputs are judged `ok`
  whatever the detector says, but must still not hang.
-/
import BSVerif.Utf.Stream
import BSVerif.Utf.Oracle

namespace BSVerif.Utf.StreamOracle
open BSVerif.Utf BSVerif.Utf.Spec BSVerif.Utf.Oracle

/-- Unicode BOMs (Unicode §23.8), from the standard -/
def specBom : UtfType → List Nat
  | .utf8 => [0xEF, 0xBB, 0xBF]
  | .utf16le => [0xFF, 0xFE]
  | .utf16be => [0xFE, 0xFF]
  | .utf32le => [0xFF, 0xFE, 0x00, 0x00]
  | .utf32be => [0x00, 0x00, 0xFE, 0xFF]

/-- logical code units of a byte stream in encoding `e` (whole units only) and the number of leftover bytes -/
def unitsIn (e : UtfType) (bs : List Nat) : List Nat × Nat :=
  let w := e.width
  let bpu := w / 8
  let n := bs.length - bs.length % bpu
  let us := unitsOfBytes w (bs.take n)
  ((if e.isBE then us.map (reverseUnit w) else us), bs.length % bpu)

def typeName : UtfType → String
  | .utf8 => "utf8" | .utf16le => "utf16le" | .utf16be => "utf16be" | .utf32le => "utf32le" | .utf32be => "utf32be"

def parseType : String → Option UtfType
  | "utf8" => some .utf8 | "utf16le" => some .utf16le | "utf16be" => some .utf16be
  | "utf32le" => some .utf32le | "utf32be" => some .utf32be | _ => none

/-- does the detector have to get it right? (has BOM, or ASCII-non-NUL start and NUL-free) -/
def mustDetect (hasBom : Bool) (scalars : List Nat) : Bool :=
  hasBom || (match scalars with
    | c :: _ => decide (0 < c ∧ c < 0x80) && !scalars.contains 0
    | [] => false)

/-- judge `utf.read`: `enc` is the encoding the bytes were produced in, `hasBom` whether they start with its BOM -/
def judgeRead (wo : Nat) (pol : Policy) (mark : Option (List Nat)) (enc : UtfType) (bytes : List Nat)
    (detected : String) (results : String) (text : List Nat) : Verdict :=
  if results.contains 'H' then .bad "reader makes no progress (caller reading until EndFile hangs)" else
  let hasBom := (specBom enc).isPrefixOf bytes
  let body := if hasBom then bytes.drop (specBom enc).length else bytes
  let (us, leftover) := unitsIn enc body
  let wi := enc.width
  let segs := segment wi us
  let wellFormed := !hasBad segs && leftover = 0
  let sc := scalarsOf segs
  if bytes.isEmpty then
    (if results = "E" ∧ text.isEmpty then .ok else .bad "empty stream not reported as EndFile")
  else if !hasBom && !(mustDetect false sc && wellFormed) then
    -- BOM-less text outside the detection guarantee (or ill-formed without BOM): only no-hang is required
    .ok
  else if detected ≠ typeName enc then .bad s!"detected {detected} for a {typeName enc} stream"
  else if wellFormed then
    let expected := if wi = wo then us else encs wo sc
    if text ≠ expected then .bad "decoded text differs from the text written"
    else if results.toList.getLast? ≠ some 'E' ∨ results.toList.dropLast.any (· ≠ 'S') then .bad "result sequence is not Success* EndFile"
    else .ok
  else if wi = wo then .ok   -- same-width pass-through of ill-formed input: outside C12/C13
  else
    let swallow := wi = 8 ∧ hasSwallowRisk us
    let segs' := if leftover = 0 then segs else segs ++ [Seg.bad 1]
    match pol with
    | .throwError =>
      if results.toList.getLast? ≠ some 'D' then .bad "ill-formed stream not reported as DecodeError under ThrowError"
      else
        match firstBad segs' 0 with
        | none => .bad "internal"
        | some fb =>
          match segsBefore segs' fb 0 with
          | none => .bad "internal"
          | some pre => if text = encs wo (scalarsOf pre) then .ok else .bad "text before the error is wrong"
    | .skip =>
      if results.toList.getLast? ≠ some 'E' ∨ results.toList.dropLast.any (· ≠ 'S') then
        .bad "result sequence is not Success* EndFile under Skip"
      else
        match matchRuns wo (mark.getD []) (runs segs') text 0 with
        | some _ => .ok
        | none => if swallow then .known "utf8-declared-tails-swallowed" else .bad "decoded text is not scalars+marks of the stream"

/-- judge `utf.write`: every well-formed text must be accepted, a text whose `Write` reported an error must leave NOTHING in the
    stream, and the bytes must be BOM? ++ concatenation of the standard encodings of the accepted texts. (An ill-formed text that
    is accepted under the Skip policy is written with error marks: its bytes are C12's business, such a line is not judged.) -/
def judgeWrite (t : UtfType) (addBom : Bool) (wi : Nat) (strs : List (List Nat)) (codes : List Char) (bytes : List Nat) : Verdict :=
  if codes.length ≠ strs.length then .bad "one result code per Write expected"
  else
    let parts := strs.zip codes
    if parts.any (fun (s, c) => !hasBad (segment wi s) && c != 's') then .bad "a well-formed text was rejected by Write"
    else if parts.any (fun (s, c) => hasBad (segment wi s) && c == 's') then .ok
    else
      let w := t.width
      let body := parts.flatMap fun (s, c) =>
        if c == 's' then
          let us := encs w (scalarsOf (segment wi s))
          if t.isBE then bytesBE w us else bytesLE w us
        else []
      let expected := (if addBom then specBom t else []) ++ body
      if bytes = expected then .ok else .bad "bytes written differ from BOM ++ standard encoding of the accepted texts"

end BSVerif.Utf.StreamOracle
