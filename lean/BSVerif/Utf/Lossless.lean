/-
  Helper lemmas for the "lossless chunked reading" theorem of C13 — part 3: the reader invariant.

  `Good e wo t out X` : `out` is what has been decoded so far and `X` the bytes not yet consumed
  (window ++ unread stream) of a stream carrying the text `t` in encoding `e`:
    * width-changing reader (e.width ≠ wo): a character-level split  t = t1 ++ t2,
      out = encs wo t1,  X = bytes of encs e.width t2;
    * same-width reader (e.width = wo; raw copy, `copy16`, `copyAll`): a unit-level split
      encs w t = u1 ++ u2,  out = u1,  X = bytes of u2   (a chunk boundary may then fall inside a
      multi-unit character — the output is still the same unit sequence).
  `chunk_step` / `chunk_final` : one `DecodeChunk` on a window that is a prefix of / all of `X`.
  `RInv` : `Good` + window bookkeeping of a `Reader`;  `readChunk_step`, `readAll_lossless`.
-/
import BSVerif.Utf.LosslessTrunc

namespace BSVerif.Utf
open Spec
open BSVerif.Props.C11

def Good (e : UtfType) (wo : Nat) (t out X : List Nat) : Prop :=
  if e.width = wo then ∃ u1 u2, encs e.width t = u1 ++ u2 ∧ out = u1 ∧ X = encBytes e u2
  else ∃ t1 t2, t = t1 ++ t2 ∧ out = encs wo t1 ∧ X = encBytes e (encs e.width t2)

theorem width_Width (e : UtfType) : Width e.width := by
  cases e <;> simp [Width, UtfType.width]

theorem good_init (e : UtfType) (wo : Nat) (t : List Nat) : Good e wo t [] (encBytes e (encs e.width t)) := by
  unfold Good; split
  · exact ⟨[], encs e.width t, rfl, rfl, rfl⟩
  · exact ⟨[], t, rfl, rfl, rfl⟩

theorem good_done (e : UtfType) (wo : Nat) (t : List Nat) : Good e wo t (encs wo t) [] := by
  unfold Good; split
  · rename_i h; exact ⟨encs e.width t, [], by simp, by rw [h], by simp⟩
  · exact ⟨t, [], by simp, rfl, by simp⟩

theorem good_nil (e : UtfType) (wo : Nat) (t out : List Nat) (h : Good e wo t out []) : out = encs wo t := by
  unfold Good at h; split at h
  · rename_i hw
    obtain ⟨u1, u2, h1, h2, h3⟩ := h
    have := encBytes_eq_nil e u2 h3.symm
    subst this; rw [h2, ← hw, h1]; simp
  · obtain ⟨t1, t2, h1, h2, h3⟩ := h
    have := encs_eq_nil _ _ (encBytes_eq_nil e _ h3.symm)
    subst this; rw [h2, h1]; simp

/-- the raw 8→8 path of `ReadChunk`: the whole window is appended -/
theorem good_raw (t : List Nat) (ht : AllScalar t) (out W R : List Nat) (h : Good .utf8 8 t out (W ++ R)) :
    Good .utf8 8 t (out ++ W) R := by
  unfold Good at h ⊢
  simp only [UtfType.width, if_true] at h ⊢
  obtain ⟨u1, u2, h1, h2, h3⟩ := h
  have hb : ∀ x ∈ u2, x < 2 ^ 8 := fun x hx =>
    encs_lt 8 (by simp [Width]) t ht x (by rw [h1]; simp [hx])
  rw [encBytes_utf8 u2 hb] at h3
  have hbR : ∀ x ∈ R, x < 2 ^ 8 := fun x hx => hb x (by rw [← h3]; simp [hx])
  exact ⟨u1 ++ W, R, by rw [h1, ← h3]; simp, by rw [h2], (encBytes_utf8 R hbR).symm⟩

/-- the unit-aligned part of a window that is a byte prefix of serialised units -/
theorem window_units (e : UtfType) (v W R : List Nat) (h : W ++ R = encBytes e v) :
    W.take (W.length - W.length % (e.width / 8)) = encBytes e (v.take (W.length / (e.width / 8))) := by
  have hb := width_cases e
  have h1 : W.length - W.length % (e.width / 8) = W.length / (e.width / 8) * (e.width / 8) := by
    have := Nat.div_add_mod W.length (e.width / 8)
    rw [Nat.mul_comm] at this; omega
  rw [← encBytes_take, ← h, h1, List.take_append_of_le_length (Nat.div_mul_le_self _ _)]

/-- **One `DecodeChunk` on a window `W` (any byte prefix of the pending bytes)**: Success or
    UnexpectedEnd, consumes whole units inside the window, and `Good` is preserved. -/
theorem chunk_step (e : UtfType) (wo : Nat) (hwo : Width wo) (h88 : ¬ (e = .utf8 ∧ wo = 8))
    (t : List Nat) (ht : AllScalar t) (out W R : List Nat) (hg : Good e wo t out (W ++ R))
    (pol : Policy) (mark : Option (List Nat)) :
    ∃ res, chunkRes e wo pol mark (unitsOfBytes e.width (W.take (W.length - W.length % (e.width / 8)))) out = res ∧
      (res.code = .success ∨ res.code = .unexpectedEnd) ∧ res.iter * (e.width / 8) ≤ W.length ∧
      Good e wo t res.out ((W ++ R).drop (res.iter * (e.width / 8))) := by
  have hw := width_Width e
  have hkb : W.length / (e.width / 8) * (e.width / 8) ≤ W.length := Nat.div_mul_le_self _ _
  unfold Good at hg; split at hg
  · rename_i hsame
    obtain ⟨u1, u2, h1, h2, h3⟩ := hg
    have hb : ∀ x ∈ u2.take (W.length / (e.width / 8)), x < 2 ^ e.width := fun x hx =>
      encs_lt e.width hw t ht x (by rw [h1]; simp [List.mem_of_mem_take hx])
    rw [window_units e u2 W R h3, chunkRes_encBytes e wo pol mark _ out hb]
    have hw2 : e.width = 16 ∨ e.width = 32 := by
      cases e <;> simp_all [UtfType.width]
    obtain ⟨j, code, r1, r2, r3⟩ :=
      nativeDecode_same_prefix e.width hw2 (u2.take (W.length / (e.width / 8))) pol mark out
    rw [← hsame, r1]
    have hjk : j ≤ W.length / (e.width / 8) := by
      simp only [List.length_take] at r2; omega
    refine ⟨_, rfl, r3, Nat.le_trans (Nat.mul_le_mul_right _ hjk) hkb, ?_⟩
    unfold Good; rw [if_pos rfl]
    refine ⟨u1 ++ u2.take j, u2.drop j, ?_, ?_, ?_⟩
    · rw [h1, List.append_assoc, List.take_append_drop]
    · simp only; rw [h2, List.take_take, Nat.min_eq_left hjk]
    · simp only; rw [h3, encBytes_drop]
  · rename_i hdiff
    obtain ⟨t1, t2, h1, h2, h3⟩ := hg
    have ht2 : AllScalar t2 := fun x hx => ht x (by rw [h1]; simp [hx])
    have hb : ∀ x ∈ (encs e.width t2).take (W.length / (e.width / 8)), x < 2 ^ e.width := fun x hx =>
      encs_lt e.width hw t2 ht2 x (List.mem_of_mem_take hx)
    rw [window_units e _ W R h3, chunkRes_encBytes e wo pol mark _ out hb]
    obtain ⟨t', t'', code, p1, p2, p3, p4⟩ :=
      nativeDecode_prefix e.width wo hw hwo hdiff t2 ht2 (W.length / (e.width / 8)) pol mark out
    rw [p2]
    refine ⟨_, rfl, p3, Nat.le_trans (Nat.mul_le_mul_right _ p4) hkb, ?_⟩
    unfold Good; rw [if_neg hdiff]
    refine ⟨t1 ++ t', t'', by rw [h1, p1, List.append_assoc], ?_, ?_⟩
    · simp only; rw [h2, encs_append]
    · simp only; rw [h3, encBytes_drop, p1, encs_append, List.drop_left]

/-- **The last `DecodeChunk`** (window = all pending bytes): everything is decoded with Success. -/
theorem chunk_final (e : UtfType) (wo : Nat) (hwo : Width wo) (h88 : ¬ (e = .utf8 ∧ wo = 8))
    (t : List Nat) (ht : AllScalar t) (out X : List Nat) (hg : Good e wo t out X)
    (pol : Policy) (mark : Option (List Nat)) :
    ∃ res, chunkRes e wo pol mark (unitsOfBytes e.width (X.take (X.length - X.length % (e.width / 8)))) out = res ∧
      res.code = .success ∧ res.iter * (e.width / 8) = X.length ∧ res.out = encs wo t := by
  have hw := width_Width e
  have hfull : ∀ v, X = encBytes e v → X.take (X.length - X.length % (e.width / 8)) = encBytes e v := by
    intro v hv
    have hl : X.length = v.length * (e.width / 8) := by rw [hv, encBytes_length]
    have : X.length % (e.width / 8) = 0 := by rw [hl]; exact Nat.mul_mod_left _ _
    rw [this, Nat.sub_zero, List.take_length, hv]
  unfold Good at hg; split at hg
  · rename_i hsame
    obtain ⟨u1, u2, h1, h2, h3⟩ := hg
    have hb : ∀ x ∈ u2, x < 2 ^ e.width := fun x hx =>
      encs_lt e.width hw t ht x (by rw [h1]; simp [hx])
    have hw2 : e.width = 16 ∨ e.width = 32 := by
      cases e <;> simp_all [UtfType.width]
    rw [hfull u2 h3, chunkRes_encBytes e wo pol mark _ out hb, ← hsame,
      nativeDecode_same_full e.width hw2 t ht u1 u2 h1]
    exact ⟨_, rfl, rfl, by rw [h3, encBytes_length], by simp only; rw [h2, h1]⟩
  · rename_i hdiff
    obtain ⟨t1, t2, h1, h2, h3⟩ := hg
    have ht2 : AllScalar t2 := fun x hx => ht x (by rw [h1]; simp [hx])
    have hb : ∀ x ∈ encs e.width t2, x < 2 ^ e.width := encs_lt e.width hw t2 ht2
    have h88' : ¬ (e.width = 8 ∧ wo = 8) := fun h => hdiff (by omega)
    rw [hfull _ h3, chunkRes_encBytes e wo pol mark _ out hb,
      nativeDecode_full e.width wo hw hwo h88' t2 ht2]
    exact ⟨_, rfl, rfl, by rw [h3, encBytes_length], by simp only; rw [h2, h1, encs_append]⟩

/-! ### the stream -/

theorem read_content (s : IStream) (n : Nat) : (s.read n).1 ++ (s.read n).2.rest = s.rest := by
  unfold IStream.read
  split
  · simp
  · split
    · simp
    · split <;> simp

theorem read_nil (s : IStream) (n : Nat) (hn : 0 < n) (h : s.eof = true → s.rest = [])
    (hg : (s.read n).1 = []) : s.rest = [] := by
  unfold IStream.read at hg
  split at hg
  · rename_i he; exact h he
  · split at hg
    · omega
    · split at hg
      · exact hg
      · rename_i hlt
        simp only [List.take_eq_nil_iff] at hg
        rcases hg with hg | hg
        · omega
        · exact hg

/-! ### reader invariant -/

structure RInv (e : UtfType) (wo : Nat) (t : List Nat) (r : Reader) (out : List Nat) : Prop where
  hutf : r.utf = e
  hwo : r.wo = wo
  hN : 32 ≤ r.N
  winv : WInv r
  eofr : r.stream.eof = true → r.stream.rest = []
  good : Good e wo t out (r.win ++ r.stream.rest)

/-- **One `ReadChunk` under the invariant**: either Success and the invariant again, or EndFile
    with the complete text decoded. Never DecodeError. -/
theorem readChunk_step (e : UtfType) (wo : Nat) (hwo : Width wo) (t : List Nat) (ht : AllScalar t)
    (r : Reader) (out : List Nat) (h : RInv e wo t r out) :
    (∃ out' r', r.readChunk out = (.success, out', r') ∧ RInv e wo t r' out') ∨
    (∃ r', r.readChunk out = (.endFile, out, r') ∧ out = encs wo t) := by
  obtain ⟨hutf, hwo', hN, hinv, heofr, hgood⟩ := h
  have hinv' : r.startOff + r.win.length ≤ r.N := hinv
  unfold Reader.readChunk
  by_cases hend : r.isEnd = true
  · right
    simp only [hend, if_true]
    simp only [Reader.isEnd, Bool.and_eq_true, List.isEmpty_iff] at hend
    have hX : r.win ++ r.stream.rest = [] := by rw [hend.1, heofr hend.2]; rfl
    rw [hX] at hgood
    exact ⟨r, rfl, good_nil e wo t out hgood⟩
  · simp only [hend, Bool.false_eq_true, if_false]
    rw [readNext_eq r hinv]
    obtain ⟨s1, s2, s3, s4, s5, s6⟩ := read_spec r.stream (r.N - r.win.length)
    have hcontent := read_content r.stream (r.N - r.win.length)
    have hnil := read_nil r.stream (r.N - r.win.length)
    generalize hrd : r.stream.read (r.N - r.win.length) = rd at *
    obtain ⟨got, st⟩ := rd
    simp only at s1 s2 s3 s4 s5 s6 hcontent hnil ⊢
    have hst : st.eof = true → st.rest = [] := by
      intro he
      cases he0 : r.stream.eof
      · exact s4 he he0
      · rw [(s3 he0).2]; exact heofr he0
    have hX : (r.win ++ got) ++ st.rest = r.win ++ r.stream.rest := by
      rw [List.append_assoc, hcontent]
    have hWlen : (r.win ++ got).length ≤ r.N := by simp only [List.length_append]; omega
    by_cases hstop : (!!got.isEmpty && (r.win ++ got).isEmpty) = true
    · right
      simp only [hstop, if_true]
      simp only [Bool.not_not, Bool.and_eq_true, List.isEmpty_iff, List.append_eq_nil_iff] at hstop
      obtain ⟨hg0, hw0, _⟩ := hstop
      have hrest : r.stream.rest = [] := hnil (by rw [hw0]; simp; omega) heofr hg0
      rw [hw0, hrest] at hgood
      exact ⟨_, rfl, good_nil e wo t out hgood⟩
    · left
      simp only [hstop, Bool.false_eq_true, if_false]
      rw [← hX] at hgood
      by_cases hraw : r.utf = .utf8 ∧ r.wo = 8
      · simp only [hraw, and_self, if_true]
        obtain ⟨hu, hw⟩ := hraw
        rw [hutf] at hu; rw [hwo'] at hw; subst hu; subst hw
        exact ⟨_, _, rfl, ⟨rfl, rfl, hN, by simp [WInv], hst, by simpa using good_raw t ht out _ _ hgood⟩⟩
      · simp only [hraw, if_false]
        have h88 : ¬ (e = .utf8 ∧ wo = 8) := by rw [← hutf, ← hwo']; exact hraw
        simp only [Reader.decodeChunk, hutf, hwo']
        cases heof : st.eof
        · -- more data may follow: window is a prefix of the pending bytes
          obtain ⟨res, c1, c2, c3, c4⟩ := chunk_step e wo hwo h88 t ht out (r.win ++ got) st.rest hgood r.pol r.mark
          rw [c1]
          simp only [Bool.false_eq_true, if_false, c2, if_true]
          refine ⟨_, _, rfl, ⟨rfl, rfl, hN, ?_, ?_, ?_⟩⟩
          · simp only [WInv, List.length_drop] at *; omega
          · simp [heof]
          · simp only
            rw [List.drop_append_of_le_length c3] at c4; exact c4
        · -- the stream is exhausted: the window is all pending bytes
          have hr0 := hst heof
          rw [hr0, List.append_nil] at hgood
          obtain ⟨res, c1, c2, c3, c4⟩ := chunk_final e wo hwo h88 t ht out (r.win ++ got) hgood r.pol r.mark
          rw [c1]
          have hdrop : List.drop (res.iter * (e.width / 8)) (r.win ++ got) = [] :=
            List.drop_of_length_le (by omega)
          simp only [if_true, c2, hdrop, List.isEmpty_nil, not_true_eq_false, and_false, or_false,
            show ¬ (Code.success = Code.unexpectedEnd) by decide, if_false]
          refine ⟨_, _, rfl, ⟨rfl, rfl, hN, ?_, ?_, ?_⟩⟩
          · simp only [WInv, List.length_nil] at *; omega
          · exact fun _ => hr0
          · simp only [hr0, List.append_nil, c4]; exact good_done e wo t

/-- **Reading to the end under the invariant.** -/
theorem readAll_lossless (e : UtfType) (wo : Nat) (hwo : Width wo) (t : List Nat) (ht : AllScalar t)
    (fuel : Nat) (r : Reader) (out : List Nat) (acc : List ReadResult)
    (h : RInv e wo t r out) (hf : r.measure < fuel) :
    ∃ n, Reader.readAll fuel r out acc
      = (acc.reverse ++ List.replicate n .success ++ [.endFile], encs wo t, false) := by
  induction fuel generalizing r out acc with
  | zero => omega
  | succ fuel ih =>
    unfold Reader.readAll
    rcases readChunk_step e wo hwo t ht r out h with ⟨out', r', hrc, hinv'⟩ | ⟨r', hrc, hout⟩
    · have hs : (r.readChunk out).1 = .success := by rw [hrc]
      obtain ⟨p1, _, _⟩ := readChunk_progress' r out h.hN h.winv hs
      rw [hrc] at p1
      simp only at p1
      rw [hrc]
      simp only
      obtain ⟨n, hn⟩ := ih r' out' (.success :: acc) hinv' (by omega)
      refine ⟨n + 1, ?_⟩
      rw [hn, List.replicate_succ]
      simp
    · rw [hrc]
      exact ⟨0, by simp [hout]⟩

/-! ### the constructor -/

theorem mk'_eq (N wo : Nat) (pol : Policy) (mark : Option (List Nat)) (bytes : List Nat)
    (hN : 0 < N) (hb : bytes ≠ []) :
    Reader.mk' N wo pol mark bytes =
      ⟨N, wo, pol, mark, (detect (bytes.take N)).1, (detect (bytes.take N)).2,
        (bytes.take N).drop (detect (bytes.take N)).2, ⟨bytes.drop N, decide (bytes.length < N)⟩⟩ := by
  have hbl : 0 < bytes.length := by
    cases bytes with
    | nil => exact absurd rfl hb
    | cons _ _ => simp
  unfold Reader.mk' Reader.readNext IStream.read
  have hN0 : ¬ (0 = N) := by omega
  have hN1 : ¬ (N = 0) := by omega
  by_cases hlt : bytes.length < N
  · have ht : bytes.take N = bytes := List.take_of_length_le (by omega)
    have hd : bytes.drop N = [] := List.drop_of_length_le (by omega)
    simp [hN0, hN1, hlt, ht, hd, hb]
  · have hne : bytes.take N ≠ [] := by
      intro h
      rcases List.take_eq_nil_iff.mp h with h | h
      · omega
      · exact hb h
    simp [hN0, hN1, hlt, hne]

/-- The invariant holds after construction whenever detection on the first chunk returns the
    right encoding and data offset. -/
theorem mk'_inv (N wo : Nat) (pol : Policy) (mark : Option (List Nat)) (e : UtfType) (t : List Nat)
    (pre : List Nat) (hN : 32 ≤ N) (hpre : pre.length ≤ 4)
    (hne : pre ++ encBytes e (encs e.width t) ≠ [])
    (hdet : detect ((pre ++ encBytes e (encs e.width t)).take N) = (e, pre.length)) :
    RInv e wo t (Reader.mk' N wo pol mark (pre ++ encBytes e (encs e.width t))) [] := by
  rw [mk'_eq N wo pol mark _ (by omega) hne, hdet]
  simp only
  have hlen : pre.length ≤ ((pre ++ encBytes e (encs e.width t)).take N).length := by
    simp only [List.length_take, List.length_append]; omega
  refine ⟨rfl, rfl, hN, ?_, ?_, ?_⟩
  · simp only [WInv, List.length_drop, List.length_take]; omega
  · simp only [decide_eq_true_eq]
    intro h; exact List.drop_of_length_le (by omega)
  · simp only
    rw [← List.drop_append_of_le_length hlen, List.take_append_drop, List.drop_left]
    exact good_init e wo t

end BSVerif.Utf
