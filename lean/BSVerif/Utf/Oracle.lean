/-
  ORACLE for C11/C12: judges an implementation result for a transcoding op directly against the
  Spec (segmentation into scalars and ill-formed subsequences), independently of the Model.

  Interpretation of C12 made precise (see DESIGN.md §C12):
  * ThrowError policy: Success iff the input has no ill-formed subsequence; otherwise the
    iterator is the index of the first ill-formed subsequence, the output holds exactly the
    transcoding of what precedes it, and the code is InvalidSequence — or UnexpectedEnd when that
    subsequence is a lead unit whose declared length exceeds the remaining input.
  * Skip policy: the output is the transcoding of the scalars, in order, with each maximal run of
    ill-formed subsequences replaced by `k` marks, `1 ≤ k ≤ number of units in the run` (the
    pinned tests fix "one mark per lead byte + declared tails", Unicode recommends one per
    maximal subpart; both satisfy this), and the invalid count is the total number of marks.
    A lead unit whose declared length exceeds the remaining input may instead end the
    operation with UnexpectedEnd at its index.
-/
import BSVerif.Utf.Model
import BSVerif.Utf.Spec

namespace BSVerif.Utf.Oracle
open BSVerif.Utf BSVerif.Utf.Spec

inductive Verdict where
  | ok
  | known (cls : String)
  | bad (why : String)
  deriving Repr, DecidableEq

/-- declared sequence length of a lead unit (for the UnexpectedEnd allowance) -/
def declaredLen (w : Nat) (u : Nat) : Nat :=
  if w = 8 then
    if u < 0xC0 then 1 else if u < 0xE0 then 2 else if u < 0xF0 then 3 else if u < 0xF8 then 4
    else if u < 0xFC then 5 else if u < 0xFE then 6 else 1
  else if w = 16 then (if 0xD800 ≤ u ∧ u ≤ 0xDBFF then 2 else 1)
  else 1

/-- group consecutive bad segments: (scalars pieces) as `Sum`: inl c = scalar, inr n = bad run of n units -/
def runs : List Seg → List (Sum Nat Nat)
  | [] => []
  | .scalar c _ :: r => .inl c :: runs r
  | .bad n :: r =>
    match runs r with
    | .inr m :: r' => .inr (n + m) :: r'
    | r' => .inr n :: r'

/-- Does `out` match the run pattern (scalars transcoded, each bad run of `n` units replaced by
    `k` marks, 1 ≤ k ≤ n)? Returns the total number of marks used. For an empty mark the count
    cannot be observed: the minimum (one per run) is returned. -/
def matchRuns (wo : Nat) (mark : List Nat) : List (Sum Nat Nat) → List Nat → Nat → Option Nat
  | [], out, acc => if out.isEmpty then some acc else none
  | .inl c :: r, out, acc =>
    let e := enc wo c
    if e.isPrefixOf out then matchRuns wo mark r (out.drop e.length) acc else none
  | .inr n :: r, out, acc =>
    (List.range n).findSome? fun i =>
      let k := i + 1
      let ms := (List.replicate k mark).flatten
      if ms.isPrefixOf out then matchRuns wo mark r (out.drop ms.length) (acc + k) else none

def totalBadUnits (rs : List (Sum Nat Nat)) : Nat :=
  rs.foldl (fun a x => match x with | .inr n => a + n | _ => a) 0
def numRuns (rs : List (Sum Nat Nat)) : Nat :=
  rs.foldl (fun a x => match x with | .inr _ => a + 1 | _ => a) 0

/-- segments strictly before unit index `idx` (must fall on a segment boundary) -/
def segsBefore : List Seg → Nat → Nat → Option (List Seg)
  | _, 0, _ => some []
  | [], _, _ => none
  | s :: r, idx, _ => if s.len ≤ idx then (segsBefore r (idx - s.len) 0).map (s :: ·) else none

/-- known-finding class: a UTF-8 lead byte whose declared tail bytes are consumed although one of
    them is not a continuation byte (pinned by Utf8DecodeTest.ShouldDecodeUtf8WhenWrongTail*). -/
def hasSwallowRisk : List Nat → Bool
  | [] => false
  | b :: rest =>
    let k := declaredLen 8 b - 1
    (0xC0 ≤ b && b < 0xFE && (rest.take k).any (fun t => !(0x80 ≤ t && t < 0xC0))) ||
    (0xF8 ≤ b && b < 0xFE && !rest.isEmpty) || hasSwallowRisk rest

def judge (wi wo : Nat) (pol : Policy) (mark : Option (List Nat)) (out0 inp : List Nat) (r : Res) : Verdict :=
  if wi = wo then
    -- same-width copies are outside C11/C12 except on well-formed input (C11)
    let segs := segment wi inp
    if hasBad segs then .ok
    else if r.out = out0 ++ inp ∧ r.code = .success ∧ r.iter = inp.length ∧ r.invalid = 0 then .ok
    else .bad "same-width copy of well-formed text altered"
  else
  let segs := segment wi inp
  let m := mark.getD []
  if ¬ out0.isPrefixOf r.out then .bad "prior output content not preserved" else
  let produced := r.out.drop out0.length
  if r.iter > inp.length then .bad "iterator out of bounds" else
  if ¬ hasBad segs then
    if r.code = .success ∧ r.iter = inp.length ∧ r.invalid = 0 ∧ produced = encs wo (scalarsOf segs) then .ok
    else .bad "well-formed input not transcoded exactly"
  else
    let swallow := wi = 8 ∧ hasSwallowRisk inp
    let unexpectedEndOk : Bool :=
      match inp.drop r.iter with
      | u :: rest => decide (declaredLen wi u > 1 + rest.length)
      | [] => false
    match pol with
    | .throwError =>
      match firstBad segs 0 with
      | none => .bad "internal"
      | some fb =>
        if r.code = .success then .bad "ill-formed input accepted under ThrowError"
        else if r.iter ≠ fb then
          -- an UnexpectedEnd for a truncated lead may legitimately be found first only if it IS the first bad
          .bad "failure position is not the start of the first ill-formed sequence"
        else
          match segsBefore segs fb 0 with
          | none => .bad "internal"
          | some pre =>
            if produced ≠ encs wo (scalarsOf pre) then .bad "output before the failure is wrong"
            else if r.code = .unexpectedEnd ∧ ¬ unexpectedEndOk then .bad "UnexpectedEnd for a complete sequence"
            else .ok
    | .skip =>
      if r.code = .invalidSequence then .bad "InvalidSequence under Skip policy" else
      let segs' : Option (List Seg) :=
        if r.code = .unexpectedEnd then
          if unexpectedEndOk then segsBefore segs r.iter 0 else none
        else if r.iter = inp.length then some segs else none
      match segs' with
      | none => if swallow then .known "utf8-declared-tails-swallowed" else .bad "iterator/code inconsistent with input"
      | some ss =>
        let rs := runs ss
        match matchRuns wo m rs produced 0 with
        | none => if swallow then .known "utf8-declared-tails-swallowed" else .bad "output is not scalars+marks of the input"
        | some k =>
          let countOk : Bool :=
            if m.isEmpty then decide (numRuns rs ≤ r.invalid ∧ r.invalid ≤ totalBadUnits rs)
            else decide (r.invalid = k)
          if countOk then .ok
          else if swallow then .known "utf8-declared-tails-swallowed" else .bad "invalid count ≠ number of replacements"

end BSVerif.Utf.Oracle
