/-
  Helper lemmas for C12: the "shape" of every result of the transcoding loops (for ALL inputs,
  well-formed or not), and the inverse arithmetic showing that the decoders accept nothing but
  standard encodings.
-/
import BSVerif.Utf.Model
import BSVerif.Utf.Spec

namespace BSVerif.Utf
open Spec

/-- output pieces: `some c` = the standard encoding of scalar `c`, `none` = one error mark -/
def render (wo : Nat) (mark : Option (List Nat)) : List (Option Nat) → List Nat
  | [] => []
  | some c :: r => enc wo c ++ render wo mark r
  | none :: r => mark.getD [] ++ render wo mark r

/-- What every result looks like: prior output preserved; appended part = encodings of scalars and
    marks; under Skip the invalid count is the number of marks and InvalidSequence never occurs;
    under ThrowError no mark is ever written and the count is 1 exactly when failing. -/
def Shape (wo : Nat) (pol : Policy) (mark : Option (List Nat)) (out : List Nat) (inv : Nat) (r : Res) : Prop :=
  ∃ items : List (Option Nat),
    r.out = out ++ render wo mark items ∧ (∀ c, some c ∈ items → IsScalar c) ∧
    (pol = .skip → r.invalid = inv + items.count none ∧ r.code ≠ .invalidSequence) ∧
    (pol = .throwError → none ∉ items ∧ r.invalid = inv + (if r.code = .invalidSequence then 1 else 0))

theorem shape_stop {wo pol mark out inv} (code : Code) (pos : Nat) (hc : code ≠ .invalidSequence) :
    Shape wo pol mark out inv ⟨out, code, pos, inv⟩ := by
  refine ⟨[], ?_, ?_, ?_, ?_⟩ <;> simp [render, hc]

theorem shape_throw {wo mark out inv} (pos : Nat) :
    Shape wo .throwError mark out inv ⟨out, .invalidSequence, pos, inv + 1⟩ := by
  refine ⟨[], ?_, ?_, ?_, ?_⟩ <;> simp [render]

theorem shape_scalar {wo pol mark out inv r} (c : Nat) (hc : IsScalar c) (e : List Nat) (he : e = enc wo c)
    (h : Shape wo pol mark (out ++ e) inv r) : Shape wo pol mark out inv r := by
  subst he
  obtain ⟨items, h1, h2, h3, h4⟩ := h
  refine ⟨some c :: items, by simp [render, h1], ?_, ?_, ?_⟩
  · intro x hx; simp at hx; rcases hx with rfl | hx; exact hc; exact h2 x hx
  · intro hp; simpa using h3 hp
  · intro hp; have := h4 hp; simp_all

theorem shape_mark {wo mark out inv r}
    (h : Shape wo .skip mark (out ++ mark.getD []) (inv + 1) r) : Shape wo .skip mark out inv r := by
  obtain ⟨items, h1, h2, h3, h4⟩ := h
  refine ⟨none :: items, by simp [render, h1], ?_, ?_, ?_⟩
  · intro x hx; simp at hx; exact h2 x hx
  · intro hp; have := h3 hp; simp_all; omega
  · intro hp; cases hp

theorem handleError_none {out pol mark} (h : handleError out pol mark = none) : pol = .throwError := by
  cases pol <;> simp_all [handleError]

theorem handleError_some {out pol mark out'} (h : handleError out pol mark = some out') :
    pol = .skip ∧ out' = out ++ mark.getD [] := by
  cases pol <;> cases mark <;> simp_all [handleError]

theorem foldTails_wrong (ts : List Nat) (sym : Nat) : (foldTails ts sym true).2 = true := by
  induction ts generalizing sym with
  | nil => simp [foldTails]
  | cons t ts ih => simp [foldTails, ih]

/-- If the lead byte and its declared tails pass every check of `Utf8::Decode`, they are exactly the
    standard (shortest-form) UTF-8 encoding of the decoded scalar. -/
theorem decode8_accepts_only_standard (b : Nat) (rest : List Nat) (hb8 : ¬ b < 0x80)
    (tails sym0 minSym : Nat) (wrong0 : Bool) (hc : classify8 b = (tails, sym0, minSym, wrong0))
    (hlen : ¬ rest.length < tails - 1) (sym : Nat)
    (hf : foldTails (rest.take (tails - 1)) sym0 wrong0 = (sym, false))
    (hmin : ¬ sym < minSym) (hmax : ¬ sym > 0x10FFFF) (hsur : isSurrogate sym = false) :
    b :: rest.take (tails - 1) = enc8 sym := by
  unfold classify8 at hc
  simp [isSurrogate] at hsur
  split at hc
  · -- two bytes
    injection hc with h1 hc; injection hc with h2 hc; injection hc with h3 h4
    subst h1 h2 h3 h4
    match rest, hlen with
    | [], h => simp at h
    | t :: rest', _ =>
      simp [foldTails] at hf
      split at hf
      · simp at hf; subst hf
        unfold enc8
        have n1 : ¬ (b % 32 * 64 + t % 64 < 128) := by omega
        have n2 : (b % 32 * 64 + t % 64 < 2048) := by omega
        simp [n1, n2]; omega
      · simp at hf
  · split at hc
    · injection hc with h1 hc; injection hc with h2 hc; injection hc with h3 h4
      subst h1 h2 h3 h4
      match rest, hlen with
      | [], h => simp at h
      | [_], h => simp at h
      | t1 :: t2 :: rest', _ =>
        simp [foldTails] at hf
        split at hf
        · split at hf
          · simp at hf; subst hf
            unfold enc8
            have n1 : ¬ ((b % 16 * 64 + t1 % 64) * 64 + t2 % 64 < 128) := by omega
            have n2 : ¬ ((b % 16 * 64 + t1 % 64) * 64 + t2 % 64 < 2048) := by omega
            have n3 : ((b % 16 * 64 + t1 % 64) * 64 + t2 % 64 < 65536) := by omega
            simp [n1, n2, n3]; omega
          · simp at hf
        · simp [foldTails] at hf
    · split at hc
      · injection hc with h1 hc; injection hc with h2 hc; injection hc with h3 h4
        subst h1 h2 h3 h4
        match rest, hlen with
        | [], h => simp at h
        | [_], h => simp at h
        | [_, _], h => simp at h
        | t1 :: t2 :: t3 :: rest', _ =>
          simp [foldTails] at hf
          split at hf
          · split at hf
            · split at hf
              · simp at hf; subst hf
                unfold enc8
                have n1 : ¬ (((b % 8 * 64 + t1 % 64) * 64 + t2 % 64) * 64 + t3 % 64 < 128) := by omega
                have n2 : ¬ (((b % 8 * 64 + t1 % 64) * 64 + t2 % 64) * 64 + t3 % 64 < 2048) := by omega
                have n3 : ¬ (((b % 8 * 64 + t1 % 64) * 64 + t2 % 64) * 64 + t3 % 64 < 65536) := by omega
                simp [n1, n2, n3]; omega
              · simp at hf
            · simp [foldTails] at hf
          · simp [foldTails] at hf
      · -- 5/6-byte leads and invalid start codes start with wrong = true
        have hw : wrong0 = true := by
          split at hc
          · injection hc with _ hc; injection hc with _ hc; injection hc with _ h4; exact h4.symm
          · split at hc
            · injection hc with _ hc; injection hc with _ hc; injection hc with _ h4; exact h4.symm
            · injection hc with _ hc; injection hc with _ hc; injection hc with _ h4; exact h4.symm
        subst hw
        have := foldTails_wrong (rest.take (tails - 1)) sym0
        rw [hf] at this; simp at this

end BSVerif.Utf
