/-
  Helper lemmas for the no-hang theorem of C13: every conversion loop consumes at least one unit of
  an input of six or more units unless it stops with InvalidSequence.
-/
import BSVerif.Utf.Stream
import BSVerif.Props.C12

namespace BSVerif.Utf
open BSVerif.Props.C12

theorem classify8_tails_le (b : Nat) : (classify8 b).1 ≤ 6 := by
  unfold classify8; split <;> (try split) <;> (try split) <;> (try split) <;> (try split) <;> simp

theorem decode8_iter_pos (w : Nat) (pol : Policy) (mark : Option (List Nat)) (inp : List Nat) (out : List Nat) (inv : Nat)
    (hlen : 6 ≤ inp.length) (hc : (decode8 w pol mark inp 0 out inv).code ≠ .invalidSequence) :
    0 < (decode8 w pol mark inp 0 out inv).iter := by
  match inp, hlen with
  | b :: rest, hlen =>
    rw [decode8] at hc ⊢
    split
    · have := (decode8_bounds w pol mark rest (0 + 1) (out ++ [b]) inv).1; omega
    · rename_i hb
      simp only [hb, if_false] at hc
      have ht := classify8_tails_le b
      generalize hcl : classify8 b = cl at hc ht ⊢
      obtain ⟨tails, sym0, minSym, wrong0⟩ := cl
      simp only at hc ht ⊢
      have hk : ¬ rest.length < tails - 1 := by simp at hlen; omega
      simp only [hk, if_false] at hc ⊢
      generalize hft : foldTails (List.take (tails - 1) rest) sym0 wrong0 = ft at hc ⊢
      obtain ⟨sym, wrong⟩ := ft
      simp only at hc ⊢
      split
      · rename_i hcond
        simp only [hcond, if_true] at hc
        cases hE : handleError out pol mark with
        | none => simp [hE] at hc
        | some out' =>
          simp only []
          exact Nat.lt_of_lt_of_le (by omega : 0 < 0 + 1 + (tails - 1)) (decode8_bounds _ _ _ _ _ _ _).1
      · split
        · exact Nat.lt_of_lt_of_le (by omega : 0 < 0 + 1 + (tails - 1)) (decode8_bounds _ _ _ _ _ _ _).1
        · exact Nat.lt_of_lt_of_le (by omega : 0 < 0 + 1 + (tails - 1)) (decode8_bounds _ _ _ _ _ _ _).1

theorem encode8_iter_pos (wi : Nat) (pol : Policy) (mark : Option (List Nat)) (inp : List Nat) (out : List Nat) (inv : Nat)
    (hlen : 2 ≤ inp.length) (hc : (encode8 wi pol mark inp 0 out inv).code ≠ .invalidSequence) :
    0 < (encode8 wi pol mark inp 0 out inv).iter := by
  match inp, hlen with
  | u :: low :: rest, _ =>
    rw [encode8.eq_def] at hc ⊢
    simp only at hc ⊢
    repeat' split
    all_goals first
      | (simp_all; done)
      | exact Nat.lt_of_lt_of_le (by omega : 0 < 0 + 1) (encode8_bounds _ _ _ _ _ _ _).1
      | exact Nat.lt_of_lt_of_le (by omega : 0 < 0 + 2) (encode8_bounds _ _ _ _ _ _ _).1

theorem decode16to32_iter_pos (pol : Policy) (mark : Option (List Nat)) (inp : List Nat) (out : List Nat) (inv : Nat)
    (hlen : 2 ≤ inp.length) (hc : (decode16to32 pol mark inp 0 out inv).code ≠ .invalidSequence) :
    0 < (decode16to32 pol mark inp 0 out inv).iter := by
  match inp, hlen with
  | u :: low :: rest, _ =>
    rw [decode16to32.eq_def] at hc ⊢
    simp only at hc ⊢
    repeat' split
    all_goals first
      | (simp_all; done)
      | exact Nat.lt_of_lt_of_le (by omega : 0 < 0 + 1) (decode16to32_bounds _ _ _ _ _ _).1
      | exact Nat.lt_of_lt_of_le (by omega : 0 < 0 + 2) (decode16to32_bounds _ _ _ _ _ _).1

theorem encode16from32_iter_pos (pol : Policy) (mark : Option (List Nat)) (inp : List Nat) (out : List Nat) (inv : Nat)
    (hlen : 1 ≤ inp.length) (hc : (encode16from32 pol mark inp 0 out inv).code ≠ .invalidSequence) :
    0 < (encode16from32 pol mark inp 0 out inv).iter := by
  match inp, hlen with
  | u :: rest, _ =>
    rw [encode16from32.eq_def] at hc ⊢
    simp only at hc ⊢
    repeat' split
    all_goals first
      | (simp_all; done)
      | exact Nat.lt_of_lt_of_le (by omega : 0 < 0 + 1) (encode16from32_bounds _ _ _ _ _ _).1

theorem copy16_iter_pos (inp : List Nat) (out : List Nat) (hlen : 2 ≤ inp.length) :
    0 < (copy16 inp 0 out).iter := by
  match inp, hlen with
  | u :: low :: rest, _ =>
    rw [copy16.eq_def]
    simp only [List.isEmpty_cons, Bool.false_eq_true, false_and, if_false]
    exact Nat.lt_of_lt_of_le (by omega : 0 < 0 + 1) (copy16_bounds _ _ _).1


/-! ### reader-level lemmas -/

theorem unitsOfBytes16_length (bs : List Nat) : (unitsOfBytes16 bs).length = bs.length / 2 := by
  fun_induction unitsOfBytes16 bs
  · simp_all; omega
  · rename_i l h
    match l with
    | [] => simp
    | [_] => simp
    | a :: b :: r => exact absurd rfl (h a b r)

theorem unitsOfBytes32_length (bs : List Nat) : (unitsOfBytes32 bs).length = bs.length / 4 := by
  fun_induction unitsOfBytes32 bs
  · simp_all; omega
  · rename_i l h
    match l with
    | [] => simp
    | [_] => simp
    | [_, _] => simp
    | [_, _, _] => simp
    | a :: b :: c :: d :: r => exact absurd rfl (h a b c d r)

theorem read_spec (s : IStream) (n : Nat) :
    (s.read n).1.length + (s.read n).2.rest.length = s.rest.length ∧
    ((s.read n).2.eof = false → s.eof = false ∧ (n = 0 ∨ (s.read n).1.length = n)) ∧
    (s.eof = true → (s.read n).1 = [] ∧ (s.read n).2 = s) ∧
    ((s.read n).2.eof = true → s.eof = false → (s.read n).2.rest = []) ∧
    (s.eof = true → (s.read n).2.eof = true) ∧
    (s.read n).1.length ≤ n := by
  unfold IStream.read
  split
  · simp_all
  · split
    · simp_all
    · split
      · simp_all; omega
      · simp_all [List.length_take] <;> omega
def WInv (r : Reader) : Prop := r.startOff + r.win.length ≤ r.N

theorem readNext_eq (r : Reader) (hinv : WInv r) :
    r.readNext = (!(r.stream.read (r.N - r.win.length)).1.isEmpty,
      { r with startOff := 0, win := r.win ++ (r.stream.read (r.N - r.win.length)).1,
               stream := (r.stream.read (r.N - r.win.length)).2 }) := by
  unfold WInv at hinv
  unfold Reader.readNext
  by_cases h1 : r.startOff = r.N
  · have hw : r.win = [] := by
      have : r.win.length = 0 := by omega
      simpa using this
    simp [h1, hw]
  · by_cases h2 : r.startOff = 0
    · have h3 : ¬ (0 = r.N) := by omega
      simp [h2, h3]
    · simp [h1, h2]

theorem readNext_measure (r : Reader) (hinv : WInv r) :
    r.readNext.2.measure ≤ r.measure ∧
    (r.readNext.2.stream.eof = false → r.N ≤ r.readNext.2.win.length) ∧
    (r.readNext.2.stream.eof = true → r.stream.eof = false → r.readNext.2.measure < r.measure) ∧
    (r.stream.eof = true → r.readNext.2.stream.eof = true ∧ r.readNext.2.win = r.win ∧ r.readNext.1 = false) ∧
    r.readNext.2.win.length ≤ r.N ∧
    (r.readNext.1 = false → r.readNext.2.win = r.win) ∧
    (r.readNext.1 = true → 0 < r.readNext.2.win.length) := by
  rw [readNext_eq r hinv]
  unfold WInv at hinv
  obtain ⟨h1, h2, h3, h4, h5, h6⟩ := read_spec r.stream (r.N - r.win.length)
  simp only [Reader.measure]
  generalize r.stream.read (r.N - r.win.length) = rd at *
  obtain ⟨got, st⟩ := rd
  simp only at *
  refine ⟨?_, ?_, ?_, ?_, ?_, ?_, ?_⟩
  · simp only [List.length_append]
    cases he : st.eof <;> cases he0 : r.stream.eof <;> simp_all <;> omega
  · intro he; have := h2 he; simp only [List.length_append]; omega
  · intro he he0
    have := h4 he he0
    simp only [List.length_append, he, he0, this]; simp; omega
  · intro he0
    have := h3 he0
    simp [this, he0]
  · simp only [List.length_append]; omega
  · intro hg; simp at hg; simp [hg]
  · intro hg; simp at hg
    cases got with
    | nil => exact absurd rfl hg
    | cons _ _ => simp; omega
theorem chunkRes_bounds (utf : UtfType) (wo : Nat) (pol : Policy) (mark : Option (List Nat)) (units out : List Nat) :
    (chunkRes utf wo pol mark units out).iter ≤ units.length := by
  have a := fun w inp => (decode8_bounds w pol mark inp 0 out 0).2
  have b := fun w inp => (encode8_bounds w pol mark inp 0 out 0).2
  have c := fun inp => (decode16to32_bounds pol mark inp 0 out 0).2
  have d := fun inp => (encode16from32_bounds pol mark inp 0 out 0).2
  have e := fun inp => (copy16_bounds inp 0 out).2
  cases utf <;> simp only [chunkRes, UtfType.width, UtfType.isBE, utf8Decode, decodeEndian, utf16Decode, utf32Decode,
      utf16Encode, copyAll] <;> (repeat' split) <;> simp_all <;>
    first
    | (have := a wo units; omega)
    | (have := b 16 units; omega)
    | (have := b 32 units; omega)
    | (have := c units; omega)
    | (have := d units; omega)
    | (have := e units; omega)
    | (have := b 16 (units.map (reverseUnit 16)); simp at this; omega)
    | (have := b 32 (units.map (reverseUnit 32)); simp at this; omega)
    | (have := c (units.map (reverseUnit 16)); simp at this; omega)
    | (have := d (units.map (reverseUnit 32)); simp at this; omega)
    | (have := e (units.map (reverseUnit 16)); simp at this; omega)

theorem chunkRes_pos (utf : UtfType) (wo : Nat) (pol : Policy) (mark : Option (List Nat)) (units out : List Nat)
    (hlen : 6 ≤ units.length) (hc : (chunkRes utf wo pol mark units out).code ≠ .invalidSequence) :
    0 < (chunkRes utf wo pol mark units out).iter := by
  have hl16 : 6 ≤ (units.map (reverseUnit 16)).length := by simpa using hlen
  have hl32 : 6 ≤ (units.map (reverseUnit 32)).length := by simpa using hlen
  cases utf <;> simp only [chunkRes, UtfType.width, UtfType.isBE, utf8Decode, decodeEndian, utf16Decode, utf32Decode,
      utf16Encode, copyAll] at hc ⊢ <;> (repeat' split) <;> (repeat' split at hc) <;> (try simp_all) <;>
    first
    | omega
    | exact decode8_iter_pos _ _ _ _ _ _ hlen hc
    | exact encode8_iter_pos _ _ _ _ _ _ (by omega) hc
    | exact decode16to32_iter_pos _ _ _ _ _ (by omega) hc
    | exact encode16from32_iter_pos _ _ _ _ _ (by omega) hc
    | exact copy16_iter_pos _ _ (by omega)
    | exact encode8_iter_pos _ _ _ _ _ _ (by omega) (by simpa using hc)
    | exact decode16to32_iter_pos _ _ _ _ _ (by simp; omega) (by simpa using hc)
    | exact encode16from32_iter_pos _ _ _ _ _ (by simp; omega) (by simpa using hc)
    | exact copy16_iter_pos _ _ (by simp; omega)
    | exact encode8_iter_pos _ _ _ _ _ _ (by simp; omega) hc

theorem unitsOfBytes_length (utf : UtfType) (bs : List Nat) :
    (unitsOfBytes utf.width bs).length = bs.length / (utf.width / 8) := by
  cases utf <;> simp [unitsOfBytes, UtfType.width, unitsOfBytes16_length, unitsOfBytes32_length]

theorem width_cases (utf : UtfType) : utf.width / 8 = 1 ∨ utf.width / 8 = 2 ∨ utf.width / 8 = 4 := by
  cases utf <;> simp [UtfType.width]

/-- what `DecodeChunk` does to the window -/
theorem decodeChunk_spec (r : Reader) (out : List Nat) :
    (r.decodeChunk out).2.2.stream = r.stream ∧ (r.decodeChunk out).2.2.N = r.N ∧
    (r.decodeChunk out).2.2.win.length ≤ r.win.length ∧
    (r.decodeChunk out).2.2.startOff + (r.decodeChunk out).2.2.win.length ≤ r.startOff + r.win.length ∧
    ((r.decodeChunk out).1 = .success → r.stream.eof = true → r.win ≠ [] →
        (r.decodeChunk out).2.2.win.length < r.win.length) ∧
    ((r.decodeChunk out).1 = .success → r.stream.eof = false → 32 ≤ r.win.length →
        (r.decodeChunk out).2.2.win.length < r.win.length) := by
  have hb := width_cases r.utf
  have hul := unitsOfBytes_length r.utf (r.win.take (r.win.length - r.win.length % (r.utf.width / 8)))
  have hbd := chunkRes_bounds r.utf r.wo r.pol r.mark
    (unitsOfBytes r.utf.width (r.win.take (r.win.length - r.win.length % (r.utf.width / 8)))) out
  have hpos := chunkRes_pos r.utf r.wo r.pol r.mark
    (unitsOfBytes r.utf.width (r.win.take (r.win.length - r.win.length % (r.utf.width / 8)))) out
  simp only [Reader.decodeChunk]
  generalize hres : chunkRes r.utf r.wo r.pol r.mark
    (unitsOfBytes r.utf.width (r.win.take (r.win.length - r.win.length % (r.utf.width / 8)))) out = res at *
  generalize hbpu : r.utf.width / 8 = bpu at *
  rw [hul] at hbd hpos
  simp only [List.length_take] at hbd hpos
  have hcons : res.iter * bpu ≤ r.win.length := by
    have : min (r.win.length - r.win.length % bpu) r.win.length = r.win.length - r.win.length % bpu := by omega
    rw [this] at hbd
    have h2 : (r.win.length - r.win.length % bpu) / bpu * bpu ≤ r.win.length - r.win.length % bpu := Nat.div_mul_le_self _ _
    have h3 : res.iter * bpu ≤ (r.win.length - r.win.length % bpu) / bpu * bpu := Nat.mul_le_mul_right _ hbd
    omega
  have hpos' : 32 ≤ r.win.length → res.code ≠ .invalidSequence → 0 < res.iter * bpu := by
    intro h32 hc
    have : 6 ≤ min (r.win.length - r.win.length % bpu) r.win.length / bpu := by
      have : min (r.win.length - r.win.length % bpu) r.win.length = r.win.length - r.win.length % bpu := by omega
      rw [this]
      rcases hb with h | h | h <;> rw [h] <;> omega
    have := hpos this hc
    rcases hb with h | h | h <;> rw [h] <;> omega
  have hwne : r.win ≠ [] → 0 < r.win.length := by
    intro h; cases hw : r.win with
    | nil => exact absurd hw h
    | cons _ _ => simp
  have hdrop : (List.drop (res.iter * bpu) r.win).isEmpty = true ↔ r.win.length ≤ res.iter * bpu := by
    simp [List.drop_eq_nil_iff]
  clear hres hul hpos hbd
  cases heof : r.stream.eof
  · simp only [Bool.false_eq_true, if_false]
    split
    · rename_i hc
      have hni : res.code ≠ .invalidSequence := by rcases hc with h | h <;> simp [h]
      refine ⟨rfl, rfl, ?_, ?_, ?_, ?_⟩ <;> simp [List.length_drop] <;> (try intros) <;> (try have := hpos' (by assumption) hni) <;> omega
    · refine ⟨rfl, rfl, ?_, ?_, ?_, ?_⟩ <;> simp [List.length_drop] <;> omega
  · simp only [if_true]
    split
    · cases handleError res.out r.pol r.mark with
      | some o => refine ⟨rfl, rfl, ?_, ?_, ?_, ?_⟩ <;> simp <;> (try intro h; exact hwne h)
      | none => refine ⟨rfl, rfl, ?_, ?_, ?_, ?_⟩ <;> simp [List.length_drop] <;> omega
    · rename_i hc
      split
      · rename_i hs
        have hemp : r.win.length ≤ res.iter * bpu := by
          have : ¬ (¬(List.drop (res.iter * bpu) r.win).isEmpty = true) := fun h => hc (Or.inr ⟨hs, h⟩)
          exact hdrop.mp (by simpa using this)
        refine ⟨rfl, rfl, ?_, ?_, ?_, ?_⟩ <;> simp [List.length_drop] <;> (try intro h; have := hwne h) <;> omega
      · refine ⟨rfl, rfl, ?_, ?_, ?_, ?_⟩ <;> simp [List.length_drop] <;> omega

theorem readNext_fields (r : Reader) (hinv : WInv r) :
    r.readNext.2.startOff = 0 ∧ r.readNext.2.N = r.N := by
  rw [readNext_eq r hinv]; simp

theorem readChunk_progress' (r : Reader) (out : List Nat) (hN : 32 ≤ r.N) (hinv : WInv r)
    (hs : (r.readChunk out).1 = .success) :
    (r.readChunk out).2.2.measure < r.measure ∧ WInv (r.readChunk out).2.2 ∧ (r.readChunk out).2.2.N = r.N := by
  obtain ⟨m1, m2, m3, m4, m5, m6, m7⟩ := readNext_measure r hinv
  obtain ⟨f1, f2⟩ := readNext_fields r hinv
  unfold Reader.readChunk at hs ⊢
  by_cases hend : r.isEnd = true
  · simp [hend] at hs
  · simp only [hend, Bool.false_eq_true, if_false] at hs ⊢
    generalize hrn : r.readNext = rn at *
    obtain ⟨any, r1⟩ := rn
    simp only at *
    by_cases hstop : (!any && r1.win.isEmpty) = true
    · simp [hstop] at hs
    · simp only [hstop, Bool.false_eq_true, if_false] at hs ⊢
      have hwin1 : 0 < r1.win.length := by
        cases hany : any
        · have := m6 hany
          simp [hany] at hstop
          cases hw : r1.win with
          | nil => exact absurd hw hstop
          | cons _ _ => simp
        · exact m7 hany
      by_cases hraw : r1.utf = .utf8 ∧ r1.wo = 8
      · simp only [hraw, and_self, if_true] at hs ⊢
        refine ⟨?_, ?_, ?_⟩
        · simp only [Reader.measure] at m1 ⊢; simp; omega
        · simp [WInv]
        · exact f2
      · simp only [hraw, if_false] at hs ⊢
        obtain ⟨d1, d2, d3, d4, d5, d6⟩ := decodeChunk_spec r1 out
        refine ⟨?_, ?_, ?_⟩
        · simp only [Reader.measure] at m1 m3 ⊢
          rw [d1]
          cases he1 : r1.stream.eof
          · have := m2 he1
            have := d6 hs he1 (by omega)
            simp [he1] at m1 ⊢; omega
          · cases he0 : r.stream.eof
            · have := m3 he1 he0
              simp [he1, he0] at this ⊢; omega
            · have hw := (m4 he0).2.1
              have hne : r1.win ≠ [] := by intro h; simp [h] at hwin1
              have := d5 hs he1 hne
              simp [he1, he0] at m1 ⊢; omega
        · unfold WInv; rw [d2, f2]; omega
        · rw [d2, f2]

theorem readAll_no_hang (fuel : Nat) (r : Reader) (out : List Nat) (acc : List ReadResult)
    (hN : 32 ≤ r.N) (hinv : WInv r) (hf : r.measure < fuel) :
    (Reader.readAll fuel r out acc).2.2 = false := by
  induction fuel generalizing r out acc with
  | zero => omega
  | succ fuel ih =>
    unfold Reader.readAll
    generalize hrc : r.readChunk out = rc
    obtain ⟨res, out', r'⟩ := rc
    cases res with
    | success =>
      have hs : (r.readChunk out).1 = .success := by rw [hrc]
      obtain ⟨p1, p2, p3⟩ := readChunk_progress' r out hN hinv hs
      rw [hrc] at p1 p2 p3
      simp only at p1 p2 p3 ⊢
      exact ih r' out' _ (by omega) p2 (by omega)
    | decodeError => simp
    | endFile => simp

theorem detect_offset_le (s : List Nat) : (detect s).2 ≤ s.length := by
  unfold detect
  repeat' split
  all_goals simp_all [startsWith]
  all_goals (rename_i h; have := List.IsPrefix.length_le h; simpa using this)

theorem mk'_spec (N wo : Nat) (pol : Policy) (mark : Option (List Nat)) (bytes : List Nat) :
    WInv (Reader.mk' N wo pol mark bytes) ∧ (Reader.mk' N wo pol mark bytes).N = N ∧
    (Reader.mk' N wo pol mark bytes).measure ≤ bytes.length + 1 := by
  have hinv0 : WInv ⟨N, wo, pol, mark, .utf8, 0, [], ⟨bytes, false⟩⟩ := by simp [WInv]
  obtain ⟨m1, m2, m3, m4, m5, m6, m7⟩ := readNext_measure _ hinv0
  obtain ⟨f1, f2⟩ := readNext_fields _ hinv0
  unfold Reader.mk'
  simp only
  generalize hrn : Reader.readNext ⟨N, wo, pol, mark, .utf8, 0, [], ⟨bytes, false⟩⟩ = rn at *
  obtain ⟨any, r1⟩ := rn
  simp only [Reader.measure] at *
  have hm0 : r1.stream.rest.length + r1.win.length + (if r1.stream.eof = true then 0 else 1) ≤ bytes.length + 1 := by
    simpa using m1
  cases any
  · simp only [Bool.false_eq_true, if_false]
    exact ⟨by unfold WInv; omega, f2, hm0⟩
  · simp only [if_true]
    have hoff := detect_offset_le r1.win
    refine ⟨?_, f2, ?_⟩
    · unfold WInv; simp [List.length_drop]; omega
    · simp [List.length_drop]; omega


end BSVerif.Utf
